/- C13 — helper lemmas about the model's primitives (Mathlib single modules only). -/
import GivaroModel.Model.NumTheo
import Mathlib.Tactic.Ring
import Mathlib.Tactic.LinearCombination
import Mathlib.Tactic.Linarith
import Mathlib.Data.Int.ModEq
import Mathlib.Data.ZMod.Basic
import Mathlib.Data.Nat.Totient
import Mathlib.NumberTheory.LegendreSymbol.Basic
import Mathlib.NumberTheory.LegendreSymbol.QuadraticReciprocity
namespace Givaro.Lemmas.NumTheo
open Givaro.Model.NumTheo

/-- the square-and-multiply loop computes `a^e mod m` (for every modulus, `m = 0` included) -/
theorem powmod_eq (a : Int) (e : Nat) (m : Int) : powmod a e m = a ^ e % m := by
  induction e using Nat.strong_induction_on generalizing a with
  | _ e ih =>
    rw [powmod]
    split
    · next h => subst h; simp
    · next h =>
      have hlt : e / 2 < e := by omega
      have hr := ih (e / 2) hlt (a * a % m)
      simp only [hr]
      have hsq : (a * a % m) ^ (e / 2) % m = (a * a) ^ (e / 2) % m :=
        Int.ModEq.pow (e / 2) (Int.mod_modEq (a * a) m)
      rw [hsq]
      split
      · next hodd =>
        have he : e = 2 * (e / 2) + 1 := by omega
        have : a ^ e = a * (a * a) ^ (e / 2) := by
          conv_lhs => rw [he]
          rw [pow_succ, pow_mul]; ring
        rw [this, Int.mul_emod, Int.emod_emod_of_dvd _ (dvd_refl m), ← Int.mul_emod]
      · next heven =>
        have he : e = 2 * (e / 2) := by omega
        have : a ^ e = (a * a) ^ (e / 2) := by
          conv_lhs => rw [he]
          rw [pow_mul]; ring
        rw [this]

/-- `operator%` (truncated remainder) is congruent to its argument -/
theorem tmod_dvd_sub (u p : Int) : p ∣ Int.tmod u p - u := by
  have := Int.tmod_def u p
  exact ⟨-(Int.tdiv u p), by rw [this]; ring⟩

theorem tmod_exists (u p : Int) : ∃ d, Int.tmod u p = u - p * d := ⟨Int.tdiv u p, Int.tmod_def u p⟩

theorem emod_zero_iff_dvd (a n : Int) : a % n = 0 ↔ n ∣ a := by
  constructor
  · exact Int.dvd_of_emod_eq_zero
  · exact Int.emod_eq_zero_of_dvd

theorem cast_powmod (a : Int) (e : Nat) (p : Nat) : ((powmod a e (p : Int) : Int) : ZMod p) = (a : ZMod p) ^ e := by
  rw [powmod_eq, ZMod.intCast_mod]; push_cast; rfl

theorem cast_tmod (u : Int) (p : Nat) : ((Int.tmod u (p : Int) : Int) : ZMod p) = (u : ZMod p) := by
  obtain ⟨d, hd⟩ := tmod_exists u p
  rw [hd]; push_cast; simp

theorem tonelli_init (amp x0 p : Int) :
    (Int.tmod (x0 * amp) p * Int.tmod (x0 * amp) p - amp * Int.tmod (x0 * x0 * amp) p) % p = 0 := by
  obtain ⟨d1, hd1⟩ := tmod_exists (x0 * amp) p
  obtain ⟨d2, hd2⟩ := tmod_exists (x0 * x0 * amp) p
  rw [hd1, hd2]
  apply Int.emod_eq_zero_of_dvd
  exact ⟨-2 * x0 * amp * d1 + p * d1 * d1 + amp * d2, by ring⟩

theorem powmod_ne_one_cast (a : Int) (e : Nat) (p : Nat) (hp : 2 ≤ p) (h : powmod a e (p : Int) ≠ 1) :
    (a : ZMod p) ^ e ≠ 1 := by
  intro hc
  apply h
  have h1 : ((powmod a e (p : Int) - 1 : Int) : ZMod p) = 0 := by
    push_cast; rw [cast_powmod, hc]; simp
  rw [ZMod.intCast_zmod_eq_zero_iff_dvd] at h1
  have ht : powmod a e (p : Int) % (p : Int) = powmod a e (p : Int) := by
    rw [powmod_eq, Int.emod_emod_of_dvd _ (dvd_refl _)]
  have h2 : powmod a e (p : Int) % (p : Int) = 1 % (p : Int) :=
    Int.emod_eq_emod_iff_emod_sub_eq_zero.mpr (Int.emod_eq_zero_of_dvd h1)
  have h3 : (1 : Int) % (p : Int) = 1 := Int.emod_eq_of_lt (by norm_num) (by exact_mod_cast hp)
  rw [← ht, h2, h3]

/-- the loop of `phi(res, Lf, n)` on naturals: when the product of the listed factors divides `r`,
    the result is `r / ∏ f · ∏ (f - 1)` -/
theorem phiLoop_nat : ∀ (Lf : List Nat) (r : Nat), (∀ f ∈ Lf, 0 < f) → Lf.prod ∣ r →
    Lf.foldl (fun res f => res / f * (f - 1)) r = r / Lf.prod * (Lf.map (fun f => f - 1)).prod := by
  intro Lf
  induction Lf with
  | nil => intro r _ _; simp
  | cons f t ih =>
    intro r hpos hdvd
    have hf : 0 < f := hpos f (by simp)
    have htpos : ∀ g ∈ t, 0 < g := fun g hg => hpos g (by simp [hg])
    have htp : 0 < t.prod := List.prod_pos (by simpa using htpos)
    obtain ⟨k, hk⟩ := hdvd
    rw [List.prod_cons] at hk
    simp only [List.foldl_cons, List.prod_cons, List.map_cons]
    have h1 : r / f = t.prod * k := by
      rw [hk, Nat.mul_assoc, Nat.mul_div_cancel_left _ hf]
    have hd : t.prod ∣ r / f * (f - 1) := ⟨k * (f - 1), by rw [h1]; ring⟩
    rw [ih _ htpos hd, h1]
    have h2 : t.prod * k * (f - 1) / t.prod = k * (f - 1) := by
      rw [Nat.mul_assoc, Nat.mul_div_cancel_left _ htp]
    have h3 : r / (f * t.prod) = k := by
      rw [hk, Nat.mul_div_cancel_left _ (Nat.mul_pos hf htp)]
    rw [h2, h3]; ring

/-- the `Int` loop of the model agrees with the natural-number loop -/
theorem phiLoop_cast : ∀ (Lf : List Nat) (r : Nat), (∀ f ∈ Lf, 0 < f) →
    (Lf.map (Nat.cast : Nat → Int)).foldl (fun res f => Int.tdiv res f * (f - 1)) (r : Int)
      = ((Lf.foldl (fun res f => res / f * (f - 1)) r : Nat) : Int) := by
  intro Lf
  induction Lf with
  | nil => intro r _; simp
  | cons f t ih =>
    intro r hpos
    have hf : 0 < f := hpos f (by simp)
    have htpos : ∀ g ∈ t, 0 < g := fun g hg => hpos g (by simp [hg])
    simp only [List.map_cons, List.foldl_cons]
    have : Int.tdiv (r : Int) (f : Int) * ((f : Int) - 1) = ((r / f * (f - 1) : Nat) : Int) := by
      push_cast [Nat.cast_sub hf]
      rw [Int.tdiv_eq_ediv_of_nonneg (by positivity)]
    rw [this, ih _ htpos]


/-- the stack of repeated squarings `p^(2^(j-1)), …, p^2, p` (head = back of the C++ list) -/
def powList (p : Int) : Nat → List Int
  | 0 => []
  | j + 1 => p ^ (2 ^ j) :: powList p j

theorem powList_length (p : Int) : ∀ j, (powList p j).length = j := by
  intro j; induction j with
  | zero => rfl
  | succ j ih => simp [powList, ih]

theorem logpBuild_spec (a p : Int) : ∀ (fuel i : Nat), p ^ (2 ^ i) ≤ a → a < p ^ (2 ^ (i + fuel)) →
    ∃ m, logpBuild fuel a (p ^ (2 ^ i)) (powList p i) = powList p (m + 1) ∧ p ^ (2 ^ m) ≤ a ∧ a < p ^ (2 ^ (m + 1)) := by
  intro fuel
  induction fuel with
  | zero => intro i h1 h2; simp at h2; omega
  | succ n ih =>
    intro i h1 h2
    rw [logpBuild]
    have hsq : p ^ (2 ^ i) * p ^ (2 ^ i) = p ^ (2 ^ (i + 1)) := by
      rw [← pow_add, ← two_mul, ← pow_succ']
    rw [hsq]
    have hl : p ^ (2 ^ i) :: powList p i = powList p (i + 1) := rfl
    rw [hl]
    by_cases hc : p ^ (2 ^ (i + 1)) ≤ a
    · rw [if_pos hc]
      exact ih (i + 1) hc (by rw [show i + 1 + n = i + (n + 1) by omega]; exact h2)
    · rw [if_neg hc]
      exact ⟨i, rfl, h1, by omega⟩

theorem logpDown_spec (a p : Int) : ∀ (j res : Nat), p ^ res ≤ a → a < p ^ (res + 2 ^ j) →
    ∃ r : Nat, logpDown a (powList p j) (p ^ res) (res : Int) = (r : Int) ∧ p ^ r ≤ a ∧ a < p ^ (r + 1) := by
  intro j
  induction j with
  | zero => intro res h1 h2; exact ⟨res, rfl, h1, by simpa using h2⟩
  | succ j ih =>
    intro res h1 h2
    simp only [powList, logpDown, powList_length]
    have hsq : p ^ res * p ^ (2 ^ j) = p ^ (res + 2 ^ j) := by rw [← pow_add]
    rw [hsq]
    by_cases hc : p ^ (res + 2 ^ j) ≤ a
    · rw [if_pos hc]
      have hcast : (res : Int) + 2 ^ j = ((res + 2 ^ j : Nat) : Int) := by push_cast; rfl
      rw [hcast]
      exact ih (res + 2 ^ j) hc (by rw [show res + 2 ^ j + 2 ^ j = res + 2 ^ (j + 1) by rw [pow_succ]; omega]; exact h2)
    · rw [if_neg hc]
      exact ih res h1 (by omega)


end Givaro.Lemmas.NumTheo
