/- C06 helper lemmas: mixed operands ruint<K> / rint<K> ⊗ built-in scalar. -/
import GivaroModel.Lemmas.RecIntInvMod
namespace Givaro.Model.RecInt

theorem int_mod_unique {r v k B : Int} (h0 : 0 ≤ r) (h1 : r < B) (h : r = v + k * B) : r = v % B := by
  have e : (v + k * B) % B = v % B := Int.add_mul_emod_self_right v k B
  have h3 : r % B = r := Int.emod_eq_of_lt h0 h1
  rw [← h3, h, e]

theorem wf_cast {n : Nat} (r : RU n) (h : WF r) : (0 : Int) ≤ val r ∧ (val r : Int) < Bn n :=
  ⟨by omega, by exact_mod_cast val_lt r h⟩

theorem smag_lt (w : Int) (h1 : -(2 : Int) ^ 64 < w) (hneg : w < 0) : smag w < B64 ∧ ((smag w : Nat) : Int) = -w := by
  unfold smag; simp only [B64]; constructor <;> omega

theorem toNat_lt (w : Int) (h0 : 0 ≤ w) (h2 : w < (2 : Int) ^ 64) : w.toNat < B64 ∧ ((w.toNat : Nat) : Int) = w := by
  simp only [B64]; constructor <;> omega

/-- value of a result that adds `c` with carry `k`, or subtracts with borrow -/
theorem add_s_ok {n : Nat} (a : RU n) (w : Int) (ha : WF a) (h1 : -(2 : Int) ^ 64 < w) (h2 : w < (2 : Int) ^ 64) :
    WF (add_s a w) ∧ (val (add_s a w) : Int) = ((val a : Int) + w) % Bn n := by
  unfold add_s
  by_cases hneg : w < 0
  · rw [if_pos hneg]
    obtain ⟨hm, hme⟩ := smag_lt w h1 hneg
    obtain ⟨hw, he⟩ := sub_l_ok a (smag w) ha hm
    refine ⟨hw, int_mod_unique (wf_cast _ hw).1 (wf_cast _ hw).2 (k := c2n (sub_l a (smag w)).2) ?_⟩
    have : ((val (sub_l a (smag w)).1 : Nat) : Int) + (smag w : Nat) = val a + (c2n (sub_l a (smag w)).2 : Nat) * (Bn n : Nat) := by exact_mod_cast he
    rw [hme] at this; omega
  · rw [if_neg hneg]
    obtain ⟨hm, hme⟩ := toNat_lt w (by omega) h2
    obtain ⟨hw, he⟩ := add_l_ok a w.toNat ha hm
    refine ⟨hw, int_mod_unique (wf_cast _ hw).1 (wf_cast _ hw).2 (k := -(c2n (add_l a w.toNat).2 : Int)) ?_⟩
    have : ((val (add_l a w.toNat).1 : Nat) : Int) + (c2n (add_l a w.toNat).2 : Nat) * (Bn n : Nat) = val a + (w.toNat : Nat) := by exact_mod_cast he
    rw [hme] at this; rw [Int.neg_mul]; omega

theorem sub_s_ok {n : Nat} (a : RU n) (w : Int) (ha : WF a) (h1 : -(2 : Int) ^ 64 < w) (h2 : w < (2 : Int) ^ 64) :
    WF (sub_s a w) ∧ (val (sub_s a w) : Int) = ((val a : Int) - w) % Bn n := by
  unfold sub_s
  by_cases hneg : w < 0
  · rw [if_pos hneg]
    obtain ⟨hm, hme⟩ := smag_lt w h1 hneg
    obtain ⟨hw, he⟩ := add_l_ok a (smag w) ha hm
    refine ⟨hw, int_mod_unique (wf_cast _ hw).1 (wf_cast _ hw).2 (k := -(c2n (add_l a (smag w)).2 : Int)) ?_⟩
    have : ((val (add_l a (smag w)).1 : Nat) : Int) + (c2n (add_l a (smag w)).2 : Nat) * (Bn n : Nat) = val a + (smag w : Nat) := by exact_mod_cast he
    rw [hme] at this; rw [Int.neg_mul]; omega
  · rw [if_neg hneg]
    obtain ⟨hm, hme⟩ := toNat_lt w (by omega) h2
    obtain ⟨hw, he⟩ := sub_l_ok a w.toNat ha hm
    refine ⟨hw, int_mod_unique (wf_cast _ hw).1 (wf_cast _ hw).2 (k := c2n (sub_l a w.toNat).2) ?_⟩
    have : ((val (sub_l a w.toNat).1 : Nat) : Int) + (w.toNat : Nat) = val a + (c2n (sub_l a w.toNat).2 : Nat) * (Bn n : Nat) := by exact_mod_cast he
    rw [hme] at this; omega

theorem neg_int {n : Nat} (x : RU n) (hx : WF x) (v : Int) (hv : (val x : Int) = v % Bn n) :
    WF (neg x) ∧ (val (neg x) : Int) = (-v) % Bn n := by
  obtain ⟨hw, he⟩ := neg_ok x hx
  have hB : (0 : Int) < Bn n := by exact_mod_cast Bn_pos n
  refine ⟨hw, ?_⟩
  have hvx := val_lt x hx
  rw [he, Int.natCast_mod, Nat.cast_sub (Nat.le_of_lt hvx), hv]
  rw [Int.sub_emod, Int.emod_emod_of_dvd _ (Int.dvd_refl _), ← Int.sub_emod]
  have : (Bn n : Int) - v = -v + 1 * (Bn n : Int) := by ring
  rw [this, Int.add_mul_emod_self_right]

theorem rsub_s_ok {n : Nat} (a : RU n) (w : Int) (ha : WF a) (h1 : -(2 : Int) ^ 64 < w) (h2 : w < (2 : Int) ^ 64) :
    WF (rsub_s a w) ∧ (val (rsub_s a w) : Int) = (w - (val a : Int)) % Bn n := by
  obtain ⟨hw, he⟩ := sub_s_ok a w ha h1 h2
  have := neg_int (sub_s a w) hw _ he
  unfold rsub_s
  rw [show w - (val a : Int) = -((val a : Int) - w) by ring]
  exact this

theorem mul_s_ok {n : Nat} (a : RU n) (w : Int) (ha : WF a) (h1 : -(2 : Int) ^ 64 < w) (h2 : w < (2 : Int) ^ 64) :
    WF (mul_s a w) ∧ (val (mul_s a w) : Int) = ((val a : Int) * w) % Bn n := by
  unfold mul_s
  by_cases hneg : w < 0
  · rw [if_pos hneg]
    obtain ⟨hm, hme⟩ := smag_lt w h1 hneg
    obtain ⟨hw, he⟩ := mul_l_ok a (smag w) ha hm
    have hv : (val (mul_l a (smag w)) : Int) = ((val a : Int) * (-w)) % Bn n := by
      rw [he, Int.natCast_mod, Nat.cast_mul, hme]
    have := neg_int (mul_l a (smag w)) hw _ hv
    rw [show -((val a : Int) * -w) = (val a : Int) * w by ring] at this
    exact this
  · rw [if_neg hneg]
    obtain ⟨hm, hme⟩ := toNat_lt w (by omega) h2
    obtain ⟨hw, he⟩ := mul_l_ok a w.toNat ha hm
    refine ⟨hw, ?_⟩
    rw [he, Int.natCast_mod, Nat.cast_mul, hme]

theorem cmp_l_spec : ∀ {n : Nat} (a : RU n) (c : Nat), WF a → c < B64 →
    (cmp_l a c = -1 ∧ val a < c) ∨ (cmp_l a c = 0 ∧ val a = c) ∨ (cmp_l a c = 1 ∧ val a > c)
  | _, .limb a, c, _, _ => by
      simp only [cmp_l, val]
      rcases Nat.lt_trichotomy a c with h | h | h
      · left; simp [h]
      · right; left; simp [h]
      · right; right
        have h1 : ¬ a < c := by omega
        have h2 : ¬ a = c := by omega
        simp [h1, h2, h]
  | _, .node (n := n) l h, c, hw, hc => by
      have hB : B64 ≤ Bn n := B64_le_Bn n
      simp only [cmp_l, val]
      by_cases hz : isZero h = true
      · rw [if_pos hz, (isZero_iff h).mp hz]
        simpa using cmp_l_spec l c hw.1 hc
      · rw [if_neg hz]
        have : val h ≠ 0 := fun e => hz ((isZero_iff h).mpr e)
        have h1 : 1 ≤ val h := by omega
        right; right
        refine ⟨rfl, ?_⟩
        have : Bn n * 1 ≤ Bn n * val h := Nat.mul_le_mul_left _ h1
        omega

theorem cmp_s_ok {n : Nat} (a : RU n) (w : Int) (ha : WF a) (h2 : w < (2 : Int) ^ 64) :
    (cmp_s a w = -1 ∧ (val a : Int) < w) ∨ (cmp_s a w = 0 ∧ (val a : Int) = w) ∨ (cmp_s a w = 1 ∧ (val a : Int) > w) := by
  unfold cmp_s
  by_cases hneg : w < 0
  · rw [if_pos hneg]; right; right; exact ⟨rfl, by omega⟩
  · rw [if_neg hneg]
    obtain ⟨hm, hme⟩ := toNat_lt w (by omega) h2
    rcases cmp_l_spec a w.toNat ha hm with ⟨e, h⟩ | ⟨e, h⟩ | ⟨e, h⟩
    · left; exact ⟨e, by omega⟩
    · right; left; exact ⟨e, by omega⟩
    · right; right; exact ⟨e, by omega⟩

theorem div_vals (t : Nat) {n : Nat} (a b : RU n) (ha : WF a) (hb : WF b) (hne : val b ≠ 0) :
    WF (div t a b).1 ∧ WF (div t a b).2 ∧ val (div t a b).1 = val a / val b ∧ val (div t a b).2 = val a % val b := by
  obtain ⟨hq, hr, he, hlt⟩ := div_ok t a b ha hb hne
  have hrv : val (div t a b).2 = val a % val b := mod_unique (by rw [he, Nat.mul_comm]) hlt
  refine ⟨hq, hr, ?_, hrv⟩
  have hpos : 0 < val b := Nat.pos_of_ne_zero hne
  have h2 := Nat.div_add_mod (val a) (val b)
  rw [← hrv] at h2
  have : val b * (val a / val b) = val b * val (div t a b).1 := by rw [Nat.mul_comm (val b) (val (div t a b).1)]; omega
  exact (Nat.eq_of_mul_eq_mul_left hpos this).symm

theorem divq_s_ok (t : Nat) {n : Nat} (a : RU n) (w : Int) (ha : WF a) (h1 : -(2 : Int) ^ 64 < w) (h2 : w < (2 : Int) ^ 64) (h0 : w ≠ 0) :
    WF (divq_s t a w) ∧ (val (divq_s t a w) : Int) = (Int.tdiv (val a) w) % Bn n := by
  have hB : (0 : Int) < Bn n := by exact_mod_cast Bn_pos n
  unfold divq_s
  by_cases hneg : w < 0
  · rw [if_pos hneg]
    obtain ⟨hm, hme⟩ := smag_lt w h1 hneg
    obtain ⟨hbw, hbe⟩ := ofLimb_ok n (smag w) hm
    have hbne : val (ofLimb n (smag w)) ≠ 0 := by rw [hbe]; unfold smag; omega
    obtain ⟨hq, -, hqe, -⟩ := div_vals t a _ ha hbw hbne
    have hv : (val (div t a (ofLimb n (smag w))).1 : Int) = ((val a : Int) / (-w)) % Bn n := by
      rw [hqe, hbe, Int.natCast_ediv, hme]
      have hlt : (val a : Int) / (-w) < Bn n := by
        have h3 : (val a : Int) / (-w) ≤ val a := Int.ediv_le_self _ (Int.natCast_nonneg _)
        have := (wf_cast a ha).2
        omega
      exact (Int.emod_eq_of_lt (Int.ediv_nonneg (Int.natCast_nonneg _) (by omega)) hlt).symm
    have := neg_int _ hq _ hv
    rw [show Int.tdiv (val a : Int) w = -((val a : Int) / (-w)) by
      rw [Int.tdiv_eq_ediv_of_nonneg (Int.natCast_nonneg _), Int.ediv_neg, Int.neg_neg] ] 
    exact this
  · rw [if_neg hneg]
    obtain ⟨hm, hme⟩ := toNat_lt w (by omega) h2
    obtain ⟨hbw, hbe⟩ := ofLimb_ok n w.toNat hm
    have hbne : val (ofLimb n w.toNat) ≠ 0 := by rw [hbe]; omega
    obtain ⟨hq, -, hqe, -⟩ := div_vals t a _ ha hbw hbne
    refine ⟨hq, ?_⟩
    rw [hqe, hbe, Int.natCast_ediv, hme, Int.tdiv_eq_ediv_of_nonneg (Int.natCast_nonneg _)]
    have hlt : (val a : Int) / w < Bn n := by
      have h3 : (val a : Int) / w ≤ val a := Int.ediv_le_self _ (Int.natCast_nonneg _)
      have := (wf_cast a ha).2
      omega
    exact (Int.emod_eq_of_lt (Int.ediv_nonneg (Int.natCast_nonneg _) (by omega)) hlt).symm

theorem mod_s_ok (t : Nat) {n : Nat} (a : RU n) (w : Int) (ha : WF a) (h1 : -(2 : Int) ^ 64 < w) (h2 : w < (2 : Int) ^ 64) (h0 : w ≠ 0) :
    WF (mod_s t a w) ∧ (val (mod_s t a w) : Int) = Int.tmod (val a) w := by
  unfold mod_s
  rw [Int.tmod_eq_emod_of_nonneg (Int.natCast_nonneg _)]
  by_cases hneg : w < 0
  · rw [if_pos hneg]
    obtain ⟨hm, hme⟩ := smag_lt w h1 hneg
    obtain ⟨hbw, hbe⟩ := ofLimb_ok n (smag w) hm
    have hbne : val (ofLimb n (smag w)) ≠ 0 := by rw [hbe]; unfold smag; omega
    obtain ⟨-, hr, -, hre⟩ := div_vals t a _ ha hbw hbne
    refine ⟨hr, ?_⟩
    rw [hre, hbe, Int.natCast_mod, hme, Int.emod_neg]
  · rw [if_neg hneg]
    obtain ⟨hm, hme⟩ := toNat_lt w (by omega) h2
    obtain ⟨hbw, hbe⟩ := ofLimb_ok n w.toNat hm
    have hbne : val (ofLimb n w.toNat) ≠ 0 := by rw [hbe]; omega
    obtain ⟨-, hr, -, hre⟩ := div_vals t a _ ha hbw hbne
    refine ⟨hr, ?_⟩
    rw [hre, hbe, Int.natCast_mod, hme]

/-- two's-complement corollary: an operation that is exact modulo 2^bits on the images is exact on the signed readings -/
theorem sval_of_mod {n : Nat} (r : RU n) (v : Int) (h : (val r : Int) = v % Bn n) :
    sval r = if 2 * (v % (Bn n : Int)) < Bn n then v % (Bn n : Int) else v % (Bn n : Int) - Bn n := by
  unfold sval
  by_cases hc : 2 * val r < Bn n
  · rw [if_pos hc, if_pos (by rw [← h]; omega), h]
  · rw [if_neg hc, if_neg (by rw [← h]; omega), h]

theorem sval_mod {n : Nat} (a : RU n) : sval a % (Bn n : Int) = (val a : Int) % Bn n := by
  unfold sval
  split
  · rfl
  · rw [show (val a : Int) - Bn n = val a + (-1) * (Bn n : Int) by ring, Int.add_mul_emod_self_right]

end Givaro.Model.RecInt
