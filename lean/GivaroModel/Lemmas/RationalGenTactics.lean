/-
C10, tie T: encoders and the proof script for the generated theorems `Gen body = hand model`
(Generated/RationalThms.lean, written by translate/gen_rational.py).
-/
import GivaroModel.Prim.Gmp
import GivaroModel.Model.Rational
import GivaroModel.Lemmas.IntegerTactics
namespace Givaro.GenQ
open Givaro Givaro.Model.Rational

/-- a Rational returned by value (`none` = the call threw `GivMathDivZero`) -/
def encQ (o : Option QRep) : Res :=
  match o with
  | none => Res.thrown
  | some q => ⟨0, [q.num, q.den], false⟩
/-- a non-const method returning `*this`: the returned reference and the object -/
def encQQ (o : Option QRep) : Res :=
  match o with
  | none => Res.thrown
  | some q => ⟨0, [q.num, q.den, q.num, q.den], false⟩
/-- a constructor: the constructed object -/
def encC (o : Option QRep) : Res := encQ o
/-- a returned word or Integer -/
def encW (x : Int) : Res := ⟨x, [], false⟩

theorem encQ_ite (c : Prop) [Decidable c] (a b : Option QRep) : encQ (if c then a else b) = if c then encQ a else encQ b := by
  split <;> rfl
theorem encQQ_ite (c : Prop) [Decidable c] (a b : Option QRep) : encQQ (if c then a else b) = if c then encQQ a else encQQ b := by
  split <;> rfl
theorem encW_ite (c : Prop) [Decidable c] (a b : Int) : encW (if c then a else b) = if c then encW a else encW b := by
  split <;> rfl
theorem some_ite (c : Prop) [Decidable c] (a b : QRep) : some (if c then a else b) = if c then some a else some b := by
  split <;> rfl
theorem gcd_nonneg' (a b : Int) : ¬ ((Int.gcd a b : Int) < 0) := by omega
theorem gcd_pos_iff (a b : Int) : (0 < (Int.gcd a b : Int)) ↔ ((Int.gcd a b : Int) ≠ 0) := by omega

syntax "genq_leaf" : tactic
macro_rules | `(tactic| genq_leaf) => `(tactic| first
  | rfl
  | omega
  | (simp_all <;> done)
  | (simp_all <;> omega))

syntax "genq_go" : tactic
macro_rules | `(tactic| genq_go) => `(tactic| first | done | genq_leaf | (split <;> genq_go))

/-- unfold the hand model and the GMP contracts on both sides, split every `if`, close the leaves -/
macro "genq_link" : tactic => `(tactic| (
  simp only [encC, encQ, encQQ, encW, iabs, Model.Rational.add, Model.Rational.sub, Model.Rational.addin, Model.Rational.subin, Model.Rational.neg,
    Model.Rational.abs, Model.Rational.mul, Model.Rational.mulin, Model.Rational.div, Model.Rational.divin,
    Model.Rational.compare, Model.Rational.absCompare, Model.Rational.ne, Model.Rational.eq, Model.Rational.lt, Model.Rational.gt,
    Model.Rational.le, Model.Rational.ge, Model.Rational.trunc, Model.Rational.floor, Model.Rational.ceil,
    Model.Rational.mk3, Model.Rational.reduce, Model.Rational.ofInteger, Model.Rational.ofWord,
    Model.Rational.isZero, Model.Rational.isOne, Model.Rational.isInteger, Model.Rational.sign,
    Model.Rational.igcd, Model.Rational.idiv, Model.Rational.isign,
    mpz_mul, mpz_gcd, mpz_tdiv_q, mpz_fdiv_q, mpz_cdiv_q, mpz_add, mpz_sub, mpz_neg, mpz_abs, mpz_cmp, mpz_cmp_ui, mpz_cmp_si,
    cmp3_lt0, cmp3_gt0, cmp3_eq0, cmp3_le0, cmp3_ge0, mp_size_lt0, mp_size_gt0, mp_size_eq0, mp_size_le0, mp_size_ge0,
    gt_iff_lt, ge_iff_le, ne_eq, not_not, gcd_nonneg', Bool.and_eq_true, beq_iff_eq, bne_iff_ne, Bool.not_eq_true', decide_eq_true_eq,
    decide_eq_false_iff_not, Bool.or_eq_true, Bool.not_eq_eq_eq_not, Bool.not_true, ↓reduceIte, Int.neg_neg, InS32]
  genq_go))

end Givaro.GenQ
