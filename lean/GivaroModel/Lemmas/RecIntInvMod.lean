/- C06 helper lemmas: ruinvmod.h inv_mod. -/
import GivaroModel.Lemmas.RecIntExpGcd
import Mathlib.Data.Nat.ModEq
namespace Givaro.Model.RecInt

/-- `if (temp != 0) sub(temp, c, temp)` -/
def negModC {n : Nat} (c t0 : RU n) : RU n := if !(isZero t0) then subNC c t0 else t0
/-- `add(ret, temp, a); if (ret || temp >= c) sub(temp, c)` -/
def addModC {n : Nat} (c t1 a : RU n) : RU n :=
  if (add t1 a).2 || decide (cmp (add t1 a).1 c ≥ 0) then subNC (add t1 a).1 c else (add t1 a).1

theorem sub_small {n : Nat} (x y : RU n) (hx : WF x) (hy : WF y) (hle : val y ≤ val x) :
    WF (subNC x y) ∧ val (subNC x y) = val x - val y := by
  obtain ⟨hsw, hse⟩ := subNC_val x y hx hy
  have hs := (sub_ok x y hx hy).exact (val_lt x hx) (Nat.le_of_lt (val_lt y hy))
  refine ⟨hsw, ?_⟩
  rw [hse, hs.1]
  have hvx := val_lt x hx
  have : val x + Bn n - val y = (val x - val y) + Bn n := by omega
  rw [this, Nat.add_mod_right, Nat.mod_eq_of_lt (by omega)]

theorem negModC_ok {n : Nat} (c t0 : RU n) (hc : WF c) (h0 : WF t0) (hlt : val t0 < val c) :
    WF (negModC c t0) ∧ val (negModC c t0) < val c ∧ (val (negModC c t0) + val t0) % val c = 0 := by
  unfold negModC
  by_cases hz : isZero t0 = true
  · have hv0 : val t0 = 0 := (isZero_iff t0).mp hz
    simp only [hz, Bool.not_true, Bool.false_eq_true, ↓reduceIte]
    exact ⟨h0, hlt, by rw [hv0]; simp⟩
  · have hz' : isZero t0 = false := by cases h : isZero t0 <;> simp_all
    simp only [hz', Bool.not_false, ↓reduceIte]
    obtain ⟨hsw, hse⟩ := sub_small c t0 hc h0 (Nat.le_of_lt hlt)
    have hv0 : val t0 ≠ 0 := fun h => hz ((isZero_iff t0).mpr h)
    refine ⟨hsw, by rw [hse]; omega, ?_⟩
    rw [hse]
    have : val c - val t0 + val t0 = val c := by omega
    rw [this, Nat.mod_self]

theorem addModC_ok {n : Nat} (c t1 a : RU n) (hc : WF c) (h1 : WF t1) (ha : WF a) (h1lt : val t1 < val c) (hac : val a ≤ val c) :
    WF (addModC c t1 a) ∧ val (addModC c t1 a) < val c ∧ val (addModC c t1 a) ≡ val t1 + val a [MOD val c] := by
  have hvc := val_lt c hc
  obtain ⟨hsw, hse⟩ := add_ok t1 a h1 ha
  have hsv := val_lt _ hsw
  have hge : (cmp (add t1 a).1 c ≥ 0) ↔ val c ≤ val (add t1 a).1 := by
    rcases cmp_spec (add t1 a).1 c hsw hc with ⟨e, h⟩ | ⟨e, h⟩ | ⟨e, h⟩ <;> rw [e] <;> constructor <;> intro h' <;> omega
  unfold addModC
  generalize add t1 a = s at *
  have hmodc : ∀ v, v + val c = val t1 + val a → v ≡ val t1 + val a [MOD val c] := by
    intro v h
    have : v + val c ≡ v [MOD val c] := Nat.add_mod_right _ _
    exact this.symm.trans (by rw [h])
  cases hcar : s.2
  · rw [hcar] at hse; simp only [c2n_false, Nat.zero_mul, Nat.add_zero] at hse
    by_cases hcmp : val c ≤ val s.1
    · have : decide (cmp s.1 c ≥ 0) = true := by simp [hge.mpr hcmp]
      simp only [this, Bool.or_true, ↓reduceIte]
      obtain ⟨hdw, hde⟩ := sub_small s.1 c hsw hc hcmp
      exact ⟨hdw, by rw [hde]; omega, hmodc _ (by rw [hde]; omega)⟩
    · have : decide (cmp s.1 c ≥ 0) = false := decide_eq_false (fun h => hcmp (hge.mp h))
      simp only [this, Bool.or_false, Bool.false_eq_true, ↓reduceIte]
      exact ⟨hsw, by omega, by rw [hse]⟩
  · rw [hcar] at hse; simp only [c2n_true, Nat.one_mul] at hse
    simp only [Bool.true_or, ↓reduceIte]
    obtain ⟨hdw, hde⟩ := subNC_val s.1 c hsw hc
    have hd := (sub_ok s.1 c hsw hc).exact hsv (Nat.le_of_lt hvc)
    have e : (val s.1 + Bn n - val c) % Bn n = val s.1 + Bn n - val c := Nat.mod_eq_of_lt (by omega)
    rw [hd.1, e] at hde
    exact ⟨hdw, by rw [hde]; omega, hmodc _ (by rw [hde]; omega)⟩

/-- one cofactor update of `inv_mod`: `temp = (a - q·x) mod c` -/
theorem inv_update (t : Nat) {n : Nat} (c a x q : RU n) (hc : WF c) (ha : WF a) (hx : WF x) (hq : WF q)
    (hne : val c ≠ 0) (hac : val a ≤ val c) :
    WF (addModC c (negModC c (mod_n2 t (lmul t q x) c)) a) ∧
    val (addModC c (negModC c (mod_n2 t (lmul t q x) c)) a) < val c ∧
    val (addModC c (negModC c (mod_n2 t (lmul t q x) c)) a) + val q * val x ≡ val a [MOD val c] := by
  obtain ⟨hpw, hpe⟩ := lmul_ok t q x hq hx
  obtain ⟨h0w, h0e⟩ := mod_n2_ok t (lmul t q x) c hpw hc hne
  rw [hpe] at h0e
  have h0lt : val (mod_n2 t (lmul t q x) c) < val c := by rw [h0e]; exact Nat.mod_lt _ (by omega)
  generalize mod_n2 t (lmul t q x) c = temp0 at *
  obtain ⟨h1w, h1lt, h1e⟩ := negModC_ok c temp0 hc h0w h0lt
  generalize negModC c temp0 = temp1 at *
  obtain ⟨h2w, h2lt, k1⟩ := addModC_ok c temp1 a hc h1w ha h1lt hac
  generalize addModC c temp1 a = temp2 at *
  refine ⟨h2w, h2lt, ?_⟩
  have k2 : val temp1 + val temp0 ≡ 0 [MOD val c] := by unfold Nat.ModEq; rw [h1e]; simp
  have k3 : val temp0 ≡ val q * val x [MOD val c] := by rw [h0e]; exact Nat.mod_modEq _ _
  calc val temp2 + val q * val x ≡ (val temp1 + val a) + val temp0 [MOD val c] := Nat.ModEq.add k1 k3.symm
    _ = (val temp1 + val temp0) + val a := by ring
    _ ≡ 0 + val a [MOD val c] := Nat.ModEq.add_right _ k2
    _ = val a := by ring

theorem invLoop_succ (t : Nat) {n : Nat} (c : RU n) (f : Nat) (a x a2 b2 : RU n) :
    invLoop t c (f+1) a x a2 b2 =
      if isZero b2 then a
      else invLoop t c f x (addModC c (negModC c (mod_n2 t (lmul t (div t a2 b2).1 x) c)) a) b2 (div t a2 b2).2 := rfl

/-- one iteration preserves the cofactor invariants `a·b ≡ a2`, `x·b ≡ b2 (mod c)` -/
theorem inv_step (t : Nat) {n : Nat} (c a x a2 b2 : RU n) (vb : Nat) (hc : WF c) (ha : WF a) (hx : WF x) (ha2 : WF a2) (hb2 : WF b2)
    (hne : val c ≠ 0) (hb2ne : val b2 ≠ 0) (hac : val a ≤ val c)
    (I1 : val a * vb ≡ val a2 [MOD val c]) (I2 : val x * vb ≡ val b2 [MOD val c]) :
    WF (addModC c (negModC c (mod_n2 t (lmul t (div t a2 b2).1 x) c)) a) ∧
    val (addModC c (negModC c (mod_n2 t (lmul t (div t a2 b2).1 x) c)) a) < val c ∧
    val (addModC c (negModC c (mod_n2 t (lmul t (div t a2 b2).1 x) c)) a) * vb ≡ val a2 % val b2 [MOD val c] ∧
    WF (div t a2 b2).2 ∧ val (div t a2 b2).2 = val a2 % val b2 := by
  obtain ⟨hqw, hrw, hde, hdlt⟩ := div_ok t a2 b2 ha2 hb2 hb2ne
  obtain ⟨hrw', hre⟩ := div_mod_val t a2 b2 ha2 hb2 hb2ne
  obtain ⟨huw, hult, hue⟩ := inv_update t c a x (div t a2 b2).1 hc ha hx hqw hne hac
  generalize addModC c (negModC c (mod_n2 t (lmul t (div t a2 b2).1 x) c)) a = x' at *
  refine ⟨huw, hult, ?_, hrw', hre⟩
  rw [hre] at hde
  generalize (div t a2 b2).1 = q at *
  -- (x' + q·x)·vb ≡ a·vb ≡ a2 = q·b2 + r  and  q·x·vb ≡ q·b2
  have k1 : (val x' + val q * val x) * vb ≡ val a2 [MOD val c] := (Nat.ModEq.mul_right vb hue).trans I1
  have k2 : val q * (val x * vb) ≡ val q * val b2 [MOD val c] := Nat.ModEq.mul_left _ I2
  have k3 : val x' * vb + val q * (val x * vb) ≡ val a2 % val b2 + val q * val b2 [MOD val c] := by
    have e1 : val x' * vb + val q * (val x * vb) = (val x' + val q * val x) * vb := by ring
    have e2 : val a2 % val b2 + val q * val b2 = val a2 := by omega
    rw [e1, e2]; exact k1
  exact Nat.ModEq.add_right_cancel k2 k3

theorem invLoop_ok (t : Nat) {n : Nat} (c : RU n) (vb g : Nat) (hc : WF c) (hne : val c ≠ 0) :
    ∀ (f : Nat) (a x a2 b2 : RU n), WF a → WF x → WF a2 → WF b2 → val a < val c → val x < val c →
      val a * vb ≡ val a2 [MOD val c] → val x * vb ≡ val b2 [MOD val c] →
      val b2 ≤ val a2 → val a2 * val b2 < 2 ^ f → Nat.gcd (val a2) (val b2) = g →
      WF (invLoop t c (f+1) a x a2 b2) ∧ val (invLoop t c (f+1) a x a2 b2) < val c ∧
      val (invLoop t c (f+1) a x a2 b2) * vb ≡ g [MOD val c]
  | f, a, x, a2, b2, ha, hx, ha2, hb2, hac, hxc, I1, I2, hle, hlt, hg => by
      rw [invLoop_succ]
      by_cases hz : isZero b2 = true
      · rw [if_pos hz]
        have h0 : val b2 = 0 := (isZero_iff b2).mp hz
        rw [h0, Nat.gcd_zero_right] at hg
        exact ⟨ha, hac, by rw [← hg]; exact I1⟩
      · rw [if_neg hz]
        have hb2ne : val b2 ≠ 0 := fun h => hz ((isZero_iff b2).mpr h)
        obtain ⟨huw, hult, hue, hrw, hre⟩ := inv_step t c a x a2 b2 vb hc ha hx ha2 hb2 hne hb2ne (Nat.le_of_lt hac) I1 I2
        have hd1 : 1 ≤ val b2 := Nat.one_le_iff_ne_zero.mpr hb2ne
        have hrlt : val a2 % val b2 < val b2 := Nat.mod_lt _ hd1
        cases f with
        | zero =>
            have : 1 ≤ val a2 * val b2 := Nat.mul_pos (by omega) hd1
            simp at hlt; omega
        | succ f' =>
            have hr2 : 2 * (val a2 % val b2) < val a2 := by
              have h1 := Nat.div_add_mod (val a2) (val b2)
              have h2 : 1 ≤ val a2 / val b2 := (Nat.one_le_div_iff hd1).mpr hle
              have h3 : val b2 * 1 ≤ val b2 * (val a2 / val b2) := Nat.mul_le_mul_left _ h2
              omega
            have hprod : val b2 * val (div t a2 b2).2 < 2 ^ f' := by
              rw [hre]
              have h1 : val b2 * (2 * (val a2 % val b2)) < val b2 * val a2 := Nat.mul_lt_mul_of_pos_left hr2 hd1
              rw [pow_succ] at hlt
              have : val b2 * val a2 = val a2 * val b2 := Nat.mul_comm _ _
              have : val b2 * (2 * (val a2 % val b2)) = 2 * (val b2 * (val a2 % val b2)) := by ring
              omega
            have hg' : Nat.gcd (val b2) (val (div t a2 b2).2) = g := by
              rw [hre, ← hg, Nat.gcd_comm (val a2) (val b2), Nat.gcd_rec (val b2) (val a2), Nat.gcd_comm]
            exact invLoop_ok t c vb g hc hne f' x _ b2 _ hx huw hb2 hrw hxc hult I2 (by rw [hre]; exact hue)
              (by rw [hre]; omega) hprod hg'

/-- `inv_mod(a, b, c)` for every modulus `c ≠ 0` and every `b` coprime to it: the result is in `[0, c)` and `a·b ≡ 1 (mod c)` -/
theorem inv_mod_ok (t : Nat) {n : Nat} (b c : RU n) (hb : WF b) (hc : WF c) (hne : val c ≠ 0) (hcop : Nat.gcd (val b) (val c) = 1) :
    WF (inv_mod t b c) ∧ val (inv_mod t b c) < val c ∧ (val (inv_mod t b c) * val b) % val c = 1 % val c := by
  obtain ⟨h1w, h1e⟩ := ofLimb_ok n 1 (by decide)
  have hz := val_zero n
  have hvb := val_lt b hb
  have hvc := val_lt c hc
  have hc1 : 1 ≤ val c := Nat.one_le_iff_ne_zero.mpr hne
  have hzc : ¬ isZero c = true := fun h => hne ((isZero_iff c).mp h)
  unfold inv_mod
  rw [show 2 * bits n + 2 = (2 * bits n + 1) + 1 from rfl, invLoop_succ, if_neg hzc]
  -- the first iteration: (a, x, a2, b2) = (1, 0, b, c) ↦ (0, 1 mod c, c, b mod c)
  have I1 : val (ofLimb n 1) * val b ≡ val b [MOD val c] := by rw [h1e, Nat.one_mul]
  have I2 : val (zero n) * val b ≡ val c [MOD val c] := by
    rw [hz.2, Nat.zero_mul]; unfold Nat.ModEq; simp
  obtain ⟨huw, hult, hue, hrw, hre⟩ := inv_step t c (ofLimb n 1) (zero n) b c (val b) hc h1w hz.1 hb hc hne hne (by rw [h1e]; exact hc1) I1 I2
  have hrlt : val b % val c < val c := Nat.mod_lt _ hc1
  have hprod : val c * val (div t b c).2 < 2 ^ (2 * bits n) := by
    rw [hre, two_mul, pow_add, ← Bn_eq_two_pow]
    exact Nat.mul_lt_mul'' hvc (Nat.lt_trans hrlt hvc)
  have hg : Nat.gcd (val c) (val (div t b c).2) = 1 := by
    rw [hre, ← hcop, Nat.gcd_comm (val b) (val c), Nat.gcd_rec (val c) (val b), Nat.gcd_comm]
  have h := invLoop_ok t c (val b) 1 hc hne (2 * bits n) (zero n) _ c _ hz.1 huw hc hrw (by rw [hz.2]; omega) hult I2
    (by rw [hre]; exact hue) (by rw [hre]; omega) hprod hg
  exact ⟨h.1, h.2.1, h.2.2⟩

end Givaro.Model.RecInt

