/-
C17 — every operation of the Array0 model keeps the invariant (and touches only the handle it is applied to).
-/
import GivaroModel.Lemmas.Array0Inv
namespace Givaro.Model.Array0
variable {α : Type}

/-- `s'` has the slots of `s`, and only slot `h` may differ -/
def Frame (s s' : State α) (h : Nat) : Prop := s'.n = s.n ∧ ∀ k, k ≠ h → s'.hs k = s.hs k

theorem Frame.refl (s : State α) (h : Nat) : Frame s s h := ⟨rfl, fun _ _ => rfl⟩
theorem Frame.trans {s s' s'' : State α} {h : Nat} (a : Frame s s' h) (b : Frame s' s'' h) : Frame s s'' h :=
  ⟨b.1.trans a.1, fun k hk => (b.2 k hk).trans (a.2 k hk)⟩

theorem frame_setH (s : State α) (h : Nat) (H : Handle) : Frame s (setH s h H) h :=
  ⟨rfl, fun k hk => upd_other _ _ _ _ hk⟩
theorem frame_faulted (s : State α) (h : Nat) : Frame s (faulted s) h := ⟨rfl, fun _ _ => rfl⟩

theorem frame_destroy (s : State α) (h : Nat) : Frame s (destroy s h) h := by
  unfold destroy
  dsimp only
  repeat' split
  all_goals first
    | exact frame_setH _ _ _
    | exact frame_faulted _ _
    | exact ⟨rfl, fun k hk => upd_other _ _ _ _ hk⟩

theorem frame_attachFresh (s : State α) (h : Nat) (l : List α) (sz : Nat) : Frame s (attachFresh s h l sz) h :=
  ⟨rfl, fun k hk => upd_other _ _ _ _ hk⟩

theorem frame_attachShare (s : State α) (h g : Nat) : Frame s (attachShare s h g) h := by
  unfold attachShare
  dsimp only
  repeat' split
  all_goals first
    | exact frame_setH _ _ _
    | exact frame_faulted _ _
    | exact ⟨rfl, fun k hk => upd_other _ _ _ _ hk⟩

/-- the outcome of an operation on slot `h`: invariant, same slots, other handles untouched -/
structure Good (s s' : State α) (h : Nat) : Prop where
  inv : Inv s'
  frame : Frame s s' h
  /-- the cells of every block another handle points to are untouched -/
  dpres : ∀ k, k ≠ h → k < s.n → ∀ b, (s.hs k).d = some b → s'.ddata b = s.ddata b

theorem destroy_ddata (s : State α) (h : Nat) : (destroy s h).ddata = s.ddata := by
  unfold destroy
  dsimp only
  repeat' split
  all_goals rfl

theorem attachShare_ddata (s : State α) (h g : Nat) : (attachShare s h g).ddata = s.ddata := by
  unfold attachShare
  dsimp only
  repeat' split
  all_goals rfl

/-- the handle whose counter holds 1 shares its block with nobody -/
theorem excl_of_one {s : State α} (I : Inv s) {h c : Nat} (hn : h < s.n) (hc : (s.hs h).cnt = some c) (one : s.cval c = 1) :
    ∀ k, k ≠ h → k < s.n → (s.hs k).d ≠ (s.hs h).d := by
  intro k ne kn q
  have hp := cnt_some_psz I hn hc
  obtain ⟨c', b, h1, h2, h3, _⟩ := (I.wf h hn).2 hp
  have : c' = c := by rw [hc] at h1; exact (Option.some.inj h1).symm
  subst this
  have kc := same_d_same_cnt I hn kn h2 (by rw [q, h2])
  exact ne (sole_of_one I hn kn hc (by rw [kc, hc]) h3 one)

/-- outcome of `reallocate`: the handle is empty or the only owner of its storage -/
def Sole (s : State α) (h : Nat) : Prop := s.hs h = Handle.empty ∨ ∃ c, (s.hs h).cnt = some c ∧ s.cval c = 1

theorem good_self {s : State α} (I : Inv s) (h : Nat) : Good s s h := ⟨I, Frame.refl s h, fun _ _ _ _ _ => rfl⟩

theorem good_destroy {s : State α} (I : Inv s) {h : Nat} (hn : h < s.n) :
    Good s (destroy s h) h ∧ (destroy s h).hs h = Handle.empty :=
  ⟨⟨(destroy_inv I hn).1, frame_destroy s h, fun _ _ _ _ _ => by rw [destroy_ddata]⟩, (destroy_inv I hn).2.1⟩

theorem good_attachFresh {s : State α} (I : Inv s) {h : Nat} (hn : h < s.n) (he : s.hs h = Handle.empty)
    {l : List α} {sz : Nat} (hl : l.length ≠ 0) (hsz : sz ≤ l.length) :
    Good s (attachFresh s h l sz) h ∧ ((attachFresh s h l sz).hs h).size = sz ∧ Sole (attachFresh s h l sz) h :=
  ⟨⟨(attachFresh_inv I hn he hl hsz).1, frame_attachFresh s h l sz, fun k _ kn b hb => by
      show upd s.ddata s.dnext l b = s.ddata b
      obtain ⟨_, b', _, h2, _, h4, _⟩ := (I.wf k kn).2 (d_some_psz I kn hb)
      rw [hb] at h2
      have := I.dbound b' h4
      have e := Option.some.inj h2
      exact upd_other _ _ _ _ (by omega)⟩, by
    show (upd s.hs h _ h).size = sz
    rw [upd_same], Or.inr ⟨s.cnext, by show (upd s.hs h _ h).cnt = _; rw [upd_same], by
      show upd s.cval s.cnext 1 s.cnext = 1; rw [upd_same]⟩⟩

theorem Good.trans {s s' s'' : State α} {h : Nat} (a : Good s s' h) (b : Good s' s'' h) : Good s s'' h :=
  ⟨b.inv, a.frame.trans b.frame, fun k ne kn x hx => by
    rw [b.dpres k ne (by rw [a.frame.1]; exact kn) x (by rw [a.frame.2 k ne]; exact hx), a.dpres k ne kn x hx]⟩

theorem empty_of_cnt_none {s : State α} (I : Inv s) {h : Nat} (hn : h < s.n) (hc : (s.hs h).cnt = none) :
    s.hs h = Handle.empty := by
  apply (I.wf h hn).1
  apply Classical.byContradiction; intro hp
  obtain ⟨c, b, h1, _⟩ := (I.wf h hn).2 hp
  rw [hc] at h1; cases h1

theorem size_pos_psz {s : State α} (I : Inv s) {h : Nat} (hn : h < s.n) (hs : (s.hs h).size ≠ 0) : (s.hs h).psz ≠ 0 := by
  intro h0
  have := (I.wf h hn).1 h0
  rw [this] at hs; exact hs rfl

/-- reading the first `k ≤ _size` cells of a well-formed handle succeeds -/
theorem readCells_ok {s : State α} (I : Inv s) {h : Nat} (hn : h < s.n) {k : Nat} (hk : k ≤ (s.hs h).size) :
    ∃ l, readCells s (s.hs h).d k = some l ∧ l.length = k := by
  by_cases k0 : k = 0
  · subst k0
    refine ⟨[], ?_, rfl⟩
    unfold readCells; split <;> simp
  · have hp : (s.hs h).psz ≠ 0 := size_pos_psz I hn (by omega)
    obtain ⟨c, b, h1, h2, h3, h4, h5, h6⟩ := (I.wf h hn).2 hp
    refine ⟨(s.ddata b).take k, ?_, ?_⟩
    · rw [h2]; unfold readCells; simp only [k0, ↓reduceIte, h4, true_and]
      rw [if_pos (by omega)]
    · rw [List.length_take]; omega

theorem ctorBuild_good [Inhabited α] {s : State α} (I : Inv s) {h : Nat} (hn : h < s.n) (sz : Nat) (t : α) :
    Good s (ctorBuild s h sz t) h ∧ ((ctorBuild s h sz t).hs h).size = sz := by
  obtain ⟨G, he⟩ := good_destroy I hn
  unfold ctorBuild
  simp only [G.inv.nofault, Bool.false_eq_true, ↓reduceIte]
  split
  · rename_i hz
    have A := good_attachFresh (l := List.replicate sz t) (sz := sz) G.inv (by rw [G.frame.1]; exact hn) he (by simpa using hz) (by simp)
    exact ⟨G.trans A.1, A.2.1⟩
  · rename_i hz
    have e0 : setH (destroy s h) h ⟨none, 0, 0, none⟩ = destroy s h := setH_self _ _ _ he
    exact ⟨G.trans ⟨by rw [e0]; exact G.inv, frame_setH _ _ _, fun _ _ _ _ _ => rfl⟩, by rw [e0, he]; show 0 = sz; omega⟩

theorem share_good {s : State α} (I : Inv s) {h g : Nat} (hn : h < s.n) (gn : g < s.n) (ne : h ≠ g) :
    Good s (let s1 := destroy s h; if s1.fault then s1 else attachShare s1 h g) h := by
  obtain ⟨G, he⟩ := good_destroy I hn
  simp only [G.inv.nofault, Bool.false_eq_true, ↓reduceIte]
  have hn' : h < (destroy s h).n := by rw [G.frame.1]; exact hn
  have gn' : g < (destroy s h).n := by rw [G.frame.1]; exact gn
  exact G.trans ⟨(attachShare_inv G.inv hn' gn' ne he).1, frame_attachShare _ _ _, fun _ _ _ _ _ => by rw [attachShare_ddata]⟩

theorem ctorNoCopy_good {s : State α} (I : Inv s) {h g : Nat} (hn : h < s.n) (gn : g < s.n) :
    Good s (ctorNoCopy s h g) h := by
  unfold ctorNoCopy
  split
  · exact good_self I h
  · rename_i ne; exact share_good I hn gn ne

theorem logcopy_good {s : State α} (I : Inv s) {h g : Nat} (hn : h < s.n) (gn : g < s.n) :
    Good s (logcopy s h g) h := by
  unfold logcopy
  split
  · exact good_self I h
  · rename_i ne; exact share_good I hn gn ne

theorem ctorWithCopy_good {s : State α} (I : Inv s) {h g : Nat} (hn : h < s.n) (gn : g < s.n) :
    Good s (ctorWithCopy s h g) h := by
  unfold ctorWithCopy
  split
  · exact good_self I h
  · obtain ⟨G, he⟩ := good_destroy I hn
    simp only [G.inv.nofault, Bool.false_eq_true, ↓reduceIte]
    have hn' : h < (destroy s h).n := by rw [G.frame.1]; exact hn
    have gn' : g < (destroy s h).n := by rw [G.frame.1]; exact gn
    split
    · rename_i hz
      obtain ⟨l, hl, hlen⟩ := readCells_ok G.inv gn' (Nat.le_refl _)
      rw [hl]
      exact G.trans (good_attachFresh (l := l) (sz := ((destroy s h).hs g).size) G.inv hn' he (by rw [hlen]; simpa using hz) (by omega)).1
    · have e0 : setH (destroy s h) h ⟨none, 0, 0, none⟩ = destroy s h := setH_self _ _ _ he
      exact G.trans ⟨by rw [e0]; exact G.inv, frame_setH _ _ _, fun _ _ _ _ _ => rfl⟩

end Givaro.Model.Array0

namespace Givaro.Model.Array0
variable {α : Type}

theorem soleWithRoom_none {s : State α} {H : Handle} (sz : Nat) (hc : H.cnt = none) : soleWithRoom s H sz = some false := by
  unfold soleWithRoom; rw [hc]

theorem soleWithRoom_some {s : State α} {H : Handle} (sz : Nat) {c : Nat} (hc : H.cnt = some c) (hl : s.clive c = true) :
    soleWithRoom s H sz = some (decide (s.cval c = 1 ∧ H.psz ≥ sz)) := by
  unfold soleWithRoom; rw [hc]; simp [hl]

/-- after `destroy` (or on a handle without storage) the tail of `allocate` -/
theorem allocTail_good [Inhabited α] {s : State α} (I : Inv s) {h : Nat} (hn : h < s.n) (he : s.hs h = Handle.empty) (sz : Nat) :
    Good s (if sz > 0 then attachFresh s h (List.replicate sz (default : α)) sz
            else setH s h { (s.hs h) with cnt := none, size := 0, psz := 0 }) h ∧
    ((if sz > 0 then attachFresh s h (List.replicate sz (default : α)) sz
            else setH s h { (s.hs h) with cnt := none, size := 0, psz := 0 }).hs h).size = sz := by
  split
  · have A := good_attachFresh (l := List.replicate sz (default : α)) (sz := sz) I hn he (by simp; omega) (by simp)
    exact ⟨A.1, A.2.1⟩
  · have e0 : setH s h { (s.hs h) with cnt := none, size := 0, psz := 0 } = s := setH_self _ _ _ (by rw [he]; rfl)
    rw [e0]; exact ⟨good_self I h, by rw [he]; show 0 = sz; omega⟩

theorem allocate_good [Inhabited α] {s : State α} (I : Inv s) {h : Nat} (hn : h < s.n) (sz : Nat) :
    Good s (allocate s h sz) h ∧ ((allocate s h sz).hs h).size = sz := by
  unfold allocate
  dsimp only
  cases hc : (s.hs h).cnt with
  | none =>
    rw [soleWithRoom_none sz hc]
    simp only [Option.isSome_none, Bool.false_eq_true, ↓reduceIte, I.nofault]
    exact allocTail_good I hn (empty_of_cnt_none I hn hc) sz
  | some c =>
    have hp := cnt_some_psz I hn hc
    obtain ⟨c', b, h1, h2, h3, h4, h5, h6, h7, h8⟩ := owner_facts I hn hp
    have ec : c' = c := by rw [hc] at h1; exact (Option.some.inj h1).symm
    subst ec
    rw [soleWithRoom_some sz hc h3]
    by_cases cond : s.cval c' = 1 ∧ (s.hs h).psz ≥ sz
    · simp only [cond, and_self, decide_true]
      have S := setSize_inv (sz := sz) I hn h1 cond.1 cond.2
      dsimp only at S; rw [h1] at S
      exact ⟨⟨S, frame_setH _ _ _, fun _ _ _ _ _ => rfl⟩, by show (upd s.hs h _ h).size = sz; rw [upd_same]⟩
    · simp only [cond, decide_false, Option.isSome_some, ↓reduceIte]
      obtain ⟨G, he⟩ := good_destroy I hn
      simp only [G.inv.nofault, Bool.false_eq_true, ↓reduceIte]
      have T := allocTail_good G.inv (by rw [G.frame.1]; exact hn) he sz
      exact ⟨G.trans T.1, T.2⟩

theorem reallocate_good [Inhabited α] {s : State α} (I : Inv s) {h : Nat} (hn : h < s.n) (sz : Nat) :
    Good s (reallocate s h sz) h ∧ ((reallocate s h sz).hs h).size = sz ∧ Sole (reallocate s h sz) h := by
  unfold reallocate
  dsimp only
  cases hc : (s.hs h).cnt with
  | none =>
    have he := empty_of_cnt_none I hn hc
    rw [soleWithRoom_none sz hc]
    simp only [Option.isSome_none, Bool.false_eq_true, ↓reduceIte]
    split
    · rename_i pos
      have k0 : (if (s.hs h).size < sz then (s.hs h).size else sz) = 0 := by
        have sz0 : (s.hs h).size = 0 := by rw [he]; rfl
        rw [sz0, if_pos pos]
      simp only [k0, ne_eq, not_true_eq_false, ↓reduceIte]
      exact good_attachFresh I hn he (by simp; omega) (by simp)
    · obtain ⟨G, he'⟩ := good_destroy I hn
      exact ⟨G, by rw [he']; simp [Handle.empty]; omega, Or.inl he'⟩
  | some c =>
    have hp := cnt_some_psz I hn hc
    obtain ⟨c', b, h1, h2, h3, h4, h5, h6, h7, h8⟩ := owner_facts I hn hp
    have ec : c' = c := by rw [hc] at h1; exact (Option.some.inj h1).symm
    subst ec
    rw [soleWithRoom_some sz hc h3]
    by_cases cond : s.cval c' = 1 ∧ (s.hs h).psz ≥ sz
    · simp only [cond, and_self, decide_true]
      have S := setSize_inv (sz := sz) I hn h1 cond.1 cond.2
      dsimp only at S; rw [h1] at S
      exact ⟨⟨S, frame_setH _ _ _, fun _ _ _ _ _ => rfl⟩, by show (upd s.hs h _ h).size = sz; rw [upd_same],
        Or.inr ⟨c', by show (upd s.hs h _ h).cnt = _; rw [upd_same], cond.1⟩⟩
    · simp only [cond, decide_false, Option.isSome_some, ↓reduceIte]
      split
      · rename_i pos
        have kle : (if (s.hs h).size < sz then (s.hs h).size else sz) ≤ (s.hs h).size := by split <;> omega
        have kle2 : (if (s.hs h).size < sz then (s.hs h).size else sz) ≤ sz := by split <;> omega
        obtain ⟨l, hl, hlen⟩ := readCells_ok I hn kle
        rw [hl]
        obtain ⟨G, he⟩ := good_destroy I hn
        simp only [G.inv.nofault, Bool.false_eq_true, ↓reduceIte]
        have := good_attachFresh (l := l ++ List.replicate (sz - (if (s.hs h).size < sz then (s.hs h).size else sz)) (default : α))
          (sz := sz) G.inv (by rw [G.frame.1]; exact hn) he (by simp [hlen]; omega) (by simp [hlen]; omega)
        exact ⟨G.trans this.1, this.2.1, this.2.2⟩
      · obtain ⟨G, he'⟩ := good_destroy I hn
        exact ⟨G, by rw [he']; simp [Handle.empty]; omega, Or.inl he'⟩

/-- a handle that is `Sole` shares its block with no other handle -/
theorem sole_excl {s : State α} (I : Inv s) {h : Nat} (hn : h < s.n) (so : Sole s h) {b : Nat} (hb : (s.hs h).d = some b) :
    ∀ k, k ≠ h → k < s.n → (s.hs k).d ≠ some b := by
  intro k ne kn q
  rcases so with e | ⟨c, hc, one⟩
  · rw [e] at hb; cases hb
  · exact excl_of_one I hn hc one k ne kn (by rw [q, hb])

theorem writeCell_inv {s : State α} (I : Inv s) {h : Nat} (hn : h < s.n) {i : Nat} (hi : i < (s.hs h).size) (v : α) :
    Inv (writeCell s (s.hs h).d i v) ∧ Frame s (writeCell s (s.hs h).d i v) h := by
  have hp : (s.hs h).psz ≠ 0 := size_pos_psz I hn (by omega)
  obtain ⟨c, b, h1, h2, h3, h4, h5, h6⟩ := (I.wf h hn).2 hp
  rw [h2]; unfold writeCell
  simp only [h4, true_and]
  rw [if_pos (by omega)]
  exact ⟨setData_inv I b _ (by simp), ⟨rfl, fun _ _ => rfl⟩⟩

theorem writeCell_good {s : State α} (I : Inv s) {h : Nat} (hn : h < s.n) (so : Sole s h) {i : Nat} (hi : i < (s.hs h).size) (v : α) :
    Good s (writeCell s (s.hs h).d i v) h := by
  have hp : (s.hs h).psz ≠ 0 := size_pos_psz I hn (by omega)
  obtain ⟨c, b, h1, h2, h3, h4, h5, h6⟩ := (I.wf h hn).2 hp
  have ex := sole_excl I hn so h2
  rw [h2]; unfold writeCell
  simp only [h4, true_and]
  rw [if_pos (by omega)]
  exact ⟨setData_inv I b _ (by simp), ⟨rfl, fun _ _ => rfl⟩, fun k ne kn x hx => by
    show upd s.ddata b _ x = s.ddata x
    exact upd_other _ _ _ _ (fun q => ex k ne kn (by rw [hx, q]))⟩

theorem write_good {s : State α} (I : Inv s) {h : Nat} (hn : h < s.n) (i : Nat) (v : α) :
    Inv (write s h i v) ∧ Frame s (write s h i v) h := by
  unfold write; dsimp only
  split
  · rename_i hi; exact writeCell_inv I hn hi v
  · exact ⟨I, Frame.refl s h⟩

theorem pushBack_good [Inhabited α] {s : State α} (I : Inv s) {h : Nat} (hn : h < s.n) (v : α) : Good s (pushBack s h v) h := by
  unfold pushBack; dsimp only
  obtain ⟨G, hs, so⟩ := reallocate_good I hn ((s.hs h).size + 1)
  simp only [G.inv.nofault, Bool.false_eq_true, ↓reduceIte]
  rw [if_neg (by rw [hs]; omega)]
  exact G.trans (writeCell_good G.inv (by rw [G.frame.1]; exact hn) so (by rw [hs]; omega) v)

/-- with the invariant, `push_back` of the own cell `i` is `push_back` of the value of that cell -/
theorem pushBackSelf_eq [Inhabited α] {s : State α} (I : Inv s) {h : Nat} (hn : h < s.n) {i : Nat} (hi : i < (s.hs h).size) :
    ∃ v, (contents s h)[i]? = some v ∧ pushBackSelf s h i = pushBack s h v := by
  have hp : (s.hs h).psz ≠ 0 := size_pos_psz I hn (by omega)
  obtain ⟨c, b, h1, h2, h3, h4, h5, h6⟩ := (I.wf h hn).2 hp
  have lt : i < (s.ddata b).length := by omega
  refine ⟨(s.ddata b)[i], ?_, ?_⟩
  · unfold contents; rw [h2]; dsimp only
    rw [List.getElem?_take_of_lt hi, List.getElem?_eq_getElem lt]
  · unfold pushBackSelf; dsimp only
    rw [if_pos hi, h2]
    unfold readCells
    simp only [Nat.add_one_ne_zero, ↓reduceIte, h4, true_and]
    rw [if_pos (by omega)]
    dsimp only
    rw [List.getElem?_take_of_lt (Nat.lt_succ_self i), List.getElem?_eq_getElem lt]

theorem pushBackSelf_good [Inhabited α] {s : State α} (I : Inv s) {h : Nat} (hn : h < s.n) (i : Nat) :
    Good s (pushBackSelf s h i) h := by
  by_cases hi : i < (s.hs h).size
  · obtain ⟨v, _, e⟩ := pushBackSelf_eq I hn hi
    rw [e]; exact pushBack_good I hn v
  · have : pushBackSelf s h i = s := by unfold pushBackSelf; dsimp only; rw [if_neg hi]
    rw [this]; exact good_self I h

theorem reserve_good [Inhabited α] {s : State α} (I : Inv s) {h : Nat} (hn : h < s.n) (sz : Nat) :
    Good s (reserve s h sz) h ∧ ((reserve s h sz).hs h).size = 0 := by
  unfold reserve; dsimp only
  obtain ⟨G, _⟩ := reallocate_good I hn sz
  simp only [G.inv.nofault, Bool.false_eq_true, ↓reduceIte]
  have R := reallocate_good G.inv (by rw [G.frame.1]; exact hn) 0
  exact ⟨G.trans R.1, R.2.1⟩

theorem copy_good [Inhabited α] {s : State α} (I : Inv s) {h g : Nat} (hn : h < s.n) (gn : g < s.n) : Good s (copy s h g) h := by
  unfold copy; dsimp only
  split
  · exact good_self I h
  · rename_i dne
    have ne : g ≠ h := fun q => dne (by rw [q])
    obtain ⟨G, hs, so⟩ := reallocate_good I hn (s.hs g).size
    simp only [G.inv.nofault, Bool.false_eq_true, ↓reduceIte]
    have hn' : h < (reallocate s h (s.hs g).size).n := by rw [G.frame.1]; exact hn
    have gn' : g < (reallocate s h (s.hs g).size).n := by rw [G.frame.1]; exact gn
    have gsame := G.frame.2 g ne
    obtain ⟨l, hl, hlen⟩ := readCells_ok G.inv gn' (k := ((reallocate s h (s.hs g).size).hs h).size) (by rw [hs, gsame]; omega)
    rw [hl]
    dsimp only
    refine G.trans ?_
    by_cases l0 : l = []
    · subst l0
      have : writeCells (reallocate s h (s.hs g).size) ((reallocate s h (s.hs g).size).hs h).d ([] : List α)
          = reallocate s h (s.hs g).size := by
        unfold writeCells; split <;> simp
      rw [this]; exact good_self G.inv h
    · have lpos : l.length ≠ 0 := by intro q; exact l0 (List.length_eq_zero_iff.mp q)
      have hp : ((reallocate s h (s.hs g).size).hs h).psz ≠ 0 := size_pos_psz G.inv hn' (by omega)
      obtain ⟨c, b, h1, h2, h3, h4, h5, h6⟩ := (G.inv.wf h hn').2 hp
      rw [h2]; unfold writeCells
      have le : l.length ≤ ((reallocate s h (s.hs g).size).ddata b).length := by omega
      simp only [List.isEmpty_iff, l0, ↓reduceIte, h4, true_and, le]
      have ex := sole_excl G.inv hn' so h2
      exact ⟨setData_inv G.inv b _ (by simp; omega), ⟨rfl, fun _ _ => rfl⟩, fun k ne kn x hx => by
        show upd _ b _ x = _
        exact upd_other _ _ _ _ (fun q => ex k ne kn (by rw [hx, q]))⟩

theorem step_eq_core [Inhabited α] {s : State α} (I : Inv s) (op : Op α) (hb : ∀ k, k ∈ op.handles → k < s.n) :
    step s op = stepCore s op := by
  unfold step
  simp only [I.nofault, Bool.false_eq_true, ↓reduceIte]
  rw [if_neg]
  intro q
  obtain ⟨k, hk, hq⟩ := List.any_eq_true.mp q
  have := hb k hk
  simp at hq; omega

theorem stepCore_inv [Inhabited α] {s : State α} (I : Inv s) (op : Op α) (hb' : ∀ k, k ∈ op.handles → k < s.n) :
    Inv (stepCore s op) ∧ (stepCore s op).n = s.n := by
  cases op with
  | build h sz t => have G := (ctorBuild_good I (hb' h (by simp [Op.handles])) sz t).1; exact ⟨G.inv, G.frame.1⟩
  | noCopy h g => have G := ctorNoCopy_good I (hb' h (by simp [Op.handles])) (hb' g (by simp [Op.handles])); exact ⟨G.inv, G.frame.1⟩
  | withCopy h g => have G := ctorWithCopy_good I (hb' h (by simp [Op.handles])) (hb' g (by simp [Op.handles])); exact ⟨G.inv, G.frame.1⟩
  | destroy h => have G := (good_destroy I (hb' h (by simp [Op.handles]))).1; exact ⟨G.inv, G.frame.1⟩
  | allocate h sz => have G := (allocate_good I (hb' h (by simp [Op.handles])) sz).1; exact ⟨G.inv, G.frame.1⟩
  | resize h sz => have G := (reallocate_good I (hb' h (by simp [Op.handles])) sz).1; exact ⟨G.inv, G.frame.1⟩
  | reserve h sz => have G := (reserve_good I (hb' h (by simp [Op.handles])) sz).1; exact ⟨G.inv, G.frame.1⟩
  | pushBack h v => have G := pushBack_good I (hb' h (by simp [Op.handles])) v; exact ⟨G.inv, G.frame.1⟩
  | pushBackSelf h i => have G := pushBackSelf_good I (hb' h (by simp [Op.handles])) i; exact ⟨G.inv, G.frame.1⟩
  | write h i v => have G := write_good I (hb' h (by simp [Op.handles])) i v; exact ⟨G.1, G.2.1⟩
  | copy h g => have G := copy_good I (hb' h (by simp [Op.handles])) (hb' g (by simp [Op.handles])); exact ⟨G.inv, G.frame.1⟩
  | logcopy h g => have G := logcopy_good I (hb' h (by simp [Op.handles])) (hb' g (by simp [Op.handles])); exact ⟨G.inv, G.frame.1⟩
  | assign h g => have G := copy_good I (hb' h (by simp [Op.handles])) (hb' g (by simp [Op.handles])); exact ⟨G.inv, G.frame.1⟩

/-- every operation keeps the invariant -/
theorem step_inv [Inhabited α] {s : State α} (I : Inv s) (op : Op α) : Inv (step s op) ∧ (step s op).n = s.n := by
  by_cases hb : ∀ k, k ∈ op.handles → k < s.n
  · rw [step_eq_core I op hb]; exact stepCore_inv I op hb
  · have : step s op = s := by
      unfold step
      simp only [I.nofault, Bool.false_eq_true, ↓reduceIte]
      rw [if_pos]
      apply Classical.byContradiction; intro q
      apply hb; intro k hk
      apply Classical.byContradiction; intro q2
      exact q (List.any_eq_true.mpr ⟨k, hk, by simp; omega⟩)
    rw [this]; exact ⟨I, rfl⟩

theorem run_inv [Inhabited α] (ops : List (Op α)) : ∀ {s : State α}, Inv s → Inv (run s ops) ∧ (run s ops).n = s.n := by
  induction ops with
  | nil => intro s I; exact ⟨I, rfl⟩
  | cons op rest ih =>
    intro s I
    have ⟨I1, n1⟩ := step_inv I op
    have ⟨I2, n2⟩ := ih I1
    exact ⟨I2, n2.trans n1⟩

end Givaro.Model.Array0
