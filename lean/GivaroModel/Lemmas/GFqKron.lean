/-
C05 — GFqKronecker: the shift/mask state machine keeps its invariant under every sequence of `setShift` / `setMaxn`, and
under the invariant Kronecker substitution commutes with products and dot products of at most `maxn` terms.
-/
import GivaroModel.Model.GFqKron
import GivaroModel.Lemmas.GFqDecoding
import Mathlib.Tactic.Ring
import Mathlib.Tactic.Linarith
namespace Givaro.Lemmas.GFqKron
open Givaro.Model.GFqKron

/-- the invariant of the shift/mask state: the mask is `2^shift - 1` and `maxn` accumulated products keep every coefficient
    strictly below the digit base -/
structure Inv (s : KState) : Prop where
  base_eq : s.base = 2 ^ s.shift
  mask_eq : s.mask = 2 ^ s.shift - 1
  room : s.maxn * epmunsq s.p s.k < 2 ^ s.shift

theorem inv_setShift (s : KState) (i : Nat) : Inv (setShift s i) := by
  unfold setShift
  simp only [Nat.shiftLeft_eq, one_mul]
  refine ⟨rfl, rfl, ?_⟩
  have hpos : 0 < 2 ^ i := Nat.pow_pos (by norm_num)
  show (2 ^ i - 1) / epmunsq s.p s.k * epmunsq s.p s.k < 2 ^ i
  have := Nat.div_mul_le_self (2 ^ i - 1) (epmunsq s.p s.k)
  omega

theorem growBase_spec (m : Nat) : ∀ fuel sh b, b = 2 ^ sh → (b ≤ m → m + 1 - b ≤ fuel) →
    (growBase m fuel sh b).2 = 2 ^ (growBase m fuel sh b).1 ∧ m < (growBase m fuel sh b).2 := by
  intro fuel
  induction fuel with
  | zero =>
    intro sh b hb hf
    simp only [growBase]
    refine ⟨hb, ?_⟩
    by_contra h
    have := hf (by omega)
    have : 0 < b := by rw [hb]; exact Nat.pow_pos (by norm_num)
    omega
  | succ fuel ih =>
    intro sh b hb hf
    simp only [growBase]
    split
    · rename_i hle
      have hbpos : 0 < b := by rw [hb]; exact Nat.pow_pos (by norm_num)
      apply ih
      · rw [Nat.shiftLeft_eq, hb]; ring
      · intro h2
        rw [Nat.shiftLeft_eq] at h2 ⊢
        have := hf hle
        omega
    · rename_i hgt
      exact ⟨hb, by omega⟩

theorem inv_setMaxn (s : KState) (n : Nat) : Inv (setMaxn s n) := by
  have h := growBase_spec (n * epmunsq s.p s.k) (n * epmunsq s.p s.k + 1) 0 1 (by simp) (by intro _; omega)
  constructor
  · show (growBase (n * epmunsq s.p s.k) (n * epmunsq s.p s.k + 1) 0 1).2 = 2 ^ (growBase (n * epmunsq s.p s.k) (n * epmunsq s.p s.k + 1) 0 1).1
    exact h.1
  · show (growBase (n * epmunsq s.p s.k) (n * epmunsq s.p s.k + 1) 0 1).2 - 1 = 2 ^ (growBase (n * epmunsq s.p s.k) (n * epmunsq s.p s.k + 1) 0 1).1 - 1
    rw [h.1]
  · show n * epmunsq s.p s.k < 2 ^ (growBase (n * epmunsq s.p s.k) (n * epmunsq s.p s.k + 1) 0 1).1
    rw [← h.1]; exact h.2

/-- every state reachable from the constructor by any sequence of `setShift` / `setMaxn` satisfies the invariant -/
theorem inv_run (p k : Nat) (ops : List Op) : Inv (run (ctor p k) ops) := by
  have h0 : Inv (ctor p k) := inv_setShift _ _
  unfold run
  generalize ctor p k = s at h0
  induction ops generalizing s with
  | nil => exact h0
  | cons op ops ih =>
    simp only [List.foldl_cons]
    apply ih
    cases op with
    | shift i => exact inv_setShift s i
    | maxn n => exact inv_setMaxn s n

theorem run_pk (p k : Nat) (ops : List Op) : (run (ctor p k) ops).p = p ∧ (run (ctor p k) ops).k = k := by
  have h0 : (ctor p k).p = p ∧ (ctor p k).k = k := ⟨rfl, rfl⟩
  unfold run
  generalize ctor p k = s at h0
  induction ops generalizing s with
  | nil => exact h0
  | cons op ops ih =>
    simp only [List.foldl_cons]
    apply ih
    cases op with
    | shift i => exact h0
    | maxn n => exact h0


/-! ### packing, convolution, digit extraction -/

/-- value of the digit string `cs` (low first) in base `B` -/
def evB (B : Nat) : List Nat → Nat
  | [] => 0
  | c :: cs => c + evB B cs * B

theorem convert_eq (s : KState) : ∀ cs, convert s cs = evB (2 ^ s.shift) cs
  | [] => rfl
  | c :: cs => by simp only [convert, evB, Nat.shiftLeft_eq, convert_eq s cs]

def ladd : List Nat → List Nat → List Nat
  | a :: as, b :: bs => (a + b) :: ladd as bs
  | as, [] => as
  | [], bs => bs

def lscale (c : Nat) (l : List Nat) : List Nat := l.map (fun x => c * x)

/-- product of two coefficient lists over ℕ (no reduction) -/
def lmul : List Nat → List Nat → List Nat
  | [], _ => []
  | a :: as, b => ladd (lscale a b) (0 :: lmul as b)

theorem evB_ladd (B : Nat) : ∀ a b, evB B (ladd a b) = evB B a + evB B b
  | [], [] => rfl
  | [], _ :: _ => by simp [ladd, evB]
  | _ :: _, [] => by simp [ladd, evB]
  | a :: as, b :: bs => by simp only [ladd, evB, evB_ladd B as bs]; ring

theorem evB_lscale (B c : Nat) : ∀ l, evB B (lscale c l) = c * evB B l
  | [] => rfl
  | a :: as => by
    have ih := evB_lscale B c as
    simp only [lscale, List.map_cons, evB] at ih ⊢
    rw [ih]; ring

theorem evB_lmul (B : Nat) : ∀ a b, evB B (lmul a b) = evB B a * evB B b
  | [], _ => by simp [lmul, evB]
  | a :: as, b => by
    simp only [lmul, evB_ladd, evB_lscale, evB, evB_lmul B as b]; ring

section ring
variable {K : Type*} [CommRing K] (x : K)
open Givaro.Lemmas.GFqZech

theorem ev_ladd : ∀ a b, ev x (ladd a b) = ev x a + ev x b
  | [], [] => by simp [ladd, ev]
  | [], _ :: _ => by simp [ladd, ev]
  | _ :: _, [] => by simp [ladd, ev]
  | a :: as, b :: bs => by simp only [ladd, ev, ev_ladd as bs]; push_cast; ring

theorem ev_lscale (c : Nat) : ∀ l, ev x (lscale c l) = (c : K) * ev x l
  | [] => by simp [lscale, ev]
  | a :: as => by
    have ih := ev_lscale c as
    simp only [lscale, List.map_cons, ev] at ih ⊢
    rw [ih]; push_cast; ring

theorem ev_lmul : ∀ a b, ev x (lmul a b) = ev x a * ev x b
  | [], _ => by simp [lmul, ev]
  | a :: as, b => by
    simp only [lmul, ev_ladd, ev_lscale, ev, ev_lmul as b]; push_cast; ring
end ring

theorem digit_extract (sh : Nat) : ∀ (cs : List Nat), (∀ c ∈ cs, c < 2 ^ sh) → ∀ j,
    (evB (2 ^ sh) cs >>> (sh * j)) &&& (2 ^ sh - 1) = cs.getD j 0
  | [], _, j => by simp [evB]
  | c :: cs, h, 0 => by
    have hc : c < 2 ^ sh := h c (List.mem_cons_self ..)
    simp only [evB, Nat.mul_zero, Nat.shiftRight_zero, Nat.and_two_pow_sub_one_eq_mod, List.getD_cons_zero]
    rw [Nat.add_mul_mod_self_right, Nat.mod_eq_of_lt hc]
  | c :: cs, h, j + 1 => by
    have hc : c < 2 ^ sh := h c (List.mem_cons_self ..)
    have ih := digit_extract sh cs (fun d hd => h d (List.mem_cons_of_mem _ hd)) j
    have e : evB (2 ^ sh) (c :: cs) >>> (sh * (j + 1)) = evB (2 ^ sh) cs >>> (sh * j) := by
      rw [Nat.mul_succ, Nat.add_comm (sh * j) sh, Nat.shiftRight_add]
      congr 1
      simp only [evB, Nat.shiftRight_eq_div_pow]
      rw [Nat.add_mul_div_right _ _ (Nat.pow_pos (by norm_num)), Nat.div_eq_of_lt hc, Nat.zero_add]
    rw [e, ih]; simp


/-- all entries at most `m` -/
def Bnd (l : List Nat) (m : Nat) : Prop := ∀ c ∈ l, c ≤ m

theorem bnd_ladd : ∀ (a b : List Nat) (ma mb : Nat), Bnd a ma → Bnd b mb → Bnd (ladd a b) (ma + mb)
  | [], [], _, _, _, _ => by intro c hc; simp [ladd] at hc
  | [], b :: bs, ma, mb, _, hb => by intro c hc; simp only [ladd] at hc; have := hb c hc; omega
  | a :: as, [], ma, mb, ha, _ => by intro c hc; simp only [ladd] at hc; have := ha c hc; omega
  | a :: as, b :: bs, ma, mb, ha, hb => by
    intro c hc
    simp only [ladd, List.mem_cons] at hc
    rcases hc with rfl | hc
    · have := ha a (List.mem_cons_self ..); have := hb b (List.mem_cons_self ..); omega
    · exact bnd_ladd as bs ma mb (fun d hd => ha d (List.mem_cons_of_mem _ hd))
        (fun d hd => hb d (List.mem_cons_of_mem _ hd)) c hc

theorem bnd_lmul (M : Nat) : ∀ (a b : List Nat), Bnd a M → Bnd b M → Bnd (lmul a b) (a.length * (M * M))
  | [], _, _, _ => by intro c hc; simp [lmul] at hc
  | a :: as, b, ha, hb => by
    have h1 : Bnd (lscale a b) (M * M) := by
      intro c hc
      simp only [lscale, List.mem_map] at hc
      obtain ⟨y, hy, rfl⟩ := hc
      exact Nat.mul_le_mul (ha a (List.mem_cons_self ..)) (hb y hy)
    have h2 : Bnd (0 :: lmul as b) (as.length * (M * M)) := by
      intro c hc
      simp only [List.mem_cons] at hc
      rcases hc with rfl | hc
      · exact Nat.zero_le _
      · exact bnd_lmul M as b (fun d hd => ha d (List.mem_cons_of_mem _ hd)) hb c hc
    have := bnd_ladd _ _ _ _ h1 h2
    simp only [lmul, List.length_cons]
    intro c hc
    have := this c hc
    calc c ≤ M * M + as.length * (M * M) := this
      _ = (as.length + 1) * (M * M) := by ring

theorem len_ladd : ∀ a b : List Nat, (ladd a b).length = max a.length b.length
  | [], [] => rfl
  | [], _ :: _ => by simp [ladd]
  | _ :: _, [] => by simp [ladd]
  | a :: as, b :: bs => by simp only [ladd, List.length_cons, len_ladd as bs]; omega

theorem len_lmul : ∀ a b : List Nat, b ≠ [] → a ≠ [] → (lmul a b).length = a.length + b.length - 1
  | [], _, _, h => absurd rfl h
  | [a], b, hb, _ => by
    simp only [lmul, len_ladd, lscale, List.length_map, List.length_cons, List.length_nil]
    have : 0 < b.length := List.length_pos_of_ne_nil hb
    omega
  | a :: a' :: as, b, hb, _ => by
    have ih := len_lmul (a' :: as) b hb (by simp)
    simp only [lmul, len_ladd, lscale, List.length_map, List.length_cons] at ih ⊢
    have : 0 < b.length := List.length_pos_of_ne_nil hb
    omega

/-- the accumulated sum of products `Σ_t a_t * b_t` over ℕ, coefficientwise -/
def accPoly : List (List Nat × List Nat) → List Nat
  | [] => []
  | (a, b) :: rest => ladd (lmul a b) (accPoly rest)

/-- the integer the application accumulates: `Σ_t convert(a_t) * convert(b_t)` -/
def accInt (s : KState) : List (List Nat × List Nat) → Nat
  | [] => 0
  | (a, b) :: rest => convert s a * convert s b + accInt s rest

theorem accInt_eq (s : KState) : ∀ ts, accInt s ts = evB (2 ^ s.shift) (accPoly ts)
  | [] => rfl
  | (a, b) :: rest => by
    simp only [accInt, accPoly, evB_ladd, evB_lmul, convert_eq, accInt_eq s rest]

theorem bnd_accPoly (k M : Nat) : ∀ ts : List (List Nat × List Nat),
    (∀ t ∈ ts, t.1.length = k ∧ t.2.length = k ∧ Bnd t.1 M ∧ Bnd t.2 M) → Bnd (accPoly ts) (ts.length * (k * (M * M)))
  | [], _ => by intro c hc; simp [accPoly] at hc
  | (a, b) :: rest, h => by
    obtain ⟨ha, hb, ba, bb⟩ := h (a, b) (List.mem_cons_self ..)
    have h1 := bnd_lmul M a b ba bb
    rw [show a.length = k from ha] at h1
    have h2 := bnd_accPoly k M rest (fun t ht => h t (List.mem_cons_of_mem _ ht))
    have := bnd_ladd _ _ _ _ h1 h2
    intro c hc
    have := this c hc
    simp only [List.length_cons]
    calc c ≤ k * (M * M) + rest.length * (k * (M * M)) := this
      _ = (rest.length + 1) * (k * (M * M)) := by ring

theorem len_accPoly (k : Nat) (hk : 1 ≤ k) : ∀ ts : List (List Nat × List Nat),
    (∀ t ∈ ts, t.1.length = k ∧ t.2.length = k) → (accPoly ts).length ≤ 2 * k - 1
  | [], _ => by simp [accPoly]
  | (a, b) :: rest, h => by
    obtain ⟨ha, hb⟩ := h (a, b) (List.mem_cons_self ..)
    have ih := len_accPoly k hk rest (fun t ht => h t (List.mem_cons_of_mem _ ht))
    have hane : a ≠ [] := by intro e; rw [e] at ha; simp at ha; omega
    have hbne : b ≠ [] := by intro e; rw [e] at hb; simp at hb; omega
    simp only [accPoly, len_ladd, len_lmul a b hbne hane, ha, hb]
    omega


theorem unpack_acc (s : KState) (hI : Inv s) (ts : List (List Nat × List Nat))
    (hts : ∀ t ∈ ts, t.1.length = s.k ∧ t.2.length = s.k ∧ Bnd t.1 (s.p - 1) ∧ Bnd t.2 (s.p - 1))
    (hn : ts.length ≤ s.maxn) :
    unpack s (accInt s ts) = (List.range (2 * s.k - 1)).map (fun j => (accPoly ts).getD j 0 % s.p) := by
  unfold unpack
  rw [accInt_eq, hI.mask_eq]
  apply List.map_congr_left
  intro j _
  rw [digit_extract]
  intro c hc
  have hb := bnd_accPoly s.k (s.p - 1) ts hts c hc
  have hroom := hI.room
  have : ts.length * (s.k * ((s.p - 1) * (s.p - 1))) ≤ s.maxn * epmunsq s.p s.k := by
    unfold epmunsq
    calc ts.length * (s.k * ((s.p - 1) * (s.p - 1))) ≤ s.maxn * (s.k * ((s.p - 1) * (s.p - 1))) :=
          Nat.mul_le_mul_right _ hn
      _ = s.maxn * (s.k * (s.p - 1) * (s.p - 1)) := by ring
  omega

section ring
variable {K : Type*} [CommRing K] (x : K)
open Givaro.Lemmas.GFqZech

/-- the dot product of the field, on decoded polynomials -/
def dotK : List (List Nat × List Nat) → K
  | [] => 0
  | (a, b) :: rest => ev x a * ev x b + dotK rest

theorem ev_accPoly : ∀ ts, ev x (accPoly ts) = dotK x ts
  | [] => by simp [accPoly, dotK, ev]
  | (a, b) :: rest => by simp only [accPoly, dotK, ev_ladd, ev_lmul, ev_accPoly rest]

theorem ev_range_getD {p : Nat} (hp0 : ((p : Nat) : K) = 0) : ∀ (L : Nat) (cs : List Nat), cs.length ≤ L →
    ev x ((List.range L).map (fun j => cs.getD j 0 % p)) = ev x cs
  | 0, cs, h => by
    have : cs = [] := List.eq_nil_of_length_eq_zero (by omega)
    subst this; simp [ev]
  | L + 1, cs, h => by
    rw [List.range_succ_eq_map, List.map_cons, List.map_map]
    cases cs with
    | nil =>
      have ih := ev_range_getD hp0 L [] (by simp)
      simp only [ev, List.getD_nil, Nat.zero_mod, Nat.cast_zero, zero_add] at ih ⊢
      have e : ((fun (_ : Nat) => 0) ∘ Nat.succ) = (fun (_ : Nat) => (0 : Nat)) := by funext j; rfl
      rw [e, ih]; simp
    | cons c cs' =>
      have ih := ev_range_getD hp0 L cs' (by simpa using h)
      have e : ((fun j => (c :: cs').getD j 0 % p) ∘ Nat.succ) = (fun j => cs'.getD j 0 % p) := by
        funext j; simp
      simp only [ev, List.getD_cons_zero]
      rw [e, ih, cast_mod hp0]

/-- **Kronecker substitution commutes with the dot product**: in every state satisfying the invariant, for at most `maxn`
    pairs of elements (coefficient lists of length `k`, entries `< p`), unpacking the accumulated integer
    `Σ_t convert(a_t)·convert(b_t)` gives a polynomial whose class (in any commutative ring with `p = 0`, evaluated at any `x`)
    is `Σ_t a_t(x)·b_t(x)`. -/
theorem kronecker_dot (s : KState) (hI : Inv s) (hk : 1 ≤ s.k) (hp0 : ((s.p : Nat) : K) = 0)
    (ts : List (List Nat × List Nat))
    (hts : ∀ t ∈ ts, t.1.length = s.k ∧ t.2.length = s.k ∧ Bnd t.1 (s.p - 1) ∧ Bnd t.2 (s.p - 1))
    (hn : ts.length ≤ s.maxn) :
    ev x (unpack s (accInt s ts)) = dotK x ts := by
  rw [unpack_acc s hI ts hts hn, ev_range_getD x hp0 _ _ (len_accPoly s.k hk ts (fun t ht => ⟨(hts t ht).1, (hts t ht).2.1⟩)),
    ev_accPoly]
end ring

end Givaro.Lemmas.GFqKron
