/-
C09 — helper lemmas about the search loops of `Model/PolyFactor.lean` (shape of the candidates, `firstThat`).
-/
import GivaroModel.Model.PolyFactor
namespace Givaro.Model.PolyFactor
set_option linter.unusedSectionVars false
set_option linter.unusedVariables false

section
variable {α : Type} [DecidableEq α] (F : FOps α)

/-- stored as a vector of exactly `n+1` coefficients whose last one is `one` -/
def StoredMonic (n : Nat) (R : Poly α) : Prop := R.length = n + 1 ∧ R[n]? = some F.one

theorem firstThat_spec (test : Poly α → Bool) (cs : List (Poly α)) (R : Poly α)
    (h : firstThat test cs = some R) : R ∈ cs ∧ test R = true := by
  induction cs with
  | nil => simp [firstThat] at h
  | cons c cs ih =>
    unfold firstThat at h
    split at h
    · next hc => cases h; exact ⟨List.mem_cons_self, hc⟩
    · obtain ⟨h1, h2⟩ := ih h
      exact ⟨List.mem_cons_of_mem _ h1, h2⟩

theorem storedMonic_xpow (n : Nat) : StoredMonic F n (xpow F n) := by
  unfold StoredMonic xpow
  constructor
  · simp
  · simp [List.getElem?_append_right]

theorem storedMonic_setCoef {n i : Nat} {R : Poly α} (a : α) (hi : i < n) (h : StoredMonic F n R) :
    StoredMonic F n (setCoef R i a) := by
  unfold StoredMonic setCoef at *
  constructor
  · simp [h.1]
  · rw [List.getElem?_set_ne (by omega)]; exact h.2

theorem storedMonic_binomials (elems : List α) {n : Nat} (hn : 1 ≤ n) :
    ∀ R ∈ binomials F elems n, StoredMonic F n R := by
  intro R hR
  unfold binomials at hR
  obtain ⟨a, -, rfl⟩ := List.mem_map.1 hR
  exact storedMonic_setCoef F a (by omega) (storedMonic_xpow F n)

theorem storedMonic_trinomials (elems : List α) {n d0 : Nat} (hn : 1 ≤ n) (hd : 1 ≤ d0) :
    ∀ R ∈ trinomials F elems n d0, StoredMonic F n R := by
  intro R hR
  unfold trinomials at hR
  obtain ⟨i, hi, hR⟩ := List.mem_flatMap.1 hR
  obtain ⟨b, -, hR⟩ := List.mem_flatMap.1 hR
  obtain ⟨a, -, rfl⟩ := List.mem_map.1 hR
  have hi' : i < n / 2 + 1 - d0 := List.mem_range.1 hi
  have : d0 + i < n := by
    have : n / 2 < n := Nat.div_lt_self (by omega) (by omega)
    omega
  exact storedMonic_setCoef F a (by omega) (storedMonic_setCoef F b this (storedMonic_xpow F n))

theorem storedMonic_randomials (stream : List (Poly α)) (n : Nat) :
    ∀ R ∈ randomials F n stream, StoredMonic F n R := by
  intro R hR
  unfold randomials at hR
  obtain ⟨r, -, rfl⟩ := List.mem_map.1 hR
  have hlen : (r.take (n + 1) ++ List.replicate (n + 1 - r.length) F.zero).length = n + 1 := by
    simp only [List.length_append, List.length_take, List.length_replicate]; omega
  unfold StoredMonic setCoef
  constructor
  · simp only [List.length_set]; exact hlen
  · rw [List.getElem?_set_self (by omega)]

/-- a stored vector whose last coefficient is non-zero is normalised -/
theorem norm_append_singleton (l : Poly α) (a : α) (ha : a ≠ F.zero) : norm F (l ++ [a]) = l ++ [a] := by
  induction l with
  | nil => simp [norm, ha]
  | cons b l ih =>
    simp only [List.cons_append, norm, ih]
    simp

theorem degree_of_storedMonic (hone : F.one ≠ F.zero) {n : Nat} {R : Poly α} (h : StoredMonic F n R) :
    degree F R = n := by
  obtain ⟨hl, hn⟩ := h
  have hne : R ≠ [] := by intro h0; simp [h0] at hl
  have hR : R = R.dropLast ++ [F.one] := by
    have h1 := (List.dropLast_concat_getLast hne).symm
    have h2 : R.getLast hne = F.one := by
      rw [List.getLast_eq_getElem]
      have : R.length - 1 = n := by omega
      have h3 : R[n]? = some (R[R.length - 1]'(by omega)) := by
        rw [List.getElem?_eq_getElem (by omega)]; simp [this]
      rw [hn] at h3
      exact (Option.some.inj h3).symm
    rw [h2] at h1; exact h1
  unfold degree
  rw [hR, norm_append_singleton F _ _ hone]
  rw [← hR, hl]; simp

end
end Givaro.Model.PolyFactor
