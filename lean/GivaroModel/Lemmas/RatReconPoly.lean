/-
C11 — the polynomial variant (givpoly1ratrecon.inl).  The model `polyRatrecon6Fuel` is generic in the
Poly1Dom primitives it calls; here it is proved sound for *any* primitives satisfying the laws of a
polynomial ring over a field (`LawfulOps`): the Euclid invariant N = S·M + D·P with determinant 1.
-/
import GivaroModel.Model.RatRecon
import Mathlib.Tactic.Ring
import Mathlib.Tactic.Linarith
namespace Givaro.Lemmas.RatRecon
open Givaro.Model.RatRecon

/-- what the model assumes about `degree`, `divmodin`, `maxpyin`, `gcd`, `leadcoef`/`divin` of Poly1Dom (their
    correctness is property C08) -/
structure LawfulOps {P : Type} [CommRing P] (O : PolyOps P) : Prop where
  zero_eq : O.zero = 0
  one_eq : O.one = 1
  deg_one : O.deg 1 = 0
  deg_neg_iff : ∀ a, O.deg a < 0 ↔ a = 0
  deg_mul : ∀ a b, a ≠ 0 → b ≠ 0 → O.deg (a * b) = O.deg a + O.deg b
  divmod_eq : ∀ a b, b ≠ 0 → a = (O.divmod a b).1 * b + (O.divmod a b).2
  maxpy_eq : ∀ r a b, O.maxpy r a b = r - a * b
  divLc_eq : ∀ d, d ≠ 0 → ∃ c ci : P, c * ci = 1 ∧ ∀ x, O.divLc x d = ci * x
  gcdDeg_unit : ∀ c ci x y : P, c * ci = 1 → O.gcdDeg (ci * x) (ci * y) = O.gcdDeg x y

/-- N ≡ D·P (mod M), deg N ≤ dk, D ≠ 0, and gcd(N,D) constant when a reduced fraction is requested -/
def PolySound {P : Type} [CommRing P] (O : PolyOps P) (p m : P) (dk : Int) (reduce : Bool) (n d : P) : Prop :=
  (∃ s, n = d * p + s * m) ∧ O.deg n ≤ dk ∧ d ≠ 0 ∧ (reduce = true → O.gcdDeg n d ≤ 0)

variable {P : Type} [CommRing P] {O : PolyOps P}

theorem one_ne_zero_of (L : LawfulOps O) : (1 : P) ≠ 0 := by
  intro h
  have := (L.deg_neg_iff 1).mpr h
  rw [L.deg_one] at this
  omega

theorem deg_nonneg_of (L : LawfulOps O) (a : P) (ha : a ≠ 0) : 0 ≤ O.deg a := by
  by_contra h
  exact ha ((L.deg_neg_iff a).mp (by omega))

/-- a row `n = S m + 0·p` whose cofactor `S` is a unit factor cannot have degree below `deg m` -/
theorem row_not_short (L : LawfulOps O) (m S x n : P) (dk : Int) (hdm : dk < O.deg m) (hdk : 0 ≤ dk)
    (hn : n = S * m) (hS : S * x = 1 ∨ x * S = -1 ∨ S * x = -1) (hdeg : O.deg n ≤ dk) : False := by
  have h1 := one_ne_zero_of L
  have hS0 : S ≠ 0 := by
    intro h0
    rcases hS with h | h | h <;> rw [h0] at h <;> simp at h <;> first | exact h1 h.symm | exact h1 h
  have hm0 : m ≠ 0 := by
    intro h0
    have := (L.deg_neg_iff m).mpr h0
    omega
  have := L.deg_mul S m hS0 hm0
  have := deg_nonneg_of L S hS0
  rw [hn] at hdeg
  omega

theorem polyLoop_sound (L : LawfulOps O) (p m : P) (dk : Int) (hdk : 0 ≤ dk) (hdm : dk < O.deg m) :
    ∀ (fuel : Nat) (s : PSt P),
      (∃ S0 S1, s.n = S0 * m + s.d0 * p ∧ s.u = S1 * m + s.d * p ∧ S0 * s.d - S1 * s.d0 = 1) → s.u ≠ 0 →
      (polyLoop O dk fuel s).ok = true →
      (∃ S, (polyLoop O dk fuel s).n = (polyLoop O dk fuel s).d * p + S * m) ∧
        O.deg (polyLoop O dk fuel s).n ≤ dk ∧ (polyLoop O dk fuel s).d ≠ 0 := by
  intro fuel
  induction fuel with
  | zero => intro s _ _ h; simp [polyLoop] at h
  | succ fuel ih =>
    intro s ⟨S0, S1, en, eu, hdet⟩ hu
    unfold polyLoop
    have hdiv1 := L.divmod_eq s.n s.u hu
    simp only []
    generalize O.divmod s.n s.u = qr at hdiv1 ⊢
    obtain ⟨q, n1⟩ := qr
    simp only [] at hdiv1 ⊢
    rw [L.maxpy_eq]
    -- first half-step: row (n1, d0 - q d) with cofactor S0 - q S1
    have en1 : n1 = (S0 - q * S1) * m + (s.d0 - q * s.d) * p := by
      have : n1 = s.n - q * s.u := by rw [hdiv1]; ring
      rw [this, en, eu]; ring
    have hdet1 : (S0 - q * S1) * s.d - S1 * (s.d0 - q * s.d) = 1 := by rw [← hdet]; ring
    by_cases hA : O.deg n1 ≤ dk ∨ O.deg n1 < 0
    · rw [if_pos hA]
      simp only [decide_eq_true_eq]
      intro hok
      refine ⟨⟨S0 - q * S1, by rw [en1]; ring⟩, hok, ?_⟩
      intro hd0
      rw [hd0] at hdet1 en1
      exact row_not_short L m (S0 - q * S1) s.d n1 dk hdm hdk (by rw [en1]; ring) (Or.inl (by rw [← hdet1]; ring)) hok
    · rw [if_neg hA]
      have hn1 : n1 ≠ 0 := by
        intro h0
        exact hA (Or.inr ((L.deg_neg_iff n1).mpr h0))
      have hdiv2 := L.divmod_eq s.u n1 hn1
      generalize O.divmod s.u n1 = qr2 at hdiv2 ⊢
      obtain ⟨q2, u1⟩ := qr2
      simp only [] at hdiv2 ⊢
      rw [L.maxpy_eq]
      have eu1 : u1 = (S1 - q2 * (S0 - q * S1)) * m + (s.d - q2 * (s.d0 - q * s.d)) * p := by
        have : u1 = s.u - q2 * n1 := by rw [hdiv2]; ring
        rw [this, en1, eu]; ring
      have hdet2 : (S0 - q * S1) * (s.d - q2 * (s.d0 - q * s.d)) - (S1 - q2 * (S0 - q * S1)) * (s.d0 - q * s.d) = 1 := by
        rw [← hdet1]; ring
      by_cases hB : O.deg u1 ≤ dk
      · rw [if_pos hB]
        intro _
        refine ⟨⟨S1 - q2 * (S0 - q * S1), by rw [eu1]; ring⟩, hB, ?_⟩
        intro hd0
        have hd0' : s.d - q2 * (s.d0 - q * s.d) = 0 := hd0
        rw [hd0'] at hdet2 eu1
        exact row_not_short L m (S1 - q2 * (S0 - q * S1)) (s.d0 - q * s.d) u1 dk hdm hdk (by rw [eu1]; ring)
          (Or.inr (Or.inr (by
            have : (S1 - q2 * (S0 - q * S1)) * (s.d0 - q * s.d) = -((S0 - q * S1) * 0 - (S1 - q2 * (S0 - q * S1)) * (s.d0 - q * s.d)) := by ring
            rw [this, hdet2]))) hB
      · rw [if_neg hB]
        by_cases hC : O.deg u1 ≥ 0
        · rw [if_pos hC]
          have hu1 : u1 ≠ 0 := by
            intro h0
            have := (L.deg_neg_iff u1).mpr h0
            omega
          exact ih ⟨n1, u1, s.d0 - q * s.d, s.d - q2 * (s.d0 - q * s.d)⟩ ⟨_, _, en1, eu1, hdet2⟩ hu1
        · rw [if_neg hC]
          simp only [decide_eq_true_eq]
          intro h; exact absurd h hB

theorem polyRatreconFuel_sound (L : LawfulOps O) (fuel : Nat) (p m : P) (dk : Int) (hdk : 0 ≤ dk) (hdm : dk < O.deg m)
    (hok : (polyRatreconFuel O fuel p m dk).ok = true) :
    (∃ S, (polyRatreconFuel O fuel p m dk).n = (polyRatreconFuel O fuel p m dk).d * p + S * m) ∧
      O.deg (polyRatreconFuel O fuel p m dk).n ≤ dk ∧ (polyRatreconFuel O fuel p m dk).d ≠ 0 := by
  unfold polyRatreconFuel at hok ⊢
  simp only [] at hok ⊢
  by_cases h1 : O.deg p < dk ∨ O.deg m = 0
  · rw [if_pos h1]
    have hlt : O.deg p < dk := by rcases h1 with h | h <;> omega
    refine ⟨⟨0, by rw [L.one_eq]; ring⟩, (by show O.deg p ≤ dk; omega), ?_⟩
    show O.one ≠ 0
    rw [L.one_eq]; exact one_ne_zero_of L
  · rw [if_neg h1] at hok ⊢
    by_cases h2 : O.deg m < 0 ∨ O.deg p = 0
    · rw [if_pos h2] at hok; cases hok
    · rw [if_neg h2] at hok ⊢
      have hp0 : p ≠ 0 := by
        intro h0
        have := (L.deg_neg_iff p).mpr h0
        omega
      exact polyLoop_sound L p m dk hdk hdm fuel ⟨m, p, O.zero, O.one⟩
        ⟨1, 0, by simp [L.zero_eq], by simp [L.one_eq], by simp [L.zero_eq, L.one_eq]⟩ hp0 hok

theorem polyRatrecon6Fuel_sound (L : LawfulOps O) (fuel : Nat) (p m : P) (dk : Int) (fr : Bool)
    (hdk : 0 ≤ dk) (hdm : dk < O.deg m) (hok : (polyRatrecon6Fuel O fuel p m dk fr).ok = true) :
    PolySound O p m dk fr (polyRatrecon6Fuel O fuel p m dk fr).n (polyRatrecon6Fuel O fuel p m dk fr).d := by
  unfold polyRatrecon6Fuel at hok ⊢
  cases fr with
  | false =>
    simp only [Bool.false_eq_true, if_false] at hok ⊢
    obtain ⟨h1, h2, h3⟩ := polyRatreconFuel_sound L fuel p m dk hdk hdm hok
    exact ⟨h1, h2, h3, by intro h; cases h⟩
  | true =>
    simp only [if_true] at hok ⊢
    unfold polyRatreconCheckFuel at hok ⊢
    simp only [] at hok ⊢
    by_cases hg : O.gcdDeg (polyRatreconFuel O fuel p m dk).n (polyRatreconFuel O fuel p m dk).d > 0
    · rw [if_pos hg] at hok; cases hok
    · rw [if_neg hg] at hok ⊢
      by_cases hl : (!O.lcIsOne (polyRatreconFuel O fuel p m dk).d) = true
      · rw [if_pos hl] at hok ⊢
        obtain ⟨⟨S, h1⟩, h2, h3⟩ := polyRatreconFuel_sound L fuel p m dk hdk hdm hok
        obtain ⟨c, ci, hc, hdiv⟩ := L.divLc_eq _ h3
        generalize (polyRatreconFuel O fuel p m dk).n = N at h1 h2 hg ⊢
        generalize (polyRatreconFuel O fuel p m dk).d = D at h1 h3 hg hdiv ⊢
        have h10 := one_ne_zero_of L
        have hc0 : c ≠ 0 := by intro h0; rw [h0] at hc; simp at hc; exact h10 hc.symm
        have hci0 : ci ≠ 0 := by intro h0; rw [h0] at hc; simp at hc; exact h10 hc.symm
        have hdci : O.deg ci = 0 := by
          have := L.deg_mul c ci hc0 hci0
          rw [hc, L.deg_one] at this
          have := deg_nonneg_of L c hc0
          have := deg_nonneg_of L ci hci0
          omega
        simp only [hdiv]
        refine ⟨⟨ci * S, by rw [h1]; ring⟩, ?_, ?_, fun _ => ?_⟩
        · by_cases hN : N = 0
          · rw [hN] at h2 ⊢; simpa using h2
          · rw [L.deg_mul ci N hci0 hN]; omega
        · intro h0
          apply h3
          have : D = c * (ci * D) := by rw [← mul_assoc, hc, one_mul]
          rw [this, h0, mul_zero]
        · rw [L.gcdDeg_unit c ci N D hc]; omega
      · rw [if_neg hl] at hok ⊢
        obtain ⟨h1, h2, h3⟩ := polyRatreconFuel_sound L fuel p m dk hdk hdm hok
        exact ⟨h1, h2, h3, fun _ => by omega⟩

end Givaro.Lemmas.RatRecon
