/- C12 — `Primes16` (givprimes16.C): four of the sixteen pieces of the extracted table equal the primes of their range (trial
   division, kernel evaluation).  Written once by hand-run script; the table itself is re-extracted on every run. -/
import GivaroModel.Model.Primes16Ranges
import GivaroModel.Spec.PrimesSpec
namespace Givaro.Lemmas.Primes16
open Givaro.Model.Primes Givaro.Spec.Primes

theorem range0_exact : primes16Range0 = (List.range' 0 4096).filter isPrimeDec := by decide +kernel
theorem range1_exact : primes16Range1 = (List.range' 4096 4096).filter isPrimeDec := by decide +kernel
theorem range2_exact : primes16Range2 = (List.range' 8192 4096).filter isPrimeDec := by decide +kernel
theorem range3_exact : primes16Range3 = (List.range' 12288 4096).filter isPrimeDec := by decide +kernel

end Givaro.Lemmas.Primes16
