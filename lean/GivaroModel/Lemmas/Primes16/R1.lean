/- C12 — `Primes16` (givprimes16.C): four of the sixteen pieces of the extracted table equal the primes of their range (trial
   division, kernel evaluation).  Written once by hand-run script; the table itself is re-extracted on every run. -/
import GivaroModel.Model.Primes16Ranges
import GivaroModel.Spec.PrimesSpec
namespace Givaro.Lemmas.Primes16
open Givaro.Model.Primes Givaro.Spec.Primes

theorem range4_exact : primes16Range4 = (List.range' 16384 4096).filter isPrimeDec := by decide +kernel
theorem range5_exact : primes16Range5 = (List.range' 20480 4096).filter isPrimeDec := by decide +kernel
theorem range6_exact : primes16Range6 = (List.range' 24576 4096).filter isPrimeDec := by decide +kernel
theorem range7_exact : primes16Range7 = (List.range' 28672 4096).filter isPrimeDec := by decide +kernel

end Givaro.Lemmas.Primes16
