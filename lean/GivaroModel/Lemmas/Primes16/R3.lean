/- C12 — `Primes16` (givprimes16.C): four of the sixteen pieces of the extracted table equal the primes of their range (trial
   division, kernel evaluation).  Written once by hand-run script; the table itself is re-extracted on every run. -/
import GivaroModel.Model.Primes16Ranges
import GivaroModel.Spec.PrimesSpec
namespace Givaro.Lemmas.Primes16
open Givaro.Model.Primes Givaro.Spec.Primes

theorem range12_exact : primes16Range12 = (List.range' 49152 4096).filter isPrimeDec := by decide +kernel
theorem range13_exact : primes16Range13 = (List.range' 53248 4096).filter isPrimeDec := by decide +kernel
theorem range14_exact : primes16Range14 = (List.range' 57344 4096).filter isPrimeDec := by decide +kernel
theorem range15_exact : primes16Range15 = (List.range' 61440 4096).filter isPrimeDec := by decide +kernel

end Givaro.Lemmas.Primes16
