/- C12 — `Primes16` (givprimes16.C): four of the sixteen pieces of the extracted table equal the primes of their range (trial
   division, kernel evaluation).  Written once by hand-run script; the table itself is re-extracted on every run. -/
import GivaroModel.Model.Primes16Ranges
import GivaroModel.Spec.PrimesSpec
namespace Givaro.Lemmas.Primes16
open Givaro.Model.Primes Givaro.Spec.Primes

theorem range8_exact : primes16Range8 = (List.range' 32768 4096).filter isPrimeDec := by decide +kernel
theorem range9_exact : primes16Range9 = (List.range' 36864 4096).filter isPrimeDec := by decide +kernel
theorem range10_exact : primes16Range10 = (List.range' 40960 4096).filter isPrimeDec := by decide +kernel
theorem range11_exact : primes16Range11 = (List.range' 45056 4096).filter isPrimeDec := by decide +kernel

end Givaro.Lemmas.Primes16
