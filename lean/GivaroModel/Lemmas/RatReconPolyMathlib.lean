/-
C11 — the Poly1Dom primitives instantiated with Mathlib's `Polynomial F` over an arbitrary field `F`:
`degree` (−1 for 0), `divmodin` = (`/`, `%`), `maxpyin` = `r − a b`, `gcd` = `EuclideanDomain.gcd`,
`leadcoef`/`divin` = multiplication by the inverse leading coefficient.  `mathlibOps_laws` proves every law the
generic theorems of `RatReconPolyFull.lean` assume, so those theorems hold for the loop of givpoly1ratrecon.inl
run on mathematical polynomials — and the law structures are inhabited.
-/
import GivaroModel.Lemmas.RatReconPolyFull
import Mathlib.Algebra.Polynomial.FieldDivision
import Mathlib.RingTheory.EuclideanDomain
namespace Givaro.Lemmas.RatRecon
open Givaro.Model.RatRecon Polynomial
open scoped Classical

noncomputable section

variable {F : Type} [Field F]

/-- Givaro's `Degree`: −1 for the zero polynomial -/
def pdeg (a : F[X]) : Int := if a = 0 then -1 else (a.natDegree : Int)

def mathlibOps (F : Type) [Field F] : PolyOps F[X] where
  zero := 0
  one := 1
  deg := pdeg
  divmod := fun a b => (a / b, a % b)
  maxpy := fun r a b => r - a * b
  gcdDeg := fun a b => pdeg (EuclideanDomain.gcd a b)
  lcIsOne := fun d => decide (d.leadingCoeff = 1)
  divLc := fun x d => C (d.leadingCoeff)⁻¹ * x

theorem pdeg_zero : pdeg (0 : F[X]) = -1 := by simp [pdeg]
theorem pdeg_of_ne {a : F[X]} (h : a ≠ 0) : pdeg a = (a.natDegree : Int) := by simp [pdeg, h]
theorem pdeg_ge (a : F[X]) : -1 ≤ pdeg a := by unfold pdeg; split <;> omega

theorem pdeg_eq_of_dvd_dvd (a b : F[X]) (h1 : a ∣ b) (h2 : b ∣ a) : pdeg a = pdeg b := by
  by_cases ha : a = 0
  · have hb : b = 0 := by rw [ha] at h1; exact zero_dvd_iff.mp h1
    rw [ha, hb]
  · have hb : b ≠ 0 := by intro hb; rw [hb] at h2; exact ha (zero_dvd_iff.mp h2)
    rw [pdeg_of_ne ha, pdeg_of_ne hb]
    have := natDegree_le_of_dvd h1 hb
    have := natDegree_le_of_dvd h2 ha
    omega

theorem mathlibOps_lawful (F : Type) [Field F] : LawfulOps (mathlibOps F) where
  zero_eq := rfl
  one_eq := rfl
  deg_one := by show pdeg (1 : F[X]) = 0; simp [pdeg]
  deg_neg_iff := by
    intro a; show pdeg a < 0 ↔ a = 0
    unfold pdeg; split
    · simp [*]
    · simp only [*, iff_false]; omega
  deg_mul := by
    intro a b ha hb
    show pdeg (a * b) = pdeg a + pdeg b
    rw [pdeg_of_ne ha, pdeg_of_ne hb, pdeg_of_ne (mul_ne_zero ha hb), natDegree_mul ha hb]; push_cast; ring
  divmod_eq := by
    intro a b _
    show a = a / b * b + a % b
    have := EuclideanDomain.div_add_mod a b
    rw [mul_comm] at this; exact this.symm
  maxpy_eq := fun _ _ _ => rfl
  divLc_eq := by
    intro d hd
    have hl : d.leadingCoeff ≠ 0 := leadingCoeff_ne_zero.mpr hd
    exact ⟨C d.leadingCoeff, C (d.leadingCoeff)⁻¹, by rw [← C_mul, mul_inv_cancel₀ hl, C_1], fun _ => rfl⟩
  gcdDeg_unit := by
    intro c ci x y hc
    show pdeg (EuclideanDomain.gcd (ci * x) (ci * y)) = pdeg (EuclideanDomain.gcd x y)
    have hx : ci * x ∣ x := ⟨c, by rw [mul_comm (ci * x) c, ← mul_assoc, hc, one_mul]⟩
    have hy : ci * y ∣ y := ⟨c, by rw [mul_comm (ci * y) c, ← mul_assoc, hc, one_mul]⟩
    apply pdeg_eq_of_dvd_dvd
    · exact EuclideanDomain.dvd_gcd ((EuclideanDomain.gcd_dvd_left _ _).trans hx)
        ((EuclideanDomain.gcd_dvd_right _ _).trans hy)
    · exact EuclideanDomain.dvd_gcd ((EuclideanDomain.gcd_dvd_left _ _).trans (Dvd.intro_left ci rfl))
        ((EuclideanDomain.gcd_dvd_right _ _).trans (Dvd.intro_left ci rfl))

theorem mathlibOps_laws (F : Type) [Field F] : EuclidLaws (mathlibOps F) where
  base := mathlibOps_lawful F
  deg_ge := pdeg_ge
  deg_add_le := by
    intro a b c ha hb
    show pdeg (a + b) ≤ c
    change pdeg a ≤ c at ha; change pdeg b ≤ c at hb
    by_cases hab : a + b = 0
    · rw [hab, pdeg_zero]; have := pdeg_ge a; omega
    by_cases ha0 : a = 0
    · rw [ha0, zero_add]; exact hb
    by_cases hb0 : b = 0
    · rw [hb0, add_zero]; exact ha
    rw [pdeg_of_ne hab]
    rw [pdeg_of_ne ha0] at ha; rw [pdeg_of_ne hb0] at hb
    have := natDegree_add_le a b
    omega
  deg_neg := by
    intro a; show pdeg (-a) = pdeg a
    unfold pdeg; simp [natDegree_neg]
  divmod_deg := by
    intro a b hb
    show pdeg (a % b) < pdeg b
    have h := degree_mod_lt a hb
    rw [pdeg_of_ne hb]
    by_cases h0 : a % b = 0
    · rw [h0, pdeg_zero]; omega
    · rw [pdeg_of_ne h0]
      have := natDegree_lt_natDegree h0 h
      omega
  gcdDeg_iff := by
    intro a b hb
    show pdeg (EuclideanDomain.gcd a b) ≤ 0 ↔ IsCoprime a b
    have hg : EuclideanDomain.gcd a b ≠ 0 := by
      intro h; exact hb (EuclideanDomain.gcd_eq_zero_iff.mp h).2
    rw [← EuclideanDomain.gcd_isUnit_iff, isUnit_iff_degree_eq_zero, pdeg_of_ne hg, degree_eq_natDegree hg]
    constructor
    · intro h; have : (EuclideanDomain.gcd a b).natDegree = 0 := by omega
      rw [this]; rfl
    · intro h
      have : (EuclideanDomain.gcd a b).natDegree = 0 := by exact_mod_cast h
      omega
  lcIsOne_divLc := by
    intro d hd
    have hl : d.leadingCoeff ≠ 0 := leadingCoeff_ne_zero.mpr hd
    show decide ((C (d.leadingCoeff)⁻¹ * d).leadingCoeff = 1) = true
    rw [leadingCoeff_mul, leadingCoeff_C, inv_mul_cancel₀ hl]; simp

end

end Givaro.Lemmas.RatRecon
