/- C06 helper lemmas: rint mod_n and inv_mod. -/
import GivaroModel.Lemmas.RecIntSignedLemmas
import Mathlib.Data.Int.ModEq
import Mathlib.Tactic.LinearCombination
namespace Givaro.Model.RecInt

theorem pos_image {n : Nat} (c : RU n) (hc : WF c) (hpos : 0 < sval c) : isNegative c = false ∧ (val c : Int) = sval c ∧ val c ≠ 0 := by
  obtain ⟨c1, -, c3⟩ := isNegative_iff c hc
  have hn : isNegative c = false := by
    cases h : isNegative c
    · rfl
    · have := c1.mp h; omega
  have hv := c3 hn
  refine ⟨hn, hv, fun h => ?_⟩
  rw [h] at hv
  have : sval c = 0 := by rw [← hv]; rfl
  omega

/-- `mod_n(rint& a, n)` for a positive modulus: the non-negative residue (floor convention, `mpz_mod`) -/
theorem s_modn_ok (t : Nat) {n : Nat} (a m : RU n) (ha : WF a) (hm : WF m) (hpos : 0 < sval m) :
    WF (s_modn t a m) ∧ sval (s_modn t a m) = sval a % sval m := by
  obtain ⟨a1, a2, a3⟩ := isNegative_iff a ha
  obtain ⟨hnm, hvm, hne⟩ := pos_image m hm hpos
  have rm := sval_range m hm
  have hz := val_zero n
  unfold s_modn
  cases hna : isNegative a <;> simp only [Bool.not_true, Bool.not_false, Bool.false_eq_true, ↓reduceIte]
  · obtain ⟨-, hr, -, hre⟩ := div_int t a m ha hm hne
    have m0 := Int.emod_nonneg (val a : Int) (show (val m : Int) ≠ 0 by omega)
    have m1 := Int.emod_lt_of_pos (val a : Int) (show (0 : Int) < val m by omega)
    rw [← a3 hna, ← hvm, ← swrap_id n ((val a : Int) % val m) (by omega) (by omega)]
    exact ⟨hr, sval_eq_swrap _ _ (val_eq_emod _ hr _ hre)⟩
  · obtain ⟨haw, hae⟩ := neg_mag a ha hna
    obtain ⟨-, hr, -, hre⟩ := div_int t (neg a) m haw hm hne
    have hp : (0 : Int) < val m := by omega
    have m0 := Int.emod_nonneg (val (neg a) : Int) (ne_of_gt hp)
    have m1 := Int.emod_lt_of_pos (val (neg a) : Int) hp
    have hdm := Int.emod_add_mul_ediv (val (neg a) : Int) (val m)
    rw [show sval a = -(val (neg a) : Int) by omega, ← hvm]
    by_cases hzr : isZero (div t (neg a) m).2 = true
    · simp only [hzr, Bool.not_true, Bool.false_eq_true, ↓reduceIte]
      have h0 : val (div t (neg a) m).2 = 0 := (isZero_iff _).mp hzr
      have hr0 : (val (neg a) : Int) % val m = 0 := by rw [← hre, h0]; rfl
      have key := (Int.ediv_emod_unique hp (a := -(val (neg a) : Int)) (q := -((val (neg a) : Int) / val m)) (r := 0)).mpr
        ⟨by linear_combination (-1 : Int) * hdm + hr0, by omega, by omega⟩
      refine ⟨hz.1, ?_⟩
      rw [key.2]; unfold sval; rw [hz.2]; have := Bn_pos n; simp
    · have hzr' : isZero (div t (neg a) m).2 = false := by cases h : isZero (div t (neg a) m).2 <;> simp_all
      simp only [hzr', Bool.not_false, ↓reduceIte]
      have hrne : val (div t (neg a) m).2 ≠ 0 := fun h => hzr ((isZero_iff _).mpr h)
      have hrlt : val (div t (neg a) m).2 < val m := by
        have h' : (val (div t (neg a) m).2 : Int) < val m := by rw [hre]; exact m1
        exact_mod_cast h'
      obtain ⟨hsw, hse⟩ := sub_small m _ hm hr (Nat.le_of_lt hrlt)
      have hsv : (val (subNC m (div t (neg a) m).2) : Int) = (val m : Int) - (val (neg a) : Int) % val m := by
        rw [hse, Nat.cast_sub (Nat.le_of_lt hrlt), hre]
      have hrpos : 0 < (val (neg a) : Int) % val m := by rw [← hre]; exact_mod_cast Nat.pos_of_ne_zero hrne
      have key := (Int.ediv_emod_unique hp (a := -(val (neg a) : Int)) (q := -((val (neg a) : Int) / val m) - 1)
        (r := (val m : Int) - (val (neg a) : Int) % val m)).mpr ⟨by linear_combination (-1 : Int) * hdm, by omega, by omega⟩
      rw [key.2, ← swrap_id n ((val m : Int) - (val (neg a) : Int) % val m) (by omega) (by omega)]
      exact ⟨hsw, sval_eq_swrap _ _ (val_eq_emod _ hsw _ hsv)⟩

/-- `inv_mod(rint& a, b, c)` for a positive modulus `c` and `b` (of either sign) coprime to it: `0 ≤ a < c` and `a·b ≡ 1 (mod c)` -/
theorem s_invmod_ok (t : Nat) {n : Nat} (b c : RU n) (hb : WF b) (hc : WF c) (hpos : 0 < sval c)
    (hcop : Nat.gcd (sval b).natAbs (sval c).natAbs = 1) :
    WF (s_invmod t b c) ∧ 0 ≤ sval (s_invmod t b c) ∧ sval (s_invmod t b c) < sval c ∧
    (sval c : Int) ∣ sval (s_invmod t b c) * sval b - 1 := by
  obtain ⟨b1, b2, b3⟩ := isNegative_iff b hb
  obtain ⟨hnc, hvc, hne⟩ := pos_image c hc hpos
  have rc := sval_range c hc
  have hcn : (sval c).natAbs = val c := by omega
  -- from the unsigned result to the signed statement
  have fin : ∀ (x : RU n), WF x → Nat.gcd (val x) (val c) = 1 → (sval c : Int) ∣ (val x : Int) - sval b →
      WF (inv_mod t x c) ∧ 0 ≤ sval (inv_mod t x c) ∧ sval (inv_mod t x c) < sval c ∧ (sval c : Int) ∣ sval (inv_mod t x c) * sval b - 1 := by
    intro x hx hg hdx
    obtain ⟨hw, hlt, he⟩ := inv_mod_ok t x c hx hc hne hg
    have hsv : sval (inv_mod t x c) = val (inv_mod t x c) := by unfold sval; rw [if_pos (by omega)]
    have he' : ((val (inv_mod t x c) : Int) * val x) % val c = 1 % val c := by exact_mod_cast congrArg (Nat.cast : Nat → Int) he
    have hd1 : (val c : Int) ∣ 1 - (val (inv_mod t x c) : Int) * val x := Int.ModEq.dvd he'
    rw [hsv, ← hvc]
    refine ⟨hw, by omega, by omega, ?_⟩
    rw [← hvc] at hdx
    obtain ⟨k1, h1⟩ := hd1
    obtain ⟨k2, h2⟩ := hdx
    exact ⟨-k1 - (val (inv_mod t x c) : Int) * k2, by linear_combination (-1 : Int) * h1 - (val (inv_mod t x c) : Int) * h2⟩
  unfold s_invmod
  cases hnb : isNegative b <;> simp only [Bool.not_true, Bool.not_false, Bool.false_eq_true, ↓reduceIte]
  · have hvb := b3 hnb
    have hbn : (sval b).natAbs = val b := by omega
    exact fin b hb (by rw [← hbn, ← hcn]; exact hcop) (by rw [hvb]; simp)
  · obtain ⟨hbw, hbe⟩ := neg_mag b hb hnb
    have hbn : (sval b).natAbs = val (neg b) := by omega
    obtain ⟨-, hr, -, hre⟩ := div_vals t (neg b) c hbw hc hne
    have hrlt : val (div t (neg b) c).2 < val c := by rw [hre]; exact Nat.mod_lt _ (Nat.pos_of_ne_zero hne)
    obtain ⟨how, holt, hoe⟩ := negModC_ok c _ hc hr hrlt
    unfold negModC at how holt hoe
    -- gcd
    have hg0 : Nat.gcd (val (div t (neg b) c).2) (val c) = 1 := by
      rw [hre, ← Nat.gcd_rec, Nat.gcd_comm, ← hbn, ← hcn]; exact hcop
    have hdvd : val c ∣ val (if (!isZero (div t (neg b) c).2) = true then subNC c (div t (neg b) c).2 else (div t (neg b) c).2) + val (div t (neg b) c).2 :=
      Nat.dvd_of_mod_eq_zero hoe
    have hg : Nat.gcd (val (if (!isZero (div t (neg b) c).2) = true then subNC c (div t (neg b) c).2 else (div t (neg b) c).2)) (val c) = 1 := by
      apply Nat.dvd_one.mp
      rw [← hg0]
      apply Nat.dvd_gcd
      · exact (Nat.dvd_add_right (Nat.gcd_dvd_left _ _)).mp (Nat.dvd_trans (Nat.gcd_dvd_right _ _) hdvd)
      · exact Nat.gcd_dvd_right _ _
    refine fin _ how hg ?_
    obtain ⟨k, hk⟩ := hdvd
    have hk' := congrArg (Nat.cast : Nat → Int) hk
    push_cast at hk'
    have hdm := Nat.mod_add_div (val (neg b)) (val c)
    rw [← hre] at hdm
    have hdm' := congrArg (Nat.cast : Nat → Int) hdm
    push_cast at hdm'
    rw [← hvc]
    exact ⟨k + (val (neg b) / val c : Nat), by push_cast; linear_combination hk' - hdm' - hbe⟩

/-- the negative branch shared by the `mod_n` overloads: from `rr = X mod m` to `(-X) mod m` -/
theorem neg_residue {n : Nat} (m rr Z : RU n) (X : Int) (hm : WF m) (hr : WF rr) (hre : (val rr : Int) = X % val m)
    (hp : (0 : Int) < val m) (rm : 2 * (val m : Int) < Bn n) (hZ : isZero rr = true → WF Z ∧ val Z = 0) :
    WF (if (!isZero rr) = true then subNC m rr else Z) ∧ sval (if (!isZero rr) = true then subNC m rr else Z) = (-X) % val m := by
  have m0 := Int.emod_nonneg X (ne_of_gt hp)
  have m1 := Int.emod_lt_of_pos X hp
  have hdm := Int.emod_add_mul_ediv X (val m)
  by_cases hzr : isZero rr = true
  · simp only [hzr, Bool.not_true, Bool.false_eq_true, ↓reduceIte]
    have h0 : val rr = 0 := (isZero_iff _).mp hzr
    have hr0 : X % val m = 0 := by rw [← hre, h0]; rfl
    have key := (Int.ediv_emod_unique hp (a := -X) (q := -(X / val m)) (r := 0)).mpr
      ⟨by linear_combination (-1 : Int) * hdm + hr0, by omega, by omega⟩
    refine ⟨(hZ hzr).1, ?_⟩
    rw [key.2]; unfold sval; rw [(hZ hzr).2]; have := Bn_pos n; simp
  · have hzr' : isZero rr = false := by cases h : isZero rr <;> simp_all
    simp only [hzr', Bool.not_false, ↓reduceIte]
    have hrne : val rr ≠ 0 := fun h => hzr ((isZero_iff _).mpr h)
    have hrlt : val rr < val m := by
      have h' : (val rr : Int) < val m := by rw [hre]; exact m1
      exact_mod_cast h'
    obtain ⟨hsw, hse⟩ := sub_small m _ hm hr (Nat.le_of_lt hrlt)
    have hsv : (val (subNC m rr) : Int) = (val m : Int) - X % val m := by
      rw [hse, Nat.cast_sub (Nat.le_of_lt hrlt), hre]
    have hrpos : 0 < X % val m := by rw [← hre]; exact_mod_cast Nat.pos_of_ne_zero hrne
    have key := (Int.ediv_emod_unique hp (a := -X) (q := -(X / val m) - 1) (r := (val m : Int) - X % val m)).mpr
      ⟨by linear_combination (-1 : Int) * hdm, by omega, by omega⟩
    rw [key.2, ← swrap_id n ((val m : Int) - X % val m) (by omega) (by omega)]
    exact ⟨hsw, sval_eq_swrap _ _ (val_eq_emod _ hsw _ hsv)⟩

/-- `mod_n(rint<K>& a, const rint<K+1>& b, const rint<K>& c)` for a positive modulus: `b mod c`, the non-negative residue -/
theorem s_modn2_ok (t : Nat) {n : Nat} (b : RU (n+1)) (c : RU n) (hb : WF b) (hc : WF c) (hpos : 0 < sval c) :
    WF (s_modn2 t b c) ∧ sval (s_modn2 t b c) = sval b % sval c := by
  obtain ⟨b1, b2, b3⟩ := isNegative_iff b hb
  obtain ⟨hnc, hvc, hne⟩ := pos_image c hc hpos
  have rc := sval_range c hc
  have hp : (0 : Int) < val c := by omega
  unfold s_modn2
  cases hnb : isNegative b <;> simp only [Bool.not_true, Bool.not_false, Bool.false_eq_true, ↓reduceIte]
  · obtain ⟨hw, he⟩ := mod_n2_ok t b c hb hc hne
    have he' : (val (mod_n2 t b c) : Int) = (val b : Int) % val c := by rw [he, Int.natCast_mod]
    have m0 := Int.emod_nonneg (val b : Int) (ne_of_gt hp)
    have m1 := Int.emod_lt_of_pos (val b : Int) hp
    rw [← b3 hnb, ← hvc, ← swrap_id n ((val b : Int) % val c) (by omega) (by omega)]
    exact ⟨hw, sval_eq_swrap _ _ (val_eq_emod _ hw _ he')⟩
  · obtain ⟨hbw, hbe⟩ := neg_mag b hb hnb
    obtain ⟨hw, he⟩ := mod_n2_ok t (neg b) c hbw hc hne
    have he' : (val (mod_n2 t (neg b) c) : Int) = (val (neg b) : Int) % val c := by rw [he, Int.natCast_mod]
    have h := neg_residue c (mod_n2 t (neg b) c) (mod_n2 t (neg b) c) (val (neg b) : Int) hc hw he' hp (by omega)
      (fun hz => ⟨hw, (isZero_iff _).mp hz⟩)
    rw [show sval b = -(val (neg b) : Int) by omega, ← hvc]
    exact h

end Givaro.Model.RecInt
