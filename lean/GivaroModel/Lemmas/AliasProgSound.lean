import GivaroModel.Model.AliasProg
namespace Givaro.Model.AliasProg

/-! # Soundness of the read-after-write discipline of `GivaroModel.Model.AliasProg` -/

/-! ## bit sets -/

theorem testBit_bit (l k : Nat) : (bit l).testBit k = decide (l = k) := by
  unfold bit
  rw [Nat.one_shiftLeft, Nat.testBit_two_pow]

theorem testBit_clr (D m k : Nat) : (clr D m).testBit k = (D.testBit k && !m.testBit k) := by
  unfold clr
  rw [Nat.testBit_xor, Nat.testBit_and]
  cases D.testBit k <;> cases m.testBit k <;> rfl

theorem testBit_mask (s len k : Nat) : (mask s len).testBit k = decide (s ≤ k ∧ k < s + len) := by
  unfold mask
  rw [Nat.testBit_shiftLeft, Nat.one_shiftLeft, Nat.testBit_two_pow_sub_one]
  by_cases h1 : s ≤ k
  · by_cases h2 : k < s + len
    · have h3 : k - s < len := by omega
      simp [h1, h2, h3]
    · have h3 : ¬ k - s < len := by omega
      simp [h2, h3]
  · simp [h1]

theorem testBit_masks (E : Env) (rs : List Ref) (k : Nat) :
    (masks E rs).testBit k = true ↔ k ∈ locsOf E rs := by
  induction rs with
  | nil => simp [masks, locsOf]
  | cons r rs ih =>
    simp only [masks, locsOf, Nat.testBit_or, Bool.or_eq_true, List.mem_append, ih]
    apply or_congr_left
    unfold Ref.mask Ref.locs
    rw [testBit_mask, List.mem_range'_1]
    simp

theorem testBit_of_and_eq_zero {D M : Nat} (h : D &&& M = 0) {k : Nat} (hk : M.testBit k = true) :
    D.testBit k = false := by
  have h1 : (D &&& M).testBit k = false := by rw [h]; exact Nat.zero_testBit k
  rw [Nat.testBit_and, hk, Bool.and_true] at h1
  exact h1

theorem testBit_of_or_eq {A B : Nat} (h : A ||| B = B) {k : Nat} (hk : A.testBit k = true) :
    B.testBit k = true := by
  rw [← h, Nat.testBit_or, hk, Bool.true_or]

/-! ## the relation between the two runs -/

/-- stores agree (modulo the renaming) on every location that is not dirty -/
def Agree {V : Type} (φ : Nat → Nat) (D : Nat) (σ1 σ2 : Store V) : Prop :=
  ∀ l, D.testBit l = false → σ1 l = σ2 (φ l)

/-- `conf l` contains every other location that the renaming identifies with `l` -/
def ConfSound (φ : Nat → Nat) (conf : Nat → Nat) : Prop :=
  ∀ l l', l ≠ l' → φ l = φ l' → (conf l).testBit l' = true

/-- an address test answers "same object" only for locations the renaming identifies -/
def AlSound (φ : Nat → Nat) (al : Nat → Nat → Bool) : Prop :=
  ∀ l l', al l l' = true → φ l = φ l'

def ExitAgree {V : Type} (φ : Nat → Nat) (x : Exits) (r1 r2 : Store V × Status) : Prop :=
  r1.2 = r2.2 ∧
  match r1.2 with
  | .norm => x.nr = true ∧ Agree φ x.n r1.1 r2.1
  | .brk => Agree φ x.b r1.1 r2.1
  | .ret => Agree φ x.r r1.1 r2.1
  | .oom => True

theorem Agree.mono {V : Type} {φ : Nat → Nat} {D D' : Nat} {σ1 σ2 : Store V}
    (h : Agree φ D σ1 σ2) (hsub : ∀ k, D.testBit k = true → D'.testBit k = true) : Agree φ D' σ1 σ2 := by
  intro l hl
  apply h
  cases hD : D.testBit l with
  | false => rfl
  | true => rw [hsub l hD] at hl; exact absurd hl (by decide)

theorem Agree.mono_or_left {V : Type} {φ : Nat → Nat} {D D' : Nat} {σ1 σ2 : Store V}
    (h : Agree φ D σ1 σ2) : Agree φ (D ||| D') σ1 σ2 :=
  h.mono (fun k hk => by rw [Nat.testBit_or, hk, Bool.true_or])

theorem Agree.mono_or_right {V : Type} {φ : Nat → Nat} {D D' : Nat} {σ1 σ2 : Store V}
    (h : Agree φ D σ1 σ2) : Agree φ (D' ||| D) σ1 σ2 :=
  h.mono (fun k hk => by rw [Nat.testBit_or, hk, Bool.or_true])

/-! ## leaf steps -/

theorem Store.set_same {V : Type} (σ : Store V) (l : Nat) (v : V) : σ.set l v l = v := by
  simp [Store.set]

theorem Store.set_other {V : Type} (σ : Store V) {l k : Nat} (v : V) (h : k ≠ l) : σ.set l v k = σ k := by
  simp [Store.set, h]

theorem Store.set_self {V : Type} (σ : Store V) (l : Nat) : σ.set l (σ l) = σ := by
  funext k
  by_cases h : k = l
  · subst h; exact Store.set_same σ k _
  · exact Store.set_other σ _ h

theorem testBit_wr (conf : Nat → Nat) (D w k : Nat) :
    (wr conf D w).testBit k = ((D.testBit k || (conf w).testBit k) && !decide (w = k)) := by
  unfold wr
  rw [Nat.testBit_or, testBit_clr, testBit_clr, testBit_bit]
  cases D.testBit k <;> cases (conf w).testBit k <;> cases decide (w = k) <;> rfl

theorem Agree.wr {V : Type} {φ : Nat → Nat} {conf : Nat → Nat} (hc : ConfSound φ conf) {D : Nat} {σ1 σ2 : Store V}
    (h : Agree φ D σ1 σ2) (w : Nat) (v : V) : Agree φ (wr conf D w) (σ1.set w v) (σ2.set (φ w) v) := by
  intro l hl
  rw [testBit_wr] at hl
  by_cases hw : l = w
  · subst hw
    rw [Store.set_same, Store.set_same]
  · have hw' : ¬ w = l := fun e => hw e.symm
    simp only [hw', decide_false, Bool.not_false, Bool.and_true, Bool.or_eq_false_iff] at hl
    have hφ : φ l ≠ φ w := by
      intro e
      have := hc w l hw' e.symm
      rw [hl.2] at this
      exact absurd this (by decide)
    rw [Store.set_other _ _ hw, Store.set_other _ _ hφ]
    exact h l hl.1

theorem Agree.readL {V : Type} {φ : Nat → Nat} {D : Nat} {σ1 σ2 : Store V} (h : Agree φ D σ1 σ2)
    (ls : List Nat) (hls : ∀ l, l ∈ ls → D.testBit l = false) : readL id σ1 ls = readL φ σ2 ls := by
  unfold Givaro.Model.AliasProg.readL
  apply List.map_congr_left
  intro l hl
  exact h l (hls l hl)

theorem Agree.readRefs {V : Type} {φ : Nat → Nat} {D : Nat} {σ1 σ2 : Store V} (h : Agree φ D σ1 σ2)
    (E : Env) (ins : List Ref) (hD : D &&& masks E ins = 0) :
    Givaro.Model.AliasProg.readL id σ1 (locsOf E ins) = Givaro.Model.AliasProg.readL φ σ2 (locsOf E ins) :=
  h.readL _ (fun _ hl => testBit_of_and_eq_zero hD ((testBit_masks E ins _).2 hl))

theorem Agree.writeL {V : Type} {φ : Nat → Nat} {conf : Nat → Nat} (hc : ConfSound φ conf) (g : Nat → V) :
    ∀ (ls : List Nat) (D : Nat) (σ1 σ2 : Store V) (k : Nat), Agree φ D σ1 σ2 →
      Agree φ (wrL conf D ls) (writeL id g σ1 ls k) (writeL φ g σ2 ls k) := by
  intro ls
  induction ls with
  | nil => intro D σ1 σ2 k h; exact h
  | cons l ls ih =>
    intro D σ1 σ2 k h
    exact ih _ _ _ _ (h.wr hc l (g k))

theorem Agree.copyL {V : Type} {φ : Nat → Nat} {conf : Nat → Nat} {al : Nat → Nat → Bool}
    (hc : ConfSound φ conf) (ha : AlSound φ al) :
    ∀ (ps : List (Nat × Nat)) (D D' : Nat) (σ1 σ2 : Store V), cpL conf al D ps = some D' → Agree φ D σ1 σ2 →
      Agree φ D' (copyL id σ1 ps) (copyL φ σ2 ps) := by
  intro ps
  induction ps with
  | nil =>
    intro D D' σ1 σ2 hcp h
    simp only [cpL, Option.some.injEq] at hcp
    subst hcp
    exact h
  | cons p ps ih =>
    obtain ⟨d, s⟩ := p
    intro D D' σ1 σ2 hcp h
    simp only [cpL] at hcp
    cases hs : D.testBit s with
    | true => simp [hs] at hcp
    | false =>
      simp only [hs, Bool.false_eq_true, if_false] at hcp
      have hval : σ1 s = σ2 (φ s) := h s hs
      simp only [Givaro.Model.AliasProg.copyL, id]
      refine ih _ _ _ _ hcp ?_
      cases hal : al d s with
      | true =>
        have hφ : φ d = φ s := ha d s hal
        simp only [if_true]
        rw [hφ, Store.set_self]
        intro l hl
        rw [testBit_clr, testBit_bit] at hl
        by_cases hd : l = d
        · subst hd
          rw [Store.set_same, hval, hφ]
        · have hd' : ¬ d = l := fun e => hd e.symm
          simp only [hd', decide_false, Bool.not_false, Bool.and_true] at hl
          rw [Store.set_other _ _ hd]
          exact h l hl
      | false =>
        simp only [Bool.false_eq_true, if_false]
        rw [hval]
        exact h.wr hc d _

/-! ## `run` and `safe`, one constructor at a time -/

theorem run_seq {V : Type} (S : Sem V) (φ : Nat → Nat) (fuel : Nat) (p q : Prog) (E : Env) (σ : Store V) :
    run S φ fuel (.seq p q) E σ =
      if (run S φ fuel p E σ).2 = .norm then run S φ fuel q E (run S φ fuel p E σ).1 else run S φ fuel p E σ := by
  rw [run]
  rcases h : run S φ fuel p E σ with ⟨σ', st⟩
  cases st <;> simp

theorem run_call {V : Type} (S : Sem V) (φ : Nat → Nat) (fuel : Nat) (q : Prog) (args : List Ref) (frame : Nat) (E : Env)
    (σ : Store V) :
    run S φ fuel (.call q args frame) E σ =
      ((run S φ fuel q (E.callee args frame) σ).1,
        if (run S φ fuel q (E.callee args frame) σ).2 = .oom then .oom else .norm) := by
  rw [run]
  rcases h : run S φ fuel q (E.callee args frame) σ with ⟨σ', st⟩
  cases st <;> simp

theorem iter_sound {V : Type} (φ : Nat → Nat) (I : Nat) (y : Exits) (test1 test2 : Store V → Bool)
    (body1 body2 : Store V → Store V × Status)
    (htest : ∀ σ1 σ2, Agree φ I σ1 σ2 → test1 σ1 = test2 σ2)
    (hbody : ∀ σ1 σ2, Agree φ I σ1 σ2 → ExitAgree φ y (body1 σ1) (body2 σ2))
    (hyn : ∀ k, y.n.testBit k = true → I.testBit k = true) :
    ∀ (n : Nat) (σ1 σ2 : Store V), Agree φ I σ1 σ2 →
      ExitAgree φ ⟨true, I ||| y.b, 0, y.r⟩ (iter test1 body1 n σ1) (iter test2 body2 n σ2) := by
  intro n
  induction n with
  | zero =>
    intro σ1 σ2 h
    simp only [iter, ← htest σ1 σ2 h]
    cases test1 σ1 with
    | true => exact ⟨rfl, trivial⟩
    | false => exact ⟨rfl, rfl, h.mono_or_left⟩
  | succ n ih =>
    intro σ1 σ2 h
    simp only [iter, ← htest σ1 σ2 h]
    cases test1 σ1 with
    | false => exact ⟨rfl, rfl, h.mono_or_left⟩
    | true =>
      simp only [if_true]
      have hb := hbody σ1 σ2 h
      rcases h1 : body1 σ1 with ⟨τ1, st1⟩
      rcases h2 : body2 σ2 with ⟨τ2, st2⟩
      rw [h1, h2] at hb
      obtain ⟨hst, hag⟩ := hb
      simp only at hst hag
      subst hst
      cases st1 with
      | norm => exact ih τ1 τ2 (Agree.mono hag.2 hyn)
      | brk => exact ⟨rfl, rfl, Agree.mono_or_right hag⟩
      | ret => exact ⟨rfl, hag⟩
      | oom => exact ⟨rfl, trivial⟩

/-- SOUNDNESS of the discipline: every program, every environment, every interpretation of the primitives and conditions, every value
    type, every pair of stores, every fuel -/
theorem safe_sound {V : Type} (S : Sem V) (φ : Nat → Nat) (conf : Nat → Nat) (hc : ConfSound φ conf) (ha : AlSound φ S.al) (fuel : Nat) :
    ∀ (p : Prog) (E : Env) (D : Nat) (x : Exits) (σ1 σ2 : Store V),
      safe conf S.al p E D = some x → Agree φ D σ1 σ2 →
      ExitAgree φ x (run S id fuel p E σ1) (run S φ fuel p E σ2) := by
  intro p
  induction p with
  | skip =>
    intro E D x σ1 σ2 hs h
    simp only [safe, Option.some.injEq] at hs
    subst hs
    exact ⟨rfl, rfl, h⟩
  | prim f outs ins =>
    intro E D x σ1 σ2 hs h
    simp only [safe] at hs
    split at hs
    · rename_i hD
      simp only [Option.some.injEq] at hs
      subst hs
      simp only [run]
      rw [h.readRefs E ins hD]
      exact ⟨rfl, rfl, Agree.writeL hc _ _ _ _ _ _ h⟩
    · exact absurd hs (by simp)
  | copy d s =>
    intro E D x σ1 σ2 hs h
    simp only [safe] at hs
    split at hs
    · rename_i D' hcp
      simp only [Option.some.injEq] at hs
      subst hs
      simp only [run]
      exact ⟨rfl, rfl, Agree.copyL hc ha _ _ _ _ _ hcp h⟩
    · exact absurd hs (by simp)
  | seq p q ihp ihq =>
    intro E D x σ1 σ2 hs h
    simp only [safe] at hs
    split at hs
    · exact absurd hs (by simp)
    · rename_i xp hp
      have h1 := ihp E D xp σ1 σ2 hp h
      rw [run_seq, run_seq]
      rcases e1 : run S id fuel p E σ1 with ⟨τ1, st1⟩
      rcases e2 : run S φ fuel p E σ2 with ⟨τ2, st2⟩
      rw [e1, e2] at h1
      obtain ⟨hst, hag⟩ := h1
      simp only at hst hag
      subst hst
      split at hs
      · rename_i hnr
        split at hs
        · exact absurd hs (by simp)
        · rename_i xq hq
          simp only [Option.some.injEq] at hs
          subst hs
          cases st1 with
          | norm =>
            simp only [if_true]
            have h2 := ihq E xp.n xq τ1 τ2 hq hag.2
            obtain ⟨hst2, hag2⟩ := h2
            refine ⟨hst2, ?_⟩
            cases hq1 : (run S id fuel q E τ1).2 with
            | norm => rw [hq1] at hag2; exact hag2
            | brk => rw [hq1] at hag2; exact Agree.mono_or_right hag2
            | ret => rw [hq1] at hag2; exact Agree.mono_or_right hag2
            | oom => trivial
          | brk => exact ⟨rfl, Agree.mono_or_left hag⟩
          | ret => exact ⟨rfl, Agree.mono_or_left hag⟩
          | oom => exact ⟨rfl, trivial⟩
      · rename_i hnr
        simp only [Option.some.injEq] at hs
        subst hs
        cases st1 with
        | norm => exact absurd hag.1 hnr
        | brk => exact ⟨rfl, hag⟩
        | ret => exact ⟨rfl, hag⟩
        | oom => exact ⟨rfl, trivial⟩
  | ite c ins t e iht ihe =>
    intro E D x σ1 σ2 hs h
    simp only [safe] at hs
    split at hs
    · rename_i hD
      split at hs
      · rename_i xt xe ht he
        simp only [Option.some.injEq] at hs
        subst hs
        simp only [run]
        rw [h.readRefs E ins hD]
        cases S.cond c (readL φ σ2 (locsOf E ins)) with
        | true =>
          simp only [if_true]
          obtain ⟨hst, hag⟩ := iht E D xt σ1 σ2 ht h
          refine ⟨hst, ?_⟩
          cases hq1 : (run S id fuel t E σ1).2 with
          | norm => rw [hq1] at hag; exact ⟨by simp [hag.1], Agree.mono_or_left hag.2⟩
          | brk => rw [hq1] at hag; exact Agree.mono_or_left hag
          | ret => rw [hq1] at hag; exact Agree.mono_or_left hag
          | oom => trivial
        | false =>
          simp only [Bool.false_eq_true, if_false]
          obtain ⟨hst, hag⟩ := ihe E D xe σ1 σ2 he h
          refine ⟨hst, ?_⟩
          cases hq1 : (run S id fuel e E σ1).2 with
          | norm => rw [hq1] at hag; exact ⟨by simp [hag.1], Agree.mono_or_right hag.2⟩
          | brk => rw [hq1] at hag; exact Agree.mono_or_right hag
          | ret => rw [hq1] at hag; exact Agree.mono_or_right hag
          | oom => trivial
      · exact absurd hs (by simp)
    · exact absurd hs (by simp)
  | ifAlias a b t e iht ihe =>
    intro E D x σ1 σ2 hs h
    simp only [safe] at hs
    simp only [run]
    cases hal : S.al (a.start E) (b.start E) with
    | true =>
      simp only [hal, if_true] at hs ⊢
      exact iht E D x σ1 σ2 hs h
    | false =>
      simp only [hal, Bool.false_eq_true, if_false] at hs ⊢
      exact ihe E D x σ1 σ2 hs h
  | loop c ins body ih =>
    intro E D x σ1 σ2 hs h
    simp only [safe] at hs
    split at hs
    · exact absurd hs (by simp)
    · rename_i x0 h0
      split at hs
      · exact absurd hs (by simp)
      · rename_i y hy
        split at hs
        · rename_i hcond
          simp only [Option.some.injEq] at hs
          subst hs
          simp only [run]
          exact iter_sound φ (D ||| x0.n) y _ _ _ _
            (fun τ1 τ2 hτ => by rw [hτ.readRefs E ins hcond.2])
            (fun τ1 τ2 hτ => ih E _ y τ1 τ2 hy hτ)
            (fun k hk => testBit_of_or_eq hcond.1 hk)
            fuel σ1 σ2 (Agree.mono_or_left h)
        · exact absurd hs (by simp)
  | brk =>
    intro E D x σ1 σ2 hs h
    simp only [safe, Option.some.injEq] at hs
    subst hs
    exact ⟨rfl, h⟩
  | ret =>
    intro E D x σ1 σ2 hs h
    simp only [safe, Option.some.injEq] at hs
    subst hs
    exact ⟨rfl, h⟩
  | call q args frame ih =>
    intro E D x σ1 σ2 hs h
    simp only [safe] at hs
    split at hs
    · exact absurd hs (by simp)
    · rename_i xq hq
      simp only [Option.some.injEq] at hs
      subst hs
      have h1 := ih (E.callee args frame) D xq σ1 σ2 hq h
      rw [run_call, run_call]
      rcases e1 : run S id fuel q (E.callee args frame) σ1 with ⟨τ1, st1⟩
      rcases e2 : run S φ fuel q (E.callee args frame) σ2 with ⟨τ2, st2⟩
      rw [e1, e2] at h1
      obtain ⟨hst, hag⟩ := h1
      simp only at hst hag
      subst hst
      cases st1 with
      | norm => exact ⟨rfl, rfl, Agree.mono_or_left (Agree.mono_or_left hag.2)⟩
      | brk => exact ⟨rfl, rfl, Agree.mono_or_left (Agree.mono_or_right hag)⟩
      | ret => exact ⟨rfl, rfl, Agree.mono_or_right hag⟩
      | oom => exact ⟨rfl, trivial⟩

/-! ## alias patterns -/

theorem eq_of_nodup_map {α β : Type} (f : α → β) :
    ∀ (l : List α), (l.map f).Nodup → ∀ a b, a ∈ l → b ∈ l → f a = f b → a = b := by
  intro l
  induction l with
  | nil => intro _ a b ha; cases ha
  | cons c l ih =>
    intro hnd a b ha hb hab
    rw [List.map_cons, List.nodup_cons] at hnd
    rcases List.mem_cons.1 ha with rfl | ha'
    · rcases List.mem_cons.1 hb with rfl | hb'
      · rfl
      · exact absurd (hab ▸ List.mem_map_of_mem (f := f) hb') hnd.1
    · rcases List.mem_cons.1 hb with rfl | hb'
      · exact absurd (hab ▸ List.mem_map_of_mem (f := f) ha') hnd.1
      · exact ih hnd.2 a b ha' hb' hab

theorem confOf_sound (cls : Classes) (h : clsOK cls = true) : ConfSound (phiOf cls) (confOf cls) := by
  unfold clsOK at h
  rw [Bool.and_eq_true, List.all_eq_true, decide_eq_true_eq] at h
  obtain ⟨hrep, hnd⟩ := h
  intro l l' hne hφ
  unfold phiOf at hφ
  unfold confOf
  unfold findClass at hφ ⊢
  cases hl : cls.find? (fun c => c.2.testBit l) with
  | none =>
    cases hl' : cls.find? (fun c => c.2.testBit l') with
    | none =>
      rw [hl, hl'] at hφ
      exact absurd hφ hne
    | some c' =>
      rw [hl, hl'] at hφ
      simp only at hφ
      have hc' : c' ∈ cls := List.mem_of_find?_eq_some hl'
      have := List.find?_eq_none.1 hl c' hc'
      rw [hφ] at this
      exact absurd (hrep c' hc') this
  | some c =>
    have hc : c ∈ cls := List.mem_of_find?_eq_some hl
    cases hl' : cls.find? (fun c => c.2.testBit l') with
    | none =>
      rw [hl, hl'] at hφ
      simp only at hφ
      have := List.find?_eq_none.1 hl' c hc
      rw [← hφ] at this
      exact absurd (hrep c hc) this
    | some c' =>
      rw [hl, hl'] at hφ
      simp only at hφ
      have hc' : c' ∈ cls := List.mem_of_find?_eq_some hl'
      have hcc : c = c' := eq_of_nodup_map (·.1) cls hnd c c' hc hc' hφ
      have := List.find?_some hl'
      simp only
      rw [hcc]
      exact this

theorem alOf_sound (cls : Classes) : AlSound (phiOf cls) (alOf cls) := by
  intro l l' h
  unfold alOf at h
  exact eq_of_beq h

/-! ## table entries -/

/-- what a table entry that passes `safeEntry` means -/
theorem entry_sound {V : Type} (e : Entry) (h : safeEntry e = true)
    (interp : Nat → List V → Nat → V) (cond : Nat → List V → Bool) (fuel : Nat) (σ1 σ2 : Store V)
    (hinit : ∀ l, e.d0.testBit l = false → σ1 l = σ2 (phiOf e.cls l)) :
    (run ⟨interp, cond, alOf e.cls⟩ id fuel e.prog e.env σ1).2 = (run ⟨interp, cond, alOf e.cls⟩ (phiOf e.cls) fuel e.prog e.env σ2).2 ∧
    (((run ⟨interp, cond, alOf e.cls⟩ id fuel e.prog e.env σ1).2 = Status.norm ∨ (run ⟨interp, cond, alOf e.cls⟩ id fuel e.prog e.env σ1).2 = Status.ret) →
      ∀ o, e.outs.testBit o = true →
        (run ⟨interp, cond, alOf e.cls⟩ id fuel e.prog e.env σ1).1 o = (run ⟨interp, cond, alOf e.cls⟩ (phiOf e.cls) fuel e.prog e.env σ2).1 (phiOf e.cls o)) := by
  unfold safeEntry at h
  rw [Bool.and_eq_true] at h
  obtain ⟨hok, hs⟩ := h
  split at hs
  · rename_i x hx
    have hz : ((if x.nr then x.n else 0) ||| x.r) &&& e.outs = 0 := eq_of_beq hs
    have hsound := safe_sound (V := V) ⟨interp, cond, alOf e.cls⟩ (phiOf e.cls) (confOf e.cls) (confOf_sound e.cls hok)
      (alOf_sound e.cls) fuel e.prog e.env e.d0 x σ1 σ2 hx hinit
    obtain ⟨hst, hag⟩ := hsound
    refine ⟨hst, ?_⟩
    intro hnr o ho
    have hclean : ((if x.nr then x.n else 0) ||| x.r).testBit o = false := testBit_of_and_eq_zero hz ho
    rw [Nat.testBit_or, Bool.or_eq_false_iff] at hclean
    rcases hnr with hn | hr
    · rw [hn] at hag
      rw [hag.1, if_pos rfl] at hclean
      exact hag.2 o hclean.1
    · rw [hr] at hag
      exact hag o hclean.2
  · exact absurd hs (by simp)

end Givaro.Model.AliasProg
