/-
C16 — list-level lemmas behind `Props/C16.lean`: reading a list after `List.set`, counting the occurrences of `some b`
after `List.set`, and what `release` / `acquire` do to one block.  Core Lean only.
-/
import GivaroModel.Model.Domain

namespace Givaro.Lemmas.Domain
open Givaro.Model.Domain

/-! ### reading after `set` -/

theorem getD_set {α : Type} (l : List α) (k k' : Nat) (v d : α) :
    (l.set k v).getD k' d = if k = k' ∧ k < l.length then v else l.getD k' d := by
  simp only [List.getD_eq_getElem?_getD, List.getElem?_set]
  by_cases h : k = k'
  · subst h
    by_cases hk : k < l.length
    · simp [hk]
    · simp [hk]
  · simp [h]

theorem getD_set_ne {α : Type} (l : List α) {k k' : Nat} (v d : α) (h : k ≠ k') :
    (l.set k v).getD k' d = l.getD k' d := by
  rw [getD_set]; simp [h]

theorem getD_set_self {α : Type} (l : List α) {k : Nat} (v d : α) (h : k < l.length) :
    (l.set k v).getD k d = v := by
  rw [getD_set]; simp [h]

theorem getD_some_lt {l : List (Option Nat)} {k b : Nat} (h : l.getD k none = some b) : k < l.length := by
  refine Decidable.byContradiction fun hk => ?_
  have : l.getD k none = none := by
    simp only [List.getD_eq_getElem?_getD]
    rw [List.getElem?_eq_none (by omega)]; rfl
  rw [this] at h; cases h

theorem getD_eq_getElem {l : List (Option Nat)} {k : Nat} (hk : k < l.length) : l.getD k none = l[k] := by
  simp [List.getD_eq_getElem?_getD, hk]

theorem mem_of_getD_some {l : List (Option Nat)} {k b : Nat} (h : l.getD k none = some b) : some b ∈ l := by
  have hk := getD_some_lt h
  rw [getD_eq_getElem hk] at h
  rw [← h]; exact List.getElem_mem hk

theorem exists_getD_of_mem {l : List (Option Nat)} {b : Nat} (h : some b ∈ l) : ∃ k, l.getD k none = some b := by
  obtain ⟨k, hk, e⟩ := List.getElem_of_mem h
  exact ⟨k, by rw [getD_eq_getElem hk, e]⟩

/-- writing a value that is already there changes nothing -/
theorem set_getD_self {α : Type} (l : List α) {k : Nat} {v d : α} (hk : k < l.length) (h : l.getD k d = v) :
    l.set k v = l := by
  have : l[k] = v := by
    simpa [List.getD_eq_getElem?_getD, hk] using h
  rw [← this]; exact List.set_getElem_self hk

/-! ### counting after `set` -/

theorem count_set (l : List (Option Nat)) {k : Nat} (hk : k < l.length) (v : Option Nat) (b : Nat) :
    (l.set k v).count (some b)
      = l.count (some b) - (if l.getD k none = some b then 1 else 0) + (if v = some b then 1 else 0) := by
  rw [List.count_set hk, getD_eq_getElem hk]
  simp only [beq_iff_eq]

theorem count_pos_of_getD {l : List (Option Nat)} {k b : Nat} (h : l.getD k none = some b) :
    0 < l.count (some b) :=
  List.count_pos_iff.mpr (mem_of_getD_some h)

theorem count_eq_zero_of_bound {l : List (Option Nat)} {n : Nat}
    (h : ∀ k b, l.getD k none = some b → b < n) : l.count (some n) = 0 := by
  refine List.count_eq_zero.mpr fun hm => ?_
  obtain ⟨k, hk⟩ := exists_getD_of_mem hm
  exact Nat.lt_irrefl _ (h k n hk)

/-! ### `release` / `acquire` on one block -/

@[simp] theorem release_length (bs : List Block) (b : Nat) : (release bs b).length = bs.length := by
  simp [release]

@[simp] theorem acquire_length (bs : List Block) (b : Nat) : (acquire bs b).length = bs.length := by
  simp [acquire]

theorem release_getD_self (bs : List Block) {b : Nat} (hb : b < bs.length) :
    (release bs b).getD b ⟨0, true⟩
      = ⟨(bs.getD b ⟨0, true⟩).refs - 1,
         (bs.getD b ⟨0, true⟩).freed || ((bs.getD b ⟨0, true⟩).refs - 1 == 0)⟩ := by
  simp only [release]; rw [getD_set_self _ _ _ hb]

theorem release_getD_ne (bs : List Block) {b c : Nat} (h : b ≠ c) :
    (release bs b).getD c ⟨0, true⟩ = bs.getD c ⟨0, true⟩ := by
  simp only [release]; rw [getD_set_ne _ _ _ h]

theorem acquire_getD_self (bs : List Block) {b : Nat} (hb : b < bs.length) :
    (acquire bs b).getD b ⟨0, true⟩ = ⟨(bs.getD b ⟨0, true⟩).refs + 1, (bs.getD b ⟨0, true⟩).freed⟩ := by
  simp only [acquire]; rw [getD_set_self _ _ _ hb]

theorem acquire_getD_ne (bs : List Block) {b c : Nat} (h : b ≠ c) :
    (acquire bs b).getD c ⟨0, true⟩ = bs.getD c ⟨0, true⟩ := by
  simp only [acquire]; rw [getD_set_ne _ _ _ h]

theorem getD_append_left {α : Type} (l l' : List α) {k : Nat} (d : α) (h : k < l.length) :
    (l ++ l').getD k d = l.getD k d := by
  simp [List.getD_eq_getElem?_getD, List.getElem?_append_left h]

theorem getD_append_length {α : Type} (l : List α) (x d : α) :
    (l ++ [x]).getD l.length d = x := by
  simp [List.getD_eq_getElem?_getD]

end Givaro.Lemmas.Domain
