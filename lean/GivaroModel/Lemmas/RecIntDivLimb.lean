/- C06 helper lemmas: rudiv.h — the __RECINT_LIMB_SIZE specialisation of div_3_2, proved for an abstract limb base B
   (B = 2^64 only in the last step), and the resulting all-level theorems. -/
import GivaroModel.Lemmas.RecIntDiv2
namespace Givaro.Model.RecInt

/-! ### word arithmetic modulo an abstract base -/
theorem modB_add (B x y : Nat) (hx : x < B) (hy : y < B) :
    ∃ k : Nat, k ≤ 1 ∧ (x + y) % B + k * B = x + y ∧ (x + y) % B < B ∧ ((x + y) % B < y ↔ k = 1) ∧ ((x + y) % B < x ↔ k = 1) := by
  by_cases h : x + y < B
  · exact ⟨0, by omega, by rw [Nat.mod_eq_of_lt h]; omega, by rw [Nat.mod_eq_of_lt h]; omega,
      by rw [Nat.mod_eq_of_lt h]; omega, by rw [Nat.mod_eq_of_lt h]; omega⟩
  · have e : (x + y) % B = x + y - B := by rw [Nat.mod_eq_sub_mod (by omega), Nat.mod_eq_of_lt (by omega)]
    exact ⟨1, by omega, by rw [e]; omega, by rw [e]; omega, by rw [e]; omega, by rw [e]; omega⟩

theorem modB_succ (B x : Nat) (hx : x < B) : ∃ k : Nat, k ≤ 1 ∧ (x + 1) % B + k * B = x + 1 ∧ (x + 1) % B < B := by
  by_cases h : x + 1 < B
  · exact ⟨0, by omega, by rw [Nat.mod_eq_of_lt h]; omega, by rw [Nat.mod_eq_of_lt h]; omega⟩
  · have e : (x + 1) % B = x + 1 - B := by rw [Nat.mod_eq_sub_mod (by omega), Nat.mod_eq_of_lt (by omega)]
    exact ⟨1, by omega, by rw [e]; omega, by rw [e]; omega⟩

theorem modB_dec (B q : Nat) (h1 : 1 ≤ q) (hq : q < B) : (q + B - 1) % B + 1 = q ∧ (q + B - 1) % B < B := by
  have e : (q + B - 1) % B = q - 1 := by rw [Nat.mod_eq_sub_mod (by omega), Nat.mod_eq_of_lt (by omega)]; omega
  rw [e]; omega

theorem pairB_lt (B x0 x1 : Nat) (h0 : x0 < B) (h1 : x1 < B) : x0 + B * x1 < B * B := by
  have : B * (x1 + 1) ≤ B * B := Nat.mul_le_mul_left B h1
  nlinarith

/-- `r0 += b0; r1 += b1; if (r0 < b0) r1++` is the two-word addition modulo B² -/
theorem pairB_add (B r0 r1 b0 b1 : Nat) (hr0 : r0 < B) (hr1 : r1 < B) (hb0 : b0 < B) (hb1 : b1 < B) :
    ∃ ρ : Bool, (r0 + b0) % B < B ∧
      (if (r0 + b0) % B < b0 then ((r1 + b1) % B + 1) % B else (r1 + b1) % B) < B ∧
      ((r0 + b0) % B + B * (if (r0 + b0) % B < b0 then ((r1 + b1) % B + 1) % B else (r1 + b1) % B)) + c2n ρ * (B * B)
        = (r0 + B * r1) + (b0 + B * b1) := by
  obtain ⟨k0, hk0, e0, l0, c0, -⟩ := modB_add B r0 b0 hr0 hb0
  obtain ⟨k1, hk1, e1, l1, -, -⟩ := modB_add B r1 b1 hr1 hb1
  have hsum := pairB_lt B r0 r1 hr0 hr1
  have hsumb := pairB_lt B b0 b1 hb0 hb1
  by_cases hc : (r0 + b0) % B < b0
  · have hk01 : k0 = 1 := c0.mp hc
    obtain ⟨k2, hk2, e2, l2⟩ := modB_succ B ((r1 + b1) % B) l1
    simp only [if_pos hc]
    have E : ((r0 + b0) % B + B * (((r1 + b1) % B + 1) % B)) + (k1 + k2) * (B * B) = (r0 + B * r1) + (b0 + B * b1) := by
      subst hk01; linear_combination e0 + B * e1 + B * e2
    have hle := carry_le_one E (by omega)
    refine ⟨decide (k1 + k2 = 1), l0, l2, ?_⟩
    have : c2n (decide (k1 + k2 = 1)) = k1 + k2 := by
      rw [c2n_decide]; split <;> omega
    rw [this]; exact E
  · have hk00 : k0 = 0 := by
      rcases Nat.le_one_iff_eq_zero_or_eq_one.mp hk0 with h | h
      · exact h
      · exact absurd (c0.mpr h) hc
    simp only [if_neg hc]
    have E : ((r0 + b0) % B + B * ((r1 + b1) % B)) + k1 * (B * B) = (r0 + B * r1) + (b0 + B * b1) := by
      subst hk00; linear_combination e0 + B * e1
    refine ⟨decide (k1 = 1), l0, l1, ?_⟩
    have : c2n (decide (k1 = 1)) = k1 := by
      rw [c2n_decide]; split <;> omega
    rw [this]; exact E

/-- `recint_sub_ddmmss` at the two-word level -/
theorem pairB_sub (B X D : Nat) (hB : 0 < B) (hX : X < B * B) (hD : D < B * B) :
    let s := (X + B * B - D) % (B * B)
    s / B < B ∧ s % B < B ∧ (s % B + B * (s / B)) + D = X + c2n (decide (X < D)) * (B * B) := by
  intro s
  have hs : s < B * B := Nat.mod_lt _ (Nat.mul_pos hB hB)
  refine ⟨Nat.div_lt_of_lt_mul hs, Nat.mod_lt _ hB, ?_⟩
  rw [Nat.mod_add_div, c2n_decide]
  by_cases h : X < D
  · have e : s = X + B * B - D := Nat.mod_eq_of_lt (by omega)
    rw [if_pos h, e]; omega
  · have e : s = X - D := by
      show (X + B * B - D) % (B * B) = X - D
      rw [Nat.mod_eq_sub_mod (by omega), Nat.mod_eq_of_lt (by omega)]; omega
    rw [if_neg h, e]; omega

theorem lexB_gt (B d1 c d0 a0 : Nat) (hd0 : d0 < B) (ha0 : a0 < B) :
    (d1 > c ∨ d1 = c ∧ d0 > a0) ↔ a0 + B * c < d0 + B * d1 := by
  constructor
  · rintro (h | ⟨h1, h2⟩)
    · have : B * (c + 1) ≤ B * d1 := Nat.mul_le_mul_left B h
      nlinarith
    · subst h1; omega
  · intro h
    by_contra hn
    simp only [not_or, not_and, not_lt] at hn
    obtain ⟨h1, h2⟩ := hn
    rcases Nat.lt_or_ge d1 c with h3 | h3
    · have : B * (d1 + 1) ≤ B * c := Nat.mul_le_mul_left B h3
      nlinarith
    · have h4 : d1 = c := by omega
      have := h2 h4
      subst h4; omega

theorem lexB_ge (B x1 b1 x0 b0 : Nat) (hx0 : x0 < B) (hb0 : b0 < B) :
    (x1 > b1 ∨ x1 = b1 ∧ x0 ≥ b0) ↔ b0 + B * b1 ≤ x0 + B * x1 := by
  constructor
  · rintro (h | ⟨h1, h2⟩)
    · have : B * (b1 + 1) ≤ B * x1 := Nat.mul_le_mul_left B h
      nlinarith
    · subst h1; omega
  · intro h
    by_contra hn
    simp only [not_or, not_and, not_le] at hn
    obtain ⟨h1, h2⟩ := hn
    rcases Nat.lt_or_ge x1 b1 with h3 | h3
    · have : B * (x1 + 1) ≤ B * b1 := Nat.mul_le_mul_left B h3
      nlinarith
    · have h4 : x1 = b1 := by omega
      have := h2 h4
      subst h4; omega

/-! ### the limb-level `div_3_2` over an abstract base -/
def udivg (B nh nl d : Nat) : Nat × Nat := (((nh * B + nl) / d) % B, (nh * B + nl) % d)
def umulg (B a b : Nat) : Nat × Nat := ((a * b) / B, (a * b) % B)
def subddg (B ah al bh bl : Nat) : Nat × Nat :=
  ((al + B * ah + B * B - (bl + B * bh)) % (B * B) / B, (al + B * ah + B * B - (bl + B * bh)) % (B * B) % B)
def qhatg (B a2 a1 b1 : Nat) : Nat × Nat × Bool :=
  if a2 < b1 then ((udivg B a2 a1 b1).1, (udivg B a2 a1 b1).2, false)
  else (B - 1, (a1 + b1) % B, decide ((a1 + b1) % B < a1))
def div32tail (B q c : Nat) (ret : Bool) (a0 b1 b0 : Nat) : Nat × Nat × Nat :=
  let d := umulg B q b0
  let r := subddg B c a0 d.1 d.2
  if !ret && (decide (d.1 > c) || (decide (d.1 = c) && decide (d.2 > a0))) then
    let q := (q + B - 1) % B
    let r0 := (r.2 + b0) % B
    let r1 := (r.1 + b1) % B
    let r1 := if r0 < b0 then (r1 + 1) % B else r1
    if decide (r1 > b1) || (decide (r1 = b1) && decide (r0 ≥ b0)) then
      let q := (q + B - 1) % B
      let r0' := (r0 + b0) % B
      let r1' := (r1 + b1) % B
      let r1' := if r0' < b0 then (r1' + 1) % B else r1'
      (q, r1', r0')
    else (q, r1, r0)
  else (q, r.1, r.2)
def div32g (B a2 a1 a0 b1 b0 : Nat) : Nat × Nat × Nat :=
  div32tail B (qhatg B a2 a1 b1).1 (qhatg B a2 a1 b1).2.1 (qhatg B a2 a1 b1).2.2 a0 b1 b0

/-- the quotient estimate: `floor((a2,a1)/b1)` when `a2 < b1`, otherwise `B-1` with the remainder `a1 + b1` and its carry -/
theorem qhatg_ok (B a2 a1 b1 b0 : Nat) (hB : 0 < B) (ha2 : a2 < B) (ha1 : a1 < B) (hb1 : b1 < B)
    (hlt : a2 * B + a1 < b1 * B + b0) (hb0 : b0 < B) :
    (qhatg B a2 a1 b1).1 < B ∧ (qhatg B a2 a1 b1).2.1 < B ∧
    (a2 * B + a1 = (qhatg B a2 a1 b1).1 * b1 + (qhatg B a2 a1 b1).2.1 + c2n (qhatg B a2 a1 b1).2.2 * B) ∧
    (((qhatg B a2 a1 b1).2.2 = false ∧ (qhatg B a2 a1 b1).2.1 < b1) ∨
     ((qhatg B a2 a1 b1).1 + 1 = B ∧ a1 < b0 ∧ (qhatg B a2 a1 b1).2.1 + c2n (qhatg B a2 a1 b1).2.2 * B = a1 + b1)) := by
  unfold qhatg
  by_cases hc : a2 < b1
  · rw [if_pos hc]
    have h1 : (a2 + 1) * B ≤ b1 * B := Nat.mul_le_mul_right B hc
    have hnn : a2 * B + a1 < b1 * B := by nlinarith
    have hq : (a2 * B + a1) / b1 < B := Nat.div_lt_of_lt_mul hnn
    have hr : (a2 * B + a1) % b1 < b1 := Nat.mod_lt _ (by omega)
    simp only [udivg, Nat.mod_eq_of_lt hq, c2n_false, Nat.zero_mul, Nat.add_zero]
    refine ⟨hq, by omega, ?_, Or.inl ⟨trivial, hr⟩⟩
    rw [Nat.mul_comm ((a2 * B + a1) / b1) b1]; exact (Nat.div_add_mod _ _).symm
  · rw [if_neg hc]
    have heq : a2 = b1 := by
      by_contra hne
      have h1 : (b1 + 1) * B ≤ a2 * B := Nat.mul_le_mul_right B (by omega)
      nlinarith
    subst heq
    obtain ⟨k, hk, e, l, -, cx⟩ := modB_add B a1 a2 ha1 hb1
    have hk' : c2n (decide ((a1 + a2) % B < a1)) = k := by
      rw [c2n_decide]; split
      · rename_i h; exact (cx.mp h).symm
      · rename_i h
        rcases Nat.le_one_iff_eq_zero_or_eq_one.mp hk with h0 | h0
        · exact h0.symm
        · exact absurd (cx.mpr h0) h
    simp only [hk']
    have e2 : (B - 1) * a2 + a2 = a2 * B := by
      rw [Nat.sub_one_mul, Nat.mul_comm B a2]
      have : a2 ≤ a2 * B := Nat.le_mul_of_pos_right _ hB
      omega
    refine ⟨by omega, l, by omega, Or.inr ⟨by omega, by omega, e⟩⟩

theorem umulg_ok (B a b : Nat) (hB : 0 < B) (ha : a < B) (hb : b < B) :
    (umulg B a b).2 < B ∧ (umulg B a b).1 < B ∧ (umulg B a b).2 + B * (umulg B a b).1 = a * b := by
  have hp : a * b < B * B := Nat.mul_lt_mul'' ha hb
  exact ⟨Nat.mod_lt _ hB, Nat.div_lt_of_lt_mul hp, Nat.mod_add_div _ _⟩

/-- facts about the first remainder, shared by all branches -/
structure D32Facts (B q c a0 b1 b0 a2 a1 : Nat) (ret : Bool) (d r : Nat × Nat) : Prop where
  hd2 : d.2 < B
  hd1 : d.1 < B
  hde : d.2 + B * d.1 = q * b0
  hr1 : r.1 < B
  hr2 : r.2 < B
  core : (¬(ret = false ∧ a0 + B * c < d.2 + B * d.1) →
      (r.2 + B * r.1) + (d.2 + B * d.1) = (a0 + B * c) + c2n ret * (B * B) ∧ r.2 + B * r.1 < b0 + B * b1) ∧
    (ret = false ∧ a0 + B * c < d.2 + B * d.1 → ∀ (x : Nat) (ρ : Bool), x < B * B → x + c2n ρ * (B * B) = (r.2 + B * r.1) + (b0 + B * b1) →
        (ρ = true → x + (d.2 + B * d.1) = (a0 + B * c) + (b0 + B * b1) ∧ x < b0 + B * b1) ∧
        (ρ = false → (a0 + B * c) + (b0 + B * b1) < d.2 + B * d.1 ∧ ∀ (y : Nat) (ρ' : Bool), y < B * B → y + c2n ρ' * (B * B) = x + (b0 + B * b1) →
          y + (d.2 + B * d.1) = (a0 + B * c) + 2 * (b0 + B * b1) ∧ y < b0 + B * b1))
  hq0 : q = 0 → d.2 + B * d.1 = 0
  hq1 : q ≤ 1 → d.2 + B * d.1 ≤ b0 + B * b1

theorem d32_facts (B q c a0 b1 b0 a2 a1 : Nat) (ret : Bool) (hB : 0 < B) (hq : q < B) (hc : c < B) (ha0 : a0 < B)
    (hb1 : b1 < B) (hb0 : b0 < B) (hn : B ≤ 2 * b1)
    (hcase : (ret = false ∧ c < b1) ∨ (q + 1 = B ∧ a1 < b0 ∧ c + c2n ret * B = a1 + b1)) :
    D32Facts B q c a0 b1 b0 a2 a1 ret (umulg B q b0) (subddg B c a0 (umulg B q b0).1 (umulg B q b0).2) := by
  obtain ⟨hd2, hd1, hde⟩ := umulg_ok B q b0 hB hq hb0
  generalize umulg B q b0 = d at hd2 hd1 hde ⊢
  have hvd := pairB_lt B d.2 d.1 hd2 hd1
  have hvX := pairB_lt B a0 c ha0 hc
  have hvb := pairB_lt B b0 b1 hb0 hb1
  obtain ⟨hr1, hr2, P1⟩ := pairB_sub B (a0 + B * c) (d.2 + B * d.1) hB hvX hvd
  have hK2 : B * B ≤ 2 * (b0 + B * b1) := by nlinarith
  have hT : (a0 + B * c) + c2n ret * (B * B) < (b0 + B * b1) + (d.2 + B * d.1) := by
    rcases hcase with ⟨h1, h2⟩ | ⟨h1, h2, h3⟩
    · subst h1; simp only [c2n_false, Nat.zero_mul, Nat.add_zero]
      have : c + 1 ≤ b1 := h2
      have := Nat.mul_le_mul_left B this
      nlinarith
    · rw [hde]
      have e1 : a0 + B * c + c2n ret * (B * B) = a0 + B * (a1 + b1) := by rw [← h3]; ring
      rw [e1]
      have : a1 + 1 ≤ b0 := h2
      have h5 := Nat.mul_le_mul_left B this
      have e2 : q * b0 + b0 = B * b0 := by rw [← h1]; ring
      nlinarith
  have hvr := pairB_lt B _ _ hr2 hr1
  exact {
    hd2 := hd2, hd1 := hd1, hde := hde, hr1 := hr1, hr2 := hr2
    core := d32_core (B * B) (b0 + B * b1) (d.2 + B * d.1) (a0 + B * c) _ ret _ hvd hvb hK2 hT hvr P1
    hq0 := by intro h; rw [hde, h]; simp
    hq1 := by
      intro h; rw [hde]
      have := Nat.mul_le_mul_right b0 h
      omega }

/-- what the limb-level routine must deliver, on plain numbers -/
def Div32gOk (B : Nat) (x : Nat × Nat × Nat) (a2 a1 a0 b1 b0 : Nat) : Prop :=
  x.1 < B ∧ x.2.1 < B ∧ x.2.2 < B ∧
  (a2 * B + a1) * B + a0 = x.1 * (b1 * B + b0) + (x.2.1 * B + x.2.2) ∧ x.2.1 * B + x.2.2 < b1 * B + b0

theorem comm_lt {B y1 y0 b1 b0 : Nat} (h : y0 + B * y1 < b0 + B * b1) : y1 * B + y0 < b1 * B + b0 := by
  rw [Nat.mul_comm y1, Nat.mul_comm b1]; omega

theorem div32tail_ok (B q c a0 b1 b0 a2 a1 : Nat) (ret : Bool) (hB : 0 < B) (hq : q < B) (hc : c < B) (ha0 : a0 < B)
    (hb1 : b1 < B) (hb0 : b0 < B) (hn : B ≤ 2 * b1)
    (hA : a2 * B + a1 = q * b1 + c + c2n ret * B)
    (hcase : (ret = false ∧ c < b1) ∨ (q + 1 = B ∧ a1 < b0 ∧ c + c2n ret * B = a1 + b1)) :
    Div32gOk B (div32tail B q c ret a0 b1 b0) a2 a1 a0 b1 b0 := by
  have F := d32_facts B q c a0 b1 b0 a2 a1 ret hB hq hc ha0 hb1 hb0 hn hcase
  simp only [div32tail]
  generalize umulg B q b0 = d at F ⊢
  generalize subddg B c a0 d.1 d.2 = r at F ⊢
  obtain ⟨hd2, hd1, hde, hr1, hr2, core, hq0, hq1⟩ := F
  have hlex := lexB_gt B d.1 c d.2 a0 hd2 ha0
  unfold Div32gOk
  by_cases hcond : (!ret && (decide (d.1 > c) || decide (d.1 = c) && decide (d.2 > a0))) = true
  · rw [if_pos hcond]
    simp only [Bool.and_eq_true, Bool.not_eq_true', Bool.or_eq_true, decide_eq_true_eq] at hcond
    have hneg : ret = false ∧ a0 + B * c < d.2 + B * d.1 := ⟨hcond.1, hlex.mp hcond.2⟩
    have hq1' : 1 ≤ q := by
      by_contra h; have := hq0 (by omega); omega
    obtain ⟨hQ1e, hQ1w⟩ := modB_dec B q hq1' hq
    generalize (q + B - 1) % B = Q1 at hQ1e hQ1w ⊢
    obtain ⟨ρ, hx0, hx1, Px⟩ := pairB_add B r.2 r.1 b0 b1 hr2 hr1 hb0 hb1
    generalize (r.2 + b0) % B = x0 at hx0 hx1 Px ⊢
    generalize (if x0 < b0 then ((r.1 + b1) % B + 1) % B else (r.1 + b1) % B) = x1 at hx1 Px ⊢
    have hvx := pairB_lt B x0 x1 hx0 hx1
    obtain ⟨hρt, hρf⟩ := core.2 hneg _ ρ hvx Px
    have hge := lexB_ge B x1 b1 x0 b0 hx0 hb0
    have hA' := hA
    rw [hneg.1] at hA'
    simp only [c2n_false, Nat.zero_mul, Nat.add_zero] at hA'
    by_cases hc2 : (decide (x1 > b1) || decide (x1 = b1) && decide (x0 ≥ b0)) = true
    · rw [if_pos hc2]
      simp only [Bool.or_eq_true, Bool.and_eq_true, decide_eq_true_eq] at hc2
      have hbx := hge.mp hc2
      have hρ : ρ = false := by
        cases hh : ρ
        · rfl
        · have := (hρt hh).2; omega
      obtain ⟨hXb, hyy⟩ := hρf hρ
      have hq2 : 1 ≤ Q1 := by
        by_contra h
        have := hq1 (by omega)
        omega
      obtain ⟨hQ2e, hQ2w⟩ := modB_dec B Q1 hq2 hQ1w
      generalize (Q1 + B - 1) % B = Q2 at hQ2e hQ2w ⊢
      obtain ⟨ρ', hy0, hy1, Py⟩ := pairB_add B x0 x1 b0 b1 hx0 hx1 hb0 hb1
      generalize (x0 + b0) % B = y0 at hy0 hy1 Py ⊢
      generalize (if y0 < b0 then ((x1 + b1) % B + 1) % B else (x1 + b1) % B) = y1 at hy1 Py ⊢
      have hvy := pairB_lt B y0 y1 hy0 hy1
      obtain ⟨F2, F3⟩ := hyy _ ρ' hvy Py
      refine ⟨hQ2w, hy1, hy0, ?_, comm_lt F3⟩
      have hqq : q = Q2 + 2 := by omega
      rw [hqq] at hA' hde
      linear_combination B * hA' + F2.symm + hde
    · rw [if_neg hc2]
      simp only [Bool.or_eq_true, Bool.and_eq_true, decide_eq_true_eq] at hc2
      have hbx : ¬ (b0 + B * b1 ≤ x0 + B * x1) := fun h => hc2 (hge.mpr h)
      have hρ : ρ = true := by
        cases hh : ρ
        · rw [hh] at Px; simp only [c2n_false, Nat.zero_mul, Nat.add_zero] at Px; omega
        · rfl
      obtain ⟨F2, F3⟩ := hρt hρ
      refine ⟨hQ1w, hx1, hx0, ?_, comm_lt F3⟩
      have hqq : q = Q1 + 1 := by omega
      rw [hqq] at hA' hde
      linear_combination B * hA' + F2.symm + hde
  · rw [if_neg hcond]
    have hnn : ¬ (ret = false ∧ a0 + B * c < d.2 + B * d.1) := by
      rintro ⟨h1, h2⟩
      apply hcond
      simp only [Bool.and_eq_true, Bool.not_eq_true', Bool.or_eq_true, decide_eq_true_eq]
      exact ⟨h1, hlex.mpr h2⟩
    obtain ⟨F2, F3⟩ := core.1 hnn
    refine ⟨hq, hr1, hr2, ?_, comm_lt F3⟩
    linear_combination B * hA + F2.symm + hde

theorem div32g_ok (B a2 a1 a0 b1 b0 : Nat) (hB : 0 < B) (ha2 : a2 < B) (ha1 : a1 < B) (ha0 : a0 < B) (hb1 : b1 < B) (hb0 : b0 < B)
    (hn : B ≤ 2 * b1) (hlt : a2 * B + a1 < b1 * B + b0) : Div32gOk B (div32g B a2 a1 a0 b1 b0) a2 a1 a0 b1 b0 := by
  obtain ⟨h1, h2, h3, h4⟩ := qhatg_ok B a2 a1 b1 b0 hB ha2 ha1 hb1 hlt hb0
  exact div32tail_ok B _ _ a0 b1 b0 a2 a1 _ hB h1 h2 ha0 hb1 hb0 hn h3 h4

/-- the model's limb-level `div_3_2` is `div32g` at base 2^64 -/
theorem div_3_2_limb_eq (t a2 a1 a0 b1 b0 : Nat) :
    div_3_2 t (.limb a2) (.limb a1) (.limb a0) (.limb b1) (.limb b0) =
      (.limb (div32g B64 a2 a1 a0 b1 b0).1, .limb (div32g B64 a2 a1 a0 b1 b0).2.1, .limb (div32g B64 a2 a1 a0 b1 b0).2.2) := by
  simp only [div_3_2, div32g, div32tail, qhatg, udivg, umulg, subddg, udiv_qrnnd, umul_pp, sub_dd]
  split_ifs <;> rfl

theorem div_3_2_zero (t : Nat) : Div32Limb t := by
  intro a2 a1 a0 b1 b0 ha2 ha1 ha0 hb1 hb0 hn hlt
  cases a2 with | limb a2 => cases a1 with | limb a1 => cases a0 with | limb a0 => cases b1 with | limb b1 => cases b0 with | limb b0 =>
  simp only [WF, val, Bn_zero] at ha2 ha1 ha0 hb1 hb0 hn hlt
  have h := div32g_ok B64 a2 a1 a0 b1 b0 (by decide) ha2 ha1 ha0 hb1 hb0 hn hlt
  rw [div_3_2_limb_eq]
  unfold Div32Ok
  simp only [WF, val, Bn_zero]
  exact h

/-- `div_2_1` and `div_3_2` are exact at every level -/
theorem div_family (t : Nat) (n : Nat) :
    (∀ ah al b : RU n, WF ah → WF al → WF b → Bn n ≤ 2 * val b → val ah < val b → Div21Ok (div_2_1 t ah al b) ah al b) ∧
    (∀ a2 a1 a0 b1 b0 : RU n, WF a2 → WF a1 → WF a0 → WF b1 → WF b0 → Bn n ≤ 2 * val b1 →
      val a2 * Bn n + val a1 < val b1 * Bn n + val b0 → Div32Ok (div_3_2 t a2 a1 a0 b1 b0) a2 a1 a0 b1 b0) :=
  div_family_of_limb t (div_3_2_zero t) n

end Givaro.Model.RecInt

