/-
C08 — givpoly1padic.h: `eval` and `radix` of `Model/Poly.lean` (namespace `Givaro.Model.Padic`) are inverse of each other.
-/
import GivaroModel.Model.Poly
import Mathlib.Algebra.Order.Ring.Nat
import Mathlib.Tactic.Ring
import Mathlib.Tactic.Linarith
import Mathlib.Algebra.Order.Group.Nat
namespace Givaro.Lemmas.Padic
open Givaro.Model.Padic

/-- every digit is a canonical residue -/
def Digits (p : Nat) (L : List Nat) : Prop := ∀ d ∈ L, d < p
/-- no leading zero digit -/
def NormalN (L : List Nat) : Prop := L.getLast? ≠ some 0

theorem eval_setdegree (p : Nat) (L : List Nat) : eval p (setdegree L) = eval p L := by
  induction L with
  | nil => rfl
  | cons a L ih =>
    unfold setdegree
    split
    · next h => rw [h] at ih; simp only [eval] at ih ⊢; by_cases ha : a = 0 <;> simp [ha, eval, ← ih]
    · next b Q h => rw [h] at ih; simp only [eval] at ih ⊢; rw [ih]

theorem setdegree_normal (L : List Nat) : NormalN (setdegree L) := by
  induction L with
  | nil => simp [setdegree, NormalN]
  | cons a L ih =>
    unfold setdegree
    split
    · by_cases ha : a = 0 <;> simp [ha, NormalN]
    · next b Q h => rw [h] at ih; simpa [NormalN, List.getLast?_cons_cons] using ih

theorem setdegree_digits (p : Nat) (L : List Nat) (h : Digits p L) : Digits p (setdegree L) := by
  induction L with
  | nil => simp [setdegree, Digits]
  | cons a L ih =>
    have hL : Digits p L := fun d hd => h d (List.mem_cons_of_mem _ hd)
    have ha : a < p := h a (List.mem_cons_self ..)
    unfold setdegree
    split
    · by_cases h0 : a = 0 <;> simp [h0, Digits]; exact ha
    · next b Q hq =>
      have := ih hL
      rw [hq] at this
      intro d hd
      rcases List.mem_cons.mp hd with rfl | hd
      · exact ha
      · exact this d hd

theorem setdegree_length_le (L : List Nat) : (setdegree L).length ≤ L.length := by
  induction L with
  | nil => simp [setdegree]
  | cons a L ih =>
    unfold setdegree
    split
    · split <;> simp
    · next b Q h => rw [h] at ih; simp at ih ⊢; omega

theorem eval_append (p : Nat) (A B : List Nat) : eval p (A ++ B) = eval p A + p ^ A.length * eval p B := by
  induction A with
  | nil => simp [eval]
  | cons a A ih => simp only [List.cons_append, eval, ih, List.length_cons, pow_succ]; ring

theorem eval_replicate_zero (p n : Nat) : eval p (List.replicate n 0) = 0 := by
  induction n with
  | zero => rfl
  | succ n ih => simp [List.replicate_succ, eval, ih]

theorem eval_lt (p : Nat) (L : List Nat) (h : Digits p L) : eval p L < p ^ L.length := by
  induction L with
  | nil => simp [eval]
  | cons a L ih =>
    have hL : Digits p L := fun d hd => h d (List.mem_cons_of_mem _ hd)
    have ha : a < p := h a (List.mem_cons_self ..)
    have := ih hL
    simp only [eval, List.length_cons, pow_succ]
    nlinarith

theorem initConst_spec (p E : Nat) (hp : 0 < p) :
    eval p (initConst p E) = E % p ∧ Digits p (initConst p E) ∧ (initConst p E).length ≤ 1 ∧
    NormalN (initConst p E) := by
  unfold initConst
  split
  · next h => simp [eval, h, Digits, NormalN]
  · next h =>
    refine ⟨by simp [eval], ?_, by simp, by simp [NormalN, h]⟩
    intro d hd; simp at hd; rw [hd]; exact Nat.mod_lt _ hp

/-- `radix(P,E,n)` writes `E < p^n` in base `p` on at most `n` digits -/
theorem radixN_spec (p : Nat) (hp : 2 ≤ p) : ∀ (fuel E n : Nat), n ≤ fuel + 1 → 1 ≤ n → E < p ^ n →
    eval p (radixN p fuel E n) = E ∧ Digits p (radixN p fuel E n) ∧ (radixN p fuel E n).length ≤ n ∧
    NormalN (radixN p fuel E n) := by
  intro fuel
  induction fuel with
  | zero =>
    intro E n hf hn hE
    have : n = 1 := by omega
    subst this
    simp only [radixN]
    obtain ⟨h1, h2, h3, h4⟩ := initConst_spec p E (by omega)
    refine ⟨by rw [h1]; exact Nat.mod_eq_of_lt (by simpa using hE), h2, h3, h4⟩
  | succ fuel ih =>
    intro E n hf hn hE
    simp only [radixN]
    split
    · next h1 =>
      have : n = 1 := by omega
      subst this
      obtain ⟨h1, h2, h3, h4⟩ := initConst_spec p E (by omega)
      exact ⟨by rw [h1]; exact Nat.mod_eq_of_lt (by simpa using hE), h2, h3, h4⟩
    · next h1 =>
      have ht1 : 1 ≤ (n + 1) / 2 := by omega
      have ht2 : (n + 1) / 2 ≤ fuel + 1 := by omega
      have hnt1 : 1 ≤ n - (n + 1) / 2 := by omega
      have hpt : 0 < p ^ ((n + 1) / 2) := Nat.pow_pos (by omega)
      have hq : E / p ^ ((n + 1) / 2) < p ^ (n - (n + 1) / 2) := by
        rw [Nat.div_lt_iff_lt_mul hpt, ← pow_add]
        have : n - (n + 1) / 2 + (n + 1) / 2 = n := by omega
        rw [this]; exact hE
      obtain ⟨q1, q2, q3, q4⟩ := ih (E / p ^ ((n + 1) / 2)) (n - (n + 1) / 2) (by omega) hnt1 hq
      obtain ⟨l1, l2, l3, _⟩ := ih (E % p ^ ((n + 1) / 2)) ((n + 1) / 2) ht2 ht1 (Nat.mod_lt _ hpt)
      have hPl := setdegree_length_le (radixN p fuel (E % p ^ ((n + 1) / 2)) ((n + 1) / 2))
      refine ⟨?_, ?_, ?_, setdegree_normal _⟩
      · rw [eval_setdegree, eval_append, eval_append, eval_setdegree, l1, eval_replicate_zero, q1]
        simp only [List.length_append, List.length_replicate]
        have : (setdegree (radixN p fuel (E % p ^ ((n + 1) / 2)) ((n + 1) / 2))).length
            + ((n + 1) / 2 - (setdegree (radixN p fuel (E % p ^ ((n + 1) / 2)) ((n + 1) / 2))).length)
            = (n + 1) / 2 := by omega
        rw [this, Nat.mul_zero, Nat.add_zero]
        exact Nat.mod_add_div E (p ^ ((n + 1) / 2))
      · apply setdegree_digits
        intro d hd
        rcases List.mem_append.mp hd with hd | hd
        · rcases List.mem_append.mp hd with hd | hd
          · exact setdegree_digits p _ l2 d hd
          · rw [List.mem_replicate] at hd; rw [hd.2]; omega
        · exact q2 d hd
      · refine le_trans (setdegree_length_le _) ?_
        simp only [List.length_append, List.length_replicate]
        omega

theorem ndigits_spec (p : Nat) (hp : 2 ≤ p) : ∀ (fuel E : Nat), E ≤ fuel → 1 ≤ ndigits p fuel E ∧ E < p ^ ndigits p fuel E := by
  intro fuel
  induction fuel with
  | zero => intro E h; have : E = 0 := by omega
            subst this; simp [ndigits]; omega
  | succ fuel ih =>
    intro E h
    simp only [ndigits]
    split
    · next hlt => exact ⟨le_refl _, by simpa using hlt⟩
    · next hge =>
      have hdiv : E / p ≤ fuel := by
        have : E / p < E := Nat.div_lt_self (by omega) (by omega)
        omega
      obtain ⟨h1, h2⟩ := ih (E / p) hdiv
      refine ⟨by omega, ?_⟩
      rw [Nat.add_comm, pow_succ]
      have := (Nat.div_lt_iff_lt_mul (by omega : 0 < p)).mp h2
      exact this

/-- `eval (radix n) = n`: every integer `E ≥ 0`, every `p ≥ 2`; the digits are canonical and the result is normalised -/
theorem eval_radix (p : Nat) (hp : 2 ≤ p) (E : Nat) :
    eval p (radix p E) = E ∧ Digits p (radix p E) ∧ NormalN (radix p E) := by
  unfold radix
  obtain ⟨h1, h2⟩ := ndigits_spec p hp E E (le_refl _)
  obtain ⟨r1, r2, _, r4⟩ := radixN_spec p hp (ndigits p E E) E (ndigits p E E) (by omega) h1 h2
  exact ⟨r1, r2, r4⟩

/-- base-`p` expansions are unique among normalised lists of canonical digits -/
theorem eval_injective (p : Nat) (hp : 2 ≤ p) : ∀ (A B : List Nat), Digits p A → Digits p B → NormalN A → NormalN B →
    eval p A = eval p B → A = B
  | [], [], _, _, _, _, _ => rfl
  | [], b :: B, _, hB, _, nB, h => by
    exfalso
    have key : ∀ (L : List Nat), Digits p L → NormalN L → eval p L = 0 → L = [] := by
      intro L
      induction L with
      | nil => intros; rfl
      | cons a L ih =>
        intro hd hn h0
        simp only [eval] at h0
        have ha : a = 0 := by omega
        have hL : eval p L = 0 := by
          have : p * eval p L = 0 := by omega
          rcases Nat.mul_eq_zero.mp this with h | h
          · omega
          · exact h
        have hLn : NormalN L := by
          cases L with
          | nil => simp [NormalN]
          | cons c L' => simpa [NormalN, List.getLast?_cons_cons] using hn
        have := ih (fun d hd' => hd d (List.mem_cons_of_mem _ hd')) hLn hL
        subst this
        simp [NormalN, ha] at hn
    have := key (b :: B) hB nB (by simpa [eval] using h.symm)
    simp at this
  | a :: A, [], hA, _, nA, _, h => by
    exfalso
    have key : ∀ (L : List Nat), Digits p L → NormalN L → eval p L = 0 → L = [] := by
      intro L
      induction L with
      | nil => intros; rfl
      | cons a L ih =>
        intro hd hn h0
        simp only [eval] at h0
        have ha : a = 0 := by omega
        have hL : eval p L = 0 := by
          have : p * eval p L = 0 := by omega
          rcases Nat.mul_eq_zero.mp this with h | h
          · omega
          · exact h
        have hLn : NormalN L := by
          cases L with
          | nil => simp [NormalN]
          | cons c L' => simpa [NormalN, List.getLast?_cons_cons] using hn
        have := ih (fun d hd' => hd d (List.mem_cons_of_mem _ hd')) hLn hL
        subst this
        simp [NormalN, ha] at hn
    have := key (a :: A) hA nA (by simpa [eval] using h)
    simp at this
  | a :: A, b :: B, hA, hB, nA, nB, h => by
    simp only [eval] at h
    have ha : a < p := hA a (List.mem_cons_self ..)
    have hb : b < p := hB b (List.mem_cons_self ..)
    have hab : a = b := by
      have h1 : (a + p * eval p A) % p = (b + p * eval p B) % p := by rw [h]
      simp only [Nat.add_mul_mod_self_left] at h1
      rwa [Nat.mod_eq_of_lt ha, Nat.mod_eq_of_lt hb] at h1
    have hAB : eval p A = eval p B := by
      have : p * eval p A = p * eval p B := by omega
      exact Nat.eq_of_mul_eq_mul_left (by omega) this
    have nA' : NormalN A := by
      cases A with
      | nil => simp [NormalN]
      | cons c L' => simpa [NormalN, List.getLast?_cons_cons] using nA
    have nB' : NormalN B := by
      cases B with
      | nil => simp [NormalN]
      | cons c L' => simpa [NormalN, List.getLast?_cons_cons] using nB
    rw [hab, eval_injective p hp A B (fun d hd => hA d (List.mem_cons_of_mem _ hd))
      (fun d hd => hB d (List.mem_cons_of_mem _ hd)) nA' nB' hAB]

/-- `radix (eval P) = P` for every normalised polynomial with canonical digits (any size, the empty one included) -/
theorem radix_eval (p : Nat) (hp : 2 ≤ p) (P : List Nat) (hd : Digits p P) (hn : NormalN P) :
    radix p (eval p P) = P := by
  obtain ⟨h1, h2, h3⟩ := eval_radix p hp (eval p P)
  exact eval_injective p hp _ _ h2 hd h3 hn h1

end Givaro.Lemmas.Padic
