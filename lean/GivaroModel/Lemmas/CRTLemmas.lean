/-
C14 — helper lemmas about the CRT model (Mathlib single modules allowed here).
-/
import GivaroModel.Model.CRT
import GivaroModel.Spec.CRTSpec
import Mathlib.Tactic.Ring
import Mathlib.Tactic.Linarith
import Mathlib.Tactic.LinearCombination
import Mathlib.Data.Int.ModEq
import Mathlib.Data.Int.GCD
import Mathlib.RingTheory.Coprime.Basic
import Mathlib.RingTheory.Coprime.Lemmas

namespace Givaro.Lemmas.CRT
open Givaro.Model.CRT
open Givaro.Spec.CRT (prod mrValue)

/-- Contract of the Bezout cofactor (`mpz_gcdext`, `Domain::inv`): whenever `x` is invertible modulo `p`,
    `cof p x` is an inverse of `x` modulo `p`. -/
def CofOK (cof : Int → Int → Int) : Prop :=
  ∀ p x y : Int, 0 < p → 0 ≤ x → (y * x) % p = 1 % p → (cof p x * x) % p = 1 % p

/-! ### the accumulated prefix: product of its moduli and its mixed-radix value -/

def accP : List (Int × Int) → Int
  | [] => 1
  | pm :: r => pm.1 * accP r

def accV : List (Int × Int) → Int
  | [] => 0
  | pm :: r => accV r + pm.2 * accP r

theorem prod_append_singleton (l : List Int) (p : Int) : prod (l ++ [p]) = prod l * p := by
  induction l with
  | nil => simp [prod]
  | cons a l ih => simp only [List.cons_append, prod, ih]; ring

theorem prod_append (l k : List Int) : prod (l ++ k) = prod l * prod k := by
  induction l with
  | nil => simp [prod]
  | cons a l ih => simp only [List.cons_append, prod, ih]; ring

theorem prodList_eq (ps : List Int) : prodList ps = prod ps := by
  unfold prodList
  suffices h : ∀ (l : List Int) (t : Int), l.foldl (· * ·) t = t * prod l by rw [h]; ring
  intro l
  induction l with
  | nil => intro t; simp [prod]
  | cons a l ih => intro t; simp only [List.foldl_cons, ih, prod]; ring

theorem accP_pos : ∀ acc : List (Int × Int), (∀ pm ∈ acc, 0 < pm.1) → 0 < accP acc
  | [], _ => by simp [accP]
  | pm :: r, h => by
    have h1 : 0 < pm.1 := h pm (List.mem_cons_self ..)
    have h2 := accP_pos r (fun q hq => h q (List.mem_cons_of_mem _ hq))
    simp only [accP]; positivity

/-! ### Horner loops -/

theorem intHorner_fold (pi : Int) : ∀ (rest : List (Int × Int)) (t : Int),
    rest.foldl (fun tmp (pm : Int × Int) => (tmp * pm.1 + pm.2) % pi) t ≡ t * accP rest + accV rest [ZMOD pi] := by
  intro rest
  induction rest with
  | nil => intro t; simp [accP, accV]
  | cons pm rest ih =>
    intro t
    simp only [List.foldl_cons]
    refine (ih _).trans ?_
    have h : (t * pm.1 + pm.2) % pi ≡ t * pm.1 + pm.2 [ZMOD pi] := Int.mod_modEq _ _
    have h2 := (h.mul_right (accP rest)).add_right (accV rest)
    refine h2.trans ?_
    simp only [accP, accV]
    have : (t * pm.1 + pm.2) * accP rest + accV rest = t * (pm.1 * accP rest) + (accV rest + pm.2 * accP rest) := by ring
    rw [this]

theorem intHorner_modEq (pi : Int) (pm : Int × Int) (rest : List (Int × Int)) :
    intHorner pi (pm :: rest) ≡ accV (pm :: rest) [ZMOD pi] := by
  obtain ⟨p, m⟩ := pm
  simp only [intHorner]
  refine (intHorner_fold pi rest m).trans ?_
  simp only [accV]
  rw [add_comm]

theorem rnsHorner_fold (pi : Int) : ∀ (rest : List (Int × Int)) (t : Int),
    rest.foldl (fun tmp (pm : Int × Int) => (tmp * (pm.1 % pi) + (pm.2 % pi)) % pi) t
      ≡ t * accP rest + accV rest [ZMOD pi] := by
  intro rest
  induction rest with
  | nil => intro t; simp [accP, accV]
  | cons pm rest ih =>
    intro t
    simp only [List.foldl_cons]
    refine (ih _).trans ?_
    have h : (t * (pm.1 % pi) + (pm.2 % pi)) % pi ≡ t * pm.1 + pm.2 [ZMOD pi] :=
      (Int.mod_modEq _ _).trans (((Int.ModEq.refl t).mul (Int.mod_modEq _ _)).add (Int.mod_modEq _ _))
    have h2 := (h.mul_right (accP rest)).add_right (accV rest)
    refine h2.trans ?_
    simp only [accP, accV]
    have : (t * pm.1 + pm.2) * accP rest + accV rest = t * (pm.1 * accP rest) + (accV rest + pm.2 * accP rest) := by ring
    rw [this]

theorem rnsHorner_modEq (pi : Int) (pm : Int × Int) (rest : List (Int × Int)) :
    rnsHorner pi (pm :: rest) ≡ accV (pm :: rest) [ZMOD pi] := by
  obtain ⟨p, m⟩ := pm
  simp only [rnsHorner]
  refine (rnsHorner_fold pi rest (m % pi)).trans ?_
  simp only [accV]
  rw [add_comm]
  exact ((Int.mod_modEq m pi).mul_right _).add_left _

/-! ### products computed by `ComputeCk` -/

theorem intProdMod_fold (pk : Int) : ∀ (rest : List Int) (t : Int),
    rest.foldl (fun pr pi => (pr * pi) % pk) t ≡ t * prod rest [ZMOD pk] := by
  intro rest
  induction rest with
  | nil => intro t; simp [prod]
  | cons a rest ih =>
    intro t
    simp only [List.foldl_cons]
    refine (ih _).trans ?_
    have h : (t * a) % pk ≡ t * a [ZMOD pk] := Int.mod_modEq _ _
    refine (h.mul_right _).trans ?_
    simp only [prod]
    rw [mul_assoc]

theorem intProdMod_modEq (pk : Int) (pre : List Int) : intProdMod pk pre ≡ prod pre [ZMOD pk] := by
  cases pre with
  | nil => simp [intProdMod, prod]
  | cons p0 rest => simp only [intProdMod, prod]; exact intProdMod_fold pk rest p0

theorem intProdMod_fold_nonneg (pk : Int) (hpk : 0 < pk) : ∀ (rest : List Int) (t : Int), 0 ≤ t →
    0 ≤ rest.foldl (fun pr pi => (pr * pi) % pk) t := by
  intro rest
  induction rest with
  | nil => intro t ht; simpa using ht
  | cons a rest ih =>
    intro t _
    simp only [List.foldl_cons]
    exact ih _ (Int.emod_nonneg _ (ne_of_gt hpk))

theorem intProdMod_nonneg (pk : Int) (hpk : 0 < pk) (pre : List Int) (hpre : ∀ p ∈ pre, 0 < p) :
    0 ≤ intProdMod pk pre := by
  cases pre with
  | nil => simp [intProdMod]
  | cons p0 rest =>
    simp only [intProdMod]
    exact intProdMod_fold_nonneg pk hpk rest p0 (le_of_lt (hpre p0 (List.mem_cons_self ..)))

theorem rnsProdMod_fold (pk : Int) : ∀ (rest : List Int) (t : Int),
    rest.foldl (fun pr pi => (pr * (pi % pk)) % pk) t ≡ t * prod rest [ZMOD pk] := by
  intro rest
  induction rest with
  | nil => intro t; simp [prod]
  | cons a rest ih =>
    intro t
    simp only [List.foldl_cons]
    refine (ih _).trans ?_
    have h : (t * (a % pk)) % pk ≡ t * a [ZMOD pk] :=
      (Int.mod_modEq _ _).trans ((Int.ModEq.refl t).mul (Int.mod_modEq _ _))
    refine (h.mul_right _).trans ?_
    simp only [prod]
    rw [mul_assoc]

theorem rnsProdMod_modEq (pk : Int) (pre : List Int) : rnsProdMod pk pre ≡ prod pre [ZMOD pk] := by
  cases pre with
  | nil => simp only [rnsProdMod, prod]; exact Int.mod_modEq _ _
  | cons p0 rest =>
    simp only [rnsProdMod, prod]
    exact (rnsProdMod_fold pk rest (p0 % pk)).trans ((Int.mod_modEq p0 pk).mul_right _)

theorem rnsProdMod_nonneg (pk : Int) (hpk : 0 < pk) (pre : List Int) : 0 ≤ rnsProdMod pk pre := by
  cases pre with
  | nil => simp only [rnsProdMod]; exact Int.emod_nonneg _ (ne_of_gt hpk)
  | cons p0 rest =>
    simp only [rnsProdMod]
    exact intProdMod_fold_nonneg' pk hpk rest _ (Int.emod_nonneg _ (ne_of_gt hpk))
where
  intProdMod_fold_nonneg' (pk : Int) (hpk : 0 < pk) : ∀ (rest : List Int) (t : Int), 0 ≤ t →
      0 ≤ rest.foldl (fun pr pi => (pr * (pi % pk)) % pk) t := by
    intro rest
    induction rest with
    | nil => intro t ht; simpa using ht
    | cons a rest ih =>
      intro t _
      simp only [List.foldl_cons]
      exact ih _ (Int.emod_nonneg _ (ne_of_gt hpk))

/-! ### one Garner step -/

/-- if `c` inverts `x ≡ P`, the digit `m' ≡ (r - H) c` with `H ≡ V` extends the value `V` to one that is `≡ r`. -/
theorem garner_step {p r H V c x P m' : Int}
    (hm : m' ≡ (r - H) * c [ZMOD p])
    (hH : H ≡ V [ZMOD p]) (hx : x ≡ P [ZMOD p]) (hc : c * x ≡ 1 [ZMOD p]) :
    V + m' * P ≡ r [ZMOD p] := by
  have h1 : m' ≡ (r - V) * c [ZMOD p] := hm.trans (((Int.ModEq.refl r).sub hH).mul_right c)
  have h2 : m' * P ≡ (r - V) * c * x [ZMOD p] := h1.mul hx.symm
  have h3 : (r - V) * c * x ≡ (r - V) * 1 [ZMOD p] := by
    rw [mul_assoc]; exact (Int.ModEq.refl _).mul hc
  have h4 := (Int.ModEq.refl V).add (h2.trans h3)
  have e : V + (r - V) * 1 = r := by ring
  rw [e] at h4
  exact h4

/-- an invertible-mod-`p` witness from coprimality -/
theorem exists_inv_of_isCoprime {p P : Int} (h : IsCoprime p P) : ∃ y : Int, (y * P) % p = 1 % p := by
  obtain ⟨a, b, hab⟩ := h
  refine ⟨b, ?_⟩
  have : b * P ≡ 1 [ZMOD p] := by
    apply Int.ModEq.symm
    rw [Int.modEq_iff_dvd]
    exact ⟨-a, by linear_combination hab⟩
  exact this

theorem cof_inverts {cof : Int → Int → Int} (hcof : CofOK cof) {p x P : Int} (hp : 0 < p) (hx0 : 0 ≤ x)
    (hx : x ≡ P [ZMOD p]) (hco : IsCoprime p P) : cof p x * x ≡ 1 [ZMOD p] := by
  obtain ⟨y, hy⟩ := exists_inv_of_isCoprime hco
  have hy' : y * x ≡ 1 [ZMOD p] := ((Int.ModEq.refl y).mul hx).trans hy
  exact hcof p x y hp hx0 hy'

end Givaro.Lemmas.CRT
