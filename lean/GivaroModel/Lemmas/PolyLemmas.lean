/-
C08 — lemmas tying the list model (`Model/Poly.lean`) and the reference arithmetic (`Spec/PolySpec.lean`) to
Mathlib's `Polynomial K` through `toPoly l = Σ lᵢ Xⁱ`.
-/
import Mathlib.Algebra.Polynomial.Basic
import Mathlib.Algebra.Polynomial.Coeff
import Mathlib.Algebra.Polynomial.Eval.Defs
import Mathlib.Algebra.Polynomial.Derivative
import Mathlib.Algebra.Polynomial.FieldDivision
import Mathlib.Tactic.Ring
import Mathlib.Tactic.LinearCombination
import GivaroModel.Model.Poly
import GivaroModel.Spec.PolySpec

open Polynomial
set_option linter.unusedSectionVars false

namespace Givaro.Lemmas.Poly
open Givaro.Model.Poly

variable {K : Type} [Field K] [DecidableEq K]

/-- the polynomial denoted by a coefficient list (least significant first) -/
noncomputable def toPoly : List K → K[X]
  | [] => 0
  | a :: P => C a + X * toPoly P

@[simp] theorem toPoly_nil : toPoly ([] : List K) = 0 := rfl
@[simp] theorem toPoly_cons (a : K) (P : List K) : toPoly (a :: P) = C a + X * toPoly P := rfl

/-- no leading zero coefficient -/
def Normal (P : List K) : Prop := P.getLast? ≠ some 0

theorem coeff_toPoly (P : List K) (k : Nat) : (toPoly P).coeff k = P.getD k 0 := by
  induction P generalizing k with
  | nil => simp
  | cons a P ih =>
    cases k with
    | zero => simp
    | succ k => simp [coeff_X_mul, ih, coeff_C_succ]

theorem toPoly_setdegree (P : List K) : toPoly (setdegree P) = toPoly P := by
  induction P with
  | nil => rfl
  | cons a P ih =>
    unfold setdegree
    split
    · next h =>
      rw [h] at ih
      by_cases ha : a = 0
      · simp [ha, ← ih]
      · simp [ha, ← ih]
    · next b Q h =>
      rw [h] at ih
      simp only [toPoly_cons] at ih ⊢
      rw [ih]

theorem setdegree_normal (P : List K) : Normal (setdegree P) := by
  induction P with
  | nil => simp [setdegree, Normal]
  | cons a P ih =>
    unfold setdegree
    split
    · next h =>
      by_cases ha : a = 0
      · simp [ha, Normal]
      · simp [ha, Normal]
    · next b Q h =>
      rw [h] at ih
      simpa [Normal, List.getLast?_cons_cons] using ih

theorem toPoly_eq_zero_of_normal : ∀ (P : List K), Normal P → toPoly P = 0 → P = []
  | [], _, _ => rfl
  | a :: P, hn, h0 => by
    exfalso
    have ha : a = 0 := by
      have := congrArg (fun p => p.coeff 0) h0
      simpa using this
    have hP : toPoly P = 0 := by
      rw [toPoly_cons, ha] at h0
      simpa using h0
    have hPn : Normal P := by
      cases P with
      | nil => simp [Normal]
      | cons b Q => simpa [Normal, List.getLast?_cons_cons] using hn
    have := toPoly_eq_zero_of_normal P hPn hP
    subst this
    simp [Normal, ha] at hn

theorem toPoly_injective_of_normal : ∀ (P Q : List K), Normal P → Normal Q → toPoly P = toPoly Q → P = Q
  | [], Q, _, hq, h => (toPoly_eq_zero_of_normal Q hq h.symm).symm
  | a :: P, [], hp, _, h => toPoly_eq_zero_of_normal (a :: P) hp h
  | a :: P, b :: Q, hp, hq, h => by
    have hab : a = b := by
      have := congrArg (fun p => p.coeff 0) h
      simpa using this
    have hPQ : toPoly P = toPoly Q := by
      rw [toPoly_cons, toPoly_cons, hab] at h
      have h2 : X * toPoly P = X * toPoly Q := add_left_cancel h
      exact mul_left_cancel₀ X_ne_zero h2
    have hPn : Normal P := by
      cases P with
      | nil => simp [Normal]
      | cons c P' => simpa [Normal, List.getLast?_cons_cons] using hp
    have hQn : Normal Q := by
      cases Q with
      | nil => simp [Normal]
      | cons c Q' => simpa [Normal, List.getLast?_cons_cons] using hq
    rw [hab, toPoly_injective_of_normal P Q hPn hQn hPQ]

/-- normal forms are canonical: two lists denote the same polynomial iff their normal forms coincide -/
theorem setdegree_eq_iff (P Q : List K) : setdegree P = setdegree Q ↔ toPoly P = toPoly Q := by
  constructor
  · intro h; rw [← toPoly_setdegree P, ← toPoly_setdegree Q, h]
  · intro h
    apply toPoly_injective_of_normal _ _ (setdegree_normal P) (setdegree_normal Q)
    rw [toPoly_setdegree, toPoly_setdegree, h]

/-! ### additive forms -/

theorem toPoly_add (P Q : List K) : toPoly (add P Q) = toPoly P + toPoly Q := by
  induction P generalizing Q with
  | nil => simp [add]
  | cons a P ih =>
    cases Q with
    | nil => simp [add]
    | cons b Q => simp only [add, toPoly_cons, ih, C_add]; ring

theorem toPoly_neg (P : List K) : toPoly (neg P) = - toPoly P := by
  induction P with
  | nil => simp [neg]
  | cons a P ih =>
    simp only [neg, List.map_cons, toPoly_cons, C_neg] at ih ⊢
    rw [ih]; ring

theorem toPoly_sub (P Q : List K) : toPoly (sub P Q) = toPoly P - toPoly Q := by
  induction P generalizing Q with
  | nil =>
    cases Q with
    | nil => simp [sub]
    | cons b Q => simp only [sub, toPoly_neg]; simp
  | cons a P ih =>
    cases Q with
    | nil => simp [sub]
    | cons b Q => simp only [sub, toPoly_cons, ih, C_sub]; ring

theorem isEmpty_toPoly {P : List K} (h : P.isEmpty = true) : toPoly P = 0 := by
  cases P with
  | nil => rfl
  | cons a P => simp at h

theorem toPoly_addin (R P : List K) : toPoly (addin R P) = toPoly R + toPoly P := by
  unfold addin
  split
  · next h => simp [isEmpty_toPoly h]
  · split
    · next h => simp [isEmpty_toPoly h, assign, toPoly_setdegree]
    · split
      · rw [toPoly_add]; ring
      · rw [toPoly_add]

theorem toPoly_subin (R P : List K) : toPoly (subin R P) = toPoly R - toPoly P := by
  unfold subin
  split
  · next h => simp [isEmpty_toPoly h]
  · split
    · next h => simp [isEmpty_toPoly h, toPoly_neg]
    · split
      · rw [toPoly_setdegree, toPoly_setdegree, toPoly_sub]
      · rw [toPoly_setdegree, toPoly_sub]

/-! ### scalar forms -/

theorem toPoly_mulVal (P : List K) (u : K) : toPoly (mulVal P u) = toPoly P * C u := by
  induction P with
  | nil => simp [mulVal]
  | cons a P ih =>
    simp only [mulVal, List.map_cons, toPoly_cons, C_mul] at ih ⊢
    rw [ih]; ring

theorem toPoly_divVal (P : List K) (u : K) : toPoly (divVal P u) = toPoly P * C u⁻¹ := by
  unfold divVal
  rw [toPoly_setdegree]
  induction P with
  | nil => simp
  | cons a P ih =>
    simp only [List.map_cons, toPoly_cons, div_eq_mul_inv, C_mul] at ih ⊢
    rw [ih]; ring

theorem toPoly_addVal (P : List K) (v : K) : toPoly (addVal P v) = toPoly P + C v := by
  unfold addVal
  have h := toPoly_setdegree P
  split
  · next e => rw [e] at h; simp [← h]
  · next a t e => rw [e] at h; simp only [toPoly_cons, C_add] at h ⊢; rw [← h]; ring

theorem toPoly_valAdd (v : K) (P : List K) : toPoly (valAdd v P) = C v + toPoly P := by
  unfold valAdd
  have h := toPoly_setdegree P
  split
  · next e => rw [e] at h; simp [← h]
  · next a t e => rw [e] at h; simp only [toPoly_cons, C_add] at h ⊢; rw [← h]; ring

theorem toPoly_subVal (P : List K) (v : K) : toPoly (subVal P v) = toPoly P - C v := by
  unfold subVal
  have h := toPoly_setdegree P
  split
  · next e => rw [e] at h; simp [← h]
  · next a t e => rw [e] at h; simp only [toPoly_cons, C_sub] at h ⊢; rw [← h]; ring

theorem toPoly_valSub (v : K) (P : List K) : toPoly (valSub v P) = C v - toPoly P := by
  unfold valSub
  have h := toPoly_setdegree P
  split
  · next e => rw [e] at h; simp [← h]
  · next a t e => rw [e] at h; simp only [toPoly_cons, C_sub, toPoly_neg] at h ⊢; rw [← h]; ring

theorem toPoly_addinVal (R : List K) (v : K) : toPoly (addinVal R v) = toPoly R + C v := by
  cases R with
  | nil => simp [addinVal]
  | cons a t => simp only [addinVal, toPoly_cons, C_add]; ring

theorem toPoly_subinVal (R : List K) (v : K) : toPoly (subinVal R v) = toPoly R - C v := by
  cases R with
  | nil => simp [subinVal]
  | cons a t => simp only [subinVal, toPoly_cons, C_sub]; ring

/-! ### evaluation, derivative -/

theorem foldr_horner (L : List K) (v : K) :
    L.foldr (fun a acc => acc * v + a) 0 = (toPoly L).eval v := by
  induction L with
  | nil => simp
  | cons a L ih => simp only [List.foldr_cons, ih, toPoly_cons, eval_add, eval_C, eval_mul, eval_X]; ring

theorem eval_eq (P : List K) (v : K) : Model.Poly.eval P v = (toPoly P).eval v := by
  unfold Model.Poly.eval
  rw [foldr_horner, toPoly_setdegree]

theorem toPoly_diffFrom (c : K) (L : List K) :
    toPoly (diffFrom c L) = C (c + 1) * toPoly L + X * derivative (toPoly L) := by
  induction L generalizing c with
  | nil => simp [diffFrom]
  | cons a L ih =>
    simp only [diffFrom, toPoly_cons, ih, derivative_add, derivative_C, derivative_mul, derivative_X, C_mul, C_add, C_1]
    ring

theorem toPoly_diff (Q : List K) : toPoly (diff Q) = derivative (toPoly Q) := by
  unfold diff
  have h := toPoly_setdegree Q
  split
  · next e => rw [e] at h; simp [← h]
  · next a t e =>
    rw [e] at h
    rw [← h, toPoly_diffFrom]
    simp only [toPoly_cons, derivative_add, derivative_C, derivative_mul, derivative_X, C_add, C_0, C_1]
    ring

/-! ### schoolbook product on ranges -/

theorem zipAxpy_length (a : K) (R Q : List K) : (zipAxpy a R Q).length = R.length := by
  induction R generalizing Q with
  | nil => cases Q <;> simp [zipAxpy]
  | cons r R ih => cases Q with
    | nil => simp [zipAxpy]
    | cons b Q => simp [zipAxpy, ih]

theorem zipAxpy_getD (a : K) (R Q : List K) (k : Nat) :
    (zipAxpy a R Q).getD k 0 = R.getD k 0 + (if k < R.length then a * Q.getD k 0 else 0) := by
  induction R generalizing Q k with
  | nil => cases Q <;> simp [zipAxpy]
  | cons r R ih => cases Q with
    | nil => simp [zipAxpy]
    | cons b Q => cases k with
      | zero => simp [zipAxpy]
      | succ k =>
        simp only [zipAxpy, List.getD_cons_succ, List.length_cons, Nat.add_lt_add_iff_right]
        exact ih Q k

theorem axpyRow_length (a : K) (Q : List K) (off : Nat) (R : List K) : (axpyRow a Q off R).length = R.length := by
  induction off generalizing R with
  | zero => simp [axpyRow, zipAxpy_length]
  | succ off ih => cases R with
    | nil => simp [axpyRow]
    | cons r R => simp [axpyRow, ih]

theorem axpyRow_getD (a : K) (Q : List K) (off : Nat) (R : List K) (k : Nat) :
    (axpyRow a Q off R).getD k 0 = R.getD k 0 + (if off ≤ k ∧ k < R.length then a * Q.getD (k - off) 0 else 0) := by
  induction off generalizing R k with
  | zero =>
    simp only [axpyRow, Nat.zero_le, true_and, Nat.sub_zero]
    exact zipAxpy_getD a R Q k
  | succ off ih => cases R with
    | nil => simp [axpyRow]
    | cons r R => cases k with
      | zero => simp [axpyRow]
      | succ k =>
        simp only [axpyRow, List.getD_cons_succ, List.length_cons, Nat.add_lt_add_iff_right, Nat.add_le_add_iff_right,
          Nat.add_sub_add_right]
        exact ih R k

theorem row0_length (a : K) (n : Nat) (Q : List K) : (row0 a n Q).length = n := by
  induction n generalizing Q with
  | zero => simp [row0]
  | succ n ih => cases Q <;> simp [row0, ih]

theorem row0_getD (a : K) (n : Nat) (Q : List K) (k : Nat) (hk : k < n) :
    (row0 a n Q).getD k 0 = a * Q.getD k 0 := by
  induction n generalizing Q k with
  | zero => omega
  | succ n ih => cases Q with
    | nil => cases k with
      | zero => simp [row0]
      | succ k => simp only [row0, List.getD_cons_succ]; rw [ih [] k (by omega)]; simp
    | cons b Q => cases k with
      | zero =>
        simp only [row0, List.getD_cons_zero]
        by_cases ha : a = 0
        · simp [ha]
        · by_cases hb : b = 0
          · simp [ha, hb]
          · simp [ha, hb]
      | succ k => simp only [row0, List.getD_cons_succ]; exact ih Q k (by omega)

theorem rowsFrom_length (Q : List K) (off : Nat) (P R : List K) : (rowsFrom Q off P R).length = R.length := by
  induction P generalizing off R with
  | nil => simp [rowsFrom]
  | cons a P ih =>
    simp only [rowsFrom]
    rw [ih]
    split
    · rfl
    · exact axpyRow_length _ _ _ _

theorem coeff_shift_scale (a : K) (Q : List K) (off k : Nat) :
    (X ^ off * (C a * toPoly Q)).coeff k = if off ≤ k then a * Q.getD (k - off) 0 else 0 := by
  rw [coeff_X_pow_mul']
  split
  · rw [coeff_C_mul, coeff_toPoly]
  · rfl

theorem rowsFrom_getD (Q : List K) (off : Nat) (P R : List K) (k : Nat) (hk : k < R.length) :
    (rowsFrom Q off P R).getD k 0 = R.getD k 0 + (X ^ off * (toPoly P * toPoly Q)).coeff k := by
  induction P generalizing off R with
  | nil => simp [rowsFrom]
  | cons a P ih =>
    simp only [rowsFrom]
    have hsplit : X ^ off * (toPoly (a :: P) * toPoly Q)
        = X ^ off * (C a * toPoly Q) + X ^ (off + 1) * (toPoly P * toPoly Q) := by
      simp only [toPoly_cons]; ring
    rw [hsplit, coeff_add, coeff_shift_scale]
    by_cases ha : a = 0
    · simp only [ha, if_true, zero_mul, ite_self, zero_add]
      exact ih (off + 1) R hk
    · simp only [ha, if_false]
      rw [ih (off + 1) _ (by rw [axpyRow_length]; exact hk), axpyRow_getD]
      by_cases ho : off ≤ k
      · simp [ho, hk]; ring
      · simp [ho]

/-- Tier A `stdmul_exact` (range form): the range written by `stdmul(R,Rbeg,Rend,P,Pbeg,Pend,Q,Qbeg,Qend)` has the
    length of the R range and holds the coefficients `0 … n-1` of the product, i.e. `P·Q mod X^n` -/
theorem stdmulR_exact (n : Nat) (P Q : List K) (hn : 0 < n) (hP : P ≠ []) :
    (stdmulR n P Q).length = n ∧ ∀ k, k < n → (stdmulR n P Q).getD k 0 = (toPoly P * toPoly Q).coeff k := by
  cases P with
  | nil => exact absurd rfl hP
  | cons a Pt =>
    have hn0 : n ≠ 0 := by omega
    simp only [stdmulR, hn0, if_false]
    refine ⟨by rw [rowsFrom_length, row0_length], ?_⟩
    intro k hk
    rw [rowsFrom_getD _ _ _ _ _ (by rw [row0_length]; exact hk), row0_getD _ _ _ _ hk]
    have : toPoly (a :: Pt) * toPoly Q = C a * toPoly Q + X ^ 1 * (toPoly Pt * toPoly Q) := by
      simp only [toPoly_cons]; ring
    rw [this, coeff_add, coeff_C_mul, coeff_toPoly]

theorem getD_of_le (L : List K) (k : Nat) (h : L.length ≤ k) : L.getD k 0 = 0 := by
  simp [List.getD_eq_getElem?_getD, List.getElem?_eq_none h]

theorem coeff_toPoly_of_le (P : List K) (k : Nat) (h : P.length ≤ k) : (toPoly P).coeff k = 0 := by
  rw [coeff_toPoly]; exact getD_of_le _ _ h

theorem coeff_mul_toPoly_of_le (P Q : List K) (k : Nat) (h : P.length + Q.length ≤ k + 1) :
    (toPoly P * toPoly Q).coeff k = 0 := by
  rw [coeff_mul]
  apply Finset.sum_eq_zero
  intro ij hij
  rw [Finset.mem_antidiagonal] at hij
  by_cases h1 : P.length ≤ ij.1
  · rw [coeff_toPoly_of_le P _ h1, zero_mul]
  · rw [coeff_toPoly_of_le Q ij.2 (by omega), mul_zero]

/-- a list of length `n` whose first `n` entries are the coefficients of `f`, where `f` has no coefficient from `n` on, denotes `f` -/
theorem toPoly_eq_of_coeff (L : List K) (f : K[X]) (h1 : ∀ k, k < L.length → L.getD k 0 = f.coeff k)
    (h2 : ∀ k, L.length ≤ k → f.coeff k = 0) : toPoly L = f := by
  ext k
  rw [coeff_toPoly]
  by_cases hk : k < L.length
  · exact h1 k hk
  · rw [getD_of_le _ _ (by omega), h2 k (by omega)]

theorem pad_of_length_eq (n : Nat) (L : List K) (h : L.length = n) : pad n L = L := by
  unfold pad
  rw [List.take_append_of_le_length (by omega), List.take_of_length_le (by omega)]

/-- the public `stdmul(R,P,Q)` returns the exact product, for all inputs -/
theorem toPoly_stdmul (P Q : List K) : toPoly (stdmul P Q) = toPoly P * toPoly Q := by
  unfold stdmul
  split
  · next h => rcases h with h | h <;> simp [isEmpty_toPoly h]
  · next h =>
    have hP : P ≠ [] := fun e => h (Or.inl (by simp [e]))
    have hQ : Q ≠ [] := fun e => h (Or.inr (by simp [e]))
    have hp := List.length_pos_iff.mpr hP
    have hq := List.length_pos_iff.mpr hQ
    have hn : 0 < P.length + Q.length - 1 := by omega
    obtain ⟨hl, hc⟩ := stdmulR_exact _ P Q hn hP
    rw [toPoly_setdegree, pad_of_length_eq _ _ hl]
    apply toPoly_eq_of_coeff
    · intro k hk; rw [hl] at hk; exact hc k hk
    · intro k hk; rw [hl] at hk; exact coeff_mul_toPoly_of_le P Q k (by omega)

theorem mulR_of_le (thr fuel n : Nat) (P Q : List K) (h : P.length ≤ thr ∨ Q.length ≤ thr) :
    mulR thr fuel n P Q = stdmulR n P Q := by
  cases fuel with
  | zero => rfl
  | succ f =>
    simp only [mulR]
    rw [if_neg (by omega)]

end Givaro.Lemmas.Poly
