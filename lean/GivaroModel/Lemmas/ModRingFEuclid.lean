/-
The floating `extended_euclid` (modular-general.inl:117, signed cofactors, `q = floor(u3/v3)`), used by
inv / div / isUnit of `Modular<float|double>`, `ModularBalanced<float|double>` and `ModularExtended`.

Loop invariant: `u1·a ≡ u3`, `v1·a ≡ v3 (mod b)`; the cofactors have opposite signs and
`|u1|·v3 + |v1|·u3 = b`, `|u1| ≤ |v1|` — hence every cofactor and every product `q·v1`, `q·v3` is an
integer of magnitude at most `b`, exactly representable (no rounding: the `fit`s of the model never
fail); the divisor set of `(u3, v3)` is that of `(b, a)`; `u3·v3` at least halves at every step, so the
loop ends within `2·mantissa + 1` iterations.
-/
import GivaroModel.Lemmas.ModRingFloat
namespace Givaro.Model.ModRing
open Givaro.Spec.ModRing

structure FInv (a b : Int) (st : FCfg.FEu) (s : Int) : Prop where
  v3nn : 0 ≤ st.v3
  v3lt : st.v3 < st.u3
  u3b : st.u3 ≤ b
  c1 : b ∣ st.u1 * a - st.u3
  c2 : b ∣ st.v1 * a - st.v3
  sgn : s = 1 ∨ s = -1
  su : 0 ≤ s * st.u1
  sv : s * st.v1 ≤ 0
  det : s * st.u1 * st.v3 - s * st.v1 * st.u3 = b
  mono : s * st.u1 ≤ -(s * st.v1)
  dv : ∀ g : Int, (g ∣ st.u3 ∧ g ∣ st.v3) ↔ (g ∣ b ∧ g ∣ a)

/-- one iteration on a state with `v3 ≠ 0`: the four `fit`s succeed and the invariant is kept (sign flipped) -/
theorem feu_step {k : FCfg} {a b : Int} (fsok : ∀ x, -b ≤ x → x ≤ b → k.fS x = some x)
    {st : FCfg.FEu} {s : Int} (h : FInv a b st s) (hz : st.v3 ≠ 0) :
    ∃ st', (do
        let q := Int.fdiv st.u3 st.v3
        let qv ← k.fS (q * st.v1)
        let v1' ← k.fS (st.u1 - qv)
        let qw ← k.fS (q * st.v3)
        let v3' ← k.fS (st.u3 - qw)
        pure (⟨st.v1, v1', st.v3, v3'⟩ : FCfg.FEu)) = some st'
      ∧ FInv a b st' (-s) ∧ 2 * (st'.u3 * st'.v3) < st.u3 * st.v3 := by
  have hv3 : 0 < st.v3 := by have := h.v3nn; omega
  have hu3 : 0 < st.u3 := by have := h.v3lt; omega
  have hq : Int.fdiv st.u3 st.v3 = st.u3 / st.v3 := Int.fdiv_eq_ediv_of_nonneg _ (Int.le_of_lt hv3)
  have hqr : st.u3 / st.v3 * st.v3 ≤ st.u3 := Int.ediv_mul_le _ hz
  have hlt := Int.lt_ediv_add_one_mul_self st.u3 hv3
  have hmod : st.u3 - st.u3 / st.v3 * st.v3 = st.u3 % st.v3 := by rw [Int.emod_def]; ring
  have hm0 := Int.emod_nonneg st.u3 hz
  have hm1 := Int.emod_lt_of_pos st.u3 hv3
  have hq0 : 0 ≤ st.u3 / st.v3 := Int.ediv_nonneg (Int.le_of_lt hu3) (Int.le_of_lt hv3)
  have hv3lt := h.v3lt
  have hu3b := h.u3b
  have hsu := h.su
  have hsv := h.sv
  have hdet := h.det
  have hmono := h.mono
  have hc1 := h.c1
  have hc2 := h.c2
  have hdv := h.dv
  rw [hq]
  generalize st.u3 / st.v3 = q at *
  generalize st.u3 % st.v3 = m at *
  have hq1 : 1 ≤ q := by
    by_contra hc
    have : q = 0 := by omega
    rw [this] at hlt; omega
  -- magnitudes: s*(u1 - q v1) = s u1 - q (s v1) ≥ 0 is |v1'|; |q v1| ≤ |v1'| ≤ b
  have hqsv : q * (s * st.v1) ≤ 0 := by nlinarith
  have hnew : -s * st.v1 * m - (-s) * (st.u1 - q * st.v1) * st.v3 = b := by
    have : m = st.u3 - q * st.v3 := by omega
    rw [this]; linarith [hdet, (by ring : -s * st.v1 * (st.u3 - q * st.v3) - (-s) * (st.u1 - q * st.v1) * st.v3
      = s * st.u1 * st.v3 - s * st.v1 * st.u3)]
  -- |v1'| * v3 ≤ b with v3 ≥ 1
  have hv1'b : s * (st.u1 - q * st.v1) ≤ b := by
    have h1 : 0 ≤ -s * st.v1 * m := by nlinarith
    have h2 : 0 ≤ s * (st.u1 - q * st.v1) := by nlinarith
    nlinarith [Int.mul_nonneg h2 (show 0 ≤ st.v3 - 1 by omega)]
  have hv1'0 : 0 ≤ s * (st.u1 - q * st.v1) := by nlinarith
  have habs : ∀ x : Int, 0 ≤ s * x → s * x ≤ b → -b ≤ x ∧ x ≤ b := by
    intro x h0 h1
    rcases h.sgn with hs | hs <;> subst hs <;> constructor <;> omega
  have habs' : ∀ x : Int, s * x ≤ 0 → -b ≤ s * x → -b ≤ x ∧ x ≤ b := by
    intro x h0 h1
    rcases h.sgn with hs | hs <;> subst hs <;> constructor <;> omega
  have hqv1 : -b ≤ q * st.v1 ∧ q * st.v1 ≤ b := by
    apply habs' (q * st.v1)
    · have : s * (q * st.v1) = q * (s * st.v1) := by ring
      rw [this]; exact hqsv
    · have : s * (q * st.v1) = q * (s * st.v1) := by ring
      rw [this]; nlinarith
  have hv1' := habs _ hv1'0 hv1'b
  have hqv3 : 0 ≤ q * st.v3 := Int.mul_nonneg hq0 (Int.le_of_lt hv3)
  refine ⟨⟨st.v1, st.u1 - q * st.v1, st.v3, m⟩, ?_, ?_, ?_⟩
  · dsimp only
    rw [fsok _ hqv1.1 hqv1.2]
    simp only [Option.bind_eq_bind, Option.bind_some]
    rw [fsok _ hv1'.1 hv1'.2]
    simp only [Option.bind_some]
    rw [fsok (q * st.v3) (by omega) (by omega)]
    simp only [Option.bind_some]
    rw [hmod, fsok m (by omega) (by omega)]
    rfl
  · refine ⟨hm0, hm1, by show st.v3 ≤ b; omega, hc2, ?_, ?_, ?_, ?_, ?_, ?_, ?_⟩
    · show b ∣ (st.u1 - q * st.v1) * a - m
      have e : (st.u1 - q * st.v1) * a - m = (st.u1 * a - st.u3) - q * (st.v1 * a - st.v3) := by
        have : m = st.u3 - q * st.v3 := by omega
        rw [this]; ring
      rw [e]; exact Int.dvd_sub hc1 (Dvd.dvd.mul_left hc2 _)
    · rcases h.sgn with hs | hs <;> subst hs <;> simp
    · show 0 ≤ -s * st.v1; linarith
    · show -s * (st.u1 - q * st.v1) ≤ 0; linarith
    · exact hnew
    · show -s * st.v1 ≤ -(-s * (st.u1 - q * st.v1))
      nlinarith
    · intro g
      show (g ∣ st.v3 ∧ g ∣ m) ↔ _
      rw [← hdv g]
      have hm' : m = st.u3 - q * st.v3 := by omega
      constructor
      · rintro ⟨h1, h2⟩
        refine ⟨?_, h1⟩
        have : st.u3 = m + q * st.v3 := by omega
        rw [this]; exact Int.dvd_add h2 (Dvd.dvd.mul_left h1 _)
      · rintro ⟨h1, h2⟩
        refine ⟨h2, ?_⟩
        rw [hm']; exact Int.dvd_sub h1 (Dvd.dvd.mul_left h2 _)
  · -- 2·v3·m < u3·v3  since  2m < u3
    show 2 * (st.v3 * m) < st.u3 * st.v3
    have h2m : 2 * m < st.u3 := by nlinarith
    nlinarith

/-- the loop terminates with the invariant, whenever `u3·v3 < 2^fuel` -/
theorem feuLoop_spec {k : FCfg} {a b : Int} (fsok : ∀ x, -b ≤ x → x ≤ b → k.fS x = some x) :
    ∀ (fuel : Nat) (st : FCfg.FEu) (s : Int), FInv a b st s → st.u3 * st.v3 < (2 : Int) ^ fuel →
      ∃ st' s', k.feuLoop fuel st = some st' ∧ FInv a b st' s' ∧ st'.v3 = 0 := by
  intro fuel
  induction fuel with
  | zero =>
    intro st s h hf
    have h1 := h.v3nn; have h2 := h.v3lt
    have : st.v3 = 0 := by
      by_contra hc
      have : 0 < st.u3 * st.v3 := Int.mul_pos (by omega) (by omega)
      simp at hf; omega
    exact ⟨st, s, rfl, h, this⟩
  | succ n ih =>
    intro st s h hf
    by_cases hz : st.v3 = 0
    · exact ⟨st, s, by unfold FCfg.feuLoop; rw [if_pos hz], h, hz⟩
    · obtain ⟨st', hst, hinv, hdec⟩ := feu_step fsok h hz
      have hf' : st'.u3 * st'.v3 < (2 : Int) ^ n := by
        rw [pow_succ] at hf; omega
      obtain ⟨st'', s'', hl, hi, hz'⟩ := ih st' (-s) hinv hf'
      refine ⟨st'', s'', ?_, hi, hz'⟩
      unfold FCfg.feuLoop
      rw [if_neg hz]
      simp only [Option.bind_eq_bind] at hst ⊢
      -- the body is the `do` block of `feu_step` followed by the recursive call
      have := congrArg (fun o => Option.bind o (k.feuLoop n)) hst
      simp only [Option.bind_some] at this
      rw [← hl, ← this]
      simp only [Option.bind_assoc, Option.pure_def, Option.bind_some]

/-- `extended_euclid(x,d,a,b)` on `-b < a < b`, `2 ≤ b ≤ 2^mantissa`: no intermediate is rounded,
    `d = gcd(a,b)`, `|x| ≤ b`, `x·a ≡ d (mod b)`, and `|x| < b` when `d = 1` -/
theorem feuclid_spec {k : FCfg} {a b : Int} (fsok : ∀ x, -b ≤ x → x ≤ b → k.fS x = some x)
    (ha : -b < a ∧ a < b) (hb : 2 ≤ b) (hbm : b * b < (2 : Int) ^ (2 * k.ms + 3)) :
    ∃ x d, k.euclid a b = some (x, d) ∧ d = (Int.gcd a b : Int) ∧ -b ≤ x ∧ x ≤ b ∧ b ∣ x * a - d
      ∧ (d = 1 → -b < x ∧ x < b) := by
  -- first iteration: q = floor(a/b) ∈ {0,-1}; state (0, 1, b, a mod b)
  have hbz : b ≠ 0 := by omega
  have hq : Int.fdiv a b = a / b := Int.fdiv_eq_ediv_of_nonneg _ (by omega)
  have hm0 := Int.emod_nonneg a hbz
  have hm1 := Int.emod_lt_of_pos a (by omega : 0 < b)
  have hdef := Int.emod_def a b
  have hqv : a / b = 0 ∨ a / b = -1 := by
    have h1 := Int.emod_add_mul_ediv a b
    by_cases h0 : 0 ≤ a
    · left; exact Int.ediv_eq_zero_of_lt h0 ha.2
    · right
      have : a % b = a + b := emod_unique (by omega) (by omega) (-1) (by ring)
      rw [this] at h1
      have : b * (a / b) = b * (-1) := by linarith
      exact Int.eq_of_mul_eq_mul_left hbz this
  have hinv : FInv a b ⟨0, 1, b, a % b⟩ (-1) := by
    refine ⟨hm0, hm1, Int.le_refl _, by simp, ?_, Or.inr rfl, by simp, by simp, by simp, by simp, ?_⟩
    · show b ∣ 1 * a - a % b
      rw [hdef]; have : 1 * a - (a - b * (a / b)) = b * (a / b) := by ring
      rw [this]; exact Int.dvd_mul_right _ _
    · intro g
      show (g ∣ b ∧ g ∣ a % b) ↔ _
      constructor
      · rintro ⟨h1, h2⟩
        refine ⟨h1, ?_⟩
        have : a = a % b + b * (a / b) := by omega
        rw [this]; exact Int.dvd_add h2 (Dvd.dvd.mul_right h1 _)
      · rintro ⟨h1, h2⟩
        refine ⟨h1, ?_⟩
        rw [hdef]; exact Int.dvd_sub h2 (Dvd.dvd.mul_right h1 _)
  have hfuel : (⟨0, 1, b, a % b⟩ : FCfg.FEu).u3 * (⟨0, 1, b, a % b⟩ : FCfg.FEu).v3
      < (2 : Int) ^ (2 * k.ms + 3 + a.natAbs) := by
    show b * (a % b) < _
    have h1 : b * (a % b) < b * b := by nlinarith
    have h2 : (2 : Int) ^ (2 * k.ms + 3) ≤ (2 : Int) ^ (2 * k.ms + 3 + a.natAbs) :=
      pow_le_pow_right₀ (by norm_num) (by omega)
    omega
  obtain ⟨st, s, hl, hi, hz⟩ := feuLoop_spec fsok _ _ _ hinv hfuel
  have hfirst : k.feuLoop (2 * k.ms + 4 + a.natAbs) ⟨1, 0, a, b⟩ = some st := by
    have e : 2 * k.ms + 4 + a.natAbs = (2 * k.ms + 3 + a.natAbs) + 1 := by omega
    rw [e]
    unfold FCfg.feuLoop
    rw [if_neg (by simpa using hbz), hq]
    simp only [Int.mul_zero, Option.bind_eq_bind]
    rw [fsok 0 (by omega) (by omega)]
    simp only [Option.bind_some, Int.sub_zero]
    rw [fsok 1 (by omega) (by omega)]
    simp only [Option.bind_some]
    have hqb : -b ≤ a / b * b ∧ a / b * b ≤ b := by rcases hqv with h | h <;> rw [h] <;> constructor <;> omega
    rw [fsok _ hqb.1 hqb.2]
    simp only [Option.bind_some]
    have e2 : a - a / b * b = a % b := by rw [hdef]; ring
    rw [e2, fsok _ (by omega) (by omega)]
    simp only [Option.bind_some]
    exact hl
  have hu3 : 0 < st.u3 := by have := hi.v3nn; have := hi.v3lt; omega
  have hd : st.u3 = (Int.gcd a b : Int) := by
    apply Int.gcd_greatest (Int.le_of_lt hu3)
    · exact ((hi.dv st.u3).1 ⟨Int.dvd_refl _, by rw [hz]; exact Int.dvd_zero _⟩).2
    · exact ((hi.dv st.u3).1 ⟨Int.dvd_refl _, by rw [hz]; exact Int.dvd_zero _⟩).1
    · intro e h1 h2; exact ((hi.dv e).2 ⟨h2, h1⟩).1
  have hdet := hi.det
  rw [hz] at hdet
  simp only [Int.mul_zero, Int.zero_sub] at hdet
  have hsu := hi.su; have hsv := hi.sv; have hmono := hi.mono
  -- |v1| * u3 = b, |u1| ≤ |v1| ≤ b
  have hv1b : -(s * st.v1) ≤ b := by nlinarith [Int.mul_nonneg (show 0 ≤ -(s * st.v1) by omega) (show 0 ≤ st.u3 - 1 by omega)]
  have hx : -b ≤ st.u1 ∧ st.u1 ≤ b := by
    rcases hi.sgn with hs | hs <;> subst hs <;> constructor <;> omega
  refine ⟨st.u1, st.u3, ?_, hd, hx.1, hx.2, hi.c1, ?_⟩
  · unfold FCfg.euclid; rw [hfirst]; rfl
  · intro hd1
    have hc1 := hi.c1
    rw [hd1] at hc1
    constructor
    · by_contra hc
      have : st.u1 = -b := by omega
      rw [this] at hc1
      have : b ∣ 1 := by
        have h2 : b ∣ -b * a := ⟨-a, by ring⟩
        have := Int.dvd_sub h2 hc1
        simpa using this
      have := Int.le_of_dvd (by decide) this
      omega
    · by_contra hc
      have : st.u1 = b := by omega
      rw [this] at hc1
      have : b ∣ 1 := by
        have h2 : b ∣ b * a := Int.dvd_mul_right _ _
        have := Int.dvd_sub h2 hc1
        simpa using this
      have := Int.le_of_dvd (by decide) this
      omega

end Givaro.Model.ModRing
