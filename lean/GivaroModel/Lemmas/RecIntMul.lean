/- C06 helper lemmas: multiplication by a word (`lmul(limb& ret, a, b, c)`), single-bit shifts. -/
import GivaroModel.Lemmas.RecIntSub
namespace Givaro.Model.RecInt

theorem umul_pp_ok (a b : Nat) (ha : a < B64) (hb : b < B64) :
    (umul_pp a b).2 < B64 ∧ (umul_pp a b).1 < B64 ∧ (umul_pp a b).2 + B64 * (umul_pp a b).1 = a * b := by
  have hp : a * b < B64 * B64 := Nat.mul_lt_mul'' ha hb
  refine ⟨Nat.mod_lt _ (by decide), Nat.div_lt_of_lt_mul hp, ?_⟩
  simp only [umul_pp]; exact Nat.mod_add_div _ _

theorem B64_le_Bn (n : Nat) : B64 ≤ Bn n := by
  induction n with
  | zero => rw [Bn_zero]
  | succ k ih => rw [Bn_succ]; have := Bn_pos k; nlinarith

/-- `lmul(limb& ret, a, b, c)`: `ret·2^bits + a = b·c` exactly, `ret` a word -/
theorem lmul_l_ok : ∀ {n : Nat} (b : RU n) (c : Nat), WF b → c < B64 →
    WF (lmul_l b c).1 ∧ (lmul_l b c).2 < B64 ∧ val (lmul_l b c).1 + Bn n * (lmul_l b c).2 = val b * c
  | _, .limb b, c, hb, hc => by
      simp only [WF] at hb
      have h := umul_pp_ok b c hb hc
      simp only [lmul_l, WF, val, Bn_zero]
      exact ⟨h.1, h.2.1, h.2.2⟩
  | _, .node (n := n) bl bh, c, hb, hc => by
      have hl := lmul_l_ok bl c hb.1 hc
      have hh := lmul_l_ok bh c hb.2 hc
      have hs := add_l_ok (lmul_l bh c).1 (lmul_l bl c).2 hh.1 hl.2.1
      have hB := Bn_pos n
      have hvb := val_lt bh hb.2
      have hc1 := c2n_le (add_l (lmul_l bh c).1 (lmul_l bl c).2).2
      -- the high word of b.High * c is at most 2^64 - 2, so adding the carry cannot wrap
      have hle : val bh * c ≤ (Bn n - 1) * (B64 - 1) := Nat.mul_le_mul (by omega) (by omega)
      have hlt : (lmul_l bh c).2 < B64 - 1 := by
        have h1 : Bn n * (lmul_l bh c).2 ≤ (Bn n - 1) * (B64 - 1) := by omega
        have h2 : (Bn n - 1) * (B64 - 1) < Bn n * (B64 - 1) := Nat.mul_lt_mul_of_pos_right (by omega) (by decide)
        exact Nat.lt_of_mul_lt_mul_left (Nat.lt_of_le_of_lt h1 h2)
      have hnw : ((lmul_l bh c).2 + c2n (add_l (lmul_l bh c).1 (lmul_l bl c).2).2) % B64
                 = (lmul_l bh c).2 + c2n (add_l (lmul_l bh c).1 (lmul_l bl c).2).2 := Nat.mod_eq_of_lt (by omega)
      unfold AddOk at hs
      simp only [lmul_l, WF_node, val_node]
      have e : (if (add_l (lmul_l bh c).1 (lmul_l bl c).2).2 = true then 1 else 0) = c2n (add_l (lmul_l bh c).1 (lmul_l bl c).2).2 := rfl
      rw [e, hnw]
      refine ⟨⟨hl.1, hs.1⟩, by omega, ?_⟩
      rw [Bn_succ]
      linear_combination hl.2.2 + Bn n * hs.2 + Bn n * hh.2.2

theorem mul_l_ok {n : Nat} (b : RU n) (c : Nat) (hb : WF b) (hc : c < B64) :
    WF (mul_l b c) ∧ val (mul_l b c) = (val b * c) % Bn n := by
  have h := lmul_l_ok b c hb hc
  refine ⟨h.1, ?_⟩
  unfold mul_l
  rw [← h.2.2, Nat.add_mul_mod_self_left, Nat.mod_eq_of_lt (val_lt _ h.1)]

end Givaro.Model.RecInt
