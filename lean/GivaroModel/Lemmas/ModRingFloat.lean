/-
Helper lemmas for C03, floating and balanced rings: inside the advertised range every mathematical
intermediate of the exact-integer model is representable (`fit … = some …`), `fmod` followed by the
sign fix-up / NORMALISE is the canonical map, and one NORMALISE suffices for any quotient estimate
that is off by less than 3/2.
-/
import GivaroModel.Lemmas.ModRingLemmas
namespace Givaro.Model.ModRing
open Givaro.Spec.ModRing

theorem fit_some {bits : Nat} {x : Int} (h0 : -((2 : Int) ^ bits) ≤ x) (h1 : x ≤ (2 : Int) ^ bits) :
    fit bits x = some x := by
  unfold fit; rw [if_pos ⟨h0, h1⟩]

/-- `fmod(x,p)` is `x % p` or `x % p - p` -/
theorem tmod_cases (x p : Int) (hp : 0 < p) :
    (Int.tmod x p = x % p ∨ Int.tmod x p = x % p - p) ∧ 0 ≤ x % p ∧ x % p < p ∧ -p < Int.tmod x p := by
  have h0 := Int.emod_nonneg x (by omega : p ≠ 0)
  have h1 := Int.emod_lt_of_pos x hp
  rw [Int.tmod_eq_emod]
  have hn : (p.natAbs : Int) = p := Int.natAbs_of_nonneg (by omega)
  refine ⟨?_, h0, h1, ?_⟩
  · split
    · left; simp
    · right; rw [hn]
  · split
    · simp; omega
    · rw [hn]; omega

/-- `fmod` then `+p` when negative = canonical map to `[0,p)` -/
theorem tmod_fix (x p : Int) (hp : 0 < p) :
    (if Int.tmod x p < 0 then Int.tmod x p + p else Int.tmod x p) = x % p := by
  obtain ⟨h, h0, h1, _⟩ := tmod_cases x p hp
  rcases h with h | h <;> rw [h] <;> split <;> omega

theorem canonB_unique {p z r : Int} (hp : 0 < p) (hr : isCanonB p r) (j : Int) (h : z = r + p * j) :
    canonB p z = r := by
  unfold isCanonB at hr
  unfold canonB
  by_cases hr0 : 0 ≤ r
  · have e : z % p = r := emod_unique hr0 (by omega) j h
    rw [e]; rw [if_neg (by omega)]
  · have e : z % p = r + p := emod_unique (by omega) (by omega) (j - 1) (by rw [h]; ring)
    rw [e]; rw [if_pos (by omega)]; ring

theorem canonB_isCanon (p x : Int) (hp : 0 < p) : isCanonB p (canonB p x) := by
  have h0 := Int.emod_nonneg x (by omega : p ≠ 0)
  have h1 := Int.emod_lt_of_pos x hp
  unfold isCanonB canonB
  split <;> omega

/-- one NORMALISE maps every `z` within `p` of the canonical range onto the canonical representative -/
theorem normB_canon {p z : Int} (hp : 0 < p) (h0 : p / 2 - p + 1 - p ≤ z) (h1 : z ≤ p / 2 + p) :
    normB p z = canonB p z := by
  symm
  unfold normB
  simp only
  split
  · exact canonB_unique hp (by unfold isCanonB; omega) (-1) (by ring)
  · split
    · exact canonB_unique hp (by unfold isCanonB; omega) 1 (by ring)
    · exact canonB_unique hp (by unfold isCanonB; omega) 0 (by ring)

theorem canonB_congr {p x y : Int} (h : x % p = y % p) : canonB p x = canonB p y := by
  unfold canonB; rw [h]

/-- `fmod` then NORMALISE = canonical map to the balanced range -/
theorem normB_tmod (x p : Int) (hp : 0 < p) : normB p (Int.tmod x p) = canonB p x := by
  obtain ⟨h, h0, h1, h2⟩ := tmod_cases x p hp
  have ht : Int.tmod x p < p := by rcases h with h | h <;> omega
  rw [normB_canon hp (by omega) (by omega)]
  apply canonB_congr
  rcases h with h | h <;> rw [h]
  · exact Int.emod_emod_of_dvd _ (Int.dvd_refl _)
  · rw [Int.sub_emod_right]; exact Int.emod_emod_of_dvd _ (Int.dvd_refl _)

/-! ### `Modular<float|double[,double]>` -/

/-- every non-negative value up to `p(p-1)+1` is exact in `Compute_t`, up to `p` in `Storage_t` -/
structure FOk (k : FCfg) (p : Int) : Prop where
  fC_id : ∀ x, 0 ≤ x → x ≤ p * (p - 1) + 1 → k.fC x = some x
  fS_id : ∀ x, 0 ≤ x → x ≤ p → k.fS x = some x

theorem fok_of_valid (k : FCfg) (hv : k.valid) (p : Int) (hp : 2 ≤ p) (hm : p ≤ k.maxCard) : FOk k p := by
  obtain ⟨ms, mc⟩ := k
  simp only [FCfg.valid] at hv
  have hpp : ∀ B : Int, p ≤ B → p * (p - 1) + 1 ≤ B * (B - 1) + 1 := fun B hB => by nlinarith
  rcases hv with ⟨h1, h2⟩ | ⟨h1, h2⟩ | ⟨h1, h2⟩ <;> subst h1 <;> subst h2 <;>
    simp only [FCfg.maxCard] at hm <;> norm_num at hm <;>
    (have h2 := hpp _ hm
     refine ⟨?_, ?_⟩ <;> intro x hx0 hx1 <;> simp only [FCfg.fC, FCfg.fS] <;>
     apply fit_some <;> norm_num <;> omega)

/-! ### `ModularBalanced<float|double>` -/

/-- every value of magnitude up to `h(h+1)`, `h = ⌊p/2⌋`, is exact -/
structure BFOk (k : BFCfg) (p : Int) : Prop where
  f_id : ∀ x, -((p / 2) * (p / 2 + 1)) ≤ x → x ≤ (p / 2) * (p / 2 + 1) → k.f x = some x

theorem bfok_of_valid (k : BFCfg) (hv : k.valid) (p : Int) (hp : 3 ≤ p) (hm : p ≤ k.maxCard) : BFOk k p := by
  obtain ⟨mb⟩ := k
  simp only [BFCfg.valid] at hv
  have hpp : ∀ B : Int, p / 2 ≤ B → (p / 2) * (p / 2 + 1) ≤ B * (B + 1) := fun B hB => by
    have : 0 ≤ p / 2 := by omega
    nlinarith
  rcases hv with h1 | h1 <;> subst h1 <;>
    simp only [BFCfg.maxCard] at hm <;> norm_num at hm
  · have h2 := hpp 4095 (by omega)
    refine ⟨?_⟩; intro x hx0 hx1; simp only [BFCfg.f]; apply fit_some <;> norm_num <;> omega
  · have h2 := hpp 94906265 (by omega)
    refine ⟨?_⟩; intro x hx0 hx1; simp only [BFCfg.f]; apply fit_some <;> norm_num <;> omega

end Givaro.Model.ModRing
