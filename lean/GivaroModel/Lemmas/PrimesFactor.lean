/-
C12 — the factor-driver loops of givintfactor.h (model: Model/PrimesFactor.lean + the `set` loop of Model/Primes.lean):
the two trial-division cascades return a prime divisor whenever the gcd test sends them there, `factor` returns a
non-trivial divisor of every composite, `iffactorprime` / `primefactor` a prime factor, under the contract of the rho oracle
for `loops = 0`; the outer loop of `set` for *any* positive-divisor oracle (failure and composite answers included).
-/
import GivaroModel.Model.PrimesFactor
import GivaroModel.Lemmas.PrimesPower
import Mathlib.Data.List.Prime
import Mathlib.Data.Int.GCD
namespace Givaro.Lemmas.Primes
open Givaro Givaro.Model.Primes Givaro.Spec.Primes

theorem cascade_mem (n : Int) : ∀ (ps : List Nat) (last : Nat), cascade n ps last ∈ ps ++ [last] := by
  intro ps
  induction ps with
  | nil => intro last; simp [cascade]
  | cons p ps ih =>
    intro last
    unfold cascade
    split
    · simp
    · exact List.mem_cons_of_mem _ (ih last)

theorem cascade_dvd (n : Int) : ∀ (ps : List Nat) (last : Nat), (∃ p ∈ ps ++ [last], n % (p : Int) = 0) →
    n % (cascade n ps last : Int) = 0 := by
  intro ps
  induction ps with
  | nil => intro last h; obtain ⟨p, hp, h⟩ := h; simp at hp; subst hp; simpa [cascade] using h
  | cons p ps ih =>
    intro last h
    unfold cascade
    by_cases hp : n % (p : Int) = 0
    · simp [hp]
    · simp only [hp, ↓reduceIte]
      apply ih
      obtain ⟨q, hq, h⟩ := h
      rcases List.mem_cons.1 hq with rfl | hq'
      · exact absurd h hp
      · exact ⟨q, hq', h⟩

theorem exists_listed_dvd (L : List Nat) (hL : ∀ p ∈ L, Nat.Prime p) (n : Int) (h : Int.gcd n ((L.prod : Nat) : Int) ≠ 1) :
    ∃ p ∈ L, Nat.Prime p ∧ n % (p : Int) = 0 := by
  set g := Int.gcd n ((L.prod : Nat) : Int) with hg
  have hq := Nat.minFac_prime h
  have hqg : g.minFac ∣ g := Nat.minFac_dvd g
  have h1 : (g : Int) ∣ n := Int.gcd_dvd_left _ _
  have h2 : (g : Int) ∣ ((L.prod : Nat) : Int) := Int.gcd_dvd_right _ _
  have h2' : g ∣ L.prod := Int.natCast_dvd_natCast.1 h2
  have hqL : g.minFac ∣ L.prod := Nat.dvd_trans hqg h2'
  obtain ⟨a, ha, hqa⟩ := (Prime.dvd_prod_iff (Nat.prime_iff.1 hq)).1 hqL
  have : g.minFac = a := (Nat.prime_dvd_prime_iff_eq hq (hL a ha)).1 hqa
  refine ⟨a, ha, hL a ha, ?_⟩
  apply Int.emod_eq_zero_of_dvd
  rw [← this]
  exact Int.dvd_trans (Int.natCast_dvd_natCast.2 hqg) h1

/-- contract of the rho iteration with `loops = 0` (it runs until it has a non-trivial divisor) -/
def RhoFull (rho : Int → Int) : Prop :=
  ∀ m : Int, 3 ≤ m → ¬ Nat.Prime m.toNat → 1 < rho m ∧ rho m < m ∧ rho m ∣ m

theorem firstList_prime : ∀ p ∈ firstPrimesOrder ++ [13], Nat.Prime p := by
  have h : (firstPrimesOrder ++ [13]).all isPrimeDec = true := by decide +kernel
  intro p hp; exact (isPrimeDec_iff_prime p).1 (List.all_eq_true.1 h p hp)
theorem secondList_prime : ∀ p ∈ secondPrimesOrder ++ [73], Nat.Prime p := by
  have h : (secondPrimesOrder ++ [73]).all isPrimeDec = true := by decide +kernel
  intro p hp; exact (isPrimeDec_iff_prime p).1 (List.all_eq_true.1 h p hp)
theorem firstList_prod : (firstPrimesOrder ++ [13]).prod = PROD_first_primes := by decide +kernel
theorem secondList_prod : (secondPrimesOrder ++ [73]).prod = PROD_second_primes := by decide +kernel

theorem cascade_full (n : Int) (_hn : 1 < n) (ps : List Nat) (last : Nat) (hL : ∀ p ∈ ps ++ [last], Nat.Prime p)
    (hg : Int.gcd n (((ps ++ [last]).prod : Nat) : Int) ≠ 1) :
    Nat.Prime (cascade n ps last) ∧ ((cascade n ps last : Nat) : Int) ∣ n := by
  obtain ⟨p, hp, _, hpn⟩ := exists_listed_dvd _ hL n hg
  exact ⟨hL _ (cascade_mem n ps last), Int.dvd_of_emod_eq_zero (cascade_dvd n ps last ⟨p, hp, hpn⟩)⟩

theorem prime_divisor_bounds {n : Int} (hn : 1 < n) {c : Nat} (hc : Nat.Prime c) (hd : (c : Int) ∣ n) :
    (1 : Int) < c ∧ (c : Int) ≤ n ∧ (¬ Nat.Prime n.toNat → (c : Int) < n) := by
  have h2 := hc.two_le
  have hle : (c : Int) ≤ n := Int.le_of_dvd (by omega) hd
  refine ⟨by omega, hle, fun hnp => ?_⟩
  rcases Int.lt_or_eq_of_le hle with h | h
  · exact h
  · exfalso; apply hnp; rw [← h]; simpa using hc

theorem factorP_full (isp : Int → Bool) (hisp : ∀ n : Int, isp n = true ↔ Nat.Prime n.toNat)
    (rho : Int → Int) (hrho : RhoFull rho) (n : Int) (hn : 1 < n) :
    factorP isp rho n ∣ n ∧ 1 < factorP isp rho n ∧ factorP isp rho n ≤ n ∧
      (¬ Nat.Prime n.toNat → factorP isp rho n < n) := by
  unfold factorP factor
  by_cases h1 : Int.gcd n (PROD_first_primes : Int) = 1
  · simp only [h1, ↓reduceIte]
    by_cases h2 : Int.gcd n (PROD_second_primes : Int) = 1
    · simp only [h2, ↓reduceIte]
      unfold pollard
      by_cases h3 : n < 3
      · exfalso
        have : n = 2 := by omega
        subst this
        revert h1; decide
      · simp only [h3, ↓reduceIte]
        by_cases hp : isp n = true
        · simp only [hp, ↓reduceIte]
          exact ⟨Int.dvd_refl n, hn, Int.le_refl n, fun h => absurd ((hisp n).1 hp) h⟩
        · simp only [hp, Bool.false_eq_true, ↓reduceIte]
          have hnp : ¬ Nat.Prime n.toNat := fun h => hp ((hisp n).2 h)
          obtain ⟨a, b, c⟩ := hrho n (by omega) hnp
          exact ⟨c, a, by omega, fun _ => b⟩
    · simp only [h2, ↓reduceIte]
      rw [← secondList_prod] at h2
      obtain ⟨hc, hd⟩ := cascade_full n hn secondPrimesOrder 73 secondList_prime h2
      obtain ⟨a, b, c⟩ := prime_divisor_bounds hn hc hd
      exact ⟨hd, a, b, c⟩
  · simp only [h1, ↓reduceIte]
    rw [← firstList_prod] at h1
    obtain ⟨hc, hd⟩ := cascade_full n hn firstPrimesOrder 13 firstList_prime h1
    obtain ⟨a, b, c⟩ := prime_divisor_bounds hn hc hd
    exact ⟨hd, a, b, c⟩

theorem ifpLoop_full (isp : Int → Bool) (hisp : ∀ n : Int, isp n = true ↔ Nat.Prime n.toNat)
    (rho : Nat → Int → Int) (hrho : ∀ i, RhoFull (rho i)) (ecm : Int → Int) (n : Int) :
    ∀ (fuel i : Nat) (r : Int), 1 < r → r.toNat < fuel → r ∣ n →
      ∃ r', ifpLoop isp rho ecm fuel i r = some r' ∧ Nat.Prime r'.toNat ∧ r' ∣ n ∧ 1 < r' := by
  intro fuel
  induction fuel with
  | zero => intro i r h1 h2; omega
  | succ f ih =>
    intro i r h1 h2 hd
    unfold ifpLoop
    by_cases hp : isp r = true
    · simp only [hp, ↓reduceIte]
      exact ⟨r, rfl, (hisp r).1 hp, hd, h1⟩
    · simp only [hp, Bool.false_eq_true, ↓reduceIte]
      have hnp : ¬ Nat.Prime r.toNat := fun h => hp ((hisp r).2 h)
      obtain ⟨a, b, c, d⟩ := factorP_full isp hisp (rho i) (hrho i) r h1
      have hlt := d hnp
      have hne : factorP isp (rho i) r ≠ r := by omega
      simp only [hne, ↓reduceIte]
      exact ih (i + 1) _ b (by omega) (Int.dvd_trans a hd)

/-- `iffactorprime(r, n, 0)` returns a prime factor of every `n > 1` -/
theorem iffactorprime_full (isp : Int → Bool) (hisp : ∀ n : Int, isp n = true ↔ Nat.Prime n.toNat)
    (rho : Nat → Int → Int) (hrho : ∀ i, RhoFull (rho i)) (ecm : Int → Int) (n : Int) (hn : 1 < n)
    (fuel : Nat) (hfuel : n.toNat < fuel) :
    ∃ r, iffactorprime isp rho ecm fuel n = some r ∧ Nat.Prime r.toNat ∧ r ∣ n ∧ 1 < r := by
  unfold iffactorprime
  obtain ⟨a, b, c, _⟩ := factorP_full isp hisp (rho 0) (hrho 0) n hn
  have hne : factorP isp (rho 0) n ≠ 1 := by omega
  simp only [ne_eq, hne, not_false_eq_true, ↓reduceIte]
  generalize factorP isp (rho 0) n = r0 at a b c
  by_cases hp : isp r0 = true
  · simp only [hp, Bool.not_true, Bool.false_eq_true, ↓reduceIte]
    exact ifpLoop_full isp hisp rho hrho ecm n fuel 2 r0 b (by omega) a
  · simp only [hp, Bool.not_false, ↓reduceIte]
    obtain ⟨a', b', c', _⟩ := factorP_full isp hisp (rho 1) (hrho 1) r0 b
    exact ifpLoop_full isp hisp rho hrho ecm n fuel 2 _ b' (by omega) (Int.dvd_trans a' a)

/-- `primefactor(r, n)` returns a prime factor of every `n > 1` at the first attempt -/
theorem primefactor_full (isp : Int → Bool) (hisp : ∀ n : Int, isp n = true ↔ Nat.Prime n.toNat)
    (rho : Nat → Nat → Int → Int) (hrho : ∀ k i, RhoFull (rho k i)) (ecm : Int → Int) (n : Int) (hn : 1 < n)
    (fuel : Nat) :
    ∃ r, primefactor isp rho ecm (fuel + 1) n = some r ∧ Nat.Prime r.toNat ∧ r ∣ n := by
  unfold primefactor primefactorLoop
  obtain ⟨r, h1, h2, h3, h4⟩ := iffactorprime_full isp hisp (rho 0) (hrho 0) ecm n hn (n.toNat + 2) (by omega)
  rw [h1]
  have : ¬ (r = 1 ∧ (!isp n) = true) := fun h => by omega
  simp only [this, ↓reduceIte]
  exact ⟨r, rfl, h2, h3⟩

/-- `primefactor(r, 1)` never returns: `iffactorprime(r,1,0)` is 1 and 1 is not prime, whatever the oracles (observed on the
    real code as a hang; the harness does not call it) -/
theorem primefactor_one_diverges (isp : Int → Bool) (hisp : ∀ n : Int, isp n = true ↔ Nat.Prime n.toNat)
    (rho : Nat → Nat → Int → Int) (ecm : Int → Int) (fuel : Nat) :
    primefactor isp rho ecm fuel 1 = none := by
  have h1 : isp 1 = false := by
    rcases hb : isp 1 with _ | _
    · rfl
    · exact absurd ((hisp 1).1 hb) (by decide)
  have hif : ∀ k, iffactorprime isp (rho k) ecm ((1 : Int).toNat + 2) 1 = some 1 := by
    intro k
    have : factorP isp (rho k 0) 1 = 1 := by
      unfold factorP factor pollard
      have a : Int.gcd 1 (PROD_first_primes : Int) = 1 := by decide
      have b : Int.gcd 1 (PROD_second_primes : Int) = 1 := by decide
      simp [a, b]
    unfold iffactorprime
    simp [this]
  unfold primefactor
  have key : ∀ (f k : Nat), primefactorLoop isp rho ecm f k 1 = none := by
    intro f
    induction f with
    | zero => intro k; rfl
    | succ g ih =>
      intro k
      unfold primefactorLoop
      rw [hif k]
      simp only [h1, Bool.not_false, and_self, ↓reduceIte]
      exact ih (k + 1)
  exact key fuel 0

/-- the outer loop of `set` for *any* oracle returning a positive divisor (1 = failure, composite allowed): product,
    exponents, distinctness always hold; the flag `true` certifies that every base is a non-failure answer -/
theorem setLoop_partial (pf : Nat → Nat) (hpf : ∀ m, 1 < m → 1 ≤ pf m ∧ pf m ∣ m)
    (Good : Nat → Prop) (hgood : ∀ m, 1 < m → pf m ≠ 1 → Good (pf m)) (N : Nat) :
    ∀ (fuel nn : Nat) (acc : List (Nat × Nat)) (complete : Bool), 1 ≤ nn → nn < fuel →
      (∀ pe ∈ acc, 2 ≤ pe.1 ∧ 1 ≤ pe.2 ∧ ¬ pe.1 ∣ nn) → (acc.map Prod.fst).Nodup → prodPow acc * nn = N →
      (complete = true → ∀ pe ∈ acc, Good pe.1) →
      ∃ fs c, setLoop pf fuel nn acc complete = some (fs, c) ∧ (∀ pe ∈ fs, 2 ≤ pe.1 ∧ 1 ≤ pe.2) ∧
        (fs.map Prod.fst).Nodup ∧ prodPow fs = N ∧ (c = true → ∀ pe ∈ fs, Good pe.1) := by
  intro fuel
  induction fuel with
  | zero => intro nn acc _ h1 h2; omega
  | succ f ih =>
    intro nn acc complete h1 h2 hacc hnd hprod hcomp
    unfold setLoop
    by_cases hle : nn ≤ 1
    · simp only [hle, ↓reduceIte]
      have hnn : nn = 1 := by omega
      refine ⟨acc.reverse, complete, rfl, ?_, ?_, ?_, ?_⟩
      · intro pe hpe
        have := hacc pe (List.mem_reverse.1 hpe)
        exact ⟨this.1, this.2.1⟩
      · rw [List.map_reverse]; exact List.nodup_reverse.2 hnd
      · rw [prodPow_reverse, ← hprod, hnn, Nat.mul_one]
      · intro hc pe hpe; exact hcomp hc pe (List.mem_reverse.1 hpe)
    · simp only [hle, ↓reduceIte]
      obtain ⟨hg1', hgd'⟩ := hpf nn (by omega)
      -- the base actually used
      have hgen : ∃ g, (if pf nn = 1 then nn else pf nn) = g ∧ 2 ≤ g ∧ g ∣ nn ∧
          ((if pf nn = 1 then false else complete) = true → Good g) := by
        by_cases h : pf nn = 1
        · exact ⟨nn, by simp [h], by omega, Nat.dvd_refl nn, by simp [h]⟩
        · refine ⟨pf nn, by simp [h], ?_, hgd', fun _ => hgood nn (by omega) h⟩
          rcases Nat.eq_zero_or_pos (pf nn) with h0 | h0 <;> omega
      obtain ⟨g, hgeq, hg2, hgd, hgg⟩ := hgen
      simp only [hgeq]
      have hq : g * (nn / g) = nn := Nat.mul_div_cancel' hgd
      generalize hqdef : nn / g = q at hq
      have hq1 : 1 ≤ q := by
        rcases Nat.eq_zero_or_pos q with h | h
        · subst h; omega
        · exact h
      have hqlt : q < nn + 1 := by
        have : q * 2 ≤ q * g := Nat.mul_le_mul_left q hg2
        have : g * q = q * g := Nat.mul_comm _ _
        omega
      obtain ⟨u', k, e1, e2, e3, e4⟩ := divLoop_spec g hg2 (nn + 1) q 0 hq1 hqlt
      rw [e1]
      simp only
      have hnn' : u' * g ^ (k + 1) = nn := by
        calc u' * g ^ (k + 1) = g * (u' * g ^ k) := by rw [pow_succ]; ring
          _ = nn := by rw [e2, hq]
      have hu'dvd : u' ∣ nn := ⟨g ^ (k + 1), hnn'.symm⟩
      have hlt' : u' < f := by
        have h2k : 2 ≤ g ^ (k + 1) := by
          calc 2 ≤ g := hg2
            _ = g ^ 1 := (pow_one _).symm
            _ ≤ g ^ (k + 1) := Nat.pow_le_pow_right (by omega) (by omega)
        have : u' * 2 ≤ u' * g ^ (k + 1) := Nat.mul_le_mul_left u' h2k
        omega
      apply ih u' ((g, 0 + 1 + k) :: acc) _ e4 hlt'
      · intro pe hpe
        rcases List.mem_cons.1 hpe with h | h
        · subst h; exact ⟨hg2, by simp, e3⟩
        · obtain ⟨a, b, c⟩ := hacc pe h
          exact ⟨a, b, fun hd => c (Nat.dvd_trans hd hu'dvd)⟩
      · rw [List.map_cons, List.nodup_cons]
        refine ⟨?_, hnd⟩
        intro hmem
        obtain ⟨pe, hpe, hfst⟩ := List.mem_map.1 hmem
        have := (hacc pe hpe).2.2
        rw [hfst] at this
        exact this hgd
      · have h3 : 0 + 1 + k = k + 1 := by omega
        calc prodPow ((g, 0 + 1 + k) :: acc) * u' = prodPow acc * (u' * g ^ (k + 1)) := by
              simp only [prodPow, h3]; ring
          _ = N := by rw [hnn', hprod]
      · intro hc pe hpe
        rcases List.mem_cons.1 hpe with h | h
        · subst h; exact hgg hc
        · apply hcomp _ pe h
          by_cases h1 : pf nn = 1
          · simp [h1] at hc
          · simpa [h1] using hc

theorem set_partial_gen (pf : Nat → Nat) (hpf : ∀ m, 1 < m → 1 ≤ pf m ∧ pf m ∣ m)
    (Good : Nat → Prop) (hgood : ∀ m, 1 < m → pf m ≠ 1 → Good (pf m)) (n : Int) (hn : n ≠ 0) :
    ∃ fs c, Givaro.Model.Primes.set pf n = some (fs, c) ∧ (∀ pe ∈ fs, 2 ≤ pe.1 ∧ 1 ≤ pe.2) ∧
      (fs.map Prod.fst).Nodup ∧ prodPow fs = n.natAbs ∧ (c = true → ∀ pe ∈ fs, Good pe.1) := by
  unfold Givaro.Model.Primes.set
  apply setLoop_partial pf hpf Good hgood n.natAbs (n.natAbs + 1) n.natAbs [] true (by omega) (by omega)
  · intro pe hpe; simp at hpe
  · simp
  · simp [prodPow]
  · intro _ pe hpe; simp at hpe

/-- what `iffactorprime` gives `set` under the `loops = 0` contract: a prime factor -/
theorem pfOf_full (isp : Int → Bool) (hisp : ∀ n : Int, isp n = true ↔ Nat.Prime n.toNat)
    (rho : Nat → Nat → Int → Int) (hrho : ∀ k i, RhoFull (rho k i)) (ecm : Int → Int) (m : Nat) (hm : 1 < m) :
    Nat.Prime (pfOf isp rho ecm m) ∧ pfOf isp rho ecm m ∣ m := by
  unfold pfOf
  obtain ⟨r, h1, h2, h3, h4⟩ := iffactorprime_full isp hisp (rho m) (hrho m) ecm (m : Int) (by omega) (m + 2) (by simp)
  rw [h1]
  refine ⟨h2, ?_⟩
  have : ((r.toNat : Nat) : Int) ∣ (m : Int) := by rw [Int.toNat_of_nonneg (by omega)]; exact h3
  exact Int.natCast_dvd_natCast.1 this

theorem set1Loop_sim (pf : Nat → Nat) (hpf : ∀ m, 1 < m → pf m ≠ 1) :
    ∀ (fuel nn : Nat) (acc : List (Nat × Nat)) (c : Bool),
      set1Loop pf fuel nn (acc.map Prod.fst) = (setLoop pf fuel nn acc c).map (fun r => r.1.map Prod.fst) := by
  intro fuel
  induction fuel with
  | zero => intro nn acc c; rfl
  | succ f ih =>
    intro nn acc c
    unfold set1Loop setLoop
    by_cases hle : nn ≤ 1
    · simp [hle, List.map_reverse]
    · simp only [hle, ↓reduceIte]
      have h1 := hpf nn (by omega)
      simp only [h1, ↓reduceIte]
      rcases hd : divLoop (pf nn) (nn + 1) (nn / pf nn) 0 with _ | ⟨nn', k⟩
      · simp
      · simp only
        have := ih nn' ((pf nn, k) :: acc) c
        simpa using this

theorem prime_dvd_prodPow_iff (fs : List (Nat × Nat)) (hfs : ∀ pe ∈ fs, Nat.Prime pe.1 ∧ 1 ≤ pe.2) (p : Nat) (hp : Nat.Prime p) :
    p ∣ prodPow fs ↔ p ∈ fs.map Prod.fst := by
  rw [prodPow_eq]
  constructor
  · intro h
    obtain ⟨a, ha, hpa⟩ := (Prime.dvd_prod_iff (Nat.prime_iff.1 hp)).1 h
    obtain ⟨pe, hpe, rfl⟩ := List.mem_map.1 ha
    have := (Nat.prime_dvd_prime_iff_eq hp (hfs pe hpe).1).1 (hp.dvd_of_dvd_pow hpa)
    exact List.mem_map.2 ⟨pe, hpe, this.symm⟩
  · intro h
    obtain ⟨pe, hpe, rfl⟩ := List.mem_map.1 h
    apply Dvd.dvd.trans _ (List.dvd_prod (List.mem_map.2 ⟨pe, hpe, rfl⟩))
    exact dvd_pow_self pe.1 (by have := (hfs pe hpe).2; omega)

/-- `set(Lf, n)`: the list of the distinct prime factors of `|n|`, each exactly once -/
theorem set1_complete_gen (pf : Nat → Nat) (hpf : ∀ m, 1 < m → Nat.Prime (pf m) ∧ pf m ∣ m) (n : Int) (hn : n ≠ 0) :
    ∃ ps, set1 pf n = some ps ∧ ps.Nodup ∧ ∀ p, p ∈ ps ↔ Nat.Prime p ∧ p ∣ n.natAbs := by
  obtain ⟨fs, h1, h2, h3, h4⟩ := setLoop_spec pf hpf n.natAbs (n.natAbs + 1) n.natAbs [] (by omega) (by omega)
    (by intro pe hpe; simp at hpe) (by simp) (by simp [prodPow])
  have hne : ∀ m, 1 < m → pf m ≠ 1 := fun m hm h => by have := (hpf m hm).1.two_le; omega
  have hsim := set1Loop_sim pf hne (n.natAbs + 1) n.natAbs [] true
  refine ⟨fs.map Prod.fst, ?_, h3, fun p => ?_⟩
  · unfold set1
    simpa [h1] using hsim
  · constructor
    · intro hp
      obtain ⟨pe, hpe, rfl⟩ := List.mem_map.1 hp
      refine ⟨(h2 pe hpe).1, ?_⟩
      rw [← h4]
      exact (prime_dvd_prodPow_iff fs h2 pe.1 (h2 pe hpe).1).2 (List.mem_map.2 ⟨pe, hpe, rfl⟩)
    · rintro ⟨hp, hd⟩
      rw [← h4] at hd
      exact (prime_dvd_prodPow_iff fs h2 p hp).1 hd

/-- contract of the curves of `Lenstra` one would like: a non-trivial divisor of every composite -/
def EcmFull (ecm : Int → Int) : Prop :=
  ∀ m : Int, 3 ≤ m → ¬ Nat.Prime m.toNat → 1 < ecm m ∧ ecm m < m ∧ ecm m ∣ m

/-- what the curves of the code as it is can end with: the failure value -1, or a divisor > 1 — possibly `m` itself (every
    prime factor met in the same step: the gcd of the accumulated product is `m`) -/
def EcmObserved (ecm : Int → Int) : Prop :=
  ∀ m : Int, 3 ≤ m → ecm m = -1 ∨ (1 < ecm m ∧ ecm m ≤ m ∧ ecm m ∣ m)

theorem lenstra_full (isp : Int → Bool) (hisp : ∀ n : Int, isp n = true ↔ Nat.Prime n.toNat)
    (ecm : Int → Int) (hecm : EcmFull ecm) (n : Int) (hn : 3 ≤ n) :
    lenstra isp ecm n ∣ n ∧ 1 < lenstra isp ecm n ∧ lenstra isp ecm n ≤ n ∧ (¬ Nat.Prime n.toNat → lenstra isp ecm n < n) := by
  unfold lenstra
  have h3 : ¬ n < 3 := by omega
  simp only [h3, ↓reduceIte]
  by_cases hp : isp n = true
  · simp only [hp, ↓reduceIte]
    exact ⟨Int.dvd_refl n, by omega, Int.le_refl n, fun h => absurd ((hisp n).1 hp) h⟩
  · simp only [hp, Bool.false_eq_true, ↓reduceIte]
    have hnp : ¬ Nat.Prime n.toNat := fun h => hp ((hisp n).2 h)
    have n2 : n ≠ 2 := by omega
    have n3 : n ≠ 3 := by
      intro h; apply hnp; rw [h]; exact Nat.prime_three
    by_cases h2 : n % 2 = 0
    · simp only [h2, ↓reduceIte]
      exact ⟨Int.dvd_of_emod_eq_zero h2, by omega, by omega, fun _ => by omega⟩
    · simp only [h2, ↓reduceIte]
      by_cases h3' : n % 3 = 0
      · simp only [h3', ↓reduceIte]
        exact ⟨Int.dvd_of_emod_eq_zero h3', by omega, by omega, fun _ => by omega⟩
      · simp only [h3', ↓reduceIte]
        obtain ⟨a, b, c⟩ := hecm n hn hnp
        exact ⟨c, a, by omega, fun _ => b⟩

theorem factorLen_full (isp : Int → Bool) (hisp : ∀ n : Int, isp n = true ↔ Nat.Prime n.toNat)
    (ecm : Int → Int) (hecm : EcmFull ecm) (n : Int) (hn : 1 < n) :
    factorLen isp ecm n ∣ n ∧ 1 < factorLen isp ecm n ∧ factorLen isp ecm n ≤ n ∧
      (¬ Nat.Prime n.toNat → factorLen isp ecm n < n) := by
  unfold factorLen factor
  by_cases h1 : Int.gcd n (PROD_first_primes : Int) = 1
  · simp only [h1, ↓reduceIte]
    by_cases h2 : Int.gcd n (PROD_second_primes : Int) = 1
    · simp only [h2, ↓reduceIte]
      by_cases h3 : n < 3
      · exfalso
        have : n = 2 := by omega
        subst this
        revert h1; decide
      · exact lenstra_full isp hisp ecm hecm n (by omega)
    · simp only [h2, ↓reduceIte]
      rw [← secondList_prod] at h2
      obtain ⟨hc, hd⟩ := cascade_full n hn secondPrimesOrder 73 secondList_prime h2
      obtain ⟨a, b, c⟩ := prime_divisor_bounds hn hc hd
      exact ⟨hd, a, b, c⟩
  · simp only [h1, ↓reduceIte]
    rw [← firstList_prod] at h1
    obtain ⟨hc, hd⟩ := cascade_full n hn firstPrimesOrder 13 firstList_prime h1
    obtain ⟨a, b, c⟩ := prime_divisor_bounds hn hc hd
    exact ⟨hd, a, b, c⟩

/-- what holds for the curves as they are: the failure value, or a divisor > 1 that may be `n` itself -/
theorem factorLen_partial (isp : Int → Bool) (_hisp : ∀ n : Int, isp n = true ↔ Nat.Prime n.toNat)
    (ecm : Int → Int) (hecm : EcmObserved ecm) (n : Int) (hn : 1 < n) :
    factorLen isp ecm n = -1 ∨ (factorLen isp ecm n ∣ n ∧ 1 < factorLen isp ecm n ∧ factorLen isp ecm n ≤ n) := by
  unfold factorLen factor
  by_cases h1 : Int.gcd n (PROD_first_primes : Int) = 1
  · simp only [h1, ↓reduceIte]
    by_cases h2 : Int.gcd n (PROD_second_primes : Int) = 1
    · simp only [h2, ↓reduceIte]
      unfold lenstra
      by_cases h3 : n < 3
      · simp only [h3, ↓reduceIte]; exact Or.inr ⟨Int.dvd_refl n, hn, Int.le_refl n⟩
      · simp only [h3, ↓reduceIte]
        by_cases hp : isp n = true
        · simp only [hp, ↓reduceIte]; exact Or.inr ⟨Int.dvd_refl n, hn, Int.le_refl n⟩
        · simp only [hp, Bool.false_eq_true, ↓reduceIte]
          by_cases h2' : n % 2 = 0
          · simp only [h2', ↓reduceIte]; exact Or.inr ⟨Int.dvd_of_emod_eq_zero h2', by omega, by omega⟩
          · simp only [h2', ↓reduceIte]
            by_cases h3' : n % 3 = 0
            · simp only [h3', ↓reduceIte]; exact Or.inr ⟨Int.dvd_of_emod_eq_zero h3', by omega, by omega⟩
            · simp only [h3', ↓reduceIte]
              rcases hecm n (by omega) with h | ⟨a, b, c⟩
              · exact Or.inl h
              · exact Or.inr ⟨c, a, b⟩
    · simp only [h2, ↓reduceIte]
      rw [← secondList_prod] at h2
      obtain ⟨hc, hd⟩ := cascade_full n hn secondPrimesOrder 73 secondList_prime h2
      obtain ⟨a, b, _⟩ := prime_divisor_bounds hn hc hd
      exact Or.inr ⟨hd, a, b⟩
  · simp only [h1, ↓reduceIte]
    rw [← firstList_prod] at h1
    obtain ⟨hc, hd⟩ := cascade_full n hn firstPrimesOrder 13 firstList_prime h1
    obtain ⟨a, b, _⟩ := prime_divisor_bounds hn hc hd
    exact Or.inr ⟨hd, a, b⟩

theorem iffactorprimeL_full (isp : Int → Bool) (hisp : ∀ n : Int, isp n = true ↔ Nat.Prime n.toNat)
    (ecmF : Nat → Int → Int) (hecmF : ∀ i, EcmFull (ecmF i)) (rho : Nat → Int → Int) (hrho : ∀ i, RhoFull (rho i))
    (ecm : Int → Int) (n : Int) (hn : 1 < n) (fuel : Nat) (hfuel : n.toNat < fuel) :
    ∃ r, iffactorprimeL isp ecmF rho ecm fuel n = some r ∧ Nat.Prime r.toNat ∧ r ∣ n ∧ 1 < r := by
  unfold iffactorprimeL
  obtain ⟨a, b, c, _⟩ := factorLen_full isp hisp (ecmF 0) (hecmF 0) n hn
  have hne : factorLen isp (ecmF 0) n ≠ 1 := by omega
  simp only [ne_eq, hne, not_false_eq_true, ↓reduceIte]
  generalize factorLen isp (ecmF 0) n = r0 at a b c
  by_cases hp : isp r0 = true
  · simp only [hp, Bool.not_true, Bool.false_eq_true, ↓reduceIte]
    exact ifpLoop_full isp hisp rho hrho ecm n fuel 2 r0 b (by omega) a
  · simp only [hp, Bool.not_false, ↓reduceIte]
    obtain ⟨a', b', c', _⟩ := factorLen_full isp hisp (ecmF 1) (hecmF 1) r0 b
    exact ifpLoop_full isp hisp rho hrho ecm n fuel 2 _ b' (by omega) (Int.dvd_trans a' a)

end Givaro.Lemmas.Primes
