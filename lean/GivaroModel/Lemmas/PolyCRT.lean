/-
C08 — `Poly1CRT` (Model/PolyCRT.lean) returns the polynomial of degree below the number of points that takes the given
residues; the scalar fused forms `axpy(r, a, x, y)` / `axpyin(r, a, x)`.
-/
import GivaroModel.Lemmas.PolyInterp
import GivaroModel.Lemmas.PolyEuclid
import GivaroModel.Model.PolyCRT

open Polynomial
set_option linter.unusedSectionVars false

namespace Givaro.Lemmas.PolyCRT
open Givaro.Model.Poly Givaro.Model.PolyCRT Givaro.Lemmas.Poly Givaro.Lemmas.PolyInterp

variable {K : Type} [Field K] [DecidableEq K]

theorem toPoly_axpyVal (a : K) (X' Y : List K) : toPoly (axpyVal a X' Y) = C a * toPoly X' + toPoly Y := by
  induction X' generalizing Y with
  | nil => cases Y <;> simp [axpyVal]
  | cons x X' ih =>
    cases Y with
    | nil =>
      simp only [axpyVal, toPoly_nil, add_zero]
      have := toPoly_mulVal (x :: X') a
      simp only [mulVal] at this
      rw [show (List.map (fun x => a * x) (x :: X')) = List.map (fun b => b * a) (x :: X') by
        apply List.map_congr_left; intro b _; ring]
      rw [this]; ring
    | cons y Y => simp only [axpyVal, toPoly_cons, ih, C_add, C_mul]; ring

theorem toPoly_axpyinVal (a : K) (R X' : List K) : toPoly (axpyinVal a R X') = toPoly R + C a * toPoly X' := by
  induction R generalizing X' with
  | nil =>
    cases X' with
    | nil => simp [axpyinVal]
    | cons x X' =>
      simp only [axpyinVal, toPoly_nil, zero_add]
      have := toPoly_mulVal (x :: X') a
      simp only [mulVal] at this
      rw [show (List.map (fun x => a * x) (x :: X')) = List.map (fun b => b * a) (x :: X') by
        apply List.map_congr_left; intro b _; ring]
      rw [this]; ring
  | cons r R ih =>
    cases X' with
    | nil => simp [axpyinVal]
    | cons x X' => simp only [axpyinVal, toPoly_cons, ih, C_add, C_mul]; ring

theorem prodX_append (L : List K) (a : K) : prodX (L ++ [a]) = prodX L * (X - C a) := by
  induction L with
  | nil => simp [prodX]
  | cons b L ih => simp only [List.cons_append, prodX, ih]; ring

theorem prodX_eval_ne_zero (L : List K) (a : K) (h : a ∉ L) : (prodX L).eval a ≠ 0 := by
  induction L with
  | nil => simp [prodX]
  | cons b L ih =>
    simp only [prodX, eval_mul, eval_sub, eval_X, eval_C]
    have hb : a ≠ b := fun e => h (by rw [e]; exact List.mem_cons_self ..)
    exact mul_ne_zero (sub_ne_zero.mpr hb) (ih (fun hm => h (List.mem_cons_of_mem _ hm)))

theorem degree_prodX (L : List K) : (prodX L).degree = (L.length : WithBot ℕ) := by
  rw [degree_eq_natDegree (prodX_monic L).ne_zero, prodX_natDegree]

/-- the rounds of `ComputeCk` / `RnsToRing` keep an interpolant of the points already seen -/
theorem loop_spec (thr : Nat) : ∀ (rest : List (K × K)) (prod I : List K) (prev : K) (done : List (K × K)),
    toPoly prod * (X - C prev) = prodX (done.map Prod.fst) →
    Interp (toPoly I) done → (toPoly I).degree < (done.length : WithBot ℕ) →
    ((done ++ rest).map Prod.fst).Nodup →
    Interp (toPoly (loop thr prod I prev rest)) (done ++ rest) ∧
    (toPoly (loop thr prod I prev rest)).degree < ((done.length + rest.length : ℕ) : WithBot ℕ) := by
  intro rest
  induction rest with
  | nil =>
    intro prod I prev done _ hI hd _
    simp only [loop, List.append_nil, Nat.add_zero]
    exact ⟨hI, hd⟩
  | cons pr rest ih =>
    obtain ⟨p, r⟩ := pr
    intro prod I prev done hprod hI hd hnd
    simp only [loop]
    have hP1 : toPoly (mulin thr prod [-prev, 1]) = prodX (done.map Prod.fst) := by
      unfold mulin assign
      have e : toPoly ([-prev, 1] : List K) = X - C prev := by
        simp only [toPoly_cons, toPoly_nil, C_neg, C_1]; ring
      rw [toPoly_setdegree, toPoly_mul, ← hprod, e]
    have hpnot : p ∉ done.map Prod.fst := by
      rw [List.map_append, List.nodup_append] at hnd
      intro hm
      exact hnd.2.2 p hm p (by simp) rfl
    have hev : Givaro.Model.Poly.eval (mulin thr prod [-prev, 1]) p ≠ 0 := by
      rw [eval_eq, hP1]; exact prodX_eval_ne_zero _ _ hpnot
    have hnew : toPoly (axpyinVal (-(Givaro.Model.Poly.eval I p) + r) I
          (mulVal (mulin thr prod [-prev, 1]) (Givaro.Model.Poly.eval (mulin thr prod [-prev, 1]) p)⁻¹))
        = toPoly I + C (-((toPoly I).eval p) + r) *
            (prodX (done.map Prod.fst) * C ((prodX (done.map Prod.fst)).eval p)⁻¹) := by
      rw [toPoly_axpyinVal, toPoly_mulVal, eval_eq, eval_eq, hP1]
    have hev' : (prodX (done.map Prod.fst)).eval p ≠ 0 := prodX_eval_ne_zero _ _ hpnot
    have h := ih (mulin thr prod [-prev, 1]) _ p (done ++ [(p, r)])
      (by rw [hP1, List.map_append, List.map_cons, List.map_nil, prodX_append])
      (by
        rw [hnew]
        intro q hq
        simp only [eval_add, eval_mul, eval_C]
        rcases List.mem_append.mp hq with hq | hq
        · rw [hI q hq, prodX_eval _ _ (List.mem_map.mpr ⟨q, hq, rfl⟩)]; ring
        · have : q = (p, r) := by simpa using hq
          subst this
          simp only []
          rw [mul_inv_cancel₀ hev']; ring)
      (by
        rw [hnew, List.length_append, List.length_cons, List.length_nil]
        refine lt_of_le_of_lt (degree_add_le _ _) (max_lt ?_ ?_)
        · exact lt_trans hd (by exact_mod_cast (by omega : done.length < done.length + (0 + 1)))
        · refine lt_of_le_of_lt (degree_mul_le _ _) ?_
          refine lt_of_le_of_lt (add_le_add degree_C_le (degree_mul_le _ _)) ?_
          rw [zero_add]
          refine lt_of_le_of_lt (add_le_add (le_refl _) degree_C_le) ?_
          rw [add_zero, degree_prodX, List.length_map]
          exact_mod_cast (by omega : done.length < done.length + (0 + 1)))
      (by simpa [List.append_assoc] using hnd)
    rw [List.append_assoc, List.singleton_append, List.length_append, List.length_cons, List.length_nil] at h
    refine ⟨h.1, ?_⟩
    have e : done.length + (0 + 1) + rest.length = done.length + (rest.length + 1) := by omega
    rw [e] at h
    simpa using h.2

/-- `RnsToRing`: for pairwise distinct points and as many residues, the result takes the residue `rns[i]` at `primes[i]`
    for every `i` and has degree below the number of points -/
theorem rnsToRing_spec (thr : Nat) (primes rns : List K) (hne : primes ≠ []) (hlen : rns.length = primes.length)
    (hnd : primes.Nodup) :
    (∀ q ∈ primes.zip rns, (toPoly (rnsToRing thr primes rns)).eval q.1 = q.2) ∧
    (toPoly (rnsToRing thr primes rns)).degree < (primes.length : WithBot ℕ) := by
  cases primes with
  | nil => exact absurd rfl hne
  | cons p0 ps =>
    cases rns with
    | nil => simp at hlen
    | cons r0 rs =>
      simp only [rnsToRing]
      have hl : rs.length = ps.length := by simpa using hlen
      have hmap : (ps.zip rs).map Prod.fst = ps := by
        rw [List.map_fst_zip]; omega
      have h := loop_spec thr (ps.zip rs) [1] (assignC r0) p0 [(p0, r0)]
        (by simp [prodX])
        (by intro q hq
            have : q = (p0, r0) := by simpa using hq
            subst this
            rw [toPoly_assignC']; simp)
        (by rw [toPoly_assignC']
            exact lt_of_le_of_lt degree_C_le (by simp))
        (by simp only [List.singleton_append, List.map_cons, hmap]; exact hnd)
      simp only [List.singleton_append, List.length_cons, List.length_nil] at h
      refine ⟨?_, ?_⟩
      · intro q hq
        simp only [List.zip_cons_cons] at hq
        exact h.1 q hq
      · have hz : (ps.zip rs).length = ps.length := by rw [List.length_zip]; omega
        rw [hz] at h
        have e : 0 + 1 + ps.length = ps.length + 1 := by omega
        rw [e] at h
        simpa using h.2

end Givaro.Lemmas.PolyCRT
