/- C12 — the sieve `IntFactorDom::Erathostene` (Model/PrimesErat.lean) returns exactly the primes dividing n, in increasing order:
   loop invariant of the outer walk (every prime below i has been divided out of n and pushed; marked numbers are composite),
   the marking loop detects divisibility, the walk over unmarked odd numbers skips no prime. -/
import GivaroModel.Model.PrimesErat
import Mathlib.Data.Nat.Sqrt
import Mathlib.Data.Nat.Prime.Basic
import Mathlib.Tactic.Ring
namespace Givaro.Lemmas.Primes
open Givaro.Model.Primes

theorem erat_getD_set (ip : Array Bool) (j k : Nat) (h : (ip.setIfInBounds j true).getD k false = true) :
    k = j ∨ ip.getD k false = true := by
  by_cases hjk : j = k
  · exact Or.inl hjk.symm
  · right
    simpa [Array.getD_eq_getD_getElem?, Array.getElem?_setIfInBounds, hjk] using h

/-- the marking loop: what it marks, and where `j` ends -/
theorem eratMark_spec (ii n : Nat) (hii : 1 ≤ ii) : ∀ (fuel : Nat) (ip : Array Bool) (j : Nat), n + 1 ≤ fuel + j →
    (∀ k, (eratMark ii n fuel ip j).1.getD k false = true → ip.getD k false = true ∨ ∃ t, k = j + t * ii) ∧
    (∃ t, (eratMark ii n fuel ip j).2 = j + t * ii ∧ n < (eratMark ii n fuel ip j).2 ∧
      (t = 0 ∨ (eratMark ii n fuel ip j).2 ≤ n + ii)) := by
  intro fuel
  induction fuel with
  | zero =>
    intro ip j h
    simp only [eratMark]
    exact ⟨fun k hk => Or.inl hk, 0, by simp, by omega, Or.inl rfl⟩
  | succ f ih =>
    intro ip j h
    unfold eratMark
    by_cases hj : j ≤ n
    · simp only [hj, ↓reduceIte]
      obtain ⟨h1, t, h2, h3, h4⟩ := ih (ip.setIfInBounds j true) (j + ii) (by omega)
      refine ⟨?_, t + 1, ?_, h3, Or.inr ?_⟩
      · intro k hk
        rcases h1 k hk with h5 | ⟨t', h5⟩
        · rcases erat_getD_set ip j k h5 with h6 | h6
          · exact Or.inr ⟨0, by simp [h6]⟩
          · exact Or.inl h6
        · exact Or.inr ⟨t' + 1, by rw [h5]; ring⟩
      · rw [h2]; ring
      · rcases h4 with h4 | h4
        · rw [h2, h4]; simp; omega
        · exact h4
    · simp only [hj, ↓reduceIte]
      exact ⟨fun k hk => Or.inl hk, 0, by simp, by omega, Or.inl rfl⟩

/-- "the last multiple marked is n" is divisibility (n odd) -/
theorem erat_detect (i n t j : Nat) (hi : 0 < i) (hn : n % 2 = 1) (hj : j = (i + 2 * i) + t * (2 * i)) (hlt : n < j)
    (hle : t = 0 ∨ j ≤ n + 2 * i) : j - 2 * i = n ↔ i ∣ n := by
  have hjj : j - 2 * i = i * (1 + 2 * t) := by
    apply Nat.sub_eq_of_eq_add; rw [hj]; ring
  constructor
  · intro h; rw [← h, hjj]; exact Dvd.intro _ rfl
  · rintro ⟨m, rfl⟩
    rw [hjj]
    have hm : m % 2 = 1 := by
      rcases Nat.mod_two_eq_zero_or_one m with h0 | h1
      · rw [Nat.mul_mod, h0] at hn; simp at hn
      · exact h1
    have hj3 : j = i * (3 + 2 * t) := by rw [hj]; ring
    have hlt' : m < 3 + 2 * t := by
      rw [hj3] at hlt; exact Nat.lt_of_mul_lt_mul_left hlt
    have hge : 1 + 2 * t ≤ m := by
      rcases hle with h0 | h1
      · subst h0; omega
      · have : i * (3 + 2 * t) ≤ i * (m + 2) := by rw [← hj3]; calc j ≤ i * m + 2 * i := h1
                                                            _ = i * (m + 2) := by ring
        have := Nat.le_of_mul_le_mul_left this hi
        omega
    have : m = 1 + 2 * t := by omega
    rw [this]

/-- the walk to the next unmarked number of the same parity -/
theorem eratNext_spec (ip : Array Bool) : ∀ (fuel j : Nat),
    j < eratNext ip fuel j ∧ (eratNext ip fuel j - j) % 2 = 1 ∧
    ∀ k, j < k → k < eratNext ip fuel j → (k - j) % 2 = 1 → ip.getD k false = true := by
  intro fuel
  induction fuel with
  | zero => intro j; simp only [eratNext]; exact ⟨by omega, by omega, fun k h1 h2 => by omega⟩
  | succ f ih =>
    intro j
    unfold eratNext
    by_cases hm : ip.getD (j + 1) false = true
    · simp only [hm, ↓reduceIte]
      obtain ⟨h1, h2, h3⟩ := ih (j + 2)
      refine ⟨by omega, by omega, ?_⟩
      intro k k1 k2 k3
      by_cases hk : k = j + 1
      · rw [hk]; exact hm
      · exact h3 k (by omega) k2 (by omega)
    · simp only [hm]
      exact ⟨by simp, by simp, fun k h1 h2 => by simp at h2; omega⟩

/-- dividing `i` out completely -/
theorem eratStrip_spec (i : Nat) (hi : 2 ≤ i) : ∀ (fuel n : Nat), 1 ≤ n → n ≤ fuel → i ∣ n →
    1 ≤ eratStrip i fuel n ∧ ¬ i ∣ eratStrip i fuel n ∧ ∃ k, n = i ^ k * eratStrip i fuel n := by
  intro fuel
  induction fuel with
  | zero => intro n h1 h2; omega
  | succ f ih =>
    intro n h1 h2 hd
    obtain ⟨m, rfl⟩ := hd
    have hm : 1 ≤ m := by
      rcases Nat.eq_zero_or_pos m with h0 | h0
      · subst h0; simp at h1
      · exact h0
    have hdiv : i * m / i = m := Nat.mul_div_cancel_left m (by omega)
    unfold eratStrip
    simp only [hdiv]
    by_cases h0 : m % i = 0
    · simp only [h0, ↓reduceIte]
      have hlt : m ≤ f := by
        have : 2 * m ≤ i * m := Nat.mul_le_mul_right m hi
        omega
      obtain ⟨a, b, k, c⟩ := ih m hm hlt (Nat.dvd_of_mod_eq_zero h0)
      refine ⟨a, b, k + 1, ?_⟩
      rw [pow_succ]; conv_lhs => rw [c]
      ring
    · simp only [h0, ↓reduceIte]
      refine ⟨hm, fun hd => h0 (Nat.mod_eq_zero_of_dvd hd), 1, by simp⟩

theorem erat_prime_dvd_strip {i q n r k : Nat} (hi : Nat.Prime i) (hq : Nat.Prime q) (hn : n = i ^ k * r) (hin : i ∣ n) :
    q ∣ n ↔ q = i ∨ q ∣ r := by
  constructor
  · intro h
    rw [hn] at h
    rcases (Nat.Prime.dvd_mul hq).1 h with h1 | h1
    · left; exact (Nat.prime_dvd_prime_iff_eq hq hi).1 (hq.dvd_of_dvd_pow h1)
    · exact Or.inr h1
  · rintro (h | h)
    · rw [h]; exact hin
    · rw [hn]; exact Dvd.dvd.mul_left h _

/-- the loop invariant -/
structure EInv (N i n : Nat) (ip : Array Bool) (out : List Nat) : Prop where
  npos : 1 ≤ n
  nodd : n % 2 = 1
  iodd : i % 2 = 1
  i3 : 3 ≤ i
  low : ∀ q, Nat.Prime q → q ∣ n → i ≤ q
  fac : ∀ q, Nat.Prime q → (q ∣ N ↔ q ∈ out ∨ q ∣ n)
  outp : ∀ q ∈ out, Nat.Prime q ∧ q < i
  sorted : out.Pairwise (· < ·)
  marks : ∀ k, ip.getD k false = true → ∃ d m, 3 ≤ d ∧ 3 ≤ m ∧ k = d * m

theorem erat_marked_not_prime {k : Nat} (h : ∃ d m, 3 ≤ d ∧ 3 ≤ m ∧ k = d * m) : ¬ Nat.Prime k := by
  obtain ⟨d, m, hd, hm, rfl⟩ := h
  intro hp
  rcases (Nat.Prime.eq_one_or_self_of_dvd hp d (Dvd.intro _ rfl)) with h1 | h1
  · omega
  · have : d * 1 < d * m := (Nat.mul_lt_mul_left (by omega : 0 < d)).2 (by omega)
    omega

theorem eratLoop_succ (fuel i n : Nat) (ip : Array Bool) (out : List Nat) :
    eratLoop (fuel + 1) i n ip out =
      if i ≤ Nat.sqrt n then
        eratLoop fuel (eratNext (eratMark (2 * i) n (n + 1) ip (i + 2 * i)).1 (eratMark (2 * i) n (n + 1) ip (i + 2 * i)).1.size (i + 1))
          (if (eratMark (2 * i) n (n + 1) ip (i + 2 * i)).2 - 2 * i = n then (eratStrip i n n, out ++ [i]) else (n, out)).1
          (eratMark (2 * i) n (n + 1) ip (i + 2 * i)).1
          (if (eratMark (2 * i) n (n + 1) ip (i + 2 * i)).2 - 2 * i = n then (eratStrip i n n, out ++ [i]) else (n, out)).2
      else (n, ip, out) := rfl

/-- one round of the outer loop keeps the invariant, moves `i` up and does not increase `n` -/
theorem erat_step (N i n : Nat) (ip : Array Bool) (out : List Nat) (inv : EInv N i n ip out) (_hle : i ≤ Nat.sqrt n) :
    EInv N (eratNext (eratMark (2 * i) n (n + 1) ip (i + 2 * i)).1 (eratMark (2 * i) n (n + 1) ip (i + 2 * i)).1.size (i + 1))
      (if (eratMark (2 * i) n (n + 1) ip (i + 2 * i)).2 - 2 * i = n then (eratStrip i n n, out ++ [i]) else (n, out)).1
      (eratMark (2 * i) n (n + 1) ip (i + 2 * i)).1
      (if (eratMark (2 * i) n (n + 1) ip (i + 2 * i)).2 - 2 * i = n then (eratStrip i n n, out ++ [i]) else (n, out)).2
    ∧ i < eratNext (eratMark (2 * i) n (n + 1) ip (i + 2 * i)).1 (eratMark (2 * i) n (n + 1) ip (i + 2 * i)).1.size (i + 1)
    ∧ (if (eratMark (2 * i) n (n + 1) ip (i + 2 * i)).2 - 2 * i = n then (eratStrip i n n, out ++ [i]) else (n, out)).1 ≤ n := by
  obtain ⟨npos, nodd, iodd, i3, low, fac, outp, sorted, marks⟩ := inv
  obtain ⟨hmarks, t, hj, hjn, hjle⟩ := eratMark_spec (2 * i) n (by omega) (n + 1) ip (i + 2 * i) (by omega)
  generalize hmj : eratMark (2 * i) n (n + 1) ip (i + 2 * i) = mj at *
  have hdet : mj.2 - 2 * i = n ↔ i ∣ n := erat_detect i n t mj.2 (by omega) nodd hj hjn hjle
  -- marks stay composite
  have marks' : ∀ k, mj.1.getD k false = true → ∃ d m, 3 ≤ d ∧ 3 ≤ m ∧ k = d * m := by
    intro k hk
    rcases hmarks k hk with h | ⟨t', h⟩
    · exact marks k h
    · exact ⟨i, 3 + 2 * t', i3, by omega, by rw [h]; ring⟩
  obtain ⟨hn1, hn2, hn3⟩ := eratNext_spec mj.1 mj.1.size (i + 1)
  generalize hi1 : eratNext mj.1 mj.1.size (i + 1) = i1 at *
  -- no prime strictly between i and i1
  have noprime : ∀ q, Nat.Prime q → i < q → q < i1 → False := by
    intro q hq h1 h2
    rcases hq.eq_two_or_odd with h | h
    · omega
    · by_cases hq1 : q = i + 1
      · omega
      · have := hn3 q (by omega) h2 (by omega)
        exact erat_marked_not_prime (marks' q this) hq
  by_cases hd : mj.2 - 2 * i = n
  · have hin : i ∣ n := hdet.1 hd
    simp only [hd, ↓reduceIte]
    -- i is prime
    have hip : Nat.Prime i := by
      have h1 : Nat.Prime (Nat.minFac i) := Nat.minFac_prime (by omega)
      have h2 : Nat.minFac i ∣ n := Nat.dvd_trans (Nat.minFac_dvd i) hin
      have h3 := low _ h1 h2
      have h4 := Nat.minFac_le (n := i) (by omega)
      have : Nat.minFac i = i := by omega
      rw [← this]; exact h1
    obtain ⟨s1, s2, k, s3⟩ := eratStrip_spec i (by omega) n n npos (le_refl n) hin
    generalize eratStrip i n n = r at *
    have hrn : r ∣ n := by rw [s3]; exact Dvd.intro_left _ rfl
    refine ⟨⟨s1, ?_, by omega, by omega, ?_, ?_, ?_, ?_, marks'⟩, by omega, Nat.le_of_dvd (by omega) hrn⟩
    · -- r odd
      rcases Nat.mod_two_eq_zero_or_one r with h0 | h1
      · have : 2 ∣ n := Nat.dvd_trans (Nat.dvd_of_mod_eq_zero h0) hrn
        omega
      · exact h1
    · intro q hq hqr
      have h1 := low q hq (Nat.dvd_trans hqr hrn)
      by_contra hlt
      rcases Nat.lt_or_ge i q with h2 | h2
      · exact noprime q hq h2 (by omega)
      · have : q = i := by omega
        rw [this] at hqr; exact s2 hqr
    · intro q hq
      rw [fac q hq, erat_prime_dvd_strip hip hq s3 hin, List.mem_append, List.mem_singleton]
      tauto
    · intro q hq
      rcases List.mem_append.1 hq with h | h
      · exact ⟨(outp q h).1, by have := (outp q h).2; omega⟩
      · rw [List.mem_singleton.1 h]; exact ⟨hip, by omega⟩
    · rw [List.pairwise_append]
      refine ⟨sorted, List.pairwise_singleton _ _, ?_⟩
      intro a ha b hb
      rw [List.mem_singleton.1 hb]; exact (outp a ha).2
  · have hin : ¬ i ∣ n := fun h => hd (hdet.2 h)
    simp only [hd, ↓reduceIte]
    refine ⟨⟨npos, nodd, by omega, by omega, ?_, fac, ?_, sorted, marks'⟩, by omega, le_refl n⟩
    · intro q hq hqn
      have h1 := low q hq hqn
      by_contra hlt
      rcases Nat.lt_or_ge i q with h2 | h2
      · exact noprime q hq h2 (by omega)
      · have : q = i := by omega
        rw [this] at hqn; exact hin hqn
    · intro q hq
      exact ⟨(outp q hq).1, by have := (outp q hq).2; omega⟩

/-- the outer loop ends with the invariant and `i > ⌊√n⌋` -/
theorem eratLoop_spec (N : Nat) : ∀ (fuel i n : Nat) (ip : Array Bool) (out : List Nat), EInv N i n ip out → n + 2 ≤ fuel + i →
    ∃ i', EInv N i' (eratLoop fuel i n ip out).1 (eratLoop fuel i n ip out).2.1 (eratLoop fuel i n ip out).2.2 ∧
      ¬ i' ≤ Nat.sqrt (eratLoop fuel i n ip out).1 := by
  intro fuel
  induction fuel with
  | zero =>
    intro i n ip out inv h
    refine ⟨i, by simpa [eratLoop] using inv, ?_⟩
    simp only [eratLoop]
    rw [Nat.le_sqrt]
    have : n < i := by omega
    have : i * 1 ≤ i * i := Nat.mul_le_mul_left i (by omega)
    omega
  | succ f ih =>
    intro i n ip out inv h
    rw [eratLoop_succ]
    by_cases hle : i ≤ Nat.sqrt n
    · simp only [hle, ↓reduceIte]
      obtain ⟨inv', h1, h2⟩ := erat_step N i n ip out inv hle
      exact ih _ _ _ _ inv' (by omega)
    · simp only [hle, ↓reduceIte]
      exact ⟨i, inv, hle⟩

/-- the final push -/
theorem erat_final (N i n : Nat) (ip : Array Bool) (out : List Nat) (inv : EInv N i n ip out) (hgt : ¬ i ≤ Nat.sqrt n) :
    (∀ q, q ∈ (if !(ip.getD n false) && decide (1 < n) then out ++ [n] else out) ↔ Nat.Prime q ∧ q ∣ N) ∧
    (if !(ip.getD n false) && decide (1 < n) then out ++ [n] else out).Pairwise (· < ·) := by
  obtain ⟨npos, nodd, iodd, i3, low, fac, outp, sorted, marks⟩ := inv
  rw [Nat.le_sqrt] at hgt
  by_cases h1 : 1 < n
  · -- what is left is a prime
    have hp : Nat.Prime n := by
      by_contra hnp
      have h2 := Nat.minFac_sq_le_self (by omega : 0 < n) hnp
      have h3 := low _ (Nat.minFac_prime (by omega)) (Nat.minFac_dvd n)
      have : i * i ≤ Nat.minFac n * Nat.minFac n := Nat.mul_le_mul h3 h3
      rw [pow_two] at h2
      omega
    have hum : ip.getD n false = false := by
      rcases hb : ip.getD n false with _ | _
      · rfl
      · exact absurd hp (erat_marked_not_prime (marks n hb))
    simp only [hum, h1, Bool.not_false, decide_true, Bool.and_self, ↓reduceIte]
    constructor
    · intro q
      rw [List.mem_append, List.mem_singleton]
      constructor
      · rintro (h | h)
        · exact ⟨(outp q h).1, (fac q (outp q h).1).2 (Or.inl h)⟩
        · rw [h]; exact ⟨hp, (fac n hp).2 (Or.inr (dvd_refl n))⟩
      · rintro ⟨hq, hd⟩
        rcases (fac q hq).1 hd with h | h
        · exact Or.inl h
        · right
          rcases (Nat.Prime.eq_one_or_self_of_dvd hp q h) with h2 | h2
          · exact absurd h2 hq.one_lt.ne'
          · exact h2
    · rw [List.pairwise_append]
      refine ⟨sorted, List.pairwise_singleton _ _, ?_⟩
      intro a ha b hb
      rw [List.mem_singleton.1 hb]
      have := (outp a ha).2
      have := low n hp (dvd_refl n)
      omega
  · have hn1 : n = 1 := by omega
    have : (!(ip.getD n false) && decide (1 < n)) = false := by simp [h1]
    simp only [this]
    refine ⟨?_, sorted⟩
    intro q
    constructor
    · intro h; exact ⟨(outp q h).1, (fac q (outp q h).1).2 (Or.inl h)⟩
    · rintro ⟨hq, hd⟩
      rcases (fac q hq).1 hd with h | h
      · exact h
      · rw [hn1] at h
        exact absurd (Nat.dvd_one.1 h) hq.one_lt.ne'

/-- **`Erathostene(Lf, p)` pushes exactly the primes dividing `n = |p| mod 2^64` (n ≠ 0), in increasing order** -/
theorem erathostene_spec (p : Int) (h0 : p.natAbs % 18446744073709551616 ≠ 0) :
    (∀ q, q ∈ erathostene p ↔ Nat.Prime q ∧ q ∣ p.natAbs % 18446744073709551616) ∧ (erathostene p).Pairwise (· < ·) := by
  unfold erathostene
  simp only [h0, ↓reduceIte]
  generalize p.natAbs % 18446744073709551616 = N at *
  -- the state after the factors 2
  have hinit : EInv N 3 (if N % 2 = 0 then ([2], eratStrip2 N N) else (([] : List Nat), N)).2
      (Array.replicate ((if N % 2 = 0 then ([2], eratStrip2 N N) else (([] : List Nat), N)).2 + 1) false)
      (if N % 2 = 0 then ([2], eratStrip2 N N) else (([] : List Nat), N)).1 := by
    have hmarks : ∀ (sz k : Nat), (Array.replicate sz false).getD k false = true → ∃ d m, 3 ≤ d ∧ 3 ≤ m ∧ k = d * m := by
      intro sz k hk
      exfalso
      simp [Array.getD_eq_getD_getElem?, Array.getElem?_replicate] at hk
      split at hk <;> simp at hk
    by_cases he : N % 2 = 0
    · simp only [he, ↓reduceIte]
      unfold eratStrip2
      obtain ⟨s1, s2, k, s3⟩ := eratStrip_spec 2 (le_refl 2) N N (by omega) (le_refl N) (Nat.dvd_of_mod_eq_zero he)
      generalize eratStrip 2 N N = r at *
      have hodd : r % 2 = 1 := by
        rcases Nat.mod_two_eq_zero_or_one r with h | h
        · exact absurd (Nat.dvd_of_mod_eq_zero h) s2
        · exact h
      refine ⟨s1, hodd, by decide, le_refl 3, ?_, ?_, ?_, List.pairwise_singleton _ _, hmarks _⟩
      · intro q hq hqr
        have := hq.two_le
        rcases Nat.lt_or_ge q 3 with h | h
        · have : q = 2 := by omega
          rw [this] at hqr; exact absurd hqr s2
        · exact h
      · intro q hq
        rw [erat_prime_dvd_strip Nat.prime_two hq s3 (Nat.dvd_of_mod_eq_zero he), List.mem_singleton]
      · intro q hq
        rw [List.mem_singleton.1 hq]; exact ⟨Nat.prime_two, by decide⟩
    · simp only [he, ↓reduceIte]
      refine ⟨by omega, by omega, by decide, le_refl 3, ?_, ?_, ?_, List.Pairwise.nil, hmarks _⟩
      · intro q hq hqn
        have := hq.two_le
        rcases Nat.lt_or_ge q 3 with h | h
        · have : q = 2 := by omega
          rw [this] at hqn; omega
        · exact h
      · intro q hq; simp
      · intro q hq; simp at hq
  generalize (if N % 2 = 0 then ([2], eratStrip2 N N) else (([] : List Nat), N)) = st at *
  obtain ⟨i', inv', hgt⟩ := eratLoop_spec N (st.2 + 1) 3 st.2 (Array.replicate (st.2 + 1) false) st.1 hinit (by omega)
  generalize eratLoop (st.2 + 1) 3 st.2 (Array.replicate (st.2 + 1) false) st.1 = r at *
  exact erat_final N i' r.1 r.2.1 r.2.2 inv' hgt

end Givaro.Lemmas.Primes
