/-
Machine words as integers with explicit conversions.

A value of a C++ integral type is modelled as an `Int` lying in the type's range; every
conversion the compiler performs (clang's implicit and explicit cast nodes for translated code,
by hand elsewhere) is an explicit `wrap…`.  Signed overflow, which is undefined behaviour in
C++, is given the two's-complement meaning of the compiled binary (DESIGN.md §3.1).
Core Lean only: this file is linked into the driver executable.
-/
namespace Givaro

def wrapU8  (x : Int) : Int := x % 256
def wrapU16 (x : Int) : Int := x % 65536
def wrapU32 (x : Int) : Int := x % 4294967296
def wrapU64 (x : Int) : Int := x % 18446744073709551616
def wrapS8  (x : Int) : Int := (x + 128) % 256 - 128
def wrapS16 (x : Int) : Int := (x + 32768) % 65536 - 32768
def wrapS32 (x : Int) : Int := (x + 2147483648) % 4294967296 - 2147483648
def wrapS64 (x : Int) : Int := (x + 9223372036854775808) % 18446744073709551616 - 9223372036854775808

def InU8  (x : Int) : Prop := 0 ≤ x ∧ x < 256
def InU16 (x : Int) : Prop := 0 ≤ x ∧ x < 65536
def InU32 (x : Int) : Prop := 0 ≤ x ∧ x < 4294967296
def InU64 (x : Int) : Prop := 0 ≤ x ∧ x < 18446744073709551616
def InS8  (x : Int) : Prop := -128 ≤ x ∧ x < 128
def InS16 (x : Int) : Prop := -32768 ≤ x ∧ x < 32768
def InS32 (x : Int) : Prop := -2147483648 ≤ x ∧ x < 2147483648
def InS64 (x : Int) : Prop := -9223372036854775808 ≤ x ∧ x < 9223372036854775808

instance (x : Int) : Decidable (InU8 x)  := by unfold InU8;  exact inferInstance
instance (x : Int) : Decidable (InU16 x) := by unfold InU16; exact inferInstance
instance (x : Int) : Decidable (InU32 x) := by unfold InU32; exact inferInstance
instance (x : Int) : Decidable (InU64 x) := by unfold InU64; exact inferInstance
instance (x : Int) : Decidable (InS8 x)  := by unfold InS8;  exact inferInstance
instance (x : Int) : Decidable (InS16 x) := by unfold InS16; exact inferInstance
instance (x : Int) : Decidable (InS32 x) := by unfold InS32; exact inferInstance
instance (x : Int) : Decidable (InS64 x) := by unfold InS64; exact inferInstance

/-- `std::abs` on a signed word: the compiled code negates in the type (wraps at the minimum). -/
def absS32 (x : Int) : Int := wrapS32 (if x < 0 then -x else x)
def absS64 (x : Int) : Int := wrapS64 (if x < 0 then -x else x)
def absS16 (x : Int) : Int := wrapS16 (if x < 0 then -x else x)
def absS8  (x : Int) : Int := wrapS8  (if x < 0 then -x else x)

/-- two's-complement bit logic on `Int` (core Lean has none; same definitions as Mathlib's) -/
def ldiffN (m n : Nat) : Nat := Nat.bitwise (fun a b => a && !b) m n
def iland : Int → Int → Int
  | .ofNat m, .ofNat n => (m &&& n : Nat)
  | .ofNat m, .negSucc n => (ldiffN m n : Nat)
  | .negSucc m, .ofNat n => (ldiffN n m : Nat)
  | .negSucc m, .negSucc n => .negSucc (m ||| n)
def ilor : Int → Int → Int
  | .ofNat m, .ofNat n => (m ||| n : Nat)
  | .ofNat m, .negSucc n => .negSucc (ldiffN n m)
  | .negSucc m, .ofNat n => .negSucc (ldiffN m n)
  | .negSucc m, .negSucc n => .negSucc (m &&& n)
def ilxor : Int → Int → Int
  | .ofNat m, .ofNat n => (m ^^^ n : Nat)
  | .ofNat m, .negSucc n => .negSucc (m ^^^ n)
  | .negSucc m, .ofNat n => .negSucc (m ^^^ n)
  | .negSucc m, .negSucc n => (m ^^^ n : Nat)

/-- bitwise operations on word values -/
def wland (a b : Int) : Int := iland a b
def wlor  (a b : Int) : Int := ilor a b
def wlxor (a b : Int) : Int := ilxor a b

/-- number of digits of `n` in base `b ≥ 2` (fuel-bounded; 1 for 0) -/
def ndigits (b : Nat) : Nat → Nat → Nat
  | 0, _ => 1
  | fuel+1, n => if n < b ∨ b < 2 then 1 else ndigits b fuel (n / b) + 1

/-- Result of a translated function: returned value, final values of `*this` (non-const
    methods) and of every non-const reference parameter in declaration order, and whether the
    call threw. -/
structure Res where
  ret  : Int
  outs : List Int
  exc  : Bool
deriving DecidableEq, Repr

def Res.thrown : Res := ⟨0, [], true⟩

end Givaro
