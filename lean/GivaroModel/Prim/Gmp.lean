/-
Contracts of the GMP `mpz_*` functions used by givaro, over `Int` (GMP manual §5).
GMP is *modelled, not verified* (trusted base, DESIGN.md §3.2 / §7).

Where GMP under-specifies, so does the model: the three-way comparisons return a value of the
right sign whose magnitude is the opaque `cmpMag` (the kernel knows nothing about it, so every
theorem holds for every admissible `mpz_cmp`; the compiled driver uses a magnitude that is *not*
1, so code that tests `== 1` disagrees with the implementation's intent in the correspondence).
Core Lean only.
-/
import GivaroModel.Prim.Word
namespace Givaro

/-- magnitude (minus one) of a non-zero three-way comparison result: unspecified by GMP. -/
opaque cmpMag (a b : Int) : Nat := (a - b).natAbs % 5
/-- number of limbs minus one of a non-zero integer (sign-magnitude `_mp_size`). -/
opaque limbsM1 (a : Int) : Nat := (Nat.log2 a.natAbs) / 64

def cmp3 (a b : Int) : Int :=
  if a < b then -((cmpMag a b : Int) + 1) else if a = b then 0 else (cmpMag a b : Int) + 1

/-- `_mp_size`: signed limb count -/
def mp_size (a : Int) : Int :=
  if a < 0 then -((limbsM1 a : Int) + 1) else if a = 0 then 0 else (limbsM1 a : Int) + 1

def iabs (a : Int) : Int := if a < 0 then -a else a

def mpz_add (a b : Int) : Int := a + b
def mpz_add_ui (a u : Int) : Int := a + u
def mpz_sub (a b : Int) : Int := a - b
def mpz_sub_ui (a u : Int) : Int := a - u
def mpz_ui_sub (u a : Int) : Int := u - a
def mpz_mul (a b : Int) : Int := a * b
def mpz_mul_ui (a u : Int) : Int := a * u
def mpz_mul_si (a s : Int) : Int := a * s
def mpz_neg (a : Int) : Int := -a
def mpz_abs (a : Int) : Int := iabs a
def mpz_addmul (r a b : Int) : Int := r + a * b
def mpz_addmul_ui (r a u : Int) : Int := r + a * u
def mpz_submul (r a b : Int) : Int := r - a * b
def mpz_submul_ui (r a u : Int) : Int := r - a * u
def mpz_swap_d0 (_a b : Int) : Int := b
def mpz_swap_d1 (a _b : Int) : Int := a

def mpz_cmp (a b : Int) : Int := cmp3 a b
def mpz_cmp_ui (a u : Int) : Int := cmp3 a u
def mpz_cmp_si (a s : Int) : Int := cmp3 a s
def mpz_cmpabs (a b : Int) : Int := cmp3 (iabs a) (iabs b)
def mpz_cmpabs_ui (a u : Int) : Int := cmp3 (iabs a) u

-- division: q·d + r = n in all cases
def mpz_tdiv_q (n d : Int) : Int := Int.tdiv n d
def mpz_tdiv_r (n d : Int) : Int := Int.tmod n d
def mpz_tdiv_qr_d0 (n d : Int) : Int := Int.tdiv n d
def mpz_tdiv_qr_d1 (n d : Int) : Int := Int.tmod n d
def mpz_fdiv_q (n d : Int) : Int := Int.fdiv n d
def mpz_fdiv_r (n d : Int) : Int := Int.fmod n d
def mpz_cdiv_q (n d : Int) : Int := -(Int.fdiv (-n) d)
def mpz_cdiv_r (n d : Int) : Int := -(Int.fmod (-n) d)
-- `_ui` variants: the function value is the absolute value of the remainder
def mpz_tdiv_q_ui_d0 (n d : Int) : Int := Int.tdiv n d
def mpz_tdiv_q_ui_ret (n d : Int) : Int := iabs (Int.tmod n d)
def mpz_tdiv_r_ui_d0 (n d : Int) : Int := Int.tmod n d
def mpz_tdiv_r_ui_ret (n d : Int) : Int := iabs (Int.tmod n d)
def mpz_tdiv_ui (n d : Int) : Int := iabs (Int.tmod n d)
def mpz_fdiv_q_ui_d0 (n d : Int) : Int := Int.fdiv n d
def mpz_fdiv_q_ui_ret (n d : Int) : Int := iabs (Int.fmod n d)
def mpz_fdiv_r_ui_d0 (n d : Int) : Int := Int.fmod n d
def mpz_fdiv_r_ui_ret (n d : Int) : Int := iabs (Int.fmod n d)
def mpz_fdiv_ui (n d : Int) : Int := iabs (Int.fmod n d)
def mpz_cdiv_q_ui_d0 (n d : Int) : Int := -(Int.fdiv (-n) d)
def mpz_cdiv_q_ui_ret (n d : Int) : Int := iabs (Int.fmod (-n) d)
def mpz_cdiv_r_ui_d0 (n d : Int) : Int := -(Int.fmod (-n) d)
def mpz_cdiv_r_ui_ret (n d : Int) : Int := iabs (Int.fmod (-n) d)
def mpz_cdiv_ui (n d : Int) : Int := iabs (Int.fmod (-n) d)
def mpz_fdiv_qr_d0 (n d : Int) : Int := Int.fdiv n d
def mpz_fdiv_qr_d1 (n d : Int) : Int := Int.fmod n d
def mpz_cdiv_qr_d0 (n d : Int) : Int := -(Int.fdiv (-n) d)
def mpz_cdiv_qr_d1 (n d : Int) : Int := -(Int.fmod (-n) d)
def mpz_tdiv_qr_ui_d0 (n d : Int) : Int := Int.tdiv n d
def mpz_tdiv_qr_ui_d1 (n d : Int) : Int := Int.tmod n d
def mpz_tdiv_qr_ui_ret (n d : Int) : Int := iabs (Int.tmod n d)
def mpz_fdiv_qr_ui_d0 (n d : Int) : Int := Int.fdiv n d
def mpz_fdiv_qr_ui_d1 (n d : Int) : Int := Int.fmod n d
def mpz_fdiv_qr_ui_ret (n d : Int) : Int := iabs (Int.fmod n d)
def mpz_cdiv_qr_ui_d0 (n d : Int) : Int := -(Int.fdiv (-n) d)
def mpz_cdiv_qr_ui_d1 (n d : Int) : Int := -(Int.fmod (-n) d)
def mpz_cdiv_qr_ui_ret (n d : Int) : Int := iabs (Int.fmod (-n) d)
def mpz_tdiv_r_2exp (a k : Int) : Int := Int.tmod a (2 ^ k.toNat)
def mpz_fdiv_r_2exp (a k : Int) : Int := a % 2 ^ k.toNat
def mpz_cdiv_q_2exp (a k : Int) : Int := -((-a) / 2 ^ k.toNat)
-- representability predicates (non-zero iff the value fits)
def mpz_fits_slong_p (a : Int) : Int := if -9223372036854775808 ≤ a ∧ a < 9223372036854775808 then 1 else 0
def mpz_fits_ulong_p (a : Int) : Int := if 0 ≤ a ∧ a < 18446744073709551616 then 1 else 0
def mpz_fits_sint_p (a : Int) : Int := if -2147483648 ≤ a ∧ a < 2147483648 then 1 else 0
def mpz_fits_uint_p (a : Int) : Int := if 0 ≤ a ∧ a < 4294967296 then 1 else 0
def mpz_fits_sshort_p (a : Int) : Int := if -32768 ≤ a ∧ a < 32768 then 1 else 0
def mpz_fits_ushort_p (a : Int) : Int := if 0 ≤ a ∧ a < 65536 then 1 else 0
def mpz_divisible_p (n d : Int) : Int := if d = 0 then (if n = 0 then 1 else 0) else (if n % d = 0 then 1 else 0)
def mpz_divisible_ui_p (n d : Int) : Int := if d = 0 then (if n = 0 then 1 else 0) else (if n % d = 0 then 1 else 0)
def mpz_sgn (a : Int) : Int := if a < 0 then -1 else if a = 0 then 0 else 1
/-- `mpz_mod`: the sign of the divisor is ignored, the result is non-negative -/
def mpz_mod (n d : Int) : Int := n % d
def mpz_mod_ui_d0 (n d : Int) : Int := n % d
def mpz_mod_ui_ret (n d : Int) : Int := n % d
/-- `mpz_divexact`: only specified when `d ∣ n` -/
def mpz_divexact (n d : Int) : Int := Int.tdiv n d
def mpz_divexact_ui (n d : Int) : Int := Int.tdiv n d

-- two's complement bit logic
def mpz_and (a b : Int) : Int := iland a b
def mpz_ior (a b : Int) : Int := ilor a b
def mpz_xor (a b : Int) : Int := ilxor a b
def mpz_com (a : Int) : Int := -a - 1
def mpz_mul_2exp (a k : Int) : Int := a * 2 ^ k.toNat
def mpz_tdiv_q_2exp (a k : Int) : Int := Int.tdiv a (2 ^ k.toNat)
def mpz_fdiv_q_2exp (a k : Int) : Int := a / 2 ^ k.toNat

def mpz_gcd (a b : Int) : Int := (Int.gcd a b : Int)
def mpz_lcm (a b : Int) : Int := (Int.lcm a b : Int)

/-- extended Euclid on naturals: returns (g, s, t) with s*a + t*b = g (as integers) -/
def xgcdAux : Nat → Int → Int → Nat → Int → Int → Nat → (Nat × Int × Int)
  | 0, _, _, r', s', t', _ => (r', s', t')
  | r+1, s, t, r', s', t', fuel =>
    match fuel with
    | 0 => (r', s', t')
    | fuel+1 =>
      let q : Int := (r' / (r+1) : Nat)
      xgcdAux (r' % (r+1)) (s' - q * s) (t' - q * t) (r+1) s t fuel

def xgcd (a b : Nat) : Nat × Int × Int := xgcdAux b 0 1 a 1 0 (a + b + 1)

/-- Bezout cofactors: *some* pair with `s*a + t*b = gcd a b`; GMP guarantees no more
    (beyond size bounds that givaro does not rely on). The driver never compares them with the
    implementation's; it checks the identity on the implementation's outputs instead. -/
def mpz_gcdext_d0 (a b : Int) : Int := (Int.gcd a b : Int)
def mpz_gcdext_d1 (a b : Int) : Int := (if a < 0 then -1 else 1) * (xgcd a.natAbs b.natAbs).2.1
def mpz_gcdext_d2 (a b : Int) : Int := (if b < 0 then -1 else 1) * (xgcd a.natAbs b.natAbs).2.2

/-- `mpz_invert`: non-zero return and the inverse in `[0,|m|)` when it exists -/
def mpz_invert_ret (a m : Int) : Int := if Int.gcd a m = 1 ∧ m ≠ 0 then 1 else 0
def mpz_invert_d0 (a m : Int) : Int :=
  if Int.gcd a m = 1 ∧ m ≠ 0 then (((xgcd a.natAbs m.natAbs).2.1 * (if a < 0 then -1 else 1)) % m) else 0

def mpz_pow_ui (b e : Int) : Int := b ^ e.toNat
def mpz_ui_pow_ui (b e : Int) : Int := b ^ e.toNat

/-- modular exponentiation by squaring on naturals (so that the driver can evaluate it) -/
def powModNat (b : Nat) (e : Nat) (m : Nat) : Nat :=
  if m = 0 then 0 else
  if e = 0 then 1 % m else
    let h := powModNat b (e / 2) m
    let h2 := (h * h) % m
    if e % 2 = 1 then (h2 * (b % m)) % m else h2
decreasing_by omega

/-- `mpz_powm` for a non-negative exponent: result in `[0, |m|)` -/
def mpz_powm (b e m : Int) : Int := (powModNat (b % m).toNat e.toNat m.natAbs : Int)
def mpz_powm_ui (b e m : Int) : Int := (powModNat (b % m).toNat e.toNat m.natAbs : Int)

def mpz_sqrt (a : Int) : Int := (Nat.sqrt a.toNat : Int)
def mpz_sqrtrem_d0 (a : Int) : Int := (Nat.sqrt a.toNat : Int)
def mpz_sqrtrem_d1 (a : Int) : Int := a - (Nat.sqrt a.toNat : Int) * (Nat.sqrt a.toNat : Int)

def factN : Nat → Nat
  | 0 => 1
  | n+1 => (n+1) * factN n
def mpz_fac_ui (n : Int) : Int := (factN n.toNat : Nat)
-- number-theoretic predicates: oracles (GMP trusted; certified per call where a property needs them)
opaque mpz_jacobi (a b : Int) : Int
opaque mpz_probab_prime_p (a reps : Int) : Int
opaque mpz_nextprime (a : Int) : Int
opaque mpz_perfect_power_p (a : Int) : Int
opaque mpz_root_d0 (a n : Int) : Int
opaque mpz_root_ret (a n : Int) : Int

def mpz_get_ui (a : Int) : Int := (iabs a) % 18446744073709551616
/-- `mpz_get_si`: sign and the low 63 bits of the magnitude (exact whenever the value fits) -/
def mpz_get_si (a : Int) : Int :=
  if a > 0 then (a % 18446744073709551616) % 9223372036854775808
  else if a < 0 then -1 - (((-a) % 18446744073709551616 - 1) % 9223372036854775808)
  else 0
def mpz_size (a : Int) : Int := if a = 0 then 0 else (limbsM1 a : Int) + 1
/-- `mpz_sizeinbase`: exact for base 2 (GMP: exact for powers of two, else possibly one too big) -/
def mpz_sizeinbase (a b : Int) : Int := (ndigits b.toNat a.natAbs a.natAbs : Nat)
def mpz_tstbit (a k : Int) : Int := (a / 2 ^ k.toNat) % 2
def mpz_getlimbn (a k : Int) : Int := ((iabs a) / 2 ^ (64 * k.toNat)) % 18446744073709551616

end Givaro
