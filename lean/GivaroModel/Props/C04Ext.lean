/-
C04 (round 2) — `ModularExtended<float|double>::init` from machine integers NARROWER than the element type (the template overload:
`Caster<Element>(a)` then the FMA `reduce`).  Model: `ECfg.initSmall` (Model/ModRingInit.lean), `ECfg.reduceQ` (Model/ModRingExt.lean).

`reduce(x)` computes `q = floor(x · (1/p))` in floating point, `r = fma(-q, p, x)` and corrects ONCE (`r ≥ p → r − p`, `r < 0 → r + p`).
The theorem is for EVERY quotient estimate within one of the true quotient (`−p ≤ a − q·p < 2p`); that the IEEE estimate meets this
is the same contract as for `mul` (Props/C03 `ExtContract`), tied by correspondence with the soft-float model in both builds.
-/
import GivaroModel.Props.C03
import GivaroModel.Model.ModRingInit
namespace Givaro.Props.C04Ext
open Givaro.Model.ModRing Givaro.Spec.ModRing Givaro.Props.C03

/-- Full statement: `k.initSmall p a = some (canonU p a)` for every narrow machine integer `a` with NO hypothesis on the
    estimate; proved here given the closeness of the floating quotient estimate (the FMA/IEEE contract, correspondence). -/
theorem extended_init_small_exact_partial (k : ECfg) (hv : k.valid) (p a : Int) (hp : 2 ≤ p) (hm : p ≤ k.maxCard)
    (ha : k.f a = some a)                                   -- the source is exactly representable (narrower than the mantissa)
    (hc : -p ≤ a - k.qEst p a * p ∧ a - k.qEst p a * p < 2 * p) :
    k.initSmall p a = some (canonU p a) := by
  have hpow : (0 : Int) ≤ (2 : Int) ^ (k.mant - 4) := by positivity
  unfold ECfg.initSmall
  rw [ha]
  simp only [Option.bind_eq_bind, Option.bind_some]
  unfold ECfg.reduce ECfg.reduceQ
  rw [ext_fit k hv p hm (a - k.qEst p a * p) (by omega) (by omega)]
  simp only [Option.bind_eq_bind, Option.bind_some]
  unfold canonU
  exact extended_correct k hv p hp hm _ a hc.1 hc.2 (k.qEst p a) (by ring)
example : (ECfg.mk 53).valid ∧ (ECfg.mk 53).f (-2147483648) = some (-2147483648) ∧
    -(1125899906842623 : Int) ≤ -2147483648 - (ECfg.mk 53).qEst 1125899906842623 (-2147483648) * 1125899906842623 ∧
    (ECfg.mk 53).initSmall 1125899906842623 (-2147483648) = some (canonU 1125899906842623 (-2147483648)) := by
  unfold ECfg.valid; decide +kernel

end Givaro.Props.C04Ext
