/-
C06 — fixed-precision recursive integers compute exactly modulo 2^(2^K).

Property theorems about the model `Model/RecInt.lean` (a transcription of src/kernel/recint/ru*.h with the generic
recursive template and the `__RECINT_LIMB_SIZE`, `__RECINT_LIMB_SIZE+1` specialisations).  `RU n` is `ruint<6+n>`,
`Bn n = 2^(2^(6+n))`, `val` the represented number, `WF` "every limb is below 2^64".  Every theorem is for **every**
level `n` (no bound on K) and all well-formed operands; carries and borrows are exact (`c2n` reads a `bool` as 0/1).
-/
import GivaroModel.Lemmas.RecIntBits
namespace Givaro.Props.C06
open Givaro.Model.RecInt

/-! ### representation -/
/-- the driver's embedding `ofNat` is the reduction modulo `2^(2^K)` and produces well-formed values
    (so the theorems below apply to every line the correspondence evaluates) -/
theorem ofNat_exact : ∀ (n v : Nat), WF (ofNat n v) ∧ val (ofNat n v) = v % Bn n
  | 0, v => by
      rw [Bn_zero]; simp only [ofNat, WF, val]; exact ⟨Nat.mod_lt _ (by decide), trivial⟩
  | n+1, v => by
      have h1 := ofNat_exact n (v % Bn n)
      have h2 := ofNat_exact n (v / Bn n)
      simp only [ofNat, WF_node, val_node]
      refine ⟨⟨h1.1, h2.1⟩, ?_⟩
      rw [h1.2, h2.2, Bn_succ, Nat.mod_mod, Nat.mod_mul]

/-- every well-formed value is below `2^(2^K)` -/
theorem val_bound {n : Nat} (x : RU n) (h : WF x) : val x < Bn n := val_lt x h

/-! ### ruadd.h -/
/-- `add(r, a, b, c)`: `a = (b + c) mod 2^bits`, `r` is the exact carry -/
theorem add_exact {n : Nat} (b c : RU n) (hb : WF b) (hc : WF c) :
    WF (add b c).1 ∧ val (add b c).1 = (val b + val c) % Bn n ∧ c2n (add b c).2 = (val b + val c) / Bn n :=
  ⟨(add_ok b c hb hc).1, (add_ok b c hb hc).exact⟩

/-- `add_wc(r, a, b, c, cy)`: value and carry of `b + c + cy` -/
theorem add_wc_exact {n : Nat} (b c : RU n) (cy : Bool) (hb : WF b) (hc : WF c) :
    WF (add_wc b c cy).1 ∧ val (add_wc b c cy).1 = (val b + val c + c2n cy) % Bn n ∧
    c2n (add_wc b c cy).2 = (val b + val c + c2n cy) / Bn n :=
  ⟨(add_wc_ok b c cy hb hc).1, (add_wc_ok b c cy hb hc).exact⟩

/-- `add_1(r, a, b)` / `add_1(r, a)` / `++a` -/
theorem add_1_exact {n : Nat} (b : RU n) (hb : WF b) :
    WF (add_1 b).1 ∧ val (add_1 b).1 = (val b + 1) % Bn n ∧ c2n (add_1 b).2 = (val b + 1) / Bn n :=
  ⟨(add_1_ok b hb).1, (add_1_ok b hb).exact⟩

/-- `add(r, a, b, const T& c)` with an unsigned word `c` (also the `bool` carry the recursive templates pass on) -/
theorem add_limb_exact {n : Nat} (b : RU n) (c : Nat) (hb : WF b) (hc : c < B64) :
    WF (add_l b c).1 ∧ val (add_l b c).1 = (val b + c) % Bn n ∧ c2n (add_l b c).2 = (val b + c) / Bn n :=
  ⟨(add_l_ok b c hb hc).1, (add_l_ok b c hb hc).exact⟩

/-- the carry-less overloads `add(a, b, c)`, `a += c`, `b + c` -/
theorem addNC_exact {n : Nat} (b c : RU n) (hb : WF b) (hc : WF c) :
    WF (addNC b c) ∧ val (addNC b c) = (val b + val c) % Bn n := by
  rw [addNC_eq b c hb hc]; exact ⟨(add_exact b c hb hc).1, (add_exact b c hb hc).2.1⟩

theorem add_wcNC_exact {n : Nat} (b c : RU n) (cy : Bool) (hb : WF b) (hc : WF c) :
    WF (add_wcNC b c cy) ∧ val (add_wcNC b c cy) = (val b + val c + c2n cy) % Bn n := by
  rw [add_wcNC_eq b c cy hb hc]; exact ⟨(add_wc_exact b c cy hb hc).1, (add_wc_exact b c cy hb hc).2.1⟩

/-! ### rusub.h -/
/-- `sub(r, a, b, c)`: `a = (b - c) mod 2^bits`, `r` is the exact borrow -/
theorem sub_exact {n : Nat} (b c : RU n) (hb : WF b) (hc : WF c) :
    WF (sub b c).1 ∧ val (sub b c).1 = (val b + Bn n - val c) % Bn n ∧ ((sub b c).2 = true ↔ val b < val c) :=
  ⟨(sub_ok b c hb hc).1, (sub_ok b c hb hc).exact (val_lt b hb) (Nat.le_of_lt (val_lt c hc))⟩

/-- `sub_wc(r, a, b, c, cy)`: value and borrow of `b - c - cy` -/
theorem sub_wc_exact {n : Nat} (b c : RU n) (cy : Bool) (hb : WF b) (hc : WF c) :
    WF (sub_wc b c cy).1 ∧ val (sub_wc b c cy).1 = (val b + Bn n - (val c + c2n cy)) % Bn n ∧
    ((sub_wc b c cy).2 = true ↔ val b < val c + c2n cy) := by
  have h := val_lt c hc
  have := c2n_le cy
  exact ⟨(sub_wc_ok b c cy hb hc).1, (sub_wc_ok b c cy hb hc).exact (val_lt b hb) (by omega)⟩

/-- `sub_1(r, a, b)` / `sub_1(r, a)` / `--a` -/
theorem sub_1_exact {n : Nat} (b : RU n) (hb : WF b) :
    WF (sub_1 b).1 ∧ val (sub_1 b).1 = (val b + Bn n - 1) % Bn n ∧ ((sub_1 b).2 = true ↔ val b < 1) :=
  ⟨(sub_1_ok b hb).1, (sub_1_ok b hb).exact (val_lt b hb) (Bn_pos n)⟩

/-- `sub(r, a, b, const T& c)` with an unsigned word `c` -/
theorem sub_limb_exact {n : Nat} (b : RU n) (c : Nat) (hb : WF b) (hc : c < B64) :
    WF (sub_l b c).1 ∧ val (sub_l b c).1 = (val b + Bn n - c) % Bn n ∧ ((sub_l b c).2 = true ↔ val b < c) := by
  have hB : B64 ≤ Bn n := by
    induction n with
    | zero => rw [Bn_zero]
    | succ k ih => rw [Bn_succ]; have := Bn_pos k; have := ih (lo b) ((WF_lo_hi b).mp hb).1; nlinarith
  exact ⟨(sub_l_ok b c hb hc).1, (sub_l_ok b c hb hc).exact (val_lt b hb) (by omega)⟩

/-- the borrow-less overloads `sub(a, b, c)`, `a -= c`, `b - c` -/
theorem subNC_exact {n : Nat} (b c : RU n) (hb : WF b) (hc : WF c) :
    WF (subNC b c) ∧ val (subNC b c) = (val b + Bn n - val c) % Bn n := by
  rw [(subNC_val b c hb hc).2]; exact ⟨(subNC_val b c hb hc).1, (sub_exact b c hb hc).2.1⟩

theorem sub_wcNC_exact {n : Nat} (b c : RU n) (cy : Bool) (hb : WF b) (hc : WF c) :
    WF (sub_wcNC b c cy) ∧ val (sub_wcNC b c cy) = (val b + Bn n - (val c + c2n cy)) % Bn n := by
  rw [(sub_wcNC_val b c cy hb hc).2]; exact ⟨(sub_wcNC_val b c cy hb hc).1, (sub_wc_exact b c cy hb hc).2.1⟩

/-! ### rucmp.h -/
/-- `cmp(a, b)` returns exactly -1, 0, +1 according to the order of the values (so `<, <=, ==, …` are exact) -/
theorem cmp_exact {n : Nat} (a b : RU n) (ha : WF a) (hb : WF b) :
    (cmp a b = -1 ∧ val a < val b) ∨ (cmp a b = 0 ∧ val a = val b) ∨ (cmp a b = 1 ∧ val a > val b) :=
  cmp_spec a b ha hb

/-- `cmp(a, const T& c)` for an unsigned word: the sign test used by the limb-carry specialisations -/
theorem cmp_limb_lt_exact {n : Nat} (a : RU n) (c : Nat) (ha : WF a) (hc : c < B64) : cmp_l a c < 0 ↔ val a < c :=
  cmp_l_lt a c ha hc

/-- `a == 0` / `a != 0` -/
theorem isZero_exact {n : Nat} (a : RU n) : isZero a = true ↔ val a = 0 := isZero_iff a

/-! ### rumul.h: multiplication by a word -/
/-- `lmul(limb& ret, a, b, const T& c)`: `ret·2^bits + a = b·c` exactly and `ret` is a word (the carry added to the
    high word never wraps) -/
theorem lmul_limb_exact {n : Nat} (b : RU n) (c : Nat) (hb : WF b) (hc : c < B64) :
    WF (lmul_l b c).1 ∧ (lmul_l b c).2 < B64 ∧ val (lmul_l b c).1 + Bn n * (lmul_l b c).2 = val b * c :=
  lmul_l_ok b c hb hc

/-- `mul(a, b, const T& c)`, `a *= c`: the product modulo `2^bits` -/
theorem mul_limb_exact {n : Nat} (b : RU n) (c : Nat) (hb : WF b) (hc : c < B64) :
    WF (mul_l b c) ∧ val (mul_l b c) = (val b * c) % Bn n := mul_l_ok b c hb hc

/-! ### rushift.h: single-bit shifts -/
/-- `left_shift_1(z, b, a)`: `b = 2a mod 2^bits`, `z` is the bit shifted out -/
theorem shift1_left_exact {n : Nat} (a : RU n) (ha : WF a) :
    WF (left_shift_1 a).1 ∧ val (left_shift_1 a).1 + c2n (left_shift_1 a).2 * Bn n = 2 * val a :=
  left_shift_1_ok a ha

/-- `right_shift_1(z, b, a)`: `b = ⌊a/2⌋`, `z` is the bit shifted out -/
theorem shift1_right_exact {n : Nat} (a : RU n) (ha : WF a) :
    WF (right_shift_1 a).1 ∧ val (right_shift_1 a).1 = val a / 2 ∧ c2n (right_shift_1 a).2 = val a % 2 := by
  have h := right_shift_1_ok a ha
  have := c2n_le (right_shift_1 a).2
  exact ⟨h.1, by omega, by omega⟩

example : ∃ (b : RU 2) (c : Nat), WF b ∧ c < B64 ∧ (lmul_l b c).2 ≠ 0 := ⟨ones 2, 3, by simp [ones, WF, B64], by decide, by decide⟩
example : ∃ a : RU 2, WF a ∧ (left_shift_1 a).2 = true ∧ (right_shift_1 a).2 = true := ⟨ones 2, by simp [ones, WF, B64], by decide, by decide⟩

/-! ### rufiddling.h: complement and negation -/
/-- `~a` is `2^bits - 1 - a` -/
theorem not_exact {n : Nat} (a : RU n) (ha : WF a) : WF (not_ a) ∧ val (not_ a) = Bn n - 1 - val a := by
  have h := not_ok a ha
  exact ⟨h.1, by omega⟩

/-- `neg(r, a)`, `-a`: `(2^bits - a) mod 2^bits` -/
theorem neg_exact {n : Nat} (a : RU n) (ha : WF a) : WF (neg a) ∧ val (neg a) = (Bn n - val a) % Bn n := neg_ok a ha

example : ∃ a : RU 2, WF a ∧ val (neg a) ≠ 0 := ⟨ones 2, by simp [ones, WF, B64], by decide⟩

-- non-vacuity: well-formed operands exist at a recursive level, and the carries really occur
example : ∃ b c : RU 2, WF b ∧ WF c ∧ (add b c).2 = true :=
  ⟨ones 2, ones 2, by simp [ones, WF, B64], by simp [ones, WF, B64], by decide⟩
example : ∃ b c : RU 2, WF b ∧ WF c ∧ (sub b c).2 = true :=
  ⟨zero 2, ones 2, by simp [zero, WF, B64], by simp [ones, WF, B64], by decide⟩
example : ∃ b : RU 2, WF b ∧ (add_1 b).2 = true ∧ (sub_1 (zero 2)).2 = true := ⟨ones 2, by simp [ones, WF, B64], by decide, by decide⟩
example : ∃ (b : RU 2) (c : Nat), WF b ∧ c < B64 ∧ (add_l b c).2 = true ∧ (sub_l (zero 2) c).2 = true :=
  ⟨ones 2, 1, by simp [ones, WF, B64], by decide, by decide, by decide⟩
example : ∃ a b : RU 1, WF a ∧ WF b ∧ cmp a b = -1 :=
  ⟨zero 1, ones 1, by simp [zero, WF, B64], by simp [ones, WF, B64], by decide⟩

end Givaro.Props.C06
