/-
C06 — fixed-precision recursive integers compute exactly modulo 2^(2^K).

Property theorems about the model `Model/RecInt.lean` (a transcription of src/kernel/recint/ru*.h with the generic
recursive template and the `__RECINT_LIMB_SIZE`, `__RECINT_LIMB_SIZE+1` specialisations).  `RU n` is `ruint<6+n>`,
`Bn n = 2^(2^(6+n))`, `val` the represented number, `WF` "every limb is below 2^64".  Every theorem is for **every**
level `n` (no bound on K) and all well-formed operands; carries and borrows are exact (`c2n` reads a `bool` as 0/1).
-/
import GivaroModel.Lemmas.RecIntDiv2
namespace Givaro.Props.C06
open Givaro.Model.RecInt

/-! ### representation -/
/-- the driver's embedding `ofNat` is the reduction modulo `2^(2^K)` and produces well-formed values
    (so the theorems below apply to every line the correspondence evaluates) -/
theorem ofNat_exact : ∀ (n v : Nat), WF (ofNat n v) ∧ val (ofNat n v) = v % Bn n
  | 0, v => by
      rw [Bn_zero]; simp only [ofNat, WF, val]; exact ⟨Nat.mod_lt _ (by decide), trivial⟩
  | n+1, v => by
      have h1 := ofNat_exact n (v % Bn n)
      have h2 := ofNat_exact n (v / Bn n)
      simp only [ofNat, WF_node, val_node]
      refine ⟨⟨h1.1, h2.1⟩, ?_⟩
      rw [h1.2, h2.2, Bn_succ, Nat.mod_mod, Nat.mod_mul]

/-- every well-formed value is below `2^(2^K)` -/
theorem val_bound {n : Nat} (x : RU n) (h : WF x) : val x < Bn n := val_lt x h

/-! ### ruadd.h -/
/-- `add(r, a, b, c)`: `a = (b + c) mod 2^bits`, `r` is the exact carry -/
theorem add_exact {n : Nat} (b c : RU n) (hb : WF b) (hc : WF c) :
    WF (add b c).1 ∧ val (add b c).1 = (val b + val c) % Bn n ∧ c2n (add b c).2 = (val b + val c) / Bn n :=
  ⟨(add_ok b c hb hc).1, (add_ok b c hb hc).exact⟩

/-- `add_wc(r, a, b, c, cy)`: value and carry of `b + c + cy` -/
theorem add_wc_exact {n : Nat} (b c : RU n) (cy : Bool) (hb : WF b) (hc : WF c) :
    WF (add_wc b c cy).1 ∧ val (add_wc b c cy).1 = (val b + val c + c2n cy) % Bn n ∧
    c2n (add_wc b c cy).2 = (val b + val c + c2n cy) / Bn n :=
  ⟨(add_wc_ok b c cy hb hc).1, (add_wc_ok b c cy hb hc).exact⟩

/-- `add_1(r, a, b)` / `add_1(r, a)` / `++a` -/
theorem add_1_exact {n : Nat} (b : RU n) (hb : WF b) :
    WF (add_1 b).1 ∧ val (add_1 b).1 = (val b + 1) % Bn n ∧ c2n (add_1 b).2 = (val b + 1) / Bn n :=
  ⟨(add_1_ok b hb).1, (add_1_ok b hb).exact⟩

/-- `add(r, a, b, const T& c)` with an unsigned word `c` (also the `bool` carry the recursive templates pass on) -/
theorem add_limb_exact {n : Nat} (b : RU n) (c : Nat) (hb : WF b) (hc : c < B64) :
    WF (add_l b c).1 ∧ val (add_l b c).1 = (val b + c) % Bn n ∧ c2n (add_l b c).2 = (val b + c) / Bn n :=
  ⟨(add_l_ok b c hb hc).1, (add_l_ok b c hb hc).exact⟩

/-- the carry-less overloads `add(a, b, c)`, `a += c`, `b + c` -/
theorem addNC_exact {n : Nat} (b c : RU n) (hb : WF b) (hc : WF c) :
    WF (addNC b c) ∧ val (addNC b c) = (val b + val c) % Bn n := by
  rw [addNC_eq b c hb hc]; exact ⟨(add_exact b c hb hc).1, (add_exact b c hb hc).2.1⟩

theorem add_wcNC_exact {n : Nat} (b c : RU n) (cy : Bool) (hb : WF b) (hc : WF c) :
    WF (add_wcNC b c cy) ∧ val (add_wcNC b c cy) = (val b + val c + c2n cy) % Bn n := by
  rw [add_wcNC_eq b c cy hb hc]; exact ⟨(add_wc_exact b c cy hb hc).1, (add_wc_exact b c cy hb hc).2.1⟩

/-! ### rusub.h -/
/-- `sub(r, a, b, c)`: `a = (b - c) mod 2^bits`, `r` is the exact borrow -/
theorem sub_exact {n : Nat} (b c : RU n) (hb : WF b) (hc : WF c) :
    WF (sub b c).1 ∧ val (sub b c).1 = (val b + Bn n - val c) % Bn n ∧ ((sub b c).2 = true ↔ val b < val c) :=
  ⟨(sub_ok b c hb hc).1, (sub_ok b c hb hc).exact (val_lt b hb) (Nat.le_of_lt (val_lt c hc))⟩

/-- `sub_wc(r, a, b, c, cy)`: value and borrow of `b - c - cy` -/
theorem sub_wc_exact {n : Nat} (b c : RU n) (cy : Bool) (hb : WF b) (hc : WF c) :
    WF (sub_wc b c cy).1 ∧ val (sub_wc b c cy).1 = (val b + Bn n - (val c + c2n cy)) % Bn n ∧
    ((sub_wc b c cy).2 = true ↔ val b < val c + c2n cy) := by
  have h := val_lt c hc
  have := c2n_le cy
  exact ⟨(sub_wc_ok b c cy hb hc).1, (sub_wc_ok b c cy hb hc).exact (val_lt b hb) (by omega)⟩

/-- `sub_1(r, a, b)` / `sub_1(r, a)` / `--a` -/
theorem sub_1_exact {n : Nat} (b : RU n) (hb : WF b) :
    WF (sub_1 b).1 ∧ val (sub_1 b).1 = (val b + Bn n - 1) % Bn n ∧ ((sub_1 b).2 = true ↔ val b < 1) :=
  ⟨(sub_1_ok b hb).1, (sub_1_ok b hb).exact (val_lt b hb) (Bn_pos n)⟩

/-- `sub(r, a, b, const T& c)` with an unsigned word `c` -/
theorem sub_limb_exact {n : Nat} (b : RU n) (c : Nat) (hb : WF b) (hc : c < B64) :
    WF (sub_l b c).1 ∧ val (sub_l b c).1 = (val b + Bn n - c) % Bn n ∧ ((sub_l b c).2 = true ↔ val b < c) := by
  have hB : B64 ≤ Bn n := by
    induction n with
    | zero => rw [Bn_zero]
    | succ k ih => rw [Bn_succ]; have := Bn_pos k; have := ih (lo b) ((WF_lo_hi b).mp hb).1; nlinarith
  exact ⟨(sub_l_ok b c hb hc).1, (sub_l_ok b c hb hc).exact (val_lt b hb) (by omega)⟩

/-- the borrow-less overloads `sub(a, b, c)`, `a -= c`, `b - c` -/
theorem subNC_exact {n : Nat} (b c : RU n) (hb : WF b) (hc : WF c) :
    WF (subNC b c) ∧ val (subNC b c) = (val b + Bn n - val c) % Bn n := by
  rw [(subNC_val b c hb hc).2]; exact ⟨(subNC_val b c hb hc).1, (sub_exact b c hb hc).2.1⟩

theorem sub_wcNC_exact {n : Nat} (b c : RU n) (cy : Bool) (hb : WF b) (hc : WF c) :
    WF (sub_wcNC b c cy) ∧ val (sub_wcNC b c cy) = (val b + Bn n - (val c + c2n cy)) % Bn n := by
  rw [(sub_wcNC_val b c cy hb hc).2]; exact ⟨(sub_wcNC_val b c cy hb hc).1, (sub_wc_exact b c cy hb hc).2.1⟩

/-! ### rucmp.h -/
/-- `cmp(a, b)` returns exactly -1, 0, +1 according to the order of the values (so `<, <=, ==, …` are exact) -/
theorem cmp_exact {n : Nat} (a b : RU n) (ha : WF a) (hb : WF b) :
    (cmp a b = -1 ∧ val a < val b) ∨ (cmp a b = 0 ∧ val a = val b) ∨ (cmp a b = 1 ∧ val a > val b) :=
  cmp_spec a b ha hb

/-- `cmp(a, const T& c)` for an unsigned word: the sign test used by the limb-carry specialisations -/
theorem cmp_limb_lt_exact {n : Nat} (a : RU n) (c : Nat) (ha : WF a) (hc : c < B64) : cmp_l a c < 0 ↔ val a < c :=
  cmp_l_lt a c ha hc

/-- `a == 0` / `a != 0` -/
theorem isZero_exact {n : Nat} (a : RU n) : isZero a = true ↔ val a = 0 := isZero_iff a

/-! ### rumul.h: multiplication by a word -/
/-- `lmul(limb& ret, a, b, const T& c)`: `ret·2^bits + a = b·c` exactly and `ret` is a word (the carry added to the
    high word never wraps) -/
theorem lmul_limb_exact {n : Nat} (b : RU n) (c : Nat) (hb : WF b) (hc : c < B64) :
    WF (lmul_l b c).1 ∧ (lmul_l b c).2 < B64 ∧ val (lmul_l b c).1 + Bn n * (lmul_l b c).2 = val b * c :=
  lmul_l_ok b c hb hc

/-- `mul(a, b, const T& c)`, `a *= c`: the product modulo `2^bits` -/
theorem mul_limb_exact {n : Nat} (b : RU n) (c : Nat) (hb : WF b) (hc : c < B64) :
    WF (mul_l b c) ∧ val (mul_l b c) = (val b * c) % Bn n := mul_l_ok b c hb hc

/-! ### rushift.h: single-bit shifts -/
/-- `left_shift_1(z, b, a)`: `b = 2a mod 2^bits`, `z` is the bit shifted out -/
theorem shift1_left_exact {n : Nat} (a : RU n) (ha : WF a) :
    WF (left_shift_1 a).1 ∧ val (left_shift_1 a).1 + c2n (left_shift_1 a).2 * Bn n = 2 * val a :=
  left_shift_1_ok a ha

/-- `right_shift_1(z, b, a)`: `b = ⌊a/2⌋`, `z` is the bit shifted out -/
theorem shift1_right_exact {n : Nat} (a : RU n) (ha : WF a) :
    WF (right_shift_1 a).1 ∧ val (right_shift_1 a).1 = val a / 2 ∧ c2n (right_shift_1 a).2 = val a % 2 := by
  have h := right_shift_1_ok a ha
  have := c2n_le (right_shift_1 a).2
  exact ⟨h.1, by omega, by omega⟩

example : ∃ (b : RU 2) (c : Nat), WF b ∧ c < B64 ∧ (lmul_l b c).2 ≠ 0 := ⟨ones 2, 3, by simp [ones, WF, B64], by decide, by decide⟩
example : ∃ a : RU 2, WF a ∧ (left_shift_1 a).2 = true ∧ (right_shift_1 a).2 = true := ⟨ones 2, by simp [ones, WF, B64], by decide, by decide⟩

/-! ### rufiddling.h: complement and negation -/
/-- `~a` is `2^bits - 1 - a` -/
theorem not_exact {n : Nat} (a : RU n) (ha : WF a) : WF (not_ a) ∧ val (not_ a) = Bn n - 1 - val a := by
  have h := not_ok a ha
  exact ⟨h.1, by omega⟩

/-- `neg(r, a)`, `-a`: `(2^bits - a) mod 2^bits` -/
theorem neg_exact {n : Nat} (a : RU n) (ha : WF a) : WF (neg a) ∧ val (neg a) = (Bn n - val a) % Bn n := neg_ok a ha

example : ∃ a : RU 2, WF a ∧ val (neg a) ≠ 0 := ⟨ones 2, by simp [ones, WF, B64], by decide⟩

/-! ### rumul.h, ruaddmul.h: the full multiplication family, for any value `t` of `__RECINT_THRESHOLD_KARA` -/
/-- `lmul_naive(ah, al, b, c)`: `ah·2^bits + al = b·c` exactly (the model returns the pair as `node al ah`) -/
theorem lmul_naive_exact (t : Nat) {n : Nat} (b c : RU n) (hb : WF b) (hc : WF c) :
    WF (lmul_naive t b c) ∧ val (hi (lmul_naive t b c)) * Bn n + val (lo (lmul_naive t b c)) = val b * val c := by
  have h := (mul_family t n).1 b c hb hc
  refine ⟨h.1, ?_⟩
  rw [← h.2, val_lo_hi (lmul_naive t b c)]; ring

/-- `lmul_kara(ah, al, b, c)`: exact; this includes the obligation that the middle-term correction
    `r = (rb&rc)+rt1+rt2-rt3-rt4`, which the code stores in a `bool`, is 0 or 1 (`lmul_kara_correction_exact`) and that none of
    the final carry propagations into `ah` wraps -/
theorem lmul_kara_exact (t : Nat) {n : Nat} (b c : RU n) (hb : WF b) (hc : WF c) :
    WF (lmul_kara t b c) ∧ val (hi (lmul_kara t b c)) * Bn n + val (lo (lmul_kara t b c)) = val b * val c := by
  have h := (mul_family t n).2.1 b c hb hc
  refine ⟨h.1, ?_⟩
  rw [← h.2, val_lo_hi (lmul_kara t b c)]; ring

/-- the content of storing `(rb&rc)+rt1+rt2-rt3-rt4` in a `bool`: whenever the five flags satisfy the bookkeeping equation of
    Karatsuba's middle term (`D4 < 2^bits` the reduced middle word, `mid < 2·2^bits` the true middle term), the integer is 0 or 1
    and the bool read back as a number is that integer -/
theorem lmul_kara_correction_exact (B2 D4 mid : Nat) (rbc rt1 rt2 rt3 rt4 : Bool) (hD : D4 < B2) (hm : mid < 2 * B2)
    (E : D4 + (c2n rbc + c2n rt1 + c2n rt2) * B2 = mid + (c2n rt3 + c2n rt4) * B2) :
    ((c2n rbc + c2n rt1 + c2n rt2 : Nat) : Int) - (c2n rt3 + c2n rt4 : Nat) ∈ [0, 1] ∧
    D4 + c2n (decide (((if rbc = true then 1 else 0) + (if rt1 = true then 1 else 0) + (if rt2 = true then 1 else 0)
          - (if rt3 = true then 1 else 0) - (if rt4 = true then 1 else 0) : Int) ≠ 0)) * B2 = mid := by
  refine ⟨?_, kara_r B2 D4 mid rbc rt1 rt2 rt3 rt4 hD hm E⟩
  cases rbc <;> cases rt1 <;> cases rt2 <;> cases rt3 <;> cases rt4 <;> simp [c2n] at E ⊢ <;> omega

/-- `lmul(ah, al, b, c)` (dispatch on the threshold): exact for every threshold -/
theorem lmul_exact (t : Nat) {n : Nat} (b c : RU n) (hb : WF b) (hc : WF c) :
    WF (lmul t b c) ∧ val (hi (lmul t b c)) * Bn n + val (lo (lmul t b c)) = val b * val c := by
  have h := lmul_ok t b c hb hc
  refine ⟨h.1, ?_⟩
  rw [← h.2, val_lo_hi (lmul t b c)]; ring

/-- `laddmul(r, ah, al, b, c, d)` with `d : ruint<K>`: `(ah|al) + r·2^(2·bits) = b·c + d` (so `r` is never set) -/
theorem laddmul_exact (t : Nat) {n : Nat} (b c d : RU n) (hb : WF b) (hc : WF c) (hd : WF d) :
    WF (laddmul1 t b c d).1 ∧ val (laddmul1 t b c d).1 + c2n (laddmul1 t b c d).2 * Bn (n+1) = val b * val c + val d ∧
    (laddmul1 t b c d).2 = false := by
  have h := (mul_family t n).2.2.2.1 b c d hb hc hd
  refine ⟨h.1, h.2, ?_⟩
  have hlt : val b * val c + val d < Bn (n+1) := by rw [Bn_succ]; exact mul_add_lt_sq (val_lt b hb) (val_lt c hc) (val_lt d hd)
  have := (no_carry h.2 hlt).2
  cases hr : (laddmul1 t b c d).2
  · rfl
  · rw [hr] at this; simp at this

/-- `laddmul(ah, al, b, c, d)` with `d : ruint<K>`, the carry-less overload: `(ah|al) = b·c + d` -/
theorem laddmulNC_exact (t : Nat) {n : Nat} (b c d : RU n) (hb : WF b) (hc : WF c) (hd : WF d) :
    WF (laddmul1NC t b c d) ∧ val (laddmul1NC t b c d) = val b * val c + val d :=
  (mul_family t n).2.2.2.2.1 b c d hb hc hd

/-- `laddmul(r, ah, al, b, c, d)` with `d : ruint<K+1>`: value and the exact carry -/
theorem laddmul3_exact (t : Nat) {n : Nat} (b c : RU n) (d : RU (n+1)) (hb : WF b) (hc : WF c) (hd : WF d) :
    WF (laddmul3 t b c d).1 ∧ val (laddmul3 t b c d).1 = (val b * val c + val d) % Bn (n+1) ∧
    c2n (laddmul3 t b c d).2 = (val b * val c + val d) / Bn (n+1) := by
  have h := (mul_family t n).2.2.2.2.2 b c d hb hc hd
  exact ⟨h.1, h.exact⟩

/-- `mul(a, b, c)`, `a *= c`, `b * c`: the product modulo `2^bits` -/
theorem mul_low_exact (t : Nat) {n : Nat} (b c : RU n) (hb : WF b) (hc : WF c) :
    WF (mul t b c) ∧ val (mul t b c) = (val b * val c) % Bn n := mul_ok t b c hb hc

/-- `addmul(a, b, c)`: `a = (a + b·c) mod 2^bits` -/
theorem addmul_exact (t : Nat) {n : Nat} (a b c : RU n) (ha : WF a) (hb : WF b) (hc : WF c) :
    WF (addmul t a b c) ∧ val (addmul t a b c) = (val a + val b * val c) % Bn n := addmul_ok t a b c ha hb hc

/-- `lsquare(a, b)`: the full double-width square -/
theorem lsquare_exact (t : Nat) {n : Nat} (b : RU n) (hb : WF b) :
    WF (lsquare t b) ∧ val (lsquare t b) = val b * val b := lsquare_ok t b hb

/-- `square(a, b)`: the square modulo `2^bits` -/
theorem square_exact (t : Nat) {n : Nat} (b : RU n) (hb : WF b) :
    WF (square t b) ∧ val (square t b) = (val b * val b) % Bn n := square_ok t b hb

-- non-vacuity of the hypotheses of the multiplication theorems (the model functions are defined by well-founded recursion
-- and do not reduce in the kernel, so the witnesses are only shown to be well-formed; the driver executes them)
example : ∃ (b c : RU 2) (d : RU 3), WF b ∧ WF c ∧ WF d :=
  ⟨ones 2, ones 2, ones 3, by simp [ones, WF, B64], by simp [ones, WF, B64], by simp [ones, WF, B64]⟩

/-! ### rudiv.h: division by a normalised divisor (both quotient corrections) -/
/- Full statements (kept visible):
   div_3_2_exact : ∀ t n (a2 a1 a0 b1 b0 : RU n), WF … → Bn n ≤ 2 * val b1 → val a2 * Bn n + val a1 < val b1 * Bn n + val b0 →
       (val a2 * Bn n + val a1) * Bn n + val a0 = val q * (val b1 * Bn n + val b0) + (val r1 * Bn n + val r0) ∧ val r1 * Bn n + val r0 < val b1 * Bn n + val b0
   div_2_1_exact : ∀ t n (ah al b : RU n), WF … → Bn n ≤ 2 * val b → val ah < val b → val ah * Bn n + val al = val q * val b + val r ∧ val r < val b
   Proved below for every level under the single hypothesis `Div32Limb t` (the `__RECINT_LIMB_SIZE` specialisation of div_3_2, whose
   second correction is decided by `r >= b`, satisfies the same statement at level 0); what is missing is the kernel-checked proof of
   that limb-level fact.  The generic template (every level >= 1: estimate by div_2_1 or B-1, first correction, second correction
   decided by the carry) and div_2_1 (limb base case and recursive step) are proved unconditionally. -/

/-- the generic `div_3_2` template at level `m+1` is exact whenever `div_2_1` is at that level: quotient estimate too large by
    0, 1 or 2, both corrections, `a = q·b + r ∧ r < b` -/
theorem div_3_2_generic_exact (t m : Nat)
    (IH21 : ∀ ah al b : RU (m+1), WF ah → WF al → WF b → Bn (m+1) ≤ 2 * val b → val ah < val b → Div21Ok (div_2_1 t ah al b) ah al b)
    (a2 a1 a0 b1 b0 : RU (m+1)) (ha2 : WF a2) (ha1 : WF a1) (ha0 : WF a0) (hb1 : WF b1) (hb0 : WF b0)
    (hn : Bn (m+1) ≤ 2 * val b1) (hlt : val a2 * Bn (m+1) + val a1 < val b1 * Bn (m+1) + val b0) :
    Div32Ok (div_3_2 t a2 a1 a0 b1 b0) a2 a1 a0 b1 b0 :=
  div_3_2_step t m IH21 a2 a1 a0 b1 b0 ha2 ha1 ha0 hb1 hb0 hn hlt

/-- `div_2_1` at the limb level (`recint_udiv_qrnnd` contract) -/
theorem div_2_1_limb_exact (t : Nat) (ah al b : RU 0) (hah : WF ah) (hal : WF al) (hb : WF b) (hlt : val ah < val b) :
    Div21Ok (div_2_1 t ah al b) ah al b := div_2_1_zero t ah al b hah hal hb hlt

/-- `div_3_2` at every level, given the limb-level specialisation -/
theorem div_3_2_exact_partial (t : Nat) (H0 : Div32Limb t) {n : Nat} (a2 a1 a0 b1 b0 : RU n)
    (ha2 : WF a2) (ha1 : WF a1) (ha0 : WF a0) (hb1 : WF b1) (hb0 : WF b0)
    (hn : Bn n ≤ 2 * val b1) (hlt : val a2 * Bn n + val a1 < val b1 * Bn n + val b0) :
    Div32Ok (div_3_2 t a2 a1 a0 b1 b0) a2 a1 a0 b1 b0 :=
  (div_family_of_limb t H0 n).2 a2 a1 a0 b1 b0 ha2 ha1 ha0 hb1 hb0 hn hlt

/-- `div_2_1` at every level, given the limb-level specialisation of `div_3_2` -/
theorem div_2_1_exact_partial (t : Nat) (H0 : Div32Limb t) {n : Nat} (ah al b : RU n) (hah : WF ah) (hal : WF al) (hb : WF b)
    (hn : Bn n ≤ 2 * val b) (hlt : val ah < val b) : Div21Ok (div_2_1 t ah al b) ah al b :=
  (div_family_of_limb t H0 n).1 ah al b hah hal hb hn hlt

example : ∃ (ah al b : RU 1), WF ah ∧ WF al ∧ WF b ∧ Bn 1 ≤ 2 * val b ∧ val ah < val b :=
  ⟨zero 1, zero 1, ones 1, by simp [zero, WF, B64], by simp [zero, WF, B64], by simp [ones, WF, B64],
   by simp [ones, val, Bn, bits, B64], by simp [ones, zero, val, Bn, bits, B64]⟩

-- non-vacuity: well-formed operands exist at a recursive level, and the carries really occur
example : ∃ b c : RU 2, WF b ∧ WF c ∧ (add b c).2 = true :=
  ⟨ones 2, ones 2, by simp [ones, WF, B64], by simp [ones, WF, B64], by decide⟩
example : ∃ b c : RU 2, WF b ∧ WF c ∧ (sub b c).2 = true :=
  ⟨zero 2, ones 2, by simp [zero, WF, B64], by simp [ones, WF, B64], by decide⟩
example : ∃ b : RU 2, WF b ∧ (add_1 b).2 = true ∧ (sub_1 (zero 2)).2 = true := ⟨ones 2, by simp [ones, WF, B64], by decide, by decide⟩
example : ∃ (b : RU 2) (c : Nat), WF b ∧ c < B64 ∧ (add_l b c).2 = true ∧ (sub_l (zero 2) c).2 = true :=
  ⟨ones 2, 1, by simp [ones, WF, B64], by decide, by decide, by decide⟩
example : ∃ a b : RU 1, WF a ∧ WF b ∧ cmp a b = -1 :=
  ⟨zero 1, ones 1, by simp [zero, WF, B64], by simp [ones, WF, B64], by decide⟩

end Givaro.Props.C06
