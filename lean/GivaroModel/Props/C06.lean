/-
C06 — fixed-precision recursive integers compute exactly modulo 2^(2^K).

Property theorems about the model `Model/RecInt.lean` (a transcription of src/kernel/recint/ru*.h with the generic
recursive template and the `__RECINT_LIMB_SIZE`, `__RECINT_LIMB_SIZE+1` specialisations).  `RU n` is `ruint<6+n>`,
`Bn n = 2^(2^(6+n))`, `val` the represented number, `WF` "every limb is below 2^64".  Every theorem is for **every**
level `n` (no bound on K) and all well-formed operands; carries and borrows are exact (`c2n` reads a `bool` as 0/1).
-/
import GivaroModel.Lemmas.RecIntConv
import GivaroModel.Lemmas.RecIntMixed
import GivaroModel.Lemmas.RecIntBezout
import GivaroModel.Lemmas.RecIntSignedLemmas
import GivaroModel.Lemmas.RecIntWords
import GivaroModel.Lemmas.RecIntSignedMod
namespace Givaro.Props.C06
open Givaro.Model.RecInt

/-! ### representation -/
/-- the driver's embedding `ofNat` is the reduction modulo `2^(2^K)` and produces well-formed values
    (so the theorems below apply to every line the correspondence evaluates) -/
theorem ofNat_exact : ∀ (n v : Nat), WF (ofNat n v) ∧ val (ofNat n v) = v % Bn n
  | 0, v => by
      rw [Bn_zero]; simp only [ofNat, WF, val]; exact ⟨Nat.mod_lt _ (by decide), trivial⟩
  | n+1, v => by
      have h1 := ofNat_exact n (v % Bn n)
      have h2 := ofNat_exact n (v / Bn n)
      simp only [ofNat, WF_node, val_node]
      refine ⟨⟨h1.1, h2.1⟩, ?_⟩
      rw [h1.2, h2.2, Bn_succ, Nat.mod_mod, Nat.mod_mul]

/-- every well-formed value is below `2^(2^K)` -/
theorem val_bound {n : Nat} (x : RU n) (h : WF x) : val x < Bn n := val_lt x h

/-! ### ruadd.h -/
/-- `add(r, a, b, c)`: `a = (b + c) mod 2^bits`, `r` is the exact carry -/
theorem add_exact {n : Nat} (b c : RU n) (hb : WF b) (hc : WF c) :
    WF (add b c).1 ∧ val (add b c).1 = (val b + val c) % Bn n ∧ c2n (add b c).2 = (val b + val c) / Bn n :=
  ⟨(add_ok b c hb hc).1, (add_ok b c hb hc).exact⟩

/-- `add_wc(r, a, b, c, cy)`: value and carry of `b + c + cy` -/
theorem add_wc_exact {n : Nat} (b c : RU n) (cy : Bool) (hb : WF b) (hc : WF c) :
    WF (add_wc b c cy).1 ∧ val (add_wc b c cy).1 = (val b + val c + c2n cy) % Bn n ∧
    c2n (add_wc b c cy).2 = (val b + val c + c2n cy) / Bn n :=
  ⟨(add_wc_ok b c cy hb hc).1, (add_wc_ok b c cy hb hc).exact⟩

/-- `add_1(r, a, b)` / `add_1(r, a)` / `++a` -/
theorem add_1_exact {n : Nat} (b : RU n) (hb : WF b) :
    WF (add_1 b).1 ∧ val (add_1 b).1 = (val b + 1) % Bn n ∧ c2n (add_1 b).2 = (val b + 1) / Bn n :=
  ⟨(add_1_ok b hb).1, (add_1_ok b hb).exact⟩

/-- `add(r, a, b, const T& c)` with an unsigned word `c` (also the `bool` carry the recursive templates pass on) -/
theorem add_limb_exact {n : Nat} (b : RU n) (c : Nat) (hb : WF b) (hc : c < B64) :
    WF (add_l b c).1 ∧ val (add_l b c).1 = (val b + c) % Bn n ∧ c2n (add_l b c).2 = (val b + c) / Bn n :=
  ⟨(add_l_ok b c hb hc).1, (add_l_ok b c hb hc).exact⟩

/-- the carry-less overloads `add(a, b, c)`, `a += c`, `b + c` -/
theorem addNC_exact {n : Nat} (b c : RU n) (hb : WF b) (hc : WF c) :
    WF (addNC b c) ∧ val (addNC b c) = (val b + val c) % Bn n := by
  rw [addNC_eq b c hb hc]; exact ⟨(add_exact b c hb hc).1, (add_exact b c hb hc).2.1⟩

theorem add_wcNC_exact {n : Nat} (b c : RU n) (cy : Bool) (hb : WF b) (hc : WF c) :
    WF (add_wcNC b c cy) ∧ val (add_wcNC b c cy) = (val b + val c + c2n cy) % Bn n := by
  rw [add_wcNC_eq b c cy hb hc]; exact ⟨(add_wc_exact b c cy hb hc).1, (add_wc_exact b c cy hb hc).2.1⟩

/-! ### rusub.h -/
/-- `sub(r, a, b, c)`: `a = (b - c) mod 2^bits`, `r` is the exact borrow -/
theorem sub_exact {n : Nat} (b c : RU n) (hb : WF b) (hc : WF c) :
    WF (sub b c).1 ∧ val (sub b c).1 = (val b + Bn n - val c) % Bn n ∧ ((sub b c).2 = true ↔ val b < val c) :=
  ⟨(sub_ok b c hb hc).1, (sub_ok b c hb hc).exact (val_lt b hb) (Nat.le_of_lt (val_lt c hc))⟩

/-- `sub_wc(r, a, b, c, cy)`: value and borrow of `b - c - cy` -/
theorem sub_wc_exact {n : Nat} (b c : RU n) (cy : Bool) (hb : WF b) (hc : WF c) :
    WF (sub_wc b c cy).1 ∧ val (sub_wc b c cy).1 = (val b + Bn n - (val c + c2n cy)) % Bn n ∧
    ((sub_wc b c cy).2 = true ↔ val b < val c + c2n cy) := by
  have h := val_lt c hc
  have := c2n_le cy
  exact ⟨(sub_wc_ok b c cy hb hc).1, (sub_wc_ok b c cy hb hc).exact (val_lt b hb) (by omega)⟩

/-- `sub_1(r, a, b)` / `sub_1(r, a)` / `--a` -/
theorem sub_1_exact {n : Nat} (b : RU n) (hb : WF b) :
    WF (sub_1 b).1 ∧ val (sub_1 b).1 = (val b + Bn n - 1) % Bn n ∧ ((sub_1 b).2 = true ↔ val b < 1) :=
  ⟨(sub_1_ok b hb).1, (sub_1_ok b hb).exact (val_lt b hb) (Bn_pos n)⟩

/-- `sub(r, a, b, const T& c)` with an unsigned word `c` -/
theorem sub_limb_exact {n : Nat} (b : RU n) (c : Nat) (hb : WF b) (hc : c < B64) :
    WF (sub_l b c).1 ∧ val (sub_l b c).1 = (val b + Bn n - c) % Bn n ∧ ((sub_l b c).2 = true ↔ val b < c) := by
  have hB : B64 ≤ Bn n := by
    induction n with
    | zero => rw [Bn_zero]
    | succ k ih => rw [Bn_succ]; have := Bn_pos k; have := ih (lo b) ((WF_lo_hi b).mp hb).1; nlinarith
  exact ⟨(sub_l_ok b c hb hc).1, (sub_l_ok b c hb hc).exact (val_lt b hb) (by omega)⟩

/-- the borrow-less overloads `sub(a, b, c)`, `a -= c`, `b - c` -/
theorem subNC_exact {n : Nat} (b c : RU n) (hb : WF b) (hc : WF c) :
    WF (subNC b c) ∧ val (subNC b c) = (val b + Bn n - val c) % Bn n := by
  rw [(subNC_val b c hb hc).2]; exact ⟨(subNC_val b c hb hc).1, (sub_exact b c hb hc).2.1⟩

theorem sub_wcNC_exact {n : Nat} (b c : RU n) (cy : Bool) (hb : WF b) (hc : WF c) :
    WF (sub_wcNC b c cy) ∧ val (sub_wcNC b c cy) = (val b + Bn n - (val c + c2n cy)) % Bn n := by
  rw [(sub_wcNC_val b c cy hb hc).2]; exact ⟨(sub_wcNC_val b c cy hb hc).1, (sub_wc_exact b c cy hb hc).2.1⟩

/-! ### rucmp.h -/
/-- `cmp(a, b)` returns exactly -1, 0, +1 according to the order of the values (so `<, <=, ==, …` are exact) -/
theorem cmp_exact {n : Nat} (a b : RU n) (ha : WF a) (hb : WF b) :
    (cmp a b = -1 ∧ val a < val b) ∨ (cmp a b = 0 ∧ val a = val b) ∨ (cmp a b = 1 ∧ val a > val b) :=
  cmp_spec a b ha hb

/-- `cmp(a, const T& c)` for an unsigned word: the sign test used by the limb-carry specialisations -/
theorem cmp_limb_lt_exact {n : Nat} (a : RU n) (c : Nat) (ha : WF a) (hc : c < B64) : cmp_l a c < 0 ↔ val a < c :=
  cmp_l_lt a c ha hc

/-- `a == 0` / `a != 0` -/
theorem isZero_exact {n : Nat} (a : RU n) : isZero a = true ↔ val a = 0 := isZero_iff a

/-! ### rumul.h: multiplication by a word -/
/-- `lmul(limb& ret, a, b, const T& c)`: `ret·2^bits + a = b·c` exactly and `ret` is a word (the carry added to the
    high word never wraps) -/
theorem lmul_limb_exact {n : Nat} (b : RU n) (c : Nat) (hb : WF b) (hc : c < B64) :
    WF (lmul_l b c).1 ∧ (lmul_l b c).2 < B64 ∧ val (lmul_l b c).1 + Bn n * (lmul_l b c).2 = val b * c :=
  lmul_l_ok b c hb hc

/-- `mul(a, b, const T& c)`, `a *= c`: the product modulo `2^bits` -/
theorem mul_limb_exact {n : Nat} (b : RU n) (c : Nat) (hb : WF b) (hc : c < B64) :
    WF (mul_l b c) ∧ val (mul_l b c) = (val b * c) % Bn n := mul_l_ok b c hb hc

/-! ### rushift.h: single-bit shifts -/
/-- `left_shift_1(z, b, a)`: `b = 2a mod 2^bits`, `z` is the bit shifted out -/
theorem shift1_left_exact {n : Nat} (a : RU n) (ha : WF a) :
    WF (left_shift_1 a).1 ∧ val (left_shift_1 a).1 + c2n (left_shift_1 a).2 * Bn n = 2 * val a :=
  left_shift_1_ok a ha

/-- `right_shift_1(z, b, a)`: `b = ⌊a/2⌋`, `z` is the bit shifted out -/
theorem shift1_right_exact {n : Nat} (a : RU n) (ha : WF a) :
    WF (right_shift_1 a).1 ∧ val (right_shift_1 a).1 = val a / 2 ∧ c2n (right_shift_1 a).2 = val a % 2 := by
  have h := right_shift_1_ok a ha
  have := c2n_le (right_shift_1 a).2
  exact ⟨h.1, by omega, by omega⟩

example : ∃ (b : RU 2) (c : Nat), WF b ∧ c < B64 ∧ (lmul_l b c).2 ≠ 0 := ⟨ones 2, 3, by simp [ones, WF, B64], by decide, by decide⟩
example : ∃ a : RU 2, WF a ∧ (left_shift_1 a).2 = true ∧ (right_shift_1 a).2 = true := ⟨ones 2, by simp [ones, WF, B64], by decide, by decide⟩

/-! ### rufiddling.h: complement and negation -/
/-- `~a` is `2^bits - 1 - a` -/
theorem not_exact {n : Nat} (a : RU n) (ha : WF a) : WF (not_ a) ∧ val (not_ a) = Bn n - 1 - val a := by
  have h := not_ok a ha
  exact ⟨h.1, by omega⟩

/-- `neg(r, a)`, `-a`: `(2^bits - a) mod 2^bits` -/
theorem neg_exact {n : Nat} (a : RU n) (ha : WF a) : WF (neg a) ∧ val (neg a) = (Bn n - val a) % Bn n := neg_ok a ha

example : ∃ a : RU 2, WF a ∧ val (neg a) ≠ 0 := ⟨ones 2, by simp [ones, WF, B64], by decide⟩

/-! ### rumul.h, ruaddmul.h: the full multiplication family, for any value `t` of `__RECINT_THRESHOLD_KARA` -/
/-- `lmul_naive(ah, al, b, c)`: `ah·2^bits + al = b·c` exactly (the model returns the pair as `node al ah`) -/
theorem lmul_naive_exact (t : Nat) {n : Nat} (b c : RU n) (hb : WF b) (hc : WF c) :
    WF (lmul_naive t b c) ∧ val (hi (lmul_naive t b c)) * Bn n + val (lo (lmul_naive t b c)) = val b * val c := by
  have h := (mul_family t n).1 b c hb hc
  refine ⟨h.1, ?_⟩
  rw [← h.2, val_lo_hi (lmul_naive t b c)]; ring

/-- `lmul_kara(ah, al, b, c)`: exact; this includes the obligation that the middle-term correction
    `r = (rb&rc)+rt1+rt2-rt3-rt4`, which the code stores in a `bool`, is 0 or 1 (`lmul_kara_correction_exact`) and that none of
    the final carry propagations into `ah` wraps -/
theorem lmul_kara_exact (t : Nat) {n : Nat} (b c : RU n) (hb : WF b) (hc : WF c) :
    WF (lmul_kara t b c) ∧ val (hi (lmul_kara t b c)) * Bn n + val (lo (lmul_kara t b c)) = val b * val c := by
  have h := (mul_family t n).2.1 b c hb hc
  refine ⟨h.1, ?_⟩
  rw [← h.2, val_lo_hi (lmul_kara t b c)]; ring

/-- the content of storing `(rb&rc)+rt1+rt2-rt3-rt4` in a `bool`: whenever the five flags satisfy the bookkeeping equation of
    Karatsuba's middle term (`D4 < 2^bits` the reduced middle word, `mid < 2·2^bits` the true middle term), the integer is 0 or 1
    and the bool read back as a number is that integer -/
theorem lmul_kara_correction_exact (B2 D4 mid : Nat) (rbc rt1 rt2 rt3 rt4 : Bool) (hD : D4 < B2) (hm : mid < 2 * B2)
    (E : D4 + (c2n rbc + c2n rt1 + c2n rt2) * B2 = mid + (c2n rt3 + c2n rt4) * B2) :
    ((c2n rbc + c2n rt1 + c2n rt2 : Nat) : Int) - (c2n rt3 + c2n rt4 : Nat) ∈ [0, 1] ∧
    D4 + c2n (decide (((if rbc = true then 1 else 0) + (if rt1 = true then 1 else 0) + (if rt2 = true then 1 else 0)
          - (if rt3 = true then 1 else 0) - (if rt4 = true then 1 else 0) : Int) ≠ 0)) * B2 = mid := by
  refine ⟨?_, kara_r B2 D4 mid rbc rt1 rt2 rt3 rt4 hD hm E⟩
  cases rbc <;> cases rt1 <;> cases rt2 <;> cases rt3 <;> cases rt4 <;> simp [c2n] at E ⊢ <;> omega

/-- `lmul(ah, al, b, c)` (dispatch on the threshold): exact for every threshold -/
theorem lmul_exact (t : Nat) {n : Nat} (b c : RU n) (hb : WF b) (hc : WF c) :
    WF (lmul t b c) ∧ val (hi (lmul t b c)) * Bn n + val (lo (lmul t b c)) = val b * val c := by
  have h := lmul_ok t b c hb hc
  refine ⟨h.1, ?_⟩
  rw [← h.2, val_lo_hi (lmul t b c)]; ring

/-- `laddmul(r, ah, al, b, c, d)` with `d : ruint<K>`: `(ah|al) + r·2^(2·bits) = b·c + d` (so `r` is never set) -/
theorem laddmul_exact (t : Nat) {n : Nat} (b c d : RU n) (hb : WF b) (hc : WF c) (hd : WF d) :
    WF (laddmul1 t b c d).1 ∧ val (laddmul1 t b c d).1 + c2n (laddmul1 t b c d).2 * Bn (n+1) = val b * val c + val d ∧
    (laddmul1 t b c d).2 = false := by
  have h := (mul_family t n).2.2.2.1 b c d hb hc hd
  refine ⟨h.1, h.2, ?_⟩
  have hlt : val b * val c + val d < Bn (n+1) := by rw [Bn_succ]; exact mul_add_lt_sq (val_lt b hb) (val_lt c hc) (val_lt d hd)
  have := (no_carry h.2 hlt).2
  cases hr : (laddmul1 t b c d).2
  · rfl
  · rw [hr] at this; simp at this

/-- `laddmul(ah, al, b, c, d)` with `d : ruint<K>`, the carry-less overload: `(ah|al) = b·c + d` -/
theorem laddmulNC_exact (t : Nat) {n : Nat} (b c d : RU n) (hb : WF b) (hc : WF c) (hd : WF d) :
    WF (laddmul1NC t b c d) ∧ val (laddmul1NC t b c d) = val b * val c + val d :=
  (mul_family t n).2.2.2.2.1 b c d hb hc hd

/-- `laddmul(r, ah, al, b, c, d)` with `d : ruint<K+1>`: value and the exact carry -/
theorem laddmul3_exact (t : Nat) {n : Nat} (b c : RU n) (d : RU (n+1)) (hb : WF b) (hc : WF c) (hd : WF d) :
    WF (laddmul3 t b c d).1 ∧ val (laddmul3 t b c d).1 = (val b * val c + val d) % Bn (n+1) ∧
    c2n (laddmul3 t b c d).2 = (val b * val c + val d) / Bn (n+1) := by
  have h := (mul_family t n).2.2.2.2.2 b c d hb hc hd
  exact ⟨h.1, h.exact⟩

/-- `mul(a, b, c)`, `a *= c`, `b * c`: the product modulo `2^bits` -/
theorem mul_low_exact (t : Nat) {n : Nat} (b c : RU n) (hb : WF b) (hc : WF c) :
    WF (mul t b c) ∧ val (mul t b c) = (val b * val c) % Bn n := mul_ok t b c hb hc

/-- `addmul(a, b, c)`: `a = (a + b·c) mod 2^bits` -/
theorem addmul_exact (t : Nat) {n : Nat} (a b c : RU n) (ha : WF a) (hb : WF b) (hc : WF c) :
    WF (addmul t a b c) ∧ val (addmul t a b c) = (val a + val b * val c) % Bn n := addmul_ok t a b c ha hb hc

/-- `lsquare(a, b)`: the full double-width square -/
theorem lsquare_exact (t : Nat) {n : Nat} (b : RU n) (hb : WF b) :
    WF (lsquare t b) ∧ val (lsquare t b) = val b * val b := lsquare_ok t b hb

/-- `square(a, b)`: the square modulo `2^bits` -/
theorem square_exact (t : Nat) {n : Nat} (b : RU n) (hb : WF b) :
    WF (square t b) ∧ val (square t b) = (val b * val b) % Bn n := square_ok t b hb

-- non-vacuity of the hypotheses of the multiplication theorems (the model functions are defined by well-founded recursion
-- and do not reduce in the kernel, so the witnesses are only shown to be well-formed; the driver executes them)
example : ∃ (b c : RU 2) (d : RU 3), WF b ∧ WF c ∧ WF d :=
  ⟨ones 2, ones 2, ones 3, by simp [ones, WF, B64], by simp [ones, WF, B64], by simp [ones, WF, B64]⟩

/-! ### rudiv.h: division -/
/-- the generic `div_3_2` template at level `m+1` is exact whenever `div_2_1` is at that level: quotient estimate too large by
    0, 1 or 2, both corrections (the second decided by the carry of the add-back), `a = q·b + r ∧ r < b` -/
theorem div_3_2_generic_exact (t m : Nat)
    (IH21 : ∀ ah al b : RU (m+1), WF ah → WF al → WF b → Bn (m+1) ≤ 2 * val b → val ah < val b → Div21Ok (div_2_1 t ah al b) ah al b)
    (a2 a1 a0 b1 b0 : RU (m+1)) (ha2 : WF a2) (ha1 : WF a1) (ha0 : WF a0) (hb1 : WF b1) (hb0 : WF b0)
    (hn : Bn (m+1) ≤ 2 * val b1) (hlt : val a2 * Bn (m+1) + val a1 < val b1 * Bn (m+1) + val b0) :
    Div32Ok (div_3_2 t a2 a1 a0 b1 b0) a2 a1 a0 b1 b0 :=
  div_3_2_step t m IH21 a2 a1 a0 b1 b0 ha2 ha1 ha0 hb1 hb0 hn hlt

/-- `div_2_1` at the limb level (`recint_udiv_qrnnd` contract) -/
theorem div_2_1_limb_exact (t : Nat) (ah al b : RU 0) (hah : WF ah) (hal : WF al) (hb : WF b) (hlt : val ah < val b) :
    Div21Ok (div_2_1 t ah al b) ah al b := div_2_1_zero t ah al b hah hal hb hlt

/-- the `__RECINT_LIMB_SIZE` specialisation of `div_3_2` (second correction decided by `r >= b` on the wrapped remainder);
    proved for an abstract limb base and instantiated at 2^64 -/
theorem div_3_2_limb_exact (t : Nat) (a2 a1 a0 b1 b0 : RU 0) (ha2 : WF a2) (ha1 : WF a1) (ha0 : WF a0) (hb1 : WF b1) (hb0 : WF b0)
    (hn : Bn 0 ≤ 2 * val b1) (hlt : val a2 * Bn 0 + val a1 < val b1 * Bn 0 + val b0) :
    Div32Ok (div_3_2 t a2 a1 a0 b1 b0) a2 a1 a0 b1 b0 := div_3_2_zero t a2 a1 a0 b1 b0 ha2 ha1 ha0 hb1 hb0 hn hlt

/-- `div_3_2(q, r1, r0, a2, a1, a0, b1, b0)` at **every** level: for a normalised `b1` and `(a2,a1) < (b1,b0)`,
    `(a2|a1|a0) = q·(b1|b0) + (r1|r0)` and `(r1|r0) < (b1|b0)` -/
theorem div_3_2_exact (t : Nat) {n : Nat} (a2 a1 a0 b1 b0 : RU n)
    (ha2 : WF a2) (ha1 : WF a1) (ha0 : WF a0) (hb1 : WF b1) (hb0 : WF b0)
    (hn : Bn n ≤ 2 * val b1) (hlt : val a2 * Bn n + val a1 < val b1 * Bn n + val b0) :
    WF (div_3_2 t a2 a1 a0 b1 b0).1 ∧ WF (div_3_2 t a2 a1 a0 b1 b0).2.1 ∧ WF (div_3_2 t a2 a1 a0 b1 b0).2.2 ∧
    (val a2 * Bn n + val a1) * Bn n + val a0
      = val (div_3_2 t a2 a1 a0 b1 b0).1 * (val b1 * Bn n + val b0)
        + (val (div_3_2 t a2 a1 a0 b1 b0).2.1 * Bn n + val (div_3_2 t a2 a1 a0 b1 b0).2.2) ∧
    val (div_3_2 t a2 a1 a0 b1 b0).2.1 * Bn n + val (div_3_2 t a2 a1 a0 b1 b0).2.2 < val b1 * Bn n + val b0 :=
  (div_family t n).2 a2 a1 a0 b1 b0 ha2 ha1 ha0 hb1 hb0 hn hlt

/-- `div_2_1(q, r, ah, al, b)` at **every** level: for a normalised `b` and `ah < b`, `(ah|al) = q·b + r ∧ r < b` -/
theorem div_2_1_exact (t : Nat) {n : Nat} (ah al b : RU n) (hah : WF ah) (hal : WF al) (hb : WF b)
    (hn : Bn n ≤ 2 * val b) (hlt : val ah < val b) :
    WF (div_2_1 t ah al b).1 ∧ WF (div_2_1 t ah al b).2 ∧
    val ah * Bn n + val al = val (div_2_1 t ah al b).1 * val b + val (div_2_1 t ah al b).2 ∧ val (div_2_1 t ah al b).2 < val b :=
  (div_family t n).1 ah al b hah hal hb hn hlt

/-- `normalization(d, b)` for `b ≠ 0`: the shift count that brings the highest set bit to the top -/
theorem normalization_exact {n : Nat} (b : RU n) (hb : WF b) (hne : val b ≠ 0) :
    normalization b < bits n ∧ Bn n ≤ 2 * (val b * 2 ^ normalization b) ∧ val b * 2 ^ normalization b < Bn n :=
  normalization_ok b hb hne

/-- `div(q, r, a, b)`, `/`, `%`, `div_q`, `div_r` for **every** divisor `b ≠ 0` at every level (normalisation shift, `div_2_1`,
    shift back): `a = q·b + r`, `0 ≤ r < b` -/
theorem div_exact (t : Nat) {n : Nat} (a b : RU n) (ha : WF a) (hb : WF b) (hne : val b ≠ 0) :
    WF (div t a b).1 ∧ WF (div t a b).2 ∧ val a = val (div t a b).1 * val b + val (div t a b).2 ∧ val (div t a b).2 < val b :=
  div_ok t a b ha hb hne

/-- hence the quotient and remainder are GMP's: `q = ⌊a/b⌋`, `r = a mod b` -/
theorem div_exact_values (t : Nat) {n : Nat} (a b : RU n) (ha : WF a) (hb : WF b) (hne : val b ≠ 0) :
    val (div t a b).1 = val a / val b ∧ val (div t a b).2 = val a % val b := by
  obtain ⟨-, -, he, hlt⟩ := div_ok t a b ha hb hne
  have hr : val (div t a b).2 = val a % val b := mod_unique (by rw [he, Nat.mul_comm]) hlt
  refine ⟨?_, hr⟩
  have hpos : 0 < val b := Nat.pos_of_ne_zero hne
  have h2 := Nat.div_add_mod (val a) (val b)
  rw [← hr] at h2
  have : val b * (val a / val b) = val b * val (div t a b).1 := by rw [Nat.mul_comm (val b) (val (div t a b).1)]; omega
  exact (Nat.eq_of_mul_eq_mul_left hpos this).symm

/-- `mod_n(a, const ruint<K+1>& b, n)` (the reduction used by `exp_mod`, `inv_mod`, `bezout_mod`): `b mod n` for every `n ≠ 0` -/
theorem mod_n_exact (t : Nat) {n : Nat} (b : RU (n+1)) (m : RU n) (hb : WF b) (hm : WF m) (hne : val m ≠ 0) :
    WF (mod_n2 t b m) ∧ val (mod_n2 t b m) = val b % val m := mod_n2_ok t b m hb hm hne

/-! ### rushift.h: shifts by every count -/
/-- `left_shift(b, a, d)`, `a << d`, `a <<= d` for **every** count `d` (0, 1, below / at / above half the width, the width and
    beyond): `b = a·2^d mod 2^bits` -/
theorem left_shift_exact {n : Nat} (a : RU n) (d : Nat) (ha : WF a) :
    WF (left_shift a d) ∧ val (left_shift a d) = (val a * 2 ^ d) % Bn n := (shift_ok n a d ha).1

/-- `right_shift(b, a, d)`, `a >> d`, `a >>= d`, `right_shift(r, r, d)` for every count: `b = ⌊a / 2^d⌋` -/
theorem right_shift_exact {n : Nat} (a : RU n) (d : Nat) (ha : WF a) :
    WF (right_shift a d) ∧ val (right_shift a d) = val a / 2 ^ d := (shift_ok n a d ha).2

/-- `left_shift(ruint<K+1>& b, const ruint<K>& a, d)`: the widening shift -/
theorem left_shift_wide_exact {n : Nat} (a : RU n) (d : Nat) (ha : WF a) :
    WF (left_shift_x a d) ∧ val (left_shift_x a d) = (val a * 2 ^ d) % Bn (n+1) := left_shift_x_ok a d ha

/-- `|`, `|=`: bitwise or of the values -/
theorem or_exact {n : Nat} (x y : RU n) (hx : WF x) (hy : WF y) : WF (lor x y) ∧ val (lor x y) = val x ||| val y := lor_ok x y hx hy

/-- `&`, `&=`: bitwise and of the values (limb-wise code, every size) -/
theorem and_exact {n : Nat} (x y : RU n) (hx : WF x) (hy : WF y) : WF (land x y) ∧ val (land x y) = val x &&& val y := land_ok x y hx hy

/-- `^`, `^=`: bitwise exclusive or of the values -/
theorem xor_exact {n : Nat} (x y : RU n) (hx : WF x) (hy : WF y) : WF (lxor x y) ∧ val (lxor x y) = val x ^^^ val y := lxor_ok x y hx hy

example : ∃ x y : RU 1, WF x ∧ WF y ∧ val (land x y) ≠ 0 ∧ val (lxor x (zero 1)) ≠ 0 :=
  ⟨ones 1, ones 1, by simp [ones, WF, B64], by simp [ones, WF, B64], by decide, by decide⟩

example : ∃ (ah al b : RU 1), WF ah ∧ WF al ∧ WF b ∧ Bn 1 ≤ 2 * val b ∧ val ah < val b :=
  ⟨zero 1, zero 1, ones 1, by simp [zero, WF, B64], by simp [zero, WF, B64], by simp [ones, WF, B64],
   by simp [ones, val, Bn, bits, B64], by simp [ones, zero, val, Bn, bits, B64]⟩

/-! ### ruconvert.h / rconvert.h: conversion to and from big integers is lossless -/
/-- ruint: `ruint_to_mpz(mpz_to_ruint(z)) = z mod 2^bits` for **every** integer `z` (a negative `z` is stored as its two's
    complement: the code accepts it) -/
theorem convert_roundtrip (n : Nat) (z : Int) :
    WF (mpz_to_ruint n z) ∧ ruint_to_mpz (mpz_to_ruint n z) = z % (Bn n : Int) := by
  have h := mpz_to_ruint_ok n z
  exact ⟨h.1, by rw [ruint_to_mpz_ok, h.2]⟩

/-- ruint: lossless on the type's range -/
theorem convert_roundtrip_in_range (n : Nat) (z : Int) (h0 : 0 ≤ z) (h1 : z < Bn n) :
    ruint_to_mpz (mpz_to_ruint n z) = z := by
  rw [(convert_roundtrip n z).2, Int.emod_eq_of_lt h0 h1]

/-- ruint, the other direction: every well-formed value survives the trip through a big integer -/
theorem convert_back_roundtrip {n : Nat} (b : RU n) (hb : WF b) : val (mpz_to_ruint n (ruint_to_mpz b)) = val b := by
  rw [ruint_to_mpz_ok]
  have h := (mpz_to_ruint_ok n (val b : Int)).2
  rw [Int.emod_eq_of_lt (by omega) (by exact_mod_cast val_lt b hb)] at h
  exact_mod_cast h

/-- rint: `rint_to_mpz(mpz_to_rint(z))` is the two's-complement reading of `z mod 2^bits`, for every integer `z` -/
theorem convert_roundtrip_signed (n : Nat) (z : Int) :
    rint_to_mpz (mpz_to_rint n z) =
      if 2 * (z % (Bn n : Int)) < Bn n then z % (Bn n : Int) else z % (Bn n : Int) - Bn n := by
  have h := mpz_to_rint_ok n z
  rw [rint_to_mpz_ok _ h.1]
  unfold sval
  have e : (2 * val (mpz_to_rint n z) < Bn n) ↔ (2 * (z % (Bn n : Int)) < Bn n) := by rw [← h.2]; omega
  by_cases hc : 2 * val (mpz_to_rint n z) < Bn n
  · rw [if_pos hc, if_pos (e.mp hc), h.2]
  · rw [if_neg hc, if_neg (fun h' => hc (e.mpr h')), h.2]

/-- rint: lossless on the type's range `[-2^(bits-1), 2^(bits-1))` -/
theorem convert_roundtrip_signed_in_range (n : Nat) (z : Int) (h0 : -(Bn n : Int) ≤ 2 * z) (h1 : 2 * z < Bn n) :
    rint_to_mpz (mpz_to_rint n z) = z := by
  have hB : (0 : Int) < Bn n := by exact_mod_cast Bn_pos n
  rw [convert_roundtrip_signed]
  by_cases hz : 0 ≤ z
  · rw [Int.emod_eq_of_lt hz (by omega), if_pos h1]
  · have e : z % (Bn n : Int) = z + Bn n := by
      rw [← Int.add_mul_emod_self_right z 1 (Bn n : Int), Int.one_mul]; exact Int.emod_eq_of_lt (by omega) (by omega)
    rw [e, if_neg (by omega)]; omega

example : ∃ z : Int, -(Bn 2 : Int) ≤ 2 * z ∧ 2 * z < Bn 2 ∧ z < 0 := ⟨-1, by simp [Bn, bits], by simp [Bn, bits], by decide⟩

/-! ### rugcd.h, ruinvmod.h, ruexp.h, rmgmodule.h -/
/-- `gcd(a, b, c)`: Euclid's loop returns `gcd(b, c)` (the model's fuel `2·bits + 2` always suffices: the product of the two
    running operands at least halves at every iteration) -/
theorem gcd_exact (t : Nat) {n : Nat} (a b : RU n) (ha : WF a) (hb : WF b) :
    WF (gcd t a b) ∧ val (gcd t a b) = Nat.gcd (val a) (val b) := gcd_ok t a b ha hb

/-- `inv_mod(a, b, c)` for every modulus `c ≠ 0` and every `b` coprime to `c`: `0 ≤ a < c` and `a·b ≡ 1 (mod c)`, i.e. the value
    `mpz_invert` returns (cofactor updates with negation, carry and conditional subtraction; non-invertible `b` is outside the contract) -/
theorem inv_mod_exact (t : Nat) {n : Nat} (b c : RU n) (hb : WF b) (hc : WF c) (hne : val c ≠ 0) (hcop : Nat.gcd (val b) (val c) = 1) :
    WF (inv_mod t b c) ∧ val (inv_mod t b c) < val c ∧ (val (inv_mod t b c) * val b) % val c = 1 % val c :=
  inv_mod_ok t b c hb hc hne hcop

/-- `exp_mod(a, b, c, n)` with a `ruint` exponent: `b^c mod n` for every modulus `n ≠ 0` (including `n = 1` and `c = 0`) -/
theorem exp_mod_exact (t : Nat) {n : Nat} (b c m : RU n) (hb : WF b) (hc : WF c) (hm : WF m) (hne : val m ≠ 0) :
    WF (exp_mod t b c m) ∧ val (exp_mod t b c m) = val b ^ val c % val m := exp_mod_ok t b c m hb hc hm hne

/-- `exp_mod(a, b, const T& c, n)` with an unsigned word exponent -/
theorem exp_mod_word_exact (t : Nat) {n : Nat} (b : RU n) (c : Nat) (m : RU n) (hb : WF b) (hc : c < B64) (hm : WF m) (hne : val m ≠ 0) :
    WF (exp_mod_l t b c m) ∧ val (exp_mod_l t b c m) = val b ^ c % val m := exp_mod_l_ok t b c m hb hc hm hne

/-- `arazi_qi(u, a)` for odd `a`: `u·a ≡ 1 (mod 2^bits)` (the code defines `u = inv(a)`; `init_module` passes `-p` to obtain `-inv(p)`).
    Limb base case by the telescoping product `(1-x)(1+x)(1+x²)…(1+x³²) = 1 - x⁶⁴` in `ZMod 2⁶⁴`, lifting step by ring identities -/
theorem arazi_qi_exact (t : Nat) {n : Nat} (a : RU n) (ha : WF a) (hodd : val a % 2 = 1) :
    WF (arazi_qi t a) ∧ (val (arazi_qi t a) * val a) % Bn n = 1 := arazi_qi_ok t a ha hodd

/-- `bezout_mod(x, y, c, d)` (ruinvmod.h) for **all** non-zero `c`, `d`, coprime or not: the two cofactor tracks, reduced modulo `d`
    resp. `c` at every step, satisfy `x·c ≡ gcd(c, d) (mod d)` and `y·d ≡ gcd(c, d) (mod c)` with `0 ≤ x < d`, `0 ≤ y ≤ c`
    (`y = c` only when `c = d = 1`, where the code returns `y = 1`).  The code does not compute an identity modulo `2^(2^K)`:
    it computes the two modular inverses-up-to-the-gcd the header documents; `c = 0` with `d ≠ 0` divides by zero (outside the contract). -/
theorem bezout_mod_exact (t : Nat) {n : Nat} (c d : RU n) (hc : WF c) (hd : WF d) (hcne : val c ≠ 0) (hdne : val d ≠ 0) :
    WF (bezout_mod t c d).1 ∧ WF (bezout_mod t c d).2 ∧ val (bezout_mod t c d).1 < val d ∧ val (bezout_mod t c d).2 ≤ val c ∧
    (val (bezout_mod t c d).1 * val c) % val d = Nat.gcd (val c) (val d) % val d ∧
    (val (bezout_mod t c d).2 * val d) % val c = Nat.gcd (val c) (val d) % val c :=
  bezout_mod_ok t c d hc hd hcne hdne

/-- the documented case: for relatively prime `c`, `d`: `x·c = 1 mod d` and `y·d = 1 mod c` -/
theorem bezout_mod_coprime (t : Nat) {n : Nat} (c d : RU n) (hc : WF c) (hd : WF d) (hcne : val c ≠ 0) (hdne : val d ≠ 0)
    (hcop : Nat.gcd (val c) (val d) = 1) :
    (val (bezout_mod t c d).1 * val c) % val d = 1 % val d ∧ (val (bezout_mod t c d).2 * val d) % val c = 1 % val c := by
  have h := bezout_mod_ok t c d hc hd hcne hdne
  rw [hcop] at h
  exact ⟨h.2.2.2.2.1, h.2.2.2.2.2⟩

example : ∃ (c d : RU 1), WF c ∧ WF d ∧ val c ≠ 0 ∧ val d ≠ 0 ∧ Nat.gcd (val c) (val d) = 1 :=
  ⟨ofLimb 1 1, ones 1, by simp [ofLimb, zero, WF, B64], by simp [ones, WF, B64], by decide, by decide, by decide⟩

example : ∃ (b c : RU 1), WF b ∧ WF c ∧ val c ≠ 0 ∧ Nat.gcd (val b) (val c) = 1 ∧ val c % 2 = 1 :=
  ⟨zero 1, ofLimb 1 1, by simp [zero, WF, B64], by simp [ofLimb, zero, WF, B64], by simp [ofLimb, zero, val],
   by simp [ofLimb, zero, val], by simp [ofLimb, zero, val]⟩

/-! ### `rint<K>` (radd.h, rsub.h, rmul.h, rdiv.h, rcmp.h, rfiddling.h, rrint.h): the signed wrappers
    A `rint<K>` is its field `Value : ruint<K>`; `sval` is the two's-complement reading of the image (what `rint_to_mpz` returns,
    `convert_roundtrip_signed`), `swrap n v` the representative of `v` modulo `2^bits` in `[-2^(bits-1), 2^(bits-1))`.
    Every theorem is for every size and all operands. -/
/-- `swrap` is the two's-complement wrap: congruent to its argument, in the signed range, and the identity on that range -/
theorem swrap_exact (n : Nat) (v : Int) :
    swrap n v % (Bn n : Int) = v % Bn n ∧ -(Bn n : Int) ≤ 2 * swrap n v ∧ 2 * swrap n v < Bn n ∧
    (-(Bn n : Int) ≤ 2 * v → 2 * v < Bn n → swrap n v = v) := by
  have hB : (0 : Int) < Bn n := by exact_mod_cast Bn_pos n
  have h0 := Int.emod_nonneg v (ne_of_gt hB)
  have h1 := Int.emod_lt_of_pos v hB
  refine ⟨?_, ?_, ?_, swrap_id n v⟩
  · unfold swrap; split
    · exact Int.emod_emod_of_dvd _ (Int.dvd_refl _)
    · rw [show v % (Bn n : Int) - Bn n = v % (Bn n : Int) + (-1) * (Bn n : Int) by ring, Int.add_mul_emod_self_right]
      exact Int.emod_emod_of_dvd _ (Int.dvd_refl _)
  · unfold swrap; split <;> omega
  · unfold swrap; split <;> omega

/-- `add`, `+`, `+=`; `sub`, `-`, `-=`; `mul`, `*`, `*=`; `addmul`; unary `-`, `neg`: the signed operation on the values, wrapped -/
theorem rint_ring_ops_exact (t : Nat) {n : Nat} (a b c : RU n) (ha : WF a) (hb : WF b) (hc : WF c) :
    sval (s_add b c) = swrap n (sval b + sval c) ∧ sval (s_sub b c) = swrap n (sval b - sval c) ∧
    sval (s_mul t b c) = swrap n (sval b * sval c) ∧ sval (s_addmul t a b c) = swrap n (sval a + sval b * sval c) ∧
    sval (s_neg c) = swrap n (-sval c) ∧
    WF (s_add b c) ∧ WF (s_sub b c) ∧ WF (s_mul t b c) ∧ WF (s_addmul t a b c) ∧ WF (s_neg c) :=
  ⟨(s_add_ok b c hb hc).2, (s_sub_ok b c hb hc).2, (s_mul_ok t b c hb hc).2, (s_addmul_ok t a b c ha hb hc).2, (s_neg_ok c hc).2,
   (s_add_ok b c hb hc).1, (s_sub_ok b c hb hc).1, (s_mul_ok t b c hb hc).1, (s_addmul_ok t a b c ha hb hc).1, (s_neg_ok c hc).1⟩

/-- `~c` on `rint`: `-c - 1` exactly (never wraps) -/
theorem rint_not_exact {n : Nat} (c : RU n) (hc : WF c) : WF (s_not c) ∧ sval (s_not c) = -sval c - 1 := s_not_ok c hc

/-- `cmp(a, b)` on `rint` (sign test first, then the unsigned comparison of the images) is exactly -1, 0, +1 by the order of the
    signed values, so `<, <=, >, >=, ==, !=` are exact -/
theorem rint_cmp_exact {n : Nat} (a b : RU n) (ha : WF a) (hb : WF b) :
    (s_cmp a b = -1 ∧ sval a < sval b) ∨ (s_cmp a b = 0 ∧ sval a = sval b) ∨ (s_cmp a b = 1 ∧ sval a > sval b) := s_cmp_ok a b ha hb

/-- `lmul(rint<K+1>&, b, c)` (four sign branches on the magnitudes, `MIN` included): the exact product, no wrap -/
theorem rint_lmul_exact (t : Nat) {n : Nat} (b c : RU n) (hb : WF b) (hc : WF c) :
    WF (s_lmul t b c) ∧ sval (s_lmul t b c) = sval b * sval c := s_lmul_ok t b c hb hc

/-- `lsquare(rint<K+1>&, b)`: the exact square -/
theorem rint_lsquare_exact (t : Nat) {n : Nat} (b : RU n) (hb : WF b) :
    WF (s_lsquare t b) ∧ sval (s_lsquare t b) = sval b * sval b := s_lsquare_ok t b hb

/-- the widening constructor `rint<K+1>(const rint<K>&)` is sign extension: the value is unchanged -/
theorem rint_extend_exact {n : Nat} (a : RU n) (ha : WF a) : WF (s_ext a) ∧ sval (s_ext a) = sval a := s_ext_ok a ha

/-- `div_q`, `/`, `/=` on `rint` for every divisor `b ≠ 0`: the code's convention is the quotient **truncated towards zero**
    (C++ `/`, `mpz_tdiv_q`) of the signed values; the result is wrapped, which matters only for `MIN / -1` (= `MIN`) -/
theorem rint_divq_exact (t : Nat) {n : Nat} (a b : RU n) (ha : WF a) (hb : WF b) (hne : sval b ≠ 0) :
    WF (s_divq t a b) ∧ sval (s_divq t a b) = swrap n (Int.tdiv (sval a) (sval b)) := s_divq_ok t a b ha hb hne

/-- `div_r`, `%`, `%=` on `rint` for a positive divisor (the code asserts `b > 1`; a negative divisor is outside its contract: its
    image is used as an unsigned number): the remainder of the truncated division (sign of the dividend, `mpz_tdiv_r`), never wrapped -/
theorem rint_divr_exact (t : Nat) {n : Nat} (a b : RU n) (ha : WF a) (hb : WF b) (hpos : 0 < sval b) :
    WF (s_divr t a b) ∧ sval (s_divr t a b) = Int.tmod (sval a) (sval b) := s_divr_ok t a b ha hb hpos

/-- hence for a positive divisor `a = (a / b)·b + a % b` on the signed values (quotient wrapped only in the excluded `MIN / -1`) -/
theorem rint_div_identity (t : Nat) {n : Nat} (a b : RU n) (ha : WF a) (hb : WF b) (hpos : 0 < sval b) :
    sval a = Int.tdiv (sval a) (sval b) * sval b + sval (s_divr t a b) := by
  rw [(s_divr_ok t a b ha hb hpos).2, Int.mul_comm]; exact (Int.mul_tdiv_add_tmod _ _).symm

/-- `<<`, `<<=` on `rint` for every count: `b·2^c` wrapped -/
theorem rint_shl_exact {n : Nat} (b : RU n) (d : Nat) (hb : WF b) : WF (s_shl b d) ∧ sval (s_shl b d) = swrap n (sval b * 2 ^ d) :=
  s_shl_ok b d hb

/-- `>>`, `>>=` on `rint` for every count: the arithmetic shift `⌊b / 2^c⌋` (floor, also for negative `b`: `~(~b >> c)`) -/
theorem rint_shr_exact {n : Nat} (b : RU n) (d : Nat) (hb : WF b) : WF (s_shr b d) ∧ sval (s_shr b d) = sval b / 2 ^ d :=
  s_shr_ok b d hb

-- non-vacuity: negative and positive well-formed operands exist (−1 and 1 at 128 bits)
example : ∃ a b : RU 1, WF a ∧ WF b ∧ sval a < 0 ∧ 0 < sval b ∧ sval b ≠ 0 :=
  ⟨ones 1, ofLimb 1 1, by simp [ones, WF, B64], by simp [ofLimb, zero, WF, B64], by decide, by decide, by decide⟩

/-- `mod_n(rint& a, const rint& n)` for a positive modulus: the non-negative residue `a mod n` (floor convention, `mpz_mod`), also for
    negative `a` (`n - ((-a) mod n)`, or 0) -/
theorem rint_modn_exact (t : Nat) {n : Nat} (a m : RU n) (ha : WF a) (hm : WF m) (hpos : 0 < sval m) :
    WF (s_modn t a m) ∧ sval (s_modn t a m) = sval a % sval m := s_modn_ok t a m ha hm hpos

/-- `mod_n(rint<K>& a, const rint<K+1>& b, const rint<K>& c)` (double-width argument) for a positive modulus: `b mod c ≥ 0` -/
theorem rint_modn_wide_exact (t : Nat) {n : Nat} (b : RU (n+1)) (c : RU n) (hb : WF b) (hc : WF c) (hpos : 0 < sval c) :
    WF (s_modn2 t b c) ∧ sval (s_modn2 t b c) = sval b % sval c := s_modn2_ok t b c hb hc hpos

/-- `inv_mod(rint& a, b, c)` for a positive modulus `c` and every `b`, negative ones included (reduced to `c - ((-b) mod c)` first), that is
    coprime to `c`: `0 ≤ a < c` and `c ∣ a·b - 1` -/
theorem rint_invmod_exact (t : Nat) {n : Nat} (b c : RU n) (hb : WF b) (hc : WF c) (hpos : 0 < sval c)
    (hcop : Nat.gcd (sval b).natAbs (sval c).natAbs = 1) :
    WF (s_invmod t b c) ∧ 0 ≤ sval (s_invmod t b c) ∧ sval (s_invmod t b c) < sval c ∧
    (sval c : Int) ∣ sval (s_invmod t b c) * sval b - 1 := s_invmod_ok t b c hb hc hpos hcop

example : ∃ b c : RU 1, WF b ∧ WF c ∧ 0 < sval c ∧ sval b < 0 ∧ Nat.gcd (sval b).natAbs (sval c).natAbs = 1 :=
  ⟨ones 1, ofLimb 1 1, by simp [ones, WF, B64], by simp [ofLimb, zero, WF, B64], by decide, by decide, by decide⟩

/-! ### conversions between `ruint<K>` / `rint<K>` and the built-in types (ruruint.h constructors and casts, rrint.h) -/
/-- `ruint<K>(T b)` for every value of every **signed** built-in type (`Low(b < 0 ? -(b+1) : b)`, complemented when `b < 0`): the image
    `b mod 2^bits`; hence `rint<K>(T b)` (`Value(b)`) has the value `b` exactly -/
theorem from_signed_word_exact (n : Nat) (w : Int) (h0 : -(2 : Int) ^ 63 ≤ w) (h1 : w < (2 : Int) ^ 63) :
    WF (u_of_signed n w) ∧ (val (u_of_signed n w) : Int) = w % Bn n ∧ sval (u_of_signed n w) = w := by
  obtain ⟨hw, he⟩ := u_of_signed_ok n w (by simp only [B64]; omega) (by simp only [B64]; omega)
  refine ⟨hw, he, ?_⟩
  have hle : (B64 : Int) ≤ Bn n := by exact_mod_cast B64_le_Bn n
  rw [sval_eq_swrap _ _ he]
  exact swrap_id n w (by simp only [B64] at hle; omega) (by simp only [B64] at hle; omega)

/-- `ruint<K>(T b)` for every value of every **unsigned** built-in type (`Low(b)`, the rest zero): the value `b` -/
theorem from_unsigned_word_exact (n : Nat) (w : Nat) (h : w < B64) : WF (ofLimb n w) ∧ val (ofLimb n w) = w := ofLimb_ok n w h

/-- the casts `(uint64_t)a`, `(int64_t)a`, `(uint32_t)a`, `(int32_t)a`, `(bool)a` (every `operator T()` returns `T(Low)` … `T(Value)`):
    the value reduced modulo `2^64` resp. `2^32`, read in two's complement for the signed types; `bool` is `a ≠ 0` -/
theorem to_word_exact {n : Nat} (a : RU n) (ha : WF a) :
    to_u64 a = val a % 2 ^ 64 ∧
    to_s64 a = (if val a % 2 ^ 64 < 2 ^ 63 then ((val a % 2 ^ 64 : Nat) : Int) else ((val a % 2 ^ 64 : Nat) : Int) - 2 ^ 64) ∧
    to_u32 a = val a % 2 ^ 32 ∧
    to_s32 a = (if val a % 2 ^ 32 < 2 ^ 31 then ((val a % 2 ^ 32 : Nat) : Int) else ((val a % 2 ^ 32 : Nat) : Int) - 2 ^ 32) ∧
    (to_bool a = true ↔ val a ≠ 0) := by
  have hl := ls_limb_ok a ha
  have e32 : val a % B64 % 4294967296 = val a % 4294967296 := Nat.mod_mod_of_dvd _ (by simp only [B64]; decide)
  refine ⟨?_, ?_, ?_, ?_, to_bool_ok a⟩
  · unfold to_u64; rw [hl]; rfl
  · unfold to_s64; rw [hl]; rfl
  · unfold to_u32; rw [hl, e32]; rfl
  · unfold to_s32; rw [hl, e32]; rfl

/-- word round trip: a signed 64-bit value survives `rint<K>(w)` / `ruint<K>(w)` followed by `(int64_t)` at every size -/
theorem word_roundtrip (n : Nat) (w : Int) (h0 : -(2 : Int) ^ 63 ≤ w) (h1 : w < (2 : Int) ^ 63) : to_s64 (u_of_signed n w) = w := by
  obtain ⟨hw, he, -⟩ := from_signed_word_exact n w h0 h1
  obtain ⟨k, hk⟩ := B64_dvd_Bn n
  have hm : ((val (u_of_signed n w) % B64 : Nat) : Int) = w % (B64 : Int) := by
    rw [Int.natCast_mod, he, hk, Nat.cast_mul]; exact Int.emod_emod_of_dvd _ (Dvd.intro _ rfl)
  unfold to_s64
  rw [ls_limb_ok _ hw]
  have hlt := Nat.mod_lt (val (u_of_signed n w)) (show 0 < B64 by decide)
  by_cases hx : val (u_of_signed n w) % B64 < 9223372036854775808
  · rw [if_pos hx]; simp only [B64] at hm hlt hx ⊢; omega
  · rw [if_neg hx]; simp only [B64] at hm hlt hx ⊢; omega

/-- `ruint<K>(double b)` for an integer-valued `b` with `|b| < 2^64` (magnitude truncated into the low limb, negated for `b < 0`;
    at the limb level `static_cast<limb>(b)`, which C++ defines only for `b ≥ 0`): the image `b mod 2^bits`, so `rint<K>(double)` is exact
    on `|b| < 2^63` -/
theorem from_double_exact (n : Nat) (d : Int) (h0 : -(2 : Int) ^ 64 < d) (h1 : d < (2 : Int) ^ 64) :
    WF (u_of_double n d) ∧ (val (u_of_double n d) : Int) = d % Bn n :=
  u_of_double_ok n d (by simp only [B64]; omega) (by simp only [B64]; omega)

/-- `(double)a`: the code converts **only the least significant limb** (`(double)(Low)` recursively), with the hardware rounding of
    `uint64_t → double` (nearest, ties to even — `dbl_of_u64_rounding`); it is exact whenever `a < 2^53`, and for `rint` whenever `|a| < 2^53`.
    For `a ≥ 2^64` the result is the double of `a mod 2^64`, not of `a` (stated, not hidden: `to_double_is_low_limb`). -/
theorem to_double_exact {n : Nat} (a : RU n) (ha : WF a) :
    (val a < 2 ^ 53 → u_to_double a = val a) ∧ (-(2 : Int) ^ 53 < sval a → sval a < (2 : Int) ^ 53 → s_to_double a = sval a) :=
  ⟨fun h => u_to_double_exact a ha (by omega), fun h0 h1 => s_to_double_exact a ha (by omega) (by omega)⟩

theorem to_double_is_low_limb {n : Nat} (a : RU n) (ha : WF a) : u_to_double a = dbl_of_u64 (val a % 2 ^ 64) := u_to_double_ok a ha

/-- the rounding of `(double)(uint64_t v)` for `v ≥ 2^53`: with `p = 2^(⌊log2 v⌋ - 52)` the spacing of doubles at `v`, the result is a
    multiple of `p` within `p/2` of `v`, and in a tie the even multiple -/
theorem dbl_of_u64_rounding (v : Nat) (h : 2 ^ 53 ≤ v) :
    dbl_of_u64 v % 2 ^ (Nat.log2 v - 52) = 0 ∧ 2 * dbl_of_u64 v ≤ 2 * v + 2 ^ (Nat.log2 v - 52) ∧
    2 * v ≤ 2 * dbl_of_u64 v + 2 ^ (Nat.log2 v - 52) ∧
    ((2 * dbl_of_u64 v = 2 * v + 2 ^ (Nat.log2 v - 52) ∨ 2 * v = 2 * dbl_of_u64 v + 2 ^ (Nat.log2 v - 52)) →
      (dbl_of_u64 v / 2 ^ (Nat.log2 v - 52)) % 2 = 0) := dbl_of_u64_rne v (by omega)

example : ∃ w : Int, -(2 : Int) ^ 63 ≤ w ∧ w < (2 : Int) ^ 63 ∧ w < 0 := ⟨-9223372036854775808, by decide, by decide, by decide⟩
example : ∃ a : RU 1, WF a ∧ ¬ val a < 2 ^ 53 ∧ -(2 : Int) ^ 53 < sval a ∧ sval a < (2 : Int) ^ 53 := ⟨ones 1, by simp [ones, WF, B64], by decide, by decide, by decide⟩
example : ∃ v : Nat, 2 ^ 53 ≤ v ∧ dbl_of_u64 v ≠ v := ⟨2 ^ 53 + 1, by decide, by decide⟩

/-! ### mixed operands: recursive integer ⊗ built-in scalar -/
/-- For every size, every well-formed `a` and **every value `w` of every built-in integral type** (`|w| < 2^64` covers u8 … s64 and
    bool), the mixed operators and named forms of `ruint<K>` — `a + w`, `w + a`, `a += w`, `add(r, a, w)`; `a - w`, `a -= w`, `sub`;
    `w - a`; `a * w`, `w * a`, `a *= w`, `mul`; `cmp(a, w)` and the six relations; `a / w`, `a /= w`, `div_q`; `a % w`, `a %= w`,
    `div_r`; `a << w`, `a >> w` — compute: convert the scalar to ℤ by its C++ value, operate in ℤ (truncated division), reduce modulo
    `2^(2^K)`.  The model is the code after fixes/C06_11…14 (sign dispatch on the magnitude `limb(0) - limb(c)`). -/
theorem mixed_ops_exact (t : Nat) {n : Nat} (a : RU n) (w : Int) (ha : WF a) (h1 : -(2 : Int) ^ 64 < w) (h2 : w < (2 : Int) ^ 64) :
    (WF (add_s a w) ∧ (val (add_s a w) : Int) = ((val a : Int) + w) % Bn n) ∧
    (WF (sub_s a w) ∧ (val (sub_s a w) : Int) = ((val a : Int) - w) % Bn n) ∧
    (WF (rsub_s a w) ∧ (val (rsub_s a w) : Int) = (w - (val a : Int)) % Bn n) ∧
    (WF (mul_s a w) ∧ (val (mul_s a w) : Int) = ((val a : Int) * w) % Bn n) ∧
    ((cmp_s a w = -1 ∧ (val a : Int) < w) ∨ (cmp_s a w = 0 ∧ (val a : Int) = w) ∨ (cmp_s a w = 1 ∧ (val a : Int) > w)) ∧
    (w ≠ 0 → (WF (divq_s t a w) ∧ (val (divq_s t a w) : Int) = (Int.tdiv (val a) w) % Bn n) ∧
             (WF (mod_s t a w) ∧ (val (mod_s t a w) : Int) = Int.tmod (val a) w)) ∧
    (0 ≤ w → (WF (left_shift a w.toNat) ∧ val (left_shift a w.toNat) = (val a * 2 ^ w.toNat) % Bn n) ∧
             (WF (right_shift a w.toNat) ∧ val (right_shift a w.toNat) = val a / 2 ^ w.toNat)) :=
  ⟨add_s_ok a w ha h1 h2, sub_s_ok a w ha h1 h2, rsub_s_ok a w ha h1 h2, mul_s_ok a w ha h1 h2, cmp_s_ok a w ha h2,
   fun h0 => ⟨divq_s_ok t a w ha h1 h2 h0, mod_s_ok t a w ha h1 h2 h0⟩,
   fun _ => ⟨(shift_ok n a w.toNat ha).1, (shift_ok n a w.toNat ha).2⟩⟩

/-- `rint<K>` stores the two's-complement image and forwards `+ − *` with a scalar to the same functions: on the signed readings
    `sval`, the result is the two's-complement wrap of the exact integer result, for every scalar value of every built-in type -/
theorem mixed_ops_exact_signed {n : Nat} (a : RU n) (w : Int) (ha : WF a) (h1 : -(2 : Int) ^ 64 < w) (h2 : w < (2 : Int) ^ 64) :
    let wrap (v : Int) : Int := if 2 * (v % (Bn n : Int)) < Bn n then v % (Bn n : Int) else v % (Bn n : Int) - Bn n
    sval (add_s a w) = wrap (sval a + w) ∧ sval (sub_s a w) = wrap (sval a - w) ∧ sval (rsub_s a w) = wrap (w - sval a) ∧
    sval (mul_s a w) = wrap (sval a * w) := by
  intro wrap
  have hs := sval_mod a
  have e1 : ((val a : Int) + w) % Bn n = (sval a + w) % Bn n := by rw [Int.add_emod, ← hs, ← Int.add_emod]
  have e2 : ((val a : Int) - w) % Bn n = (sval a - w) % Bn n := by rw [Int.sub_emod, ← hs, ← Int.sub_emod]
  have e3 : (w - (val a : Int)) % Bn n = (w - sval a) % Bn n := by rw [Int.sub_emod, ← hs, ← Int.sub_emod]
  have e4 : ((val a : Int) * w) % Bn n = (sval a * w) % Bn n := by rw [Int.mul_emod, ← hs, ← Int.mul_emod]
  refine ⟨?_, ?_, ?_, ?_⟩
  · rw [sval_of_mod _ _ ((add_s_ok a w ha h1 h2).2.trans e1)]
  · rw [sval_of_mod _ _ ((sub_s_ok a w ha h1 h2).2.trans e2)]
  · rw [sval_of_mod _ _ ((rsub_s_ok a w ha h1 h2).2.trans e3)]
  · rw [sval_of_mod _ _ ((mul_s_ok a w ha h1 h2).2.trans e4)]

example : ∃ w : Int, -(2 : Int) ^ 64 < w ∧ w < (2 : Int) ^ 64 ∧ w < 0 ∧ w ≠ 0 := ⟨-2147483648, by decide, by decide, by decide, by decide⟩

-- non-vacuity: well-formed operands exist at a recursive level, and the carries really occur
example : ∃ b c : RU 2, WF b ∧ WF c ∧ (add b c).2 = true :=
  ⟨ones 2, ones 2, by simp [ones, WF, B64], by simp [ones, WF, B64], by decide⟩
example : ∃ b c : RU 2, WF b ∧ WF c ∧ (sub b c).2 = true :=
  ⟨zero 2, ones 2, by simp [zero, WF, B64], by simp [ones, WF, B64], by decide⟩
example : ∃ b : RU 2, WF b ∧ (add_1 b).2 = true ∧ (sub_1 (zero 2)).2 = true := ⟨ones 2, by simp [ones, WF, B64], by decide, by decide⟩
example : ∃ (b : RU 2) (c : Nat), WF b ∧ c < B64 ∧ (add_l b c).2 = true ∧ (sub_l (zero 2) c).2 = true :=
  ⟨ones 2, 1, by simp [ones, WF, B64], by decide, by decide, by decide⟩
example : ∃ a b : RU 1, WF a ∧ WF b ∧ cmp a b = -1 :=
  ⟨zero 1, ones 1, by simp [zero, WF, B64], by simp [ones, WF, B64], by decide⟩

end Givaro.Props.C06
