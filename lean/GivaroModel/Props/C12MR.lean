/-
C12 (round 4) — the Monte-Carlo tests `IntPrimeDom::Miller`, `test_Lehmann`, `Lehmann` (givintprime.inl) as functions of the base
they draw (model: Model/PrimesMR.lean; the base is `2 + mpz_urandomm(n-3)` resp. `1 + mpz_urandomm(n-1)`, the correspondence
recomputes it from the seed of the library generator).  Every statement is for EVERY n and EVERY base of the stated range:
"composite" is never said of a prime, and "prime" for base a is exactly the strong-pseudoprime (Miller) / Euler `-1` (Lehmann)
condition for a.
-/
import GivaroModel.Lemmas.PrimesMR
namespace Givaro.Props.C12MR
open Givaro Givaro.Model.Primes Givaro.Lemmas.Primes

/-! ## Miller -/

/-- `Miller` returns 0 or 1 -/
theorem miller_zero_or_one (n a : Int) : millerBase n a = 0 ∨ millerBase n a = 1 := millerBase_01 n a

/-- the guards: `if (n < 2) return 0; if (n <= 3) return 1;` -/
theorem miller_guards (n a : Int) : (n < 2 → millerBase n a = 0) ∧ (2 ≤ n → n ≤ 3 → millerBase n a = 1) := by
  constructor
  · intro h; unfold millerBase; simp [h]
  · intro h2 h3
    have : ¬ n < 2 := by omega
    unfold millerBase; simp [this, h3]

/-- **soundness of "composite", every base**: a prime n is never declared composite, whatever base `1 ≤ a < n` is used
    (the admissible range `[2, n-2]` of the draw is inside) -/
theorem miller_prime_passes (n a : Int) (hp : Nat.Prime n.toNat) (h1 : 1 ≤ a) (h2 : a < n) : millerBase n a = 1 := by
  have hn2 := hp.two_le
  by_cases h3 : n ≤ 3
  · exact (miller_guards n a).2 (by omega) h3
  · obtain ⟨N, rfl⟩ := Int.eq_ofNat_of_zero_le (by omega : 0 ≤ n)
    obtain ⟨A, rfl⟩ := Int.eq_ofNat_of_zero_le (by omega : 0 ≤ a)
    simp only [Int.toNat_natCast] at hp
    have hA : A % N ≠ 0 := by rw [Nat.mod_eq_of_lt (by omega)]; omega
    exact millerBase_prime N A (by omega) hp hA
example : Nat.Prime (13 : Int).toNat ∧ (1 : Int) ≤ 5 ∧ (5 : Int) < 13 := ⟨by decide, by decide, by decide⟩

/-- the same for the raw draw `u = mpz_urandomm(n-3) ∈ [0, n-3)`: `Miller(g, n)` answers 1 for a prime n whatever is drawn -/
theorem miller_prime_passes_every_draw (n u : Int) (hp : Nat.Prime n.toNat) (h0 : 0 ≤ u) (h1 : u < n - 3) : miller n u = 1 := by
  unfold miller millerDraw
  exact miller_prime_passes n (u + 2) hp (by omega) (by omega)
example : Nat.Prime (13 : Int).toNat ∧ (0 : Int) ≤ 9 ∧ (9 : Int) < 13 - 3 := ⟨by decide, by decide, by decide⟩

/-- contrapositive: the answer 0 proves that n is not prime -/
theorem miller_composite_sound (n a : Int) (h1 : 1 ≤ a) (h2 : a < n) (h : millerBase n a = 0) : ¬ Nat.Prime n.toNat := by
  intro hp
  have := miller_prime_passes n a hp h1 h2
  omega
example : (1 : Int) ≤ 2 ∧ (2 : Int) < 9 ∧ ¬ Nat.Prime (9 : Int).toNat := ⟨by decide, by decide, by decide⟩

/-- **"prime" for base a is exactly the strong-pseudoprime condition for a** (as the code tests it): with `n - 1 = t·2^s`, `t` odd,
    `Miller` answers 1 iff `a^t ≡ 1`, or `a^t ≡ -1`, or `a^(t·2^r) ≡ -1` for some `1 ≤ r < s` (mod n).  For odd n (s ≥ 1) this is
    the usual definition of "n is a strong probable prime to base a"; for even n ≥ 4 (s = 0) the code also accepts `a^(n-1) ≡ -1`. -/
theorem miller_accepts_iff (n a : Int) (t s : Nat) (hn : 4 ≤ n) (ha : 0 ≤ a) (ht : t % 2 = 1) (hN : n.toNat - 1 = t * 2 ^ s) :
    millerBase n a = 1 ↔
      (a.toNat ^ t % n.toNat = 1 ∨ a.toNat ^ t % n.toNat = n.toNat - 1 ∨
        ∃ r, 1 ≤ r ∧ r < s ∧ a.toNat ^ (t * 2 ^ r) % n.toNat = n.toNat - 1) := by
  obtain ⟨N, rfl⟩ := Int.eq_ofNat_of_zero_le (by omega : 0 ≤ n)
  obtain ⟨A, rfl⟩ := Int.eq_ofNat_of_zero_le ha
  simp only [Int.toNat_natCast] at hN ⊢
  exact millerBase_iff N A t s (by omega) ht hN
example : (4 : Int) ≤ 13 ∧ (0 : Int) ≤ 2 ∧ 3 % 2 = 1 ∧ (13 : Int).toNat - 1 = 3 * 2 ^ 2 := ⟨by decide, by decide, by decide, by decide⟩

/-- a "prime" answer on an odd n implies Fermat's condition `a^(n-1) ≡ 1 (mod n)` for the base -/
theorem miller_accept_fermat (n a : Int) (hn : 4 ≤ n) (hodd : n % 2 = 1) (ha : 0 ≤ a) (h : millerBase n a = 1) :
    a.toNat ^ (n.toNat - 1) % n.toNat = 1 := by
  obtain ⟨N, rfl⟩ := Int.eq_ofNat_of_zero_le (by omega : 0 ≤ n)
  obtain ⟨A, rfl⟩ := Int.eq_ofNat_of_zero_le ha
  simp only [Int.toNat_natCast] at ⊢
  obtain ⟨s, t, htodd, hts⟩ := Nat.exists_eq_two_pow_mul_odd (n := N - 1) (by omega)
  have ht : t % 2 = 1 := Nat.odd_iff.1 htodd
  have hN : N - 1 = t * 2 ^ s := by rw [hts]; ring
  have hs : 1 ≤ s := by
    rcases Nat.eq_zero_or_pos s with h0 | h0
    · subst h0; simp at hN; omega
    · exact h0
  have h2N : 2 ≤ N := by omega
  have key := (millerBase_iff N A t s (by omega) ht hN).1 h
  rw [← zmod_eq_one_iff N _ h2N]
  push_cast
  -- in ZMod N: x = A^t, and x^(2^s) is a power of a square root of 1
  have hm1 : ∀ r, r < s → ((A : ZMod N) ^ (t * 2 ^ r)) = -1 → (A : ZMod N) ^ (N - 1) = 1 := by
    intro r hr h1
    have : N - 1 = (t * 2 ^ r) * 2 ^ (s - r) := by
      rw [hN, Nat.mul_assoc, ← pow_add]; congr 2; omega
    rw [this, pow_mul, h1]
    have he : 2 ^ (s - r) = 2 * 2 ^ (s - r - 1) := by
      have : s - r = (s - r - 1) + 1 := by omega
      conv_lhs => rw [this, pow_succ]
      ring
    rw [he, pow_mul]; simp
  rcases key with k | k | ⟨r, r1, r2, k⟩
  · have : ((A ^ t : Nat) : ZMod N) = 1 := (zmod_eq_one_iff N _ h2N).2 k
    push_cast at this
    rw [hN, pow_mul, this, one_pow]
  · have : ((A ^ t : Nat) : ZMod N) = -1 := (zmod_eq_neg_one_iff N _ h2N).2 k
    push_cast at this
    exact hm1 0 (by omega) (by simpa using this)
  · have : ((A ^ (t * 2 ^ r) : Nat) : ZMod N) = -1 := (zmod_eq_neg_one_iff N _ h2N).2 k
    push_cast at this
    exact hm1 r r2 this
example : (4 : Int) ≤ 9 ∧ (9 : Int) % 2 = 1 ∧ (0 : Int) ≤ 8 := ⟨by decide, by decide, by decide⟩

/-! ## Lehmann -/

/-- **`test_Lehmann`, every base**: for a prime n the value returned is 1 or n-1 whatever base `1 ≤ A < n` is drawn — so
    "else: n composite" is never said of a prime -/
theorem test_lehmann_prime (n A : Int) (hp : Nat.Prime n.toNat) (h1 : 1 ≤ A) (h2 : A < n) :
    testLehmannBase n A = 1 ∨ testLehmannBase n A = n - 1 := by
  have hn2 := hp.two_le
  obtain ⟨N, rfl⟩ := Int.eq_ofNat_of_zero_le (by omega : 0 ≤ n)
  obtain ⟨B, rfl⟩ := Int.eq_ofNat_of_zero_le (by omega : 0 ≤ A)
  simp only [Int.toNat_natCast] at hp
  have hA : B % N ≠ 0 := by rw [Nat.mod_eq_of_lt (by omega)]; omega
  exact testLehmann_prime N B hp hA
example : Nat.Prime (13 : Int).toNat ∧ (1 : Int) ≤ 5 ∧ (5 : Int) < 13 := ⟨by decide, by decide, by decide⟩

/-- the raw-draw form: `u = mpz_urandomm(n-1) ∈ [0, n-1)` -/
theorem test_lehmann_prime_every_draw (n u : Int) (hp : Nat.Prime n.toNat) (h0 : 0 ≤ u) (h1 : u < n - 1) :
    testLehmann n u = 1 ∨ testLehmann n u = n - 1 := by
  unfold testLehmann lehmannDraw
  exact test_lehmann_prime n (u + 1) hp (by omega) (by omega)
example : Nat.Prime (13 : Int).toNat ∧ (0 : Int) ≤ 11 ∧ (11 : Int) < 13 - 1 := ⟨by decide, by decide, by decide⟩

/-- `Lehmann` returns 0 or 1, with the guards `n < 2 → 0`, `n ≤ 3 → 1` -/
theorem lehmann_zero_or_one (n A : Int) : lehmannBase n A = 0 ∨ lehmannBase n A = 1 := by
  unfold lehmannBase
  split
  · exact Or.inl rfl
  split
  · exact Or.inr rfl
  split
  · exact Or.inr rfl
  · exact Or.inl rfl

/-- **"prime" for base A is exactly Euler's condition with value -1**: `Lehmann` answers 1 iff `A^((n-1)/2) ≡ -1 (mod n)` -/
theorem lehmann_accepts_iff (n A : Int) (hn : 4 ≤ n) (hA : 0 ≤ A) :
    lehmannBase n A = 1 ↔ A.toNat ^ ((n.toNat - 1) / 2) % n.toNat = n.toNat - 1 := by
  obtain ⟨N, rfl⟩ := Int.eq_ofNat_of_zero_le (by omega : 0 ≤ n)
  obtain ⟨B, rfl⟩ := Int.eq_ofNat_of_zero_le hA
  simp only [Int.toNat_natCast]
  exact lehmannBase_iff N B (by omega)
example : (4 : Int) ≤ 13 ∧ (0 : Int) ≤ 2 := ⟨by decide, by decide⟩

/-- for a prime n > 3 and a base `1 ≤ A < n`, `Lehmann` answers 1 exactly when A is a quadratic NON-residue mod n (so a prime is
    announced "composite" for the residues: the documented probability 1/2 of the one-round test) -/
theorem lehmann_prime_iff_nonresidue (n A : Int) (hn : 4 ≤ n) (hp : Nat.Prime n.toNat) (h1 : 1 ≤ A) (h2 : A < n) :
    lehmannBase n A = 1 ↔ ¬ IsSquare ((A.toNat : Nat) : ZMod n.toNat) := by
  obtain ⟨N, rfl⟩ := Int.eq_ofNat_of_zero_le (by omega : 0 ≤ n)
  obtain ⟨B, rfl⟩ := Int.eq_ofNat_of_zero_le (by omega : 0 ≤ A)
  simp only [Int.toNat_natCast] at hp ⊢
  have hA : B % N ≠ 0 := by rw [Nat.mod_eq_of_lt (by omega)]; omega
  exact lehmannBase_prime_iff N B (by omega) hp hA
example : (4 : Int) ≤ 13 ∧ Nat.Prime (13 : Int).toNat ∧ (1 : Int) ≤ 2 ∧ (2 : Int) < 13 := ⟨by decide, by decide, by decide, by decide⟩

end Givaro.Props.C12MR
