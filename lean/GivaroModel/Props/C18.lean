/-
C18 — const use of a shared domain object from several threads is race-free.

(1) `readonly_*`: in the execution model of Model/Threads.lean, a schedule made of read-only operations -- whatever the number of
    threads and whatever the interleaving -- leaves the shared memory untouched, contains no storing step (hence no conflicting
    pair, hence no data race), and gives every thread exactly the results of running its own program alone on the initial memory.
(2) `claimed_ops_readonly`: a kernel evaluation over the footprint table regenerated from the clang AST on every run
    (translate/footprint.py): every const member function and copy constructor of a domain class (random draws excepted) writes no
    data member of the shared object (no assignment to, non-const call on or non-const binding of a `mutable` member, no `const_cast`), writes through no pointer member (shared tables, plain counters;
    `std::atomic` pointees are synchronised by construction) and touches no static storage except the documented random state.
-/
import GivaroModel.Model.Threads
import GivaroModel.Generated.Footprint
namespace Givaro.Props.C18
open Givaro.Model.Threads Givaro.Gen.Footprint

theorem store_nil (m : Mem) : store m [] = m := rfl

/-- read-only schedules never change the shared memory -/
theorem readonly_mem_unchanged (m : Mem) (sched : List (Nat × Op)) (h : ∀ s ∈ sched, s.2.readOnly) :
    (exec m sched).1 = m := by
  induction sched generalizing m with
  | nil => rfl
  | cons s rest ih =>
    obtain ⟨t, o⟩ := s
    have ho : o.readOnly := h (t, o) (by simp)
    simp only [exec]
    rw [ho m, store_nil]
    exact ih m (fun s hs => h s (by simp [hs]))

/-- … and every step returns what it returns on the initial memory, independently of where it is scheduled -/
theorem readonly_results (m : Mem) (sched : List (Nat × Op)) (h : ∀ s ∈ sched, s.2.readOnly) :
    (exec m sched).2 = sched.map (fun s => (s.1, (s.2.run m).2)) := by
  induction sched generalizing m with
  | nil => rfl
  | cons s rest ih =>
    obtain ⟨t, o⟩ := s
    have ho : o.readOnly := h (t, o) (by simp)
    simp only [exec, List.map_cons]
    rw [ho m, store_nil, ih m (fun s hs => h s (by simp [hs]))]

/-- every thread obtains, under ANY interleaving, the results of running its own program sequentially on the initial memory -/
theorem readonly_thread_results_sequential (m : Mem) (sched : List (Nat × Op)) (h : ∀ s ∈ sched, s.2.readOnly) (t : Nat) :
    resultsOf t (exec m sched).2 = (programOf t sched).map (fun o => (o.run m).2) := by
  rw [readonly_results m sched h]
  unfold resultsOf programOf
  induction sched with
  | nil => rfl
  | cons s rest ih =>
    have ih' := ih (fun s hs => h s (by simp [hs]))
    by_cases hs : s.1 == t <;> simp [List.filter, hs, ih']

/-- two interleavings of the same per-thread programs give every thread the same results -/
theorem readonly_interleaving_independent (m : Mem) (s1 s2 : List (Nat × Op))
    (h1 : ∀ s ∈ s1, s.2.readOnly) (h2 : ∀ s ∈ s2, s.2.readOnly) (t : Nat) (hp : programOf t s1 = programOf t s2) :
    resultsOf t (exec m s1).2 = resultsOf t (exec m s2).2 := by
  rw [readonly_thread_results_sequential m s1 h1, readonly_thread_results_sequential m s2 h2, hp]

/-- a read-only schedule contains no storing step: there is no write that could conflict with another access -/
theorem readonly_race_free (m : Mem) (sched : List (Nat × Op)) (h : ∀ s ∈ sched, s.2.readOnly) :
    ¬ hasSharedWrite m sched := by
  rintro ⟨s, hs, m', hw⟩
  exact hw (h s hs m')

-- non-vacuity: two threads, three read-only operations, two different interleavings
example : let rd : Op := ⟨fun m => ([], m 0 + 1)⟩
    (∀ s ∈ [(0, rd), (1, rd), (0, rd)], s.2.readOnly) ∧ (exec (fun _ => 41) [(0, rd), (1, rd), (0, rd)]).2 = [(0, 42), (1, 42), (0, 42)] := by
  refine ⟨?_, rfl⟩
  intro s hs m
  simp at hs
  rcases hs with h | h | h <;> subst h <;> rfl

/-! ### the claimed operations of the real code are read-only on the shared object -/
/-- `Rational::flags` (the documented process-wide reduction mode) may be read by the rational field operations, never written -/
def allowedStatics : List String := ["local:randstate", "write:randstate", "Rational::flags"]

theorem claimed_ops_readonly :
    ∀ r ∈ rows, r.claimed = true → r.constWrites = [] ∧ r.pointeeWrites = [] ∧ (∀ s ∈ r.statics, s ∈ allowedStatics) := by
  decide +kernel

/-- … and hands no data member of the shared object (nor the object itself, nor -- in a copy constructor -- the source object) to a
    callee position through which that callee, or anything it forwards the parameter to, may store (`translate/paramwrites.py`: least
    fixpoint over the call graph, `const_cast` and C-style casts followed, bodies outside the translation unit judged by parameter
    type).  The only entries of the regenerated table that are not counted are listed in `argNormalise`: the polynomial constants
    `zero`/`one`/`mOne` and `Extension`'s modulus handed to the in-place normalising predicates, where every store on the path is the
    guarded `resize` of `Poly1Dom::setdegree` -- unreachable while these members are stored normalised, which the thread harness
    inspects on every run (`norm` lines) and which is an assumption of this theorem's reading, not proved. -/
theorem claimed_ops_hand_out_no_shared_member :
    ∀ r ∈ rows, r.claimed = true → r.argWrites = [] := by
  decide +kernel

/-- non-vacuity of the interprocedural column: the analysis does find hand-outs of data members to storing callees in claimed
    operations -- the normalising ones, listed in `argNormalise` -/
example : (rows.any (fun r => r.claimed && !r.argNormalise.isEmpty)) = true := by decide +kernel

/-- non-vacuity: the claimed set is large, and the excluded random draws are exactly where writes (to the caller's generator) occur -/
example : (rows.filter (·.claimed)).length > 300 ∧ (rows.any (fun r => !r.claimed && !r.constWrites.isEmpty)) = true := by
  decide +kernel

end Givaro.Props.C18
