/-
C10 (depth) — conversions out of a Rational and `operator%(const Integer&)`.

* to every word type: whenever the truncated value fits the type, the conversion returns it (outside, C++ leaves the
  narrowing to the implementation; the model mirrors `mpz_get_si` / `mpz_get_ui` and the harness compares it anyway);
* to `double` / `float`: the model is `mpz_get_d` (truncation) on both members followed by one IEEE division, validated
  bit for bit against the hardware by the correspondence; what is *proved* here is the meaning of the independent checker
  the driver applies to the implementation's bits (relative distance to the exact value), not an error analysis of the model;
* `operator%`: for a modulus coprime to the denominator the result is congruent to `num/den`.
-/
import GivaroModel.Lemmas.RationalValue
import GivaroModel.Lemmas.GmpLemmas
import GivaroModel.Model.RationalConv
import GivaroModel.Props.C10
set_option linter.unusedVariables false
set_option linter.unusedSimpArgs false
namespace Givaro.Props.C10
open Givaro Givaro.Model.Rational Givaro.Spec.Rational Givaro.Lemmas.Rational

/-- conversions to the signed and unsigned word types: the truncated quotient (towards zero), when it fits -/
theorem to_word_exact (a : QRep) :
    (InS64 (trunc a) → toS64 a = trunc a) ∧ (InU64 (trunc a) → toU64 a = trunc a) ∧
    (InS32 (trunc a) → toS32 a = trunc a) ∧ (InU32 (trunc a) → toU32 a = trunc a) ∧
    (InS16 (trunc a) → toS16 a = trunc a) ∧ (InU16 (trunc a) → toU16 a = trunc a) ∧
    (InS8 (trunc a) → toS8 a = trunc a) ∧ (InU8 (trunc a) → toU8 a = trunc a) := by
  unfold toS16 toU16 toS8 toU8 toS64 toU64 toS32 toU32 trunc
  generalize idiv a.num a.den = t
  unfold InS64 InU64 InS32 InU32 InS16 InU16 InS8 InU8 mpz_get_si mpz_get_ui iabs wrapS32 wrapU32 wrapS16 wrapU16 wrapS8 wrapU8
  refine ⟨?_, ?_, ?_, ?_, ?_, ?_, ?_, ?_⟩ <;> intro h <;> split_ifs <;> omega
example : toS8 ⟨-257, 2⟩ = -128 ∧ toU16 ⟨131071, 2⟩ = 65535 ∧ toS64 ⟨-7, 2⟩ = -3 := by decide

/-- with `trunc_exact`: the conversion to a word is the value rounded towards zero -/
theorem to_int64_is_truncation (red : Bool) (a : QRep) (ha : Valid red a) (hf : InS64 (trunc a)) :
    toS64 a = if 0 ≤ val a then ⌊val a⌋ else ⌈val a⌉ := by
  rw [(to_word_exact a).1 hf]; exact trunc_exact red a ha
example : Valid true ⟨-7, 2⟩ ∧ InS64 (trunc ⟨-7, 2⟩) := ⟨⟨by decide, fun _ => by decide⟩, by decide⟩

/-- meaning of the checker applied to the `double` / `float` the implementation returns: the bit pattern denotes a normal
    number `v` with `|v - n/d| ≤ 2^-k |n/d|` -/
theorem float_check_sound (prec eb k : Nat) (n d bits : Int) (hd : 0 < d) (hn : n ≠ 0)
    (h : floatCheck prec eb k n d bits = true) :
    ∃ vn vd : Int, ieeeFrac prec eb bits = some (vn, vd) ∧ 0 < vd ∧
      |(vn : ℚ) / vd - (n : ℚ) / d| ≤ (2 : ℚ)⁻¹ ^ k * |(n : ℚ) / d| := by
  unfold floatCheck at h
  simp only [hn, ↓reduceIte] at h
  cases hf : ieeeFrac prec eb bits with
  | none => simp [hf] at h
  | some v =>
    obtain ⟨vn, vd⟩ := v
    simp only [hf, decide_eq_true_eq] at h
    have hvd : 0 < vd := by
      unfold ieeeFrac at hf
      simp only at hf
      split_ifs at hf <;> simp only [Option.some.injEq, Prod.mk.injEq] at hf <;>
        first | omega | (obtain ⟨_, h2⟩ := hf; rw [← h2]; positivity)
    refine ⟨vn, vd, rfl, hvd, ?_⟩
    have hdq : (0 : ℚ) < d := by exact_mod_cast hd
    have hvq : (0 : ℚ) < vd := by exact_mod_cast hvd
    rw [iabs_eq, iabs_eq] at h
    have hq : (|(vn : ℚ) * d - n * vd| * 2 ^ k ≤ |(n : ℚ)| * vd) := by exact_mod_cast h
    have e1 : (vn : ℚ) / vd - (n : ℚ) / d = (vn * d - n * vd) / (vd * d) := by field_simp
    rw [e1, abs_div, abs_div, abs_of_pos (mul_pos hvq hdq), abs_of_pos hdq, inv_pow]
    rw [div_le_iff₀ (mul_pos hvq hdq)]
    have h2k : (0 : ℚ) < 2 ^ k := by positivity
    calc |(vn : ℚ) * d - n * vd| = (|(vn : ℚ) * d - n * vd| * 2 ^ k) / 2 ^ k := by field_simp
      _ ≤ (|(n : ℚ)| * vd) / 2 ^ k := by exact div_le_div_of_nonneg_right hq (le_of_lt h2k)
      _ = (2 ^ k)⁻¹ * (|(n : ℚ)| / d) * (vd * d) := by field_simp
example : floatCheck 53 11 51 1 3 0x3FD5555555555555 = true ∧ floatCheck 24 8 22 (-1) 3 0xBEAAAAAB = true := by decide

/-- `operator%(const Integer& r)`: `r = 0` throws; for `r` coprime to the denominator the result `x` satisfies
    `x · den ≡ num (mod r)` -/
theorem mod_integer_sound (a : QRep) (r : Int) :
    (r = 0 → modZ a r = none) ∧
    (r ≠ 0 → Int.gcd a.den r = 1 → ∃ x, modZ a r = some x ∧ (x * a.den - a.num) % r = 0) := by
  unfold modZ
  refine ⟨fun h => by simp [h], fun hr hg => ?_⟩
  simp only [hr, ↓reduceIte]
  split
  · rename_i h0
    exact ⟨a.num, rfl, by rw [h0]; simp⟩
  · refine ⟨_, rfl, ?_⟩
    have h := mpz_invert_spec a.den r hg hr
    unfold Spec.isInvMod at h
    simp only [decide_eq_true_eq] at h
    obtain ⟨_, _, h3⟩ := h
    have h4 : (mpz_invert_d0 a.den r * a.den - 1) % r = 0 := Int.emod_eq_emod_iff_emod_sub_eq_zero.mp h3
    have h5 : r ∣ mpz_invert_d0 a.den r * a.den - 1 := Int.dvd_of_emod_eq_zero h4
    apply Int.emod_eq_zero_of_dvd
    have : mpz_invert_d0 a.den r * a.num * a.den - a.num = a.num * (mpz_invert_d0 a.den r * a.den - 1) := by ring
    rw [this]
    exact Dvd.dvd.mul_left h5 _
example : modZ ⟨3, 4⟩ 7 = some 6 ∧ (6 * 4 - 3) % 7 = 0 := by decide

-- =====================================================================================================
-- predicates and accessors
-- =====================================================================================================

/-- the free predicates test the stored pair; on canonical values they decide the value (`isZero` and `sign` on any pair
    with a positive denominator), and `nume()/deno()` return the stored members -/
theorem predicates_exact (a : QRep) :
    (0 < a.den → (isZero a = true ↔ val a = 0) ∧ (sign a < 0 ↔ val a < 0) ∧ (sign a = 0 ↔ val a = 0) ∧ (sign a > 0 ↔ val a > 0)) ∧
    (Canon a → (isOne a = true ↔ val a = 1) ∧ (isMOne a = true ↔ val a = -1) ∧ (isInteger a = true ↔ ∃ z : Int, val a = z)) := by
  constructor
  · intro hd
    have hq : (0 : ℚ) < a.den := by exact_mod_cast hd
    have hz : val a = 0 ↔ a.num = 0 := by
      unfold val; rw [div_eq_zero_iff]
      constructor
      · rintro (h | h)
        · exact_mod_cast h
        · exact absurd h (ne_of_gt hq)
      · intro h; left; exact_mod_cast h
    have hn : val a < 0 ↔ a.num < 0 := by
      unfold val; rw [div_lt_iff₀ hq, zero_mul]; exact_mod_cast Iff.rfl
    have hp : val a > 0 ↔ a.num > 0 := by
      unfold val; rw [gt_iff_lt, lt_div_iff₀ hq, zero_mul]; exact_mod_cast Iff.rfl
    obtain ⟨s1, s2, s3⟩ := isign_cases a.num
    unfold isZero sign
    rw [hz, hn, hp]
    exact ⟨by simp, s1, s2, s3⟩
  · intro hc
    have hd := hc.1
    have hq : (a.den : ℚ) ≠ 0 := by exact_mod_cast (by omega : a.den ≠ 0)
    have one : val a = 1 ↔ a.num = a.den := by
      unfold val; rw [div_eq_one_iff_eq hq]; exact_mod_cast Iff.rfl
    have mone : val a = -1 ↔ a.num = -a.den := by
      unfold val; rw [div_eq_iff hq, neg_one_mul]; exact_mod_cast Iff.rfl
    have g := hc.2
    refine ⟨?_, ?_, ?_⟩
    · unfold isOne; rw [one]; simp only [Bool.and_eq_true, beq_iff_eq]
      constructor
      · rintro ⟨h1, h2⟩; omega
      · intro h; rw [h, Int.gcd_self] at g
        have : a.den = 1 := by omega
        omega
    · unfold isMOne; rw [mone]; simp only [Bool.and_eq_true, beq_iff_eq]
      constructor
      · rintro ⟨h1, h2⟩; omega
      · intro h; rw [h, Int.neg_gcd, Int.gcd_self] at g
        have : a.den = 1 := by omega
        omega
    · unfold isInteger; simp only [beq_iff_eq]
      constructor
      · intro h; exact ⟨a.num, by unfold val; rw [h]; simp⟩
      · rintro ⟨z, hz⟩
        unfold val at hz; rw [div_eq_iff hq] at hz
        have hz' : a.num = z * a.den := by exact_mod_cast hz
        rw [hz', Int.gcd_mul_left_left] at g
        omega
example : isInteger ⟨-3, 1⟩ = true ∧ isOne ⟨1, 1⟩ = true ∧ isMOne ⟨-1, 1⟩ = true ∧ sign ⟨-3, 7⟩ = -1 := by decide

-- =====================================================================================================
-- straight-line bodies of givrat*.C as compositions of the *translated* gmp++ functions
-- =====================================================================================================

/-- `Rational::reduce()`, the general branches of `operator+`, `operator*`, `operator*=`, the cross-multiplication of
    `absCompare` and `trunc`, written with the definitions regenerated from /repo's gmp++ layer (`Givaro.Gen.*`, C01/C02),
    compute exactly what the hand model computes.  The proof goes through the per-overload `_exact` theorems of C01/C02, so a
    change in the gmp++ layer *or* in the model re-checks these equalities. -/
theorem bodies_are_translated_integer_code (a r : QRep) (ha : a.den ≠ 0) (hr : r.den ≠ 0) :
    reduce a = reduceT a ∧
    (r.num ≠ 0 → a.num ≠ 0 → ¬ (a.den = 1 ∧ r.den = 1) → igcd a.den r.den ≠ 1 →
      Model.Rational.add true a r = mk3 (addGeneralT a r).num (addGeneralT a r).den 0) ∧
    mulGeneralT a r = ⟨idiv a.num (igcd a.num r.den) * idiv r.num (igcd a.den r.num),
                       idiv a.den (igcd a.den r.num) * idiv r.den (igcd a.num r.den)⟩ ∧
    mulinGeneralT a r = mulGeneralT a r ∧
    (Gen.absCompare_Zc_Zc (Gen.Integer_op_mul_Zc_const a.num r.den).ret (Gen.Integer_op_mul_Zc_const a.den r.num).ret).ret
      = mpz_cmpabs (a.num * r.den) (a.den * r.num) ∧
    trunc a = (Gen.Integer_op_div_Zc_const a.num a.den).ret :=
  ⟨reduce_body_translated a ha, add_general_translated a r ha, mul_general_translated a r ha hr,
   mulin_general_translated a r ha hr, abscompare_cross_translated a r, trunc_body_translated a ha⟩
example : igcd (4 : Int) 6 ≠ 1 ∧ ¬ ((4 : Int) = 1 ∧ (6 : Int) = 1) := by decide

end Givaro.Props.C10
