/-
C17 — containers and the pooled allocator preserve contents; nothing leaks or dangles.

Models: `Model/Array0.lean` (givarray0.inl), `Model/FreeList.lean` (givaromm.h/.C, table regenerated from the source),
`Model/Leak.lean` (ruconvert.h / rconvert.h / gmp++_int.h casts).  Every theorem below quantifies over *all* operation
lists, any number of handle slots and any element type; the proofs are in `Lemmas/Array0Inv.lean`, `Lemmas/Array0Ops.lean`,
`Lemmas/Array0Contents.lean`, `Lemmas/FreeListInv.lean`.
-/
import GivaroModel.Lemmas.Array0Ops
import GivaroModel.Lemmas.Array0Contents
import GivaroModel.Lemmas.Array0Sim
import GivaroModel.Lemmas.FreeListInv
import GivaroModel.Lemmas.Array0PoolInv
import GivaroModel.Lemmas.RefPtrEmbed
import GivaroModel.Model.Leak
namespace Givaro.Props.C17
open Givaro.Model Givaro.Model.Array0

variable {α : Type} [Inhabited α]

/-- the state reached from `n` empty handles by an arbitrary history -/
abbrev after (α : Type) [Inhabited α] (n : Nat) (ops : List (Op α)) : State α := run (init α n) ops

theorem after_inv (n : Nat) (ops : List (Op α)) : Inv (after α n ops) ∧ (after α n ops).n = n := by
  have := run_inv ops (inv_init (α := α) n)
  exact ⟨this.1, this.2⟩

/-- No history reaches undefined behaviour: no null or stale counter is dereferenced, no released block is read,
    written or released again, no unconstructed cell is exposed. -/
theorem array_never_faults (n : Nat) (ops : List (Op α)) : (after α n ops).fault = false :=
  (after_inv n ops).1.nofault

-- non-vacuity: a history that shares, resizes the sharer, writes and destroys
example : (after Int 3 [.build 0 2 7, .logcopy 1 0, .resize 1 5, .write 0 0 9, .noCopy 2 1, .destroy 1, .copy 0 2]).fault = false := by decide

/-- Reference counts equal the number of live sharers: the counter cell a handle points to is live and holds exactly
    the number of handles pointing to it. -/
theorem refcount_eq_sharers (n : Nat) (ops : List (Op α)) (h c : Nat) (hn : h < n)
    (hc : ((after α n ops).hs h).cnt = some c) :
    (after α n ops).clive c = true ∧ (after α n ops).cval c = (sharers (after α n ops) c : Int) ∧ 1 ≤ sharers (after α n ops) c := by
  obtain ⟨I, en⟩ := after_inv (α := α) n ops
  have hn' : h < (after α n ops).n := by rw [en]; exact hn
  obtain ⟨c', b, h1, _, h3, _⟩ := (I.wf h hn').2 (cnt_some_psz I hn' hc)
  have : c' = c := by rw [hc] at h1; exact (Option.some.inj h1).symm
  subst this
  exact ⟨h3, (I.rc c' h3).1, (I.rc c' h3).2⟩

example : (after Int 2 [.build 0 2 7, .logcopy 1 0]).cval 0 = 2 := by decide

/-- No block is released while a handle still refers to it: a handle with capacity points to a live counter and a live
    data block of exactly `_psz` constructed cells, and `_size ≤ _psz`; a handle without capacity holds no pointer at all. -/
theorem no_release_while_referenced (n : Nat) (ops : List (Op α)) (h : Nat) (hn : h < n) :
    let s := after α n ops
    ((s.hs h).psz = 0 → s.hs h = Handle.empty) ∧
    ((s.hs h).psz ≠ 0 → ∃ c b, (s.hs h).cnt = some c ∧ (s.hs h).d = some b ∧ s.clive c = true ∧ s.dlive b = true ∧
        (s.hs h).size ≤ (s.hs h).psz ∧ (s.ddata b).length = (s.hs h).psz) := by
  obtain ⟨I, en⟩ := after_inv (α := α) n ops
  exact I.wf h (by rw [en]; exact hn)

example : ((after Int 2 [.build 0 2 7, .logcopy 1 0, .destroy 0]).hs 1).psz = 2 ∧ (after Int 2 [.build 0 2 7, .logcopy 1 0, .destroy 0]).dlive 0 = true := by decide

/-- Nothing leaks: every live data block and every live counter cell is referred to by a handle
    (so destroying all handles releases everything). -/
theorem nothing_leaks (n : Nat) (ops : List (Op α)) :
    let s := after α n ops
    (∀ b, s.dlive b = true → ∃ h, h < n ∧ (s.hs h).d = some b ∧ (s.hs h).psz ≠ 0) ∧
    (∀ c, s.clive c = true → ∃ h, h < n ∧ (s.hs h).cnt = some c) := by
  obtain ⟨I, en⟩ := after_inv (α := α) n ops
  refine ⟨fun b hb => ?_, fun c hc => ?_⟩
  · obtain ⟨h, hn, hd, hp⟩ := I.down b hb
    exact ⟨h, by rw [← en]; exact hn, hd, hp⟩
  · have := (I.rc c hc).2
    obtain ⟨h, hn, hp⟩ := countBelow_pos (p := fun k => ((after α n ops).hs k).cnt == some c) (after α n ops).n (by unfold sharers at this; omega)
    exact ⟨h, by rw [← en]; exact hn, by simpa using hp⟩

example : (after Int 2 [.build 0 2 7, .logcopy 1 0, .resize 1 5, .destroy 0]).dlive 0 = false ∧ (after Int 2 [.build 0 2 7, .logcopy 1 0, .resize 1 5, .destroy 0]).dlive 1 = true := by decide

/-- Handles share the counter exactly when they share the data block, and sharers agree on size and capacity
    (which is what makes the pointer test at the head of `copy` sound). -/
theorem sharers_agree (n : Nat) (ops : List (Op α)) (h g : Nat) (hn : h < n) (gn : g < n) :
    let s := after α n ops
    (s.hs h).psz ≠ 0 → (s.hs g).psz ≠ 0 →
    (((s.hs h).cnt = (s.hs g).cnt ↔ (s.hs h).d = (s.hs g).d) ∧
     ((s.hs h).d = (s.hs g).d → (s.hs h).size = (s.hs g).size ∧ (s.hs h).psz = (s.hs g).psz)) := by
  obtain ⟨I, en⟩ := after_inv (α := α) n ops
  exact I.pair h g (by rw [en]; exact hn) (by rw [en]; exact gn)

example : ((after Int 2 [.build 0 2 7, .logcopy 1 0]).hs 0).d = ((after Int 2 [.build 0 2 7, .logcopy 1 0]).hs 1).d := by decide

/-- Size 0 is handled: after any history, building, allocating, resizing or reserving with size 0 (and destroying)
    leaves a well-formed state and an empty handle. -/
theorem size_zero_ok (n : Nat) (ops : List (Op α)) (h : Nat) (hn : h < n) (t : α) :
    ∀ op ∈ [Op.build h 0 t, Op.allocate h 0, Op.resize h 0, Op.reserve h 0, Op.destroy h],
      let s := step (after α n ops) op
      s.fault = false ∧ (s.hs h).size = 0 ∧ contents s h = [] := by
  intro op hop
  obtain ⟨I, en⟩ := after_inv (α := α) n ops
  have hn' : h < (after α n ops).n := by rw [en]; exact hn
  have key : ((step (after α n ops) op).hs h).size = 0 → (step (after α n ops) op).fault = false ∧
      ((step (after α n ops) op).hs h).size = 0 ∧ contents (step (after α n ops) op) h = [] := by
    intro b
    refine ⟨(step_inv I op).1.nofault, b, ?_⟩
    unfold contents; split
    · rfl
    · rw [b]; simp
  apply key
  simp only [List.mem_cons, List.mem_nil_iff, or_false] at hop
  rcases hop with e | e | e | e | e <;> subst e <;>
    rw [step_eq_core I _ (by intro k hk; simp [Op.handles] at hk; omega)] <;> simp only [stepCore]
  · exact (ctorBuild_good I hn' 0 t).2
  · exact (allocate_good I hn' 0).2
  · exact (reallocate_good I hn' 0).2.1
  · exact (reserve_good I hn' 0).2
  · rw [(good_destroy I hn').2]; rfl

example : ((step (after Int 1 [.build 0 3 7]) (.resize 0 0)).hs 0).psz = 3 ∧ contents (step (after Int 1 [.build 0 3 7]) (.resize 0 0)) 0 = [] := by decide

/-! ### the simulation -/
section Simulation
open Givaro.Spec.Array0Spec

/-- **Simulation.** For every operation history of any length over any number of handles, forgetting the reference
    counts, the liveness flags and the capacities of the Array0 model (`abs`) yields exactly the state the value-semantics
    machine of `Spec/Array0Spec.lean` reaches on the same history (`toV`: both constructors-by-sharing become `share`,
    both deep copies `valueCopy`/`copy`).  The machine has no counters and never releases anything, so the theorem says
    that counting and releasing are invisible: the model behaves as if storage were garbage collected. -/
theorem array_simulates_value_semantics (n : Nat) (ops : List (Op α)) :
    abs (run (init α n) ops) = vrun (vinit α n) (ops.map toV) := by
  rw [sim_run ops (inv_init (α := α) n), abs_init]

/-- **Outputs.** Everything the container lets a client observe is a function of the value-semantics state:
    size, contents, which handles alias, and the reference count (= the number of handles of the alias group, > 0);
    and the model has not faulted. -/
theorem outputs_equal (n : Nat) (ops : List (Op α)) (h : Nat) (hn : h < n) :
    let s := run (init α n) ops
    let a := vrun (vinit α n) (ops.map toV)
    s.fault = false ∧ (s.hs h).size = (a.hs h).size ∧ contents s h = vvalue a h ∧
    (∀ g, (s.hs h).d = (s.hs g).d ↔ (a.hs h).grp = (a.hs g).grp) ∧
    (∀ c, (s.hs h).cnt = some c → ∃ g, (a.hs h).grp = some g ∧ s.cval c = (vmembers a g : Int) ∧ 0 < vmembers a g) := by
  have S := array_simulates_value_semantics (α := α) n ops
  obtain ⟨I, en⟩ := after_inv (α := α) n ops
  have hn' : h < (run (init α n) ops).n := by rw [en]; exact hn
  dsimp only
  rw [← S]
  refine ⟨I.nofault, rfl, rfl, fun g => Iff.rfl, ?_⟩
  intro c hc
  obtain ⟨c', b, h1, h2, h3, _⟩ := (I.wf h hn').2 (cnt_some_psz I hn' hc)
  have : c' = c := by rw [hc] at h1; exact (Option.some.inj h1).symm
  subst this
  have m := cval_eq_members I hn' hc h2 h3
  have r := I.rc c' h3
  have pos : 0 < vmembers (abs (after α n ops)) b := by
    have r1 := r.1; have r2 := r.2; omega
  exact ⟨b, h2, m, pos⟩

example : vvalue (vrun (vinit Int 2) ([Op.build 0 3 7, .resize 0 1, .pushBack 0 9, .logcopy 1 0, .resize 1 3].map toV)) 1 = [7, 9, 0] := by decide

/-- Corollary (isolation after a physical copy): after the deep-copy constructor, an element write through either handle
    is invisible through the other. -/
theorem write_invisible_after_physical_copy (n : Nat) (ops : List (Op α)) (h g i : Nat) (v : α) (hn : h < n) (gn : g < n)
    (ne : h ≠ g) :
    let s1 := step (after α n ops) (.withCopy h g)
    contents (step s1 (.write h i v)) g = contents (after α n ops) g ∧
    contents (step s1 (.write g i v)) h = contents (after α n ops) g := by
  obtain ⟨I, en⟩ := after_inv (α := α) n ops
  have hn' : h < (after α n ops).n := by rw [en]; exact hn
  have gn' : g < (after α n ops).n := by rw [en]; exact gn
  have e1 : step (after α n ops) (.withCopy h g) = ctorWithCopy (after α n ops) h g :=
    step_eq_core I _ (by intro k hk; simp [Op.handles] at hk; omega)
  have G := ctorWithCopy_good I hn' gn'
  have so := ctorWithCopy_sole I hn' gn' ne
  have ch := ctorWithCopy_contents I hn' gn' ne
  have cg : contents (ctorWithCopy (after α n ops) h g) g = contents (after α n ops) g :=
    contents_others G (fun q => ne q.symm) gn'
  dsimp only
  rw [e1]
  have hn1 : h < (ctorWithCopy (after α n ops) h g).n := by rw [G.frame.1]; exact hn'
  have gn1 : g < (ctorWithCopy (after α n ops) h g).n := by rw [G.frame.1]; exact gn'
  have nd : ∀ b, ((ctorWithCopy (after α n ops) h g).hs h).d = some b → ((ctorWithCopy (after α n ops) h g).hs g).d ≠ some b :=
    fun b hb => sole_excl G.inv hn1 so hb g (fun q => ne q.symm) gn1
  have w1 : ∀ k k' : Nat, k < (ctorWithCopy (after α n ops) h g).n → k' < (ctorWithCopy (after α n ops) h g).n →
      step (ctorWithCopy (after α n ops) h g) (.write k i v) = write (ctorWithCopy (after α n ops) h g) k i v :=
    fun k _ kn _ => step_eq_core G.inv _ (by intro x hx; simp [Op.handles] at hx; omega)
  constructor
  · rw [w1 h g hn1 gn1, write_contents G.inv hn1 i v g gn1, if_neg, cg]
    intro ⟨q, lt⟩
    have hp := size_pos_psz G.inv hn1 (by omega)
    obtain ⟨_, b, _, h2, _⟩ := (G.inv.wf h hn1).2 hp
    exact nd b h2 (by rw [q, h2])
  · rw [w1 g h gn1 hn1, write_contents G.inv gn1 i v h hn1, if_neg, ch]
    intro ⟨q, lt⟩
    have hp := size_pos_psz G.inv gn1 (by omega)
    obtain ⟨_, b, _, h2, _⟩ := (G.inv.wf g gn1).2 hp
    exact nd b (by rw [q, h2]) h2

example : contents (run (init Int 2) [.build 0 2 7, .withCopy 1 0, .write 1 0 9]) 0 = [7, 7] := by decide

/-- Corollary (aliasing after a logical copy): after `logcopy`, an in-range element write through the new handle is
    seen, as the same write, through the source. -/
theorem write_visible_after_logical_copy (n : Nat) (ops : List (Op α)) (h g i : Nat) (v : α) (hn : h < n) (gn : g < n)
    (ne : h ≠ g) (hi : i < ((after α n ops).hs g).size) :
    let s1 := step (after α n ops) (.logcopy h g)
    contents (step s1 (.write h i v)) g = (contents (after α n ops) g).set i v := by
  obtain ⟨I, en⟩ := after_inv (α := α) n ops
  have hn' : h < (after α n ops).n := by rw [en]; exact hn
  have gn' : g < (after α n ops).n := by rw [en]; exact gn
  have e1 : step (after α n ops) (.logcopy h g) = logcopy (after α n ops) h g :=
    step_eq_core I _ (by intro k hk; simp [Op.handles] at hk; omega)
  have G := logcopy_good I hn' gn'
  have cg : contents (logcopy (after α n ops) h g) g = contents (after α n ops) g :=
    contents_others G (fun q => ne q.symm) gn'
  have S := sim_logcopy I hn' gn'
  have hh : ((abs (logcopy (after α n ops) h g)).hs h) = ((abs (logcopy (after α n ops) h g)).hs g) := by
    rw [S]; unfold vshare; rw [if_neg ne]; dsimp only
    show vupd _ h _ h = vupd _ h _ g
    unfold vupd; simp
  have hd : ((logcopy (after α n ops) h g).hs h).d = ((logcopy (after α n ops) h g).hs g).d := congrArg VHandle.grp hh
  have hsz : ((logcopy (after α n ops) h g).hs h).size = ((logcopy (after α n ops) h g).hs g).size := congrArg VHandle.size hh
  have gsame : (logcopy (after α n ops) h g).hs g = (after α n ops).hs g := G.frame.2 g (fun q => ne q.symm)
  dsimp only
  rw [e1]
  have hn1 : h < (logcopy (after α n ops) h g).n := by rw [G.frame.1]; exact hn'
  have gn1 : g < (logcopy (after α n ops) h g).n := by rw [G.frame.1]; exact gn'
  rw [step_eq_core G.inv _ (by intro x hx; simp [Op.handles] at hx; omega)]
  show contents (write (logcopy (after α n ops) h g) h i v) g = _
  rw [write_contents G.inv hn1 i v g gn1, if_pos ⟨hd.symm, by rw [hsz, gsame]; exact hi⟩, cg]

example : contents (run (init Int 2) [.build 0 2 7, .logcopy 1 0, .write 1 0 9]) 0 = [9, 7] := by decide

end Simulation

/-! ### value semantics -/

/-- Effect of every operation on the handle it is applied to, after any history: the handle denotes exactly the list a
    value-semantics model predicts (`resize` keeps the common prefix and has the requested length; cells exposed by growing
    are not determined by the property). -/
theorem array_refines_value_semantics (n : Nat) (ops : List (Op α)) (h g : Nat) (hn : h < n) (gn : g < n)
    (sz : Nat) (t v : α) :
    let s := after α n ops
    contents (step s (.build h sz t)) h = List.replicate sz t ∧
    (h ≠ g → contents (step s (.noCopy h g)) h = contents s g) ∧
    (h ≠ g → contents (step s (.withCopy h g)) h = contents s g) ∧
    contents (step s (.logcopy h g)) h = contents s g ∧
    contents (step s (.copy h g)) h = contents s g ∧
    contents (step s (.assign h g)) h = contents s g ∧
    contents (step s (.destroy h)) h = [] ∧
    ((contents (step s (.resize h sz)) h).length = sz ∧
      ∀ m, m ≤ sz → m ≤ (contents s h).length → (contents (step s (.resize h sz)) h).take m = (contents s h).take m) ∧
    contents (step s (.pushBack h v)) h = contents s h ++ [v] ∧
    (contents (step s (.allocate h sz)) h).length = sz ∧
    contents (step s (.reserve h sz)) h = [] := by
  obtain ⟨I, en⟩ := after_inv (α := α) n ops
  have hn' : h < (after α n ops).n := by rw [en]; exact hn
  have gn' : g < (after α n ops).n := by rw [en]; exact gn
  have e1 : ∀ op : Op α, op.handles = [h] → step (after α n ops) op = stepCore (after α n ops) op :=
    fun op e => step_eq_core I op (by intro k hk; rw [e] at hk; simp at hk; omega)
  have e2 : ∀ op : Op α, op.handles = [h, g] → step (after α n ops) op = stepCore (after α n ops) op :=
    fun op e => step_eq_core I op (by intro k hk; rw [e] at hk; simp at hk; omega)
  refine ⟨?_, ?_, ?_, ?_, ?_, ?_, ?_, ?_, ?_, ?_, ?_⟩
  · rw [e1 _ rfl]; exact ctorBuild_contents I hn' sz t
  · intro ne; rw [e2 _ rfl]; exact ctorNoCopy_contents I hn' gn' ne
  · intro ne; rw [e2 _ rfl]; exact ctorWithCopy_contents I hn' gn' ne
  · rw [e2 _ rfl]; exact logcopy_contents I hn' gn'
  · rw [e2 _ rfl]; exact copy_contents I hn' gn'
  · rw [e2 _ rfl]; exact copy_contents I hn' gn'
  · rw [e1 _ rfl]; exact destroy_contents I hn'
  · rw [e1 _ rfl]
    have R := reallocate_contents I hn' sz
    exact ⟨R.1, fun m m1 m2 => R.2 m m1 (by rw [← contents_length I hn']; exact m2)⟩
  · rw [e1 _ rfl]; exact pushBack_contents I hn' v
  · rw [e1 _ rfl]
    obtain ⟨G, hs⟩ := allocate_good I hn' sz
    show (contents (allocate (after α n ops) h sz) h).length = sz
    rw [contents_length G.inv (by rw [G.frame.1]; exact hn'), hs]
  · rw [e1 _ rfl]
    obtain ⟨G, hs⟩ := reserve_good I hn' sz
    apply List.length_eq_zero_iff.mp
    show (contents (reserve (after α n ops) h sz) h).length = 0
    rw [contents_length G.inv (by rw [G.frame.1]; exact hn'), hs]

example : contents (after Int 2 [.build 0 3 7, .resize 0 1, .pushBack 0 9, .logcopy 1 0, .resize 1 3]) 1 = [7, 9, 0] := by decide

/-- Isolation: an operation on one handle (anything but an element write) never changes what another handle denotes —
    not even a handle that shares the storage (the operated handle is detached first). -/
theorem other_handles_keep_contents (n : Nat) (ops : List (Op α)) (op : Op α) (nw : op.isWrite = false)
    (k : Nat) (kn : k < n) (ne : k ≠ op.target) :
    contents (step (after α n ops) op) k = contents (after α n ops) k := by
  obtain ⟨I, en⟩ := after_inv (α := α) n ops
  exact step_others I op nw ne (by rw [en]; exact kn)

example : contents (step (after Int 2 [.build 0 2 7, .logcopy 1 0]) (.resize 0 1)) 1 = [7, 7] := by decide

/-- An element write through a handle is visible, as the same write, through exactly the handles that alias it
    (NoCopy constructor / `logcopy`), and through no other handle. -/
theorem write_seen_by_aliases_only (n : Nat) (ops : List (Op α)) (h i : Nat) (v : α) (k : Nat) (hn : h < n) (kn : k < n) :
    let s := after α n ops
    contents (step s (.write h i v)) k =
      if (s.hs k).d = (s.hs h).d ∧ i < (s.hs h).size then (contents s k).set i v else contents s k := by
  obtain ⟨I, en⟩ := after_inv (α := α) n ops
  have hn' : h < (after α n ops).n := by rw [en]; exact hn
  show contents (step (after α n ops) (.write h i v)) k = _
  rw [step_eq_core I _ (by intro k hk; simp [Op.handles] at hk; omega)]
  exact write_contents I hn' i v k (by rw [en]; exact kn)

example : contents (step (after Int 3 [.build 0 2 7, .logcopy 1 0, .withCopy 2 0]) (.write 0 1 9)) 1 = [7, 9] ∧
    contents (step (after Int 3 [.build 0 2 7, .logcopy 1 0, .withCopy 2 0]) (.write 0 1 9)) 2 = [7, 7] := by decide

/-! ### the pooled allocator -/
section Pool
open Givaro.Model.FreeList

/-- `BlocFreeList::search_binary` on the table of the current source: for every request it returns a class whose blocks
    are large enough and the *smallest* such class; it throws exactly for requests above the largest class. -/
theorem search_binary_smallest_fit (sz : Nat) :
    match searchBinary sz with
    | none => tab 511 < sz
    | some i => i < 512 ∧ sz ≤ tab i ∧ (i = 0 ∨ tab (i - 1) < sz) :=
  searchBinary_spec sz

example : searchBinary 33 = some 32 ∧ tab 32 = 64 := by decide +kernel

/-- No block is handed out twice: after any sequence of allocate / desallocate / resize calls by a client that forgets a
    pointer when it releases it, two slots never hold the same block, and a block returned by a call was not held by any
    slot before the call (except, for `resize`, by the slot being resized when the block does not move). -/
theorem freelist_no_double_handout (ops : List FreeList.Op) (op : FreeList.Op) :
    let c := crun Client.init ops
    (∀ k k' b, c.slot k = some b → c.slot k' = some b → k = k') ∧
    (∀ b, (cstep c op).2 = some b → ∀ k, c.slot k = some b → (match op with | .resize k' _ => k = k' | _ => False)) := by
  have I := crun_ci ops ci_init
  exact ⟨I.inj, (cstep_ci I op).2⟩

example : (cstep (crun Client.init [.alloc 0 40, .free 0, .alloc 1 40]) (.alloc 2 40)).2 = some 1 ∧
    (crun Client.init [.alloc 0 40, .free 0, .alloc 1 40]).slot 1 = some 0 := by decide +kernel

/-- A block on a free list is not live: no slot holds a block that is on a free list, no free list contains a block
    twice, and no block is on two free lists. -/
theorem freed_block_not_live (ops : List FreeList.Op) :
    let c := crun Client.init ops
    (∀ k b i, c.slot k = some b → b ∉ c.pool.free i) ∧ (∀ i, (c.pool.free i).Nodup) ∧
    (∀ i j b, b ∈ c.pool.free i → b ∈ c.pool.free j → i = j) := by
  have I := crun_ci ops ci_init
  exact ⟨fun k b i hk => I.pi.hfree b i ⟨k, hk⟩, I.pi.nodup, I.pi.disj⟩

example : (crun Client.init [.alloc 0 40, .alloc 1 40, .free 0]).pool.free 32 = [0] := by decide +kernel

end Pool

/-! ### push_back of an element of the array itself -/

/-- `A.push_back(A[i])`: the model of the repaired `push_back` (the argument is copied before the storage moves) never
    faults and appends the value cell `i` had, after every history, whether or not the storage moves or is shared. -/
theorem push_back_of_own_element (n : Nat) (ops : List (Op α)) (h i : Nat) (hn : h < n)
    (hi : i < ((after α n ops).hs h).size) :
    ∃ v, (contents (after α n ops) h)[i]? = some v ∧
      (step (after α n ops) (.pushBackSelf h i)).fault = false ∧
      contents (step (after α n ops) (.pushBackSelf h i)) h = contents (after α n ops) h ++ [v] := by
  obtain ⟨I, en⟩ := after_inv (α := α) n ops
  have hn' : h < (after α n ops).n := by rw [en]; exact hn
  obtain ⟨v, hv, ev⟩ := pushBackSelf_eq I hn' hi
  refine ⟨v, hv, (step_inv I _).1.nofault, ?_⟩
  rw [step_eq_core I _ (by intro k hk; simp [Op.handles] at hk; omega)]
  show contents (pushBackSelf (after α n ops) h i) h = _
  rw [ev]; exact pushBack_contents I hn' v

example : contents (after Int 1 [.build 0 2 7, .write 0 1 9, .pushBackSelf 0 1]) 0 = [7, 9, 9] := by decide

/-- The body the pinned tree had (`reallocate(_size+1); back() = a;`) reads the argument through a reference into the block
    that `reallocate` has just destroyed and released, whenever the handle is the sole owner and has no spare capacity:
    the smallest failing history is `Array0<T> A(1, t); A.push_back(A[0]);`. -/
theorem push_back_of_own_element_before_repair_faults :
    (pushBackSelfOld (after Int 1 [.build 0 1 7]) 0 0).fault = true ∧
    (pushBackSelfOld (after Int 2 [.build 0 2 7, .logcopy 1 0]) 0 1).fault = false ∧          -- shared: the old block survives
    (pushBackSelfOld (after Int 1 [.build 0 2 7, .resize 0 1]) 0 0).fault = false := by decide  -- spare capacity: no move

/-! ### Array0 composed with the pool -/
section PoolComposition
open Givaro.Model.Array0Pool Givaro.Model.FreeList

/-- the composed machine (Array0 over the pool, `w` = sizeof(T)) after a history -/
abbrev pafter (α : Type) [Inhabited α] (w n : Nat) (ops : List (Op α)) : PState α := prun w (pinit α n) ops

/-- every block the history obtains is at most the largest class (`TabSize[511]` = 8054880 bytes); above it
    `GivMMFreeList::allocate` throws and the history is outside the property -/
def FitsPool (α : Type) [Inhabited α] (w n : Nat) (ops : List (Op α)) : Prop :=
  ∀ b, b < (after α n ops).dnext → ((after α n ops).ddata b).length * w ≤ tab 511

theorem pafter_pinv (w n : Nat) (ops : List (Op α)) (hf : FitsPool α w n ops) : PInv (pafter α w n ops) :=
  prun_pinv w ops (pinv_init n) hf

theorem pafter_arr (w n : Nat) (ops : List (Op α)) : (pafter α w n ops).arr = after α n ops := prun_arr w ops _

/-- **No block is handed out twice while live.** After any history, every live data block and every live counter cell
    of the container is backed by a physical block of the pool that is on no free list, a slot of the pool client is
    occupied exactly while its abstract block is live, and no physical block backs two abstract blocks at once
    (in particular a data block and a counter never overlap). -/
theorem pool_no_double_handout (w n : Nat) (ops : List (Op α)) (hf : FitsPool α w n ops) :
    let p := pafter α w n ops
    (∀ b, (physD p b).isSome = (after α n ops).dlive b) ∧ (∀ c, (physC p c).isSome = (after α n ops).clive c) ∧
    (∀ k pb, p.pool.slot k = some pb → ∀ i, pb ∉ p.pool.pool.free i) ∧
    (∀ k k' pb, p.pool.slot k = some pb → p.pool.slot k' = some pb → k = k') := by
  have P := pafter_pinv (α := α) w n ops hf
  have A := pafter_arr (α := α) w n ops
  dsimp only
  refine ⟨fun b => ?_, fun c => ?_, fun k pb hk i => P.ci.pi.hfree pb i ⟨k, hk⟩, P.ci.inj⟩
  · rw [← A]; exact P.link.d b
  · rw [← A]; exact P.link.c c

/-- Every handle with capacity is therefore backed by two distinct physical blocks that are not on any free list. -/
theorem handle_blocks_are_held (w n : Nat) (ops : List (Op α)) (hf : FitsPool α w n ops) (h : Nat) (hn : h < n)
    (hp : ((after α n ops).hs h).psz ≠ 0) :
    let p := pafter α w n ops
    ∃ c b pc pb, ((after α n ops).hs h).cnt = some c ∧ ((after α n ops).hs h).d = some b ∧
      physC p c = some pc ∧ physD p b = some pb ∧ pc ≠ pb ∧
      (∀ i, pc ∉ p.pool.pool.free i) ∧ (∀ i, pb ∉ p.pool.pool.free i) := by
  obtain ⟨hd, hc, hfree, hinj⟩ := pool_no_double_handout (α := α) w n ops hf
  obtain ⟨c, b, h1, h2, h3, h4, _⟩ := (no_release_while_referenced (α := α) n ops h hn).2 hp
  dsimp only at *
  have sc := hc c; rw [h3] at sc
  have sd := hd b; rw [h4] at sd
  obtain ⟨pc, hpc⟩ := Option.isSome_iff_exists.mp sc
  obtain ⟨pb, hpb⟩ := Option.isSome_iff_exists.mp sd
  refine ⟨c, b, pc, pb, h1, h2, hpc, hpb, ?_, hfree _ pc hpc, hfree _ pb hpb⟩
  intro q
  have := hinj (keyC c) (keyD b) pc hpc (by rw [q]; exact hpb)
  unfold keyC keyD at this; omega

/-- **Every released block returns to the free list of its size class exactly once.** No free list contains a block
    twice, no block is on two lists, a block waits on the list of the class it was allocated from (a table index), and
    every physical block the pool ever obtained is either held by exactly one live abstract block or on exactly one
    free list — never both, never neither (no double free, no lost block). -/
theorem pool_released_exactly_once (w n : Nat) (ops : List (Op α)) (hf : FitsPool α w n ops) :
    let pl := (pafter α w n ops).pool
    (∀ i, (pl.pool.free i).Nodup) ∧
    (∀ i j b, b ∈ pl.pool.free i → b ∈ pl.pool.free j → i = j) ∧
    (∀ i b, b ∈ pl.pool.free i → pl.pool.idx b = i ∧ i < 512) ∧
    (∀ b, b < pl.pool.next → (Held pl b ∨ ∃ i, b ∈ pl.pool.free i)) ∧
    (∀ b i, Held pl b → b ∉ pl.pool.free i) := by
  have P := pafter_pinv (α := α) w n ops hf
  exact ⟨P.ci.pi.nodup, P.ci.pi.disj, fun i b hb => ⟨P.ci2.home i b hb, P.ci2.cls i b hb⟩, P.ci2.cons,
    fun b i hb => P.ci.pi.hfree b i hb⟩

/-- **Size-class lookups are in range.** The class index stored in the header of every block in use is a table index
    and the class is large enough for the bytes that were asked for. -/
theorem pool_class_index_in_range (w n : Nat) (ops : List (Op α)) (hf : FitsPool α w n ops) (k pb : Nat) :
    let pl := (pafter α w n ops).pool
    pl.slot k = some pb → pl.pool.idx pb < 512 ∧ pl.sz k ≤ tab (pl.pool.idx pb) :=
  (pafter_pinv (α := α) w n ops hf).ci2.fit k pb

theorem step_destroy_store (s : State α) (h : Nat) :
    (step s (.destroy h)).dnext = s.dnext ∧ (step s (.destroy h)).ddata = s.ddata := by
  unfold step
  repeat' split
  all_goals first
    | exact ⟨rfl, rfl⟩
    | exact ⟨destroy_dnext s h, destroy_ddata s h⟩

theorem run_destroys_store (hs : List Nat) : ∀ s : State α,
    (run s (hs.map Op.destroy)).dnext = s.dnext ∧ (run s (hs.map Op.destroy)).ddata = s.ddata := by
  induction hs with
  | nil => intro s; exact ⟨rfl, rfl⟩
  | cons h rest ih =>
    intro s
    have a := ih (step s (.destroy h))
    have b := step_destroy_store s h
    exact ⟨a.1.trans b.1, a.2.trans b.2⟩

/-- **No leak at quiescence.** When, after any history, every handle is destroyed, no slot of the pool client is
    occupied (live-block count 0) and every physical block the pool ever obtained from malloc is on a free list. -/
theorem pool_quiescent_after_destroying_all (w n : Nat) (ops : List (Op α)) (hf : FitsPool α w n ops) :
    let pl := (pafter α w n (ops ++ (List.range n).map Op.destroy)).pool
    (∀ k, pl.slot k = none) ∧ (∀ b, b < pl.pool.next → ∃ i, b ∈ pl.pool.free i) := by
  have split : after α n (ops ++ (List.range n).map Op.destroy) = run (after α n ops) ((List.range n).map Op.destroy) := by
    show run _ _ = _; unfold run; rw [List.foldl_append]; rfl
  have hf' : FitsPool α w n (ops ++ (List.range n).map Op.destroy) := by
    intro b hb
    rw [split] at hb ⊢
    have st := run_destroys_store (List.range n) (after α n ops)
    rw [st.1] at hb; rw [st.2]; exact hf b hb
  have P := pafter_pinv (α := α) w n _ hf'
  have A := pafter_arr (α := α) w n (ops ++ (List.range n).map Op.destroy)
  obtain ⟨I, en⟩ := after_inv (α := α) n ops
  obtain ⟨I2, n2, emp⟩ := destroyAll_empty n I (by omega)
  rw [← split] at I2 n2 emp
  have deadD : ∀ b, (after α n (ops ++ (List.range n).map Op.destroy)).dlive b = false := by
    intro b
    cases hl : (after α n (ops ++ (List.range n).map Op.destroy)).dlive b
    · rfl
    · obtain ⟨h, hn, hd, _⟩ := I2.down b hl
      rw [emp h (by rw [n2, en] at hn; exact hn)] at hd; cases hd
  have deadC : ∀ c, (after α n (ops ++ (List.range n).map Op.destroy)).clive c = false := by
    intro c
    cases hl : (after α n (ops ++ (List.range n).map Op.destroy)).clive c
    · rfl
    · have := (I2.rc c hl).2
      obtain ⟨h, hn, hp⟩ := countBelow_pos (p := fun k => ((after α n (ops ++ (List.range n).map Op.destroy)).hs k).cnt == some c)
        (after α n (ops ++ (List.range n).map Op.destroy)).n (by unfold sharers at this; omega)
      rw [emp h (by rw [n2, en] at hn; exact hn)] at hp; simp [Handle.empty] at hp
  have none : ∀ k, (pafter α w n (ops ++ (List.range n).map Op.destroy)).pool.slot k = none := by
    intro k
    have : occ (pafter α w n (ops ++ (List.range n).map Op.destroy)).pool k = false := by
      rcases Nat.mod_two_eq_zero_or_one k with e | e
      · have := P.link.d (k / 2); rw [A, deadD] at this; unfold keyD at this
        have e2 : 2 * (k / 2) = k := by omega
        rw [e2] at this; exact this
      · have := P.link.c (k / 2); rw [A, deadC] at this; unfold keyC at this
        have e2 : 2 * (k / 2) + 1 = k := by omega
        rw [e2] at this; exact this
    unfold occ at this
    cases hk : (pafter α w n (ops ++ (List.range n).map Op.destroy)).pool.slot k
    · rfl
    · rw [hk] at this; cases this
  refine ⟨none, fun b hb => ?_⟩
  rcases P.ci2.cons b hb with ⟨k, hk⟩ | q
  · rw [none k] at hk; cases hk
  · exact q

example : ((pafter Int 4 2 [.build 0 2 7, .logcopy 1 0, .resize 1 5, .destroy 0, .destroy 1]).pool.pool.free 7 = [0]) := by decide +kernel

end PoolComposition

/-! ### RefCountPtr -/
section RefCountPtr

/-- **`RefCountPtr<T>` is the one-block special case of `Array0<T>`.**  Running a history of constructions from a raw
    pointer, copy constructions, assignments and destructions on the model of givpointer.h gives exactly the state obtained
    by running `Array0(1, v)`, the NoCopy constructor, `logcopy` and `destroy()` on the Array0 model and reading a
    one-cell array as a pointer (`proj`: object = data block = counter cell); the Array0 invariant holds throughout and
    every array has exactly one cell. -/
theorem refcountptr_is_one_block_array0 (n : Nat) (ops : List RefPtr.Op)
    (hb : ∀ op, op ∈ ops → ∀ k, k ∈ op.slots → k < n) :
    proj (erun (init Nat n) ops) = RefPtr.run RefPtr.St.init ops ∧ Inv (erun (init Nat n) ops) ∧
    OneCell (erun (init Nat n) ops) ∧ (erun (init Nat n) ops).n = n := by
  have R := erun_sim ops (inv_init (α := Nat) n) (onecell_init n) hb
  exact ⟨by rw [R.2.2.2, proj_init], R.1, R.2.1, R.2.2.1⟩

/-- Hence, for every history: a slot always points to a live object whose counter equals the number of slots that point
    to it (and is positive), and every live object is pointed to by some slot (the last pointer deletes the object:
    nothing leaks, nothing dangles, nothing is deleted twice). -/
theorem refcountptr_counts_and_lifetimes (n : Nat) (ops : List RefPtr.Op)
    (hb : ∀ op, op ∈ ops → ∀ k, k ∈ op.slots → k < n) :
    let r := RefPtr.run RefPtr.St.init ops
    (∀ k o, k < n → r.slot k = some o →
      r.alive o = true ∧ r.cnt o = (countBelow (fun j => r.slot j == some o) n : Int) ∧ 1 ≤ countBelow (fun j => r.slot j == some o) n) ∧
    (∀ o, r.alive o = true → ∃ k, k < n ∧ r.slot k = some o) := by
  obtain ⟨P, I, E, en⟩ := refcountptr_is_one_block_array0 n ops hb
  dsimp only
  rw [← P]
  have slot_iff : ∀ j o, j < n → (((proj (erun (init Nat n) ops)).slot j == some o) = (((erun (init Nat n) ops).hs j).cnt == some o)) := by
    intro j o jn
    have jn' : j < (erun (init Nat n) ops).n := by rw [en]; exact jn
    show ((if ((erun (init Nat n) ops).hs j).psz = 0 then none else ((erun (init Nat n) ops).hs j).d) == some o) = _
    by_cases jp : ((erun (init Nat n) ops).hs j).psz = 0
    · rw [if_pos jp, (I.wf j jn').1 jp]; rfl
    · rw [if_neg jp, (E.same j jn' jp).1]
  constructor
  · intro k o kn hk
    have kn' : k < (erun (init Nat n) ops).n := by rw [en]; exact kn
    have hk' : (if ((erun (init Nat n) ops).hs k).psz = 0 then none else ((erun (init Nat n) ops).hs k).d) = some o := hk
    have kp : ((erun (init Nat n) ops).hs k).psz ≠ 0 := by
      intro q; rw [if_pos q] at hk'; cases hk'
    rw [if_neg kp] at hk'
    obtain ⟨o', g1, g2, _, cl, dl, _⟩ := occupied I E kn' kp
    have : o' = o := by rw [g2] at hk'; exact Option.some.inj hk'
    subst this
    have rc := I.rc o' cl
    have cnt_eq : countBelow (fun j => (proj (erun (init Nat n) ops)).slot j == some o') n = sharers (erun (init Nat n) ops) o' := by
      unfold sharers; rw [en]
      exact countBelow_congr n (fun j jn => slot_iff j o' jn)
    rw [cnt_eq]
    exact ⟨dl, rc.1, rc.2⟩
  · intro o ho
    obtain ⟨h, hn, hd, hp⟩ := I.down o ho
    exact ⟨h, by rw [← en]; exact hn, by
      show (if ((erun (init Nat n) ops).hs h).psz = 0 then none else ((erun (init Nat n) ops).hs h).d) = some o
      rw [if_neg hp, hd]⟩

example : (RefPtr.run RefPtr.St.init [.new 0 5, .copy 0 1, .assign 0 0, .del 0]).cnt 0 = 1 ∧
    (RefPtr.run RefPtr.St.init [.new 0 5, .copy 0 1, .assign 0 0, .del 0, .del 1]).alive 0 = false := by decide

end RefCountPtr

/-! ### allocation balance of the RecInt casts -/
section Casts
open Givaro.Model.Leak

/-- `Caster(Integer& t, const ruint<K>&)` / `Caster(Integer&, const rint<K>&)` on a live destination, and the casts in the
    other direction, leave the number of outstanding limb blocks unchanged; the constructor `Integer(ruint)` adds exactly
    the block owned by the new object. (`t` ranges over program variables, the temporaries are 100-102.) -/
theorem conversions_balance (g : G) (t : Nat) (ht : t < 100)
    (h100 : g.inited 100 = false) (h101 : g.inited 101 = false) (h102 : g.inited 102 = false) :
    (execAll g (casterIntegerRuint t)).live = g.live ∧ (execAll g mpz_t_to_ruint).live = g.live ∧
    (execAll { g with inited := fun y => if y = t then false else g.inited y } (ctorIntegerRuint t)).live = g.live + 1 := by
  have e1 : (100 : Nat) ≠ t := by omega
  refine ⟨?_, ?_, ?_⟩ <;>
    simp [execAll, casterIntegerRuint, ctorIntegerRuint, ruint_to_mpz_t, mpz_t_to_ruint, exec, h100, h101, h102, e1] <;> omega

example : (execAll ⟨1, fun x => x == 0⟩ (casterIntegerRuint 0)).live = 1 := by decide

/-- the body the pinned tree had (`ruint_to_mpz_t(t.get_mpz(), n)` on the live `t`) loses one block per call -/
theorem caster_before_repair_leaks (g : G) (t : Nat) (ht : t < 100) (h100 : g.inited 100 = false) :
    (execAll g (casterIntegerRuintOld t)).live = g.live + 1 := by
  have e1 : (100 : Nat) ≠ t := by omega
  simp [execAll, casterIntegerRuintOld, ruint_to_mpz_t, exec, h100, e1]

end Casts

end Givaro.Props.C17
