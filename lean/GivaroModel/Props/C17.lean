/-
C17 — containers and the pooled allocator preserve contents; nothing leaks or dangles.

Models: `Model/Array0.lean` (givarray0.inl), `Model/FreeList.lean` (givaromm.h/.C, table regenerated from the source),
`Model/Leak.lean` (ruconvert.h / rconvert.h / gmp++_int.h casts).  Every theorem below quantifies over *all* operation
lists, any number of handle slots and any element type; the proofs are in `Lemmas/Array0Inv.lean`, `Lemmas/Array0Ops.lean`,
`Lemmas/Array0Contents.lean`, `Lemmas/FreeListInv.lean`.
-/
import GivaroModel.Lemmas.Array0Ops
import GivaroModel.Lemmas.Array0Contents
import GivaroModel.Lemmas.FreeListInv
import GivaroModel.Model.Leak
namespace Givaro.Props.C17
open Givaro.Model Givaro.Model.Array0

variable {α : Type} [Inhabited α]

/-- the state reached from `n` empty handles by an arbitrary history -/
abbrev after (α : Type) [Inhabited α] (n : Nat) (ops : List (Op α)) : State α := run (init α n) ops

theorem after_inv (n : Nat) (ops : List (Op α)) : Inv (after α n ops) ∧ (after α n ops).n = n := by
  have := run_inv ops (inv_init (α := α) n)
  exact ⟨this.1, this.2⟩

/-- No history reaches undefined behaviour: no null or stale counter is dereferenced, no released block is read,
    written or released again, no unconstructed cell is exposed. -/
theorem array_never_faults (n : Nat) (ops : List (Op α)) : (after α n ops).fault = false :=
  (after_inv n ops).1.nofault

-- non-vacuity: a history that shares, resizes the sharer, writes and destroys
example : (after Int 3 [.build 0 2 7, .logcopy 1 0, .resize 1 5, .write 0 0 9, .noCopy 2 1, .destroy 1, .copy 0 2]).fault = false := by decide

/-- Reference counts equal the number of live sharers: the counter cell a handle points to is live and holds exactly
    the number of handles pointing to it. -/
theorem refcount_eq_sharers (n : Nat) (ops : List (Op α)) (h c : Nat) (hn : h < n)
    (hc : ((after α n ops).hs h).cnt = some c) :
    (after α n ops).clive c = true ∧ (after α n ops).cval c = (sharers (after α n ops) c : Int) ∧ 1 ≤ sharers (after α n ops) c := by
  obtain ⟨I, en⟩ := after_inv (α := α) n ops
  have hn' : h < (after α n ops).n := by rw [en]; exact hn
  obtain ⟨c', b, h1, _, h3, _⟩ := (I.wf h hn').2 (cnt_some_psz I hn' hc)
  have : c' = c := by rw [hc] at h1; exact (Option.some.inj h1).symm
  subst this
  exact ⟨h3, (I.rc c' h3).1, (I.rc c' h3).2⟩

example : (after Int 2 [.build 0 2 7, .logcopy 1 0]).cval 0 = 2 := by decide

/-- No block is released while a handle still refers to it: a handle with capacity points to a live counter and a live
    data block of exactly `_psz` constructed cells, and `_size ≤ _psz`; a handle without capacity holds no pointer at all. -/
theorem no_release_while_referenced (n : Nat) (ops : List (Op α)) (h : Nat) (hn : h < n) :
    let s := after α n ops
    ((s.hs h).psz = 0 → s.hs h = Handle.empty) ∧
    ((s.hs h).psz ≠ 0 → ∃ c b, (s.hs h).cnt = some c ∧ (s.hs h).d = some b ∧ s.clive c = true ∧ s.dlive b = true ∧
        (s.hs h).size ≤ (s.hs h).psz ∧ (s.ddata b).length = (s.hs h).psz) := by
  obtain ⟨I, en⟩ := after_inv (α := α) n ops
  exact I.wf h (by rw [en]; exact hn)

example : ((after Int 2 [.build 0 2 7, .logcopy 1 0, .destroy 0]).hs 1).psz = 2 ∧ (after Int 2 [.build 0 2 7, .logcopy 1 0, .destroy 0]).dlive 0 = true := by decide

/-- Nothing leaks: every live data block and every live counter cell is referred to by a handle
    (so destroying all handles releases everything). -/
theorem nothing_leaks (n : Nat) (ops : List (Op α)) :
    let s := after α n ops
    (∀ b, s.dlive b = true → ∃ h, h < n ∧ (s.hs h).d = some b ∧ (s.hs h).psz ≠ 0) ∧
    (∀ c, s.clive c = true → ∃ h, h < n ∧ (s.hs h).cnt = some c) := by
  obtain ⟨I, en⟩ := after_inv (α := α) n ops
  refine ⟨fun b hb => ?_, fun c hc => ?_⟩
  · obtain ⟨h, hn, hd, hp⟩ := I.down b hb
    exact ⟨h, by rw [← en]; exact hn, hd, hp⟩
  · have := (I.rc c hc).2
    obtain ⟨h, hn, hp⟩ := countBelow_pos (p := fun k => ((after α n ops).hs k).cnt == some c) (after α n ops).n (by unfold sharers at this; omega)
    exact ⟨h, by rw [← en]; exact hn, by simpa using hp⟩

example : (after Int 2 [.build 0 2 7, .logcopy 1 0, .resize 1 5, .destroy 0]).dlive 0 = false ∧ (after Int 2 [.build 0 2 7, .logcopy 1 0, .resize 1 5, .destroy 0]).dlive 1 = true := by decide

/-- Handles share the counter exactly when they share the data block, and sharers agree on size and capacity
    (which is what makes the pointer test at the head of `copy` sound). -/
theorem sharers_agree (n : Nat) (ops : List (Op α)) (h g : Nat) (hn : h < n) (gn : g < n) :
    let s := after α n ops
    (s.hs h).psz ≠ 0 → (s.hs g).psz ≠ 0 →
    (((s.hs h).cnt = (s.hs g).cnt ↔ (s.hs h).d = (s.hs g).d) ∧
     ((s.hs h).d = (s.hs g).d → (s.hs h).size = (s.hs g).size ∧ (s.hs h).psz = (s.hs g).psz)) := by
  obtain ⟨I, en⟩ := after_inv (α := α) n ops
  exact I.pair h g (by rw [en]; exact hn) (by rw [en]; exact gn)

example : ((after Int 2 [.build 0 2 7, .logcopy 1 0]).hs 0).d = ((after Int 2 [.build 0 2 7, .logcopy 1 0]).hs 1).d := by decide

/-- Size 0 is handled: after any history, building, allocating, resizing or reserving with size 0 (and destroying)
    leaves a well-formed state and an empty handle. -/
theorem size_zero_ok (n : Nat) (ops : List (Op α)) (h : Nat) (hn : h < n) (t : α) :
    ∀ op ∈ [Op.build h 0 t, Op.allocate h 0, Op.resize h 0, Op.reserve h 0, Op.destroy h],
      let s := step (after α n ops) op
      s.fault = false ∧ (s.hs h).size = 0 ∧ contents s h = [] := by
  intro op hop
  obtain ⟨I, en⟩ := after_inv (α := α) n ops
  have hn' : h < (after α n ops).n := by rw [en]; exact hn
  have key : ((step (after α n ops) op).hs h).size = 0 → (step (after α n ops) op).fault = false ∧
      ((step (after α n ops) op).hs h).size = 0 ∧ contents (step (after α n ops) op) h = [] := by
    intro b
    refine ⟨(step_inv I op).1.nofault, b, ?_⟩
    unfold contents; split
    · rfl
    · rw [b]; simp
  apply key
  simp only [List.mem_cons, List.mem_nil_iff, or_false] at hop
  rcases hop with e | e | e | e | e <;> subst e <;>
    rw [step_eq_core I _ (by intro k hk; simp [Op.handles] at hk; omega)] <;> simp only [stepCore]
  · exact (ctorBuild_good I hn' 0 t).2
  · exact (allocate_good I hn' 0).2
  · exact (reallocate_good I hn' 0).2.1
  · exact (reserve_good I hn' 0).2
  · rw [(good_destroy I hn').2]; rfl

example : ((step (after Int 1 [.build 0 3 7]) (.resize 0 0)).hs 0).psz = 3 ∧ contents (step (after Int 1 [.build 0 3 7]) (.resize 0 0)) 0 = [] := by decide

/-! ### value semantics -/

/-- Effect of every operation on the handle it is applied to, after any history: the handle denotes exactly the list a
    value-semantics model predicts (`resize` keeps the common prefix and has the requested length; cells exposed by growing
    are not determined by the property). -/
theorem array_refines_value_semantics (n : Nat) (ops : List (Op α)) (h g : Nat) (hn : h < n) (gn : g < n)
    (sz : Nat) (t v : α) :
    let s := after α n ops
    contents (step s (.build h sz t)) h = List.replicate sz t ∧
    (h ≠ g → contents (step s (.noCopy h g)) h = contents s g) ∧
    (h ≠ g → contents (step s (.withCopy h g)) h = contents s g) ∧
    contents (step s (.logcopy h g)) h = contents s g ∧
    contents (step s (.copy h g)) h = contents s g ∧
    contents (step s (.assign h g)) h = contents s g ∧
    contents (step s (.destroy h)) h = [] ∧
    ((contents (step s (.resize h sz)) h).length = sz ∧
      ∀ m, m ≤ sz → m ≤ (contents s h).length → (contents (step s (.resize h sz)) h).take m = (contents s h).take m) ∧
    contents (step s (.pushBack h v)) h = contents s h ++ [v] ∧
    (contents (step s (.allocate h sz)) h).length = sz ∧
    contents (step s (.reserve h sz)) h = [] := by
  obtain ⟨I, en⟩ := after_inv (α := α) n ops
  have hn' : h < (after α n ops).n := by rw [en]; exact hn
  have gn' : g < (after α n ops).n := by rw [en]; exact gn
  have e1 : ∀ op : Op α, op.handles = [h] → step (after α n ops) op = stepCore (after α n ops) op :=
    fun op e => step_eq_core I op (by intro k hk; rw [e] at hk; simp at hk; omega)
  have e2 : ∀ op : Op α, op.handles = [h, g] → step (after α n ops) op = stepCore (after α n ops) op :=
    fun op e => step_eq_core I op (by intro k hk; rw [e] at hk; simp at hk; omega)
  refine ⟨?_, ?_, ?_, ?_, ?_, ?_, ?_, ?_, ?_, ?_, ?_⟩
  · rw [e1 _ rfl]; exact ctorBuild_contents I hn' sz t
  · intro ne; rw [e2 _ rfl]; exact ctorNoCopy_contents I hn' gn' ne
  · intro ne; rw [e2 _ rfl]; exact ctorWithCopy_contents I hn' gn' ne
  · rw [e2 _ rfl]; exact logcopy_contents I hn' gn'
  · rw [e2 _ rfl]; exact copy_contents I hn' gn'
  · rw [e2 _ rfl]; exact copy_contents I hn' gn'
  · rw [e1 _ rfl]; exact destroy_contents I hn'
  · rw [e1 _ rfl]
    have R := reallocate_contents I hn' sz
    exact ⟨R.1, fun m m1 m2 => R.2 m m1 (by rw [← contents_length I hn']; exact m2)⟩
  · rw [e1 _ rfl]; exact pushBack_contents I hn' v
  · rw [e1 _ rfl]
    obtain ⟨G, hs⟩ := allocate_good I hn' sz
    show (contents (allocate (after α n ops) h sz) h).length = sz
    rw [contents_length G.inv (by rw [G.frame.1]; exact hn'), hs]
  · rw [e1 _ rfl]
    obtain ⟨G, hs⟩ := reserve_good I hn' sz
    apply List.length_eq_zero_iff.mp
    show (contents (reserve (after α n ops) h sz) h).length = 0
    rw [contents_length G.inv (by rw [G.frame.1]; exact hn'), hs]

example : contents (after Int 2 [.build 0 3 7, .resize 0 1, .pushBack 0 9, .logcopy 1 0, .resize 1 3]) 1 = [7, 9, 0] := by decide

/-- Isolation: an operation on one handle (anything but an element write) never changes what another handle denotes —
    not even a handle that shares the storage (the operated handle is detached first). -/
theorem other_handles_keep_contents (n : Nat) (ops : List (Op α)) (op : Op α) (nw : op.isWrite = false)
    (k : Nat) (kn : k < n) (ne : k ≠ op.target) :
    contents (step (after α n ops) op) k = contents (after α n ops) k := by
  obtain ⟨I, en⟩ := after_inv (α := α) n ops
  exact step_others I op nw ne (by rw [en]; exact kn)

example : contents (step (after Int 2 [.build 0 2 7, .logcopy 1 0]) (.resize 0 1)) 1 = [7, 7] := by decide

/-- An element write through a handle is visible, as the same write, through exactly the handles that alias it
    (NoCopy constructor / `logcopy`), and through no other handle. -/
theorem write_seen_by_aliases_only (n : Nat) (ops : List (Op α)) (h i : Nat) (v : α) (k : Nat) (hn : h < n) (kn : k < n) :
    let s := after α n ops
    contents (step s (.write h i v)) k =
      if (s.hs k).d = (s.hs h).d ∧ i < (s.hs h).size then (contents s k).set i v else contents s k := by
  obtain ⟨I, en⟩ := after_inv (α := α) n ops
  have hn' : h < (after α n ops).n := by rw [en]; exact hn
  show contents (step (after α n ops) (.write h i v)) k = _
  rw [step_eq_core I _ (by intro k hk; simp [Op.handles] at hk; omega)]
  exact write_contents I hn' i v k (by rw [en]; exact kn)

example : contents (step (after Int 3 [.build 0 2 7, .logcopy 1 0, .withCopy 2 0]) (.write 0 1 9)) 1 = [7, 9] ∧
    contents (step (after Int 3 [.build 0 2 7, .logcopy 1 0, .withCopy 2 0]) (.write 0 1 9)) 2 = [7, 7] := by decide

/-! ### the pooled allocator -/
section Pool
open Givaro.Model.FreeList

/-- `BlocFreeList::search_binary` on the table of the current source: for every request it returns a class whose blocks
    are large enough and the *smallest* such class; it throws exactly for requests above the largest class. -/
theorem search_binary_smallest_fit (sz : Nat) :
    match searchBinary sz with
    | none => tab 511 < sz
    | some i => i < 512 ∧ sz ≤ tab i ∧ (i = 0 ∨ tab (i - 1) < sz) :=
  searchBinary_spec sz

example : searchBinary 33 = some 32 ∧ tab 32 = 64 := by decide +kernel

/-- No block is handed out twice: after any sequence of allocate / desallocate / resize calls by a client that forgets a
    pointer when it releases it, two slots never hold the same block, and a block returned by a call was not held by any
    slot before the call (except, for `resize`, by the slot being resized when the block does not move). -/
theorem freelist_no_double_handout (ops : List FreeList.Op) (op : FreeList.Op) :
    let c := crun Client.init ops
    (∀ k k' b, c.slot k = some b → c.slot k' = some b → k = k') ∧
    (∀ b, (cstep c op).2 = some b → ∀ k, c.slot k = some b → (match op with | .resize k' _ => k = k' | _ => False)) := by
  have I := crun_ci ops ci_init
  exact ⟨I.inj, (cstep_ci I op).2⟩

example : (cstep (crun Client.init [.alloc 0 40, .free 0, .alloc 1 40]) (.alloc 2 40)).2 = some 1 ∧
    (crun Client.init [.alloc 0 40, .free 0, .alloc 1 40]).slot 1 = some 0 := by decide +kernel

/-- A block on a free list is not live: no slot holds a block that is on a free list, no free list contains a block
    twice, and no block is on two free lists. -/
theorem freed_block_not_live (ops : List FreeList.Op) :
    let c := crun Client.init ops
    (∀ k b i, c.slot k = some b → b ∉ c.pool.free i) ∧ (∀ i, (c.pool.free i).Nodup) ∧
    (∀ i j b, b ∈ c.pool.free i → b ∈ c.pool.free j → i = j) := by
  have I := crun_ci ops ci_init
  exact ⟨fun k b i hk => I.pi.hfree b i ⟨k, hk⟩, I.pi.nodup, I.pi.disj⟩

example : (crun Client.init [.alloc 0 40, .alloc 1 40, .free 0]).pool.free 32 = [0] := by decide +kernel

end Pool

/-! ### allocation balance of the RecInt casts -/
section Casts
open Givaro.Model.Leak

/-- `Caster(Integer& t, const ruint<K>&)` / `Caster(Integer&, const rint<K>&)` on a live destination, and the casts in the
    other direction, leave the number of outstanding limb blocks unchanged; the constructor `Integer(ruint)` adds exactly
    the block owned by the new object. (`t` ranges over program variables, the temporaries are 100-102.) -/
theorem conversions_balance (g : G) (t : Nat) (ht : t < 100)
    (h100 : g.inited 100 = false) (h101 : g.inited 101 = false) (h102 : g.inited 102 = false) :
    (execAll g (casterIntegerRuint t)).live = g.live ∧ (execAll g mpz_t_to_ruint).live = g.live ∧
    (execAll { g with inited := fun y => if y = t then false else g.inited y } (ctorIntegerRuint t)).live = g.live + 1 := by
  have e1 : (100 : Nat) ≠ t := by omega
  refine ⟨?_, ?_, ?_⟩ <;>
    simp [execAll, casterIntegerRuint, ctorIntegerRuint, ruint_to_mpz_t, mpz_t_to_ruint, exec, h100, h101, h102, e1] <;> omega

example : (execAll ⟨1, fun x => x == 0⟩ (casterIntegerRuint 0)).live = 1 := by decide

/-- the body the pinned tree had (`ruint_to_mpz_t(t.get_mpz(), n)` on the live `t`) loses one block per call -/
theorem caster_before_repair_leaks (g : G) (t : Nat) (ht : t < 100) (h100 : g.inited 100 = false) :
    (execAll g (casterIntegerRuintOld t)).live = g.live + 1 := by
  have e1 : (100 : Nat) ≠ t := by omega
  simp [execAll, casterIntegerRuintOld, ruint_to_mpz_t, exec, h100, e1]

end Casts

end Givaro.Props.C17
