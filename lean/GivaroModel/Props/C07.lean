/-
C07 — Montgomery-form residue arithmetic is indistinguishable from plain residues.

All theorems are about `Model/Montgomery.lean`, the branch-by-branch transcription of montgomery-int32.{h,inl},
montgomery-ruint.{h,inl} and recint/rmg*.h, rmadd.h, rmsub.h, rmneg.h, rmmul.h (tied to the code by the correspondence
of checks/c07.py).  `IsRep M p x a` (Spec/MontgomerySpec.lean): `x ∈ [0,p)` is the Montgomery form, radix `M`, of the residue `a`.

32-bit ring: for EVERY odd modulus 3 ≤ p ≤ 40503 = maxCardinality(), every residue.
RecInt: for EVERY radix R and every 0 < p < R with p1·p ≡ -1 (mod R) — in particular R = 2^(2^K) for every K and every odd p.
-/
import GivaroModel.Lemmas.MontgomeryLemmas
import GivaroModel.Lemmas.MontgomeryDepth
namespace Givaro.Props.C07
open Givaro Givaro.Model.Montgomery Givaro.Spec.Montgomery Givaro.Lemmas.Montgomery

/-! ## Montgomery<int32_t> -/

/-- No `uint32_t` wrap-around inside the reductions: this inequality is where `maxCardinality() = 40503` comes from. -/
theorem redc_no_wrap (p m c : Int) (h3 : 3 ≤ p) (hmax : p ≤ maxCard32) (hm0 : 0 ≤ m) (hm : m ≤ 65535)
    (hc0 : 0 ≤ c) (hc : c ≤ (p - 1) * (p - 1)) : 0 ≤ c + m * p ∧ c + m * p < 4294967296 := by
  unfold maxCard32 at hmax
  have h1 : m * p ≤ 65535 * 40503 := Int.mul_le_mul hm hmax (by omega) (by decide)
  have h2 : (p - 1) * (p - 1) ≤ 40502 * 40502 := Int.mul_le_mul (by omega) (by omega) (by omega) (by decide)
  have h3 : 0 ≤ m * p := Int.mul_nonneg hm0 (by omega)
  omega
example : 0 ≤ (1640412004 : Int) + 65535 * 40503 ∧ (1640412004 : Int) + 65535 * 40503 < 4294967296 :=
  redc_no_wrap 40503 65535 1640412004 (by decide) (by decide) (by decide) (by decide) (by decide) (by decide)
/-- the bound is sharp: at the next odd modulus the same expression leaves `uint32_t` -/
example : ¬ ((40505 - 1) * (40505 - 1) + 65535 * 40505 < (4294967296 : Int)) := by decide

/-- The derived constants of the constructor are exact for every admissible modulus:
    `_nim·p ≡ -1 (mod 2^16)`, `_Bp = 2^16 mod p`, `_B2p = 2^32 mod p`, `_B3p = 2^48 mod p`, `one`, `mOne` represent ±1. -/
theorem constants_exact (p : Int) (h3 : 3 ≤ p) (hmax : p ≤ maxCard32) (hodd : p % 2 = 1) :
    let F := mk32 p
    0 ≤ F.nim ∧ F.nim < 65536 ∧ (F.nim * p) % 65536 = 65535 ∧
    F.Bp = 65536 % p ∧ F.B2p = (65536 * 65536) % p ∧ F.B3p = (65536 * 65536 * 65536) % p ∧
    IsRep 65536 p F.one 1 ∧ IsRep 65536 p F.mOne (-1) := by
  intro F
  have g : Good32 F := mk32_good h3 hmax hodd
  have hp : F.p = p := rfl
  have m0 := Int.emod_nonneg 65536 (show p ≠ 0 by omega)
  have m1 := Int.emod_lt_of_pos 65536 (show 0 < p by omega)
  unfold maxCard32 at hmax
  have eBp : F.Bp = 65536 % p := wrapU32_id m0 (by omega)
  have hone : IsRep 65536 p F.one 1 := by
    have : F.one = 65536 % p := eBp
    rw [this]; exact ⟨m0, m1, by rw [Int.emod_emod_of_dvd _ (dvd_refl _), Int.one_mul]⟩
  refine ⟨g.nim0, g.nimB, g.nimp, eBp, ?_, ?_, hone, ?_⟩
  · exact (emod_unique g.b2_0 (hp ▸ g.b2_1) (hp ▸ g.b2)).symm
  · exact (emod_unique g.b3_0 (hp ▸ g.b3_1) (hp ▸ g.b3)).symm
  · have hd := Int.emod_add_mul_ediv 65536 p
    have hne : 65536 % p ≠ 0 := by
      intro e
      have : (p : Int) ∣ 65536 := Int.dvd_of_emod_eq_zero e
      have hc : IsCoprime p 65536 := coprime_of_nim (nim := F.nim) g.nimp |>.symm |>.symm
      have : IsCoprime p p := hc.of_isCoprime_of_dvd_right this
      have := isCoprime_self.mp this
      rcases Int.isUnit_iff.mp this with h | h <;> omega
    have : F.mOne = p - 65536 % p := by
      show wrapU32 (p - wrapU32 (65536 % p)) = _
      rw [wrapU32_id m0 (by omega), wrapU32_id (by omega) (by omega)]
    rw [this]
    exact isRep_iff.mpr ⟨by omega, by omega, ⟨-(65536 / p) - 1, by linear_combination hd⟩⟩
example : (3 : Int) ≤ 40503 ∧ (40503 : Int) ≤ maxCard32 ∧ (40503 : Int) % 2 = 1 := by decide
example : (mk32 40503).nim = 34937 ∧ (34937 * 40503 : Int) % 65536 = 65535 := by decide

/-- `redc` is exact: for every admissible modulus and every `c ≤ (p-1)²` the result is in `[0,p)` and equals `c·2^-16 (mod p)`. -/
theorem redc_exact (p c : Int) (h3 : 3 ≤ p) (hmax : p ≤ maxCard32) (hodd : p % 2 = 1) (hc0 : 0 ≤ c) (hc : c ≤ (p - 1) * (p - 1)) :
    0 ≤ redc (mk32 p) c ∧ redc (mk32 p) c < p ∧ (redc (mk32 p) c * 65536) % p = c % p := by
  have g : Good32 (mk32 p) := mk32_good h3 hmax hodd
  have hp : (mk32 p).p = p := rfl
  unfold maxCard32 at hmax
  rw [redc_eq_pure g.toAdm32 hc0 (hp ▸ hc)]
  have hlt : c < p * 65536 := by nlinarith
  obtain ⟨r0, r1, r2⟩ := redcPure_spec (B := 65536) (p := p) (nim := (mk32 p).nim) (by decide) (by omega) g.nimp hc0 hlt
  exact ⟨r0, r1, Int.modEq_iff_dvd.mpr r2⟩
example : redc (mk32 40503) (40502 * 40502) = 21592 := by decide

/-- the six reduction variants of the source (`redc, redcal, redcsal, redcs, redcin, redcsin`) agree on every admissible input -/
theorem redc_variants_agree (p c : Int) (h3 : 3 ≤ p) (hmax : p ≤ maxCard32) (hodd : p % 2 = 1) (hc0 : 0 ≤ c)
    (hc : c ≤ (p - 1) * (p - 1)) :
    let F := mk32 p
    redcal F c = redc F c ∧ redcsal F c = redc F c ∧ redcs F c = redc F c ∧ redcin F c = redc F c ∧ redcsin F c = redc F c := by
  intro F
  have g : Good32 F := mk32_good h3 hmax hodd
  have hp : F.p = p := rfl
  have e0 := redc_eq_pure g.toAdm32 hc0 (hp ▸ hc)
  have e1 := redcal_eq_pure g.toAdm32 hc0 (hp ▸ hc)
  have e2 := redcsal_eq_pure g.toAdm32 hc0 (hp ▸ hc)
  refine ⟨by rw [e0, e1], by rw [e0, e2], by rw [redcs_eq_redcsal, e0, e2], by rw [redcin_eq_redcal, e0, e1],
    by rw [redcsin_eq_redcsal, e0, e2]⟩
example : (3 : Int) ≤ 40503 ∧ (40503 : Int) ≤ maxCard32 ∧ (40503 : Int) % 2 = 1 := by decide
example : redcsin (mk32 40503) (40502 * 40502) = 21592 := by decide

/-- Initialising and converting back is the canonical map `Z → Z/p` (identity on `[0, p)`), for the unsigned and the signed `init`. -/
theorem mg32_init_convert_id (p v : Int) (h3 : 3 ≤ p) (hmax : p ≤ maxCard32) (hodd : p % 2 = 1) :
    let F := mk32 p
    (0 ≤ v → convert32 F (initU64 F v) = v % p) ∧ convert32 F (initI64 F v) = v % p ∧
    (0 ≤ v → v < p → convert32 F (initU64 F v) = v ∧ convert32 F (initI64 F v) = v) := by
  intro F
  have g : Good32 F := mk32_good h3 hmax hodd
  have hp : F.p = p := rfl
  have e1 : 0 ≤ v → convert32 F (initU64 F v) = v % p := fun hv => hp ▸ convert32_rep g.toAdm32 (initU64_rep g hv)
  have e2 : convert32 F (initI64 F v) = v % p := hp ▸ convert32_rep g.toAdm32 (initI64_rep g v)
  refine ⟨e1, e2, fun h0 h1 => ?_⟩
  rw [e1 h0, e2, Int.emod_eq_of_lt h0 h1]; exact ⟨rfl, rfl⟩
example : (3 : Int) ≤ 40503 ∧ (40503 : Int) ≤ maxCard32 ∧ (40503 : Int) % 2 = 1 := by decide
example : convert32 (mk32 40503) (initI64 (mk32 40503) (-1)) = 40502 := by decide

/-- Every ring operation and every fused operation, applied to Montgomery forms and converted out, returns exactly the plain residue. -/
theorem mg32_ops_exact (p a b c : Int) (h3 : 3 ≤ p) (hmax : p ≤ maxCard32) (hodd : p % 2 = 1)
    (ha : 0 ≤ a) (hb : 0 ≤ b) (hc : 0 ≤ c) :
    let F := mk32 p
    let A := initU64 F a
    let B := initU64 F b
    let C := initU64 F c
    convert32 F (add32 F A B) = rAdd p a b ∧ convert32 F (sub32 F A B) = rSub p a b ∧
    convert32 F (subin32 F A B) = rSub p a b ∧ convert32 F (mul32 F A B) = rMul p a b ∧
    convert32 F (mulin32 F A B) = rMul p a b ∧ convert32 F (neg32 F A) = rNeg p a ∧
    convert32 F (axpy32 F A B C) = rAxpy p a b c ∧ convert32 F (axpyin32 F C A B) = rAxpy p a b c ∧
    convert32 F (axmy32 F A B C) = rAxmy p a b c ∧ convert32 F (axmyin32 F C A B) = rAxmy p a b c ∧
    convert32 F (maxpy32 F A B C) = rMaxpy p a b c ∧ convert32 F (maxpyin32 F C A B) = rMaxpy p a b c := by
  intro F A B C
  have g : Good32 F := mk32_good h3 hmax hodd
  have h := g.toAdm32
  have hp : F.p = p := rfl
  have rA : Rep32 F A a := initU64_rep g ha
  have rB : Rep32 F B b := initU64_rep g hb
  have rC : Rep32 F C c := initU64_rep g hc
  unfold rAdd rSub rMul rNeg rAxpy rAxmy rMaxpy
  refine ⟨hp ▸ convert32_rep h (add32_rep h rA rB), hp ▸ convert32_rep h (sub32_rep h rA rB),
    hp ▸ convert32_rep h (subin32_rep h rA rB), hp ▸ convert32_rep h (mul32_rep h rA rB), ?_,
    hp ▸ convert32_rep h (neg32_rep h rA), hp ▸ convert32_rep h (axpy32_rep h rA rB rC), ?_,
    hp ▸ convert32_rep h (axmy32_rep h rA rB rC), hp ▸ convert32_rep h (axmyin32_rep h rC rA rB),
    hp ▸ convert32_rep h (maxpy32_rep h rA rB rC), hp ▸ convert32_rep h (maxpyin32_rep h rC rA rB)⟩
  · rw [mulin32_eq_mul32 h rA.1 rA.2.1 rB.1 rB.2.1]; exact hp ▸ convert32_rep h (mul32_rep h rA rB)
  · have := convert32_rep h (axpyin32_rep h rC rA rB)
    rw [this, hp, Int.add_comm]
example : (3 : Int) ≤ 40503 ∧ (40503 : Int) ≤ maxCard32 ∧ (40503 : Int) % 2 = 1 := by decide
example : convert32 (mk32 101) (mul32 (mk32 101) (initU64 (mk32 101) 100) (initU64 (mk32 101) 99)) = 2 := by decide +kernel

/-- The operations preserve the representation invariant (so the previous theorem extends to arbitrary histories of operations). -/
theorem mg32_rep_closed (p : Int) (h3 : 3 ≤ p) (hmax : p ≤ maxCard32) (hodd : p % 2 = 1)
    {x y z a b c : Int} (hx : IsRep 65536 p x a) (hy : IsRep 65536 p y b) (hz : IsRep 65536 p z c) :
    let F := mk32 p
    IsRep 65536 p (add32 F x y) (a + b) ∧ IsRep 65536 p (sub32 F x y) (a - b) ∧ IsRep 65536 p (subin32 F x y) (a - b) ∧
    IsRep 65536 p (mul32 F x y) (a * b) ∧ IsRep 65536 p (mulin32 F x y) (a * b) ∧ IsRep 65536 p (neg32 F x) (-a) ∧
    IsRep 65536 p (axpy32 F x y z) (a * b + c) ∧ IsRep 65536 p (axpyin32 F z x y) (c + a * b) ∧
    IsRep 65536 p (axmy32 F x y z) (a * b - c) ∧ IsRep 65536 p (axmyin32 F z x y) (a * b - c) ∧
    IsRep 65536 p (maxpy32 F x y z) (c - a * b) ∧ IsRep 65536 p (maxpyin32 F z x y) (c - a * b) ∧
    convert32 F x = a % p := by
  intro F
  have g : Good32 F := mk32_good h3 hmax hodd
  have h := g.toAdm32
  have hx' : Rep32 F x a := hx
  have hy' : Rep32 F y b := hy
  have hz' : Rep32 F z c := hz
  exact ⟨add32_rep h hx' hy', sub32_rep h hx' hy', subin32_rep h hx' hy', mul32_rep h hx' hy',
    (mulin32_eq_mul32 h hx'.1 hx'.2.1 hy'.1 hy'.2.1) ▸ mul32_rep h hx' hy', neg32_rep h hx',
    axpy32_rep h hx' hy' hz', axpyin32_rep h hz' hx' hy', axmy32_rep h hx' hy' hz', axmyin32_rep h hz' hx' hy',
    maxpy32_rep h hx' hy' hz', maxpyin32_rep h hz' hx' hy', convert32_rep h hx'⟩
example : IsRep 65536 40503 (initU64 (mk32 40503) 40502) 40502 := by unfold IsRep; decide

/-- `inv`, `div`, `divin`: for every unit `b` the converted results are the inverse / the quotient in `Z/p`. -/
theorem mg32_inv_div_exact (p a b : Int) (h3 : 3 ≤ p) (hmax : p ≤ maxCard32) (hodd : p % 2 = 1)
    (ha : 0 ≤ a) (hb : 0 ≤ b) (hu : IsCoprime b p) :
    let F := mk32 p
    let A := initU64 F a
    let B := initU64 F b
    (convert32 F (inv32 F B) * b) % p = 1 ∧ (convert32 F (div32 F A B) * b) % p = a % p ∧
    (convert32 F (divin32 F A B) * b) % p = a % p := by
  intro F A B
  have g : Good32 F := mk32_good h3 hmax hodd
  have h := g.toAdm32
  have hp : F.p = p := rfl
  have rA : Rep32 F A a := initU64_rep g ha
  have rB : Rep32 F B b := initU64_rep g hb
  have huB : IsCoprime B F.p := by
    obtain ⟨_, _, k, hk⟩ := isRep_iff.mp rB
    have hc : IsCoprime (b * 65536) F.p := (hp ▸ hu).mul_left (coprime_of_nim g.nimp).symm
    have := hc.add_mul_left_left (-k)
    have e : b * 65536 + F.p * -k = B := by linear_combination hk
    rwa [e] at this
  obtain ⟨b', ⟨j, hj⟩, rI⟩ := inv32_rep g rB huB
  have hI0 := rI.1; have hI1 := rI.2.1
  have e1 : convert32 F (inv32 F B) = b' % p := hp ▸ convert32_rep h rI
  have e2 : convert32 F (div32 F A B) = (b' * a) % p := by
    unfold div32; rw [mulin32_eq_mul32 h hI0 hI1 rA.1 rA.2.1]; exact hp ▸ convert32_rep h (mul32_rep h rI rA)
  have e3 : convert32 F (divin32 F A B) = (a * b') % p := by
    unfold divin32; rw [mulin32_eq_mul32 h rA.1 rA.2.1 hI0 hI1]; exact hp ▸ convert32_rep h (mul32_rep h rA rI)
  rw [hp] at hj
  refine ⟨?_, ?_, ?_⟩
  · rw [e1, emod_mul_emod']
    have : (b' * b) % p = 1 % p := (Int.modEq_iff_dvd.mpr ⟨-j, by linear_combination -hj⟩ : b' * b ≡ 1 [ZMOD p])
    rw [this]; exact Int.emod_eq_of_lt (by decide) (by omega)
  · rw [e2, emod_mul_emod']
    exact (Int.modEq_iff_dvd.mpr ⟨-(a * j), by linear_combination (-a) * hj⟩ : b' * a * b ≡ a [ZMOD p])
  · rw [e3, emod_mul_emod']
    exact (Int.modEq_iff_dvd.mpr ⟨-(a * j), by linear_combination (-a) * hj⟩ : a * b' * b ≡ a [ZMOD p])
example : IsCoprime (2 : Int) 40503 := ⟨-20251, 1, by decide⟩

/-! ## RecInt: `Montgomery<ruint<K>>` and `rmint<K, MG_ACTIVE>`

The theorems hold for every radix `R` and every modulus `0 < p < R` with `p1·p ≡ -1 (mod R)`: every `K`, every odd `p`. -/

/-- `mg_reduc` / `reduction` (with the carry test `r || a >= p`) is exact for every `0 ≤ b < p·R`:
    this covers the `Element` overload (`b < R`… restricted to `b < p·R`) and the `LargeElement` one (products of residues). -/
theorem mgR_reduc_exact (C : MgCtx) (hp0 : 0 < C.p) (hpR : C.p < C.R) (hp1 : (C.p1 * C.p) % C.R = C.R - 1)
    (b : Int) (hb0 : 0 ≤ b) (hb : b < C.p * C.R) :
    0 ≤ mgReduc C b ∧ mgReduc C b < C.p ∧ (mgReduc C b * C.R) % C.p = b % C.p := by
  have h : AdmR C := ⟨hp0, hpR, hp1⟩
  rw [mgReduc_eq_pure h hb0 hb]
  obtain ⟨r0, r1, r2⟩ := redcPure_spec (by omega) hp0 hp1 hb0 hb
  exact ⟨r0, r1, Int.modEq_iff_dvd.mpr r2⟩
example : mgReduc ⟨16, 7, 9, 2, 4, 1⟩ 20 = 3 ∧ (9 * 7) % 16 = 15 ∧ (3 * 16) % 7 = 20 % 7 := by decide

/-- Every operation of `Montgomery<ruint<K>>` (and the `add/sub/neg/mul` bodies shared with `rmint<K,MGA>`) preserves the
    representation invariant, and `convert` / `get_ruint` returns the represented residue. -/
theorem mgR_ops_exact (C : MgCtx) (hp0 : 0 < C.p) (hpR : C.p < C.R) (hp1 : (C.p1 * C.p) % C.R = C.R - 1)
    {x y z a b c : Int} (hx : IsRep C.R C.p x a) (hy : IsRep C.R C.p y b) (hz : IsRep C.R C.p z c) :
    IsRep C.R C.p (addR C x y) (a + b) ∧ IsRep C.R C.p (subR C x y) (a - b) ∧ IsRep C.R C.p (subinR C x y) (a - b) ∧
    IsRep C.R C.p (mulR C x y) (a * b) ∧ IsRep C.R C.p (negR C x) (-a) ∧
    IsRep C.R C.p (axpyR C x y z) (a * b + c) ∧ IsRep C.R C.p (axpyinR C z x y) (c + a * b) ∧
    IsRep C.R C.p (axmyR C x y z) (a * b - c) ∧ IsRep C.R C.p (axmyinR C z x y) (a * b - c) ∧
    IsRep C.R C.p (maxpyR C x y z) (c - a * b) ∧ IsRep C.R C.p (maxpyinR C z x y) (c - a * b) ∧
    IsRep C.R C.p (addmulA C z x y) (c + a * b) ∧ IsRep C.R C.p (squareA C x) (a * a) ∧
    convertR C x = a % C.p ∧ getRuintA C x = a % C.p := by
  have h : AdmR C := ⟨hp0, hpR, hp1⟩
  have hm := mulR_rep h hx hy
  exact ⟨addR_rep h hx hy, subR_rep h hx hy, subinR_rep h hx hy, hm, negR_rep h hx,
    addR_rep h hm hz, addR_rep h hz hm, subinR_rep h hm hz, subR_rep h hm hz, subR_rep h hz hm, subinR_rep h hz hm,
    addR_rep h hz hm, mulR_rep h hx hx, convertR_rep h hx, convertR_rep h hx⟩
example : IsRep 16 7 4 2 ∧ (9 * 7 : Int) % 16 = 16 - 1 := by unfold IsRep; decide

/-- entering Montgomery form: `to_mg` of `rmint<K,MGA>` (`b·R mod p`), and `to_mg`/`init` of `Montgomery<ruint<K>>`
    (`REDC(b·r2)`, given that `r2 = R² mod p`) both produce the representation of `b`; converting back is the identity on `[0,p)`. -/
theorem mgR_init_convert_id (C : MgCtx) (hp0 : 0 < C.p) (hpR : C.p < C.R) (hp1 : (C.p1 * C.p) % C.R = C.R - 1)
    (hr2 : C.r2 = (C.R * C.R) % C.p) (v : Int) (hv0 : 0 ≤ v) (hv1 : v < C.p) :
    IsRep C.R C.p (toMgA C v) v ∧ IsRep C.R C.p (toMgR C v) v ∧
    getRuintA C (toMgA C v) = v ∧ convertR C (toMgR C v) = v ∧ convertR C (initR C v) = v := by
  have h : AdmR C := ⟨hp0, hpR, hp1⟩
  have hA := toMgA_rep h v
  have r20 : 0 ≤ C.r2 := hr2 ▸ Int.emod_nonneg _ (by omega)
  have r21 : C.r2 < C.p := hr2 ▸ Int.emod_lt_of_pos _ hp0
  have r2d : C.p ∣ C.R * C.R - C.r2 := by
    rw [hr2]; exact ⟨C.R * C.R / C.p, by have := Int.emod_add_mul_ediv (C.R * C.R) C.p; linear_combination -this⟩
  have hR : IsRep C.R C.p (toMgR C v) v := by
    have h0 : 0 ≤ v * C.r2 := Int.mul_nonneg hv0 r20
    have h1 : v * C.r2 < C.p * C.R := by nlinarith
    unfold toMgR mulR
    rw [mgReduc_eq_pure h h0 h1]
    exact rep_init (by omega) hp0 (by omega) hp1 r20 r21 r2d hv0 hv1
  have e1 : getRuintA C (toMgA C v) = v := by
    have := convertR_rep h hA; rw [Int.emod_eq_of_lt hv0 hv1] at this; exact this
  have e2 : convertR C (toMgR C v) = v := by
    have := convertR_rep h hR; rw [Int.emod_eq_of_lt hv0 hv1] at this; exact this
  refine ⟨hA, hR, e1, e2, ?_⟩
  have : initR C v = toMgR C v := by
    unfold initR
    simp only [show ¬ v < 0 by omega, ↓reduceIte]
    rw [Int.emod_eq_of_lt hv0 (by omega), Int.emod_eq_of_lt hv0 hv1]
  rw [this, e2]
example : (4 : Int) = (16 * 16) % 7 ∧ (9 * 7 : Int) % 16 = 16 - 1 ∧ convertR ⟨16, 7, 9, 2, 4, 1⟩ (toMgR ⟨16, 7, 9, 2, 4, 1⟩ 5) = 5 := by decide

/-- The Montgomery and the non-Montgomery `rmint` agree: the Montgomery variant, converted out, returns what the same
    operation of the non-Montgomery variant (the same `add/sub/neg` text run on plain values, `mul` = `(b·c) mod p`) returns,
    and both are the plain residue. -/
theorem mg_agrees_with_plain (C : MgCtx) (hp0 : 0 < C.p) (hpR : C.p < C.R) (hp1 : (C.p1 * C.p) % C.R = C.R - 1)
    (a b : Int) (ha0 : 0 ≤ a) (ha1 : a < C.p) (hb0 : 0 ≤ b) (hb1 : b < C.p) :
    let P : MgCtx := ⟨C.R, C.p, 0, 0, 0, 0⟩          -- the non-Montgomery variant has no constants
    let A := toMgA C a
    let B := toMgA C b
    getRuintA C (addR C A B) = addR P a b ∧ addR P a b = rAdd C.p a b ∧
    getRuintA C (subR C A B) = subR P a b ∧ subR P a b = rSub C.p a b ∧
    getRuintA C (subinR C A B) = subinR P a b ∧
    getRuintA C (negR C A) = negR P a ∧ negR P a = rNeg C.p a ∧
    getRuintA C (mulA C A B) = mulI C.p a b ∧ mulI C.p a b = rMul C.p a b ∧
    getRuintA C (squareA C A) = mulI C.p a a := by
  intro P A B
  have h : AdmR C := ⟨hp0, hpR, hp1⟩
  have hA : IsRep C.R C.p A a := toMgA_rep h a
  have hB : IsRep C.R C.p B b := toMgA_rep h b
  have pp0 : 0 < P.p := hp0
  have ppR : P.p < P.R := hpR
  have eadd : addR P a b = rAdd C.p a b := by
    rw [addR_val pp0 ppR ha0 ha1 hb0 hb1]; unfold rAdd
    show (if a + b ≥ C.p then a + b - C.p else a + b) = (a + b) % C.p
    split
    · exact (emod_unique (by omega) (by omega) ⟨1, by ring⟩).symm
    · exact (Int.emod_eq_of_lt (by omega) (by omega)).symm
  have esub : subR P a b = rSub C.p a b := by
    rw [subR_val pp0 ppR ha0 ha1 hb0 hb1]; unfold rSub
    show (if a < b then C.p - b + a else a - b) = (a - b) % C.p
    split
    · exact (emod_unique (by omega) (by omega) ⟨-1, by ring⟩).symm
    · exact (Int.emod_eq_of_lt (by omega) (by omega)).symm
  have esubin : subinR P a b = rSub C.p a b := by
    rw [subinR_val pp0 ppR ha0 ha1 hb0 hb1]; unfold rSub
    show (if a < b then C.p - b + a else a - b) = (a - b) % C.p
    split
    · exact (emod_unique (by omega) (by omega) ⟨-1, by ring⟩).symm
    · exact (Int.emod_eq_of_lt (by omega) (by omega)).symm
  have eneg : negR P a = rNeg C.p a := by
    rw [negR_val pp0 ppR ha0 ha1]; unfold rNeg
    show (if a = 0 then 0 else C.p - a) = (-a) % C.p
    split
    · rename_i h0; rw [h0]; simp
    · exact (emod_unique (by omega) (by omega) ⟨-1, by ring⟩).symm
  refine ⟨?_, eadd, ?_, esub, ?_, ?_, eneg, ?_, rfl, ?_⟩
  · rw [eadd]; exact convertR_rep h (addR_rep h hA hB)
  · rw [esub]; exact convertR_rep h (subR_rep h hA hB)
  · rw [esubin]; exact convertR_rep h (subinR_rep h hA hB)
  · rw [eneg]; exact convertR_rep h (negR_rep h hA)
  · exact convertR_rep h (mulR_rep h hA hB)
  · exact convertR_rep h (mulR_rep h hA hA)
example : (9 * 7 : Int) % 16 = 16 - 1 := by decide

/-- The derived constants `r, r2, r3` of `Montgomery<ruint<K>>(p)` and `r` of `rmint<K,MGA>::init_module(p)` are exact
    for every level `n` (`K = 6 + n`) and every `0 < p < R`. -/
theorem mgR_constants_exact (n : Nat) (p : Int) (hp0 : 0 < p) (hpR : p < radix n) :
    let C := mkR n p
    C.R = radix n ∧ C.p = p ∧ C.r = radix n % p ∧ C.r2 = (radix n * radix n) % p ∧
    C.r3 = (radix n * radix n * radix n) % p ∧ (mkA n p).r = radix n % p ∧ (mkA n p).p1 = C.p1 := by
  intro C
  have e0 : uNeg (radix n) p = radix n - p := by
    unfold uNeg; exact emod_unique (by omega) (by omega) ⟨-1, by ring⟩
  have er : C.r = radix n % p := by
    show uNeg (radix n) p % p = _
    rw [e0]; exact emod_sub_self' _ _
  have er2 : C.r2 = (radix n * radix n) % p := by
    show (C.r * C.r) % p = _
    rw [er]; exact (Int.mul_emod _ _ _).symm
  refine ⟨rfl, rfl, er, er2, ?_, ?_, rfl⟩
  · show (C.r2 * C.r) % p = _
    rw [er2, er]; exact (Int.mul_emod _ _ _).symm
  · show uNeg (radix n) p % p = _
    rw [e0]; exact emod_sub_self' _ _
example : (0 : Int) < 7 ∧ (7 : Int) < radix 0 := by decide

/-- `arazi_qi` (the recursive template and its limb specialisation) returns the inverse modulo `2^(2^K)` of every odd input,
    for every level. -/
theorem arazi_qi_exact (n : Nat) (a : Int) (h0 : 0 ≤ a) (h1 : a < radix n) (hodd : a % 2 = 1) :
    0 ≤ arazi n a ∧ arazi n a < radix n ∧ (arazi n a * a) % radix n = 1 := arazi_exact n a h0 h1 hodd
example : arazi 0 3 = 12297829382473034411 ∧ (12297829382473034411 * 3 : Int) % radix 0 = 1 := by decide

/-- `p1 = arazi_qi(-p)` is exact: `p1·p ≡ -1 (mod 2^(2^K))` for every level and every odd modulus below the radix
    (constructor of `Montgomery<ruint<K>>` and `rmint<K,MGA>::init_module`). -/
theorem mgR_p1_exact (n : Nat) (p : Int) (hp0 : 0 < p) (hpR : p < radix n) (hodd : p % 2 = 1) :
    0 ≤ (mkR n p).p1 ∧ (mkR n p).p1 < radix n ∧ ((mkR n p).p1 * p) % radix n = radix n - 1 ∧ (mkA n p).p1 = (mkR n p).p1 := by
  have e0 : uNeg (radix n) p = radix n - p := by
    unfold uNeg; exact emod_unique (by omega) (by omega) ⟨-1, by ring⟩
  have h2 := two_dvd_radix n
  have hoddm : (radix n - p) % 2 = 1 := by omega
  obtain ⟨a0, a1, a2⟩ := arazi_exact n (radix n - p) (by omega) (by omega) hoddm
  have ep1 : (mkR n p).p1 = arazi n (radix n - p) := by show arazi n (uNeg (radix n) p) = _; rw [e0]
  rw [ep1]
  refine ⟨a0, a1, ?_, by show arazi n (uNeg (radix n) p) = _; rw [e0]⟩
  have hd := Int.emod_add_mul_ediv (arazi n (radix n - p) * (radix n - p)) (radix n)
  rw [a2] at hd
  refine emod_unique (by omega) (by omega) ⟨arazi n (radix n - p) - (arazi n (radix n - p) * (radix n - p)) / radix n - 1, ?_⟩
  linear_combination hd
example : (0 : Int) < 1009 ∧ (1009 : Int) < radix 0 ∧ (1009 : Int) % 2 = 1 ∧ ((mkR 0 1009).p1 * 1009) % radix 0 = radix 0 - 1 := by decide

/-- End-to-end statement for `Montgomery<ruint<K>>` and `rmint<K,MGA>` with the constants *the constructors compute*:
    for every level `n` (`K = 6+n`), every odd `3 ≤ p < 2^(2^K)` and all residues, initialise → operate → convert out
    returns the plain residue. -/
theorem mgR_ring_exact (n : Nat) (p a b c : Int) (hp3 : 3 ≤ p) (hpR : p < radix n) (hodd : p % 2 = 1)
    (ha0 : 0 ≤ a) (ha1 : a < p) (hb0 : 0 ≤ b) (hb1 : b < p) (hc0 : 0 ≤ c) (hc1 : c < p) :
    let C := mkR n p
    let A := initR C a
    let B := initR C b
    let Cc := initR C c
    convertR C A = a ∧
    convertR C (addR C A B) = rAdd p a b ∧ convertR C (subR C A B) = rSub p a b ∧ convertR C (subinR C A B) = rSub p a b ∧
    convertR C (mulR C A B) = rMul p a b ∧ convertR C (negR C A) = rNeg p a ∧
    convertR C (axpyR C A B Cc) = rAxpy p a b c ∧ convertR C (axpyinR C Cc A B) = rAxpy p a b c ∧
    convertR C (axmyR C A B Cc) = rAxmy p a b c ∧ convertR C (axmyinR C Cc A B) = rAxmy p a b c ∧
    convertR C (maxpyR C A B Cc) = rMaxpy p a b c ∧ convertR C (maxpyinR C Cc A B) = rMaxpy p a b c ∧
    (let D := mkA n p
     getRuintA D (toMgA D a) = a ∧ getRuintA D (mulA D (toMgA D a) (toMgA D b)) = rMul p a b ∧
     getRuintA D (addmulA D (toMgA D c) (toMgA D a) (toMgA D b)) = rAxpy p a b c) := by
  intro C A B Cc
  obtain ⟨_, _, k1, k2⟩ := mgR_p1_exact n p (by omega) hpR hodd
  obtain ⟨_, _, _, kr2, _, _, _⟩ := mgR_constants_exact n p (by omega) hpR
  have hCp : C.p = p := rfl
  have hCR : C.R = radix n := rfl
  have hp1 : (C.p1 * C.p) % C.R = C.R - 1 := k1
  have hA' : AdmR C := ⟨by omega, hpR, hp1⟩
  have iA := mgR_init_convert_id C (by omega) hpR hp1 kr2 a ha0 ha1
  have iB := mgR_init_convert_id C (by omega) hpR hp1 kr2 b hb0 hb1
  have iC := mgR_init_convert_id C (by omega) hpR hp1 kr2 c hc0 hc1
  have eA : A = toMgR C a := by
    show initR C a = _
    unfold initR; simp only [show ¬ a < 0 by omega, ↓reduceIte]
    rw [Int.emod_eq_of_lt ha0 (by omega : a < C.R), Int.emod_eq_of_lt ha0 (show a < C.p from ha1)]
  have eB : B = toMgR C b := by
    show initR C b = _
    unfold initR; simp only [show ¬ b < 0 by omega, ↓reduceIte]
    rw [Int.emod_eq_of_lt hb0 (by omega : b < C.R), Int.emod_eq_of_lt hb0 (show b < C.p from hb1)]
  have eC : Cc = toMgR C c := by
    show initR C c = _
    unfold initR; simp only [show ¬ c < 0 by omega, ↓reduceIte]
    rw [Int.emod_eq_of_lt hc0 (by omega : c < C.R), Int.emod_eq_of_lt hc0 (show c < C.p from hc1)]
  have rA : IsRep C.R C.p A a := eA ▸ iA.2.1
  have rB : IsRep C.R C.p B b := eB ▸ iB.2.1
  have rC : IsRep C.R C.p Cc c := eC ▸ iC.2.1
  obtain ⟨o1, o2, o3, o4, o5, o6, o7, o8, o9, o10, o11, _, _, _, _⟩ := mgR_ops_exact C (by omega) hpR hp1 rA rB rC
  unfold rAdd rSub rMul rNeg rAxpy rAxmy rMaxpy
  refine ⟨eA ▸ iA.2.2.2.1, convertR_rep hA' o1, convertR_rep hA' o2, convertR_rep hA' o3, convertR_rep hA' o4,
    convertR_rep hA' o5, convertR_rep hA' o6, ?_, convertR_rep hA' o8, convertR_rep hA' o9, convertR_rep hA' o10,
    convertR_rep hA' o11, ?_⟩
  · rw [convertR_rep hA' o7, Int.add_comm]; rfl
  · intro D
    have hD1 : (D.p1 * D.p) % D.R = D.R - 1 := by
      show ((mkA n p).p1 * p) % radix n = radix n - 1
      rw [k2]; exact k1
    have hD : AdmR D := ⟨by show 0 < p; omega, hpR, hD1⟩
    have dA := toMgA_rep hD a
    have dB := toMgA_rep hD b
    have dC := toMgA_rep hD c
    refine ⟨?_, convertR_rep hD (mulR_rep hD dA dB), ?_⟩
    · have := convertR_rep hD dA
      rw [Int.emod_eq_of_lt ha0 (show a < D.p from ha1)] at this; exact this
    · have := convertR_rep hD (addR_rep hD dC (mulR_rep hD dA dB))
      rw [Int.add_comm] at this; exact this
example : (3 : Int) ≤ 1009 ∧ (1009 : Int) < radix 1 ∧ (1009 : Int) % 2 = 1 := by decide

/-! ## Depth: histories of operations, `isUnit`, RecInt `inv`/`div` through `inv_mod`, exponentiation, scalar constructors -/

/-- History level, 32-bit ring: ANY sequence of ring / fused / in-place operations (an `RExpr` of any size and shape) on
    Montgomery-form elements, converted out at the end, equals the same sequence on plain residues (reduction mod `p` after
    every step), for every admissible modulus.  Second part: the same with the elements produced by `init` from arbitrary integers. -/
theorem mg32_history_exact (p : Int) (h3 : 3 ≤ p) (hmax : p ≤ maxCard32) (hodd : p % 2 = 1) (e : RExpr) (val : Nat → Int) :
    (∀ env : Nat → Int, (∀ i, IsRep 65536 p (env i) (val i)) →
      IsRep 65536 p (e.eval32 (mk32 p) env) (e.evalZ val) ∧ convert32 (mk32 p) (e.eval32 (mk32 p) env) = e.evalPlain p val) ∧
    convert32 (mk32 p) (e.eval32 (mk32 p) (fun i => initI64 (mk32 p) (val i))) = e.evalPlain p val := by
  have g : Good32 (mk32 p) := mk32_good h3 hmax hodd
  have hp : (mk32 p).p = p := rfl
  have main : ∀ env : Nat → Int, (∀ i, IsRep 65536 p (env i) (val i)) →
      IsRep 65536 p (e.eval32 (mk32 p) env) (e.evalZ val) ∧ convert32 (mk32 p) (e.eval32 (mk32 p) env) = e.evalPlain p val := by
    intro env henv
    have hr : Rep32 (mk32 p) (e.eval32 (mk32 p) env) (e.evalZ val) := eval32_rep g.toAdm32 env val henv e
    refine ⟨hr, ?_⟩
    rw [evalPlain_eq]; exact hp ▸ convert32_rep g.toAdm32 hr
  exact ⟨main, (main _ (fun i => initI64_rep g (val i))).2⟩
example : convert32 (mk32 101) ((RExpr.tern .axmyin (.var 0) (.bin .mulin (.var 1) (.var 0)) (.neg (.var 2))).eval32 (mk32 101)
    (fun i => initI64 (mk32 101) (100 - i))) = (100 * (99 * 100) + 98) % 101 := by decide +kernel

/-- History level, RecInt (`Montgomery<ruint<K>>`; the `add/sub/neg/mul` bodies are those of `rmint<K,MGA>`): any sequence of
    operations on Montgomery-form elements, converted out, equals the same sequence on plain residues — every radix, every modulus. -/
theorem mgR_history_exact (C : MgCtx) (hp0 : 0 < C.p) (hpR : C.p < C.R) (hp1 : (C.p1 * C.p) % C.R = C.R - 1)
    (e : RExpr) (env val : Nat → Int) (henv : ∀ i, IsRep C.R C.p (env i) (val i)) :
    IsRep C.R C.p (e.evalR C env) (e.evalZ val) ∧ convertR C (e.evalR C env) = e.evalPlain C.p val ∧
    getRuintA C (e.evalR C env) = e.evalPlain C.p val := by
  have h : AdmR C := ⟨hp0, hpR, hp1⟩
  have hr := evalR_rep h env val henv e
  have := convertR_rep h hr
  rw [← evalPlain_eq] at this
  exact ⟨hr, this, this⟩

/-- the same with the constants the constructor computes and the elements `init` produces: every level, every odd `3 ≤ p < 2^(2^K)` -/
theorem mgR_history_ring_exact (n : Nat) (p : Int) (hp3 : 3 ≤ p) (hpR : p < radix n) (hodd : p % 2 = 1)
    (e : RExpr) (val : Nat → Int) (hval : ∀ i, 0 ≤ val i ∧ val i < p) :
    convertR (mkR n p) (e.evalR (mkR n p) (fun i => initR (mkR n p) (val i))) = e.evalPlain p val := by
  obtain ⟨_, _, k1, _⟩ := mgR_p1_exact n p (by omega) hpR hodd
  obtain ⟨_, _, _, kr2, _, _, _⟩ := mgR_constants_exact n p (by omega) hpR
  have hp1 : ((mkR n p).p1 * (mkR n p).p) % (mkR n p).R = (mkR n p).R - 1 := k1
  refine (mgR_history_exact (mkR n p) (by show 0 < p; omega) hpR hp1 e _ val (fun i => ?_)).2.1
  have := mgR_init_convert_id (mkR n p) (by show 0 < p; omega) hpR hp1 kr2 (val i) (hval i).1 (hval i).2
  have e2 : initR (mkR n p) (val i) = toMgR (mkR n p) (val i) := by
    unfold initR
    simp only [show ¬ val i < 0 by have := (hval i).1; omega, ↓reduceIte]
    rw [Int.emod_eq_of_lt (hval i).1 (by have := (hval i).2; show val i < radix n; omega),
      Int.emod_eq_of_lt (hval i).1 (show val i < (mkR n p).p from (hval i).2)]
  rw [e2]; exact this.2.1
example : (3 : Int) ≤ 7 ∧ (7 : Int) < radix 0 ∧ (7 : Int) % 2 = 1 := by decide

/-- `isUnit` of the 32-bit ring decides invertibility of the represented residue (both directions; `extended_euclid` returns the gcd) -/
theorem mg32_isUnit_exact (p x a : Int) (h3 : 3 ≤ p) (hmax : p ≤ maxCard32) (hodd : p % 2 = 1) (hx : IsRep 65536 p x a) :
    isUnit32 (mk32 p) x = true ↔ IsCoprime a p := by
  have g : Good32 (mk32 p) := mk32_good h3 hmax hodd
  exact isUnit32_iff g.toAdm32 (F := mk32 p) hx
example : IsRep 65536 9 (initU64 (mk32 9) 3) 3 ∧ isUnit32 (mk32 9) (initU64 (mk32 9) 3) = false ∧
    isUnit32 (mk32 9) (initU64 (mk32 9) 2) = true := by unfold IsRep; decide

/-- `inv_mod(a, b, c)` (ruinvmod.h; the loop with its negation / carry / conditional subtraction): for every `1 < c < R` and every
    `b ≥ 0` invertible modulo `c` the result is the inverse of `b` in `[0, c)`. -/
theorem inv_mod_exact (R c b : Int) (hc1 : 1 < c) (hcR : c < R) (hb0 : 0 ≤ b) (hcop : IsCoprime b c) :
    0 ≤ invMod R b c ∧ invMod R b c < c ∧ (invMod R b c * b) % c = 1 := by
  obtain ⟨t0, t1, t2⟩ := invMod_spec hc1 hcR hb0 hcop
  exact ⟨t0, t1, emod_unique (by decide) hc1 t2⟩
example : invMod 16 3 7 = 5 ∧ IsCoprime (3 : Int) 7 := ⟨by decide, ⟨-2, 1, by decide⟩⟩

/-- `inv`, `div`, `divin` of `Montgomery<ruint<K>>` (`inv_mod` then `mulin` by `r3`): exact for every unit, every radix, every modulus `> 1`. -/
theorem mgR_inv_div_exact (C : MgCtx) (hp1' : 1 < C.p) (hpR : C.p < C.R) (hp1 : (C.p1 * C.p) % C.R = C.R - 1)
    (hr3 : C.r3 = (C.R * C.R * C.R) % C.p) {x y a b : Int} (hx : IsRep C.R C.p x a) (hy : IsRep C.R C.p y b)
    (hu : IsCoprime a C.p) :
    (convertR C (invR C x) * a) % C.p = 1 ∧ (convertR C (divR C y x) * a) % C.p = b % C.p ∧
    (convertR C (divinR C y x) * a) % C.p = b % C.p ∧ isUnitR C x = true := by
  have h : AdmR C := ⟨by omega, hpR, hp1⟩
  obtain ⟨a', ⟨j, hj⟩, rI⟩ := invR_rep h hp1' hr3 hx hu
  have e1 := convertR_rep h rI
  have e2 : convertR C (divR C y x) = (a' * b) % C.p := convertR_rep h (mulR_rep h rI hy)
  have e3 : convertR C (divinR C y x) = (b * a') % C.p := convertR_rep h (mulR_rep h hy rI)
  refine ⟨?_, ?_, ?_, ?_⟩
  · rw [e1, emod_mul_emod']; exact emod_unique (by decide) hp1' ⟨j, hj⟩
  · rw [e2, emod_mul_emod']
    exact (Int.modEq_iff_dvd.mpr ⟨-(b * j), by linear_combination (-b) * hj⟩ : a' * b * a ≡ b [ZMOD C.p])
  · rw [e3, emod_mul_emod']
    exact (Int.modEq_iff_dvd.mpr ⟨-(b * j), by linear_combination (-b) * hj⟩ : b * a' * a ≡ b [ZMOD C.p])
  · unfold isUnitR
    have := (rep_coprime hp1 hx).mpr hu
    simpa using Int.isCoprime_iff_gcd_eq_one.mp this
example : (1 : Int) = (16 * 16 * 16) % 7 ∧ IsRep 16 7 6 3 ∧ IsCoprime (3 : Int) 7 :=
  ⟨by decide, by unfold IsRep; decide, ⟨-2, 1, by decide⟩⟩

/-- `inv` and `div` of `rmint`: the Montgomery variant (`reduction; inv_mod; to_mg`, and `div` with its `ci == 0` test), converted out,
    returns exactly what the non-Montgomery variant returns on the plain residues, and that value is the inverse / the quotient. -/
theorem rmint_inv_div_exact (C : MgCtx) (hp1' : 1 < C.p) (hpR : C.p < C.R) (hp1 : (C.p1 * C.p) % C.R = C.R - 1)
    {x y a b : Int} (hx : IsRep C.R C.p x a) (hy : IsRep C.R C.p y b) (hu : IsCoprime a C.p) :
    getRuintA C (invA C x) = invMod C.R (a % C.p) C.p ∧ (invMod C.R (a % C.p) C.p * a) % C.p = 1 ∧
    getRuintA C (divA C y x) = divI C.R C.p (b % C.p) (a % C.p) ∧ (divI C.R C.p (b % C.p) (a % C.p) * a) % C.p = b % C.p := by
  have h : AdmR C := ⟨by omega, hpR, hp1⟩
  obtain ⟨⟨j, hj⟩, rI, t0, t1⟩ := invA_rep h hp1' hx hu
  have e1 : getRuintA C (invA C x) = invMod C.R (a % C.p) C.p := by
    have := convertR_rep h rI; rwa [Int.emod_eq_of_lt t0 t1] at this
  have hone : (invMod C.R (a % C.p) C.p * a) % C.p = 1 := emod_unique (by decide) hp1' ⟨j, hj⟩
  have tne : invMod C.R (a % C.p) C.p ≠ 0 := by
    intro e; rw [e] at hone; simp at hone
  have cine : invA C x ≠ 0 := by
    intro e
    have := convertR_rep h rI
    have hz : getRuintA C 0 = 0 := by
      have h0 : IsRep C.R C.p 0 0 := ⟨le_refl 0, by omega, by simp⟩
      have : getRuintA C 0 = 0 % C.p := convertR_rep h h0
      simpa using this
    rw [e] at this
    have : invMod C.R (a % C.p) C.p % C.p = 0 := by rw [← this]; exact hz
    rw [Int.emod_eq_of_lt t0 t1] at this; exact tne this
  have e3 : getRuintA C (divA C y x) = (b * invMod C.R (a % C.p) C.p) % C.p := by
    unfold divA; simp only [cine, ↓reduceIte]; exact convertR_rep h (mulR_rep h hy rI)
  have e4 : divI C.R C.p (b % C.p) (a % C.p) = (b * invMod C.R (a % C.p) C.p) % C.p := by
    unfold divI mulI; simp only [tne, ↓reduceIte]; exact emod_mul_emod' _ _ _
  refine ⟨e1, hone, by rw [e3, e4], ?_⟩
  rw [e4, emod_mul_emod']
  exact (Int.modEq_iff_dvd.mpr ⟨-(b * j), by linear_combination (-b) * hj⟩ : b * invMod C.R (a % C.p) C.p * a ≡ b [ZMOD C.p])
example : IsRep 16 7 6 3 ∧ (9 * 7 : Int) % 16 = 16 - 1 := by unfold IsRep; decide

/-- Exponentiation of `rmint<K,MGA>` (rmgexp.h): the windowed loop `exp(a, b, const ruint<K>&)` at every level for EVERY exponent below
    the radix, and the binary loop `exp(a, b, const UDItype&)` for every 64-bit exponent, converted out, return `a^e mod p`, which is also
    what the non-Montgomery `exp_mod` returns (both scanned-bit loops proved through their invariants). -/
theorem rmint_exp_exact (C : MgCtx) (hp1' : 1 < C.p) (hpR : C.p < C.R) (hp1 : (C.p1 * C.p) % C.R = C.R - 1)
    (hr : C.r = C.R % C.p) (n : Nat) {x a : Int} (hx : IsRep C.R C.p x a) (k : Nat) :
    (k < 2 ^ bitsOf n → getRuintA C (expWinA n C x (k : Int)) = rPow C.p a k ∧
      expModI (bitsOf n) C.p (a % C.p) (k : Int) = rPow C.p a k) ∧
    (k < 2 ^ 64 → getRuintA C (expU64A C x (k : Int)) = rPow C.p a k ∧ expModI 64 C.p (a % C.p) (k : Int) = rPow C.p a k) := by
  have h : AdmR C := ⟨by omega, hpR, hp1⟩
  have hplain : ∀ bits : Nat, k < 2 ^ bits → expModI bits C.p (a % C.p) (k : Int) = rPow C.p a k := by
    intro bits hk
    unfold expModI rPow
    rw [expModLoop_eq hp1' bits k 1 _ hk (by decide) hp1', Int.one_mul]
    exact (Int.mod_modEq a C.p).pow k
  exact ⟨fun hk => ⟨convertR_rep h (expWinA_rep h hr n hx k hk), hplain _ hk⟩,
    fun hk => ⟨convertR_rep h (expU64A_rep h hr hx k hk), hplain _ hk⟩⟩
example : getRuintA ⟨16, 7, 9, 2, 4, 1⟩ (expU64A ⟨16, 7, 9, 2, 4, 1⟩ 6 5) = 3 ^ 5 % 7 := by decide

/-- Constructors and overloads taking built-in scalars (as repaired by fixes C07_1 … C07_3): for every scalar of either sign the
    Montgomery variant converted out, the non-Montgomery variant and the plain residue coincide. -/
theorem rmint_scalar_exact (C : MgCtx) (hp1' : 1 < C.p) (hpR : C.p < C.R) (hp1 : (C.p1 * C.p) % C.R = C.R - 1)
    {x a : Int} (hx : IsRep C.R C.p x a) (v : Int) :
    IsRep C.R C.p (ctorSignedA C v) v ∧ getRuintA C (ctorSignedA C v) = v % C.p ∧ ctorSignedI C.R C.p v = v % C.p ∧
    ctorIfromA C x = a % C.p ∧
    getRuintA C (mulScalarA C x v) = (a * v) % C.p ∧ mulScalarI C.R C.p (a % C.p) v = (a * v) % C.p ∧
    (IsCoprime v C.p → getRuintA C (invScalarA C v) = invScalarI C.R C.p v ∧ (invScalarI C.R C.p v * v) % C.p = 1) := by
  have h : AdmR C := ⟨by omega, hpR, hp1⟩
  have rv := ctorSignedA_rep h v
  have ei := ctorSignedI_eq (R := C.R) (p := C.p) (by omega) hpR v
  refine ⟨rv, convertR_rep h rv, ei, ?_, convertR_rep h (mulR_rep h hx rv), ?_, ?_⟩
  · unfold ctorIfromA; rw [show getRuintA C x = a % C.p from convertR_rep h hx]; exact Int.emod_emod_of_dvd _ (dvd_refl _)
  · rw [mulScalarI_eq (by omega) hpR]; exact emod_mul_emod' _ _ _
  · intro hu
    obtain ⟨e1, e2, _, _⟩ := rmint_inv_div_exact C hp1' hpR hp1 rv rv hu
    have : invScalarI C.R C.p v = invMod C.R (v % C.p) C.p := by unfold invScalarI; rw [ei]
    rw [this]; exact ⟨e1, e2⟩
example : ctorSignedI 16 7 (-7) = 0 ∧ ctorSignedI 16 7 (-3) = 4 ∧ getRuintA ⟨16, 7, 9, 2, 4, 1⟩ (ctorSignedA ⟨16, 7, 9, 2, 4, 1⟩ (-3)) = 4 := by decide

/-- All of the above for the contexts the code builds (`rmint<K,MGA>::init_module(p)`, `Montgomery<ruint<K>>(p)`): every level
    `K = 6 + n`, every odd `3 ≤ p < 2^(2^K)`, every residue, every unit, every exponent below `2^(2^K)`. -/
theorem rmint_ring_exact (n : Nat) (p a b : Int) (hp3 : 3 ≤ p) (hpR : p < radix n) (hodd : p % 2 = 1)
    (ha0 : 0 ≤ a) (ha1 : a < p) (hb0 : 0 ≤ b) (hb1 : b < p) (k : Nat) (hk : k < 2 ^ bitsOf n) :
    let D := mkA n p
    let C := mkR n p
    getRuintA D (expWinA n D (toMgA D a) (k : Int)) = rPow p a k ∧ expModI (bitsOf n) p a (k : Int) = rPow p a k ∧
    (IsCoprime a p →
      getRuintA D (invA D (toMgA D a)) = invMod (radix n) a p ∧ (invMod (radix n) a p * a) % p = 1 ∧
      getRuintA D (divA D (toMgA D b) (toMgA D a)) = divI (radix n) p b a ∧ (divI (radix n) p b a * a) % p = b ∧
      (convertR C (invR C (initR C a)) * a) % p = 1 ∧ (convertR C (divR C (initR C b) (initR C a)) * a) % p = b) := by
  intro D C
  obtain ⟨_, _, k1, k2⟩ := mgR_p1_exact n p (by omega) hpR hodd
  obtain ⟨_, _, kr, kr2, kr3, krA, _⟩ := mgR_constants_exact n p (by omega) hpR
  have hD1 : (D.p1 * D.p) % D.R = D.R - 1 := by
    show ((mkA n p).p1 * p) % radix n = radix n - 1
    rw [k2]; exact k1
  have hC1 : (C.p1 * C.p) % C.R = C.R - 1 := k1
  have hD : AdmR D := ⟨by show 0 < p; omega, hpR, hD1⟩
  have dA := toMgA_rep hD a
  have dB := toMgA_rep hD b
  have eap : a % p = a := Int.emod_eq_of_lt ha0 ha1
  have ebp : b % p = b := Int.emod_eq_of_lt hb0 hb1
  obtain ⟨x1, x2⟩ := (rmint_exp_exact D (by show 1 < p; omega) hpR hD1 krA n dA k).1 hk
  have x2' : expModI (bitsOf n) p a (k : Int) = rPow p a k := by
    have : expModI (bitsOf n) D.p (a % D.p) (k : Int) = rPow D.p a k := x2
    rwa [show a % D.p = a from eap] at this
  refine ⟨x1, x2', fun hu => ?_⟩
  obtain ⟨i1, i2, i3, i4⟩ := rmint_inv_div_exact D (by show 1 < p; omega) hpR hD1 dA dB hu
  have iA := mgR_init_convert_id C (by show 0 < p; omega) hpR hC1 kr2 a ha0 ha1
  have iB := mgR_init_convert_id C (by show 0 < p; omega) hpR hC1 kr2 b hb0 hb1
  have eA : initR C a = toMgR C a := by
    unfold initR; simp only [show ¬ a < 0 by omega, ↓reduceIte]
    rw [Int.emod_eq_of_lt ha0 (show a < C.R by show a < radix n; omega), Int.emod_eq_of_lt ha0 (show a < C.p from ha1)]
  have eB : initR C b = toMgR C b := by
    unfold initR; simp only [show ¬ b < 0 by omega, ↓reduceIte]
    rw [Int.emod_eq_of_lt hb0 (show b < C.R by show b < radix n; omega), Int.emod_eq_of_lt hb0 (show b < C.p from hb1)]
  obtain ⟨j1, j2, _, _⟩ := mgR_inv_div_exact C (by show 1 < p; omega) hpR hC1 kr3 (eA ▸ iA.2.1) (eB ▸ iB.2.1) hu
  have i1' : getRuintA D (invA D (toMgA D a)) = invMod (radix n) a p := by
    have : getRuintA D (invA D (toMgA D a)) = invMod D.R (a % D.p) D.p := i1
    rwa [show a % D.p = a from eap] at this
  have i2' : (invMod (radix n) a p * a) % p = 1 := by
    have : (invMod D.R (a % D.p) D.p * a) % D.p = 1 := i2
    rwa [show a % D.p = a from eap] at this
  have i3' : getRuintA D (divA D (toMgA D b) (toMgA D a)) = divI (radix n) p b a := by
    have : getRuintA D (divA D (toMgA D b) (toMgA D a)) = divI D.R D.p (b % D.p) (a % D.p) := i3
    rwa [show a % D.p = a from eap, show b % D.p = b from ebp] at this
  have i4' : (divI (radix n) p b a * a) % p = b := by
    have : (divI D.R D.p (b % D.p) (a % D.p) * a) % D.p = b % D.p := i4
    rwa [show a % D.p = a from eap, show b % D.p = b from ebp] at this
  exact ⟨i1', i2', i3', i4', j1, by have : _ = b % C.p := j2; rwa [show b % C.p = b from ebp] at this⟩
example : (3 : Int) ≤ 1009 ∧ (1009 : Int) < radix 0 ∧ (1009 : Int) % 2 = 1 ∧ IsCoprime (5 : Int) 1009 :=
  ⟨by decide, by decide, by decide, ⟨202, -1, by decide⟩⟩

/-- `isUnit` of `Montgomery<ruint<K>>` (`gcd(d, a, p); d == 1`, the `ruint` gcd taken through its contract `Int.gcd`) decides
    invertibility of the represented residue. -/
theorem mgR_isUnit_exact (C : MgCtx) (hp1 : (C.p1 * C.p) % C.R = C.R - 1) {x a : Int} (hx : IsRep C.R C.p x a) :
    isUnitR C x = true ↔ IsCoprime a C.p := by
  rw [← rep_coprime hp1 hx, Int.isCoprime_iff_gcd_eq_one]
  unfold isUnitR; simp

/-- `init` of `Montgomery<ruint<K>>` from a signed source (`reduce(|a|); if (a < 0) negin; to_mg`): the canonical map for every
    `|v| < R` of either sign. -/
theorem mgR_init_signed_exact (C : MgCtx) (hp0 : 0 < C.p) (hpR : C.p < C.R) (hp1 : (C.p1 * C.p) % C.R = C.R - 1)
    (hr2 : C.r2 = (C.R * C.R) % C.p) (v : Int) (hv0 : -C.R < v) (hv1 : v < C.R) :
    IsRep C.R C.p (initR C v) v ∧ convertR C (initR C v) = v % C.p := by
  have h : AdmR C := ⟨hp0, hpR, hp1⟩
  have key : ∀ w : Int, 0 ≤ w → w < C.p → IsRep C.R C.p (toMgR C w) w :=
    fun w w0 w1 => (mgR_init_convert_id C hp0 hpR hp1 hr2 w w0 w1).2.1
  have hrep : IsRep C.R C.p (initR C v) v := by
    unfold initR
    simp only
    by_cases hv : v < 0
    · simp only [hv, ↓reduceIte]
      rw [Int.emod_eq_of_lt (show 0 ≤ -v by omega) (show -v < C.R by omega)]
      have m0 := Int.emod_nonneg (-v) (show C.p ≠ 0 by omega)
      have m1 := Int.emod_lt_of_pos (-v) hp0
      have hd := Int.emod_add_mul_ediv (-v) C.p
      rw [negR_val hp0 hpR m0 m1]
      split
      · rename_i hz
        exact rep_congr_val (key 0 (le_refl 0) hp0) ⟨(-v) / C.p, by rw [hz] at hd; linear_combination -hd⟩
      · exact rep_congr_val (key _ (by omega) (by omega)) ⟨1 + (-v) / C.p, by linear_combination -hd⟩
    · simp only [hv, ↓reduceIte]
      rw [Int.emod_eq_of_lt (show 0 ≤ v by omega) hv1]
      have hd := Int.emod_add_mul_ediv v C.p
      exact rep_congr_val (key _ (Int.emod_nonneg _ (by omega)) (Int.emod_lt_of_pos _ hp0)) ⟨-(v / C.p), by linear_combination hd⟩
  exact ⟨hrep, convertR_rep h hrep⟩
example : convertR ⟨16, 7, 9, 2, 4, 1⟩ (initR ⟨16, 7, 9, 2, 4, 1⟩ (-3)) = 4 ∧ (-16 : Int) < -3 := by decide

/-! ## Sources of every magnitude: construction / assignment / conversion of both `rmint` variants, `init` from an `Integer` -/

/-- Construction (and assignment, which goes through the same converting constructor) of `rmint<K,MG_ACTIVE>` and
    `rmint<K,MG_INACTIVE>` from EVERY value `c` of `ruint<K>` (`0 ≤ c < R`, not only reduced ones), from EVERY value of `rint<K>`
    (the word `c` read in two's complement: both signs, the minimum `-R/2` included), from EVERY machine integer `v` (any `v ∈ Z`
    covers every signed and unsigned type of any width, their minima included) and from EVERY big integer through `mpz_to_rmint`:
    the Montgomery variant converted out, the non-Montgomery variant and the canonical residue coincide. -/
theorem rmint_init_from_recint_exact (C : MgCtx) (hp0 : 0 < C.p) (hpR : C.p < C.R) (hp1 : (C.p1 * C.p) % C.R = C.R - 1)
    (c v : Int) (hc0 : 0 ≤ c) (hc1 : c < C.R) :
    -- from ruint<K>
    getRuintA C (ctorRuintA C c) = c % C.p ∧ ctorRuintI C.p c = c % C.p ∧
    -- from rint<K>
    getRuintA C (ctorRintA C c) = sval C.R c % C.p ∧ ctorRintI C.R C.p c = sval C.R c % C.p ∧
    -- from signed / unsigned machine integers
    getRuintA C (ctorSignedA C v) = v % C.p ∧ ctorSignedI C.R C.p v = v % C.p ∧ getRuintA C (toMgA C v) = v % C.p ∧
    -- from a big integer
    getRuintA C (mpzToA C v) = v % C.p ∧ mpzToI C.p v = v % C.p ∧
    -- every result of the non-Montgomery variant is canonical, every raw value of the Montgomery one is a Montgomery form
    0 ≤ ctorRuintI C.p c ∧ ctorRuintI C.p c < C.p ∧ IsRep C.R C.p (ctorRuintA C c) c ∧ IsRep C.R C.p (ctorRintA C c) (sval C.R c) := by
  have h : AdmR C := ⟨hp0, hpR, hp1⟩
  have r1 : IsRep C.R C.p (ctorRuintA C c) c := toMgA_rep h c
  have r2 := ctorRintA_rep h hc0 hc1
  have r3 := ctorSignedA_rep h v
  have r4 : IsRep C.R C.p (mpzToA C v) (v % C.p) := toMgA_rep h _
  refine ⟨convertR_rep h r1, rfl, convertR_rep h r2, ctorRintI_eq hp0 hpR hc0 hc1, convertR_rep h r3,
    ctorSignedI_eq hp0 hpR v, convertR_rep h (toMgA_rep h v), ?_, ?_, Int.emod_nonneg _ (by omega), Int.emod_lt_of_pos _ hp0, r1, r2⟩
  · rw [show getRuintA C (mpzToA C v) = v % C.p % C.p from convertR_rep h r4]; exact Int.emod_emod_of_dvd _ (dvd_refl _)
  · unfold mpzToI; exact Int.emod_emod_of_dvd _ (dvd_refl _)
example : ctorRuintI 101 203 = 1 ∧ getRuintA (mkA 0 101) (ctorRuintA (mkA 0 101) 203) = 1 ∧
    ctorRintI (radix 0) 101 (radix 0 - 1003) = 7 ∧ getRuintA (mkA 0 101) (ctorRintA (mkA 0 101) (radix 0 - 1003)) = 7 ∧
    ctorSignedI (radix 0) 101 (-2147483648) = 67 ∧ sval (radix 0) (radix 0 - 1003) = -1003 := by decide

/-- `==` of an `rmint` with a built-in scalar (as repaired by fix C07_7): both variants answer "the residues are equal". -/
theorem rmint_eq_scalar_exact (C : MgCtx) (hp0 : 0 < C.p) (hpR : C.p < C.R) (hp1 : (C.p1 * C.p) % C.R = C.R - 1)
    (a b : Int) (ha0 : 0 ≤ a) (ha1 : a < C.p) :
    (eqScalarA C (toMgA C a) b = true ↔ a = b % C.p) ∧ (eqScalarI C.R C.p a b = true ↔ a = b % C.p) := by
  have h : AdmR C := ⟨hp0, hpR, hp1⟩
  have rA := toMgA_rep h a
  have rB := ctorSignedA_rep h b
  have hd := Int.emod_add_mul_ediv b C.p
  constructor
  · unfold eqScalarA
    simp only [decide_eq_true_eq]
    constructor
    · intro e
      have e1 := convertR_rep h rA
      have e2 := convertR_rep h rB
      rw [← e, e1, Int.emod_eq_of_lt ha0 ha1] at e2; exact e2
    · intro e
      exact rep_unique rA rB ⟨-(b / C.p), by rw [e]; linear_combination hd⟩
  · unfold eqScalarI
    simp only [decide_eq_true_eq]
    rw [ctorSignedI_eq hp0 hpR]
example : eqScalarI 16 7 1 (-6) = true ∧ eqScalarA ⟨16, 7, 9, 2, 4, 1⟩ (toMgA ⟨16, 7, 9, 2, 4, 1⟩ 1) (-6) = true := by decide

/-- `Montgomery<ruint<K>>::init(Element&, const Integer&)` (as repaired by fix C07_6: remainder over Z first) is the canonical map
    for EVERY integer, of any magnitude and sign; floating sources take the same path. -/
theorem mgR_init_Z_exact (C : MgCtx) (hp0 : 0 < C.p) (hpR : C.p < C.R) (hp1 : (C.p1 * C.p) % C.R = C.R - 1)
    (hr2 : C.r2 = (C.R * C.R) % C.p) (v : Int) :
    IsRep C.R C.p (initZ C v) v ∧ convertR C (initZ C v) = v % C.p := by
  have h : AdmR C := ⟨hp0, hpR, hp1⟩
  have m0 := Int.emod_nonneg v (show C.p ≠ 0 by omega)
  have m1 := Int.emod_lt_of_pos v hp0
  have hd := Int.emod_add_mul_ediv v C.p
  have r0 := (mgR_init_convert_id C hp0 hpR hp1 hr2 (v % C.p) m0 m1).2.1
  have r : IsRep C.R C.p (initZ C v) v := rep_congr_val r0 ⟨-(v / C.p), by linear_combination hd⟩
  exact ⟨r, convertR_rep h r⟩
example : convertR ⟨16, 7, 9, 2, 4, 1⟩ (initZ ⟨16, 7, 9, 2, 4, 1⟩ (-1000003)) = (-1000003) % 7 := by decide

end Givaro.Props.C07
