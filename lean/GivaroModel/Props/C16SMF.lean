/-
C16 (tie T, second table) — the special member functions of the ring / field / polynomial-domain classes.

`Generated/SMFDomains.lean` is regenerated on every run of the check from the clang AST of a translation unit that uses every copy /
move operation of every domain class instantiation of the C16/C18 zoo (translate/gen_smf_domains.py, the extractor of C14's table
pointed at `Modular_implem<…>`, `Modular<Log16>`, `ModularBalanced<…>`, `ModularExtended<…>`, `Montgomery<…>`, `GFqDom<…>`,
`GFqExtFast/GFqExt/GFqKronecker`, `Extension<…>`, `Poly1Dom<…>`, `Poly1FactorDom<…>`, `QField<Rational>`): per instantiation, per
copy operation, per data member, the members of the *source* object read to initialise / assign it, and whether that copy sits
under a condition other than the self-assignment guard `this != &src`.

"The result of an operation is unaffected by whether the object is the original, a copy-constructed copy or the target of an
assignment" needs the copy to carry the whole state.  The theorem is a kernel evaluation over the whole table, with NO hand-written
list of state members on this side: every data member of every domain class is copied, unconditionally, from the same member of the
source by every copy operation the class offers.  The only members excused are the three constants `zero`, `one`, `mOne`: several
classes declare them `const` and re-derive them (constructor: from the already copied members; assignment: through
`assign(const_cast<Element&>(one), F.one)`, which the extractor does not follow) -- their values are functions of the other members,
and C04's `constants_after_assign` plus the history harness compare them on every run.

Found by this table on the pinned tree: `GFqExtFast::operator=` copied neither `_pceil` nor `_MODOUT` nor `_irred` (fix C16_5; the
history harness then reproduced it as a crash after `A = B`).
-/
import GivaroModel.Generated.SMFDomains
namespace Givaro.Props.C16SMF
open Givaro.Gen.SMFDomains

/-- the operation is not offered by the class (never declared, deleted, or an implicit one the class cannot have) -/
def notOffered (r : Row) : Bool := r.how == "absent" || r.how == "deleted" || r.how == "implicit-unused-or-deleted"

def copyOp (r : Row) : Bool := r.op == "copy-ctor" || r.op == "copy-assign"

/-- constants whose value is a function of the other members -/
def derivedConstant (m : String) : Bool := m == "zero" || m == "one" || m == "mOne"

/-- every copy operation a domain class offers has a body the translator could read, and copies every data member, unconditionally,
    from the same member of the source -/
theorem domain_copies_memberwise_complete :
    ∀ r ∈ rows, copyOp r = true → notOffered r = false →
      (r.how = "user" ∨ r.how = "implicit") ∧ r.conditional = false ∧
      (derivedConstant r.member = true ∨ r.sources = [r.member]) := by
  decide +kernel

/-- a move operation that exists copies/moves every member as well (classes with user-written copies mostly have none) -/
theorem domain_moves_memberwise_complete :
    ∀ r ∈ rows, copyOp r = false → notOffered r = false →
      (r.how = "user" ∨ r.how = "implicit") ∧ (derivedConstant r.member = true ∨ r.sources = [r.member]) := by
  decide +kernel

/-- non-vacuity: every domain class of the zoo is in the table, offers a copy constructor, and user-written copy operations occur -/
theorem smf_domains_table_covers_zoo :
    (∀ c ∈ ["Modular_implem", "Modular", "ModularBalanced", "ModularExtended", "Montgomery", "GFqDom", "GFqExtFast", "Extension",
            "Poly1Dom", "Poly1FactorDom", "QField"],
      ∃ r ∈ rows, r.cls = c ∧ r.op = "copy-ctor" ∧ notOffered r = false) ∧
    (∃ r ∈ rows, r.op = "copy-assign" ∧ r.how = "user" ∧ r.sources = [r.member]) := by
  decide +kernel

example : rows.length > 400 := by decide +kernel

end Givaro.Props.C16SMF
