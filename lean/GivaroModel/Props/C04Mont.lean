/-
C04 (round 2) — init / convert of the Montgomery rings implement the canonical map Z → Z/p for every source type.

Model: `Model/ModInitMont.lean` (one function per overload that resolution selects; `Montgomery<int32_t>`: the template for
8/16/32-bit integers and `float`, the `double`, `int64_t`, `uint64_t`, `Integer` overloads; `Montgomery<ruint<K>>`: the three
`_init` bodies and the `Integer` overload) on the ring objects *the constructors compute* (`mk32 p`, `mkR n p`).
Every theorem is for every admissible odd modulus and EVERY value of the source type.
-/
import GivaroModel.Lemmas.ModInitMont
namespace Givaro.Props.C04Mont
open Givaro Givaro.Model.Montgomery Givaro.Model.MontInit Givaro.Spec.Montgomery Givaro.Lemmas.Montgomery
  Givaro.Lemmas.MontInit

/-! ## Montgomery<int32_t> -/

/-- **init is the canonical map, for every source type.**  For every odd `3 ≤ p ≤ 40503`, every source type and every value
    `a` of it (`int8_t … uint64_t` with their minima and maxima, `Integer` of any size and sign, every integer-valued
    `double`; `float` within the documented contract of the template, `|a| < 2^32`): the stored word is a canonical
    Montgomery representation (`< p`, the representation of `a`), and `convert` returns `a mod p ∈ [0, p)`. -/
theorem mont32_init_canonical (p : Int) (h3 : 3 ≤ p) (hmax : p ≤ maxCard32) (hodd : p % 2 = 1)
    (s : Src) (a : Int) (ha : s.holds a) (hf : s = .f32 → -4294967296 < a ∧ a < 4294967296) :
    let F := mk32 p
    IsRep 65536 p (init32 F s a) a ∧ convert32 F (init32 F s a) = a % p ∧
    0 ≤ convert32 F (init32 F s a) ∧ convert32 F (init32 F s a) < p := by
  intro F
  have g : Good32 F := mk32_good h3 hmax hodd
  have hp : F.p = p := rfl
  have r := init32_rep g s a ha hf
  have c : convert32 F (init32 F s a) = a % p := hp ▸ convert32_rep g.toAdm32 r
  refine ⟨hp ▸ r, c, ?_, ?_⟩
  · rw [c]; exact Int.emod_nonneg _ (by omega)
  · rw [c]; exact Int.emod_lt_of_pos _ (by omega)
example : Src.s32.holds (-2147483648) ∧ convert32 (mk32 40503) (init32 (mk32 40503) .s32 (-2147483648)) = (-2147483648) % 40503 := by
  unfold Src.holds; decide
example : convert32 (mk32 101) (init32 (mk32 101) .u64 18446744073709551615) = 18446744073709551615 % 101 := by decide
example : convert32 (mk32 101) (init32 (mk32 101) .s64 (-9223372036854775808)) = (-9223372036854775808) % 101 := by decide

/-- **init ∘ convert = id**: for every stored element `e < p` and every source type that holds its lift,
    `init(convert(e)) = e` (the same word, not merely the same residue). -/
theorem mont32_init_convert (p : Int) (h3 : 3 ≤ p) (hmax : p ≤ maxCard32) (hodd : p % 2 = 1)
    (s : Src) (e : Int) (he0 : 0 ≤ e) (he1 : e < p) (hs : s.holds (convert32 (mk32 p) e)) :
    init32 (mk32 p) s (convert32 (mk32 p) e) = e := by
  have g : Good32 (mk32 p) := mk32_good h3 hmax hodd
  have hp : (mk32 p).p = p := rfl
  have hb : e ≤ ((mk32 p).p - 1) * ((mk32 p).p - 1) := by rw [hp]; nlinarith
  have hc : convert32 (mk32 p) e = redcPure 65536 p (mk32 p).nim e := by
    unfold convert32; rw [redc_eq_pure g.toAdm32 he0 hb]; rfl
  obtain ⟨c0, c1, cd⟩ := redcPure_spec (B := 65536) (by decide) (show 0 < p by omega) (hp ▸ g.nimp) he0 (show e < p * 65536 by omega)
  have hf : s = .f32 → -4294967296 < convert32 (mk32 p) e ∧ convert32 (mk32 p) e < 4294967296 := by
    intro _; rw [hc]; unfold maxCard32 at hmax; omega
  have r1 := init32_rep g s _ hs hf
  have r2 : Rep32 (mk32 p) e (convert32 (mk32 p) e) := by
    rw [hc]
    refine isRep_iff.mpr ⟨he0, by rw [hp]; exact he1, ?_⟩
    rw [hp]
    obtain ⟨k, hk⟩ := cd
    exact ⟨-k, by linear_combination -hk⟩
  exact rep32_unique g r1 r2
example : Src.u16.holds (convert32 (mk32 40503) 40502) ∧ init32 (mk32 40503) .u16 (convert32 (mk32 40503) 40502) = 40502 := by
  unfold Src.holds; decide

/-- `init(x)` with no source, `zero`, `one`, `mOne` convert to `0, 1, p - 1`; `reduce` maps every 32-bit word to a canonical word. -/
theorem mont32_constants_are_images (p : Int) (h3 : 3 ≤ p) (hmax : p ≤ maxCard32) (hodd : p % 2 = 1) :
    let F := mk32 p
    convert32 F init0 = 0 ∧ convert32 F F.one = 1 ∧ convert32 F F.mOne = p - 1 ∧
    F.one = init32 F .s8 1 ∧ F.mOne = init32 F .s8 (-1) ∧
    ∀ y, 0 ≤ reduce32 F y ∧ reduce32 F y < p ∧ (0 ≤ y → y < p → reduce32 F y = y) := by
  intro F
  have g : Good32 F := mk32_good h3 hmax hodd
  have hp : F.p = p := rfl
  obtain ⟨_, _, _, _, _, _, k1, km⟩ := Givaro.Props.C07.constants_exact p h3 hmax hodd
  have z : Rep32 F init0 0 := by
    refine isRep_iff.mpr ⟨Int.le_refl _, by rw [hp]; unfold init0; omega, ⟨0, by unfold init0; ring⟩⟩
  have c0 : convert32 F init0 = 0 := by have := convert32_rep g.toAdm32 z; simpa using this
  have c1 : convert32 F F.one = 1 := by
    have := convert32_rep g.toAdm32 (k1 : Rep32 F F.one 1)
    rw [this, hp]; exact Int.emod_eq_of_lt (a := 1) (b := p) (by omega) (by omega)
  have cm : convert32 F F.mOne = p - 1 := by
    have := convert32_rep g.toAdm32 (km : Rep32 F F.mOne (-1))
    rw [this, hp]
    have e : (-1 : Int) % p = (p - 1) % p := by
      rw [show (p - 1 : Int) = -1 + p * 1 by ring, Int.add_mul_emod_self_left]
    rw [e]; exact Int.emod_eq_of_lt (a := p - 1) (b := p) (by omega) (by omega)
  have i1 := init32_rep g .s8 1 (by unfold Src.holds; omega) (by intro h; cases h)
  have im := init32_rep g .s8 (-1) (by unfold Src.holds; omega) (by intro h; cases h)
  refine ⟨c0, c1, cm, rep32_unique g (k1 : Rep32 F F.one 1) i1, rep32_unique g (km : Rep32 F F.mOne (-1)) im, fun y => ?_⟩
  unfold reduce32
  rw [hp]
  exact ⟨Int.emod_nonneg _ (by omega), Int.emod_lt_of_pos _ (by omega), fun y0 y1 => Int.emod_eq_of_lt y0 y1⟩
example : convert32 (mk32 40503) (mk32 40503).mOne = 40502 := by decide

/-! ## Montgomery<ruint<K>>, K = 6 + n -/

/-- the ring object the constructor computes is good, for every level and every odd modulus below the radix -/
theorem mkR_good (n : Nat) (p : Int) (h3 : 3 ≤ p) (hpR : p < radix n) (hodd : p % 2 = 1) : GoodR (mkR n p) :=
  mkR_goodAux n p h3 hpR hodd
example : (3 : Int) ≤ 1009 ∧ (1009 : Int) < radix 0 ∧ (1009 : Int) % 2 = 1 := by decide

/-- **init is the canonical map, for every source type**: every level `K = 6 + n`, every odd `3 ≤ p < 2^(2^K)`, every
    machine-integer value (minima and maxima included), every `Integer`, every finite integer-valued floating value. -/
theorem montR_init_canonical (n : Nat) (p : Int) (h3 : 3 ≤ p) (hpR : p < radix n) (hodd : p % 2 = 1)
    (s : Src) (a : Int) (ha : s.holds a) :
    let C := mkR n p
    IsRep (radix n) p (initRSrc C s a) a ∧ convertR C (initRSrc C s a) = a % p ∧
    0 ≤ convertR C (initRSrc C s a) ∧ convertR C (initRSrc C s a) < p := by
  intro C
  have g : GoodR C := mkR_good n p h3 hpR hodd
  have hp : C.p = p := rfl
  have hR : C.R = radix n := rfl
  have r : IsRep C.R C.p (initRSrc C s a) a := by
    by_cases hs : s ≠ .f32 ∧ s ≠ .f64 ∧ s ≠ .Z
    · have hb := src_lt_radix n s a ha hs
      have : initRSrc C s a = initR C a := by
        obtain ⟨h1, h2, h3⟩ := hs
        cases s <;> first | rfl | contradiction
      rw [this]; exact initR_rep g a (hR ▸ hb)
    · have : initRSrc C s a = initZ C a := by
        cases s <;> first | rfl | (exfalso; exact hs ⟨by decide, by decide, by decide⟩)
      rw [this]; exact initZ_rep g a
  have c : convertR C (initRSrc C s a) = a % p := hp ▸ convertR_rep g.toAdmR r
  refine ⟨hR ▸ hp ▸ r, c, ?_, ?_⟩
  · rw [c]; exact Int.emod_nonneg _ (by omega)
  · rw [c]; exact Int.emod_lt_of_pos _ (by omega)
example : convertR (mkR 0 1009) (initRSrc (mkR 0 1009) .s64 (-9223372036854775808)) = (-9223372036854775808) % 1009 := by decide

/-- **init ∘ convert = id** on stored elements, for every source type that holds the lift -/
theorem montR_init_convert (n : Nat) (p : Int) (h3 : 3 ≤ p) (hpR : p < radix n) (hodd : p % 2 = 1)
    (s : Src) (e : Int) (he0 : 0 ≤ e) (he1 : e < p) (hs : s.holds (convertR (mkR n p) e)) :
    initRSrc (mkR n p) s (convertR (mkR n p) e) = e := by
  have g : GoodR (mkR n p) := mkR_good n p h3 hpR hodd
  have hp : (mkR n p).p = p := rfl
  have hR : (mkR n p).R = radix n := rfl
  have hRpos := radix_pos n
  have hlt : e < (mkR n p).p * (mkR n p).R := by rw [hp, hR]; nlinarith
  have hc : convertR (mkR n p) e = redcPure (radix n) p (mkR n p).p1 e := by
    unfold convertR; rw [mgReduc_eq_pure g.toAdmR he0 hlt]; rfl
  obtain ⟨c0, c1, cd⟩ := redcPure_spec (B := radix n) hRpos (show 0 < p by omega) (hR ▸ hp ▸ g.p1p) he0 (hR ▸ hp ▸ hlt)
  have r1 := (montR_init_canonical n p h3 hpR hodd s _ hs).1
  have r2 : IsRep (radix n) p e (convertR (mkR n p) e) := by
    rw [hc]
    refine isRep_iff.mpr ⟨he0, he1, ?_⟩
    obtain ⟨k, hk⟩ := cd
    exact ⟨-k, by linear_combination -hk⟩
  exact repR_unique (C := mkR n p) r1 r2
example : initRSrc (mkR 0 1009) .u16 (convertR (mkR 0 1009) 1008) = 1008 := by decide

end Givaro.Props.C04Mont
