/-
C03 — modular rings are exact for every modulus up to the advertised maximum.

Every theorem is about the executable model of the code (`Model/ModRing.lean`, tied to /repo by the
correspondence of `checks/c03.py`), quantifies over *every* modulus `minCardinality ≤ p ≤ maxCardinality`
of every instantiated configuration and over all canonical operands, and states that the model's
result is the canonical representative of the exact integer result (`Spec/ModRingSpec.lean`).
The in-place forms are the same model functions with the destination as an operand
(`axpyin(r,a,x) = axpy a x r`, … — see `Driver/ModRing.lean`), so they are covered by the same theorems.
-/
import GivaroModel.Lemmas.ModRingFloat
namespace Givaro.Props.C03
open Givaro.Model.ModRing Givaro.Spec.ModRing

/-! ## the specification's canonical maps land in the canonical ranges -/

theorem canonU_isCanon (m x : Int) (hm : 0 < m) : isCanonU m (canonU m x) := by
  unfold isCanonU canonU
  exact ⟨Int.emod_nonneg _ (by omega), Int.emod_lt_of_pos _ hm⟩
example : isCanonU 7 (canonU 7 (-3)) := canonU_isCanon 7 (-3) (by decide)

theorem canonB_isCanon (m x : Int) (hm : 0 < m) : isCanonB m (canonB m x) :=
  Givaro.Model.ModRing.canonB_isCanon m x hm
example : isCanonB 6 (canonB 6 3) := canonB_isCanon 6 3 (by decide)

/-- the canonical representative is congruent to the exact value -/
theorem canonU_congr (m x : Int) : (canonU m x - x) % m = 0 := by
  unfold canonU
  have h := Int.emod_add_mul_ediv x m
  have : x % m - x = m * (-(x / m)) := by linarith
  rw [this]; exact Int.mul_emod_right _ _

theorem canonB_congr (m x : Int) : (canonB m x - x) % m = 0 := by
  unfold canonB
  have h := Int.emod_add_mul_ediv x m
  split
  · have : x % m - m - x = m * (-(x / m) - 1) := by linarith
    rw [this]; exact Int.mul_emod_right _ _
  · have : x % m - x = m * (-(x / m)) := by linarith
    rw [this]; exact Int.mul_emod_right _ _

/-! ## (a) `Modular<Storage_t,Compute_t>` over machine integers — all 16 instantiated configurations -/

section integral
variable (k : ICfg) (hv : k.valid) (p a b c : Int) (hp : 2 ≤ p) (hm : p ≤ k.maxCard)
include hv hp hm

/-- add / addin (`GenericAdd`, including the unsigned wrap-around test at `p` close to `2^N`) -/
theorem integral_add_exact (ha : isCanonU p a) (hb : isCanonU p b) : k.add p a b = canonU p (a + b) := by
  obtain ⟨s, sg, c⟩ := k
  simp only [ICfg.valid] at hv
  unfold isCanonU at ha hb
  unfold canonU
  have e : (a + b) % p = if a + b < p then a + b else a + b - p := by
    split
    · exact Int.emod_eq_of_lt (by omega) (by omega)
    · rw [← Int.sub_emod_right]; exact Int.emod_eq_of_lt (by omega) (by omega)
  rw [e]
  rcases hv with ⟨h1 | h1 | h1 | h1, h2 | h2⟩ <;> subst h1 <;> subst h2 <;> cases sg <;>
    simp only [ICfg.add, ICfg.toE, ICfg.toR, ICfg.arE, ICfg.arU, ICfg.maxCard, wrapUw, wrapSw] at * <;>
    norm_num at * <;> (repeat' split) <;> omega

/-- sub / subin -/
theorem integral_sub_exact (ha : isCanonU p a) (hb : isCanonU p b) : k.sub p a b = canonU p (a - b) := by
  obtain ⟨s, sg, c⟩ := k
  simp only [ICfg.valid] at hv
  unfold isCanonU at ha hb
  unfold canonU
  have e : (a - b) % p = if a < b then a - b + p else a - b := by
    split
    · rw [← Int.add_emod_right]; exact Int.emod_eq_of_lt (by omega) (by omega)
    · exact Int.emod_eq_of_lt (by omega) (by omega)
  rw [e]
  rcases hv with ⟨h1 | h1 | h1 | h1, h2 | h2⟩ <;> subst h1 <;> subst h2 <;> cases sg <;>
    simp only [ICfg.sub, ICfg.toE, ICfg.arE, ICfg.maxCard, wrapUw, wrapSw] at * <;>
    norm_num at * <;> (repeat' split) <;> omega

/-- neg / negin -/
theorem integral_neg_exact (ha : isCanonU p a) : k.neg p a = canonU p (-a) :=
  neg_model (iok_of_valid k hv p hp hm) hp ha

/-- mul / mulin: the product never leaves `Compute_t` (nor `int` for the promoted 8/16-bit types) -/
theorem integral_mul_exact (ha : isCanonU p a) (hb : isCanonU p b) : k.mul p a b = canonU p (a * b) :=
  mul_model (iok_of_valid k hv p hp hm) hp ha hb

/-- axpy / axpyin -/
theorem integral_axpy_exact (ha : isCanonU p a) (hb : isCanonU p b) (hc : isCanonU p c) :
    k.axpy p a b c = canonU p (a * b + c) :=
  axpy_model (iok_of_valid k hv p hp hm) hp ha hb hc

/-- axmy / axmyin -/
theorem integral_axmy_exact (ha : isCanonU p a) (hb : isCanonU p b) (hc : isCanonU p c) :
    k.axmy p a b c = canonU p (a * b - c) :=
  axmy_model (iok_of_valid k hv p hp hm) hp ha hb hc

/-- maxpy / maxpyin -/
theorem integral_maxpy_exact (ha : isCanonU p a) (hb : isCanonU p b) (hc : isCanonU p c) :
    k.maxpy p a b c = canonU p (c - a * b) :=
  maxpy_model (iok_of_valid k hv p hp hm) hp ha hb hc

theorem eok_of_valid : EOk k (k.toE p) := by
  have ok := iok_of_valid k hv p hp hm
  rw [ok.toE_id p (by omega) (Int.le_refl _)]
  exact ⟨ok.toE_id, ok.arE_id⟩

/-- the shared `extended_euclid` (unsigned cofactors + `neg` flag) on `(a, p)`: no cofactor ever exceeds
    `p` (so nothing wraps in `Storage_t`), `d = gcd(a,p)`, `0 ≤ x < p` and `x·a ≡ d (mod p)` -/
theorem integral_euclid_exact (ha : isCanonU p a) :
    (k.euclid a (k.toE p)).2 = (Int.gcd a p : Int) ∧ isCanonU p (k.euclid a (k.toE p)).1
      ∧ p ∣ (k.euclid a (k.toE p)).1 * a - (Int.gcd a p : Int) := by
  have ok := iok_of_valid k hv p hp hm
  have eok := eok_of_valid k hv p hp hm
  have hE : k.toE p = p := ok.toE_id p (by omega) (Int.le_refl _)
  rw [hE] at eok ⊢
  obtain ⟨h1, h2, h3, h4⟩ := euclid_spec eok ha hp
  rw [h1] at h4
  exact ⟨h1, ⟨h2, h3⟩, h4⟩

/-- inv / invin: exact whenever the operand is a unit -/
theorem integral_inv_exact (ha : isCanonU p a) (hu : Int.gcd a p = 1) :
    isCanonU p (k.inv p a) ∧ (k.inv p a * a) % p = 1 % p := by
  obtain ⟨_, h2, h3⟩ := integral_euclid_exact k hv p a hp hm ha
  have e : k.inv p a = (k.euclid a (k.toE p)).1 := by
    unfold ICfg.inv
    simp only
    rw [if_neg (by have := h2.1; omega)]
  rw [e]
  refine ⟨h2, ?_⟩
  rw [hu] at h3
  obtain ⟨j, hj⟩ := h3
  have : (k.euclid a (k.toE p)).1 * a = 1 + p * j := by push_cast at hj; linarith
  rw [this, Int.add_mul_emod_self_left]

/-- div / divin: `r` canonical with `r·b ≡ a`, whenever the divisor is a unit -/
theorem integral_div_exact (ha : isCanonU p a) (hb : isCanonU p b) (hu : Int.gcd b p = 1) :
    isQuot false p a b (k.div p a b) = true ∧ k.divin p a b = k.div p a b := by
  obtain ⟨hi, hc⟩ := integral_inv_exact k hv p b hp hm hb hu
  have ok := iok_of_valid k hv p hp hm
  have e1 : k.div p a b = (k.inv p b * a) % p := by unfold ICfg.div; exact mul_model ok hp hi ha
  have e2 : k.divin p a b = (a * k.inv p b) % p := by unfold ICfg.divin; exact mul_model ok hp ha hi
  refine ⟨?_, by rw [e1, e2, Int.mul_comm]⟩
  rw [e1]
  unfold isQuot
  simp only [decide_eq_true_eq, isCanon, Bool.false_eq_true, if_false]
  refine ⟨canonU_isCanon p _ (by omega), ?_⟩
  apply Int.emod_eq_zero_of_dvd
  -- (i*a) % p * b - a = a * (i*b - 1) - p * ((i*a)/p) * b
  have h1 : p ∣ k.inv p b * b - 1 :=
    Int.dvd_of_emod_eq_zero (Int.emod_eq_emod_iff_emod_sub_eq_zero.1 hc)
  have h2 := Int.emod_add_mul_ediv (k.inv p b * a) p
  have e : (k.inv p b * a) % p * b - a = a * (k.inv p b * b - 1) - p * ((k.inv p b * a) / p * b) := by
    have : (k.inv p b * a) % p = k.inv p b * a - p * ((k.inv p b * a) / p) := by linarith
    rw [this]; ring
  rw [e]
  exact Int.dvd_sub (Dvd.dvd.mul_left h1 _) (Int.dvd_mul_right _ _)

/-- isUnit(a) holds exactly when gcd(a,p) = 1 (`isOne(d) || isMOne(d)` with `mOne = p-1`) -/
theorem integral_isUnit_iff_coprime (ha : isCanonU p a) : k.isUnit p a = true ↔ Int.gcd a p = 1 := by
  obtain ⟨h1, _, _⟩ := integral_euclid_exact k hv p a hp hm ha
  have ok := iok_of_valid k hv p hp hm
  have hmo : k.mOne p = p - 1 := by
    unfold ICfg.mOne; rw [ok.arU_id _ (by omega) (by omega), ok.toE_id _ (by omega) (by omega)]
  unfold ICfg.isUnit
  simp only [h1, hmo, Bool.or_eq_true, beq_iff_eq]
  constructor
  · rintro (h | h)
    · exact_mod_cast h
    · -- gcd = p - 1 divides p, hence divides 1
      have hd : ((Int.gcd a p : Nat) : Int) ∣ p := Int.gcd_dvd_right a p
      rw [h] at hd
      have : p - 1 ∣ 1 := by
        have := Int.dvd_sub hd (Int.dvd_refl (p - 1))
        simpa using this
      have := Int.le_of_dvd (by decide) this
      have : p = 2 := by omega
      subst this
      have : ((Int.gcd a 2 : Nat) : Int) = 1 := by rw [h]; rfl
      exact_mod_cast this
  · intro h; left; rw [h]; rfl

end integral

/-! non-vacuity of the hypotheses, and tightness of the bounds: one past `maxCardinality()` the same
    model does wrap (these are evaluations, not theorems) -/
example : (ICfg.mk 32 false 32).valid ∧ (2 : Int) ≤ 65536 ∧ (65536 : Int) ≤ (ICfg.mk 32 false 32).maxCard
    ∧ isCanonU 65536 65535 := by decide
example : (ICfg.mk 32 false 32).mul 65536 65535 65535 = canonU 65536 (65535 * 65535) := by decide
example : (ICfg.mk 32 false 32).mul 65537 65536 65536 ≠ canonU 65537 (65536 * 65536) := by decide
example : (ICfg.mk 32 false 64).add 4294967295 4294967294 4294967294 = canonU 4294967295 (4294967294 + 4294967294) := by decide
example : (ICfg.mk 8 true 8).inv 13 5 = 8 ∧ Int.gcd 5 13 = 1 := by decide
example : (ICfg.mk 8 false 16).isUnit 255 85 = false ∧ (ICfg.mk 8 false 16).isUnit 255 2 = true := by decide

/-! ## (b) `Modular<float>`, `Modular<double>`, `Modular<float,double>` — exact-integer model

`some v` means: no mathematical intermediate left the range in which every integer is representable
(so no rounding happened), and the result is `v`.  The bounds are tight: `94906266·94906265 + 1 ≤ 2^53`
but `94906267·94906266 > 2^53` (examples below), so raising a `maxCardinality()` breaks these proofs. -/

section floating
variable (k : FCfg) (hv : k.valid) (p a b c : Int) (hp : 2 ≤ p) (hm : p ≤ k.maxCard)
include hv hp hm

theorem float_mul_exact (ha : isCanonU p a) (hb : isCanonU p b) : k.mul p a b = some (canonU p (a * b)) := by
  have ok := fok_of_valid k hv p hp hm
  have hab := mul_lt_sq hp ha hb
  have h1 : (p - 1) * (p - 1) ≤ p * (p - 1) + 1 := by nlinarith
  unfold FCfg.mul canonU
  rw [ok.fC_id (a * b) hab.1 (by omega)]
  simp only [Option.bind_eq_bind, Option.bind_some]
  rw [Int.tmod_eq_emod_of_nonneg hab.1]
  exact ok.fS_id _ (Int.emod_nonneg _ (by omega)) (Int.le_of_lt (Int.emod_lt_of_pos _ (by omega)))

theorem float_add_exact (ha : isCanonU p a) (hb : isCanonU p b) : k.add p a b = some (canonU p (a + b)) := by
  have ok := fok_of_valid k hv p hp hm
  unfold isCanonU at ha hb
  have h1 : 2 * p ≤ p * (p - 1) + 3 := by nlinarith
  have e : (a + b) % p = if a + b < p then a + b else a + b - p := by
    split
    · exact Int.emod_eq_of_lt (by omega) (by omega)
    · rw [← Int.sub_emod_right]; exact Int.emod_eq_of_lt (by omega) (by omega)
  unfold FCfg.add canonU
  rw [ok.fC_id (a + b) (by omega) (by omega), e]
  simp only [Option.bind_eq_bind, Option.bind_some]
  split
  · simp only [Option.pure_def, Option.bind_some]; exact ok.fS_id _ (by omega) (by omega)
  · rw [ok.fC_id (a + b - p) (by omega) (by omega)]
    simp only [Option.bind_some]; exact ok.fS_id _ (by omega) (by omega)

theorem float_sub_exact (ha : isCanonU p a) (hb : isCanonU p b) : k.sub p a b = some (canonU p (a - b)) := by
  have ok := fok_of_valid k hv p hp hm
  unfold isCanonU at ha hb
  have e : (a - b) % p = if a ≥ b then a - b else p - b + a := by
    split
    · exact Int.emod_eq_of_lt (by omega) (by omega)
    · rw [← Int.add_emod_right]
      have : a - b + p = p - b + a := by ring
      rw [this]; exact Int.emod_eq_of_lt (by omega) (by omega)
  unfold FCfg.sub canonU
  rw [e]
  split
  · exact ok.fS_id _ (by omega) (by omega)
  · rw [ok.fS_id (p - b) (by omega) (by omega)]
    simp only [Option.bind_eq_bind, Option.bind_some]; exact ok.fS_id _ (by omega) (by omega)

theorem float_neg_exact (ha : isCanonU p a) : k.neg p a = some (canonU p (-a)) := by
  have ok := fok_of_valid k hv p hp hm
  unfold isCanonU at ha
  unfold FCfg.neg canonU
  rw [neg_emod_eq a p (by omega), Int.emod_eq_of_lt ha.1 ha.2]
  split
  · rfl
  · exact ok.fS_id _ (by omega) (by omega)

theorem float_axpy_exact (ha : isCanonU p a) (hb : isCanonU p b) (hc : isCanonU p c) :
    k.axpy p a b c = some (canonU p (a * b + c)) := by
  have ok := fok_of_valid k hv p hp hm
  have hab := mul_lt_sq hp ha hb
  unfold isCanonU at hc
  have h1 : (p - 1) * (p - 1) + p ≤ p * (p - 1) + 1 := by nlinarith
  unfold FCfg.axpy canonU
  rw [ok.fC_id (a * b) hab.1 (by omega)]
  simp only [Option.bind_eq_bind, Option.bind_some]
  rw [ok.fC_id (a * b + c) (by omega) (by omega)]
  simp only [Option.bind_some]
  rw [Int.tmod_eq_emod_of_nonneg (by omega)]
  exact ok.fS_id _ (Int.emod_nonneg _ (by omega)) (Int.le_of_lt (Int.emod_lt_of_pos _ (by omega)))

/-- axmy: the largest intermediate of the family, `a·x + (p - y) ≤ (p-1)² + p = p(p-1) + 1` -/
theorem float_axmy_exact (ha : isCanonU p a) (hb : isCanonU p b) (hc : isCanonU p c) :
    k.axmy p a b c = some (canonU p (a * b - c)) := by
  have ok := fok_of_valid k hv p hp hm
  have hab := mul_lt_sq hp ha hb
  unfold isCanonU at hc
  have h1 : (p - 1) * (p - 1) + p ≤ p * (p - 1) + 1 := by nlinarith
  have h2 : p ≤ p * (p - 1) + 1 := by nlinarith
  unfold FCfg.axmy canonU
  rw [ok.fC_id (a * b) hab.1 (by omega)]
  simp only [Option.bind_eq_bind, Option.bind_some]
  rw [ok.fC_id (p - c) (by omega) (by omega)]
  simp only [Option.bind_some]
  rw [ok.fC_id (a * b + (p - c)) (by omega) (by omega)]
  simp only [Option.bind_some]
  rw [Int.tmod_eq_emod_of_nonneg (by omega)]
  have : a * b + (p - c) = (a * b - c) + p * 1 := by ring
  rw [this, Int.add_mul_emod_self_left]
  exact ok.fS_id _ (Int.emod_nonneg _ (by omega)) (Int.le_of_lt (Int.emod_lt_of_pos _ (by omega)))

theorem float_maxpy_exact (ha : isCanonU p a) (hb : isCanonU p b) (hc : isCanonU p c) :
    k.maxpy p a b c = some (canonU p (c - a * b)) := by
  unfold FCfg.maxpy
  rw [float_axmy_exact k hv p a b c hp hm ha hb hc]
  simp only [Option.bind_eq_bind, Option.bind_some]
  rw [float_neg_exact k hv p _ hp hm (canonU_isCanon p _ (by omega))]
  unfold canonU
  have h := Int.emod_add_mul_ediv (a * b - c) p
  have e : -((a * b - c) % p) = (c - a * b) + p * ((a * b - c) / p) := by linarith
  rw [e, Int.add_mul_emod_self_left]

end floating

example : (FCfg.mk 53 53).valid ∧ (94906266 : Int) ≤ (FCfg.mk 53 53).maxCard ∧ isCanonU 94906266 94906265 := by decide
/-- tightness: at the maximum the largest intermediate is exact, one above it is not -/
example : (FCfg.mk 53 53).axmy 94906266 94906265 94906265 0 = some (canonU 94906266 (94906265 * 94906265)) := by decide
example : (FCfg.mk 53 53).axmy 94906267 94906266 94906266 0 = none := by decide
example : (FCfg.mk 24 24).axmy 4096 4095 4095 0 = some (canonU 4096 (4095 * 4095)) := by decide
example : (FCfg.mk 24 24).mul 4098 4097 4097 = none := by decide

/-! ## (c) `ModularBalanced<float|double>` — exact-integer model, and NORMALISE for the integer rings -/

section balancedFloat
variable (k : BFCfg) (hv : k.valid) (p a b c : Int) (hp : 3 ≤ p) (hm : p ≤ k.maxCard)
include hv hp hm

omit hv hm in
theorem bal_bounds (ha : isCanonB p a) (hb : isCanonB p b) :
    -((p / 2) * (p / 2)) ≤ a * b ∧ a * b ≤ (p / 2) * (p / 2) := by
  unfold isCanonB at ha hb
  have h0 : 0 ≤ p / 2 := by omega
  constructor <;> nlinarith [Int.mul_nonneg (show 0 ≤ p / 2 - a by omega) (show 0 ≤ p / 2 - b by omega),
    Int.mul_nonneg (show 0 ≤ p / 2 + a by omega) (show 0 ≤ p / 2 + b by omega),
    Int.mul_nonneg (show 0 ≤ p / 2 - a by omega) (show 0 ≤ p / 2 + b by omega),
    Int.mul_nonneg (show 0 ≤ p / 2 + a by omega) (show 0 ≤ p / 2 - b by omega)]

/-- reduce of any (integer-valued) storage value -/
theorem balanced_float_reduce (x : Int) :
    k.reduce p x = some (canonB p x) := by
  have ok := bfok_of_valid k hv p hp hm
  unfold BFCfg.reduce
  rw [normB_tmod x p (by omega)]
  have hc := Givaro.Model.ModRing.canonB_isCanon p x (by omega)
  unfold isCanonB at hc
  have h0 : 0 ≤ p / 2 := by omega
  have : p / 2 ≤ (p / 2) * (p / 2 + 1) := by nlinarith
  exact ok.f_id _ (by omega) (by omega)

theorem balanced_float_mul_exact (ha : isCanonB p a) (hb : isCanonB p b) : k.mul p a b = some (canonB p (a * b)) := by
  have ok := bfok_of_valid k hv p hp hm
  have hab := bal_bounds p a b hp ha hb
  have h0 : 0 ≤ p / 2 := by omega
  have h1 : (p / 2) * (p / 2) ≤ (p / 2) * (p / 2 + 1) := by nlinarith
  unfold BFCfg.mul
  rw [ok.f_id (a * b) (by omega) (by omega)]
  simp only [Option.bind_eq_bind, Option.bind_some]
  exact balanced_float_reduce k hv p hp hm _

theorem balanced_float_axpy_exact (ha : isCanonB p a) (hb : isCanonB p b) (hc : isCanonB p c) :
    k.axpy p a b c = some (canonB p (a * b + c)) ∧ k.axmy p a b c = some (canonB p (a * b - c))
      ∧ k.maxpy p a b c = some (canonB p (c - a * b)) := by
  have ok := bfok_of_valid k hv p hp hm
  have hab := bal_bounds p a b hp ha hb
  unfold isCanonB at hc
  have h0 : 0 ≤ p / 2 := by omega
  have h1 : (p / 2) * (p / 2) + p / 2 = (p / 2) * (p / 2 + 1) := by ring
  unfold BFCfg.axpy BFCfg.axmy BFCfg.maxpy
  rw [ok.f_id (a * b) (by omega) (by omega)]
  simp only [Option.bind_eq_bind, Option.bind_some]
  rw [ok.f_id (a * b + c) (by omega) (by omega), ok.f_id (a * b - c) (by omega) (by omega),
    ok.f_id (c - a * b) (by omega) (by omega)]
  simp only [Option.bind_some]
  exact ⟨balanced_float_reduce k hv p hp hm _,
    balanced_float_reduce k hv p hp hm _,
    balanced_float_reduce k hv p hp hm _⟩

theorem balanced_float_add_sub_exact (ha : isCanonB p a) (hb : isCanonB p b) :
    k.add p a b = some (canonB p (a + b)) ∧ k.sub p a b = some (canonB p (a - b)) := by
  have ok := bfok_of_valid k hv p hp hm
  unfold isCanonB at ha hb
  have h0 : 1 ≤ p / 2 := by omega
  have h1 : 2 * (p / 2) ≤ (p / 2) * (p / 2 + 1) := by nlinarith
  have hca := Givaro.Model.ModRing.canonB_isCanon p (a + b) (by omega)
  have hcs := Givaro.Model.ModRing.canonB_isCanon p (a - b) (by omega)
  unfold isCanonB at hca hcs
  unfold BFCfg.add BFCfg.sub
  rw [ok.f_id (a + b) (by omega) (by omega), ok.f_id (a - b) (by omega) (by omega)]
  simp only [Option.bind_eq_bind, Option.bind_some]
  rw [normB_canon (by omega) (by omega) (by omega), normB_canon (by omega) (by omega) (by omega)]
  exact ⟨ok.f_id _ (by omega) (by omega), ok.f_id _ (by omega) (by omega)⟩

end balancedFloat

example : (BFCfg.mk 53).valid ∧ (3 : Int) ≤ 189812531 ∧ (189812531 : Int) ≤ (BFCfg.mk 53).maxCard
    ∧ isCanonB 189812531 94906265 ∧ isCanonB 189812531 (-94906265) := by decide
example : (BFCfg.mk 53).axpy 189812531 94906265 94906265 94906265 = some (canonB 189812531 (94906265 * 94906265 + 94906265)) := by decide
example : (BFCfg.mk 53).axpy 189812533 94906266 94906266 94906266 = none := by decide

/-- neg / negin of the floating balanced rings: `-a`, plus `p` when that falls below the range
    (`a = p/2` for an even modulus — the case the unrepaired code got wrong, fixes/C03_1.patch) -/
theorem balanced_float_neg_exact (k : BFCfg) (hv : k.valid) (p a : Int) (hp : 3 ≤ p) (hm : p ≤ k.maxCard)
    (ha : isCanonB p a) : k.neg p a = some (canonB p (-a)) := by
  have ok := bfok_of_valid k hv p hp hm
  unfold isCanonB at ha
  have h0 : 1 ≤ p / 2 := by omega
  have h1 : p / 2 ≤ (p / 2) * (p / 2 + 1) := by nlinarith
  unfold BFCfg.neg
  simp only
  split
  · rw [ok.f_id _ (by omega) (by omega)]
    congr 1; symm
    exact canonB_unique (by omega) (by unfold isCanonB; omega) (-1) (by ring)
  · congr 1; symm
    exact canonB_unique (by omega) (by unfold isCanonB; omega) 0 (by ring)
example : (BFCfg.mk 24).neg 4 2 = some 2 ∧ canonB 4 (-2) = 2 := by decide

/-- neg / negin of `ModularBalanced<int32_t|int64_t>` -/
theorem balanced_int_neg_exact (k : BICfg) (hv : k.valid) (p a : Int) (hp : 3 ≤ p) (hm : p ≤ k.maxCard)
    (ha : isCanonB p a) : k.neg p a = canonB p (-a) := by
  unfold isCanonB at ha
  have e : ∀ x, -p ≤ x → x ≤ p → k.wr x = x := by
    intro x hx0 hx1
    obtain ⟨w⟩ := k
    simp only [BICfg.valid] at hv
    rcases hv with h | h <;> subst h <;> simp only [BICfg.maxCard] at hm <;> norm_num at hm <;>
      simp only [BICfg.wr, wrapSw] <;> norm_num <;> omega
  unfold BICfg.neg
  simp only
  rw [e (-a) (by omega) (by omega)]
  split
  · rw [e _ (by omega) (by omega)]; symm
    exact canonB_unique (by omega) (by unfold isCanonB; omega) (-1) (by ring)
  · symm
    exact canonB_unique (by omega) (by unfold isCanonB; omega) 0 (by ring)
example : (BICfg.mk 64).neg 6 3 = 3 ∧ canonB 6 (-3) = 3 := by decide

/-- `ModularBalanced<int32_t|int64_t>`: `r = a*b + c - q*p` computed with two's-complement wrap-around and
    ONE NORMALISE is the canonical residue for **any** quotient estimate `q` whose true remainder
    `z = a*b + c - q*p` lies within `p` of the canonical range and fits the word — in particular when
    `a*b` itself overflows `int32_t` (moduli above 92681: undefined behaviour whose compiled meaning is the
    right value).  That the floating estimate `(Element)(double(a)*double(b)*_dinvp)` is that close is
    checked by correspondence only (soft-float in the model), hence `_partial`. -/
theorem balanced_int_fma_exact_partial (k : BICfg) (hv : k.valid) (p q a b c : Int) (hp : 3 ≤ p)
    (hz0 : p / 2 - p + 1 - p ≤ a * b + c - q * p) (hz1 : a * b + c - q * p ≤ p / 2 + p)
    (hw : p ≤ k.maxCard) :
    k.fmaQ p q a b c = canonB p (a * b + c) := by
  have e : k.wr (k.wr (k.wr (a * b) + c) - k.wr (q * p)) = a * b + c - q * p := by
    obtain ⟨w⟩ := k
    simp only [BICfg.valid] at hv
    rcases hv with h | h <;> subst h <;> simp only [BICfg.maxCard] at hw <;> norm_num at hw <;>
      simp only [BICfg.wr, wrapSw] <;> norm_num <;> omega
  unfold BICfg.fmaQ
  rw [e, normB_canon (by omega) hz0 hz1]
  apply Givaro.Model.ModRing.canonB_congr
  have : a * b + c - q * p = (a * b + c) + p * (-q) := by ring
  rw [this, Int.add_mul_emod_self_left]
example : (BICfg.mk 32).valid ∧ (3 : Int) ≤ 131071 ∧ (131071 : Int) ≤ (BICfg.mk 32).maxCard
    ∧ (131071 : Int) / 2 - 131071 + 1 - 131071 ≤ 65535 * 65535 + 0 - 32767 * 131071 := by decide
example : (BICfg.mk 32).mul 131071 65535 65535 = canonB 131071 (65535 * 65535) := by decide

/-! ## (e) `Modular<Integer>` -/

theorem integer_ops_exact (p a b c : Int) (hp : 2 ≤ p) (ha : isCanonU p a) (hb : isCanonU p b) :
    ZMod'.mul p a b = canonU p (a * b) ∧ ZMod'.axpy p a b c = canonU p (a * b + c)
    ∧ ZMod'.axmy p a b c = canonU p (a * b - c) ∧ ZMod'.maxpy p a b c = canonU p (c - a * b)
    ∧ ZMod'.add p a b = canonU p (a + b) ∧ ZMod'.sub p a b = canonU p (a - b) ∧ ZMod'.neg p a = canonU p (-a) := by
  unfold isCanonU at ha hb
  refine ⟨rfl, rfl, rfl, rfl, ?_, ?_, ?_⟩
  · unfold ZMod'.add canonU; simp only; split
    · rw [← Int.sub_emod_right]; exact (Int.emod_eq_of_lt (by omega) (by omega)).symm
    · exact (Int.emod_eq_of_lt (by omega) (by omega)).symm
  · unfold ZMod'.sub canonU; simp only; split
    · rw [← Int.add_emod_right]; exact (Int.emod_eq_of_lt (by omega) (by omega)).symm
    · exact (Int.emod_eq_of_lt (by omega) (by omega)).symm
  · unfold ZMod'.neg canonU
    rw [neg_emod_eq a p (by omega), Int.emod_eq_of_lt ha.1 ha.2]
    split <;> simp_all
example : (2 : Int) ≤ 10 ∧ isCanonU 10 7 ∧ isCanonU 10 9 := by decide

end Givaro.Props.C03
