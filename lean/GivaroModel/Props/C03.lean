/-
C03 — modular rings are exact for every modulus up to the advertised maximum.

Every theorem is about the executable model of the code (`Model/ModRing.lean`, tied to /repo by the
correspondence of `checks/c03.py`), quantifies over *every* modulus `minCardinality ≤ p ≤ maxCardinality`
of every instantiated configuration and over all canonical operands, and states that the model's
result is the canonical representative of the exact integer result (`Spec/ModRingSpec.lean`).
The in-place forms are the same model functions with the destination as an operand
(`axpyin(r,a,x) = axpy a x r`, … — see `Driver/ModRing.lean`), so they are covered by the same theorems.
-/
import GivaroModel.Lemmas.ModRingFloat
import GivaroModel.Lemmas.ModRingHist
import GivaroModel.Lemmas.ModRingFEuclid
import GivaroModel.Lemmas.ModRingRecInt
import GivaroModel.Lemmas.ModRingLog16
import Mathlib.Tactic.IntervalCases
import GivaroModel.Lemmas.ModRingPrecomp
import GivaroModel.Lemmas.ModRingGeneric
namespace Givaro.Props.C03
open Givaro.Model.ModRing Givaro.Spec.ModRing

/-! ## the specification's canonical maps land in the canonical ranges -/

theorem canonU_isCanon (m x : Int) (hm : 0 < m) : isCanonU m (canonU m x) := by
  unfold isCanonU canonU
  exact ⟨Int.emod_nonneg _ (by omega), Int.emod_lt_of_pos _ hm⟩
example : isCanonU 7 (canonU 7 (-3)) := canonU_isCanon 7 (-3) (by decide)

theorem canonB_isCanon (m x : Int) (hm : 0 < m) : isCanonB m (canonB m x) :=
  Givaro.Model.ModRing.canonB_isCanon m x hm
example : isCanonB 6 (canonB 6 3) := canonB_isCanon 6 3 (by decide)

/-- the canonical representative is congruent to the exact value -/
theorem canonU_congr (m x : Int) : (canonU m x - x) % m = 0 := by
  unfold canonU
  have h := Int.emod_add_mul_ediv x m
  have : x % m - x = m * (-(x / m)) := by linarith
  rw [this]; exact Int.mul_emod_right _ _

theorem canonB_congr (m x : Int) : (canonB m x - x) % m = 0 := by
  unfold canonB
  have h := Int.emod_add_mul_ediv x m
  split
  · have : x % m - m - x = m * (-(x / m) - 1) := by linarith
    rw [this]; exact Int.mul_emod_right _ _
  · have : x % m - x = m * (-(x / m)) := by linarith
    rw [this]; exact Int.mul_emod_right _ _

/-! ## (a) `Modular<Storage_t,Compute_t>` over machine integers — all 16 instantiated configurations -/

section integral
variable (k : ICfg) (hv : k.valid) (p a b c : Int) (hp : 2 ≤ p) (hm : p ≤ k.maxCard)
include hv hp hm

/-- add / addin (`GenericAdd`, including the unsigned wrap-around test at `p` close to `2^N`) -/
theorem integral_add_exact (ha : isCanonU p a) (hb : isCanonU p b) : k.add p a b = canonU p (a + b) := by
  obtain ⟨s, sg, c⟩ := k
  simp only [ICfg.valid] at hv
  unfold isCanonU at ha hb
  unfold canonU
  have e : (a + b) % p = if a + b < p then a + b else a + b - p := by
    split
    · exact Int.emod_eq_of_lt (by omega) (by omega)
    · rw [← Int.sub_emod_right]; exact Int.emod_eq_of_lt (by omega) (by omega)
  rw [e]
  rcases hv with ⟨h1 | h1 | h1 | h1, h2 | h2⟩ <;> subst h1 <;> subst h2 <;> cases sg <;>
    simp only [ICfg.add, ICfg.toE, ICfg.toR, ICfg.arE, ICfg.arU, ICfg.maxCard, wrapUw, wrapSw] at * <;>
    norm_num at * <;> (repeat' split) <;> omega

/-- sub / subin -/
theorem integral_sub_exact (ha : isCanonU p a) (hb : isCanonU p b) : k.sub p a b = canonU p (a - b) := by
  obtain ⟨s, sg, c⟩ := k
  simp only [ICfg.valid] at hv
  unfold isCanonU at ha hb
  unfold canonU
  have e : (a - b) % p = if a < b then a - b + p else a - b := by
    split
    · rw [← Int.add_emod_right]; exact Int.emod_eq_of_lt (by omega) (by omega)
    · exact Int.emod_eq_of_lt (by omega) (by omega)
  rw [e]
  rcases hv with ⟨h1 | h1 | h1 | h1, h2 | h2⟩ <;> subst h1 <;> subst h2 <;> cases sg <;>
    simp only [ICfg.sub, ICfg.toE, ICfg.arE, ICfg.maxCard, wrapUw, wrapSw] at * <;>
    norm_num at * <;> (repeat' split) <;> omega

/-- neg / negin -/
theorem integral_neg_exact (ha : isCanonU p a) : k.neg p a = canonU p (-a) :=
  neg_model (iok_of_valid k hv p hp hm) hp ha

/-- mul / mulin: the product never leaves `Compute_t` (nor `int` for the promoted 8/16-bit types) -/
theorem integral_mul_exact (ha : isCanonU p a) (hb : isCanonU p b) : k.mul p a b = canonU p (a * b) :=
  mul_model (iok_of_valid k hv p hp hm) hp ha hb

/-- axpy / axpyin -/
theorem integral_axpy_exact (ha : isCanonU p a) (hb : isCanonU p b) (hc : isCanonU p c) :
    k.axpy p a b c = canonU p (a * b + c) :=
  axpy_model (iok_of_valid k hv p hp hm) hp ha hb hc

/-- axmy / axmyin -/
theorem integral_axmy_exact (ha : isCanonU p a) (hb : isCanonU p b) (hc : isCanonU p c) :
    k.axmy p a b c = canonU p (a * b - c) :=
  axmy_model (iok_of_valid k hv p hp hm) hp ha hb hc

/-- maxpy / maxpyin -/
theorem integral_maxpy_exact (ha : isCanonU p a) (hb : isCanonU p b) (hc : isCanonU p c) :
    k.maxpy p a b c = canonU p (c - a * b) :=
  maxpy_model (iok_of_valid k hv p hp hm) hp ha hb hc

theorem eok_of_valid : EOk k (k.toE p) := by
  have ok := iok_of_valid k hv p hp hm
  rw [ok.toE_id p (by omega) (Int.le_refl _)]
  exact ⟨ok.toE_id, ok.arE_id⟩

/-- the shared `extended_euclid` (unsigned cofactors + `neg` flag) on `(a, p)`: no cofactor ever exceeds
    `p` (so nothing wraps in `Storage_t`), `d = gcd(a,p)`, `0 ≤ x < p` and `x·a ≡ d (mod p)` -/
theorem integral_euclid_exact (ha : isCanonU p a) :
    (k.euclid a (k.toE p)).2 = (Int.gcd a p : Int) ∧ isCanonU p (k.euclid a (k.toE p)).1
      ∧ p ∣ (k.euclid a (k.toE p)).1 * a - (Int.gcd a p : Int) := by
  have ok := iok_of_valid k hv p hp hm
  have eok := eok_of_valid k hv p hp hm
  have hE : k.toE p = p := ok.toE_id p (by omega) (Int.le_refl _)
  rw [hE] at eok ⊢
  obtain ⟨h1, h2, h3, h4⟩ := euclid_spec eok ha hp
  rw [h1] at h4
  exact ⟨h1, ⟨h2, h3⟩, h4⟩

/-- inv / invin: exact whenever the operand is a unit -/
theorem integral_inv_exact (ha : isCanonU p a) (hu : Int.gcd a p = 1) :
    isCanonU p (k.inv p a) ∧ (k.inv p a * a) % p = 1 % p := by
  obtain ⟨_, h2, h3⟩ := integral_euclid_exact k hv p a hp hm ha
  have e : k.inv p a = (k.euclid a (k.toE p)).1 := by
    unfold ICfg.inv
    simp only
    rw [if_neg (by have := h2.1; omega)]
  rw [e]
  refine ⟨h2, ?_⟩
  rw [hu] at h3
  obtain ⟨j, hj⟩ := h3
  have : (k.euclid a (k.toE p)).1 * a = 1 + p * j := by push_cast at hj; linarith
  rw [this, Int.add_mul_emod_self_left]

/-- div / divin: `r` canonical with `r·b ≡ a`, whenever the divisor is a unit -/
theorem integral_div_exact (ha : isCanonU p a) (hb : isCanonU p b) (hu : Int.gcd b p = 1) :
    isQuot false p a b (k.div p a b) = true ∧ k.divin p a b = k.div p a b := by
  obtain ⟨hi, hc⟩ := integral_inv_exact k hv p b hp hm hb hu
  have ok := iok_of_valid k hv p hp hm
  have e1 : k.div p a b = (k.inv p b * a) % p := by unfold ICfg.div; rw [mul_model ok hp ha hi, Int.mul_comm]
  have e2 : k.divin p a b = (a * k.inv p b) % p := by unfold ICfg.divin; exact mul_model ok hp ha hi
  refine ⟨?_, by rw [e1, e2, Int.mul_comm]⟩
  rw [e1]
  unfold isQuot
  simp only [decide_eq_true_eq, isCanon, Bool.false_eq_true, if_false]
  refine ⟨canonU_isCanon p _ (by omega), ?_⟩
  apply Int.emod_eq_zero_of_dvd
  -- (i*a) % p * b - a = a * (i*b - 1) - p * ((i*a)/p) * b
  have h1 : p ∣ k.inv p b * b - 1 :=
    Int.dvd_of_emod_eq_zero (Int.emod_eq_emod_iff_emod_sub_eq_zero.1 hc)
  have h2 := Int.emod_add_mul_ediv (k.inv p b * a) p
  have e : (k.inv p b * a) % p * b - a = a * (k.inv p b * b - 1) - p * ((k.inv p b * a) / p * b) := by
    have : (k.inv p b * a) % p = k.inv p b * a - p * ((k.inv p b * a) / p) := by linarith
    rw [this]; ring
  rw [e]
  exact Int.dvd_sub (Dvd.dvd.mul_left h1 _) (Int.dvd_mul_right _ _)

/-- isUnit(a) holds exactly when gcd(a,p) = 1 (`isOne(d) || isMOne(d)` with `mOne = p-1`) -/
theorem integral_isUnit_iff_coprime (ha : isCanonU p a) : k.isUnit p a = true ↔ Int.gcd a p = 1 := by
  obtain ⟨h1, _, _⟩ := integral_euclid_exact k hv p a hp hm ha
  have ok := iok_of_valid k hv p hp hm
  have hmo : k.mOne p = p - 1 := by
    unfold ICfg.mOne; rw [ok.arU_id _ (by omega) (by omega), ok.toE_id _ (by omega) (by omega)]
  unfold ICfg.isUnit
  simp only [h1, hmo, Bool.or_eq_true, beq_iff_eq]
  constructor
  · rintro (h | h)
    · exact_mod_cast h
    · -- gcd = p - 1 divides p, hence divides 1
      have hd : ((Int.gcd a p : Nat) : Int) ∣ p := Int.gcd_dvd_right a p
      rw [h] at hd
      have : p - 1 ∣ 1 := by
        have := Int.dvd_sub hd (Int.dvd_refl (p - 1))
        simpa using this
      have := Int.le_of_dvd (by decide) this
      have : p = 2 := by omega
      subst this
      have : ((Int.gcd a 2 : Nat) : Int) = 1 := by rw [h]; rfl
      exact_mod_cast this
  · intro h; left; rw [h]; rfl

end integral

/-! non-vacuity of the hypotheses, and tightness of the bounds: one past `maxCardinality()` the same
    model does wrap (these are evaluations, not theorems) -/
example : (ICfg.mk 32 false 32).valid ∧ (2 : Int) ≤ 65536 ∧ (65536 : Int) ≤ (ICfg.mk 32 false 32).maxCard
    ∧ isCanonU 65536 65535 := by decide
example : (ICfg.mk 32 false 32).mul 65536 65535 65535 = canonU 65536 (65535 * 65535) := by decide
example : (ICfg.mk 32 false 32).mul 65537 65536 65536 ≠ canonU 65537 (65536 * 65536) := by decide
example : (ICfg.mk 32 false 64).add 4294967295 4294967294 4294967294 = canonU 4294967295 (4294967294 + 4294967294) := by decide
example : (ICfg.mk 8 true 8).inv 13 5 = 8 ∧ Int.gcd 5 13 = 1 := by decide
example : (ICfg.mk 8 false 16).isUnit 255 85 = false ∧ (ICfg.mk 8 false 16).isUnit 255 2 = true := by decide

/-! ## (b) `Modular<float>`, `Modular<double>`, `Modular<float,double>` — exact-integer model

`some v` means: no mathematical intermediate left the range in which every integer is representable
(so no rounding happened), and the result is `v`.  The bounds are tight: `94906266·94906265 + 1 ≤ 2^53`
but `94906267·94906266 > 2^53` (examples below), so raising a `maxCardinality()` breaks these proofs. -/

section floating
variable (k : FCfg) (hv : k.valid) (p a b c : Int) (hp : 2 ≤ p) (hm : p ≤ k.maxCard)
include hv hp hm

theorem float_mul_exact (ha : isCanonU p a) (hb : isCanonU p b) : k.mul p a b = some (canonU p (a * b)) := by
  have ok := fok_of_valid k hv p hp hm
  have hab := mul_lt_sq hp ha hb
  have h1 : (p - 1) * (p - 1) ≤ p * (p - 1) + 1 := by nlinarith
  unfold FCfg.mul canonU
  rw [ok.fC_id (a * b) hab.1 (by omega)]
  simp only [Option.bind_eq_bind, Option.bind_some]
  rw [Int.tmod_eq_emod_of_nonneg hab.1]
  exact ok.fS_id _ (Int.emod_nonneg _ (by omega)) (Int.le_of_lt (Int.emod_lt_of_pos _ (by omega)))

theorem float_add_exact (ha : isCanonU p a) (hb : isCanonU p b) : k.add p a b = some (canonU p (a + b)) := by
  have ok := fok_of_valid k hv p hp hm
  unfold isCanonU at ha hb
  have h1 : 2 * p ≤ p * (p - 1) + 3 := by nlinarith
  have e : (a + b) % p = if a + b < p then a + b else a + b - p := by
    split
    · exact Int.emod_eq_of_lt (by omega) (by omega)
    · rw [← Int.sub_emod_right]; exact Int.emod_eq_of_lt (by omega) (by omega)
  unfold FCfg.add canonU
  rw [ok.fC_id (a + b) (by omega) (by omega), e]
  simp only [Option.bind_eq_bind, Option.bind_some]
  split
  · simp only [Option.pure_def, Option.bind_some]; exact ok.fS_id _ (by omega) (by omega)
  · rw [ok.fC_id (a + b - p) (by omega) (by omega)]
    simp only [Option.bind_some]; exact ok.fS_id _ (by omega) (by omega)

theorem float_sub_exact (ha : isCanonU p a) (hb : isCanonU p b) : k.sub p a b = some (canonU p (a - b)) := by
  have ok := fok_of_valid k hv p hp hm
  unfold isCanonU at ha hb
  have e : (a - b) % p = if a ≥ b then a - b else p - b + a := by
    split
    · exact Int.emod_eq_of_lt (by omega) (by omega)
    · rw [← Int.add_emod_right]
      have : a - b + p = p - b + a := by ring
      rw [this]; exact Int.emod_eq_of_lt (by omega) (by omega)
  unfold FCfg.sub canonU
  rw [e]
  split
  · exact ok.fS_id _ (by omega) (by omega)
  · rw [ok.fS_id (p - b) (by omega) (by omega)]
    simp only [Option.bind_eq_bind, Option.bind_some]; exact ok.fS_id _ (by omega) (by omega)

theorem float_neg_exact (ha : isCanonU p a) : k.neg p a = some (canonU p (-a)) := by
  have ok := fok_of_valid k hv p hp hm
  unfold isCanonU at ha
  unfold FCfg.neg canonU
  rw [neg_emod_eq a p (by omega), Int.emod_eq_of_lt ha.1 ha.2]
  split
  · rfl
  · exact ok.fS_id _ (by omega) (by omega)

theorem float_axpy_exact (ha : isCanonU p a) (hb : isCanonU p b) (hc : isCanonU p c) :
    k.axpy p a b c = some (canonU p (a * b + c)) := by
  have ok := fok_of_valid k hv p hp hm
  have hab := mul_lt_sq hp ha hb
  unfold isCanonU at hc
  have h1 : (p - 1) * (p - 1) + p ≤ p * (p - 1) + 1 := by nlinarith
  unfold FCfg.axpy canonU
  rw [ok.fC_id (a * b) hab.1 (by omega)]
  simp only [Option.bind_eq_bind, Option.bind_some]
  rw [ok.fC_id (a * b + c) (by omega) (by omega)]
  simp only [Option.bind_some]
  rw [Int.tmod_eq_emod_of_nonneg (by omega)]
  exact ok.fS_id _ (Int.emod_nonneg _ (by omega)) (Int.le_of_lt (Int.emod_lt_of_pos _ (by omega)))

/-- axmy: the largest intermediate of the family, `a·x + (p - y) ≤ (p-1)² + p = p(p-1) + 1` -/
theorem float_axmy_exact (ha : isCanonU p a) (hb : isCanonU p b) (hc : isCanonU p c) :
    k.axmy p a b c = some (canonU p (a * b - c)) := by
  have ok := fok_of_valid k hv p hp hm
  have hab := mul_lt_sq hp ha hb
  unfold isCanonU at hc
  have h1 : (p - 1) * (p - 1) + p ≤ p * (p - 1) + 1 := by nlinarith
  have h2 : p ≤ p * (p - 1) + 1 := by nlinarith
  unfold FCfg.axmy canonU
  rw [ok.fC_id (a * b) hab.1 (by omega)]
  simp only [Option.bind_eq_bind, Option.bind_some]
  rw [ok.fC_id (p - c) (by omega) (by omega)]
  simp only [Option.bind_some]
  rw [ok.fC_id (a * b + (p - c)) (by omega) (by omega)]
  simp only [Option.bind_some]
  rw [Int.tmod_eq_emod_of_nonneg (by omega)]
  have : a * b + (p - c) = (a * b - c) + p * 1 := by ring
  rw [this, Int.add_mul_emod_self_left]
  exact ok.fS_id _ (Int.emod_nonneg _ (by omega)) (Int.le_of_lt (Int.emod_lt_of_pos _ (by omega)))

theorem float_maxpy_exact (ha : isCanonU p a) (hb : isCanonU p b) (hc : isCanonU p c) :
    k.maxpy p a b c = some (canonU p (c - a * b)) := by
  unfold FCfg.maxpy
  rw [float_axmy_exact k hv p a b c hp hm ha hb hc]
  simp only [Option.bind_eq_bind, Option.bind_some]
  rw [float_neg_exact k hv p _ hp hm (canonU_isCanon p _ (by omega))]
  unfold canonU
  have h := Int.emod_add_mul_ediv (a * b - c) p
  have e : -((a * b - c) % p) = (c - a * b) + p * ((a * b - c) / p) := by linarith
  rw [e, Int.add_mul_emod_self_left]

end floating

example : (FCfg.mk 53 53).valid ∧ (94906266 : Int) ≤ (FCfg.mk 53 53).maxCard ∧ isCanonU 94906266 94906265 := by decide
/-- tightness: at the maximum the largest intermediate is exact, one above it is not -/
example : (FCfg.mk 53 53).axmy 94906266 94906265 94906265 0 = some (canonU 94906266 (94906265 * 94906265)) := by decide
example : (FCfg.mk 53 53).axmy 94906267 94906266 94906266 0 = none := by decide
example : (FCfg.mk 24 24).axmy 4096 4095 4095 0 = some (canonU 4096 (4095 * 4095)) := by decide
example : (FCfg.mk 24 24).mul 4098 4097 4097 = none := by decide

/-! ## (c) `ModularBalanced<float|double>` — exact-integer model, and NORMALISE for the integer rings -/

section balancedFloat
variable (k : BFCfg) (hv : k.valid) (p a b c : Int) (hp : 3 ≤ p) (hm : p ≤ k.maxCard)
include hv hp hm

omit hv hm in
theorem bal_bounds (ha : isCanonB p a) (hb : isCanonB p b) :
    -((p / 2) * (p / 2)) ≤ a * b ∧ a * b ≤ (p / 2) * (p / 2) := by
  unfold isCanonB at ha hb
  have h0 : 0 ≤ p / 2 := by omega
  constructor <;> nlinarith [Int.mul_nonneg (show 0 ≤ p / 2 - a by omega) (show 0 ≤ p / 2 - b by omega),
    Int.mul_nonneg (show 0 ≤ p / 2 + a by omega) (show 0 ≤ p / 2 + b by omega),
    Int.mul_nonneg (show 0 ≤ p / 2 - a by omega) (show 0 ≤ p / 2 + b by omega),
    Int.mul_nonneg (show 0 ≤ p / 2 + a by omega) (show 0 ≤ p / 2 - b by omega)]

/-- reduce of any (integer-valued) storage value -/
theorem balanced_float_reduce (x : Int) :
    k.reduce p x = some (canonB p x) := by
  have ok := bfok_of_valid k hv p hp hm
  unfold BFCfg.reduce
  rw [normB_tmod x p (by omega)]
  have hc := Givaro.Model.ModRing.canonB_isCanon p x (by omega)
  unfold isCanonB at hc
  have h0 : 0 ≤ p / 2 := by omega
  have : p / 2 ≤ (p / 2) * (p / 2 + 1) := by nlinarith
  exact ok.f_id _ (by omega) (by omega)

theorem balanced_float_mul_exact (ha : isCanonB p a) (hb : isCanonB p b) : k.mul p a b = some (canonB p (a * b)) := by
  have ok := bfok_of_valid k hv p hp hm
  have hab := bal_bounds p a b hp ha hb
  have h0 : 0 ≤ p / 2 := by omega
  have h1 : (p / 2) * (p / 2) ≤ (p / 2) * (p / 2 + 1) := by nlinarith
  unfold BFCfg.mul
  rw [ok.f_id (a * b) (by omega) (by omega)]
  simp only [Option.bind_eq_bind, Option.bind_some]
  exact balanced_float_reduce k hv p hp hm _

theorem balanced_float_axpy_exact (ha : isCanonB p a) (hb : isCanonB p b) (hc : isCanonB p c) :
    k.axpy p a b c = some (canonB p (a * b + c)) ∧ k.axmy p a b c = some (canonB p (a * b - c))
      ∧ k.maxpy p a b c = some (canonB p (c - a * b)) := by
  have ok := bfok_of_valid k hv p hp hm
  have hab := bal_bounds p a b hp ha hb
  unfold isCanonB at hc
  have h0 : 0 ≤ p / 2 := by omega
  have h1 : (p / 2) * (p / 2) + p / 2 = (p / 2) * (p / 2 + 1) := by ring
  unfold BFCfg.axpy BFCfg.axmy BFCfg.maxpy
  rw [ok.f_id (a * b) (by omega) (by omega)]
  simp only [Option.bind_eq_bind, Option.bind_some]
  rw [ok.f_id (a * b + c) (by omega) (by omega), ok.f_id (a * b - c) (by omega) (by omega),
    ok.f_id (c - a * b) (by omega) (by omega)]
  simp only [Option.bind_some]
  exact ⟨balanced_float_reduce k hv p hp hm _,
    balanced_float_reduce k hv p hp hm _,
    balanced_float_reduce k hv p hp hm _⟩

theorem balanced_float_add_sub_exact (ha : isCanonB p a) (hb : isCanonB p b) :
    k.add p a b = some (canonB p (a + b)) ∧ k.sub p a b = some (canonB p (a - b)) := by
  have ok := bfok_of_valid k hv p hp hm
  unfold isCanonB at ha hb
  have h0 : 1 ≤ p / 2 := by omega
  have h1 : 2 * (p / 2) ≤ (p / 2) * (p / 2 + 1) := by nlinarith
  have hca := Givaro.Model.ModRing.canonB_isCanon p (a + b) (by omega)
  have hcs := Givaro.Model.ModRing.canonB_isCanon p (a - b) (by omega)
  unfold isCanonB at hca hcs
  unfold BFCfg.add BFCfg.sub
  rw [ok.f_id (a + b) (by omega) (by omega), ok.f_id (a - b) (by omega) (by omega)]
  simp only [Option.bind_eq_bind, Option.bind_some]
  rw [normB_canon (by omega) (by omega) (by omega), normB_canon (by omega) (by omega) (by omega)]
  exact ⟨ok.f_id _ (by omega) (by omega), ok.f_id _ (by omega) (by omega)⟩

end balancedFloat

example : (BFCfg.mk 53).valid ∧ (3 : Int) ≤ 189812531 ∧ (189812531 : Int) ≤ (BFCfg.mk 53).maxCard
    ∧ isCanonB 189812531 94906265 ∧ isCanonB 189812531 (-94906265) := by decide
example : (BFCfg.mk 53).axpy 189812531 94906265 94906265 94906265 = some (canonB 189812531 (94906265 * 94906265 + 94906265)) := by decide
example : (BFCfg.mk 53).axpy 189812533 94906266 94906266 94906266 = none := by decide

/-- neg / negin of the floating balanced rings: `-a`, plus `p` when that falls below the range
    (`a = p/2` for an even modulus — the case the unrepaired code got wrong, fixes/C03_1.patch) -/
theorem balanced_float_neg_exact (k : BFCfg) (hv : k.valid) (p a : Int) (hp : 3 ≤ p) (hm : p ≤ k.maxCard)
    (ha : isCanonB p a) : k.neg p a = some (canonB p (-a)) := by
  have ok := bfok_of_valid k hv p hp hm
  unfold isCanonB at ha
  have h0 : 1 ≤ p / 2 := by omega
  have h1 : p / 2 ≤ (p / 2) * (p / 2 + 1) := by nlinarith
  unfold BFCfg.neg
  simp only
  split
  · rw [ok.f_id _ (by omega) (by omega)]
    congr 1; symm
    exact canonB_unique (by omega) (by unfold isCanonB; omega) (-1) (by ring)
  · congr 1; symm
    exact canonB_unique (by omega) (by unfold isCanonB; omega) 0 (by ring)
example : (BFCfg.mk 24).neg 4 2 = some 2 ∧ canonB 4 (-2) = 2 := by decide

/-- neg / negin of `ModularBalanced<int32_t|int64_t>` -/
theorem balanced_int_neg_exact (k : BICfg) (hv : k.valid) (p a : Int) (hp : 3 ≤ p) (hm : p ≤ k.maxCard)
    (ha : isCanonB p a) : k.neg p a = canonB p (-a) := by
  unfold isCanonB at ha
  have e : ∀ x, -p ≤ x → x ≤ p → k.wr x = x := by
    intro x hx0 hx1
    obtain ⟨w⟩ := k
    simp only [BICfg.valid] at hv
    rcases hv with h | h <;> subst h <;> simp only [BICfg.maxCard] at hm <;> norm_num at hm <;>
      simp only [BICfg.wr, wrapSw] <;> norm_num <;> omega
  unfold BICfg.neg
  simp only
  rw [e (-a) (by omega) (by omega)]
  split
  · rw [e _ (by omega) (by omega)]; symm
    exact canonB_unique (by omega) (by unfold isCanonB; omega) (-1) (by ring)
  · symm
    exact canonB_unique (by omega) (by unfold isCanonB; omega) 0 (by ring)
example : (BICfg.mk 64).neg 6 3 = 3 ∧ canonB 6 (-3) = 3 := by decide

/-- `ModularBalanced<int32_t|int64_t>`: `r = a*b + c - q*p` computed with two's-complement wrap-around and
    ONE NORMALISE is the canonical residue for **any** quotient estimate `q` whose true remainder
    `z = a*b + c - q*p` lies within `p` of the canonical range and fits the word — in particular when
    `a*b` itself overflows `int32_t` (moduli above 92681: undefined behaviour whose compiled meaning is the
    right value).  That the floating estimate `(Element)(double(a)*double(b)*_dinvp)` is that close is
    checked by correspondence only (soft-float in the model), hence `_partial`. -/
theorem balanced_int_fma_exact_partial (k : BICfg) (hv : k.valid) (p q a b c : Int) (hp : 3 ≤ p)
    (hz0 : p / 2 - p + 1 - p ≤ a * b + c - q * p) (hz1 : a * b + c - q * p ≤ p / 2 + p)
    (hw : p ≤ k.maxCard) :
    k.fmaQ p q a b c = canonB p (a * b + c) := by
  have e : k.wr (k.wr (k.wr (a * b) + c) - k.wr (q * p)) = a * b + c - q * p := by
    obtain ⟨w⟩ := k
    simp only [BICfg.valid] at hv
    rcases hv with h | h <;> subst h <;> simp only [BICfg.maxCard] at hw <;> norm_num at hw <;>
      simp only [BICfg.wr, wrapSw] <;> norm_num <;> omega
  unfold BICfg.fmaQ
  rw [e, normB_canon (by omega) hz0 hz1]
  apply Givaro.Model.ModRing.canonB_congr
  have : a * b + c - q * p = (a * b + c) + p * (-q) := by ring
  rw [this, Int.add_mul_emod_self_left]
example : (BICfg.mk 32).valid ∧ (3 : Int) ≤ 131071 ∧ (131071 : Int) ≤ (BICfg.mk 32).maxCard
    ∧ (131071 : Int) / 2 - 131071 + 1 - 131071 ≤ 65535 * 65535 + 0 - 32767 * 131071 := by decide
example : (BICfg.mk 32).mul 131071 65535 65535 = canonB 131071 (65535 * 65535) := by decide

/-! ## (e) `Modular<Integer>` -/

theorem integer_ops_exact (p a b c : Int) (hp : 2 ≤ p) (ha : isCanonU p a) (hb : isCanonU p b) :
    ZMod'.mul p a b = canonU p (a * b) ∧ ZMod'.axpy p a b c = canonU p (a * b + c)
    ∧ ZMod'.axmy p a b c = canonU p (a * b - c) ∧ ZMod'.maxpy p a b c = canonU p (c - a * b)
    ∧ ZMod'.add p a b = canonU p (a + b) ∧ ZMod'.sub p a b = canonU p (a - b) ∧ ZMod'.neg p a = canonU p (-a) := by
  unfold isCanonU at ha hb
  refine ⟨rfl, rfl, rfl, rfl, ?_, ?_, ?_⟩
  · unfold ZMod'.add canonU; simp only; split
    · rw [← Int.sub_emod_right]; exact (Int.emod_eq_of_lt (by omega) (by omega)).symm
    · exact (Int.emod_eq_of_lt (by omega) (by omega)).symm
  · unfold ZMod'.sub canonU; simp only; split
    · rw [← Int.add_emod_right]; exact (Int.emod_eq_of_lt (by omega) (by omega)).symm
    · exact (Int.emod_eq_of_lt (by omega) (by omega)).symm
  · unfold ZMod'.neg canonU
    rw [neg_emod_eq a p (by omega), Int.emod_eq_of_lt ha.1 ha.2]
    split <;> simp_all
example : (2 : Int) ≤ 10 ∧ isCanonU 10 7 ∧ isCanonU 10 9 := by decide

/-! ## inv / div / isUnit of the floating rings: the floating `extended_euclid` (signed cofactors)

No cofactor and no product `q·v` ever exceeds the modulus in magnitude, so every intermediate is an
exactly representable integer (the model's `fit`s never fail: the results are `some …`); the quotient
`floor(u3/v3)` is the exact floor (IEEE hypothesis of the model, see the manifest note). -/

theorem float_fsok (k : FCfg) (hv : k.valid) (p : Int) (hm : p ≤ k.maxCard) :
    (∀ x, -p ≤ x → x ≤ p → k.fS x = some x) ∧ (2 ≤ p → p * p < (2 : Int) ^ (2 * k.ms + 3)) := by
  obtain ⟨ms, mc⟩ := k
  simp only [FCfg.valid] at hv
  rcases hv with ⟨h1, h2⟩ | ⟨h1, h2⟩ | ⟨h1, h2⟩ <;> subst h1 <;> subst h2 <;>
    simp only [FCfg.maxCard] at hm <;> norm_num at hm <;>
    (refine ⟨?_, ?_⟩
     · intro x hx0 hx1; simp only [FCfg.fS]; apply fit_some <;> norm_num <;> omega
     · intro hp; norm_num; nlinarith)

section floatingInv
variable (k : FCfg) (hv : k.valid) (p a b : Int) (hp : 2 ≤ p) (hm : p ≤ k.maxCard)
include hv hp hm

theorem float_euclid_exact (ha : isCanonU p a) :
    ∃ x d, k.euclid a p = some (x, d) ∧ d = (Int.gcd a p : Int) ∧ -p ≤ x ∧ x ≤ p ∧ p ∣ x * a - d
      ∧ (d = 1 → -p < x ∧ x < p) := by
  obtain ⟨h1, h2⟩ := float_fsok k hv p hm
  unfold isCanonU at ha
  exact feuclid_spec h1 ⟨by omega, ha.2⟩ hp (h2 hp)

/-- inv / invin: canonical, `inv·a ≡ 1`, for every unit -/
theorem float_inv_exact (ha : isCanonU p a) (hu : Int.gcd a p = 1) :
    ∃ r, k.inv p a = some r ∧ isCanonU p r ∧ (r * a) % p = 1 % p := by
  obtain ⟨x, d, he, hd, hx0, hx1, hdv, hd1⟩ := float_euclid_exact k hv p a hp hm ha
  have hd' : d = 1 := by rw [hd, hu]; rfl
  obtain ⟨hx2, hx3⟩ := hd1 hd'
  rw [hd'] at hdv
  obtain ⟨j, hj⟩ := hdv
  obtain ⟨h1, _⟩ := float_fsok k hv p hm
  unfold FCfg.inv
  rw [he]
  simp only [Option.bind_eq_bind, Option.bind_some]
  by_cases hneg : x < 0
  · rw [if_pos hneg, h1 _ (by omega) (by omega)]
    refine ⟨x + p, rfl, ⟨by omega, by omega⟩, ?_⟩
    have : (x + p) * a = 1 + p * (j + a) := by linarith
    rw [this, Int.add_mul_emod_self_left]
  · rw [if_neg hneg]
    refine ⟨x, rfl, ⟨by omega, by omega⟩, ?_⟩
    have : x * a = 1 + p * j := by linarith
    rw [this, Int.add_mul_emod_self_left]

/-- div / divin: the canonical `r` with `r·b ≡ a`, for every unit divisor -/
theorem float_div_exact (ha : isCanonU p a) (hb : isCanonU p b) (hu : Int.gcd b p = 1) :
    ∃ r, k.div p a b = some r ∧ k.divin p a b = some r ∧ isQuot false p a b r = true := by
  obtain ⟨i, hi, hic, hi1⟩ := float_inv_exact k hv p b hp hm hb hu
  refine ⟨canonU p (i * a), ?_, ?_, ?_⟩
  · unfold FCfg.div; rw [hi]; simp only [Option.bind_eq_bind, Option.bind_some]
    rw [float_mul_exact k hv p a i hp hm ha hic, Int.mul_comm]
  · unfold FCfg.divin; rw [hi]; simp only [Option.bind_eq_bind, Option.bind_some]
    rw [float_mul_exact k hv p a i hp hm ha hic, Int.mul_comm]
  · unfold isQuot
    simp only [decide_eq_true_eq, isCanon, Bool.false_eq_true, if_false]
    refine ⟨canonU_isCanon p _ (by omega), ?_⟩
    apply Int.emod_eq_zero_of_dvd
    have h1 : p ∣ i * b - 1 := Int.dvd_of_emod_eq_zero (Int.emod_eq_emod_iff_emod_sub_eq_zero.1 hi1)
    have h2 := Int.emod_add_mul_ediv (i * a) p
    unfold canonU
    have e : (i * a) % p * b - a = a * (i * b - 1) - p * ((i * a) / p * b) := by
      have : (i * a) % p = i * a - p * ((i * a) / p) := by linarith
      rw [this]; ring
    rw [e]
    exact Int.dvd_sub (Dvd.dvd.mul_left h1 _) (Int.dvd_mul_right _ _)

/-- isUnit(a) ↔ gcd(a,p) = 1 -/
theorem float_isUnit_iff_coprime (ha : isCanonU p a) :
    ∃ u, k.isUnit p a = some u ∧ (u = true ↔ Int.gcd a p = 1) := by
  obtain ⟨x, d, he, hd, _, _, _, _⟩ := float_euclid_exact k hv p a hp hm ha
  refine ⟨(d == 1 || d == p - 1), ?_, ?_⟩
  · unfold FCfg.isUnit; rw [he]; rfl
  · simp only [Bool.or_eq_true, beq_iff_eq, hd]
    constructor
    · rintro (h | h)
      · exact_mod_cast h
      · have hdv : ((Int.gcd a p : Nat) : Int) ∣ p := Int.gcd_dvd_right a p
        rw [h] at hdv
        have : p - 1 ∣ 1 := by
          have := Int.dvd_sub hdv (Int.dvd_refl (p - 1))
          simpa using this
        have := Int.le_of_dvd (by decide) this
        have : p = 2 := by omega
        subst this
        have : ((Int.gcd a 2 : Nat) : Int) = 1 := by rw [h]; rfl
        exact_mod_cast this
    · intro h; left; rw [h]; rfl

end floatingInv
example : (FCfg.mk 53 53).inv 94906266 94906265 = some 94906265 ∧ Int.gcd 94906265 94906266 = 1 := by decide
example : (FCfg.mk 24 53).isUnit 16777216 8388608 = some false ∧ (FCfg.mk 24 53).isUnit 16777216 8388609 = some true := by decide

theorem balanced_float_fsok (k : BFCfg) (hv : k.valid) (p : Int) (hm : p ≤ k.maxCard) :
    (∀ x, -p ≤ x → x ≤ p → (FCfg.mk k.mb k.mb).fS x = some x ∧ k.f x = some x)
      ∧ (2 ≤ p → p * p < (2 : Int) ^ (2 * (FCfg.mk k.mb k.mb).ms + 3)) := by
  obtain ⟨mb⟩ := k
  simp only [BFCfg.valid] at hv
  rcases hv with h1 | h1 <;> subst h1 <;>
    simp only [BFCfg.maxCard] at hm <;> norm_num at hm <;>
    (refine ⟨?_, ?_⟩
     · intro x hx0 hx1; simp only [FCfg.fS, BFCfg.f]; constructor <;> apply fit_some <;> norm_num <;> omega
     · intro hp; norm_num; nlinarith)

section balancedFloatInv
variable (k : BFCfg) (hv : k.valid) (p a b : Int) (hp : 3 ≤ p) (hm : p ≤ k.maxCard)
include hv hp hm

theorem balanced_float_euclid_exact (ha : isCanonB p a) :
    ∃ x d, (FCfg.mk k.mb k.mb).euclid a p = some (x, d) ∧ d = (Int.gcd a p : Int) ∧ -p ≤ x ∧ x ≤ p ∧ p ∣ x * a - d
      ∧ (d = 1 → -p < x ∧ x < p) := by
  obtain ⟨h1, h2⟩ := balanced_float_fsok k hv p hm
  unfold isCanonB at ha
  exact feuclid_spec (fun x h0 h1' => (h1 x h0 h1').1) ⟨by omega, by omega⟩ (by omega) (h2 (by omega))

/-- inv / invin of `ModularBalanced<float|double>` (the operand may be negative): canonical, `inv·a ≡ 1` -/
theorem balanced_float_inv_exact (ha : isCanonB p a) (hu : Int.gcd a p = 1) :
    ∃ r, k.inv p a = some r ∧ isQuot true p 1 a r = true := by
  obtain ⟨x, d, he, hd, hx0, hx1, hdv, hd1⟩ := balanced_float_euclid_exact k hv p a hp hm ha
  have hd' : d = 1 := by rw [hd, hu]; rfl
  obtain ⟨hx2, hx3⟩ := hd1 hd'
  rw [hd'] at hdv
  obtain ⟨h1, _⟩ := balanced_float_fsok k hv p hm
  have hc := Givaro.Model.ModRing.canonB_isCanon p x (by omega)
  refine ⟨canonB p x, ?_, ?_⟩
  · unfold BFCfg.inv
    rw [he]
    simp only [Option.bind_eq_bind, Option.bind_some]
    rw [normB_canon (by omega) (by omega) (by omega)]
    unfold isCanonB at hc
    exact (h1 _ (by omega) (by omega)).2
  · unfold isQuot
    simp only [decide_eq_true_eq, isCanon, if_true]
    refine ⟨hc, ?_⟩
    apply Int.emod_eq_zero_of_dvd
    have h2 := Int.dvd_of_emod_eq_zero (canonB_congr p x)
    have e : canonB p x * a - 1 = (canonB p x - x) * a + (x * a - 1) := by ring
    rw [e]; exact Int.dvd_add (Dvd.dvd.mul_right h2 _) hdv

/-- div / divin of `ModularBalanced<float|double>` -/
theorem balanced_float_div_exact (ha : isCanonB p a) (hb : isCanonB p b) (hu : Int.gcd b p = 1) :
    ∃ r, k.div p a b = some r ∧ isQuot true p a b r = true := by
  obtain ⟨i, hi, hq⟩ := balanced_float_inv_exact k hv p b hp hm hb hu
  unfold isQuot at hq
  simp only [decide_eq_true_eq, isCanon, if_true] at hq
  refine ⟨canonB p (a * i), ?_, ?_⟩
  · unfold BFCfg.div; rw [hi]; simp only [Option.bind_eq_bind, Option.bind_some]
    exact balanced_float_mul_exact k hv p a i hp hm ha hq.1
  · unfold isQuot
    simp only [decide_eq_true_eq, isCanon, if_true]
    refine ⟨canonB_isCanon p _ (by omega), ?_⟩
    apply Int.emod_eq_zero_of_dvd
    have h1 : p ∣ i * b - 1 := Int.dvd_of_emod_eq_zero hq.2
    have h2 := Int.dvd_of_emod_eq_zero (canonB_congr p (a * i))
    have e : canonB p (a * i) * b - a = (canonB p (a * i) - a * i) * b + a * (i * b - 1) := by ring
    rw [e]; exact Int.dvd_add (Dvd.dvd.mul_right h2 _) (Dvd.dvd.mul_left h1 _)

/-- isUnit of `ModularBalanced<float|double>` (`d == 1 || d == -1`, `d = gcd ≥ 0`) -/
theorem balanced_float_isUnit_iff_coprime (ha : isCanonB p a) :
    ∃ u, k.isUnit p a = some u ∧ (u = true ↔ Int.gcd a p = 1) := by
  obtain ⟨x, d, he, hd, _, _, _, _⟩ := balanced_float_euclid_exact k hv p a hp hm ha
  refine ⟨(d == 1 || d == -1), ?_, ?_⟩
  · unfold BFCfg.isUnit; rw [he]; rfl
  · simp only [Bool.or_eq_true, beq_iff_eq, hd]
    constructor
    · rintro (h | h)
      · exact_mod_cast h
      · have : (0 : Int) ≤ ((Int.gcd a p : Nat) : Int) := Int.natCast_nonneg _
        omega
    · intro h; left; rw [h]; rfl

end balancedFloatInv
example : (BFCfg.mk 53).inv 189812531 (-94906265) = some 2 := by decide

/-! ## (f) `Modular<ruint<K>>`, `Modular<rint<K>>`, `Modular<ruint<K>,ruint<K+1>>` — every level K

`k.n = 2^K` is any even number of bits ≥ 64 (`RCfg.valid`); the RecInt primitives are taken by their contracts
over Z (C06).  Every body of modular-ruint.inl, the `inv_mod` loop of ruinvmod.h and the generic
`extended_euclid<Element>` behind isUnit are exact for every modulus up to the `maxCardinality()` of the
instantiation and all canonical operands. -/

section recint
variable (k : RCfg) (hv : k.valid) (p a b c : Int) (hp : 2 ≤ p) (hm : p ≤ k.maxCard)
include hv hp hm

theorem recint_add_exact (ha : isCanonU p a) (hb : isCanonU p b) : k.add p a b = canonU p (a + b) :=
  radd_model (rok_of_valid k hv p hp hm) ha hb
theorem recint_sub_exact (ha : isCanonU p a) (hb : isCanonU p b) :
    k.sub p a b = canonU p (a - b) ∧ k.subin p a b = canonU p (a - b) :=
  ⟨rsub_model (rok_of_valid k hv p hp hm) ha hb, rsubin_model (rok_of_valid k hv p hp hm) ha hb⟩
theorem recint_neg_exact (ha : isCanonU p a) : k.neg p a = canonU p (-a) :=
  rneg_model (rok_of_valid k hv p hp hm) ha
/-- mul / mulin: `lmul` + `mod_n`, or `mul` in the element type (no wrap up to `2^(n/2)`) + `mod_n` -/
theorem recint_mul_exact (ha : isCanonU p a) (hb : isCanonU p b) : k.mul p a b = canonU p (a * b) :=
  rmul_model (rok_of_valid k hv p hp hm) ha hb
theorem recint_axpy_exact (ha : isCanonU p a) (hb : isCanonU p b) (hc : isCanonU p c) :
    k.axpy p a b c = canonU p (a * b + c) ∧ k.axpyin p c a b = canonU p (a * b + c) :=
  ⟨raxpy_model (rok_of_valid k hv p hp hm) ha hb hc, raxpyin_model (rok_of_valid k hv p hp hm) hc ha hb⟩
/-- axmy / axmyin (`axmyin(r,a,b)` is `axmy(r,a,b,copy of r)`) -/
theorem recint_axmy_exact (ha : isCanonU p a) (hb : isCanonU p b) (hc : isCanonU p c) :
    k.axmy p a b c = canonU p (a * b - c) :=
  raxmy_model (rok_of_valid k hv p hp hm) ha hb hc
theorem recint_maxpy_exact (ha : isCanonU p a) (hb : isCanonU p b) (hc : isCanonU p c) :
    k.maxpy p a b c = canonU p (c - a * b) ∧ k.maxpyin p c a b = canonU p (c - a * b) :=
  ⟨rmaxpy_model (rok_of_valid k hv p hp hm) ha hb hc, rmaxpyin_model (rok_of_valid k hv p hp hm) hc ha hb⟩

/-- inv / invin through RecInt's `inv_mod` loop: canonical and `inv·a ≡ 1` for every unit -/
theorem recint_inv_exact (ha : isCanonU p a) (hu : Int.gcd a p = 1) :
    isCanonU p (k.inv p a) ∧ (k.inv p a * a) % p = 1 % p := by
  obtain ⟨h0, h1, h2⟩ := rinv_spec (rok_of_valid k hv p hp hm) ha
  refine ⟨⟨h0, h1⟩, ?_⟩
  rw [hu] at h2
  obtain ⟨j, hj⟩ := h2
  have : k.inv p a * a = 1 + p * j := by push_cast at hj; linarith
  rw [this, Int.add_mul_emod_self_left]

/-- div / divin -/
theorem recint_div_exact (ha : isCanonU p a) (hb : isCanonU p b) (hu : Int.gcd b p = 1) :
    isQuot false p a b (k.div p a b) = true ∧ k.divin p a b = k.div p a b := by
  obtain ⟨hi, hc⟩ := recint_inv_exact k hv p b hp hm hb hu
  have ok := rok_of_valid k hv p hp hm
  have e1 : k.div p a b = (k.inv p b * a) % p := by unfold RCfg.div; rw [rmul_model ok ha hi, Int.mul_comm]
  have e2 : k.divin p a b = (a * k.inv p b) % p := by unfold RCfg.divin; exact rmul_model ok ha hi
  refine ⟨?_, by rw [e1, e2, Int.mul_comm]⟩
  rw [e1]
  unfold isQuot
  simp only [decide_eq_true_eq, isCanon, Bool.false_eq_true, if_false]
  refine ⟨canonU_isCanon p _ (by omega), ?_⟩
  apply Int.emod_eq_zero_of_dvd
  have h1 : p ∣ k.inv p b * b - 1 := Int.dvd_of_emod_eq_zero (Int.emod_eq_emod_iff_emod_sub_eq_zero.1 hc)
  have h2 := Int.emod_add_mul_ediv (k.inv p b * a) p
  have e : (k.inv p b * a) % p * b - a = a * (k.inv p b * b - 1) - p * ((k.inv p b * a) / p * b) := by
    have : (k.inv p b * a) % p = k.inv p b * a - p * ((k.inv p b * a) / p) := by linarith
    rw [this]; ring
  rw [e]
  exact Int.dvd_sub (Dvd.dvd.mul_left h1 _) (Int.dvd_mul_right _ _)

/-- isUnit (`Modular_implem::isUnit` over the RecInt element type) ↔ gcd(a,p) = 1 -/
theorem recint_isUnit_iff_coprime (ha : isCanonU p a) : k.isUnit p a = true ↔ Int.gcd a p = 1 := by
  have ok := rok_of_valid k hv p hp hm
  have eok := reok ok hv
  have hE : k.asI.toE p = p := by
    have := ok.wp (by omega : (0 : Int) ≤ p) (Int.le_refl p)
    unfold RCfg.w at this
    exact this
  rw [hE] at eok
  obtain ⟨h1, _, _, _⟩ := euclid_spec eok ha hp
  have hmo : k.asI.mOne p = p - 1 := by
    have hn : ¬ k.asI.s < 32 := by have := hv.1; simp [RCfg.asI]; omega
    unfold ICfg.mOne ICfg.arU
    rw [if_neg hn]
    have h2 : wrapUw k.asI.s (p - 1) = p - 1 := wrapUw_id (by omega) (by have := ok.pn; simp [RCfg.asI]; omega)
    rw [h2]
    have := ok.wp (by omega : (0 : Int) ≤ p - 1) (by omega)
    unfold RCfg.w at this
    exact this
  unfold RCfg.isUnit ICfg.isUnit
  rw [hE]
  simp only [h1, hmo, Bool.or_eq_true, beq_iff_eq]
  constructor
  · rintro (h | h)
    · exact_mod_cast h
    · have hd : ((Int.gcd a p : Nat) : Int) ∣ p := Int.gcd_dvd_right a p
      rw [h] at hd
      have : p - 1 ∣ 1 := by
        have := Int.dvd_sub hd (Int.dvd_refl (p - 1))
        simpa using this
      have := Int.le_of_dvd (by decide) this
      have : p = 2 := by omega
      subst this
      have : ((Int.gcd a 2 : Nat) : Int) = 1 := by rw [h]; rfl
      exact_mod_cast this
  · intro h; left; rw [h]; rfl

/-- init from an `Integer` of any size and sign (C04 for the RecInt rings) -/
theorem recint_initZ_exact (x : Int) : k.initZ p x = canonU p x := by
  have ok := rok_of_valid k hv p hp hm
  unfold RCfg.initZ canonU
  exact ok.wp (Int.emod_nonneg _ (by omega)) (Int.le_of_lt (Int.emod_lt_of_pos _ (by omega)))

/-- reduce(x, y) of the RecInt rings for any value `y` the element type holds (non-negative for `ruint`) -/
theorem recint_reduce_exact (y : Int) (hy : k.sg = false → 0 ≤ y) : k.reduce p y = canonU p y := by
  have ok := rok_of_valid k hv p hp hm
  obtain ⟨hc, h0, h1, h2⟩ := tmod_cases y p (by omega)
  have ht : Int.tmod y p < p := by rcases hc with h | h <;> omega
  unfold RCfg.reduce canonU
  split
  · next hsg =>
    simp only
    by_cases hneg : Int.tmod y p < 0
    · rw [ok.w_neg _ (by omega) hneg hsg, if_pos hneg]
      have hf := tmod_fix y p (by omega)
      rw [if_pos hneg] at hf
      rw [hf]; exact ok.wp (Int.emod_nonneg _ (by omega)) (by omega)
    · rw [ok.wp (by omega) (by omega), if_neg hneg]
      have hf := tmod_fix y p (by omega)
      rw [if_neg hneg] at hf
      exact hf
  · next hsg =>
    have hy0 : 0 ≤ y := hy (by cases h : k.sg <;> simp_all)
    rw [Int.tmod_eq_emod_of_nonneg hy0]
    exact ok.wp (Int.emod_nonneg _ (by omega)) (Int.le_of_lt (Int.emod_lt_of_pos _ (by omega)))

/-- init from a machine integer (`int64_t` / `uint64_t` range) whose magnitude the element type holds
    (the overload condition of modular-ruint.h), the minimum of the signed type included -/
theorem recint_init_exact (x : Int) (hx : -((2 : Int) ^ 63) ≤ x ∧ x < (2 : Int) ^ 64)
    (hfit : k.sg = true → -((2 : Int) ^ (k.n - 1)) < x ∧ x < (2 : Int) ^ (k.n - 1)) :
    k.initInt p x = canonU p x := by
  have ok := rok_of_valid k hv p hp hm
  have hua : wrapUw 64 (if x < 0 then wrapUw 64 (0 - wrapUw 64 x) else x) = if x < 0 then -x else x := by
    unfold wrapUw; norm_num at hx ⊢
    split <;> omega
  have hn := hv.1
  have hp64 : (2 : Int) ^ 64 ≤ (2 : Int) ^ k.n := pow_le_pow_right₀ (by norm_num) hn
  have hw : k.w (if x < 0 then -x else x) = if x < 0 then -x else x := by
    unfold RCfg.w
    split
    · next hsg =>
      have := hfit hsg
      exact wrapSw_id (by omega) (by split <;> omega) (by split <;> omega)
    · exact wrapUw_id (by split <;> omega) (by norm_num at hx; split <;> omega)
  unfold RCfg.initInt
  simp only
  rw [hua, hw, recint_reduce_exact k hv p hp hm _ (fun _ => by split <;> omega)]
  unfold canonU
  by_cases hneg : x < 0
  · rw [if_pos hneg, if_pos hneg, rneg_model ok ⟨Int.emod_nonneg _ (by omega), Int.emod_lt_of_pos _ (by omega)⟩]
    have h := Int.emod_add_mul_ediv (-x) p
    have e : -((-x) % p) = x + p * ((-x) / p) := by linarith
    rw [e, Int.add_mul_emod_self_left]
  · rw [if_neg hneg, if_neg hneg]

theorem recint_exactOps : ExactOps (k.ops p) (canonU p) (isCanonU p) where
  cn_ok x := canonU_isCanon p x (by omega)
  add a b ha hb := by simp only [RCfg.ops]; rw [recint_add_exact k hv p a b hp hm ha hb]
  sub a b ha hb := by simp only [RCfg.ops]; rw [(recint_sub_exact k hv p a b hp hm ha hb).1]
  mul a b ha hb := by simp only [RCfg.ops]; rw [recint_mul_exact k hv p a b hp hm ha hb]
  neg a ha := by simp only [RCfg.ops]; rw [recint_neg_exact k hv p a hp hm ha]
  axpy a x y ha hx hy := by simp only [RCfg.ops]; rw [(recint_axpy_exact k hv p a x y hp hm ha hx hy).1]
  axmy a x y ha hx hy := by simp only [RCfg.ops]; rw [recint_axmy_exact k hv p a x y hp hm ha hx hy]
  maxpy a x y ha hx hy := by simp only [RCfg.ops]; rw [(recint_maxpy_exact k hv p a x y hp hm ha hx hy).1]
  axpyin r a x hr ha hx := by simp only [RCfg.ops]; rw [(recint_axpy_exact k hv p a x r hp hm ha hx hr).2]
  axmyin r a x hr ha hx := by simp only [RCfg.ops]; rw [recint_axmy_exact k hv p a x r hp hm ha hx hr]
  maxpyin r a x hr ha hx := by simp only [RCfg.ops]; rw [(recint_maxpy_exact k hv p a x r hp hm ha hx hr).2]
  addin r a hr ha := by simp only [RCfg.ops]; rw [recint_add_exact k hv p r a hp hm hr ha]
  subin r a hr ha := by simp only [RCfg.ops]; rw [(recint_sub_exact k hv p r a hp hm hr ha).2]
  mulin r a hr ha := by simp only [RCfg.ops]; rw [recint_mul_exact k hv p r a hp hm hr ha]
  negin r hr := by simp only [RCfg.ops]; rw [recint_neg_exact k hv p r hp hm hr]

/-- **history theorem** for the RecInt-backed rings -/
theorem recint_history_exact (prog : List Instr) (r : Regs) (hr : ∀ i, isCanonU p (r i)) :
    (k.ops p).run prog r = some (runZ (canonU p) prog r) ∧ ∀ i, isCanonU p (runZ (canonU p) prog r i) :=
  run_exact (recint_exactOps k hv p hp hm) prog r hr

end recint
example : (RCfg.mk 128 false false).valid ∧ (18446744073709551616 : Int) ≤ (RCfg.mk 128 false false).maxCard := by decide
example : (RCfg.mk 128 false false).inv 18446744073709551616 18446744073709551615 = 18446744073709551615 := by decide
example : (RCfg.mk 64 false false).mul 4294967297 4294967296 4294967296 ≠ canonU 4294967297 (4294967296 * 4294967296) := by decide
example : (RCfg.mk 128 true false).valid ∧ (13043817821140680704 : Int) ≤ (RCfg.mk 128 true false).maxCard := by decide

/-! ## (d) `ModularExtended<float|double>` (FMA path)

add / sub / neg / inv / isUnit at full strength.  mul (hence axpy…, div, histories) under the **FMA contract**:
`abh` is within `2^(mant-4)` of the product (any rounding to the mantissa of a product below `2^(2·mant-6)` is)
and the floating quotient estimate `q = floor(abh·(1/p))` is within one of the true quotient
(`-p ≤ a·b − q·p < 2p`).  Given the contract, `abl = a·b − abh`, `pql = abh − q·p` and `r = abl + pql` are exact
and ONE correction yields the canonical residue — for every `p ≤ 2^(mant-3) − 1 = maxCardinality()`.
That the IEEE operations meet the contract is tied by correspondence (soft-float model, both build configurations). -/

structure ExtContract (k : ECfg) (p q a b : Int) : Prop where
  split0 : -((2 : Int) ^ (k.mant - 4)) ≤ a * b - k.rneI (a * b)
  split1 : a * b - k.rneI (a * b) ≤ (2 : Int) ^ (k.mant - 4)
  close0 : -p ≤ a * b - q * p
  close1 : a * b - q * p < 2 * p

theorem ext_fit (k : ECfg) (hv : k.valid) (p : Int) (hm : p ≤ k.maxCard) (x : Int)
    (h0 : -(4 * p + (2 : Int) ^ (k.mant - 4)) ≤ x) (h1 : x ≤ 4 * p + (2 : Int) ^ (k.mant - 4)) : k.f x = some x := by
  obtain ⟨m⟩ := k
  simp only [ECfg.valid] at hv
  rcases hv with h | h <;> subst h <;> simp only [ECfg.maxCard] at hm <;> norm_num at hm h0 h1 <;>
    simp only [ECfg.f] <;> apply fit_some <;> norm_num <;> omega

section extended
variable (k : ECfg) (hv : k.valid) (p a b : Int) (hp : 2 ≤ p) (hm : p ≤ k.maxCard)
include hv hp hm

theorem extended_correct (r z : Int) (hr0 : -p ≤ r) (hr1 : r < 2 * p) (j : Int) (hz : z = r + p * j) :
    (if r ≥ p then k.f (r - p) else if r < 0 then k.f (r + p) else some r) = some (z % p) := by
  have hpow : (0 : Int) ≤ (2 : Int) ^ (k.mant - 4) := by positivity
  have hf := fun x h0 h1 => ext_fit k hv p hm x h0 h1
  split
  · rw [hf _ (by omega) (by omega)]; congr 1
    exact (emod_unique (by omega) (by omega) (j + 1) (by rw [hz]; ring)).symm
  · split
    · rw [hf _ (by omega) (by omega)]; congr 1
      exact (emod_unique (by omega) (by omega) (j - 1) (by rw [hz]; ring)).symm
    · congr 1
      exact (emod_unique (by omega) (by omega) j hz).symm

/-- mul with ANY quotient estimate meeting the contract -/
theorem extended_mulQ_exact_partial (q : Int) (hc : ExtContract k p q a b) :
    k.mulQ p q a b = some (canonU p (a * b)) := by
  have hpow : (0 : Int) ≤ (2 : Int) ^ (k.mant - 4) := by positivity
  have hf := fun x h0 h1 => ext_fit k hv p hm x h0 h1
  obtain ⟨s0, s1, c0, c1⟩ := hc
  unfold ECfg.mulQ canonU
  simp only
  generalize k.rneI (a * b) = abh at *
  rw [hf (abh - q * p) (by omega) (by omega)]
  simp only [Option.bind_eq_bind, Option.bind_some]
  have e : a * b - abh + (abh - q * p) = a * b - q * p := by ring
  rw [e, hf _ (by omega) (by omega)]
  simp only [Option.bind_some]
  exact extended_correct k hv p hp hm _ _ c0 c1 q (by ring)

theorem extended_add_sub_neg_exact (ha : isCanonU p a) (hb : isCanonU p b) :
    k.add p a b = some (canonU p (a + b)) ∧ k.sub p a b = some (canonU p (a - b)) ∧ k.neg p a = some (canonU p (-a)) := by
  have hpow : (0 : Int) ≤ (2 : Int) ^ (k.mant - 4) := by positivity
  have hf := fun x h0 h1 => ext_fit k hv p hm x h0 h1
  unfold isCanonU at ha hb
  unfold ECfg.add ECfg.sub ECfg.neg canonU
  rw [hf (a + b) (by omega) (by omega), hf (a - b) (by omega) (by omega)]
  simp only [Option.bind_eq_bind, Option.bind_some]
  refine ⟨?_, ?_, ?_⟩
  · split
    · rw [hf _ (by omega) (by omega)]; congr 1
      exact (emod_unique (by omega) (by omega) 1 (by ring)).symm
    · congr 1; exact (Int.emod_eq_of_lt (by omega) (by omega)).symm
  · split
    · rw [hf _ (by omega) (by omega)]; congr 1
      exact (emod_unique (by omega) (by omega) (-1) (by ring)).symm
    · congr 1; exact (Int.emod_eq_of_lt (by omega) (by omega)).symm
  · split
    · rw [hf _ (by omega) (by omega)]; congr 1
      exact (emod_unique (by omega) (by omega) (-1) (by ring)).symm
    · congr 1
      have : a = 0 := by omega
      subst this; simp

theorem ext_fsok : (∀ x, -p ≤ x → x ≤ p → (FCfg.mk k.mant k.mant).fS x = some x)
    ∧ p * p < (2 : Int) ^ (2 * (FCfg.mk k.mant k.mant).ms + 3) := by
  obtain ⟨m⟩ := k
  simp only [ECfg.valid] at hv
  rcases hv with h | h <;> subst h <;> simp only [ECfg.maxCard] at hm <;> norm_num at hm <;>
    (refine ⟨?_, ?_⟩
     · intro x hx0 hx1; simp only [FCfg.fS]; apply fit_some <;> norm_num <;> omega
     · norm_num; nlinarith)

/-- inv / invin of `ModularExtended` (floating Euclid): canonical, `inv·a ≡ 1`, every unit, every `p ≤ maxCardinality` -/
theorem extended_inv_exact (ha : isCanonU p a) (hu : Int.gcd a p = 1) :
    ∃ r, k.inv p a = some r ∧ isCanonU p r ∧ (r * a) % p = 1 % p := by
  obtain ⟨h1, h2⟩ := ext_fsok k hv p hp hm
  unfold isCanonU at ha
  obtain ⟨x, d, he, hd, hx0, hx1, hdv, hd1⟩ := feuclid_spec h1 ⟨by omega, ha.2⟩ hp h2
  have hd' : d = 1 := by rw [hd, hu]; rfl
  obtain ⟨hx2, hx3⟩ := hd1 hd'
  rw [hd'] at hdv
  obtain ⟨j, hj⟩ := hdv
  unfold ECfg.inv FCfg.inv
  rw [he]
  simp only [Option.bind_eq_bind, Option.bind_some]
  by_cases hneg : x < 0
  · rw [if_pos hneg, h1 _ (by omega) (by omega)]
    refine ⟨x + p, rfl, ⟨by omega, by omega⟩, ?_⟩
    have : (x + p) * a = 1 + p * (j + a) := by linarith
    rw [this, Int.add_mul_emod_self_left]
  · rw [if_neg hneg]
    refine ⟨x, rfl, ⟨by omega, by omega⟩, ?_⟩
    have : x * a = 1 + p * j := by linarith
    rw [this, Int.add_mul_emod_self_left]

/-- isUnit of `ModularExtended` ↔ gcd(a,p) = 1 -/
theorem extended_isUnit_iff_coprime (ha : isCanonU p a) :
    ∃ u, k.isUnit p a = some u ∧ (u = true ↔ Int.gcd a p = 1) := by
  obtain ⟨h1, h2⟩ := ext_fsok k hv p hp hm
  unfold isCanonU at ha
  obtain ⟨x, d, he, hd, _, _, _, _⟩ := feuclid_spec h1 ⟨by omega, ha.2⟩ hp h2
  refine ⟨(d == 1 || d == p - 1), ?_, ?_⟩
  · unfold ECfg.isUnit FCfg.isUnit; rw [he]; rfl
  · simp only [Bool.or_eq_true, beq_iff_eq, hd]
    constructor
    · rintro (h | h)
      · exact_mod_cast h
      · have hdv : ((Int.gcd a p : Nat) : Int) ∣ p := Int.gcd_dvd_right a p
        rw [h] at hdv
        have : p - 1 ∣ 1 := by
          have := Int.dvd_sub hdv (Int.dvd_refl (p - 1))
          simpa using this
        have := Int.le_of_dvd (by decide) this
        have : p = 2 := by omega
        subst this
        have : ((Int.gcd a 2 : Nat) : Int) = 1 := by rw [h]; rfl
        exact_mod_cast this
    · intro h; left; rw [h]; rfl

/-- the contract for the quotient estimate the code computes, on all canonical operands -/
def ExtQClose : Prop :=
  ∀ a b, isCanonU p a → isCanonU p b → ExtContract k p (k.qEst p (k.rneI (a * b))) a b

theorem extended_exactOps_partial (hq : ExtQClose k p) : ExactOps (k.ops p) (canonU p) (isCanonU p) := by
  have hmul : ∀ a b, isCanonU p a → isCanonU p b → k.mul p a b = some (canonU p (a * b)) := fun a b ha hb => by
    unfold ECfg.mul; exact extended_mulQ_exact_partial k hv p a b hp hm _ (hq a b ha hb)
  have hc : ∀ x, isCanonU p (canonU p x) := fun x => canonU_isCanon p x (by omega)
  have hasn := fun a b ha hb => extended_add_sub_neg_exact k hv p a b hp hm ha hb
  have haxpy : ∀ a x y, isCanonU p a → isCanonU p x → isCanonU p y → k.axpy p a x y = some (canonU p (a * x + y)) := by
    intro a x y ha hx hy
    unfold ECfg.axpy; rw [hmul a x ha hx]; simp only [Option.bind_eq_bind, Option.bind_some]
    rw [(hasn _ y (hc _) hy).1]; unfold canonU; rw [Int.emod_add_emod]
  have haxmy : ∀ a x y, isCanonU p a → isCanonU p x → isCanonU p y → k.axmy p a x y = some (canonU p (a * x - y)) := by
    intro a x y ha hx hy
    unfold ECfg.axmy; rw [hmul a x ha hx]; simp only [Option.bind_eq_bind, Option.bind_some]
    rw [(hasn _ y (hc _) hy).2.1]; unfold canonU; rw [Int.emod_sub_emod]
  have hmaxpy : ∀ a x y, isCanonU p a → isCanonU p x → isCanonU p y → k.maxpy p a x y = some (canonU p (y - a * x)) := by
    intro a x y ha hx hy
    unfold ECfg.maxpy; rw [hmul a x ha hx]; simp only [Option.bind_eq_bind, Option.bind_some]
    rw [(hasn y _ hy (hc _)).2.1]; unfold canonU; rw [Int.sub_emod_emod]
  exact {
    cn_ok := hc
    add := fun a b ha hb => (hasn a b ha hb).1
    sub := fun a b ha hb => (hasn a b ha hb).2.1
    mul := hmul
    neg := fun a ha => (hasn a a ha ha).2.2
    axpy := haxpy, axmy := haxmy, maxpy := hmaxpy
    axpyin := fun r a x hr ha hx => haxpy a x r ha hx hr
    axmyin := fun r a x hr ha hx => haxmy a x r ha hx hr
    maxpyin := fun r a x hr ha hx => hmaxpy a x r ha hx hr
    addin := fun a b ha hb => (hasn a b ha hb).1
    subin := fun a b ha hb => (hasn a b ha hb).2.1
    mulin := hmul
    negin := fun a ha => (hasn a a ha ha).2.2 }

/-- **history theorem** for `ModularExtended`, under the FMA contract (full statement: without `hq`) -/
theorem extended_history_exact_partial (hq : ExtQClose k p) (prog : List Instr) (r : Regs) (hr : ∀ i, isCanonU p (r i)) :
    (k.ops p).run prog r = some (runZ (canonU p) prog r) ∧ ∀ i, isCanonU p (runZ (canonU p) prog r i) :=
  run_exact (extended_exactOps_partial k hv p hp hm hq) prog r hr

end extended
example : (ECfg.mk 53).mul 1125899906842623 1125899906842622 1125899906842622 = some 1 := by decide
example : ExtContract (ECfg.mk 53) 1125899906842623 ((ECfg.mk 53).qEst 1125899906842623 ((ECfg.mk 53).rneI (1125899906842622 * 1125899906842622)))
    1125899906842622 1125899906842622 := by
  refine ⟨by decide, by decide, by decide, by decide⟩

/-! ## (g) `Modular<Log16>`: the generator chain is a parameter

For ANY tables `exp`, `log` satisfying `L16.Valid` (what the constructor's generator search establishes for a
prime `p`: `exp` walks through (Z/p)^* along the powers of `g`, `log` inverts it, `log 0 = zero`), the index
arithmetic of every `__GIVARO_ZPZ16_LOG_*` macro on canonical representations (`okR`: a logarithm in `[0,p-1)` or
`zero = 2(p-1)`) returns the canonical representation of the exact result.  `g^((p-1)/2) = -1` is derived from the
chain, not assumed. -/

section log16
variable (T : L16) (h : T.Valid) (a b c : Int)
include h

theorem log16_mul_exact (ha : T.okR a) (hb : T.okR b) :
    T.okR (T.mul a b) ∧ T.val (T.mul a b) = canonU T.p (T.val a * T.val b) := L16.mul_exact h ha hb
theorem log16_add_exact (ha : T.okR a) (hb : T.okR b) :
    T.okR (T.add a b) ∧ T.val (T.add a b) = canonU T.p (T.val a + T.val b) := L16.add_exact h ha hb
theorem log16_sub_exact (ha : T.okR a) (hb : T.okR b) :
    T.okR (T.sub a b) ∧ T.val (T.sub a b) = canonU T.p (T.val a - T.val b) := L16.sub_exact h ha hb
theorem log16_neg_exact (ha : T.okR a) :
    T.okR (T.neg a) ∧ T.val (T.neg a) = canonU T.p (-(T.val a)) := L16.neg_exact h ha
/-- inv / div for a non-zero divisor -/
theorem log16_inv_div_exact (ha : T.okR a) (hb : 0 ≤ b ∧ b < T.M) :
    (T.okR (T.inv b) ∧ (T.val (T.inv b) * T.val b) % T.p = 1 % T.p)
    ∧ (T.okR (T.div a b) ∧ (T.val (T.div a b) * T.val b) % T.p = T.val a % T.p) :=
  ⟨⟨Or.inl (L16.inv_exact h hb).1, (L16.inv_exact h hb).2⟩, L16.div_exact h ha hb⟩

theorem log16_val_range (ha : T.okR a) : isCanonU T.p (T.val a) := by
  rcases ha with ha | ha
  · rw [L16.val_nonzero h ha.1 ha.2]
    have := L16.expm_range h a
    exact ⟨by omega, this.2⟩
  · rw [ha, L16.val_Z h]; have := h.p2; exact ⟨Int.le_refl _, by omega⟩

/-- axpy, axpyin, axmy, axmyin, maxpy, maxpyin (compositions of the macros, as the code writes them) -/
theorem log16_fused_exact (ha : T.okR a) (hb : T.okR b) (hc : T.okR c) :
    (T.okR (T.axpy a b c) ∧ T.val (T.axpy a b c) = canonU T.p (T.val a * T.val b + T.val c))
    ∧ (T.okR (T.axpyin c a b) ∧ T.val (T.axpyin c a b) = canonU T.p (T.val a * T.val b + T.val c))
    ∧ (T.okR (T.axmy a b c) ∧ T.val (T.axmy a b c) = canonU T.p (T.val a * T.val b - T.val c))
    ∧ (T.okR (T.axmyin c a b) ∧ T.val (T.axmyin c a b) = canonU T.p (T.val a * T.val b - T.val c))
    ∧ (T.okR (T.maxpy a b c) ∧ T.val (T.maxpy a b c) = canonU T.p (T.val c - T.val a * T.val b))
    ∧ (T.okR (T.maxpyin c a b) ∧ T.val (T.maxpyin c a b) = canonU T.p (T.val c - T.val a * T.val b)) := by
  obtain ⟨hm, hmv⟩ := L16.mul_exact h ha hb
  obtain ⟨h1, h1v⟩ := L16.add_exact h hm hc
  obtain ⟨h2, h2v⟩ := L16.add_exact h hc hm
  obtain ⟨h3, h3v⟩ := L16.sub_exact h hm hc
  obtain ⟨h4, h4v⟩ := L16.sub_exact h hc hm
  unfold canonU
  refine ⟨⟨h1, ?_⟩, ⟨h2, ?_⟩, ⟨h3, ?_⟩, ⟨h3, ?_⟩, ⟨h4, ?_⟩, ⟨h4, ?_⟩⟩
  · show T.val (T.add (T.mul a b) c) = _
    rw [h1v, hmv, Int.emod_add_emod]
  · show T.val (T.add c (T.mul a b)) = _
    rw [h2v, hmv, Int.add_emod_emod, Int.add_comm]
  · show T.val (T.sub (T.mul a b) c) = _
    rw [h3v, hmv, Int.emod_sub_emod]
  · show T.val (T.sub (T.mul a b) c) = _
    rw [h3v, hmv, Int.emod_sub_emod]
  · show T.val (T.sub c (T.mul a b)) = _
    rw [h4v, hmv, Int.sub_emod_emod]
  · show T.val (T.sub c (T.mul a b)) = _
    rw [h4v, hmv, Int.sub_emod_emod]

/-- isUnit (`!isZero`) holds exactly for the elements that have an inverse -/
theorem log16_isUnit_iff (ha : T.okR a) :
    T.isUnit a = true ↔ ∃ r, T.okR r ∧ (T.val r * T.val a) % T.p = 1 % T.p := by
  have hp := h.p2
  have hMd : T.M = T.p - 1 := rfl
  have hZ : T.Z = 2 * T.M := rfl
  unfold L16.isUnit L16.isZero
  rcases ha with ha | ha
  · simp only [Bool.not_eq_true', decide_eq_false_iff_not]
    constructor
    · intro _; exact ⟨T.inv a, Or.inl (L16.inv_exact h ha).1, (L16.inv_exact h ha).2⟩
    · intro _; omega
  · simp only [Bool.not_eq_true', decide_eq_false_iff_not]
    constructor
    · intro hc; exfalso; omega
    · rintro ⟨r, _, hr⟩
      rw [ha, L16.val_Z h, Int.mul_zero, Int.zero_emod, Int.emod_eq_of_lt (by omega) (by omega)] at hr
      omega

end log16

/-- non-vacuity: the chain of `p = 5`, `g = 2` is valid -/
def t5 : L16 := ⟨5, 2, fun e => if e = 0 then 1 else if e = 1 then 2 else if e = 2 then 4 else 3,
  fun v => if v = 0 then 8 else if v = 1 then 0 else if v = 2 then 1 else if v = 4 then 2 else 3⟩
example : t5.Valid := by
  refine ⟨by decide, by decide, ?_, ?_, ?_, ?_, by decide⟩
  · intro e h0 h1; have : e < 4 := h1; interval_cases e <;> decide
  · intro e h0 h1; have : e < 4 := h1; interval_cases e <;> decide
  · intro e h0 h1; have : e < 4 := h1; interval_cases e <;> decide
  · intro v h0 h1; have : v < 5 := h1; interval_cases v <;> decide
example : t5.add 1 3 = 8 ∧ t5.val (t5.sub 0 3) = 3 ∧ t5.neg 8 = 8 := by decide

/-! ## multiplication with a precomputed reciprocal (modular-mulprecomp.inl), all 16 integral configurations

The domain is the one the file's asserts state (`bitsizep ≤ 4s−2`, resp. `4s−1`; compiled out by `-DNDEBUG`), which is
smaller than `maxCardinality()`: beyond it the real code is wrong (examples below and the correspondence lines marked PRE) —
a documented restriction of these entry points, not of the ring. -/

/-- the bit-size loop: `2^(n-1) ≤ p < 2^n` -/
theorem bitsize_spec (k : ICfg) (p : Int) (hp : 1 ≤ p) :
    1 ≤ k.bitsize p ∧ (2 : Int) ^ (k.bitsize p - 1) ≤ p ∧ p < (2 : Int) ^ (k.bitsize p) := by
  unfold ICfg.bitsize
  rw [if_neg (by omega)]
  have hn : p.toNat ≠ 0 := by omega
  have h1 := Nat.log2_self_le hn
  have h2 := @Nat.lt_log2_self p.toNat
  have hc : ((p.toNat : Nat) : Int) = p := Int.toNat_of_nonneg (by omega)
  refine ⟨by omega, ?_, ?_⟩
  · simp only [Nat.add_sub_cancel]
    rw [← hc]; exact_mod_cast h1
  · rw [← hc]; exact_mod_cast h2

/-- **mul_precomp_p** (Barrett with the reciprocal of `precomp_p`): exact on the domain the file asserts,
    `bitsizep ≤ 4·sizeof(Compute_t) − 2` — the estimate is never above and at most ONE below the quotient,
    which is the one conditional subtraction the code applies -/
theorem mul_precomp_p_exact (k : ICfg) (hv : k.valid) (p a b : Int) (hp : 2 ≤ p)
    (hdom : k.bitsize p + 2 ≤ k.hbits) (ha : isCanonU p a) (hb : isCanonU p b) :
    k.mulPrecompP p (k.bitsize p) (k.precompP p (k.bitsize p)) a b = canonU p (a * b) := by
  obtain ⟨h1, h2, h3⟩ := bitsize_spec k p (by omega)
  have hn2 : 2 ≤ k.bitsize p := by
    by_contra hc
    have : k.bitsize p = 1 := by omega
    rw [this] at h3; norm_num at h3; omega
  exact mulPrecompP_model hv hn2 hdom h2 h3 ha hb

/-- **mul_precomp_b** / **mul_precomp_b_without_reduction** (Shoup, reciprocal of `precomp_b(invb,b)`): on the asserted
    domain `bitsizep ≤ 4·sizeof(Compute_t) − 1` the unreduced value is congruent and below `2p`, the reduced one canonical -/
theorem mul_precomp_b_exact (k : ICfg) (hv : k.valid) (p a b : Int) (hp : 2 ≤ p)
    (hdom : k.bitsize p + 1 ≤ k.hbits) (ha : isCanonU p a) (hb : isCanonU p b) :
    k.mulPrecompB p (k.precompB p b) a b = canonU p (a * b)
      ∧ (0 ≤ k.mulPrecompBNoRed p (k.precompB p b) a b ∧ k.mulPrecompBNoRed p (k.precompB p b) a b < 2 * p
          ∧ p ∣ k.mulPrecompBNoRed p (k.precompB p b) a b - a * b) := by
  obtain ⟨h1, h2, h3⟩ := bitsize_spec k p (by omega)
  have hpH : 2 * p ≤ (2 : Int) ^ k.hbits := by
    have : (2 : Int) ^ (k.bitsize p + 1) ≤ (2 : Int) ^ k.hbits := pow_le_pow_right₀ (by norm_num) hdom
    rw [pow_succ] at this; omega
  exact mulPrecompB_model hv hp hpH ha hb
example : (ICfg.mk 64 false 64).bitsize 1073741823 + 2 ≤ (ICfg.mk 64 false 64).hbits := by decide
example : (ICfg.mk 64 false 64).mulPrecompP 1073741823 30 ((ICfg.mk 64 false 64).precompP 1073741823 30) 1073741822 1073741822 = 1 := by decide
/-- beyond the asserted domain the same code is wrong (a documented restriction, not the advertised maxCardinality) -/
example : (ICfg.mk 64 false 64).mulPrecompP 4294967291 32 ((ICfg.mk 64 false 64).precompP 4294967291 32) 4294967290 4294967290 ≠ 1 := by decide

/-! ## the generic `Modular<IntType,Compute_t>` (modular-inttype.inl): every type pair without a specialisation

All arithmetic is carried out in `IntType`; `maxCardinality() = 2^⌊N/2⌋` (`N` value bits; fixes/C03_3.patch — before it the
class advertised no maximum or the parent's, e.g. none for `Modular<int64_t,Integer>`, and `Modular<int16_t,int64_t>(4095)`
gave `4094·4094 = 0`). -/

section generic
variable (k : GCfg) (hv : k.valid) (p a b c : Int) (hp : 2 ≤ p) (hm : p ≤ k.maxCard)
include hv hp hm

theorem generic_add_exact (ha : isCanonU p a) (hb : isCanonU p b) : k.add p a b = canonU p (a + b) :=
  gadd_model (gok_of_valid k hv p hp hm) ha hb
theorem generic_sub_exact (ha : isCanonU p a) (hb : isCanonU p b) :
    k.sub p a b = canonU p (a - b) ∧ k.subin p a b = canonU p (a - b) :=
  gsub_model (gok_of_valid k hv p hp hm) ha hb
theorem generic_neg_exact (ha : isCanonU p a) : k.neg p a = canonU p (-a) :=
  gneg_model (gok_of_valid k hv p hp hm) ha
theorem generic_mul_exact (ha : isCanonU p a) (hb : isCanonU p b) : k.mul p a b = canonU p (a * b) :=
  gmul_model (gok_of_valid k hv p hp hm) ha hb
theorem generic_axpy_exact (ha : isCanonU p a) (hb : isCanonU p b) (hc : isCanonU p c) :
    k.axpy p a b c = canonU p (a * b + c) ∧ k.axpyin p c a b = canonU p (a * b + c) :=
  gaxpy_model (gok_of_valid k hv p hp hm) ha hb hc
theorem generic_axmy_exact (ha : isCanonU p a) (hb : isCanonU p b) (hc : isCanonU p c) :
    k.axmy p a b c = canonU p (a * b - c) ∧ k.axmyin p c a b = canonU p (a * b - c) :=
  gaxmy_model (gok_of_valid k hv p hp hm) ha hb hc
theorem generic_maxpy_exact (ha : isCanonU p a) (hb : isCanonU p b) (hc : isCanonU p c) :
    k.maxpy p a b c = canonU p (c - a * b) ∧ k.maxpyin p c a b = canonU p (c - a * b) :=
  gmaxpy_model (gok_of_valid k hv p hp hm) ha hb hc
/-- reduce of any value of the element type -/
theorem generic_reduce_exact (y : Int) (hy : k.sg = false → 0 ≤ y) : k.reduce p y = canonU p y :=
  greduce_model (gok_of_valid k hv p hp hm) y hy

/-- inv / invin: the two-variable Euclid with the deferred cofactor update never exceeds `p` and returns the inverse -/
theorem generic_inv_exact (ha : isCanonU p a) (hu : Int.gcd a p = 1) :
    isCanonU p (k.inv p a) ∧ (k.inv p a * a) % p = 1 % p :=
  ginv_spec (gok_of_valid k hv p hp hm) ha hu

/-- div / divin -/
theorem generic_div_exact (ha : isCanonU p a) (hb : isCanonU p b) (hu : Int.gcd b p = 1) :
    isQuot false p a b (k.div p a b) = true := by
  obtain ⟨hi, hc⟩ := generic_inv_exact k hv p b hp hm hb hu
  have ok := gok_of_valid k hv p hp hm
  have e1 : k.div p a b = (k.inv p b * a) % p := by unfold GCfg.div; rw [gmul_model ok ha hi, Int.mul_comm]
  rw [e1]
  unfold isQuot
  simp only [decide_eq_true_eq, isCanon, Bool.false_eq_true, if_false]
  refine ⟨canonU_isCanon p _ (by omega), ?_⟩
  apply Int.emod_eq_zero_of_dvd
  have h1 : p ∣ k.inv p b * b - 1 := Int.dvd_of_emod_eq_zero (Int.emod_eq_emod_iff_emod_sub_eq_zero.1 hc)
  have h2 := Int.emod_add_mul_ediv (k.inv p b * a) p
  have e : (k.inv p b * a) % p * b - a = a * (k.inv p b * b - 1) - p * ((k.inv p b * a) / p * b) := by
    have : (k.inv p b * a) % p = k.inv p b * a - p * ((k.inv p b * a) / p) := by linarith
    rw [this]; ring
  rw [e]
  exact Int.dvd_sub (Dvd.dvd.mul_left h1 _) (Int.dvd_mul_right _ _)

/-- isUnit (the parent's shared `extended_euclid<Element>`) ↔ gcd(a,p) = 1 -/
theorem generic_isUnit_iff_coprime (ha : isCanonU p a) : k.isUnit p a = true ↔ Int.gcd a p = 1 := by
  have ok := gok_of_valid k hv p hp hm
  have eok := geok ok hv
  have hE : k.asI.toE p = p := (ok.small (by omega : (0 : Int) ≤ p) (by omega)).1
  rw [hE] at eok
  obtain ⟨h1, _, _, _⟩ := euclid_spec eok ha hp
  have hmo : k.asI.mOne p = p - 1 := by
    unfold ICfg.mOne
    have hU : k.asI.arU (p - 1) = p - 1 := by
      obtain ⟨s, sg⟩ := k
      simp only [GCfg.valid] at hv
      rcases hv with h | h | h | h <;> subst h <;> cases sg <;>
        simp only [GCfg.maxCard] at hm <;> norm_num at hm <;>
        simp only [GCfg.asI, ICfg.arU, wrapUw, wrapSw] <;> norm_num <;> omega
    rw [hU]; exact (ok.small (by omega) (by omega)).1
  unfold GCfg.isUnit ICfg.isUnit
  rw [hE]
  simp only [h1, hmo, Bool.or_eq_true, beq_iff_eq]
  constructor
  · rintro (h | h)
    · exact_mod_cast h
    · have hd : ((Int.gcd a p : Nat) : Int) ∣ p := Int.gcd_dvd_right a p
      rw [h] at hd
      have : p - 1 ∣ 1 := by
        have := Int.dvd_sub hd (Int.dvd_refl (p - 1))
        simpa using this
      have := Int.le_of_dvd (by decide) this
      have : p = 2 := by omega
      subst this
      have : ((Int.gcd a 2 : Nat) : Int) = 1 := by rw [h]; rfl
      exact_mod_cast this
  · intro h; left; rw [h]; rfl

theorem generic_exactOps : ExactOps (k.ops p) (canonU p) (isCanonU p) where
  cn_ok x := canonU_isCanon p x (by omega)
  add a b ha hb := by simp only [GCfg.ops]; rw [generic_add_exact k hv p a b hp hm ha hb]
  sub a b ha hb := by simp only [GCfg.ops]; rw [(generic_sub_exact k hv p a b hp hm ha hb).1]
  mul a b ha hb := by simp only [GCfg.ops]; rw [generic_mul_exact k hv p a b hp hm ha hb]
  neg a ha := by simp only [GCfg.ops]; rw [generic_neg_exact k hv p a hp hm ha]
  axpy a x y ha hx hy := by simp only [GCfg.ops]; rw [(generic_axpy_exact k hv p a x y hp hm ha hx hy).1]
  axmy a x y ha hx hy := by simp only [GCfg.ops]; rw [(generic_axmy_exact k hv p a x y hp hm ha hx hy).1]
  maxpy a x y ha hx hy := by simp only [GCfg.ops]; rw [(generic_maxpy_exact k hv p a x y hp hm ha hx hy).1]
  axpyin r a x hr ha hx := by simp only [GCfg.ops]; rw [(generic_axpy_exact k hv p a x r hp hm ha hx hr).2]
  axmyin r a x hr ha hx := by simp only [GCfg.ops]; rw [(generic_axmy_exact k hv p a x r hp hm ha hx hr).2]
  maxpyin r a x hr ha hx := by simp only [GCfg.ops]; rw [(generic_maxpy_exact k hv p a x r hp hm ha hx hr).2]
  addin r a hr ha := by simp only [GCfg.ops]; rw [generic_add_exact k hv p r a hp hm hr ha]
  subin r a hr ha := by simp only [GCfg.ops]; rw [(generic_sub_exact k hv p r a hp hm hr ha).2]
  mulin r a hr ha := by simp only [GCfg.ops]; rw [generic_mul_exact k hv p r a hp hm hr ha]
  negin r hr := by simp only [GCfg.ops]; rw [generic_neg_exact k hv p r hp hm hr]

/-- **history theorem** for the generic ring -/
theorem generic_history_exact (prog : List Instr) (r : Regs) (hr : ∀ i, isCanonU p (r i)) :
    (k.ops p).run prog r = some (runZ (canonU p) prog r) ∧ ∀ i, isCanonU p (runZ (canonU p) prog r i) :=
  run_exact (generic_exactOps k hv p hp hm) prog r hr

end generic
example : (GCfg.mk 16 true).valid ∧ (128 : Int) ≤ (GCfg.mk 16 true).maxCard := by decide
example : (GCfg.mk 16 true).axmy 128 127 127 0 = canonU 128 (127 * 127) ∧ (GCfg.mk 16 true).inv 127 5 = 51 := by decide
/-- tightness: the element type no longer holds `p(p−1)+1` at 182 (what the unpatched class silently allowed) -/
example : (GCfg.mk 16 true).axmy 182 181 181 0 ≠ canonU 182 (181 * 181) := by decide

/-! ## histories: programs of any length over add/sub/neg/mul/axpy/axmy/maxpy and all in-place forms

A program is a list of API calls on a register file (sources may coincide; an in-place form updates its
first operand).  Running it on the ring's representation with the model of the ring's code gives, for
EVERY program, exactly what running it on plain residues gives (`runZ`: exact integer operation then
the canonical map) — by induction over the program from the per-operation theorems above. -/

section floating2
variable (k : FCfg) (hv : k.valid) (p r a x : Int) (hp : 2 ≤ p) (hm : p ≤ k.maxCard)
include hv hp hm

/-- maxpyin(r,a,x): `tmp = a*x + (p - r)`, `tmp < p ? tmp : fmod(tmp,p)`, negin -/
theorem float_maxpyin_exact (hr : isCanonU p r) (ha : isCanonU p a) (hx : isCanonU p x) :
    k.maxpyin p r a x = some (canonU p (r - a * x)) := by
  have ok := fok_of_valid k hv p hp hm
  have hab := mul_lt_sq hp ha hx
  unfold isCanonU at hr
  have h1 : (p - 1) * (p - 1) + p ≤ p * (p - 1) + 1 := by nlinarith
  have h2 : p ≤ p * (p - 1) + 1 := by nlinarith
  unfold FCfg.maxpyin
  rw [ok.fC_id (a * x) hab.1 (by omega)]
  simp only [Option.bind_eq_bind, Option.bind_some]
  rw [ok.fC_id (p - r) (by omega) (by omega)]
  simp only [Option.bind_some]
  rw [ok.fC_id (a * x + (p - r)) (by omega) (by omega)]
  simp only [Option.bind_some]
  have hv' : (if a * x + (p - r) < p then a * x + (p - r) else Int.tmod (a * x + (p - r)) p) = (a * x - r) % p := by
    have e : a * x + (p - r) = (a * x - r) + p * 1 := by ring
    split
    · rw [← Int.emod_eq_of_lt (by omega : 0 ≤ a * x + (p - r)) (by assumption), e, Int.add_mul_emod_self_left]
    · rw [Int.tmod_eq_emod_of_nonneg (by omega), e, Int.add_mul_emod_self_left]
  rw [hv']
  have h0 := Int.emod_nonneg (a * x - r) (by omega : p ≠ 0)
  have h3 := Int.emod_lt_of_pos (a * x - r) (by omega : 0 < p)
  rw [ok.fS_id _ h0 (by omega)]
  simp only [Option.bind_some]
  rw [float_neg_exact k hv p _ hp hm ⟨h0, h3⟩]
  unfold canonU
  have h := Int.emod_add_mul_ediv (a * x - r) p
  have e : -((a * x - r) % p) = (r - a * x) + p * ((a * x - r) / p) := by linarith
  rw [e, Int.add_mul_emod_self_left]

/-- axmyin(r,a,x): maxpyin then negin -/
theorem float_axmyin_exact (hr : isCanonU p r) (ha : isCanonU p a) (hx : isCanonU p x) :
    k.axmyin p r a x = some (canonU p (a * x - r)) := by
  unfold FCfg.axmyin
  rw [float_maxpyin_exact k hv p r a x hp hm hr ha hx]
  simp only [Option.bind_eq_bind, Option.bind_some]
  rw [float_neg_exact k hv p _ hp hm (canonU_isCanon p _ (by omega))]
  unfold canonU
  have h := Int.emod_add_mul_ediv (r - a * x) p
  have e : -((r - a * x) % p) = (a * x - r) + p * ((r - a * x) / p) := by linarith
  rw [e, Int.add_mul_emod_self_left]

end floating2

theorem integral_exactOps (k : ICfg) (hv : k.valid) (p : Int) (hp : 2 ≤ p) (hm : p ≤ k.maxCard) :
    ExactOps (k.ops p) (canonU p) (isCanonU p) where
  cn_ok x := canonU_isCanon p x (by omega)
  add a b ha hb := by simp only [ICfg.ops]; rw [integral_add_exact k hv p a b hp hm ha hb]
  sub a b ha hb := by simp only [ICfg.ops]; rw [integral_sub_exact k hv p a b hp hm ha hb]
  mul a b ha hb := by simp only [ICfg.ops]; rw [integral_mul_exact k hv p a b hp hm ha hb]
  neg a ha := by simp only [ICfg.ops]; rw [integral_neg_exact k hv p a hp hm ha]
  axpy a x y ha hx hy := by simp only [ICfg.ops]; rw [integral_axpy_exact k hv p a x y hp hm ha hx hy]
  axmy a x y ha hx hy := by simp only [ICfg.ops]; rw [integral_axmy_exact k hv p a x y hp hm ha hx hy]
  maxpy a x y ha hx hy := by simp only [ICfg.ops]; rw [integral_maxpy_exact k hv p a x y hp hm ha hx hy]
  axpyin r a x hr ha hx := by simp only [ICfg.ops]; rw [integral_axpy_exact k hv p a x r hp hm ha hx hr]
  axmyin r a x hr ha hx := by simp only [ICfg.ops]; rw [integral_axmy_exact k hv p a x r hp hm ha hx hr]
  maxpyin r a x hr ha hx := by simp only [ICfg.ops]; rw [integral_maxpy_exact k hv p a x r hp hm ha hx hr]
  addin r a hr ha := by simp only [ICfg.ops]; rw [integral_add_exact k hv p r a hp hm hr ha]
  subin r a hr ha := by simp only [ICfg.ops]; rw [integral_sub_exact k hv p r a hp hm hr ha]
  mulin r a hr ha := by simp only [ICfg.ops]; rw [integral_mul_exact k hv p r a hp hm hr ha]
  negin r hr := by simp only [ICfg.ops]; rw [integral_neg_exact k hv p r hp hm hr]

/-- **history theorem**, `Modular<intN_t|uintN_t[,uint2N_t]>` (all 16 configurations): every program -/
theorem integral_history_exact (k : ICfg) (hv : k.valid) (p : Int) (hp : 2 ≤ p) (hm : p ≤ k.maxCard)
    (prog : List Instr) (r : Regs) (hr : ∀ i, isCanonU p (r i)) :
    (k.ops p).run prog r = some (runZ (canonU p) prog r) ∧ ∀ i, isCanonU p (runZ (canonU p) prog r i) :=
  run_exact (integral_exactOps k hv p hp hm) prog r hr
example : ((ICfg.mk 32 false 64).ops 4294967295).run [.mul 2 0 1, .axpyin 2 0 0, .maxpyin 0 2 2, .negin 0]
      ⟨4294967294, 4294967293, 0, 5⟩
    = some (runZ (canonU 4294967295) [.mul 2 0 1, .axpyin 2 0 0, .maxpyin 0 2 2, .negin 0] ⟨4294967294, 4294967293, 0, 5⟩) := by
  decide

theorem float_exactOps (k : FCfg) (hv : k.valid) (p : Int) (hp : 2 ≤ p) (hm : p ≤ k.maxCard) :
    ExactOps (k.ops p) (canonU p) (isCanonU p) where
  cn_ok x := canonU_isCanon p x (by omega)
  add a b ha hb := float_add_exact k hv p a b hp hm ha hb
  sub a b ha hb := float_sub_exact k hv p a b hp hm ha hb
  mul a b ha hb := float_mul_exact k hv p a b hp hm ha hb
  neg a ha := float_neg_exact k hv p a hp hm ha
  axpy a x y ha hx hy := float_axpy_exact k hv p a x y hp hm ha hx hy
  axmy a x y ha hx hy := float_axmy_exact k hv p a x y hp hm ha hx hy
  maxpy a x y ha hx hy := float_maxpy_exact k hv p a x y hp hm ha hx hy
  axpyin r a x hr ha hx := float_axpy_exact k hv p a x r hp hm ha hx hr
  axmyin r a x hr ha hx := float_axmyin_exact k hv p r a x hp hm hr ha hx
  maxpyin r a x hr ha hx := float_maxpyin_exact k hv p r a x hp hm hr ha hx
  addin r a hr ha := float_add_exact k hv p r a hp hm hr ha
  subin r a hr ha := float_sub_exact k hv p r a hp hm hr ha
  mulin r a hr ha := float_mul_exact k hv p r a hp hm hr ha
  negin r hr := float_neg_exact k hv p r hp hm hr

/-- **history theorem**, `Modular<float>`, `Modular<double>`, `Modular<float,double>`: no rounding ever
    becomes observable, whatever the length of the computation (`some`) -/
theorem float_history_exact (k : FCfg) (hv : k.valid) (p : Int) (hp : 2 ≤ p) (hm : p ≤ k.maxCard)
    (prog : List Instr) (r : Regs) (hr : ∀ i, isCanonU p (r i)) :
    (k.ops p).run prog r = some (runZ (canonU p) prog r) ∧ ∀ i, isCanonU p (runZ (canonU p) prog r i) :=
  run_exact (float_exactOps k hv p hp hm) prog r hr

theorem balanced_float_exactOps (k : BFCfg) (hv : k.valid) (p : Int) (hp : 3 ≤ p) (hm : p ≤ k.maxCard) :
    ExactOps (k.ops p) (canonB p) (isCanonB p) where
  cn_ok x := canonB_isCanon p x (by omega)
  add a b ha hb := (balanced_float_add_sub_exact k hv p a b hp hm ha hb).1
  sub a b ha hb := (balanced_float_add_sub_exact k hv p a b hp hm ha hb).2
  mul a b ha hb := balanced_float_mul_exact k hv p a b hp hm ha hb
  neg a ha := balanced_float_neg_exact k hv p a hp hm ha
  axpy a x y ha hx hy := (balanced_float_axpy_exact k hv p a x y hp hm ha hx hy).1
  axmy a x y ha hx hy := (balanced_float_axpy_exact k hv p a x y hp hm ha hx hy).2.1
  maxpy a x y ha hx hy := (balanced_float_axpy_exact k hv p a x y hp hm ha hx hy).2.2
  axpyin r a x hr ha hx := (balanced_float_axpy_exact k hv p a x r hp hm ha hx hr).1
  axmyin r a x hr ha hx := (balanced_float_axpy_exact k hv p a x r hp hm ha hx hr).2.1
  maxpyin r a x hr ha hx := (balanced_float_axpy_exact k hv p a x r hp hm ha hx hr).2.2
  addin r a hr ha := (balanced_float_add_sub_exact k hv p r a hp hm hr ha).1
  subin r a hr ha := (balanced_float_add_sub_exact k hv p r a hp hm hr ha).2
  mulin r a hr ha := balanced_float_mul_exact k hv p r a hp hm hr ha
  negin r hr := balanced_float_neg_exact k hv p r hp hm hr

/-- **history theorem**, `ModularBalanced<float|double>` -/
theorem balanced_float_history_exact (k : BFCfg) (hv : k.valid) (p : Int) (hp : 3 ≤ p) (hm : p ≤ k.maxCard)
    (prog : List Instr) (r : Regs) (hr : ∀ i, isCanonB p (r i)) :
    (k.ops p).run prog r = some (runZ (canonB p) prog r) ∧ ∀ i, isCanonB p (runZ (canonB p) prog r i) :=
  run_exact (balanced_float_exactOps k hv p hp hm) prog r hr

/-- the quotient estimates of `ModularBalanced<intN_t>` are within 3/2 of the true quotient on canonical operands
    (what `balanced_int_fma_exact_partial` needs; validated by correspondence with the soft-float model) -/
def QClose (p : Int) : Prop :=
  ∀ a b c, isCanonB p a → isCanonB p b → isCanonB p c →
    (p / 2 - p + 1 - p ≤ a * b + 0 - BICfg.qMul p a b * p ∧ a * b + 0 - BICfg.qMul p a b * p ≤ p / 2 + p)
    ∧ (p / 2 - p + 1 - p ≤ a * b + c - BICfg.qAxpy p a b c * p ∧ a * b + c - BICfg.qAxpy p a b c * p ≤ p / 2 + p)
    ∧ (p / 2 - p + 1 - p ≤ a * b + -c - BICfg.qAxpy p a b (-c) * p ∧ a * b + -c - BICfg.qAxpy p a b (-c) * p ≤ p / 2 + p)

theorem balanced_int_add_sub_exact (k : BICfg) (hv : k.valid) (p a b : Int) (hp : 3 ≤ p) (hm : p ≤ k.maxCard)
    (ha : isCanonB p a) (hb : isCanonB p b) :
    k.add p a b = canonB p (a + b) ∧ k.sub p a b = canonB p (a - b) := by
  unfold isCanonB at ha hb
  have e : ∀ x, -p ≤ x → x ≤ p → k.wr x = x := by
    intro x hx0 hx1
    obtain ⟨w⟩ := k
    simp only [BICfg.valid] at hv
    rcases hv with h | h <;> subst h <;> simp only [BICfg.maxCard] at hm <;> norm_num at hm <;>
      simp only [BICfg.wr, wrapSw] <;> norm_num <;> omega
  unfold BICfg.add BICfg.sub
  rw [e _ (by omega) (by omega), e _ (by omega) (by omega)]
  exact ⟨normB_canon (by omega) (by omega) (by omega), normB_canon (by omega) (by omega) (by omega)⟩

theorem balanced_int_exactOps_partial (k : BICfg) (hv : k.valid) (p : Int) (hp : 3 ≤ p) (hm : p ≤ k.maxCard)
    (hq : QClose p) : ExactOps (k.ops p) (canonB p) (isCanonB p) := by
  have hz : isCanonB p 0 := by unfold isCanonB; omega
  have hmul : ∀ a b, isCanonB p a → isCanonB p b → k.mul p a b = canonB p (a * b) := by
    intro a b ha hb
    have := (hq a b 0 ha hb hz).1
    unfold BICfg.mul
    rw [balanced_int_fma_exact_partial k hv p _ a b 0 hp this.1 this.2 hm]; simp
  have haxpy : ∀ a x y, isCanonB p a → isCanonB p x → isCanonB p y → k.axpy p a x y = canonB p (a * x + y) := by
    intro a x y ha hx hy
    have := (hq a x y ha hx hy).2.1
    unfold BICfg.axpy
    exact balanced_int_fma_exact_partial k hv p _ a x y hp this.1 this.2 hm
  have haxmy : ∀ a x y, isCanonB p a → isCanonB p x → isCanonB p y → k.axmy p a x y = canonB p (a * x - y) := by
    intro a x y ha hx hy
    have := (hq a x y ha hx hy).2.2
    unfold BICfg.axmy
    rw [balanced_int_fma_exact_partial k hv p _ a x (-y) hp this.1 this.2 hm]; rfl
  have hmaxpy : ∀ a x y, isCanonB p a → isCanonB p x → isCanonB p y → k.maxpy p a x y = canonB p (y - a * x) := by
    intro a x y ha hx hy
    unfold BICfg.maxpy
    rw [haxmy a x y ha hx hy, balanced_int_neg_exact k hv p _ hp hm (canonB_isCanon p _ (by omega))]
    apply Givaro.Model.ModRing.canonB_congr
    have h := canonB_congr p (a * x - y)
    have h2 := Int.dvd_of_emod_eq_zero h
    apply Int.emod_eq_emod_iff_emod_sub_eq_zero.2
    apply Int.emod_eq_zero_of_dvd
    have e : -canonB p (a * x - y) - (y - a * x) = -(canonB p (a * x - y) - (a * x - y)) := by ring
    rw [e]; exact (Int.dvd_neg).2 h2
  exact {
    cn_ok := fun x => canonB_isCanon p x (by omega)
    add := fun a b ha hb => by simp only [BICfg.ops]; rw [(balanced_int_add_sub_exact k hv p a b hp hm ha hb).1]
    sub := fun a b ha hb => by simp only [BICfg.ops]; rw [(balanced_int_add_sub_exact k hv p a b hp hm ha hb).2]
    mul := fun a b ha hb => by simp only [BICfg.ops]; rw [hmul a b ha hb]
    neg := fun a ha => by simp only [BICfg.ops]; rw [balanced_int_neg_exact k hv p a hp hm ha]
    axpy := fun a x y ha hx hy => by simp only [BICfg.ops]; rw [haxpy a x y ha hx hy]
    axmy := fun a x y ha hx hy => by simp only [BICfg.ops]; rw [haxmy a x y ha hx hy]
    maxpy := fun a x y ha hx hy => by simp only [BICfg.ops]; rw [hmaxpy a x y ha hx hy]
    axpyin := fun r a x hr ha hx => by simp only [BICfg.ops]; rw [haxpy a x r ha hx hr]
    axmyin := fun r a x hr ha hx => by simp only [BICfg.ops]; rw [haxmy a x r ha hx hr]
    maxpyin := fun r a x hr ha hx => by simp only [BICfg.ops]; rw [hmaxpy a x r ha hx hr]
    addin := fun r a hr ha => by simp only [BICfg.ops]; rw [(balanced_int_add_sub_exact k hv p r a hp hm hr ha).1]
    subin := fun r a hr ha => by simp only [BICfg.ops]; rw [(balanced_int_add_sub_exact k hv p r a hp hm hr ha).2]
    mulin := fun r a hr ha => by simp only [BICfg.ops]; rw [hmul r a hr ha]
    negin := fun r hr => by simp only [BICfg.ops]; rw [balanced_int_neg_exact k hv p r hp hm hr] }

/-- **history theorem**, `ModularBalanced<int32_t|int64_t>`, under the closeness of the floating quotient estimate
    (full statement: the same without `hq`; `QClose p` for the IEEE estimate is tied by correspondence only) -/
theorem balanced_int_history_exact_partial (k : BICfg) (hv : k.valid) (p : Int) (hp : 3 ≤ p) (hm : p ≤ k.maxCard)
    (hq : QClose p) (prog : List Instr) (r : Regs) (hr : ∀ i, isCanonB p (r i)) :
    (k.ops p).run prog r = some (runZ (canonB p) prog r) ∧ ∀ i, isCanonB p (runZ (canonB p) prog r i) :=
  run_exact (balanced_int_exactOps_partial k hv p hp hm hq) prog r hr

end Givaro.Props.C03
