/-
C20 (follow-up round) — the random-drawing entry points of the remaining ring / field classes.

Theorems about `Model/RandomRings.lean`: `Modular<float|double>`, `ModularBalanced<int32_t|int64_t|float|double>`,
`Montgomery<int32_t>`, `ZRing<intN|uintN|double>`, `GF2`, `Extension<Modular<int32_t>>` — `random`, `nonzerorandom`, the
iterator classes `ModularRandIter`, `GeneralRingRandIter` (with a sampling size), `GeneralRingNonZeroRandIter`,
`GIV_randIter<GF2>`.  Every statement is for all moduli, all generator states (all 64-bit draw values, not only the ones
GivRandom can return), all destinations and arbitrarily long call lists.
-/
import GivaroModel.Props.C20
import GivaroModel.Model.RandomRings
import GivaroModel.Lemmas.MontgomeryLemmas
import GivaroModel.Lemmas.RationalLemmas
namespace Givaro.Props.C20Rings
open Givaro Givaro.Model.Random Givaro.Model.RandomRings Givaro.Spec.Random Givaro.Lemmas.Random Givaro.Props.C20

/-- the class's `init(Element&, uint64_t)` maps **every** 64-bit value into the set `C` -/
def InitInto (R : RingDraw) (C : Int → Prop) : Prop := ∀ y : Int, 0 ≤ y → y < 18446744073709551616 → C (R.init y)

/-! ### the classes: `init(r, y)` is canonical for every draw value `y` -/

/-- the balanced checker says what the property says -/
theorem canonicalBal_iff (p e : Int) : canonicalBal p e = true ↔ p / 2 - p + 1 ≤ e ∧ e ≤ p / 2 := by
  unfold canonicalBal; simp only [decide_eq_true_eq]

/-- `Modular<float>` / `Modular<double>`: in `[0, p)` for every modulus and every 64-bit draw -/
theorem flt_init_canonical (p : Int) (hp : 1 ≤ p) : InitInto (fltRing p) (fun e => canonical p e = true) := by
  intro y _ _
  exact (canonical_iff p _).2 ⟨Int.emod_nonneg y (by omega), Int.emod_lt_of_pos y (by omega)⟩

example : canonical 4093 ((fltRing 4093).init 18446744073709551615) = true :=
  flt_init_canonical 4093 (by decide) _ (by decide) (by decide)

/-- `ModularBalanced<T>`: in `[⌊p/2⌋ - p + 1, ⌊p/2⌋]` for every modulus on which the conversion to `T` is the identity
    (`|x| ≤ p`), and every 64-bit draw -/
theorem bal_init_canonical (wr : Int → Int) (p : Int) (hp : 1 ≤ p) (hwr : ∀ x : Int, -p ≤ x → x ≤ p → wr x = x) :
    InitInto (balRing wr p) (fun e => canonicalBal p e = true) := by
  intro y _ _
  have h0 := Int.emod_nonneg y (show p ≠ 0 by omega)
  have h1 := Int.emod_lt_of_pos y (show 0 < p by omega)
  rw [canonicalBal_iff]
  show p / 2 - p + 1 ≤ (if wr (y % p) > p / 2 then wr (wr (y % p) - p) else wr (y % p)) ∧
       (if wr (y % p) > p / 2 then wr (wr (y % p) - p) else wr (y % p)) ≤ p / 2
  rw [hwr (y % p) (by omega) (by omega)]
  split
  · rw [hwr _ (by omega) (by omega)]; omega
  · omega

/-- `ModularBalanced<int32_t>` (every modulus of the storage type's positive half, beyond `maxCardinality()` = 131072) -/
theorem bal32_init_canonical (p : Int) (hp : 1 ≤ p) (hfit : p ≤ 2147483647) :
    InitInto (balRing wrapS32 p) (fun e => canonicalBal p e = true) :=
  bal_init_canonical wrapS32 p hp (fun x _ _ => by unfold wrapS32; omega)

/-- `ModularBalanced<int64_t>` -/
theorem bal64_init_canonical (p : Int) (hp : 1 ≤ p) (hfit : p ≤ 9223372036854775807) :
    InitInto (balRing wrapS64 p) (fun e => canonicalBal p e = true) :=
  bal_init_canonical wrapS64 p hp (fun x _ _ => by unfold wrapS64; omega)

/-- `ModularBalanced<float>` / `ModularBalanced<double>` -/
theorem balflt_init_canonical (p : Int) (hp : 1 ≤ p) : InitInto (balRing id p) (fun e => canonicalBal p e = true) :=
  bal_init_canonical id p hp (fun _ _ _ => rfl)

example : canonicalBal 101 ((balRing wrapS32 101).init 18446744073709551615) = true :=
  bal32_init_canonical 101 (by decide) (by decide) _ (by decide) (by decide)
example : (balRing wrapS32 101).init 51 = -50 ∧ (balRing wrapS32 101).init 50 = 50 := by decide

/-- `Montgomery<int32_t>`: the stored Montgomery form is in `[0, p)` for every admissible modulus (odd, 3 ≤ p ≤ 40503 =
    `maxCardinality()`) and every 64-bit draw -/
theorem mg_init_canonical (p : Int) (h3 : 3 ≤ p) (hmax : p ≤ 40503) (hodd : p % 2 = 1) :
    InitInto (mgRing p) (fun e => canonical p e = true) := by
  intro y hy _
  have r := Givaro.Lemmas.Montgomery.initU64_rep (Givaro.Lemmas.Montgomery.mk32_good h3 hmax hodd) hy
  have h := Givaro.Lemmas.Montgomery.isRep_iff.mp r
  exact (canonical_iff p _).2 ⟨h.1, h.2.1⟩

example : canonical 40503 ((mgRing 40503).init 18446744073709551615) = true :=
  mg_init_canonical 40503 (by decide) (by decide) (by decide) _ (by decide) (by decide)

/-- `ZRing<intN_t|uintN_t>`: the element is a value of the element type -/
theorem zint_init_range (bits : Nat) (sgn : Bool) (hb : 1 ≤ bits) :
    InitInto (zintRing bits sgn) (fun e => if sgn then -(2 ^ (bits - 1)) ≤ e ∧ e < 2 ^ (bits - 1) else 0 ≤ e ∧ e < 2 ^ bits) := by
  intro y _ _
  have hpos : (0 : Int) < 2 ^ bits := by positivity
  have hh : (2 : Int) ^ bits = 2 * 2 ^ (bits - 1) := by
    obtain ⟨k, rfl⟩ : ∃ k, bits = k + 1 := ⟨bits - 1, by omega⟩
    simp only [Nat.add_sub_cancel]; rw [pow_succ]; ring
  have m0 := fun x : Int => Int.emod_nonneg x (show (2 : Int) ^ bits ≠ 0 by omega)
  have m1 := fun x : Int => Int.emod_lt_of_pos x hpos
  simp only [zintRing, castSt]
  cases sgn
  · simp only [Bool.false_eq_true, ↓reduceIte]; exact ⟨m0 y, m1 y⟩
  · simp only [↓reduceIte]
    have a := m0 (y + 2 ^ (bits - 1)); have b := m1 (y + 2 ^ (bits - 1))
    omega

example : (zintRing 8 true).init 200 = -56 := by decide

/-- size-bounded sampling on `ZRing<intN|uintN>`: `GeneralRingRandIter(F, seed, size)` with a sampling size that the element type
    holds returns an element of `[0, size)`, from every generator state -/
theorem zring_sized_draw_range (bits : Nat) (sgn : Bool) (hb : 1 ≤ bits) (sz : Int) (h0 : 0 < sz) (h1 : sz ≤ 2 ^ (bits - 1)) (old g : Int) :
    0 ≤ (rRandomSzD (zintRing bits sgn) sz old g).1 ∧ (rRandomSzD (zintRing bits sgn) sz old g).1 < sz := by
  have a := Int.emod_nonneg (givNext g) (show sz ≠ 0 by omega)
  have b := Int.emod_lt_of_pos (givNext g) h0
  simp only [rRandomSzD, overwrite, zintRing]
  rw [if_pos (by omega), castSt_id bits sgn _ hb a (by omega)]
  exact ⟨a, b⟩

example : 0 ≤ (rRandomSzD (zintRing 8 true) 100 (-1) 7).1 ∧ (rRandomSzD (zintRing 8 true) 100 (-1) 7).1 < 100 :=
  zring_sized_draw_range 8 true (by decide) 100 (by decide) (by decide) _ _

/-! ### the member functions and iterators, for every class -/

section Generic
variable (R : RingDraw) (C : Int → Prop) (hC : InitInto R C)
include hC

/-- `random(g, r)` lies in the class's element set, from every generator state and into every destination -/
theorem rRandom_in (old g : Int) : C (rRandomD R old g).1 := hC _ (givnext_u64 g).1 (givnext_u64 g).2

/-- `GeneralRingRandIter` with any sampling size (`g() % size`, or `g()` for size 0) -/
theorem rRandomSz_in (sz : Int) (hs : 0 ≤ sz) (old g : Int) : C (rRandomSzD R sz old g).1 := by
  have hg := givnext_u64 g
  simp only [rRandomSzD, overwrite]
  split
  · rename_i hne
    have a := Int.emod_nonneg (givNext g) hne
    have b := Int.emod_lt_of_pos (givNext g) (show 0 < sz by omega)
    have c : givNext g % sz ≤ givNext g := by
      by_cases hlt : givNext g < sz
      · rw [Int.emod_eq_of_lt hg.1 hlt]
      · omega
    exact hC _ a (by omega)
  · exact hC _ hg.1 hg.2

/-- whatever `nonzerorandom` / `GeneralRingNonZeroRandIter` returns is in the element set and is not zero -/
theorem rNonzero_spec (fuel : Nat) : ∀ (old g : Int) (eg : Int × Int), rNonzeroD R fuel old g = some eg → C eg.1 ∧ eg.1 ≠ 0 := by
  induction fuel with
  | zero => intro old g eg h; simp [rNonzeroD] at h
  | succ f ih =>
    intro old g eg h
    unfold rNonzeroD at h
    split at h
    · exact ih _ _ _ h
    · rename_i hne
      simp only [Option.some.injEq] at h; subst h
      exact ⟨rRandom_in R C hC old g, hne⟩

/-- one call of any of the modelled forms -/
theorem rStep_spec (fn : Nat) (size : Int) (hs : 0 ≤ size) (hcard : 0 ≤ R.card) (fuel : Nat) (g old : Int) (eg : Int × Int)
    (h : rStepD R fn size fuel g old = some eg) : C eg.1 ∧ ((fn = 3 ∨ fn = 5) → eg.1 ≠ 0) := by
  unfold rStepD at h
  split at h
  · simp only [Option.some.injEq] at h; subst h; exact ⟨rRandom_in R C hC old g, by omega⟩
  · simp only [Option.some.injEq] at h; subst h
    exact ⟨rRandomSz_in R C hC _ (by split <;> omega) old g, by omega⟩
  · have := rNonzero_spec R C hC fuel old g eg h; exact ⟨this.1, fun _ => this.2⟩
  · simp only [Option.some.injEq] at h; subst h; exact ⟨rRandom_in R C hC old g, by omega⟩
  · have := rNonzero_spec R C hC fuel old g eg h; exact ⟨this.1, fun _ => this.2⟩
  · simp at h

/-- **ring_iterator_canonical**: every element of an arbitrarily long run of calls of `ModularRandIter`,
    `GeneralRingRandIter` (any sampling size), `GeneralRingNonZeroRandIter`, `random(g, r)` or `nonzerorandom(g, r)` is in the
    class's element set (and non-zero for the non-zero forms), from every generator state and into every destination -/
theorem ring_iterator_canonical (fn : Nat) (size : Int) (hs : 0 ≤ size) (hcard : 0 ≤ R.card) (fuel : Nat) (olds : List Int) (g : Int)
    (r : List Int × Int) (h : rRun R fn size fuel olds g = some r) :
    r.1.length = olds.length ∧ ∀ e ∈ r.1, C e ∧ ((fn = 3 ∨ fn = 5) → e ≠ 0) := by
  unfold rRun at h
  refine runCalls_all _ (fun e => C e ∧ ((fn = 3 ∨ fn = 5) → e ≠ 0)) ?_ olds g r h
  intro s c o s' hstep
  exact rStep_spec R C hC fn size hs hcard fuel s c (o, s') hstep

end Generic

example : ∀ r, rRun (balRing wrapS32 101) 5 0 64 [-1, -1, -1] 7 = some r →
    r.1.length = 3 ∧ ∀ e ∈ r.1, canonicalBal 101 e = true ∧ ((5 = 3 ∨ 5 = 5) → e ≠ 0) :=
  fun r h => ring_iterator_canonical _ _ (bal32_init_canonical 101 (by decide) (by decide)) 5 0 (by decide) (by decide) 64 _ 7 r h
example : (rRun (balRing wrapS32 101) 5 0 64 [-1, -1, -1] 7).isSome = true := by decide

/-! ### destination independence, determinism, copies -/

theorem rNonzeroD_dest_indep (R : RingDraw) (fuel : Nat) : ∀ old old' g : Int, rNonzeroD R fuel old g = rNonzeroD R fuel old' g := by
  induction fuel with
  | zero => intro _ _ _; rfl
  | succ f ih =>
    intro old old' g
    unfold rNonzeroD
    rw [show rRandomD R old g = rRandomD R old' g from rfl]

/-- one call does not depend on what the destination held -/
theorem rStep_dest_indep (R : RingDraw) (fn : Nat) (size : Int) (fuel : Nat) (g old old' : Int) :
    rStepD R fn size fuel g old = rStepD R fn size fuel g old' := by
  unfold rStepD
  split
  · rfl
  · rfl
  · exact rNonzeroD_dest_indep R fuel old old' g
  · rfl
  · exact rNonzeroD_dest_indep R fuel old old' g
  · rfl

/-- the elements returned for a list of calls and the generator state left behind do not depend on the destinations -/
theorem rRun_dest_indep (R : RingDraw) (fn : Nat) (size : Int) (fuel : Nat) (olds olds' : List Int) (h : olds.length = olds'.length)
    (g : Int) : rRun R fn size fuel olds g = rRun R fn size fuel olds' g := by
  unfold rRun
  apply runCalls_congr _ (fun _ _ => True) (fun s c c' _ => rStep_dest_indep R fn size fuel s c c')
  exact List.forall₂_iff_get.2 ⟨h, fun _ _ _ => trivial⟩

example : rRun (fltRing 101) 5 0 64 [-1, -1, -1] 7 = rRun (fltRing 101) 5 0 64 [0, 5, 1000] 7 :=
  rRun_dest_indep _ 5 0 64 _ _ rfl 7

/-- copy semantics: the iterator (or generator) copied after the calls `cs₁` and then given `cs₂` returns what the original
    would have returned — the sequence for `cs₁ ++ cs₂` is the concatenation -/
theorem rRun_append (R : RingDraw) (fn : Nat) (size : Int) (fuel : Nat) (cs₁ cs₂ : List Int) (g : Int)
    (r₁ : List Int × Int) (h₁ : rRun R fn size fuel cs₁ g = some r₁)
    (r₂ : List Int × Int) (h₂ : rRun R fn size fuel cs₂ r₁.2 = some r₂) :
    rRun R fn size fuel (cs₁ ++ cs₂) g = some (r₁.1 ++ r₂.1, r₂.2) := by
  unfold rRun at *
  rw [runCalls_append, h₁]; simp only; rw [h₂]

example : (rRun (fltRing 101) 0 0 64 [0, 0] 7).isSome = true := by decide

/-- same generator state (same non-zero seed) ⇒ same elements and same successor state, whatever the destinations held -/
theorem ring_same_seed_same_sequence (R : RingDraw) (fn : Nat) (size : Int) (fuel : Nat) (seed₁ seed₂ : Int) (hseed : seed₁ = seed₂)
    (olds₁ olds₂ : List Int) (h : olds₁.length = olds₂.length) :
    rRun R fn size fuel olds₁ (givInit seed₁) = rRun R fn size fuel olds₂ (givInit seed₂) := by
  rw [hseed]; exact rRun_dest_indep R fn size fuel olds₁ olds₂ h _

example : rRun (mgRing 101) 4 0 8 [0, 0] (givInit 5) = rRun (mgRing 101) 4 0 8 [3, 4] (givInit 5) :=
  ring_same_seed_same_sequence _ 4 0 8 5 5 rfl _ _ rfl

/-! ### termination of the non-zero loops -/

/-- fuel lemma: if the `(k+1)`-th draw from state `g` is not mapped to zero, `k+1` iterations suffice -/
theorem rNonzero_isSome_of_iter (R : RingDraw) (k : Nat) : ∀ old g : Int,
    R.init (givIter (k + 1) g) ≠ 0 → (rNonzeroD R (k + 1) old g).isSome = true := by
  induction k with
  | zero =>
    intro old g h
    simp only [givIter] at h
    unfold rNonzeroD
    rw [if_neg (show ¬ (rRandomD R old g).1 = 0 from h)]; rfl
  | succ k ih =>
    intro old g h
    unfold rNonzeroD
    by_cases h0 : (rRandomD R old g).1 = 0
    · rw [if_pos h0]; exact ih _ (givNext g) h
    · rw [if_neg h0]; rfl

/-- **`nonzerorandom` terminates** for every class in which the draw value 1 is not the zero element (the generator reaches 1
    from every valid state: its multiplier is a primitive root modulo 2^31-1) -/
theorem ring_nonzerorandom_terminates (R : RingDraw) (h1 : R.init 1 ≠ 0) (g : Int) (hg1 : 1 ≤ g) (hg2 : g < givMod) :
    ∃ fuel : Nat, ∀ old : Int, (rNonzeroD R fuel old g).isSome = true := by
  obtain ⟨k, hk1, hk⟩ := giv_reaches_one g hg1 (by unfold givMod at hg2; exact hg2)
  obtain ⟨j, rfl⟩ : ∃ j, k = j + 1 := ⟨k - 1, by omega⟩
  exact ⟨j + 1, fun old => rNonzero_isSome_of_iter R j old g (by rw [hk]; exact h1)⟩

theorem flt_init_one (p : Int) (hp : 2 ≤ p) : (fltRing p).init 1 ≠ 0 := by
  simp only [fltRing]; rw [Int.emod_eq_of_lt (by omega) (by omega)]; omega

theorem bal_init_one (wr : Int → Int) (p : Int) (hp : 2 ≤ p) (hwr : ∀ x : Int, -p ≤ x → x ≤ p → wr x = x) : (balRing wr p).init 1 ≠ 0 := by
  simp only [balRing]
  rw [Int.emod_eq_of_lt (by omega) (by omega), hwr 1 (by omega) (by omega)]
  split
  · rw [hwr _ (by omega) (by omega)]; omega
  · omega

/-- `Modular<float|double>::nonzerorandom` and `ModularBalanced<…>::nonzerorandom` terminate for every modulus `p ≥ 2` from every
    valid generator state (every non-zero seed, after any number of draws) -/
theorem flt_bal_nonzerorandom_terminate (p : Int) (hp : 2 ≤ p) (g : Int) (hg1 : 1 ≤ g) (hg2 : g < givMod) :
    (∃ fuel : Nat, ∀ old : Int, (rNonzeroD (fltRing p) fuel old g).isSome = true) ∧
    (∃ fuel : Nat, ∀ old : Int, (rNonzeroD (balRing id p) fuel old g).isSome = true) ∧
    (p ≤ 2147483647 → ∃ fuel : Nat, ∀ old : Int, (rNonzeroD (balRing wrapS32 p) fuel old g).isSome = true) ∧
    (p ≤ 9223372036854775807 → ∃ fuel : Nat, ∀ old : Int, (rNonzeroD (balRing wrapS64 p) fuel old g).isSome = true) :=
  ⟨ring_nonzerorandom_terminates _ (flt_init_one p hp) g hg1 hg2,
   ring_nonzerorandom_terminates _ (bal_init_one id p hp (fun _ _ _ => rfl)) g hg1 hg2,
   fun hf => ring_nonzerorandom_terminates _ (bal_init_one wrapS32 p hp (fun x _ _ => by unfold wrapS32; omega)) g hg1 hg2,
   fun hf => ring_nonzerorandom_terminates _ (bal_init_one wrapS64 p hp (fun x _ _ => by unfold wrapS64; omega)) g hg1 hg2⟩

example : ∃ fuel : Nat, ∀ old : Int, (rNonzeroD (fltRing 2) fuel old 5).isSome = true :=
  (flt_bal_nonzerorandom_terminate 2 (by decide) 5 (by decide) (by decide)).1

/-! ### GF2 -/

/-- every GF2 draw is 0 or 1; the non-zero forms return 1; `nonzerorandom` leaves the generator where it was -/
theorem gf2Step_spec (fn fuel : Nat) (g old : Int) (eg : Int × Int) (h : gf2StepD fn fuel g old = some eg) :
    (eg.1 = 0 ∨ eg.1 = 1) ∧ ((fn = 3 ∨ fn = 5 ∨ fn = 7) → eg.1 = 1) ∧ ((fn = 5 ∨ fn = 7) → eg.2 = g) := by
  have hloop : ∀ (f : Nat) (o s : Int) (r : Int × Int), gf2NzLoopD f o s = some r → r.1 = 1 := by
    intro f
    induction f with
    | zero => intro o s r h; simp [gf2NzLoopD] at h
    | succ f ih =>
      intro o s r h
      unfold gf2NzLoopD at h
      split at h
      · exact ih _ _ _ h
      · rename_i hne
        simp only [Option.some.injEq] at h; subst h
        simp only [gf2RandomD, overwrite] at hne ⊢; omega
  have hr : ∀ o s : Int, (gf2RandomD o s).1 = 0 ∨ (gf2RandomD o s).1 = 1 := by
    intro o s; simp only [gf2RandomD, overwrite]; omega
  unfold gf2StepD at h
  split at h
  · simp only [Option.some.injEq] at h; subst h; exact ⟨hr _ _, by omega, by omega⟩
  · simp only [Option.some.injEq] at h; subst h; exact ⟨hr _ _, by omega, by omega⟩
  · have := hloop _ _ _ _ h; exact ⟨Or.inr this, fun _ => this, by omega⟩
  · simp only [Option.some.injEq] at h; subst h; exact ⟨hr _ _, by omega, by omega⟩
  · simp only [Option.some.injEq] at h; subst h; exact ⟨Or.inr rfl, fun _ => rfl, fun _ => rfl⟩
  · simp only [Option.some.injEq] at h; subst h; exact ⟨hr _ _, by omega, by omega⟩
  · simp only [Option.some.injEq] at h; subst h; exact ⟨Or.inr rfl, fun _ => rfl, fun _ => rfl⟩
  · simp at h

example : gf2StepD 5 0 7 (-1) = some (1, 7) := by decide

theorem gf2NzLoopD_dest_indep (fuel : Nat) : ∀ old old' g : Int, gf2NzLoopD fuel old g = gf2NzLoopD fuel old' g := by
  induction fuel with
  | zero => intro _ _ _; rfl
  | succ f ih => intro old old' g; unfold gf2NzLoopD; rw [show gf2RandomD old g = gf2RandomD old' g from rfl]

/-- GF2 draws do not depend on the destination, over arbitrarily long call lists -/
theorem gf2Run_dest_indep (fn fuel : Nat) (olds olds' : List Int) (h : olds.length = olds'.length) (g : Int) :
    gf2Run fn fuel olds g = gf2Run fn fuel olds' g := by
  unfold gf2Run
  apply runCalls_congr _ (fun _ _ => True) (fun s c c' _ => ?_)
  · exact List.forall₂_iff_get.2 ⟨h, fun _ _ _ => trivial⟩
  · unfold gf2StepD
    split <;> first | rfl | exact gf2NzLoopD_dest_indep fuel c c' s

example : gf2Run 3 64 [0, 0, 0] 7 = gf2Run 3 64 [1, 1, 1] 7 := gf2Run_dest_indep 3 64 _ _ rfl 7

/-- the non-zero GF2 iterator terminates as soon as a draw is odd (fuel lemma) -/
theorem gf2NzLoop_isSome_of_iter (k : Nat) : ∀ old g : Int, givIter (k + 1) g % 2 ≠ 0 → (gf2NzLoopD (k + 1) old g).isSome = true := by
  induction k with
  | zero =>
    intro old g h
    simp only [givIter] at h
    unfold gf2NzLoopD
    rw [if_neg (show ¬ (gf2RandomD old g).1 = 0 from h)]; rfl
  | succ k ih =>
    intro old g h
    unfold gf2NzLoopD
    by_cases h0 : (gf2RandomD old g).1 = 0
    · rw [if_pos h0]; exact ih _ (givNext g) h
    · rw [if_neg h0]; rfl

/-- … which happens from every valid generator state -/
theorem gf2_nonzero_iterator_terminates (g : Int) (hg1 : 1 ≤ g) (hg2 : g < givMod) :
    ∃ fuel : Nat, ∀ old : Int, (gf2NzLoopD fuel old g).isSome = true := by
  obtain ⟨k, hk1, hk⟩ := giv_reaches_one g hg1 (by unfold givMod at hg2; exact hg2)
  obtain ⟨j, rfl⟩ : ∃ j, k = j + 1 := ⟨k - 1, by omega⟩
  exact ⟨j + 1, fun old => gf2NzLoop_isSome_of_iter j old g (by rw [hk]; decide)⟩

example : ∃ fuel : Nat, ∀ old : Int, (gf2NzLoopD fuel old 5).isSome = true := gf2_nonzero_iterator_terminates 5 (by decide) (by decide)

/-! ### Extension<Modular<int32_t>> -/

/-- the degree asked of `Poly1Dom::random` never reaches the extension order: for every requested size `s` (any `int64_t`
    above `-2^63`) and every `b` that is an element of the field (`b.size() ≤ e`) -/
theorem extDegree_lt (e : Int) (he1 : 1 ≤ e) (he : e < 4294967296) (kind : Nat) (arg : Int)
    (h1 : kind % 3 = 1 → -9223372036854775808 < arg ∧ arg < 9223372036854775808)
    (h2 : kind % 3 = 2 → 0 ≤ arg ∧ arg ≤ e) : -1 ≤ extDegree e kind arg ∧ extDegree e kind arg < e := by
  unfold extDegree
  split
  · split <;> omega
  · split
    · rename_i hk
      have := h1 hk
      unfold degOfSize wrapS64 wrapU64 wrapU32
      split <;> split <;> omega
    · have hk : kind % 3 = 2 := by omega
      have := h2 hk
      unfold degOfSize wrapS64 wrapU64
      split <;> omega

/-- **every `Extension::random` / `nonzerorandom` form returns a canonical element of the field**: a normalised coefficient
    vector (size = requested degree + 1 ≤ extension order, leading coefficient non-zero, or size 0) of canonical base-field
    elements, whatever the destination held -/
theorem ext_random_canonical (p e : Int) (hp : 1 ≤ p) (hfit : p ≤ 2147483648) (he1 : 1 ≤ e) (he : e < 4294967296)
    (kind : Nat) (arg : Int) (h1 : kind % 3 = 1 → -9223372036854775808 < arg ∧ arg < 9223372036854775808)
    (h2 : kind % 3 = 2 → 0 ≤ arg ∧ arg ≤ e) (fuel : Nat) (old : List Int) (g : Int) (r : List Int × Int)
    (h : extRandomD p e kind arg fuel old g = some r) :
    polyDegOk p (extDegree e kind arg) r.1 = true ∧ (r.1.length : Int) ≤ e := by
  have hd := extDegree_lt e he1 he kind arg h1 h2
  have hok := poly_randomD_degree 32 true p (by decide) hp (by norm_num; exact hfit) (extDegree e kind arg) fuel old g r h
  refine ⟨hok, ?_⟩
  unfold polyDegOk at hok
  split at hok
  · have : r.1 = [] := by simpa using hok
    rw [this]; simp; omega
  · unfold polyOk at hok
    simp only [Bool.and_eq_true, decide_eq_true_eq] at hok
    rw [hok.1.1]; push_cast; omega

example : (extRandomD 101 3 1 7 64 [1, 1, 1, 1, 1] 7).isSome = true := by decide

/-- … and does not depend on what the destination vector held -/
theorem ext_random_dest_indep (p e : Int) (kind : Nat) (arg : Int) (fuel : Nat) (old old' : List Int) (g : Int) :
    extRandomD p e kind arg fuel old g = extRandomD p e kind arg fuel old' g :=
  poly_dest_indep 32 true p _ fuel old old' g

/-- … and is produced after finitely many draws from every valid generator state -/
theorem ext_random_terminates (p e : Int) (hp : 2 ≤ p) (hfit : p ≤ 2147483648) (kind : Nat) (arg : Int) (g : Int) (hg1 : 1 ≤ g) (hg2 : g < givMod)
    (old : List Int) : ∃ fuel : Nat, (extRandomD p e kind arg fuel old g).isSome = true := by
  obtain ⟨fuel, hf⟩ := poly_random_terminates 32 true p (by decide) hp (by norm_num; exact hfit) (extDegree e kind arg) g hg1 hg2
  refine ⟨fuel, ?_⟩
  unfold extRandomD
  rw [polyRandomD_eq]; exact hf

/-! ### Poly1Dom::random over any coefficient domain -/

/-- the in-place loop overwrites exactly the positions below `i`, with values of the domain -/
theorem polyFillG_spec (D : CoefDraw) (C : Int → Prop) (hr : ∀ old g, C (D.randomD old g).1) (i : Nat) :
    ∀ (r : List Int) (g : Int), i ≤ r.length →
      ∃ low : List Int, (polyFillG D i r g).1 = low ++ r.drop i ∧ low.length = i ∧ ∀ c ∈ low, C c := by
  induction i with
  | zero => intro r g _; exact ⟨[], by simp [polyFillG], rfl, by simp⟩
  | succ i ih =>
    intro r g h
    obtain ⟨low, h1, h2, h3⟩ := ih (r.set i (D.randomD (r.getD i 0) g).1) (D.randomD (r.getD i 0) g).2 (by simp only [List.length_set]; omega)
    refine ⟨low ++ [(D.randomD (r.getD i 0) g).1], ?_, by simp [h2], ?_⟩
    · simp only [polyFillG]
      rw [h1, drop_set_self r i _ (by omega)]
      simp [List.append_assoc]
    · intro c hc
      simp only [List.mem_append, List.mem_cons, List.not_mem_nil, or_false] at hc
      rcases hc with hc | rfl
      · exact h3 c hc
      · exact hr _ _

/-- **`Poly1Dom<Domain>::random(g, r, Degree d)` over ANY coefficient domain** whose `random` returns elements of `C` and whose
    `nonzerorandom` returns non-zero elements of `C`: exactly `d + 1` coefficients in `C` with a non-zero leading one (the empty
    vector for `d = -∞`), whatever the destination vector held -/
theorem polyG_degree (D : CoefDraw) (C : Int → Prop) (hr : ∀ old g, C (D.randomD old g).1)
    (hn : ∀ f old g r, D.nonzeroD f old g = some r → C r.1 ∧ r.1 ≠ 0)
    (d : Int) (fuel : Nat) (old : List Int) (g : Int) (r : List Int × Int) (h : polyRandomG D d fuel old g = some r) :
    (d < 0 → r.1 = []) ∧ (0 ≤ d → r.1.length = d.toNat + 1 ∧ (∀ c ∈ r.1, C c) ∧ r.1.getLast? ≠ some 0) := by
  unfold polyRandomG at h
  split at h
  · rename_i hd
    simp only [Option.some.injEq] at h; subst h
    exact ⟨fun _ => by simp [vresize], fun h0 => by omega⟩
  · rename_i hd
    refine ⟨fun h0 => by omega, fun _ => ?_⟩
    split at h
    · simp at h
    · rename_i lead hlead
      simp only [Option.some.injEq] at h; subst h
      have hl := vresize_length old (d.toNat + 1)
      obtain ⟨low, h1, h2, h3⟩ := polyFillG_spec D C hr d.toNat ((vresize old (d.toNat + 1)).set d.toNat lead.1) lead.2
        (by simp only [List.length_set]; omega)
      have hld := hn _ _ _ _ hlead
      rw [drop_set_self _ d.toNat _ (by omega), drop_length_succ _ d.toNat hl] at h1
      rw [h1]
      refine ⟨by simp [h2], ?_, ?_⟩
      · intro c hc
        simp only [List.mem_append, List.mem_cons, List.not_mem_nil, or_false] at hc
        rcases hc with hc | rfl
        · exact h3 c hc
        · exact hld.1
      · simp only [List.getLast?_append, List.getLast?_singleton, Option.some_or, ne_eq, Option.some.injEq]; exact hld.2

/-- the in-place loop only reads the positions it is about to overwrite: two vectors that agree from position `i` on are filled alike -/
theorem polyFillG_congr (D : CoefDraw) (hr : ∀ old old' g, D.randomD old g = D.randomD old' g) (i : Nat) :
    ∀ (r r' : List Int) (g : Int), i ≤ r.length → r.length = r'.length → r.drop i = r'.drop i → polyFillG D i r g = polyFillG D i r' g := by
  induction i with
  | zero => intro r r' g _ _ h; simp only [List.drop_zero] at h; rw [h]
  | succ i ih =>
    intro r r' g h hl hd
    simp only [polyFillG]
    rw [hr (r.getD i 0) (r'.getD i 0) g]
    apply ih
    · simp only [List.length_set]; omega
    · simp only [List.length_set]; exact hl
    · rw [drop_set_self r i _ (by omega), drop_set_self r' i _ (by omega), hd]

/-- **the polynomial draw over any coefficient domain does not depend on what the vector held**, provided the coefficient draws
    do not depend on their destinations (proved for every class above) -/
theorem polyG_dest_indep (D : CoefDraw) (hr : ∀ old old' g, D.randomD old g = D.randomD old' g)
    (hn : ∀ f old old' g, D.nonzeroD f old g = D.nonzeroD f old' g) (d : Int) (fuel : Nat) (old old' : List Int) (g : Int) :
    polyRandomG D d fuel old g = polyRandomG D d fuel old' g := by
  unfold polyRandomG
  split
  · simp [vresize]
  · rw [hn fuel ((vresize old (d.toNat + 1)).getD d.toNat 0) ((vresize old' (d.toNat + 1)).getD d.toNat 0) g]
    cases D.nonzeroD fuel ((vresize old' (d.toNat + 1)).getD d.toNat 0) g with
    | none => rfl
    | some lead =>
      simp only [Option.some.injEq]
      have hl := vresize_length old (d.toNat + 1)
      have hl' := vresize_length old' (d.toNat + 1)
      apply polyFillG_congr D hr
      · simp only [List.length_set]; omega
      · simp only [List.length_set]; omega
      · rw [drop_set_self _ d.toNat _ (by omega), drop_set_self _ d.toNat _ (by omega),
            drop_length_succ _ d.toNat hl, drop_length_succ _ d.toNat hl']

/-- `Poly1Dom<GFqDom<intN_t>>::random`: exactly `d + 1` table indices in `[0, q)`, the leading one in `[1, q-1]` -/
theorem poly_gfq_degree (bits : Nat) (q : Int) (hb : 1 ≤ bits) (hq2 : 2 ≤ q) (hq : q < 2 ^ (bits - 1))
    (d : Int) (fuel : Nat) (old : List Int) (g : Int) (r : List Int × Int) (h : polyRandomG (gfqCoef bits q) d fuel old g = some r) :
    (d < 0 → r.1 = []) ∧ (0 ≤ d → r.1.length = d.toNat + 1 ∧ (∀ c ∈ r.1, canonical q c = true) ∧ r.1.getLast? ≠ some 0) := by
  refine polyG_degree (gfqCoef bits q) (fun c => canonical q c = true) ?_ ?_ d fuel old g r h
  · intro old g
    simp only [gfqCoef, gfqRandomD_eq]
    exact (gfq_random_canonical bits q q g hb (by omega) (by omega) hq).2.2
  · intro f old g r hr
    simp only [gfqCoef, gfqNonzeroD_eq, Option.some.injEq] at hr
    subst hr
    have := gfq_nonzero_range bits q q g hb hq2 (by omega) hq
    exact ⟨(canonical_iff q _).2 (by omega), by omega⟩

example : (polyRandomG (gfqCoef 32 9) 3 0 [1, 1, 1, 1, 1, 1] 7).isSome = true := by decide

/-- … independent of the destination -/
theorem poly_gfq_dest_indep (bits : Nat) (q : Int) (d : Int) (fuel : Nat) (old old' : List Int) (g : Int) :
    polyRandomG (gfqCoef bits q) d fuel old g = polyRandomG (gfqCoef bits q) d fuel old' g :=
  polyG_dest_indep _ (fun o o' g => by simp only [gfqCoef, gfqRandomD_eq]) (fun f o o' g => by simp only [gfqCoef, gfqNonzeroD_eq]) d fuel old old' g

/-- `Poly1Dom<R>::random` over every `RingDraw` class (floating, balanced, Montgomery, ZRing): coefficients in the class's element set -/
theorem poly_ring_degree (R : RingDraw) (C : Int → Prop) (hC : InitInto R C)
    (d : Int) (fuel : Nat) (old : List Int) (g : Int) (r : List Int × Int) (h : polyRandomG (ringCoef R) d fuel old g = some r) :
    (d < 0 → r.1 = []) ∧ (0 ≤ d → r.1.length = d.toNat + 1 ∧ (∀ c ∈ r.1, C c) ∧ r.1.getLast? ≠ some 0) :=
  polyG_degree (ringCoef R) C (fun old g => rRandom_in R C hC old g) (fun f old g r hr => rNonzero_spec R C hC f old g r hr) d fuel old g r h

example : (polyRandomG (ringCoef (balRing wrapS32 101)) 3 64 [] 7).isSome = true := by decide

theorem poly_ring_dest_indep (R : RingDraw) (d : Int) (fuel : Nat) (old old' : List Int) (g : Int) :
    polyRandomG (ringCoef R) d fuel old g = polyRandomG (ringCoef R) d fuel old' g :=
  polyG_dest_indep _ (fun _ _ _ => rfl) (fun f o o' g => rNonzeroD_dest_indep R f o o' g) d fuel old old' g

/-! ### QField<Rational> -/

section QF
open Givaro.Model.Rational Givaro.Lemmas.Rational

/-- `Rational(n, d)` with a positive `d` is canonical (positive denominator, lowest terms) and zero only if `n` is -/
theorem mk3_pos_canon (n d : Int) (hd : 0 < d) (q : QRep) (h : mk3 n d 1 = some q) : Canon q ∧ (n ≠ 0 → q.num ≠ 0) := by
  unfold mk3 at h
  rw [if_neg (by omega)] at h
  have hs : isign d > 0 := by unfold isign; rw [if_neg (by omega), if_neg (by omega)]; decide
  simp only [hs, ↓reduceIte, Option.some.injEq] at h
  subst h
  obtain ⟨hc, hD⟩ := reduce_spec ⟨n, d⟩ hd
  refine ⟨hc, fun hn hq => ?_⟩
  unfold Den at hD
  rw [hq] at hD
  simp only [Int.zero_mul] at hD
  rcases Int.mul_eq_zero.mp hD.symm with h0 | h0
  · exact hn h0
  · have := hc.1; omega

variable {σ : Type} (G : RawGen σ) (hG : G.Lawful)
include hG

/-- **every `QField<Rational>::random` / `nonzerorandom` form returns a canonical rational** (positive denominator, numerator and
    denominator coprime), non-zero for the non-zero forms — for every raw generator satisfying GMP's contract, every size `s`,
    every bound `b` with positive numerator, and whatever `r` held -/
theorem qf_random_canonical (kind : Nat) (a b : Int) (hb : 2 ≤ kind → 0 < (qfBound a b).num ∧ 0 < (qfBound a b).den)
    (fuel : Nat) (old : QRep) (st : σ) (r : QRep × σ) (h : qfRandomD G kind a b fuel old st = some r) :
    Canon r.1 ∧ ((kind = 1 ∨ kind = 3) → r.1.num ≠ 0) := by
  have posW : ∀ (n f : Nat) (s : σ) (d : Int × σ), nonzeroWD G true n f 0 s = some d → 0 < d.1 := by
    intro n f s d hd
    rw [nonzeroWD_eq] at hd
    have := nonzero_ne_zero G hG true n f s d hd
    unfold nonzeroOk ltOk at this
    simp only [↓reduceIte, Bool.and_eq_true, decide_eq_true_eq] at this
    omega
  have posI : ∀ (m : Int) (f : Nat) (s : σ) (d : Int × σ), 0 < m → nonzeroID G true m f 0 s = some d → 0 < d.1 := by
    intro m f s d hm hd
    rw [nonzeroID_eq] at hd
    have := nonzero_integer_ne_zero G hG true m hm f s d hd
    unfold nonzeroOk ltOk at this
    simp only [↓reduceIte, Bool.and_eq_true, decide_eq_true_eq] at this
    omega
  have fin : ∀ (n d : Int) (s : σ), 0 < d → (mk3 n d 1).map (fun q => (overwrite old q, s)) = some r → Canon r.1 ∧ (n ≠ 0 → r.1.num ≠ 0) := by
    intro n d s hd hm
    cases hq : mk3 n d 1 with
    | none => rw [hq] at hm; simp at hm
    | some q =>
      rw [hq] at hm
      simp only [Option.map_some, Option.some.injEq] at hm
      subst hm
      exact mk3_pos_canon n d hd q hq
  unfold qfRandomD at h
  split at h
  · split at h
    · simp at h
    · rename_i d hd
      have := fin _ _ _ (posW _ _ _ _ hd) h
      exact ⟨this.1, by omega⟩
  · split at h
    · simp at h
    · rename_i d hd
      split at h
      · simp at h
      · rename_i n hn
        have := fin _ _ _ (posW _ _ _ _ hd) h
        have hnp := posW _ _ _ _ hn
        exact ⟨this.1, fun _ => this.2 (by omega)⟩
  · have hbb := hb (by omega)
    split at h
    · simp at h
    · rename_i d hd
      have := fin _ _ _ (posI _ _ _ _ hbb.2 hd) h
      exact ⟨this.1, by omega⟩
  · have hbb := hb (by omega)
    split at h
    · simp at h
    · rename_i n hn
      split at h
      · simp at h
      · rename_i d hd
        have := fin _ _ _ (posI _ _ _ _ hbb.2 hd) h
        have hnp := posI _ _ _ _ hbb.1 hn
        exact ⟨this.1, fun _ => this.2 (by omega)⟩
  · simp at h

omit hG in
/-- the rational returned and the generator state left behind do not depend on what `r` held -/
theorem qf_random_dest_indep (kind : Nat) (a b : Int) (fuel : Nat) (old old' : QRep) (st : σ) :
    qfRandomD G kind a b fuel old st = qfRandomD G kind a b fuel old' st := by
  unfold qfRandomD
  simp only [overwrite]

end QF

example : (qfRandomD constGen 1 5 1 4 ⟨7, 3⟩ ()).isSome = true := by decide
example : ∀ r, qfRandomD constGen 1 5 1 4 ⟨7, 3⟩ () = some r →
    Givaro.Lemmas.Rational.Canon r.1 ∧ ((1 = 1 ∨ 1 = 3) → r.1.num ≠ 0) :=
  fun r h => qf_random_canonical constGen constGen_lawful 1 5 1 (by decide) 4 _ () r h
example : Givaro.Model.Rational.mk3 6 4 1 = some ⟨3, 2⟩ := by decide

/-! ### copies of GIV_randIter -/

/-- a copy-constructed iterator continues exactly like the original -/
theorem randiter_copy_continues (bits : Nat) (q : Int) (c : GivIt) (old : Int) :
    GivIt.draw bits q c.copy old = GivIt.draw bits q c old := rfl

/- full statement (fails on the pinned tree, see the counterexample; holds for the repaired operator, below):
     ∀ d c old, GivIt.draw bits q (GivIt.assign d c) old = GivIt.draw bits q c old -/
/-- copy ASSIGNMENT continues like the source when both iterators were built with the same sampling size -/
theorem randiter_assign_continues_partial (bits : Nat) (q : Int) (d c : GivIt) (h : d.size = c.size) (old : Int) :
    GivIt.draw bits q (GivIt.assign d c) old = GivIt.draw bits q c old := by
  simp only [GivIt.draw, GivIt.assign, h]

example : GivIt.draw 32 13 (GivIt.assign ⟨13, 7⟩ ⟨13, givInit 2⟩) 0 = GivIt.draw 32 13 ⟨13, givInit 2⟩ 0 :=
  randiter_assign_continues_partial 32 13 _ _ rfl 0

/-- … and not otherwise: `GFqDom<int32_t> F(13,1); RandIter c(F, 2, 0), d(F, 979, 2); d = c;` — the first element drawn from `d`
    is 1, from `c` it is 5 (reproduced on the real code by harness lines `ring 20 d 1 2 9 0 …`; known finding C20-randiter-assign-size) -/
theorem randiter_assign_counterexample :
    ¬ ∀ (d c : GivIt) (old : Int), GivIt.draw 32 13 (GivIt.assign d c) old = GivIt.draw 32 13 c old := by
  intro h
  have := h ⟨2, givInit 979⟩ ⟨13, givInit 2⟩ 0
  revert this; decide

/-- with `_size` assigned as well (fixes/C20_5.patch) the assigned-to iterator continues like the source, always -/
theorem randiter_assignFixed_continues (bits : Nat) (q : Int) (d c : GivIt) (old : Int) :
    GivIt.draw bits q (GivIt.assignFixed d c) old = GivIt.draw bits q c old := rfl

/-! ### non-vacuity: every hypothesis set above is satisfiable (the theorems are applied to concrete arguments) -/

example : canonicalBal 101 ((balRing wrapS64 101).init 7) = true :=
  bal64_init_canonical 101 (by decide) (by decide) _ (by decide) (by decide)
example : canonicalBal 101 ((balRing id 101).init 7) = true := balflt_init_canonical 101 (by decide) _ (by decide) (by decide)
example : (fun e : Int => if true = true then -(2 ^ (8 - 1)) ≤ e ∧ e < 2 ^ (8 - 1) else 0 ≤ e ∧ e < 2 ^ 8) ((zintRing 8 true).init 200) :=
  zint_init_range 8 true (by decide) 200 (by decide) (by decide)
example : (rNonzeroD (fltRing 101) 1 0 7).isSome = true := rNonzero_isSome_of_iter (fltRing 101) 0 0 7 (by decide)
example : (gf2NzLoopD 1 0 7).isSome = true := gf2NzLoop_isSome_of_iter 0 0 7 (by decide)
example : -1 ≤ extDegree 3 1 7 ∧ extDegree 3 1 7 < 3 :=
  extDegree_lt 3 (by decide) (by decide) 1 7 (fun _ => by decide) (fun h => absurd h (by decide))
example : ∀ r, extRandomD 101 3 1 7 64 [1, 1, 1, 1, 1] 7 = some r → polyDegOk 101 (extDegree 3 1 7) r.1 = true ∧ (r.1.length : Int) ≤ 3 :=
  fun r h => ext_random_canonical 101 3 (by decide) (by decide) (by decide) (by decide) 1 7 (fun _ => by decide)
    (fun h => absurd h (by decide)) 64 _ 7 r h
example : ∃ fuel : Nat, (extRandomD 101 3 0 0 fuel [] 7).isSome = true :=
  ext_random_terminates 101 3 (by decide) (by decide) 0 0 7 (by decide) (by decide) []
example : ∀ r, polyRandomG (ringCoef (balRing wrapS32 101)) 3 64 [] 7 = some r → r.1.length = (3 : Int).toNat + 1 :=
  fun r h => ((poly_ring_degree _ _ (bal32_init_canonical 101 (by decide) (by decide)) 3 64 [] 7 r h).2 (by decide)).1
example : ∀ r, polyRandomG (gfqCoef 32 9) 3 0 [1, 1, 1, 1, 1, 1] 7 = some r → r.1.length = (3 : Int).toNat + 1 :=
  fun r h => ((poly_gfq_degree 32 9 (by decide) (by decide) (by decide) 3 0 _ 7 r h).2 (by decide)).1
example : ∃ fuel : Nat, ∀ old : Int, (rNonzeroD (balRing wrapS32 101) fuel old 5).isSome = true :=
  ring_nonzerorandom_terminates _ (by decide) 5 (by decide) (by decide)

end Givaro.Props.C20Rings
