/-
C04 — init/convert implement the canonical map Z → Z/m.

Theorems about the model (`Model/ModRing.lean`, `ICfg.initInt`, tied to /repo by the correspondence of
`checks/c04.py`) of `Modular<Storage_t,Compute_t>::init` from **every machine-integer source type**
(signed/unsigned 8/16/32/64 bits) for every instantiated configuration, every modulus up to
`maxCardinality()` and **every value of the source type, the minimum of a signed type included**
(the repaired code negates in the unsigned type, fixes/C04_2.patch).  The other rings' init overloads,
convert and the floating/Integer sources are tied to the exact specification by correspondence.
-/
import GivaroModel.Lemmas.ModRingFloat
namespace Givaro.Props.C04
open Givaro.Model.ModRing Givaro.Spec.ModRing

/-- source widths -/
def SrcW (w : Nat) : Prop := w = 8 ∨ w = 16 ∨ w = 32 ∨ w = 64
/-- `y` is a value of the source type -/
def InSrc (w : Nat) (ss : Bool) (y : Int) : Prop :=
  if ss then -((2 : Int) ^ (w - 1)) ≤ y ∧ y < (2 : Int) ^ (w - 1) else 0 ≤ y ∧ y < (2 : Int) ^ w

/-- negin on a canonical residue is the residue of the negation -/
theorem negin_exact (k : ICfg) (p x : Int) (ok : IOk k p) (hp : 2 ≤ p) (z : Int) (hx : x = z % p) :
    k.negin p x = (-z) % p := by
  have h0 := Int.emod_nonneg z (by omega : p ≠ 0)
  have h1 := Int.emod_lt_of_pos z (by omega : 0 < p)
  rw [neg_emod_eq z p (by omega), ← hx]
  unfold ICfg.negin
  split
  · rfl
  · rw [ok.toE_id p (by omega) (by omega), ok.arE_id _ (by omega) (by omega), ok.toE_id _ (by omega) (by omega)]

/-- init from a source wider than the storage type -/
theorem init_wide_exact (k : ICfg) (hv : k.valid) (w : Nat) (hw : SrcW w) (hws : w > k.s) (ss : Bool)
    (p y : Int) (hp : 2 ≤ p) (hm : p ≤ k.maxCard) (hy : InSrc w ss y) :
    k.initInt w ss p y = canonU p y := by
  have ok := iok_of_valid k hv p hp hm
  -- literal facts about the source type
  have hsrc : wrapUw w p = p ∧ (0 ≤ y → wrapUw w y = y)
      ∧ (ss = true → y < 0 → wrapUw w (ICfg.arUSrc w (0 - wrapUw w y)) = -y) := by
    obtain ⟨s, sg, c⟩ := k
    simp only [ICfg.valid] at hv
    unfold InSrc at hy
    rcases hv with ⟨h1 | h1 | h1 | h1, h2 | h2⟩ <;> subst h1 <;> subst h2 <;> cases sg <;>
      rcases hw with h | h | h | h <;> subst h <;> cases ss <;>
      simp only [ICfg.maxCard] at hm <;> norm_num at hm hy hws <;>
      simp only [ICfg.arUSrc, wrapUw, wrapSw] <;> norm_num <;> (try omega)
  obtain ⟨hpw, hy0, hyn⟩ := hsrc
  unfold ICfg.initInt canonU
  rw [if_pos hws]
  cases ss
  · -- unsigned source
    simp only [Bool.false_eq_true, if_false, ICfg.toSrc]
    have hy' : 0 ≤ y := by unfold InSrc at hy; simp at hy; exact hy.1
    rw [hpw, Int.tmod_eq_emod_of_nonneg hy']
    exact ok.toE_id _ (Int.emod_nonneg _ (by omega)) (Int.le_of_lt (Int.emod_lt_of_pos _ (by omega)))
  · simp only [if_true]
    rw [hpw]
    by_cases hneg : y < 0
    · rw [if_pos hneg, if_pos hneg, hyn rfl hneg, Int.tmod_eq_emod_of_nonneg (by omega)]
      have h0 := Int.emod_nonneg (-y) (by omega : p ≠ 0)
      have h1 := Int.emod_lt_of_pos (-y) (by omega : 0 < p)
      rw [ok.toE_id _ h0 (by omega), negin_exact k p _ ok hp (-y) rfl, Int.neg_neg]
    · rw [if_neg hneg, if_neg hneg, hy0 (by omega), Int.tmod_eq_emod_of_nonneg (by omega)]
      exact ok.toE_id _ (Int.emod_nonneg _ (by omega)) (Int.le_of_lt (Int.emod_lt_of_pos _ (by omega)))
example : SrcW 64 ∧ InSrc 64 true (-9223372036854775808) ∧ (ICfg.mk 32 true 32).valid := by
  refine ⟨by unfold SrcW; decide, by unfold InSrc; decide, by decide⟩
/-- the point the unrepaired code got wrong: `Modular<int32_t>(101).init(e, INT64_MIN)` -/
example : (ICfg.mk 32 true 32).initInt 64 true 101 (-9223372036854775808) = 11 := by decide

/-- reduce(x, y) for any value `y` of the storage type (used by the small-source overloads) -/
theorem reduce_exact (k : ICfg) (hv : k.valid) (p y : Int) (hp : 2 ≤ p) (hm : p ≤ k.maxCard)
    (hy : k.toE y = y) : k.reduce p y = canonU p y := by
  have ok := iok_of_valid k hv p hp hm
  have hneg : k.sg = true → ∀ x, -p ≤ x → x ≤ p → k.toE x = x := by
    intro hsg x hx0 hx1
    obtain ⟨s, sg, c⟩ := k
    simp only [ICfg.valid] at hv
    simp only at hsg; subst hsg
    rcases hv with ⟨h1 | h1 | h1 | h1, h2 | h2⟩ <;> subst h1 <;> subst h2 <;>
      simp only [ICfg.maxCard] at hm <;> norm_num at hm <;>
      simp only [ICfg.toE, wrapSw] <;> norm_num <;> omega
  unfold ICfg.reduce canonU
  obtain ⟨hc, h0, h1, h2⟩ := tmod_cases y p (by omega)
  have ht : Int.tmod y p < p := by rcases hc with h | h <;> omega
  split
  · next hsg =>
    rw [ok.toE_id p (by omega) (by omega)]
    simp only
    rw [hneg hsg _ (by omega) (by omega)]
    have hf := tmod_fix y p (by omega)
    split
    · rw [if_pos (by assumption)] at hf
      rw [hf]; exact hneg hsg _ (by omega) (by omega)
    · rw [if_neg (by assumption)] at hf
      exact hf
  · next hsg =>
    have hy0 : 0 ≤ y := by
      obtain ⟨s, sg, c⟩ := k
      cases sg
      · simp only [ICfg.toE, Bool.false_eq_true, if_false, wrapUw] at hy
        rw [← hy]; exact Int.emod_nonneg _ (by positivity)
      · exact absurd rfl hsg
    rw [Int.tmod_eq_emod_of_nonneg hy0]
    exact ok.toE_id _ (Int.emod_nonneg _ (by omega)) (Int.le_of_lt (Int.emod_lt_of_pos _ (by omega)))
example : (ICfg.mk 8 true 8).reduce 13 (-128) = canonU 13 (-128) := by decide

/-- init from a source not wider than the storage type (signed or unsigned source, signed or unsigned
    storage: the four bodies of `_init_small_s` / `_init_small_u`) -/
theorem init_small_exact (k : ICfg) (hv : k.valid) (w : Nat) (hw : SrcW w) (hws : ¬ w > k.s) (ss : Bool)
    (p y : Int) (hp : 2 ≤ p) (hm : p ≤ k.maxCard) (hy : InSrc w ss y) :
    k.initInt w ss p y = canonU p y := by
  have ok := iok_of_valid k hv p hp hm
  -- literal facts relating the source type to the storage type
  have hsrc : (k.sg = true → ss = true → k.toE y = y)
      ∧ (ss = false → k.arU y = y ∧ 0 ≤ y)
      ∧ (k.sg = false → 0 ≤ y → k.toE y = y)
      ∧ (k.sg = false → y < 0 → k.toE (k.arE (0 - k.toE y)) = -y) := by
    obtain ⟨s, sg, c⟩ := k
    simp only [ICfg.valid] at hv
    unfold InSrc at hy
    rcases hv with ⟨h1 | h1 | h1 | h1, h2 | h2⟩ <;> subst h1 <;> subst h2 <;> cases sg <;>
      rcases hw with h | h | h | h <;> subst h <;> cases ss <;>
      norm_num at hy hws <;>
      simp only [ICfg.toE, ICfg.arU, ICfg.arE, wrapUw, wrapSw] <;> norm_num <;> (try omega)
  obtain ⟨hA, hB, hC, hD⟩ := hsrc
  unfold ICfg.initInt
  rw [if_neg hws]
  by_cases hsg : k.sg = true
  · rw [if_pos hsg]
    cases ss
    · simp only [Bool.false_eq_true, if_false]
      obtain ⟨h1, h2⟩ := hB rfl
      unfold canonU
      rw [h1, ok.arU_id p (by omega) (by omega), Int.tmod_eq_emod_of_nonneg h2]
      exact ok.toE_id _ (Int.emod_nonneg _ (by omega)) (Int.le_of_lt (Int.emod_lt_of_pos _ (by omega)))
    · simp only [if_true]
      rw [hA hsg rfl]
      exact reduce_exact k hv p y hp hm (hA hsg rfl)
  · have hsf : k.sg = false := by cases h : k.sg <;> simp_all
    rw [if_neg hsg]
    simp only
    by_cases hneg : y < 0
    · rw [if_pos hneg, if_pos hneg, hD hsf hneg]
      have hny : k.toE (-y) = -y := by
        obtain ⟨s, sg, c⟩ := k
        simp only at hsf; subst hsf
        have := hD rfl hneg
        simp only [ICfg.toE, Bool.false_eq_true, if_false, wrapUw] at this ⊢
        rw [← this]; exact Int.emod_emod_of_dvd _ (Int.dvd_refl _)
      rw [reduce_exact k hv p (-y) hp hm hny]
      unfold canonU
      rw [negin_exact k p _ ok hp (-y) rfl, Int.neg_neg]
    · rw [if_neg hneg, if_neg hneg, hC hsf (by omega)]
      have : k.toE y = y := hC hsf (by omega)
      exact reduce_exact k hv p y hp hm this
example : SrcW 32 ∧ InSrc 32 false 4294967295 ∧ ¬ (32 > (ICfg.mk 32 true 64).s) := by
  refine ⟨by unfold SrcW; decide, by unfold InSrc; decide, by decide⟩
/-- the points the unrepaired code got wrong: unsigned source ≥ 2^(N-1) into signed storage; INT32_MIN into uint64_t -/
example : (ICfg.mk 32 true 32).initInt 32 false 3 2147483648 = 2 := by decide
example : (ICfg.mk 64 false 64).initInt 32 true 101 (-2147483648) = canonU 101 (-2147483648) := by decide

/-- **init_canonical** (integral family, machine-integer sources): the canonical image of every value
    of every source type, for every admissible modulus -/
theorem init_canonical (k : ICfg) (hv : k.valid) (w : Nat) (hw : SrcW w) (ss : Bool)
    (p y : Int) (hp : 2 ≤ p) (hm : p ≤ k.maxCard) (hy : InSrc w ss y) :
    k.initInt w ss p y = canonU p y ∧ isCanonU p (k.initInt w ss p y) := by
  have e : k.initInt w ss p y = canonU p y := by
    by_cases hws : w > k.s
    · exact init_wide_exact k hv w hw hws ss p y hp hm hy
    · exact init_small_exact k hv w hw hws ss p y hp hm hy
  refine ⟨e, ?_⟩
  rw [e]; unfold isCanonU canonU
  exact ⟨Int.emod_nonneg _ (by omega), Int.emod_lt_of_pos _ (by omega)⟩

/-- convert is the identity on the representation (`Caster<T>(a)`), so `init (convert e) = e` for every
    canonical element whose value the source type holds -/
theorem init_convert (k : ICfg) (hv : k.valid) (w : Nat) (hw : SrcW w) (ss : Bool)
    (p e : Int) (hp : 2 ≤ p) (hm : p ≤ k.maxCard) (he : isCanonU p e) (hy : InSrc w ss e) :
    k.initInt w ss p e = e := by
  rw [(init_canonical k hv w hw ss p e hp hm hy).1]
  exact Int.emod_eq_of_lt he.1 he.2

/-- `convert (init x) ≡ x (mod p)` -/
theorem convert_init (k : ICfg) (hv : k.valid) (w : Nat) (hw : SrcW w) (ss : Bool)
    (p y : Int) (hp : 2 ≤ p) (hm : p ≤ k.maxCard) (hy : InSrc w ss y) :
    (k.initInt w ss p y - y) % p = 0 := by
  rw [(init_canonical k hv w hw ss p y hp hm hy).1]
  unfold canonU
  have h := Int.emod_add_mul_ediv y p
  have : y % p - y = p * (-(y / p)) := by linarith
  rw [this]; exact Int.mul_emod_right _ _

/-- zero, one, mOne as computed by the constructor are the images of 0, 1, -1 -/
theorem constants_are_images (k : ICfg) (hv : k.valid) (p : Int) (hp : 2 ≤ p) (hm : p ≤ k.maxCard) :
    k.zero = canonU p 0 ∧ k.one = canonU p 1 ∧ k.mOne p = canonU p (-1) := by
  have ok := iok_of_valid k hv p hp hm
  unfold ICfg.zero ICfg.one ICfg.mOne canonU
  rw [ok.toE_id 0 (by omega) (by omega), ok.toE_id 1 (by omega) (by omega),
    ok.arU_id _ (by omega) (by omega), ok.toE_id _ (by omega) (by omega)]
  refine ⟨by simp, (Int.emod_eq_of_lt (by omega) (by omega)).symm, ?_⟩
  exact (emod_unique (by omega) (by omega) (-1) (by ring)).symm
example : (ICfg.mk 8 false 16).mOne 255 = 254 := by decide

end Givaro.Props.C04
