/-
C04 — init/convert implement the canonical map Z → Z/m (PARTIAL delivery, see the builder's report).

Theorems about the model of `Modular<Storage_t,Compute_t>::init` from machine-integer sources wider
than the storage type (modular-integral.inl:27-50), for every instantiated configuration, every
modulus up to `maxCardinality()` and every value of the source type — except, for signed sources, the
minimum of the source type, where the code computes `-y` in the signed type: that case is a genuine
defect of /repo (`init_signed_wide_counterexample`, known finding C04-init-signed-min).
-/
import GivaroModel.Lemmas.ModRingFloat
namespace Givaro.Props.C04
open Givaro.Model.ModRing Givaro.Spec.ModRing

/-- init from an unsigned source wider than the storage: `Caster<Element>(y % Source(_p))` -/
theorem init_unsigned_wide_exact (k : ICfg) (hv : k.valid) (w : Nat) (hw : w = 16 ∨ w = 32 ∨ w = 64) (hws : w > k.s)
    (p y : Int) (hp : 2 ≤ p) (hm : p ≤ k.maxCard) (hy : 0 ≤ y ∧ y < (2 : Int) ^ w) :
    k.initInt w false p y = canonU p y := by
  have ok := iok_of_valid k hv p hp hm
  have hpw : ICfg.toSrc w false p = p := by
    obtain ⟨s, sg, c⟩ := k
    simp only [ICfg.valid] at hv
    rcases hv with ⟨h1 | h1 | h1 | h1, h2 | h2⟩ <;> subst h1 <;> subst h2 <;> cases sg <;>
      rcases hw with h | h | h <;> subst h <;> simp only [ICfg.maxCard] at hm <;> norm_num at hm hws <;>
      simp only [ICfg.toSrc, wrapUw] <;> norm_num <;> (try omega)
  unfold ICfg.initInt canonU
  rw [if_pos hws]
  simp only [Bool.false_eq_true, if_false]
  rw [hpw, Int.tmod_eq_emod_of_nonneg hy.1]
  exact ok.toE_id _ (Int.emod_nonneg _ (by omega)) (Int.le_of_lt (Int.emod_lt_of_pos _ (by omega)))
example : (ICfg.mk 32 false 64).initInt 64 false 4294967295 18446744073709551615 = canonU 4294967295 18446744073709551615 := by decide

/-- init from a signed source wider than the storage, every value except the minimum of the source type.
    Full statement (false, see the counterexample): the same for `-2^(w-1) ≤ y`. -/
theorem init_signed_wide_partial (k : ICfg) (hv : k.valid) (w : Nat) (hw : w = 16 ∨ w = 32 ∨ w = 64) (hws : w > k.s)
    (p y : Int) (hp : 2 ≤ p) (hm : p ≤ k.maxCard) (hy : -((2 : Int) ^ (w - 1)) < y ∧ y < (2 : Int) ^ (w - 1)) :
    k.initInt w true p y = canonU p y := by
  have ok := iok_of_valid k hv p hp hm
  have hpw : ICfg.toSrc w true p = p ∧ (y < 0 → ICfg.arSrc w true (-y) = -y) := by
    obtain ⟨s, sg, c⟩ := k
    simp only [ICfg.valid] at hv
    rcases hv with ⟨h1 | h1 | h1 | h1, h2 | h2⟩ <;> subst h1 <;> subst h2 <;> cases sg <;>
      rcases hw with h | h | h <;> subst h <;> simp only [ICfg.maxCard] at hm <;> norm_num at hm hy hws <;>
      simp only [ICfg.toSrc, ICfg.arSrc, wrapSw] <;> norm_num <;> (try omega)
  unfold ICfg.initInt canonU
  rw [if_pos hws]
  simp only [if_true]
  rw [hpw.1]
  by_cases hneg : y < 0
  · rw [if_pos hneg, if_pos hneg, hpw.2 hneg, Int.tmod_eq_emod_of_nonneg (by omega)]
    have h0 := Int.emod_nonneg (-y) (by omega : p ≠ 0)
    have h1 := Int.emod_lt_of_pos (-y) (by omega : 0 < p)
    rw [ok.toE_id _ h0 (by omega)]
    have e := neg_emod_eq (-y) p (by omega)
    rw [Int.neg_neg] at e
    rw [e]
    unfold ICfg.negin
    split
    · rfl
    · rw [ok.toE_id p (by omega) (by omega), ok.arE_id _ (by omega) (by omega), ok.toE_id _ (by omega) (by omega)]
  · rw [if_neg hneg, if_neg hneg, Int.tmod_eq_emod_of_nonneg (by omega)]
    exact ok.toE_id _ (Int.emod_nonneg _ (by omega)) (Int.le_of_lt (Int.emod_lt_of_pos _ (by omega)))
example : (ICfg.mk 32 true 32).initInt 64 true 101 (-9223372036854775807) = canonU 101 (-9223372036854775807) := by decide

/-- the excluded point is a real failure of the code: `Modular<int32_t>(101).init(e, INT64_MIN)` gives 191,
    not even a canonical element (the residue is 11) -/
theorem init_signed_wide_counterexample :
    ¬ (∀ (k : ICfg) (w : Nat) (p y : Int), k.valid → w = 64 → w > k.s → 2 ≤ p → p ≤ k.maxCard →
        -((2 : Int) ^ (w - 1)) ≤ y ∧ y < (2 : Int) ^ (w - 1) → k.initInt w true p y = canonU p y) := by
  intro h
  have := h ⟨32, true, 32⟩ 64 101 (-9223372036854775808) (by decide) rfl (by decide) (by decide) (by decide) (by decide)
  revert this; decide

end Givaro.Props.C04
