/-
C04 — init/convert implement the canonical map Z → Z/m.

Theorems about the model (`Model/ModRing.lean`, `ICfg.initInt`, tied to /repo by the correspondence of
`checks/c04.py`) of `Modular<Storage_t,Compute_t>::init` from **every machine-integer source type**
(signed/unsigned 8/16/32/64 bits) for every instantiated configuration, every modulus up to
`maxCardinality()` and **every value of the source type, the minimum of a signed type included**
(the repaired code negates in the unsigned type, fixes/C04_2.patch).  The other rings' init overloads,
convert and the floating/Integer sources are tied to the exact specification by correspondence.
-/
import GivaroModel.Lemmas.ModRingFloat
import GivaroModel.Model.ModRingInit
import GivaroModel.Lemmas.ModRingLog16
import GivaroModel.Lemmas.ModRingGeneric
namespace Givaro.Props.C04
open Givaro.Model.ModRing Givaro.Spec.ModRing

/-- source widths -/
def SrcW (w : Nat) : Prop := w = 8 ∨ w = 16 ∨ w = 32 ∨ w = 64
/-- `y` is a value of the source type -/
def InSrc (w : Nat) (ss : Bool) (y : Int) : Prop :=
  if ss then -((2 : Int) ^ (w - 1)) ≤ y ∧ y < (2 : Int) ^ (w - 1) else 0 ≤ y ∧ y < (2 : Int) ^ w

/-- negin on a canonical residue is the residue of the negation -/
theorem negin_exact (k : ICfg) (p x : Int) (ok : IOk k p) (hp : 2 ≤ p) (z : Int) (hx : x = z % p) :
    k.negin p x = (-z) % p := by
  have h0 := Int.emod_nonneg z (by omega : p ≠ 0)
  have h1 := Int.emod_lt_of_pos z (by omega : 0 < p)
  rw [neg_emod_eq z p (by omega), ← hx]
  unfold ICfg.negin
  split
  · rfl
  · rw [ok.toE_id p (by omega) (by omega), ok.arE_id _ (by omega) (by omega), ok.toE_id _ (by omega) (by omega)]

/-- init from a source wider than the storage type -/
theorem init_wide_exact (k : ICfg) (hv : k.valid) (w : Nat) (hw : SrcW w) (hws : w > k.s) (ss : Bool)
    (p y : Int) (hp : 2 ≤ p) (hm : p ≤ k.maxCard) (hy : InSrc w ss y) :
    k.initInt w ss p y = canonU p y := by
  have ok := iok_of_valid k hv p hp hm
  -- literal facts about the source type
  have hsrc : wrapUw w p = p ∧ (0 ≤ y → wrapUw w y = y)
      ∧ (ss = true → y < 0 → wrapUw w (ICfg.arUSrc w (0 - wrapUw w y)) = -y) := by
    obtain ⟨s, sg, c⟩ := k
    simp only [ICfg.valid] at hv
    unfold InSrc at hy
    rcases hv with ⟨h1 | h1 | h1 | h1, h2 | h2⟩ <;> subst h1 <;> subst h2 <;> cases sg <;>
      rcases hw with h | h | h | h <;> subst h <;> cases ss <;>
      simp only [ICfg.maxCard] at hm <;> norm_num at hm hy hws <;>
      simp only [ICfg.arUSrc, wrapUw, wrapSw] <;> norm_num <;> (try omega)
  obtain ⟨hpw, hy0, hyn⟩ := hsrc
  unfold ICfg.initInt canonU
  rw [if_pos hws]
  cases ss
  · -- unsigned source
    simp only [Bool.false_eq_true, if_false, ICfg.toSrc]
    have hy' : 0 ≤ y := by unfold InSrc at hy; simp at hy; exact hy.1
    rw [hpw, Int.tmod_eq_emod_of_nonneg hy']
    exact ok.toE_id _ (Int.emod_nonneg _ (by omega)) (Int.le_of_lt (Int.emod_lt_of_pos _ (by omega)))
  · simp only [if_true]
    rw [hpw]
    by_cases hneg : y < 0
    · rw [if_pos hneg, if_pos hneg, hyn rfl hneg, Int.tmod_eq_emod_of_nonneg (by omega)]
      have h0 := Int.emod_nonneg (-y) (by omega : p ≠ 0)
      have h1 := Int.emod_lt_of_pos (-y) (by omega : 0 < p)
      rw [ok.toE_id _ h0 (by omega), negin_exact k p _ ok hp (-y) rfl, Int.neg_neg]
    · rw [if_neg hneg, if_neg hneg, hy0 (by omega), Int.tmod_eq_emod_of_nonneg (by omega)]
      exact ok.toE_id _ (Int.emod_nonneg _ (by omega)) (Int.le_of_lt (Int.emod_lt_of_pos _ (by omega)))
example : SrcW 64 ∧ InSrc 64 true (-9223372036854775808) ∧ (ICfg.mk 32 true 32).valid := by
  refine ⟨by unfold SrcW; decide, by unfold InSrc; decide, by decide⟩
/-- the point the unrepaired code got wrong: `Modular<int32_t>(101).init(e, INT64_MIN)` -/
example : (ICfg.mk 32 true 32).initInt 64 true 101 (-9223372036854775808) = 11 := by decide

/-- reduce(x, y) for any value `y` of the storage type (used by the small-source overloads) -/
theorem reduce_exact (k : ICfg) (hv : k.valid) (p y : Int) (hp : 2 ≤ p) (hm : p ≤ k.maxCard)
    (hy : k.toE y = y) : k.reduce p y = canonU p y := by
  have ok := iok_of_valid k hv p hp hm
  have hneg : k.sg = true → ∀ x, -p ≤ x → x ≤ p → k.toE x = x := by
    intro hsg x hx0 hx1
    obtain ⟨s, sg, c⟩ := k
    simp only [ICfg.valid] at hv
    simp only at hsg; subst hsg
    rcases hv with ⟨h1 | h1 | h1 | h1, h2 | h2⟩ <;> subst h1 <;> subst h2 <;>
      simp only [ICfg.maxCard] at hm <;> norm_num at hm <;>
      simp only [ICfg.toE, wrapSw] <;> norm_num <;> omega
  unfold ICfg.reduce canonU
  obtain ⟨hc, h0, h1, h2⟩ := tmod_cases y p (by omega)
  have ht : Int.tmod y p < p := by rcases hc with h | h <;> omega
  split
  · next hsg =>
    rw [ok.toE_id p (by omega) (by omega)]
    simp only
    rw [hneg hsg _ (by omega) (by omega)]
    have hf := tmod_fix y p (by omega)
    split
    · rw [if_pos (by assumption)] at hf
      rw [hf]; exact hneg hsg _ (by omega) (by omega)
    · rw [if_neg (by assumption)] at hf
      exact hf
  · next hsg =>
    have hy0 : 0 ≤ y := by
      obtain ⟨s, sg, c⟩ := k
      cases sg
      · simp only [ICfg.toE, Bool.false_eq_true, if_false, wrapUw] at hy
        rw [← hy]; exact Int.emod_nonneg _ (by positivity)
      · exact absurd rfl hsg
    rw [Int.tmod_eq_emod_of_nonneg hy0]
    exact ok.toE_id _ (Int.emod_nonneg _ (by omega)) (Int.le_of_lt (Int.emod_lt_of_pos _ (by omega)))
example : (ICfg.mk 8 true 8).reduce 13 (-128) = canonU 13 (-128) := by decide

/-- init from a source not wider than the storage type (signed or unsigned source, signed or unsigned
    storage: the four bodies of `_init_small_s` / `_init_small_u`) -/
theorem init_small_exact (k : ICfg) (hv : k.valid) (w : Nat) (hw : SrcW w) (hws : ¬ w > k.s) (ss : Bool)
    (p y : Int) (hp : 2 ≤ p) (hm : p ≤ k.maxCard) (hy : InSrc w ss y) :
    k.initInt w ss p y = canonU p y := by
  have ok := iok_of_valid k hv p hp hm
  -- literal facts relating the source type to the storage type
  have hsrc : (k.sg = true → ss = true → k.toE y = y)
      ∧ (ss = false → k.arU y = y ∧ 0 ≤ y)
      ∧ (k.sg = false → 0 ≤ y → k.toE y = y)
      ∧ (k.sg = false → y < 0 → k.toE (k.arE (0 - k.toE y)) = -y) := by
    obtain ⟨s, sg, c⟩ := k
    simp only [ICfg.valid] at hv
    unfold InSrc at hy
    rcases hv with ⟨h1 | h1 | h1 | h1, h2 | h2⟩ <;> subst h1 <;> subst h2 <;> cases sg <;>
      rcases hw with h | h | h | h <;> subst h <;> cases ss <;>
      norm_num at hy hws <;>
      simp only [ICfg.toE, ICfg.arU, ICfg.arE, wrapUw, wrapSw] <;> norm_num <;> (try omega)
  obtain ⟨hA, hB, hC, hD⟩ := hsrc
  unfold ICfg.initInt
  rw [if_neg hws]
  by_cases hsg : k.sg = true
  · rw [if_pos hsg]
    cases ss
    · simp only [Bool.false_eq_true, if_false]
      obtain ⟨h1, h2⟩ := hB rfl
      unfold canonU
      rw [h1, ok.arU_id p (by omega) (by omega), Int.tmod_eq_emod_of_nonneg h2]
      exact ok.toE_id _ (Int.emod_nonneg _ (by omega)) (Int.le_of_lt (Int.emod_lt_of_pos _ (by omega)))
    · simp only [if_true]
      rw [hA hsg rfl]
      exact reduce_exact k hv p y hp hm (hA hsg rfl)
  · have hsf : k.sg = false := by cases h : k.sg <;> simp_all
    rw [if_neg hsg]
    simp only
    by_cases hneg : y < 0
    · rw [if_pos hneg, if_pos hneg, hD hsf hneg]
      have hny : k.toE (-y) = -y := by
        obtain ⟨s, sg, c⟩ := k
        simp only at hsf; subst hsf
        have := hD rfl hneg
        simp only [ICfg.toE, Bool.false_eq_true, if_false, wrapUw] at this ⊢
        rw [← this]; exact Int.emod_emod_of_dvd _ (Int.dvd_refl _)
      rw [reduce_exact k hv p (-y) hp hm hny]
      unfold canonU
      rw [negin_exact k p _ ok hp (-y) rfl, Int.neg_neg]
    · rw [if_neg hneg, if_neg hneg, hC hsf (by omega)]
      have : k.toE y = y := hC hsf (by omega)
      exact reduce_exact k hv p y hp hm this
example : SrcW 32 ∧ InSrc 32 false 4294967295 ∧ ¬ (32 > (ICfg.mk 32 true 64).s) := by
  refine ⟨by unfold SrcW; decide, by unfold InSrc; decide, by decide⟩
/-- the points the unrepaired code got wrong: unsigned source ≥ 2^(N-1) into signed storage; INT32_MIN into uint64_t -/
example : (ICfg.mk 32 true 32).initInt 32 false 3 2147483648 = 2 := by decide
example : (ICfg.mk 64 false 64).initInt 32 true 101 (-2147483648) = canonU 101 (-2147483648) := by decide

/-- **init_canonical** (integral family, machine-integer sources): the canonical image of every value
    of every source type, for every admissible modulus -/
theorem init_canonical (k : ICfg) (hv : k.valid) (w : Nat) (hw : SrcW w) (ss : Bool)
    (p y : Int) (hp : 2 ≤ p) (hm : p ≤ k.maxCard) (hy : InSrc w ss y) :
    k.initInt w ss p y = canonU p y ∧ isCanonU p (k.initInt w ss p y) := by
  have e : k.initInt w ss p y = canonU p y := by
    by_cases hws : w > k.s
    · exact init_wide_exact k hv w hw hws ss p y hp hm hy
    · exact init_small_exact k hv w hw hws ss p y hp hm hy
  refine ⟨e, ?_⟩
  rw [e]; unfold isCanonU canonU
  exact ⟨Int.emod_nonneg _ (by omega), Int.emod_lt_of_pos _ (by omega)⟩

/-- convert is the identity on the representation (`Caster<T>(a)`), so `init (convert e) = e` for every
    canonical element whose value the source type holds -/
theorem init_convert (k : ICfg) (hv : k.valid) (w : Nat) (hw : SrcW w) (ss : Bool)
    (p e : Int) (hp : 2 ≤ p) (hm : p ≤ k.maxCard) (he : isCanonU p e) (hy : InSrc w ss e) :
    k.initInt w ss p e = e := by
  rw [(init_canonical k hv w hw ss p e hp hm hy).1]
  exact Int.emod_eq_of_lt he.1 he.2

/-- `convert (init x) ≡ x (mod p)` -/
theorem convert_init (k : ICfg) (hv : k.valid) (w : Nat) (hw : SrcW w) (ss : Bool)
    (p y : Int) (hp : 2 ≤ p) (hm : p ≤ k.maxCard) (hy : InSrc w ss y) :
    (k.initInt w ss p y - y) % p = 0 := by
  rw [(init_canonical k hv w hw ss p y hp hm hy).1]
  unfold canonU
  have h := Int.emod_add_mul_ediv y p
  have : y % p - y = p * (-(y / p)) := by linarith
  rw [this]; exact Int.mul_emod_right _ _

/-- zero, one, mOne as computed by the constructor are the images of 0, 1, -1 -/
theorem constants_are_images (k : ICfg) (hv : k.valid) (p : Int) (hp : 2 ≤ p) (hm : p ≤ k.maxCard) :
    k.zero = canonU p 0 ∧ k.one = canonU p 1 ∧ k.mOne p = canonU p (-1) := by
  have ok := iok_of_valid k hv p hp hm
  unfold ICfg.zero ICfg.one ICfg.mOne canonU
  rw [ok.toE_id 0 (by omega) (by omega), ok.toE_id 1 (by omega) (by omega),
    ok.arU_id _ (by omega) (by omega), ok.toE_id _ (by omega) (by omega)]
  refine ⟨by simp, (Int.emod_eq_of_lt (by omega) (by omega)).symm, ?_⟩
  exact (emod_unique (by omega) (by omega) (-1) (by ring)).symm
example : (ICfg.mk 8 false 16).mOne 255 = 254 := by decide

/-! ## integral rings: `Integer` and floating sources -/

/-- init from an `Integer` of any size and either sign -/
theorem init_integer_canonical (k : ICfg) (hv : k.valid) (p y : Int) (hp : 2 ≤ p) (hm : p ≤ k.maxCard) :
    k.initZ p y = canonU p y := by
  have ok := iok_of_valid k hv p hp hm
  unfold ICfg.initZ canonU
  exact ok.toE_id _ (Int.emod_nonneg _ (by omega)) (Int.le_of_lt (Int.emod_lt_of_pos _ (by omega)))

/-- init from a finite `float` / `double` `y`, `t = trunc(y)` (so `t = y` for an integer-valued source, `±0 ↦ 0`,
    any magnitude: below 2^63 through `int64_t`, beyond through `Integer`): the canonical image of `t`.
    (For a non-integer `y` the code truncates toward zero; a non-finite `y` gives `zero`.) -/
theorem init_float_canonical (k : ICfg) (hv : k.valid) (p t : Int) (hp : 2 ≤ p) (hm : p ≤ k.maxCard) :
    k.initFloat p t = canonU p t := by
  unfold ICfg.initFloat
  split
  · next h =>
    exact (init_canonical k hv 64 (by unfold SrcW; decide) true p t hp hm (by unfold InSrc; simp only [if_true]; norm_num at h ⊢; omega)).1
  · exact init_integer_canonical k hv p t hp hm
example : (ICfg.mk 8 true 8).initFloat 13 (-(2 ^ 100)) = canonU 13 (-(2 ^ 100)) := by decide

/-- the constants of a ring object that was ASSIGNED from another ring (`operator=`, also onto a
    default-constructed object) are the images of 0, 1, −1 modulo the NEW modulus -/
theorem constants_after_assign (k : ICfg) (hv : k.valid) (a : ICfg.Obj) (p : Int) (hp : 2 ≤ p) (hm : p ≤ k.maxCard) :
    (k.assign a (k.construct p)).zero = canonU p 0 ∧ (k.assign a (k.construct p)).one = canonU p 1
      ∧ (k.assign a (k.construct p)).mOne = canonU p (-1) ∧ (k.assign a (k.construct p)).p = p := by
  obtain ⟨h0, h1, h2⟩ := constants_are_images k hv p hp hm
  have ok := iok_of_valid k hv p hp hm
  refine ⟨h0, h1, h2, ?_⟩
  show k.toR p = p
  obtain ⟨s, sg, c⟩ := k
  simp only [ICfg.valid] at hv
  rcases hv with ⟨h1 | h1 | h1 | h1, h2 | h2⟩ <;> subst h1 <;> subst h2 <;> cases sg <;>
    simp only [ICfg.maxCard] at hm <;> norm_num at hm <;>
    simp only [ICfg.toR, wrapUw] <;> norm_num <;> omega
example : (ICfg.mk 32 true 32).assign (ICfg.mk 32 true 32).default ((ICfg.mk 32 true 32).construct 101) = ⟨0, 1, 100, 101⟩ := by decide

/-! ## `Modular<float>`, `Modular<double>`, `Modular<float,double>` -/

/-- what the init overloads need from a floating configuration and a modulus -/
structure FInitOk (k : FCfg) (p : Int) : Prop where
  fS_id : ∀ x, -p ≤ x → x ≤ p → k.fS x = some x
  p32 : p < (2 : Int) ^ 32
  small : ∀ x, -((2 : Int) ^ k.ms) ≤ x → x ≤ (2 : Int) ^ k.ms → k.fS x = some x

theorem finitok_of_valid (k : FCfg) (hv : k.valid) (p : Int) (hm : p ≤ k.maxCard) : FInitOk k p := by
  obtain ⟨ms, mc⟩ := k
  simp only [FCfg.valid] at hv
  rcases hv with ⟨h1, h2⟩ | ⟨h1, h2⟩ | ⟨h1, h2⟩ <;> subst h1 <;> subst h2 <;>
    simp only [FCfg.maxCard] at hm <;> norm_num at hm <;>
    (refine ⟨?_, ?_, ?_⟩
     · intro x hx0 hx1; simp only [FCfg.fS]; apply fit_some <;> norm_num <;> omega
     · norm_num; omega
     · intro x hx0 hx1; simp only [FCfg.fS]; exact fit_some hx0 hx1)

section floatInit
variable (k : FCfg) (hv : k.valid) (p : Int) (hp : 2 ≤ p) (hm : p ≤ k.maxCard)
include hv hp hm

theorem fneg (r : Int) (hr : isCanonU p r) : k.neg p r = some (canonU p (-r)) := by
  have ok := finitok_of_valid k hv p hm
  unfold isCanonU at hr
  unfold FCfg.neg canonU
  rw [neg_emod_eq r p (by omega), Int.emod_eq_of_lt hr.1 hr.2]
  split
  · rfl
  · exact ok.fS_id _ (by omega) (by omega)

/-- reduce(x) for ANY integer-valued `x` of the element type (any magnitude: `fmod` is exact) -/
theorem float_reduce_exact (y : Int) : k.reduce p y = some (canonU p y) := by
  have ok := finitok_of_valid k hv p hm
  obtain ⟨hc, h0, h1, h2⟩ := tmod_cases y p (by omega)
  have ht : Int.tmod y p < p := by rcases hc with h | h <;> omega
  have hf := tmod_fix y p (by omega)
  unfold FCfg.reduce canonU
  simp only
  split
  · next hneg => rw [if_pos hneg] at hf; rw [hf]; exact ok.fS_id _ (by omega) (by omega)
  · next hneg => rw [if_neg hneg] at hf; rw [hf]

/-- signed 32/64-bit sources (the overload for `sizeof(Source) ≥ sizeof(Storage_t)`), the minimum included:
    reduced in integer arithmetic BEFORE the conversion to the element type, so values beyond 2^24 / 2^53 are exact -/
theorem float_init_sint_exact (w : Nat) (hw : w = 32 ∨ w = 64) (a : Int)
    (ha : -((2 : Int) ^ (w - 1)) ≤ a ∧ a < (2 : Int) ^ (w - 1)) :
    k.initSInt w p a = some (canonU p a) := by
  have ok := finitok_of_valid k hv p hm
  have hsrc : wrapUw w p = p ∧ (0 ≤ a → wrapUw w a = a) ∧ (a < 0 → wrapUw w (ICfg.arUSrc w (0 - wrapUw w a)) = -a) := by
    have := ok.p32
    rcases hw with h | h <;> subst h <;> norm_num at ha this ⊢ <;>
      simp only [ICfg.arUSrc, wrapUw] <;> norm_num <;> (refine ⟨?_, ?_, ?_⟩ <;> omega)
  obtain ⟨hpw, hy0, hyn⟩ := hsrc
  unfold FCfg.initSInt
  have hua : (if a < 0 then wrapUw w (ICfg.arUSrc w (0 - wrapUw w a)) else wrapUw w a) = if a < 0 then -a else a := by
    split
    · next h => exact hyn h
    · next h => exact hy0 (by omega)
  simp only [hua, hpw]
  by_cases hneg : a < 0
  · simp only [if_pos hneg]
    have h0 := Int.emod_nonneg (-a) (by omega : p ≠ 0)
    have h1 := Int.emod_lt_of_pos (-a) (by omega : 0 < p)
    rw [Int.tmod_eq_emod_of_nonneg (by omega), ok.fS_id _ (by omega) (by omega)]
    simp only [Option.bind_eq_bind, Option.bind_some]
    rw [fneg k hv p hp hm _ ⟨h0, h1⟩]
    unfold canonU
    have h := Int.emod_add_mul_ediv (-a) p
    have e : -((-a) % p) = a + p * ((-a) / p) := by linarith
    rw [e, Int.add_mul_emod_self_left]
  · simp only [if_neg hneg]
    have ha0 : 0 ≤ a := by omega
    have h0 := Int.emod_nonneg a (by omega : p ≠ 0)
    have h1 := Int.emod_lt_of_pos a (by omega : 0 < p)
    rw [Int.tmod_eq_emod_of_nonneg ha0, ok.fS_id _ (by omega) (by omega)]
    rfl

theorem float_init_uint_exact (w : Nat) (hw : w = 32 ∨ w = 64) (a : Int) (ha : 0 ≤ a) :
    k.initUInt w p a = some (canonU p a) := by
  have ok := finitok_of_valid k hv p hm
  have hpw : wrapUw w p = p := by
    have := ok.p32
    rcases hw with h | h <;> subst h <;> norm_num at this ⊢ <;> simp only [wrapUw] <;> norm_num <;> omega
  unfold FCfg.initUInt canonU
  rw [hpw, Int.tmod_eq_emod_of_nonneg ha]
  exact ok.fS_id _ (by have := Int.emod_nonneg a (by omega : p ≠ 0); omega) (Int.le_of_lt (Int.emod_lt_of_pos _ (by omega)))

/-- `Integer` source, any size and sign -/
theorem float_init_integer_exact (a : Int) : k.initZ p a = some (canonU p a) := by
  have ok := finitok_of_valid k hv p hm
  obtain ⟨hc, h0, h1, h2⟩ := tmod_cases a p (by omega)
  have ht : Int.tmod a p < p := by rcases hc with h | h <;> omega
  have hf := tmod_fix a p (by omega)
  unfold FCfg.initZ canonU
  rw [ok.fS_id _ (by omega) (by omega)]
  simp only [Option.bind_eq_bind, Option.bind_some]
  split
  · next hneg => rw [if_pos hneg] at hf; rw [hf]; exact ok.fS_id _ (by omega) (by omega)
  · next hneg => rw [if_neg hneg] at hf; rw [hf]; rfl

/-- every finite integer-valued `float` / `double` source, of any magnitude -/
theorem float_init_float_exact (y : Int) : k.initFloat p y = some (canonU p y) :=
  float_reduce_exact k hv p hp hm y

/-- machine integers narrower than the storage type: the conversion to the element type is exact for them -/
theorem float_init_small_exact (a : Int) (ha : -((2 : Int) ^ k.ms) ≤ a ∧ a ≤ (2 : Int) ^ k.ms) :
    k.initSmall p a = some (canonU p a) := by
  have ok := finitok_of_valid k hv p hm
  unfold FCfg.initSmall
  rw [ok.small a ha.1 ha.2]
  simp only [Option.bind_eq_bind, Option.bind_some]
  exact float_reduce_exact k hv p hp hm a

/-- convert ∘ init ≡ id (mod p), init ∘ convert = id, and the constants -/
theorem float_roundtrip_constants (e : Int) (he : isCanonU p e) :
    k.initFloat p (k.convert e) = some e ∧ k.initZ p (k.convert e) = some e
      ∧ k.mOne p = some (canonU p (-1)) := by
  have ok := finitok_of_valid k hv p hm
  refine ⟨?_, ?_, ?_⟩
  · rw [float_init_float_exact k hv p hp hm]; unfold FCfg.convert canonU; rw [Int.emod_eq_of_lt he.1 he.2]
  · rw [float_init_integer_exact k hv p hp hm]; unfold FCfg.convert canonU; rw [Int.emod_eq_of_lt he.1 he.2]
  · unfold FCfg.mOne canonU
    rw [ok.fS_id _ (by omega) (by omega)]
    congr 1
    exact (emod_unique (by omega) (by omega) (-1) (by ring)).symm

end floatInit
example : (FCfg.mk 53 53).initSInt 64 94906266 (-9223372036854775808) = some (canonU 94906266 (-9223372036854775808)) := by decide
example : (FCfg.mk 24 24).initFloat 4096 (2 ^ 100) = some 0 ∧ (FCfg.mk 24 24).initUInt 64 4093 18446744073709551615 = some (canonU 4093 18446744073709551615) := by decide

/-! ## `ModularBalanced<float|double>` -/

section balancedInit
variable (k : BFCfg) (hv : k.valid) (p : Int) (hp : 3 ≤ p) (hm : p ≤ k.maxCard)
include hv hp hm

theorem bf_fit (x : Int) (h0 : -p ≤ x) (h1 : x ≤ p) : k.f x = some x := by
  obtain ⟨mb⟩ := k
  simp only [BFCfg.valid] at hv
  rcases hv with h1' | h1' <;> subst h1' <;> simp only [BFCfg.maxCard] at hm <;> norm_num at hm <;>
    simp only [BFCfg.f] <;> apply fit_some <;> norm_num <;> omega

/-- signed machine integers with an overload, `Integer`, every floating source: `%` / `fmod`, NORMALISE -/
theorem balanced_init_signed_exact (y : Int) : k.initS p y = some (canonB p y) := by
  unfold BFCfg.initS
  rw [normB_tmod y p (by omega)]
  have hc := Givaro.Model.ModRing.canonB_isCanon p y (by omega)
  unfold isCanonB at hc
  exact bf_fit k hv p hp hm _ (by omega) (by omega)

/-- unsigned machine integers with an overload: `%`, NORMALISE_HI -/
theorem balanced_init_unsigned_exact (y : Int) (hy : 0 ≤ y) : k.initU p y = some (canonB p y) := by
  unfold BFCfg.initU
  simp only
  rw [Int.tmod_eq_emod_of_nonneg hy]
  have hc := Givaro.Model.ModRing.canonB_isCanon p y (by omega)
  unfold isCanonB at hc
  unfold canonB at hc ⊢
  exact bf_fit k hv p hp hm _ (by omega) (by omega)

/-- the template (narrow machine integers): exact conversion, then reduce -/
theorem balanced_init_small_exact (a : Int) (ha : -p ≤ a ∧ a ≤ p ∨ k.f a = some a) : k.initSmall p a = some (canonB p a) := by
  have hfa : k.f a = some a := by
    rcases ha with h | h
    · exact bf_fit k hv p hp hm a h.1 h.2
    · exact h
  unfold BFCfg.initSmall
  rw [hfa]
  simp only [Option.bind_eq_bind, Option.bind_some]
  exact balanced_init_signed_exact k hv p hp hm a

theorem balanced_roundtrip (e : Int) (he : isCanonB p e) : k.initS p (k.convert e) = some e := by
  rw [balanced_init_signed_exact k hv p hp hm]
  congr 1
  unfold BFCfg.convert
  unfold isCanonB at he
  exact canonB_unique (by omega) (by unfold isCanonB; omega) 0 (by ring)

end balancedInit
example : (BFCfg.mk 24).initU 8191 4294967295 = some (canonB 8191 4294967295) := by decide

/-! ## `ModularBalanced<int32_t|int64_t>` -/

section balancedIntInit
variable (k : BICfg) (hv : k.valid) (p : Int) (hp : 3 ≤ p) (hm : p ≤ k.maxCard)
include hv hp hm

theorem bi_wr (x : Int) (h0 : -p ≤ x) (h1 : x ≤ p) : k.wr x = x := by
  obtain ⟨w⟩ := k
  simp only [BICfg.valid] at hv
  rcases hv with h | h <;> subst h <;> simp only [BICfg.maxCard] at hm <;> norm_num at hm <;>
    simp only [BICfg.wr, wrapSw] <;> norm_num <;> omega

theorem balanced_int_init_signed_exact (y : Int) : k.initS p y = canonB p y := by
  obtain ⟨hc, h0, h1, h2⟩ := tmod_cases y p (by omega)
  have ht : Int.tmod y p < p := by rcases hc with h | h <;> omega
  unfold BICfg.initS
  rw [bi_wr k hv p hp hm _ (by omega) (by omega)]
  exact normB_tmod y p (by omega)

theorem balanced_int_init_unsigned_exact (y : Int) (hy : 0 ≤ y) : k.initU p y = canonB p y := by
  have h0 := Int.emod_nonneg y (by omega : p ≠ 0)
  have h1 := Int.emod_lt_of_pos y (by omega : 0 < p)
  unfold BICfg.initU canonB
  simp only
  rw [Int.tmod_eq_emod_of_nonneg hy, bi_wr k hv p hp hm _ (by omega) (by omega)]

/-- the template, for a source value the element type holds -/
theorem balanced_int_init_small_exact (a : Int) (ha : k.wr a = a) : k.initSmall p a = canonB p a := by
  unfold BICfg.initSmall BICfg.reduce
  rw [ha]
  exact normB_tmod a p (by omega)

end balancedIntInit
example : (BICfg.mk 64).initU 6074000999 18446744073709551615 = canonB 6074000999 18446744073709551615 := by decide

/-! ## `ModularExtended<float|double>` -/

section extendedInit
variable (k : ECfg) (hv : k.valid) (p : Int) (hp : 2 ≤ p) (hm : p ≤ k.maxCard)
include hv hp hm

theorem ext_f (x : Int) (h0 : -p ≤ x) (h1 : x ≤ p) : k.f x = some x := by
  obtain ⟨m⟩ := k
  simp only [ECfg.valid] at hv
  rcases hv with h | h <;> subst h <;> simp only [ECfg.maxCard] at hm <;> norm_num at hm <;>
    simp only [ECfg.f] <;> apply fit_some <;> norm_num <;> omega

theorem extended_init_uint_integer_float_exact (y : Int) :
    (0 ≤ y → k.initUInt p y = some (canonU p y)) ∧ k.initZ p y = some (canonU p y)
      ∧ k.initFloat p y = some (canonU p y) := by
  have hf := fun x h0 h1 => ext_f k hv p hp hm x h0 h1
  have h0 := Int.emod_nonneg y (by omega : p ≠ 0)
  have h1 := Int.emod_lt_of_pos y (by omega : 0 < p)
  refine ⟨?_, ?_, ?_⟩
  · intro hy
    unfold ECfg.initUInt canonU
    rw [Int.tmod_eq_emod_of_nonneg hy]; exact hf _ (by omega) (by omega)
  · unfold ECfg.initZ canonU; exact hf _ (by omega) (by omega)
  · obtain ⟨hc, _, _, h2⟩ := tmod_cases y p (by omega)
    have ht : Int.tmod y p < p := by rcases hc with h | h <;> omega
    have hfx := tmod_fix y p (by omega)
    unfold ECfg.initFloat canonU
    simp only
    split
    · next hneg => rw [if_pos hneg] at hfx; rw [hfx]; exact hf _ (by omega) (by omega)
    · next hneg => rw [if_neg hneg] at hfx; rw [← hfx]; exact hf _ (by omega) (by omega)

/-- signed 32/64-bit sources, the minimum included -/
theorem extended_init_sint_exact (w : Nat) (hw : w = 32 ∨ w = 64) (a : Int)
    (ha : -((2 : Int) ^ (w - 1)) ≤ a ∧ a < (2 : Int) ^ (w - 1)) :
    k.initSInt w p a = some (canonU p a) := by
  have hf := fun x h0 h1 => ext_f k hv p hp hm x h0 h1
  have hsrc : (0 ≤ a → wrapUw w a = a) ∧ (a < 0 → wrapUw w (0 - wrapUw w a) = -a) := by
    rcases hw with h | h <;> subst h <;> norm_num at ha ⊢ <;> simp only [wrapUw] <;> norm_num <;> (refine ⟨?_, ?_⟩ <;> omega)
  unfold ECfg.initSInt
  have hua : (if a < 0 then wrapUw w (0 - wrapUw w a) else wrapUw w a) = if a < 0 then -a else a := by
    split
    · next h => exact hsrc.2 h
    · next h => exact hsrc.1 (by omega)
  simp only [hua]
  by_cases hneg : a < 0
  · simp only [if_pos hneg]
    have h0 := Int.emod_nonneg (-a) (by omega : p ≠ 0)
    have h1 := Int.emod_lt_of_pos (-a) (by omega : 0 < p)
    rw [Int.tmod_eq_emod_of_nonneg (by omega), hf _ (by omega) (by omega)]
    simp only [Option.bind_eq_bind, Option.bind_some]
    unfold ECfg.neg canonU
    simp only
    have hd := Int.emod_add_mul_ediv (-a) p
    split
    · rw [hf _ (by omega) (by omega)]; congr 1
      exact (emod_unique (by omega) (by omega) (-((-a) / p) - 1) (by linarith)).symm
    · congr 1
      have hz : (-a) % p = 0 := by omega
      rw [hz] at hd ⊢
      exact (emod_unique (by omega) (by omega) (-((-a) / p)) (by linarith)).symm
  · simp only [if_neg hneg]
    have ha0 : 0 ≤ a := by omega
    have h0 := Int.emod_nonneg a (by omega : p ≠ 0)
    have h1 := Int.emod_lt_of_pos a (by omega : 0 < p)
    rw [Int.tmod_eq_emod_of_nonneg ha0, hf _ (by omega) (by omega)]
    rfl

end extendedInit
example : (ECfg.mk 53).initSInt 64 1125899906842623 (-9223372036854775808) = some (canonU 1125899906842623 (-9223372036854775808)) := by decide

/-! ## `Modular<Integer>` -/
theorem integer_init_exact (p a : Int) (hp : 2 ≤ p) : ZMod'.init p a = canonU p a := by
  unfold ZMod'.init ZMod'.reduce canonU
  simp only
  exact tmod_fix a p (by omega)

/-! ## `Modular<Log16>`: init on the table model, for any valid generator chain -/

theorem log16_val_log (T : L16) (h : T.Valid) (r : Int) (hr : 0 ≤ r ∧ r < T.p) :
    T.okR (T.log r) ∧ T.val (T.log r) = r := by
  have hp := h.p2
  have hMd : T.M = T.p - 1 := rfl
  by_cases h0 : r = 0
  · subst h0; rw [h.log0]; exact ⟨Or.inr rfl, L16.val_Z h⟩
  · obtain ⟨t0, t1, ht⟩ := h.explog r (by omega) hr.2
    refine ⟨Or.inl ⟨t0, t1⟩, ?_⟩
    unfold L16.val; rw [if_neg (by omega), ht]

/-- init from unsigned machine integers -/
theorem log16_init_unsigned_exact (T : L16) (h : T.Valid) (a : Int) (ha : 0 ≤ a) :
    T.okR (T.initU a) ∧ T.val (T.initU a) = canonU T.p a := by
  have hp := h.p2
  have e : (if a ≥ T.p then a % T.p else a) = a % T.p := by
    split
    · rfl
    · exact (Int.emod_eq_of_lt ha (by omega)).symm
  unfold L16.initU canonU
  rw [e]
  exact log16_val_log T h _ ⟨Int.emod_nonneg _ (by omega), Int.emod_lt_of_pos _ (by omega)⟩

/-- init from signed machine integers (the `int64_t` body; `int32_t`, `int16_t`, `double` after `fmod`, `float` forward to it),
    the minimum included -/
theorem log16_init_signed_exact (T : L16) (h : T.Valid) (a : Int)
    (ha : -((2 : Int) ^ 63) ≤ a ∧ a < (2 : Int) ^ 63) :
    T.okR (T.initS a) ∧ T.val (T.initS a) = canonU T.p a := by
  have hp := h.p2
  have hua : wrapUw 64 (if a < 0 then wrapUw 64 (0 - wrapUw 64 a) else a) = if a < 0 then -a else a := by
    unfold wrapUw; norm_num at ha ⊢
    split <;> omega
  unfold L16.initS canonU
  simp only [hua]
  have hr : ∀ x : Int, 0 ≤ x → (if x ≥ T.p then x % T.p else x) = x % T.p := by
    intro x hx
    split
    · rfl
    · exact (Int.emod_eq_of_lt hx (by omega)).symm
  by_cases hneg : a < 0
  · simp only [if_pos hneg]
    rw [hr (-a) (by omega)]
    have h0 := Int.emod_nonneg (-a) (by omega : T.p ≠ 0)
    have h1 := Int.emod_lt_of_pos (-a) (by omega : 0 < T.p)
    have e := neg_emod_eq (-a) T.p (by omega)
    rw [Int.neg_neg] at e
    have hif : (if a < 0 ∧ (-a) % T.p ≠ 0 then T.p - (-a) % T.p else (-a) % T.p) = a % T.p := by
      rw [e]
      by_cases hz : (-a) % T.p = 0
      · rw [if_neg (by intro hh; exact hh.2 hz), if_pos hz, hz]
      · rw [if_pos ⟨hneg, hz⟩, if_neg hz]
    rw [hif]
    exact log16_val_log T h _ ⟨Int.emod_nonneg _ (by omega), Int.emod_lt_of_pos _ (by omega)⟩
  · simp only [if_neg hneg]
    rw [hr a (by omega)]
    have hif : (if a < 0 ∧ a % T.p ≠ 0 then T.p - a % T.p else a % T.p) = a % T.p := by
      rw [if_neg (by intro hh; exact hneg hh.1)]
    rw [hif]
    exact log16_val_log T h _ ⟨Int.emod_nonneg _ (by omega), Int.emod_lt_of_pos _ (by omega)⟩

/-- init from an `Integer` of any size and sign -/
theorem log16_init_integer_exact (T : L16) (h : T.Valid) (a : Int) :
    T.okR (T.initZ a) ∧ T.val (T.initZ a) = canonU T.p a := by
  have hp := h.p2
  unfold L16.initZ canonU
  split
  · next hneg =>
    simp only
    have htr : (if a ≤ -T.p then (-a) % T.p else -a) = (-a) % T.p := by
      split
      · rfl
      · exact (Int.emod_eq_of_lt (by omega) (by omega)).symm
    rw [htr]
    have h0 := Int.emod_nonneg (-a) (by omega : T.p ≠ 0)
    have h1 := Int.emod_lt_of_pos (-a) (by omega : 0 < T.p)
    have e := neg_emod_eq (-a) T.p (by omega)
    rw [Int.neg_neg] at e
    split
    · next hne =>
      rw [e, if_neg hne]
      exact log16_val_log T h _ ⟨by omega, by omega⟩
    · next hz =>
      simp only [ne_eq, not_not] at hz
      rw [e, if_pos hz]
      exact ⟨Or.inr rfl, L16.val_Z h⟩
  · next hnn =>
    have e : (if a ≥ T.p then a % T.p else a) = a % T.p := by
      split
      · rfl
      · exact (Int.emod_eq_of_lt (by omega) (by omega)).symm
    rw [e]
    exact log16_val_log T h _ ⟨Int.emod_nonneg _ (by omega), Int.emod_lt_of_pos _ (by omega)⟩

/-- `convert(init x) = x mod p` and `init(convert e)` denotes the same element -/
theorem log16_convert_init (T : L16) (h : T.Valid) (e : Int) (he : T.okR e) :
    T.val (T.initU (T.val e)) = T.val e := by
  have hp := h.p2
  have hMd : T.M = T.p - 1 := rfl
  have hv : 0 ≤ T.val e ∧ T.val e < T.p := by
    rcases he with he | he
    · rw [L16.val_nonzero h he.1 he.2]; have := L16.expm_range h e; omega
    · rw [he, L16.val_Z h]; omega
  rw [(log16_init_unsigned_exact T h _ hv.1).2]
  exact Int.emod_eq_of_lt hv.1 hv.2


/-! ## the generic `Modular<IntType,Compute_t>` (modular-inttype.h, with fixes/C03_3.patch) -/

/-- init from an `Integer`, and from every machine number the element type need not hold (those go through `Integer`) -/
theorem generic_init_integer_exact (k : GCfg) (hv : k.valid) (p y : Int) (hp : 2 ≤ p) (hm : p ≤ k.maxCard) :
    k.initZ p y = canonU p y := by
  have ok := gok_of_valid k hv p hp hm
  unfold GCfg.initZ canonU
  exact (ok.small (Int.emod_nonneg _ (by omega)) (by have := Int.emod_lt_of_pos y (by omega : 0 < p); omega)).1

/-- init from a source the element type holds (`Caster<Element>(a)`, then reduce) -/
theorem generic_init_fit_exact (k : GCfg) (hv : k.valid) (p a : Int) (hp : 2 ≤ p) (hm : p ≤ k.maxCard)
    (ha : k.E a = a) (hsg : k.sg = false → 0 ≤ a) : k.initFit p a = canonU p a := by
  unfold GCfg.initFit
  rw [ha]
  exact greduce_model (gok_of_valid k hv p hp hm) a hsg
example : (GCfg.mk 16 true).initFit 101 (-32768) = canonU 101 (-32768) ∧ (GCfg.mk 16 false).initZ 101 (-1) = 100 := by decide

end Givaro.Props.C04
