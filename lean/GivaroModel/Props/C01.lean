/-
C01 — big-integer operations are exact over Z, identically across all overloads.

The content of the property is carried by the generated theorems `Givaro.Gen.<overload>_exact`
(one per public overload, re-proved against the body regenerated from /repo on every run): each
overload returns the value of one specification function of `Spec/IntegerSpec.lean` applied to
the *values* of its operands.  This file (hand-written) records
 * that the specification functions are the operations of Z the documentation names, and
 * the corollary the title asks for: two call forms of one operation return the same value on
   operands denoting the same integers (instances for each family; every other pair follows the
   same way from the two `_exact` theorems).
-/
import GivaroModel.Generated.IntegerThms
namespace Givaro.Props.C01
open Givaro Givaro.Spec Givaro.Gen

/-! ### the specification functions are the Z-operations -/
theorem spec_arith (a b : Int) : add a b = a + b ∧ sub a b = a - b ∧ mul a b = a * b ∧ neg a = -a := ⟨rfl, rfl, rfl, rfl⟩
theorem spec_sgn (a : Int) : (sgn a = 1 ↔ 0 < a) ∧ (sgn a = 0 ↔ a = 0) ∧ (sgn a = -1 ↔ a < 0) := by
  unfold sgn; repeat' split <;> omega
theorem spec_iabs (a : Int) : 0 ≤ iabs a ∧ (iabs a = a ∨ iabs a = -a) := by unfold iabs; split <;> omega
theorem spec_shl (a k : Int) (hk : 0 ≤ k) : shl a k = a * 2 ^ k.toNat := rfl
theorem spec_gcd (a b : Int) : 0 ≤ gcd a b ∧ gcd a b ∣ a ∧ gcd a b ∣ b := by
  unfold gcd; exact ⟨by omega, Int.gcd_dvd_left .., Int.gcd_dvd_right ..⟩
/-- two's-complement conjunction on non-negative operands is the conjunction of the naturals -/
theorem spec_land_nonneg (m n : Nat) : land (m : Int) (n : Int) = ((m &&& n : Nat) : Int) := rfl
theorem spec_lnot (a : Int) : lnot a = -a - 1 := rfl

/-! ### overloads of one operation agree (the value does not depend on the call form) -/
theorem add_forms_agree (r self a : Int) (n : Int) (h64 : InS64 n) :
    (Integer_add_Z_Zc_s64 r a n).ret = (Integer_add_Z_Zc_Zc r a n).ret
    ∧ (Integer_op_add_s64_const a n).ret = (Integer_add_Z_Zc_Zc r a n).ret
    ∧ (Integer_op_addin_s64 a n).outs = [(Integer_add_Z_Zc_Zc r a n).ret]
    ∧ (op_add_s64_Zc n a).ret = (Integer_add_Z_Zc_Zc r a n).ret := by
  rw [Integer_add_Z_Zc_s64_exact r a n h64, Integer_add_Z_Zc_Zc_exact, Integer_op_add_s64_const_exact a n h64,
    Integer_op_addin_s64_exact a n h64, op_add_s64_Zc_exact n a h64]
  simp [Integer_add_Z_Zc_s64_spec, Integer_add_Z_Zc_Zc_spec, Integer_op_add_s64_const_spec, Integer_op_addin_s64_spec,
    op_add_s64_Zc_spec, add, Int.add_comm]

theorem sub_int32_agrees (r a n : Int) (h : InS32 n) :
    (Integer_sub_Z_Zc_s32 r a n).ret = (Integer_sub_Z_Zc_Zc r a n).ret
    ∧ (Integer_op_subin_s32 a n).outs = [(Integer_sub_Z_Zc_Zc r a n).ret] := by
  rw [Integer_sub_Z_Zc_s32_exact r a n h, Integer_sub_Z_Zc_Zc_exact, Integer_op_subin_s32_exact a n h]
  simp [Integer_sub_Z_Zc_s32_spec, Integer_sub_Z_Zc_Zc_spec, Integer_op_subin_s32_spec]

theorem mul_forms_agree (r a n : Int) (h : InU64 n) :
    (Integer_mul_Z_Zc_u64 r a n).ret = (Integer_mul_Z_Zc_Zc r a n).ret
    ∧ (op_mul_u64_Zc n a).ret = (Integer_mul_Z_Zc_Zc r a n).ret := by
  rw [Integer_mul_Z_Zc_u64_exact r a n h, Integer_mul_Z_Zc_Zc_exact, op_mul_u64_Zc_exact n a h]
  simp [Integer_mul_Z_Zc_u64_spec, Integer_mul_Z_Zc_Zc_spec, op_mul_u64_Zc_spec, mul, Int.mul_comm]

theorem fused_forms_agree (r a x y : Int) (h : InU64 x) :
    (Integer_axpy_Z_Zc_u64_Zc r a x y).ret = (Integer_axpy_Z_Zc_Zc_Zc r a x y).ret
    ∧ (Integer_axpy_Z_Zc_Zc_Zc r a x y).ret = a * x + y
    ∧ (Integer_maxpy_Z_Zc_Zc_Zc r a x y).ret = y - a * x
    ∧ (Integer_axmy_Z_Zc_Zc_Zc r a x y).ret = a * x - y
    ∧ (Integer_axpyin_Z_Zc_Zc r a x).ret = r + a * x
    ∧ (Integer_maxpyin_Z_Zc_Zc r a x).ret = r - a * x
    ∧ (Integer_axmyin_Z_Zc_Zc r a x).ret = a * x - r := by
  rw [Integer_axpy_Z_Zc_u64_Zc_exact r a x y h, Integer_axpy_Z_Zc_Zc_Zc_exact, Integer_maxpy_Z_Zc_Zc_Zc_exact,
    Integer_axmy_Z_Zc_Zc_Zc_exact, Integer_axpyin_Z_Zc_Zc_exact, Integer_maxpyin_Z_Zc_Zc_exact, Integer_axmyin_Z_Zc_Zc_exact]
  simp [Integer_axpy_Z_Zc_u64_Zc_spec, Integer_axpy_Z_Zc_Zc_Zc_spec, Integer_maxpy_Z_Zc_Zc_Zc_spec, Integer_axmy_Z_Zc_Zc_Zc_spec,
    Integer_axpyin_Z_Zc_Zc_spec, Integer_maxpyin_Z_Zc_Zc_spec, Integer_axmyin_Z_Zc_Zc_spec, add, sub, mul]

/-- the word-sized conjunction agrees with the big-integer one, also for negative left operands -/
theorem and_word_agrees (x a : Int) (h : InU64 a) (hfit : InU64 (land x a)) :
    (Integer_op_and_u64_const x a).ret = (Integer_op_and_Zc_const x a).ret := by
  rw [Integer_op_and_u64_const_exact x a h hfit, Integer_op_and_Zc_const_exact]
  simp [Integer_op_and_u64_const_spec, Integer_op_and_Zc_const_spec]

/-- comparison operators decide the order of Z (truth value), for every admissible `mpz_cmp` -/
theorem lt_decides (a b : Int) : ((Integer_op_lt_Zc_const a b).ret ≠ 0) ↔ a < b := by
  have h := Integer_op_lt_Zc_const_exact a b
  unfold Integer_op_lt_Zc_const_chk at h
  simp only [decide_eq_true_eq] at h
  obtain ⟨_, h2, _⟩ := h
  unfold b2i at h2
  by_cases hab : a < b <;> simp [hab] at h2 ⊢ <;> exact h2

/-- the three-way comparison has the sign of `a - b` whatever magnitude `mpz_cmp` returns -/
theorem compare_sign (a b : Int) : sgn (compare_Zc_Zc a b).ret = sgn (a - b) := by
  have h := compare_Zc_Zc_exact a b
  unfold compare_Zc_Zc_chk at h
  simp only [decide_eq_true_eq] at h
  exact h.2.1

-- non-vacuity of the range hypotheses
example : InS64 (-9223372036854775808) ∧ InS32 (-3) ∧ InU64 18446744073709551615 := by decide

end Givaro.Props.C01
