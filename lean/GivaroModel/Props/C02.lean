/-
C02 — division and remainder obey their documented rounding conventions.

The per-overload theorems (`Givaro.Gen.*_exact`, regenerated on every run) state that each
overload computes one of the specification functions of `Spec/IntegerSpec.lean`.  This file
proves that those specification functions *are* the conventions of the header's documentation
block (gmp++_int.h "Division/euclidean division/modulo"), for every dividend and every non-zero
divisor of either sign, and that the Euclidean-ring view is mutually consistent.
-/
import GivaroModel.Spec.IntegerSpec
import GivaroModel.Lemmas.IntegerTactics
namespace Givaro.Props.C02
open Givaro Givaro.Spec

/-- case analysis on the three facts every rounding convention depends on -/
local macro "cases3" n:ident d:ident hb:ident : tactic => `(tactic|
  (by_cases c1 : 0 ≤ $n <;> by_cases c2 : $n % $d = 0 <;> by_cases c3 : $d < 0 <;>
    simp only [c1, c2, c3, ↓reduceIte, or_true, true_or, or_false, false_or, not_true_eq_false, not_false_eq_true] at $hb:ident ⊢ <;>
    (repeat' split) <;> omega))

/-- `/`, `div`, `divin`, `trunc` with `%`, `%=`, `trem`: `n = d q + r`, `|r| < |d|`, `r` has the sign of `n`. -/
theorem trunc_convention (n d : Int) (hd : d ≠ 0) :
    n = d * tdivQ n d + tmodR n d ∧ iabs (tmodR n d) < iabs d ∧ (tmodR n d = 0 ∨ sgn (tmodR n d) = sgn n) := by
  have h := Int.mul_tdiv_add_tmod n d
  have hb := emod_bounds n d hd
  have hz : n = 0 → n % d = 0 := by intro h0; subst h0; simp
  unfold tdivQ tmodR iabs sgn
  refine ⟨h.symm, ?_, ?_⟩
  · rw [tmod_emod]; cases3 n d hb
  · rw [tmod_emod]; cases3 n d hb

/-- `mod`, `modin`, `divmod`, `quo`, `rem`, `quoRem`: `n = d q + r` with `0 ≤ r < |d|`. -/
theorem euclid_convention (n d : Int) (hd : d ≠ 0) :
    n = d * edivQ n d + emodR n d ∧ 0 ≤ emodR n d ∧ emodR n d < iabs d := by
  have h := Int.mul_ediv_add_emod n d
  have hb := emod_bounds n d hd
  unfold edivQ emodR iabs
  exact ⟨h.symm, hb.1, hb.2⟩

/-- `floor`, `frem`: `n = d q + r`, the remainder has the sign of the divisor (q = ⌊n/d⌋). -/
theorem floor_convention (n d : Int) (hd : d ≠ 0) :
    n = d * fdivQ n d + fmodR n d ∧ (0 < d → 0 ≤ fmodR n d ∧ fmodR n d < d) ∧ (d < 0 → d < fmodR n d ∧ fmodR n d ≤ 0) := by
  have h := Int.mul_fdiv_add_fmod n d
  have hb := emod_bounds n d hd
  unfold fdivQ fmodR
  refine ⟨h.symm, ?_, ?_⟩ <;> intro hpos <;> rw [fmod_emod] <;> repeat' split <;> omega

/-- `ceil`, `crem`: `n = d q + r`, the remainder has the sign opposite to the divisor (q = ⌈n/d⌉). -/
theorem ceil_convention (n d : Int) (hd : d ≠ 0) :
    n = d * cdivQ n d + cmodR n d ∧ (0 < d → -d < cmodR n d ∧ cmodR n d ≤ 0) ∧ (d < 0 → 0 ≤ cmodR n d ∧ cmodR n d < -d) := by
  have h := Int.mul_fdiv_add_fmod (-n) d
  have hb := emod_bounds (-n) d hd
  unfold cdivQ cmodR
  refine ⟨?_, ?_, ?_⟩
  · have : d * -(-n).fdiv d = -(d * (-n).fdiv d) := by rw [Int.mul_neg]
    omega
  · intro hpos; rw [fmod_emod]; repeat' split <;> omega
  · intro hneg; rw [fmod_emod]; repeat' split <;> omega

/-- the quotient is unique for the Euclidean convention: any `(q, r)` with `n = d q + r`, `0 ≤ r < |d|`
    is `(edivQ, emodR)` — so "the" Euclidean quotient the overloads must agree on is well defined. -/
theorem euclid_unique (n d q r : Int) (hd : d ≠ 0) (h : n = d * q + r) (h0 : 0 ≤ r) (h1 : r < iabs d) :
    q = edivQ n d ∧ r = emodR n d := by
  unfold edivQ emodR iabs at *
  have hr : r = n % d := by
    rw [h, Int.mul_comm, Int.add_comm, Int.add_mul_emod_self_right]
    rcases Int.lt_or_gt_of_ne hd with hneg | hpos
    · rw [← Int.emod_neg]; exact (Int.emod_eq_of_lt h0 (by split at h1 <;> omega)).symm
    · exact (Int.emod_eq_of_lt h0 (by split at h1 <;> omega)).symm
  refine ⟨?_, hr⟩
  have h2 := Int.mul_ediv_add_emod n d
  have : d * q = d * (n / d) := by omega
  exact Int.eq_of_mul_eq_mul_left hd this

/-- Euclidean-ring view of `ZRing<Integer>`: `quo a b * b + rem a b = a`. -/
theorem ring_view_consistent (a b : Int) : edivQ a b * b + emodR a b = a := by
  unfold edivQ emodR
  rw [Int.mul_comm]; exact Int.mul_ediv_add_emod a b

-- non-vacuity: the hypotheses are satisfiable and the conventions differ where they should
example : tdivQ (-7) 2 = -3 ∧ tmodR (-7) 2 = -1 ∧ fdivQ (-7) 2 = -4 ∧ fmodR (-7) 2 = 1 ∧ cdivQ (-7) 2 = -3 ∧ cmodR (-7) 2 = -1
    ∧ edivQ (-7) (-2) = 4 ∧ emodR (-7) (-2) = 1 ∧ edivQ 7 (-2) = -3 ∧ emodR 7 (-2) = 1 := by decide

end Givaro.Props.C02
