/-
C14 (tie T) — special member functions of the CRT / RNS classes.

`Generated/SMF.lean` is regenerated on every run of the check from the clang AST of a translation unit that uses every copy / move
operation of `IntRNSsystem`, `RNSsystem<RING,Domain>`, `RNSsystemFixed`, `ChineseRemainder<…,REDUCE>`, `Poly1CRT<Field>` and of the
`Array0<T>` arrays they are made of (translate/gen_smf.py): per class instantiation, per special member function, per data member,
the members of the *source* object that are read to initialise / assign it.

The models of `Model/CRT.lean` (`IntSys.copy/assign`, `RnsSys.copy/assign`, `PolySys.copy`, the functor's value semantics) say that a
copy has the same state as its source.  The theorems below are kernel evaluations over the whole table: every data member the model's
state contains is copied, from the same member, by every copy operation the class offers (declared, not deleted).  The defect repaired
by fixes/C14_1 (`_ck(R._primes)`) and the one repaired by fixes/C14_3 (`_RNS` not copied) are exactly what these theorems exclude.
-/
import GivaroModel.Generated.SMF
namespace Givaro.Props.C14SMF
open Givaro.Gen.SMF

/-- the data members that make up the state of the model of each class -/
def stateMembers (cls : String) : List String :=
  if cls = "IntRNSsystem" then ["_primes", "_prod", "_ck"]
  else if cls = "RNSsystem" then ["_primes", "_ck"]
  else if cls = "RNSsystemFixed" then ["_primes", "_RNS"]
  else if cls = "ChineseRemainder" then ["_domain", "C_12"]
  else if cls = "Poly1CRT" then ["_F", "_PolRing", "_primes", "_ck"]
  else if cls = "Array0" then ["_size", "_d"]
  else []

def modelledClasses : List String := ["IntRNSsystem", "RNSsystem", "RNSsystemFixed", "ChineseRemainder", "Poly1CRT", "Array0"]

/-- the operation is not offered by the class (never declared, or deleted): nothing to copy -/
def notOffered (r : Row) : Bool := r.how == "absent" || r.how == "deleted" || r.how == "implicit-unused-or-deleted"

/-- the member is copied from the same member of the source: member-wise (`sources = [member]`); for `Array0`'s user-written deep
    copy (`copy` → `reallocate` + element loop) the member is written and the same member of the source is among what it is
    computed from -/
def copiedFromSame (r : Row) : Bool :=
  if r.cls == "Array0" && r.how == "user" then r.sources.contains r.member && r.writes.contains r.member
  else r.sources == [r.member]

/-- every member of the model's state is copied from the same member by every copy / move operation the class offers -/
theorem smf_complete : ∀ r ∈ rows, r.member ∈ stateMembers r.cls → notOffered r = true ∨ copiedFromSame r = true := by
  decide +kernel

/-- a provided operation has a body the translator could read (a declared-but-undefined or unreadable special member would make
    `smf_complete` meaningless for it) -/
theorem smf_provided_is_defined : ∀ r ∈ rows, notOffered r = true ∨ r.how = "user" ∨ r.how = "implicit" := by
  decide +kernel

/-- non-vacuity: every modelled class is in the table with all its state members, and offers a copy constructor -/
theorem smf_table_covers_model :
    ∀ c ∈ modelledClasses,
      (∃ m ∈ members, m.1 = c ∧ ∀ f ∈ stateMembers c, f ∈ m.2.2) ∧
      (∃ r ∈ rows, r.cls = c ∧ r.op = "copy-ctor" ∧ notOffered r = false) := by
  decide +kernel

/-- every class the conversions' histories assign (`dst = src`) offers copy assignment -/
theorem smf_assignable : ∀ c ∈ ["IntRNSsystem", "RNSsystem", "RNSsystemFixed", "ChineseRemainder", "Array0"],
    ∃ r ∈ rows, r.cls = c ∧ r.op = "copy-assign" ∧ notOffered r = false := by
  decide +kernel

example : rows.length > 200 := by decide +kernel

end Givaro.Props.C14SMF
