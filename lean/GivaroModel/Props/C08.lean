/-
C08 — univariate polynomial arithmetic satisfies its defining identities everywhere.

All theorems are over an arbitrary field `K` with decidable equality and quantify over *all* coefficient lists
(every degree, every shape, normalised or not).  `toPoly l = Σ lᵢ Xⁱ` is the polynomial a stored vector denotes.
Theorems about `Givaro.Model.Poly.*` speak about the model of the code (as repaired by fixes/C08_1); the certificate
theorems justify the checks the driver applies to the implementation's output for division, gcd and inverse.

Not proved here (see the check's `assumptions`): the Karatsuba range product (`karaStep`, and `mulR` above the
threshold) is modelled and compared with the implementation, but its exactness is decided per case by the reference
product `smul`, whose correctness is `smul_exact` below.  The schoolbook product is proved (`stdmul_exact`).
-/
import GivaroModel.Lemmas.PolyLemmas

open Polynomial
set_option linter.unusedSectionVars false

namespace Givaro.Props.C08
open Givaro.Model.Poly Givaro.Lemmas.Poly Givaro.Spec.Poly

variable {K : Type} [Field K] [DecidableEq K]

/-! ### normalisation -/

/-- `setdegree` returns a list without leading zero that denotes the same polynomial -/
theorem setdegree_normal (P : List K) : Normal (setdegree P) ∧ toPoly (setdegree P) = toPoly P :=
  ⟨Givaro.Lemmas.Poly.setdegree_normal P, toPoly_setdegree P⟩

/-- the zero polynomial is recognised whatever its storage: `isZero` answers for the denoted polynomial -/
theorem isZero_correct (P : List K) : isZero P = true ↔ toPoly P = 0 := by
  have hn := Givaro.Lemmas.Poly.setdegree_normal P
  have ht := toPoly_setdegree P
  unfold isZero
  split
  · next e => rw [e] at ht; simp [← ht]
  · next a e =>
    rw [e] at ht hn
    have ha : a ≠ 0 := by simpa [Normal, eq_comm] using hn
    simp only [decide_eq_true_eq, ha, false_iff]
    rw [← ht]; simp [ha]
  · next h1 h2 =>
    simp only [Bool.false_eq_true, false_iff]
    intro h0
    rw [← ht] at h0
    exact h1 (toPoly_eq_zero_of_normal _ hn h0)

/-- observers see the normal form: `areEqual` decides equality of the denoted polynomials, for every storage -/
theorem observers_see_normal_form (P Q : List K) : areEqual P Q = true ↔ toPoly P = toPoly Q := by
  unfold areEqual
  rw [decide_eq_true_eq]
  exact setdegree_eq_iff P Q

/-- `degree` depends only on the denoted polynomial -/
theorem degree_well_defined (P Q : List K) (h : toPoly P = toPoly Q) : Model.Poly.degree P = Model.Poly.degree Q := by
  unfold Model.Poly.degree
  rw [(setdegree_eq_iff P Q).mpr h]

/-! ### addition, subtraction, scalar forms: coefficient-exact for all inputs -/

theorem add_sub_exact (P Q : List K) :
    toPoly (add P Q) = toPoly P + toPoly Q ∧ toPoly (sub P Q) = toPoly P - toPoly Q ∧
    toPoly (neg P) = - toPoly P ∧
    toPoly (addin P Q) = toPoly P + toPoly Q ∧ toPoly (subin P Q) = toPoly P - toPoly Q :=
  ⟨toPoly_add P Q, toPoly_sub P Q, toPoly_neg P, toPoly_addin P Q, toPoly_subin P Q⟩

theorem scalar_ops_exact (P : List K) (v : K) :
    toPoly (addVal P v) = toPoly P + C v ∧ toPoly (valAdd v P) = C v + toPoly P ∧
    toPoly (subVal P v) = toPoly P - C v ∧ toPoly (valSub v P) = C v - toPoly P ∧
    toPoly (addinVal P v) = toPoly P + C v ∧ toPoly (subinVal P v) = toPoly P - C v ∧
    toPoly (mulVal P v) = toPoly P * C v ∧ toPoly (divVal P v) = toPoly P * C v⁻¹ :=
  ⟨toPoly_addVal P v, toPoly_valAdd v P, toPoly_subVal P v, toPoly_valSub v P,
   toPoly_addinVal P v, toPoly_subinVal P v, toPoly_mulVal P v, toPoly_divVal P v⟩

/-- known defect of the unchanged tree (repaired by fixes/C08_1): `sub(R, Val, P)` is not `Val - P` -/
theorem valSub_unrepaired_counterexample :
    ¬ ∀ (v : ℚ) (P : List ℚ), toPoly (valSub_unrepaired v P) = C v - toPoly P := by
  intro h
  have := h 1 []
  simp [valSub_unrepaired] at this
  have h2 := congrArg (fun p => p.coeff 0) this
  simp at h2
  norm_num at h2

/-! ### evaluation and derivative agree with their definitions -/

theorem eval_exact (P : List K) (v : K) : Model.Poly.eval P v = (toPoly P).eval v := eval_eq P v

theorem diff_exact (P : List K) : toPoly (diff P) = derivative (toPoly P) := toPoly_diff P

/-! ### results of the operations that end in `setdegree` are normalised -/

theorem results_normal (thr : Nat) (P Q : List K) (u : K) :
    Normal (mul thr P Q) ∧ Normal (stdmul P Q) ∧ Normal (karamul thr P Q) ∧ Normal (divVal P u) ∧
    Normal (reverse P) ∧ Normal (modpowx P thr) ∧ Normal (powerCompose P thr) := by
  have n0 : Normal ([] : List K) := by simp [Normal]
  refine ⟨?_, ?_, ?_, Givaro.Lemmas.Poly.setdegree_normal _, Givaro.Lemmas.Poly.setdegree_normal _,
          Givaro.Lemmas.Poly.setdegree_normal _, Givaro.Lemmas.Poly.setdegree_normal _⟩
  · unfold mul; split
    · exact n0
    · exact Givaro.Lemmas.Poly.setdegree_normal _
  · unfold stdmul; split
    · exact n0
    · exact Givaro.Lemmas.Poly.setdegree_normal _
  · unfold karamul; split
    · exact n0
    · exact Givaro.Lemmas.Poly.setdegree_normal _

/-! ### products -/

/-- Tier A `stdmul_exact` (range form `stdmul(R,Rbeg,Rend,P,Pbeg,Pend,Q,Qbeg,Qend)`, every range length `n`, including
    truncation): the R range keeps its length and receives the coefficients `0 … n-1` of `P·Q`, i.e. `P·Q mod X^n` -/
theorem stdmul_exact (n : Nat) (P Q : List K) (hn : 0 < n) (hP : P ≠ []) :
    (stdmulR n P Q).length = n ∧ ∀ k, k < n → (stdmulR n P Q).getD k 0 = (toPoly P * toPoly Q).coeff k :=
  stdmulR_exact n P Q hn hP

example : ∃ (n : Nat) (P : List ℚ), 0 < n ∧ P ≠ [] := ⟨1, [1], by decide, by simp⟩

/-- the public `stdmul(R,P,Q)` is the exact product for all operands (empty, un-normalised, any degree) -/
theorem stdmul_public_exact (P Q : List K) : toPoly (stdmul P Q) = toPoly P * toPoly Q := toPoly_stdmul P Q

/-- PARTIAL.  Full statement (Tier A `karamul_full_eq_stdmul` + dispatch):
      `∀ thr P Q, toPoly (mul thr P Q) = toPoly P * toPoly Q`.
    Proved here only for the operands on which the generic `mul` selects the schoolbook algorithm (one operand with at
    most `KARA_THRESHOLD` coefficients); the Karatsuba branch (`karaStep`) is modelled and tied to the code but its
    exactness is decided per generated case by the reference product, not by this theorem. -/
theorem mul_exact_partial (thr : Nat) (P Q : List K) (h : P.length ≤ thr ∨ Q.length ≤ thr) :
    toPoly (mul thr P Q) = toPoly P * toPoly Q := by
  have e : mul thr P Q = stdmul P Q := by
    unfold mul stdmul
    rw [mulR_of_le thr _ _ P Q h]
  rw [e, toPoly_stdmul]

example : ∃ (thr : Nat) (P Q : List ℚ), P.length ≤ thr ∨ Q.length ≤ thr := ⟨50, [1, 2], [3], Or.inl (by decide)⟩

/-! ### certificates: what the driver checks on the implementation's output determines what the property asks -/

/-- division: any `(Q, R)` with `A = B Q + R`, `deg R < deg B` is *the* quotient and remainder -/
theorem divmod_unique (A B Q R : K[X]) (hB : B ≠ 0) (h : A = B * Q + R) (hd : R.degree < B.degree) :
    Q = A / B ∧ R = A % B := by
  have h1 : A = B * (A / B) + A % B := by
    have := EuclideanDomain.div_add_mod A B
    exact this.symm
  have hd1 : (A % B).degree < B.degree := Polynomial.degree_mod_lt A hB
  have key : B * (Q - A / B) = A % B - R := by
    have : B * Q + R = B * (A / B) + A % B := by rw [← h, ← h1]
    linear_combination this
  have hq : Q - A / B = 0 := by
    by_contra hne
    have hdeg : B.degree ≤ (B * (Q - A / B)).degree := by
      rw [Polynomial.degree_mul]
      have : (0 : WithBot ℕ) ≤ (Q - A / B).degree := Polynomial.zero_le_degree_iff.mpr hne
      calc B.degree = B.degree + 0 := by simp
        _ ≤ B.degree + (Q - A / B).degree := by gcongr
    have hlt : (A % B - R).degree < B.degree :=
      lt_of_le_of_lt (Polynomial.degree_sub_le _ _) (max_lt hd1 hd)
    rw [key] at hdeg
    exact absurd hlt (not_lt.mpr hdeg)
  have hQ : Q = A / B := sub_eq_zero.mp hq
  refine ⟨hQ, ?_⟩
  have : A % B - R = 0 := by rw [← key, hq, mul_zero]
  exact (sub_eq_zero.mp this).symm

/-- extended gcd: divisibility and the Bezout identity make `D` a greatest common divisor -/
theorem gcd_certificate (P Q D U V : K[X]) (hP : D ∣ P) (hQ : D ∣ Q) (hB : D = P * U + Q * V) :
    ∀ E, E ∣ P → E ∣ Q → E ∣ D := by
  intro E hEP hEQ
  rw [hB]
  exact dvd_add (dvd_mul_of_dvd_left hEP U) (dvd_mul_of_dvd_left hEQ V)

/-- modular inverse: `Q ∣ U P - 1` is `U P ≡ 1 (mod Q)`, and then `P` is invertible modulo `Q` with inverse `U` only -/
theorem invmod_certificate (P Q U U' : K[X]) (h : Q ∣ U * P - 1) (h' : Q ∣ U' * P - 1) : Q ∣ U - U' := by
  have e : U - U' = U' * (U * P - 1) - U * (U' * P - 1) := by ring
  rw [e]
  exact dvd_sub (dvd_mul_of_dvd_right h U') (dvd_mul_of_dvd_right h' U)

/-- lcm: a common multiple `L` with `L G = P Q` for a gcd `G = P U + Q V` divides every common multiple -/
theorem lcm_certificate (P Q G U V L : K[X]) (hG : G = P * U + Q * V) (hL : L * G = P * Q) (hG0 : G ≠ 0) :
    ∀ M, P ∣ M → Q ∣ M → L ∣ M := by
  intro M ⟨a, ha⟩ ⟨b, hb⟩
  -- M G = M P U + M Q V = Q b P U + P a Q V = P Q (b U + a V) = L G (b U + a V)
  have : M * G = L * (b * U + a * V) * G := by
    calc M * G = M * (P * U) + M * (Q * V) := by rw [hG]; ring
      _ = (Q * b) * (P * U) + (P * a) * (Q * V) := by rw [← hb, ← ha]
      _ = (P * Q) * (b * U + a * V) := by ring
      _ = L * (b * U + a * V) * G := by rw [← hL]; ring
  exact ⟨b * U + a * V, mul_right_cancel₀ hG0 this⟩

/-! ### the reference arithmetic used by the driver is the arithmetic of `K[X]` -/

theorem norm_eq_setdegree (P : List K) : norm P = setdegree P := by
  induction P with
  | nil => rfl
  | cons a P ih => unfold norm setdegree; rw [ih]; rfl

theorem sadd_eq_add (P Q : List K) : sadd P Q = add P Q := by
  induction P generalizing Q with
  | nil => cases Q <;> rfl
  | cons a P ih => cases Q with
    | nil => rfl
    | cons b Q => simp only [sadd, add, ih]

theorem sadd_exact (P Q : List K) : toPoly (sadd P Q) = toPoly P + toPoly Q := by
  rw [sadd_eq_add, toPoly_add]

theorem sscale_exact (c : K) (P : List K) : toPoly (sscale c P) = C c * toPoly P := by
  induction P with
  | nil => simp [sscale]
  | cons a P ih =>
    simp only [sscale, List.map_cons, toPoly_cons, C_mul] at ih ⊢
    rw [ih]; ring

theorem ssub_exact (P Q : List K) : toPoly (ssub P Q) = toPoly P - toPoly Q := by
  unfold ssub
  rw [sadd_exact]
  have : toPoly (sneg Q) = - toPoly Q := toPoly_neg Q
  rw [this]; ring

/-- the reference product is the product of `K[X]` -/
theorem smul_exact (P Q : List K) : toPoly (smul P Q) = toPoly P * toPoly Q := by
  induction P with
  | nil => simp [smul]
  | cons a P ih =>
    simp only [smul, sadd_exact, sscale_exact, toPoly_cons, ih, C_0]
    ring

theorem seval_exact (P : List K) (v : K) : seval P v = (toPoly P).eval v := by
  induction P with
  | nil => simp [seval]
  | cons a P ih =>
    simp only [seval, List.foldr_cons] at ih ⊢
    rw [ih]; simp

/-- `eqv` decides equality of the denoted polynomials -/
theorem eqv_correct (P Q : List K) : eqv P Q = true ↔ toPoly P = toPoly Q := by
  unfold eqv
  rw [decide_eq_true_eq, norm_eq_setdegree, norm_eq_setdegree]
  exact setdegree_eq_iff P Q

/-- soundness of the division check: accepted outputs satisfy `A = B Q + R` in `K[X]` -/
theorem chkDivmod_sound (A B Q R : List K) (h : chkDivmod A B Q R = true) :
    toPoly A = toPoly B * toPoly Q + toPoly R := by
  unfold chkDivmod at h
  rw [Bool.and_eq_true] at h
  have := (eqv_correct _ _).mp h.1
  rw [sadd_exact, smul_exact] at this
  exact this.symm

/-- soundness of the Bezout part of the gcd check -/
theorem chkBezout_sound (P Q D U V : List K) (h : eqv (sadd (smul P U) (smul Q V)) D = true) :
    toPoly D = toPoly P * toPoly U + toPoly Q * toPoly V := by
  have := (eqv_correct _ _).mp h
  rw [sadd_exact, smul_exact, smul_exact] at this
  exact this.symm

-- non-vacuity of the hypotheses
example : ∃ (A B Q R : ℚ[X]), B ≠ 0 ∧ A = B * Q + R ∧ R.degree < B.degree :=
  ⟨X, X, 1, 0, X_ne_zero, by ring, by simp⟩
example : ∃ (P Q D U V : ℚ[X]), D ∣ P ∧ D ∣ Q ∧ D = P * U + Q * V :=
  ⟨1, 1, 1, 1, 0, dvd_refl _, dvd_refl _, by ring⟩
example : ∃ (P Q U : ℚ[X]), Q ∣ U * P - 1 := ⟨1, X, 1, by simp⟩
example : ∃ (P Q G U V L : ℚ[X]), G = P * U + Q * V ∧ L * G = P * Q ∧ G ≠ 0 :=
  ⟨1, 1, 1, 1, 0, 1, by ring, by ring, one_ne_zero⟩

end Givaro.Props.C08
