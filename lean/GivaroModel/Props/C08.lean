/-
C08 — univariate polynomial arithmetic satisfies its defining identities everywhere.

All theorems are over an arbitrary field `K` with decidable equality and quantify over *all* coefficient lists
(every degree, every shape, normalised or not).  `toPoly l = Σ lᵢ Xⁱ` is the polynomial a stored vector denotes.
Theorems about `Givaro.Model.Poly.*` speak about the model of the code (as repaired by fixes/C08_1); the certificate
theorems justify the checks the driver applies to the implementation's output for division, gcd and inverse.

The schoolbook and Karatsuba range products are proved exact on every range shape (`stdmul_exact`, `mulR_exact`,
`mul_exact`, `karamul_full_eq_stdmul`).
-/
import GivaroModel.Lemmas.PolyLemmas
import GivaroModel.Lemmas.PolyKara
import GivaroModel.Lemmas.PolyMisc
import GivaroModel.Lemmas.PolyDiv
import GivaroModel.Lemmas.PolyEuclid
import GivaroModel.Lemmas.PolyMid
import GivaroModel.Lemmas.PolyMidKara
import GivaroModel.Lemmas.PadicLemmas
import GivaroModel.Lemmas.PolyInterp
import GivaroModel.Lemmas.PolyMore
import GivaroModel.Lemmas.PolyCRT

open Polynomial
set_option linter.unusedSectionVars false

namespace Givaro.Props.C08
open Givaro.Model.Poly Givaro.Lemmas.Poly Givaro.Spec.Poly

variable {K : Type} [Field K] [DecidableEq K]

/-! ### normalisation -/

/-- `setdegree` returns a list without leading zero that denotes the same polynomial -/
theorem setdegree_normal (P : List K) : Normal (setdegree P) ∧ toPoly (setdegree P) = toPoly P :=
  ⟨Givaro.Lemmas.Poly.setdegree_normal P, toPoly_setdegree P⟩

/-- the zero polynomial is recognised whatever its storage: `isZero` answers for the denoted polynomial -/
theorem isZero_correct (P : List K) : isZero P = true ↔ toPoly P = 0 := by
  have hn := Givaro.Lemmas.Poly.setdegree_normal P
  have ht := toPoly_setdegree P
  unfold isZero
  split
  · next e => rw [e] at ht; simp [← ht]
  · next a e =>
    rw [e] at ht hn
    have ha : a ≠ 0 := by simpa [Normal, eq_comm] using hn
    simp only [decide_eq_true_eq, ha, false_iff]
    rw [← ht]; simp [ha]
  · next h1 h2 =>
    simp only [Bool.false_eq_true, false_iff]
    intro h0
    rw [← ht] at h0
    exact h1 (toPoly_eq_zero_of_normal _ hn h0)

/-- observers see the normal form: `areEqual` decides equality of the denoted polynomials, for every storage -/
theorem observers_see_normal_form (P Q : List K) : areEqual P Q = true ↔ toPoly P = toPoly Q := by
  unfold areEqual
  rw [decide_eq_true_eq]
  exact setdegree_eq_iff P Q

/-- `degree` depends only on the denoted polynomial -/
theorem degree_well_defined (P Q : List K) (h : toPoly P = toPoly Q) : Model.Poly.degree P = Model.Poly.degree Q := by
  unfold Model.Poly.degree
  rw [(setdegree_eq_iff P Q).mpr h]

/-! ### addition, subtraction, scalar forms: coefficient-exact for all inputs -/

theorem add_sub_exact (P Q : List K) :
    toPoly (add P Q) = toPoly P + toPoly Q ∧ toPoly (sub P Q) = toPoly P - toPoly Q ∧
    toPoly (neg P) = - toPoly P ∧
    toPoly (addin P Q) = toPoly P + toPoly Q ∧ toPoly (subin P Q) = toPoly P - toPoly Q :=
  ⟨toPoly_add P Q, toPoly_sub P Q, toPoly_neg P, toPoly_addin P Q, toPoly_subin P Q⟩

theorem scalar_ops_exact (P : List K) (v : K) :
    toPoly (addVal P v) = toPoly P + C v ∧ toPoly (valAdd v P) = C v + toPoly P ∧
    toPoly (subVal P v) = toPoly P - C v ∧ toPoly (valSub v P) = C v - toPoly P ∧
    toPoly (addinVal P v) = toPoly P + C v ∧ toPoly (subinVal P v) = toPoly P - C v ∧
    toPoly (mulVal P v) = toPoly P * C v ∧ toPoly (divVal P v) = toPoly P * C v⁻¹ :=
  ⟨toPoly_addVal P v, toPoly_valAdd v P, toPoly_subVal P v, toPoly_valSub v P,
   toPoly_addinVal P v, toPoly_subinVal P v, toPoly_mulVal P v, toPoly_divVal P v⟩

/-- known defect of the unchanged tree (repaired by fixes/C08_1): `sub(R, Val, P)` is not `Val - P` -/
theorem valSub_unrepaired_counterexample :
    ¬ ∀ (v : ℚ) (P : List ℚ), toPoly (valSub_unrepaired v P) = C v - toPoly P := by
  intro h
  have := h 1 []
  simp [valSub_unrepaired] at this
  have h2 := congrArg (fun p => p.coeff 0) this
  simp at h2
  norm_num at h2

/-! ### evaluation and derivative agree with their definitions -/

theorem eval_exact (P : List K) (v : K) : Model.Poly.eval P v = (toPoly P).eval v := eval_eq P v

theorem diff_exact (P : List K) : toPoly (diff P) = derivative (toPoly P) := toPoly_diff P

/-! ### results of the operations that end in `setdegree` are normalised -/

theorem results_normal (thr : Nat) (P Q : List K) (u : K) :
    Normal (mul thr P Q) ∧ Normal (stdmul P Q) ∧ Normal (karamul thr P Q) ∧ Normal (divVal P u) ∧
    Normal (reverse P) ∧ Normal (modpowx P thr) ∧ Normal (powerCompose P thr) := by
  have n0 : Normal ([] : List K) := by simp [Normal]
  refine ⟨?_, ?_, ?_, Givaro.Lemmas.Poly.setdegree_normal _, Givaro.Lemmas.Poly.setdegree_normal _,
          Givaro.Lemmas.Poly.setdegree_normal _, ?_⟩
  rotate_left 3
  · unfold powerCompose; split
    · exact n0
    · split
      · unfold assignC; split
        · exact n0
        · next hc => simp only [Normal, List.getLast?_singleton, ne_eq, Option.some.injEq]; exact hc
      · exact Givaro.Lemmas.Poly.setdegree_normal _
  · unfold mul; split
    · exact n0
    · exact Givaro.Lemmas.Poly.setdegree_normal _
  · unfold stdmul; split
    · exact n0
    · exact Givaro.Lemmas.Poly.setdegree_normal _
  · unfold karamul; split
    · exact n0
    · exact Givaro.Lemmas.Poly.setdegree_normal _

/-! ### products -/

/-- Tier A `stdmul_exact` (range form `stdmul(R,Rbeg,Rend,P,Pbeg,Pend,Q,Qbeg,Qend)`, every range length `n`, including
    truncation): the R range keeps its length and receives the coefficients `0 … n-1` of `P·Q`, i.e. `P·Q mod X^n` -/
theorem stdmul_exact (n : Nat) (P Q : List K) (hn : 0 < n) (hP : P ≠ []) :
    (stdmulR n P Q).length = n ∧ ∀ k, k < n → (stdmulR n P Q).getD k 0 = (toPoly P * toPoly Q).coeff k :=
  stdmulR_exact n P Q hn hP

example : ∃ (n : Nat) (P : List ℚ), 0 < n ∧ P ≠ [] := ⟨1, [1], by decide, by simp⟩

/-- the public `stdmul(R,P,Q)` is the exact product for all operands (empty, un-normalised, any degree) -/
theorem stdmul_public_exact (P Q : List K) : toPoly (stdmul P Q) = toPoly P * toPoly Q := toPoly_stdmul P Q

/-- Tier B `karamul_trunc_exact` — the generic range product `mul(R,Rbeg,Rend,P,Pbeg,Pend,Q,Qbeg,Qend)` (threshold dispatch,
    Karatsuba recursion with `halfP, halfQ, half, halfR, highs, rrems, midts`, every recursion budget) on **every range
    shape**: an R range of any length `n` (truncated or over-long), any P and Q ranges.  It writes at most `n` coefficients
    and they are the coefficients `0 … n-1` of `P·Q`.  Hypothesis: `KARA_THRESHOLD ≥ 1` (with threshold 0 the C++ recursion
    does not terminate) — or, for threshold 0, a full-length range. -/
theorem mulR_exact (thr fuel n : Nat) (P Q : List K) (h : 1 ≤ thr ∨ P.length + Q.length ≤ n + 1) :
    (mulR thr fuel n P Q).length ≤ n ∧
    ∀ k, k < n → (mulR thr fuel n P Q).getD k 0 = (toPoly P * toPoly Q).coeff k :=
  mulR_spec thr fuel n P Q h

example : ∃ (thr n : Nat) (P Q : List ℚ), 1 ≤ thr ∨ P.length + Q.length ≤ n + 1 := ⟨50, 3, [1], [2], Or.inl (by decide)⟩

/-- one Karatsuba level on every range shape, given an exact multiplier for the three recursive calls -/
theorem karaStep_exact (thr : Nat) (mul : Nat → List K → List K → List K)
    (hmul : ∀ m A B, Adm thr m A B → MulSpec mul m A B) (n : Nat) (P Q : List K) (hadm : Adm thr n P Q)
    (hcase : 1 ≤ min (P.length / 2) (Q.length / 2) ∨ P.length + Q.length ≤ n + 1) :
    (karaStep mul n P Q).length = n ∧
    ∀ k, k < n → (karaStep mul n P Q).getD k 0 = (toPoly P * toPoly Q).coeff k :=
  Givaro.Lemmas.Poly.karaStep_exact thr mul hmul n P Q hadm hcase

example : ∃ (n : Nat) (P Q : List ℚ), Adm 50 n P Q ∧ (1 ≤ min (P.length / 2) (Q.length / 2) ∨ P.length + Q.length ≤ n + 1) :=
  ⟨3, [1, 2], [3, 4], Or.inl (by decide), Or.inl (by decide)⟩

/-- Tier A: the generic `mul(R,P,Q)` is the exact product — every threshold, every fuel the model uses, every operand
    (empty, un-normalised, any degree, balanced or not) -/
theorem mul_exact (thr : Nat) (P Q : List K) : toPoly (mul thr P Q) = toPoly P * toPoly Q := toPoly_mul thr P Q

/-- Tier A `karamul_full_eq_stdmul`: forcing the first Karatsuba level gives the same polynomial as the schoolbook
    product, for every threshold and all operands (including operands of one coefficient, where `half = 0`) -/
theorem karamul_full_eq_stdmul (thr : Nat) (P Q : List K) : toPoly (karamul thr P Q) = toPoly (stdmul P Q) := by
  rw [toPoly_karamul, toPoly_stdmul]

theorem karamul_exact (thr : Nat) (P Q : List K) : toPoly (karamul thr P Q) = toPoly P * toPoly Q :=
  toPoly_karamul thr P Q

/-- Tier B `sqr_exact`: the dedicated squaring `sqr(R,P)` — `stdsqr` (odd/even coefficient loops with the doubling
    trick), `sqrrec` (`Pl²`, `Ph²`, `+= 2·Pl·Ph` at offset `half`) and the `SQR_THRESHOLD` dispatch with every recursion
    budget — is the exact square, for every operand.  Hypothesis: the threshold is at least 1 (with 0 the C++ forms an
    iterator before `Rbeg`). -/
theorem sqr_exact (thr : Nat) (hthr : 1 ≤ thr) (P : List K) : toPoly (sqr thr P) = toPoly P * toPoly P :=
  toPoly_sqr thr hthr P

example : ∃ thr : Nat, 1 ≤ thr := ⟨50, by decide⟩

/-- the schoolbook square alone (any operand) -/
theorem stdsqr_exact (P : List K) : toPoly (stdsqr (1 + 1) P) = toPoly P * toPoly P := toPoly_stdsqr P

/-- the truncated product `mul(R,P,Q,Val,deg)` holds exactly the coefficients `Val … deg` of `P·Q` (and nothing else):
    every operand, every window (also empty and beyond the degree of the product) -/
theorem multr_exact (P Q : List K) (val deg i : Nat) :
    (toPoly (mulWindow P Q val deg)).coeff i
      = if i + val ≤ deg then (toPoly P * toPoly Q).coeff (i + val) else 0 :=
  coeff_mulWindow P Q val deg i

/-- `stdmidmul` on ranges (first row with the zero shortcuts, one `axpyin` row per further coefficient of `Q` walked downwards,
    rows of zero coefficients skipped): for every R range length, every `P` range and every non-empty `Q` range the entry `i`
    is the coefficient `i + |Q| - 1` of `P·Q` — the middle product -/
theorem stdmidmul_exact (r : Nat) (P Q : List K) (hr : 0 < r) (hQ : Q ≠ []) :
    (stdmidmulR r P Q).length = r ∧
    ∀ i, i < r → (stdmidmulR r P Q).getD i 0 = (toPoly P * toPoly Q).coeff (i + Q.length - 1) :=
  stdmidmulR_exact r P Q hr hQ

example : ∃ (r : Nat) (Q : List ℚ), 0 < r ∧ Q ≠ [] := ⟨1, [1], by decide, by simp⟩

/-- the public `stdmidmul(R,P,Q)` holds exactly the coefficients `|Q|-1 … |P|-1` of `P·Q` -/
theorem stdmidmul_public_exact (P Q : List K) (hQ : Q ≠ []) (i : Nat) :
    (toPoly (stdmidmul P Q)).coeff i
      = if i < P.length - Q.length + 1 then (toPoly P * toPoly Q).coeff (i + Q.length - 1) else 0 :=
  coeff_of_stdmid P Q hQ i

/-- the operands on which the generic `midmul` selects the schoolbook middle product (`min(m,n) <= KARA_THRESHOLD`,
    `m = |P|-|Q|+1`, `n = |Q|`, or `|P| < |Q|`) -/
theorem midmul_small_exact (thr : Nat) (P Q : List K) (hQ : Q ≠ [])
    (h : P.length + 1 ≤ Q.length ∨ min (P.length + 1 - Q.length) Q.length ≤ thr) (i : Nat) :
    (toPoly (midmul thr P Q)).coeff i
      = if i < P.length - Q.length + 1 then (toPoly P * toPoly Q).coeff (i + Q.length - 1) else 0 := by
  unfold midmul
  split
  · next he =>
    have hp : P = [] := by
      rcases he with he | he
      · simpa using he
      · exact absurd (by simpa using he) hQ
    subst hp
    simp
  · rw [midR_of_small thr _ _ P Q h]
    exact coeff_of_stdmid P Q hQ i

example : ∃ (thr : Nat) (P Q : List ℚ), Q ≠ [] ∧
    (P.length + 1 ≤ Q.length ∨ min (P.length + 1 - Q.length) Q.length ≤ thr) :=
  ⟨50, [1, 2, 3], [1, 2], by simp, Or.inr (by decide)⟩

/-- Tier B, one level of `karamidmul(R,Rbeg,Rend,P,Pbeg,Pend,Q,Qbeg,Qend)` on a balanced shape (`|P| = 2|Q|-1`, R range of
    `|Q|` places; `n0, n1, P0end, P1beg, P1plus, P1minus, P2beg, Qmid, Rmid`, `S0 = MP(P0+P1+, Q1)`, `S1 = MP(P1-+P2, Q0)`,
    `S2 = MP(P1+, Q1 - X^(n%2) Q0)`, `R0 = S0 - S2`, `R1 = S1 + S2` as in the source), given recursive calls that are exact
    on well-formed shapes: the R range keeps its length and entry `i` is the coefficient `i + |Q| - 1` of `P·Q` -/
theorem karamidStep_exact (mid : Nat → List K → List K → List K) (hmid : MidOK mid) (P Q : List K) (hQ : Q ≠ [])
    (hP : P.length + 1 = 2 * Q.length) :
    (karamidStep mid Q.length P Q).length = Q.length ∧
    ∀ i, i < Q.length → (karamidStep mid Q.length P Q).getD i 0 = (toPoly P * toPoly Q).coeff (i + Q.length - 1) := by
  obtain ⟨h1, h2⟩ := Givaro.Lemmas.Poly.karamidStep_exact mid hmid P Q hQ hP
  exact ⟨h1, fun i hi => by rw [h2 i hi, cs_eq_coeff]⟩

example : ∃ (mid : Nat → List ℚ → List ℚ → List ℚ) (P Q : List ℚ), MidOK mid ∧ Q ≠ [] ∧ P.length + 1 = 2 * Q.length :=
  ⟨midR 50 0, [1, 2, 3], [1, 2], midR_spec 50 0, by simp, by simp⟩

/-- Tier B `midmul_exact`, range form: the generic `midmul(R,Rbeg,Rend,P,Pbeg,Pend,Q,Qbeg,Qend)` as written — dispatch
    `min(m,n) <= KARA_THRESHOLD` to `stdmidmul`, `m = n` to `karamidmul` (recursion through the generic form), `m > n`: the loop
    of balanced products on `R[i,i+n)`, `P[i,i+2n-1)` for `i = 0, n, … <= m-n` and the generic form on the rest, `m < n`: the
    first balanced product written into `R`, the further ones (windows of `P` from the top, blocks of `m` coefficients of `Q`
    from the bottom) and the generic form on what is left of `Q` accumulated through `Tmp` — on every well-formed range shape
    (`|R| = |P| - |Q| + 1`, `1 <= |Q| <= |P|`, balanced or not), **every threshold** (0 included) and every recursion budget:
    entry `i` of the R range is the coefficient `i + |Q| - 1` of `P·Q` -/
theorem midR_exact (thr fuel : Nat) (P Q : List K) (hQ : Q ≠ []) (hPQ : Q.length ≤ P.length) (i : Nat)
    (hi : i < P.length + 1 - Q.length) :
    (midR thr fuel (P.length + 1 - Q.length) P Q).getD i 0 = (toPoly P * toPoly Q).coeff (i + Q.length - 1) := by
  rw [midR_spec thr fuel P Q hQ hPQ i hi, cs_eq_coeff]

example : ∃ (P Q : List ℚ) (i : Nat), Q ≠ [] ∧ Q.length ≤ P.length ∧ i < P.length + 1 - Q.length :=
  ⟨[1, 2, 3], [1, 2], 0, by simp, by simp, by simp⟩

/-- Tier B `midmul_exact` (full; replaces the former `midmul_exact_partial`): the public `midmul(R,P,Q)` holds exactly the
    coefficients `|Q|-1 … |P|-1` of `P·Q`, for every threshold, every `P` and every non-empty `Q` (any sizes: balanced,
    `m > n`, `m < n`, below and above the threshold, any storage) -/
theorem midmul_exact (thr : Nat) (P Q : List K) (hQ : Q ≠ []) (i : Nat) :
    (toPoly (midmul thr P Q)).coeff i
      = if i < P.length - Q.length + 1 then (toPoly P * toPoly Q).coeff (i + Q.length - 1) else 0 := by
  by_cases h : P.length + 1 ≤ Q.length
  · exact midmul_small_exact thr P Q hQ (Or.inl h) i
  · have hn : 0 < Q.length := List.length_pos_iff.mpr hQ
    have hP : P ≠ [] := by intro e; subst e; exact h (by show 0 + 1 ≤ Q.length; omega)
    unfold midmul
    rw [if_neg (by simp [hP, hQ])]
    have e : P.length - Q.length + 1 = P.length + 1 - Q.length := by omega
    rw [e, toPoly_setdegree, coeff_toPoly, getD_pad]
    split
    · next hi => rw [midR_spec thr _ P Q hQ (by omega) i hi, cs_eq_coeff]
    · rfl

example : ∃ Q : List ℚ, Q ≠ [] := ⟨[1], by simp⟩

/-- the public `karamidmul(R,P,Q)` (first Karatsuba level forced, documented precondition `|P| = 2|Q|-1`): exactly the
    coefficients `|Q|-1 … 2|Q|-2` of `P·Q`, for every threshold -/
theorem karamidmul_exact (thr : Nat) (P Q : List K) (hQ : Q ≠ []) (hP : P.length + 1 = 2 * Q.length) (i : Nat) :
    (toPoly (karamidmul thr P Q)).coeff i
      = if i < Q.length then (toPoly P * toPoly Q).coeff (i + Q.length - 1) else 0 := by
  have hn : 0 < Q.length := List.length_pos_iff.mpr hQ
  unfold karamidmul
  have e : P.length - Q.length + 1 = Q.length := by omega
  rw [e, toPoly_setdegree, coeff_toPoly, getD_pad]
  split
  · next hi => rw [(Givaro.Lemmas.Poly.karamidStep_exact _ (midR_spec thr _) P Q hQ hP).2 i hi, cs_eq_coeff]
  · rfl

example : ∃ (P Q : List ℚ), Q ≠ [] ∧ P.length + 1 = 2 * Q.length := ⟨[1, 2, 3], [1, 2], by simp, by simp⟩

/-- the fused forms are exact (they are compositions of `mul`, `addin`, `subin`, `sub`, `neg`) -/
theorem fused_exact (thr : Nat) (R A X' Y : List K) (c : K) :
    toPoly (axpy thr A X' Y) = toPoly A * toPoly X' + toPoly Y ∧
    toPoly (axmy thr A X' Y) = toPoly A * toPoly X' - toPoly Y ∧
    toPoly (maxpy thr A X' Y) = toPoly Y - toPoly A * toPoly X' ∧
    toPoly (axpyin thr R A X') = toPoly R + toPoly A * toPoly X' ∧
    toPoly (maxpyin thr R A X') = toPoly R - toPoly A * toPoly X' ∧
    toPoly (axmyin thr R A X') = toPoly A * toPoly X' - toPoly R ∧
    toPoly (axmyVal c X' Y) = C c * toPoly X' - toPoly Y ∧
    toPoly (maxpyinVal R c X') = toPoly R - C c * toPoly X' ∧
    toPoly (axmyinVal R c X') = C c * toPoly X' - toPoly R ∧
    toPoly (mulin thr A X') = toPoly A * toPoly X' := by
  refine ⟨?_, ?_, ?_, ?_, ?_, ?_, ?_, ?_, ?_, ?_⟩
  · unfold axpy; rw [toPoly_addin, toPoly_mul]
  · unfold axmy; rw [toPoly_subin, toPoly_mul]
  · unfold maxpy; rw [toPoly_sub, toPoly_mul]
  · unfold axpyin axpy assign; rw [toPoly_addin, toPoly_mul, toPoly_setdegree]; ring
  · unfold maxpyin; rw [toPoly_subin, toPoly_mul]
  · unfold axmyin negin maxpyin; rw [toPoly_neg, toPoly_subin, toPoly_mul]; ring
  · unfold axmyVal; rw [toPoly_subin, toPoly_mulVal]; ring
  · unfold maxpyinVal; rw [toPoly_subin, toPoly_mulVal]; ring
  · unfold axmyinVal negin maxpyinVal; rw [toPoly_neg, toPoly_subin, toPoly_mulVal]; ring
  · unfold mulin assign; rw [toPoly_setdegree, toPoly_mul]

/-- `divmod(Q,R,A,B) = div(Q,A,B); maxpy(R,Q,B,A)`: whatever quotient `div` produced, the remainder the implementation
    returns satisfies `A = B·Q + R` exactly (the degree bound is the part that depends on `div`) -/
theorem divmod_identity (thr : Nat) (A B Qd : List K) :
    toPoly A = toPoly B * toPoly Qd + toPoly (maxpy thr Qd B A) := by
  unfold maxpy; rw [toPoly_sub, toPoly_mul]; ring

/-! ### division by the implementation's own algorithm -/

/-- Tier B `newton_inv_exact`: `invmodpowx(G,A,l)` (`G = 1/A[0]`, doubling loop `i = 2,4,… < l`, last step at `l`; each step
    `S = G²`, `G += G`, `Am = A[0,i)·S mod X^i`, `G -= Am`) returns `G` with `G·A ≡ 1 (mod X^l)`, for every `l`, every `A`
    whose constant coefficient is invertible, every threshold ≥ 1 -/
theorem newton_inv_exact (thr : Nat) (hthr : 1 ≤ thr) (A : List K) (l : Nat) (h0 : A.getD 0 0 ≠ 0) :
    X ^ l ∣ toPoly (invmodpowx thr A l) * toPoly A - 1 :=
  invmodpowx_spec thr hthr A l h0

example : ∃ (thr : Nat) (A : List ℚ), 1 ≤ thr ∧ A.getD 0 0 ≠ 0 := ⟨50, [1], by decide, by simp⟩

/-- Tier B `div_exact`: `div(Q,A,B)` as written (zero for `deg A < deg B`, coefficientwise for a constant `B`, otherwise
    reverse · Newton inverse mod `X^(deg A - deg B + 1)` · truncated generic product · `reversein`) returns the Euclidean
    quotient: every field, every `A`, every non-zero `B` (any storage), every threshold ≥ 1 -/
theorem div_exact (thr : Nat) (hthr : 1 ≤ thr) (A B : List K) (hb : toPoly B ≠ 0) :
    toPoly (Model.Poly.div thr A B) = toPoly A / toPoly B :=
  toPoly_div thr hthr A B hb

/-- Tier B `divmod_exact`: `divmod(Q,R,A,B)` returns the quotient and the remainder: `A = B·Q + R` and `deg R < deg B` -/
theorem divmod_exact (thr : Nat) (hthr : 1 ≤ thr) (A B : List K) (hb : toPoly B ≠ 0) :
    toPoly (Model.Poly.divmod thr A B).1 = toPoly A / toPoly B ∧
    toPoly (Model.Poly.divmod thr A B).2 = toPoly A % toPoly B ∧
    toPoly A = toPoly B * toPoly (Model.Poly.divmod thr A B).1 + toPoly (Model.Poly.divmod thr A B).2 ∧
    (toPoly (Model.Poly.divmod thr A B).2).degree < (toPoly B).degree := by
  obtain ⟨h1, h2⟩ := toPoly_divmod thr hthr A B hb
  refine ⟨h1, h2, ?_, ?_⟩
  · rw [h1, h2]; exact (EuclideanDomain.div_add_mod _ _).symm
  · rw [h2]; exact degree_mod_lt _ hb

/-- `mod(R,A,B)` is the Euclidean remainder -/
theorem mod_exact (thr : Nat) (hthr : 1 ≤ thr) (A B : List K) (hb : toPoly B ≠ 0) :
    toPoly (Model.Poly.mod thr A B) = toPoly A % toPoly B :=
  (toPoly_divmod thr hthr A B hb).2

example : ∃ (thr : Nat) (B : List ℚ), 1 ≤ thr ∧ toPoly B ≠ 0 := ⟨50, [1], by decide, by simp⟩

/-- Tier B `modin_exact`: `modin(A,B)`, the in-place long division on reverse iterators (leading slot recomputed while it
    is zero with `--i`, remaining coefficients written behind it, rest of `A` copied down, final `erase`), leaves
    `A mod B` in `A`: every `A`, every non-zero `B`, any storage of both -/
theorem modin_exact (A B : List K) (hb : toPoly B ≠ 0) : toPoly (modin A B) = toPoly A % toPoly B :=
  toPoly_modin A B hb

/-- Tier B `powmod_exact`: `powmod(W,P,n,U)` (accumulator `1 mod U`, `mulin` + `modin` on odd bits, `sqr` + `mod` every
    round, `n >>= 1` on the Integer) is `P^n mod U` for every exponent `n ≥ 0` of any size, every `P`, every non-zero `U` -/
theorem powmod_exact (thr : Nat) (hthr : 1 ≤ thr) (P : List K) (n : Nat) (U : List K) (hu : toPoly U ≠ 0) :
    toPoly (Model.Poly.powmod thr P n U) = (toPoly P ^ n) % toPoly U :=
  toPoly_powmod thr hthr P n U hu

/-- Tier B `pdivmod_exact`: pseudo-division `pdivmod(Q,R,m,A,B)` as written (quotient coefficients rescaled by `lc(B)` every
    round, remainder array updated in place, `m *= lc(B)`): for every `A` and every non-zero `B`, `m·A = Q·B + R`,
    `deg R < deg B` and `m ≠ 0` (`m = lc(B)^(deg A - deg B + 1)` in the main branch: `pdivmodLoop_spec`) -/
theorem pdivmod_exact (A B : List K) (hb : toPoly B ≠ 0) :
    C (pdivmod A B).2.2 * toPoly A = toPoly (pdivmod A B).1 * toPoly B + toPoly (pdivmod A B).2.1 ∧
    (toPoly (pdivmod A B).2.1).degree < (toPoly B).degree ∧ (pdivmod A B).2.2 ≠ 0 :=
  pdivmod_spec A B hb

/-- Tier B `pmod_exact`: `pmod(R,m,A,B)` as written (`m = lc(B)^(deg A - deg B + 1)` by `dom_power`, one scaled subtraction
    per round with `R` re-normalised, the rounds skipped by a larger degree drop made up at the end): `m·A ≡ R (mod B)`,
    `deg R < deg B`, `m ≠ 0`, for every `A` and every non-zero `B` -/
theorem pmod_exact (A B : List K) (hb : toPoly B ≠ 0) :
    toPoly B ∣ C (pmod A B).2 * toPoly A - toPoly (pmod A B).1 ∧
    (toPoly (pmod A B).1).degree < (toPoly B).degree ∧ (pmod A B).2 ≠ 0 :=
  pmod_spec A B hb

/-! ### the Euclid loop of the extended gcd -/

/-- Tier B (Euclid loop invariants): `gcd(F,S0,T0,A,B)` as written — early exits, monic normalisation of both operands,
    `divmod = div; maxpy`, division of every new remainder and cofactor by the remainder's leading coefficient — run
    with **any** function in place of `div`.  Whenever the loop finishes (`some`), the result divides both operands and
    the cofactors satisfy the Bezout identity, so `F` is a greatest common divisor of `A` and `B`.
    Not covered: that the loop does finish, which needs `deg (F - div(F,G)·G) < deg G` (Newton division, not modelled). -/
theorem gcdext_loop_sound (thr : Nat) (divf : List K → List K → List K) (fuel : Nat) (A B F' S' T' : List K)
    (h : gcdext thr divf fuel A B = some (F', S', T')) :
    toPoly S' * toPoly A + toPoly T' * toPoly B = toPoly F' ∧ toPoly F' ∣ toPoly A ∧ toPoly F' ∣ toPoly B ∧
    ∀ E : K[X], E ∣ toPoly A → E ∣ toPoly B → E ∣ toPoly F' := by
  obtain ⟨hb, hA, hB⟩ := gcdext_sound thr divf fuel A B F' S' T' h
  refine ⟨hb, hA, hB, ?_⟩
  intro E hEA hEB
  rw [← hb]
  exact dvd_add (dvd_mul_of_dvd_right hEA _) (dvd_mul_of_dvd_right hEB _)

example : ∃ (A B F' S' T' : List ℚ), gcdext 50 (fun _ _ => []) 5 A B = some (F', S', T') :=
  ⟨[], [1], _, _, _, rfl⟩

/-- Tier B `gcdext_exact` (total): `gcd(F,S0,T0,A,B)` with the implementation's own `div`.  For every `A`, `B` (zero,
    constant, any storage) and every threshold ≥ 1 the loop finishes within `size(B)+1` rounds, and the result divides both
    operands, satisfies the Bezout identity `S0·A + T0·B = F`, and is divisible by every common divisor. -/
theorem gcdext_exact (thr : Nat) (hthr : 1 ≤ thr) (fuel : Nat) (A B : List K) (hf : B.length + 1 ≤ fuel) :
    ∃ F' S' T', gcdext thr (Model.Poly.div thr) fuel A B = some (F', S', T') ∧
      toPoly S' * toPoly A + toPoly T' * toPoly B = toPoly F' ∧ toPoly F' ∣ toPoly A ∧ toPoly F' ∣ toPoly B ∧
      ∀ E : K[X], E ∣ toPoly A → E ∣ toPoly B → E ∣ toPoly F' := by
  obtain ⟨F', S', T', hr, hb, hA, hB⟩ := gcdext_total thr hthr fuel A B hf
  refine ⟨F', S', T', hr, hb, hA, hB, ?_⟩
  intro E hEA hEB
  rw [← hb]
  exact dvd_add (dvd_mul_of_dvd_right hEA _) (dvd_mul_of_dvd_right hEB _)

example : ∃ (thr fuel : Nat) (B : List ℚ), 1 ≤ thr ∧ B.length + 1 ≤ fuel := ⟨50, 2, [1], by decide, by decide⟩

/-- Tier B `gcd_exact`: plain `gcd(G,P,Q)` as written (early exits, larger degree first, `mod` by the implementation's own
    division, `1` for a constant result): it finishes within `size(P)+size(Q)+1` rounds and the result divides `P` and `Q`
    and is divisible by every common divisor — every field, all operands (zero, constant, any storage), threshold ≥ 1 -/
theorem gcd_exact (thr : Nat) (hthr : 1 ≤ thr) (fuel : Nat) (P Q : List K) (hf : P.length + Q.length + 1 ≤ fuel) :
    ∃ D, Model.Poly.gcd thr fuel P Q = some D ∧ toPoly D ∣ toPoly P ∧ toPoly D ∣ toPoly Q ∧
      ∀ E : K[X], E ∣ toPoly P → E ∣ toPoly Q → E ∣ toPoly D :=
  gcd_spec thr hthr fuel P Q hf

example : ∃ (thr fuel : Nat) (P Q : List ℚ), 1 ≤ thr ∧ P.length + Q.length + 1 ≤ fuel :=
  ⟨50, 3, [1], [2], by decide, by decide⟩

/-- Tier B `invmod_exact`: `invmod(S0,A,B)` as written (early exit `1/leadcoef(A)`, monic remainder sequence with the
    implementation's own division, cofactor of `A` only).  For every non-zero modulus `B` and every `A` coprime to it the loop
    finishes within `size(B)+1` rounds and the result `U` satisfies `U·A ≡ 1 (mod B)`. -/
theorem invmod_exact (thr : Nat) (hthr : 1 ≤ thr) (fuel : Nat) (A B : List K) (hf : B.length + 1 ≤ fuel)
    (hb : toPoly B ≠ 0) (hcop : ∀ E : K[X], E ∣ toPoly A → E ∣ toPoly B → E ∣ 1) :
    ∃ U, Model.Poly.invmod thr fuel A B = some U ∧ toPoly B ∣ toPoly U * toPoly A - 1 :=
  invmod_spec thr hthr fuel A B hf hb hcop

example : ∃ (A B : List ℚ), toPoly B ≠ 0 ∧ ∀ E : ℚ[X], E ∣ toPoly A → E ∣ toPoly B → E ∣ 1 :=
  ⟨[1], [1], by simp, fun E h _ => by simpa using h⟩

/-- Tier B `lcm_exact`: `lcm(F,A,B)` as written (zero / constant operands, larger degree first, monic remainder sequence
    with both cofactor rows and the implementation's own division, result `S1·X`): it finishes within
    `size(A)+size(B)+1` rounds and returns a least common multiple — `A ∣ L`, `B ∣ L`, and `L` divides every common
    multiple (for a zero operand `L = 0`).  Every field, all operands, threshold ≥ 1. -/
theorem lcm_exact (thr : Nat) (hthr : 1 ≤ thr) (fuel : Nat) (A B : List K) (hf : A.length + B.length + 1 ≤ fuel) :
    ∃ L, Model.Poly.lcm thr fuel A B = some L ∧ toPoly A ∣ toPoly L ∧ toPoly B ∣ toPoly L ∧
      ∀ M : K[X], toPoly A ∣ M → toPoly B ∣ M → toPoly L ∣ M :=
  lcm_spec thr hthr fuel A B hf

example : ∃ (thr fuel : Nat) (A B : List ℚ), 1 ≤ thr ∧ A.length + B.length + 1 ≤ fuel :=
  ⟨50, 3, [1], [2], by decide, by decide⟩

/-- Tier B `invmodunit_exact`: `invmodunit(S0,A,B)` (plain remainder sequence, cofactor of `A`): for a non-zero modulus and
    coprime operands it finishes within `size(B)+1` rounds and `U·A ≡ e (mod B)` with `e` a non-zero constant -/
theorem invmodunit_exact (thr : Nat) (hthr : 1 ≤ thr) (fuel : Nat) (A B : List K) (hf : B.length + 1 ≤ fuel)
    (hb : toPoly B ≠ 0) (hcop : ∀ E : K[X], E ∣ toPoly A → E ∣ toPoly B → E ∣ 1) :
    ∃ (Us : List K) (e : K), Model.Poly.invmodunit thr fuel A B = some Us ∧ e ≠ 0 ∧
      toPoly B ∣ toPoly Us * toPoly A - C e :=
  invmodunit_spec thr hthr fuel A B hf hb hcop

/-- `pow(W,P,n)` (square and multiply from the least significant bit, generic `mul`) is `P^n`: every `n`, every threshold -/
theorem pow_exact (thr : Nat) (P : List K) (n : Nat) : toPoly (Model.Poly.pow thr P n) = toPoly P ^ n :=
  toPoly_pow thr P n

/-! ### reversal and composition with X^b -/

/-- `reverse` / `reversein` reflect the denoted polynomial with respect to the stored size (`X^(size-1)·P(1/X)`) -/
theorem reverse_exact (Q : List K) : toPoly (Model.Poly.reverse Q) = (toPoly Q).reflect (Q.length - 1) :=
  toPoly_reverse Q

/-- on normalised storage this is the classical reversal `X^deg·P(1/X)` -/
theorem reverse_exact_normal (Q : List K) (hn : Normal Q) : toPoly (Model.Poly.reverse Q) = (toPoly Q).reverse :=
  toPoly_reverse_of_normal Q hn

example : ∃ Q : List ℚ, Normal Q := ⟨[1, 2], by simp [Normal]⟩

/-- `power_compose(W,P,b)` is `P(X^b)` for every `b ≥ 0` and every storage of `P`; for `b = 0` this is the constant `P(1)` -/
theorem compose_exact (P : List K) (b : Nat) : toPoly (powerCompose P b) = (toPoly P).comp (X ^ b) :=
  toPoly_powerCompose P b

theorem compose_zero_exact (P : List K) : toPoly (powerCompose P 0) = C ((toPoly P).eval 1) := by
  rw [toPoly_powerCompose, pow_zero, ← C_1, comp_C]

/-- known defect of the tree before fixes/C08_6: `power_compose(W,P,0)` is not `P(1)` -/
theorem compose_zero_unrepaired_counterexample :
    ¬ ∀ P : List ℚ, toPoly (powerCompose0_unrepaired P) = (toPoly P).comp (X ^ 0) := by
  intro h
  have h1 := h [1, 2, 3]
  have e : powerCompose0_unrepaired ([1, 2, 3] : List ℚ) = [2] := by
    simp [powerCompose0_unrepaired, setdegree]
  rw [e] at h1
  have h2 := congrArg (fun p => p.eval 0) h1
  simp at h2
  norm_num at h2

/-! ### certificates: what the driver checks on the implementation's output determines what the property asks -/

/-- division: any `(Q, R)` with `A = B Q + R`, `deg R < deg B` is *the* quotient and remainder -/
theorem divmod_unique (A B Q R : K[X]) (hB : B ≠ 0) (h : A = B * Q + R) (hd : R.degree < B.degree) :
    Q = A / B ∧ R = A % B := by
  have h1 : A = B * (A / B) + A % B := by
    have := EuclideanDomain.div_add_mod A B
    exact this.symm
  have hd1 : (A % B).degree < B.degree := Polynomial.degree_mod_lt A hB
  have key : B * (Q - A / B) = A % B - R := by
    have : B * Q + R = B * (A / B) + A % B := by rw [← h, ← h1]
    linear_combination this
  have hq : Q - A / B = 0 := by
    by_contra hne
    have hdeg : B.degree ≤ (B * (Q - A / B)).degree := by
      rw [Polynomial.degree_mul]
      have : (0 : WithBot ℕ) ≤ (Q - A / B).degree := Polynomial.zero_le_degree_iff.mpr hne
      calc B.degree = B.degree + 0 := by simp
        _ ≤ B.degree + (Q - A / B).degree := by gcongr
    have hlt : (A % B - R).degree < B.degree :=
      lt_of_le_of_lt (Polynomial.degree_sub_le _ _) (max_lt hd1 hd)
    rw [key] at hdeg
    exact absurd hlt (not_lt.mpr hdeg)
  have hQ : Q = A / B := sub_eq_zero.mp hq
  refine ⟨hQ, ?_⟩
  have : A % B - R = 0 := by rw [← key, hq, mul_zero]
  exact (sub_eq_zero.mp this).symm

/-- extended gcd: divisibility and the Bezout identity make `D` a greatest common divisor -/
theorem gcd_certificate (P Q D U V : K[X]) (hP : D ∣ P) (hQ : D ∣ Q) (hB : D = P * U + Q * V) :
    ∀ E, E ∣ P → E ∣ Q → E ∣ D := by
  intro E hEP hEQ
  rw [hB]
  exact dvd_add (dvd_mul_of_dvd_left hEP U) (dvd_mul_of_dvd_left hEQ V)

/-- modular inverse: `Q ∣ U P - 1` is `U P ≡ 1 (mod Q)`, and then `P` is invertible modulo `Q` with inverse `U` only -/
theorem invmod_certificate (P Q U U' : K[X]) (h : Q ∣ U * P - 1) (h' : Q ∣ U' * P - 1) : Q ∣ U - U' := by
  have e : U - U' = U' * (U * P - 1) - U * (U' * P - 1) := by ring
  rw [e]
  exact dvd_sub (dvd_mul_of_dvd_right h U') (dvd_mul_of_dvd_right h' U)

/-- lcm: a common multiple `L` with `L G = P Q` for a gcd `G = P U + Q V` divides every common multiple -/
theorem lcm_certificate (P Q G U V L : K[X]) (hG : G = P * U + Q * V) (hL : L * G = P * Q) (hG0 : G ≠ 0) :
    ∀ M, P ∣ M → Q ∣ M → L ∣ M := by
  intro M ⟨a, ha⟩ ⟨b, hb⟩
  -- M G = M P U + M Q V = Q b P U + P a Q V = P Q (b U + a V) = L G (b U + a V)
  have : M * G = L * (b * U + a * V) * G := by
    calc M * G = M * (P * U) + M * (Q * V) := by rw [hG]; ring
      _ = (Q * b) * (P * U) + (P * a) * (Q * V) := by rw [← hb, ← ha]
      _ = (P * Q) * (b * U + a * V) := by ring
      _ = L * (b * U + a * V) * G := by rw [← hL]; ring
  exact ⟨b * U + a * V, mul_right_cancel₀ hG0 this⟩

/-! ### the reference arithmetic used by the driver is the arithmetic of `K[X]` -/

theorem norm_eq_setdegree (P : List K) : norm P = setdegree P := by
  induction P with
  | nil => rfl
  | cons a P ih => unfold norm setdegree; rw [ih]; rfl

theorem sadd_eq_add (P Q : List K) : sadd P Q = add P Q := by
  induction P generalizing Q with
  | nil => cases Q <;> rfl
  | cons a P ih => cases Q with
    | nil => rfl
    | cons b Q => simp only [sadd, add, ih]

theorem sadd_exact (P Q : List K) : toPoly (sadd P Q) = toPoly P + toPoly Q := by
  rw [sadd_eq_add, toPoly_add]

theorem sscale_exact (c : K) (P : List K) : toPoly (sscale c P) = C c * toPoly P := by
  induction P with
  | nil => simp [sscale]
  | cons a P ih =>
    simp only [sscale, List.map_cons, toPoly_cons, C_mul] at ih ⊢
    rw [ih]; ring

theorem ssub_exact (P Q : List K) : toPoly (ssub P Q) = toPoly P - toPoly Q := by
  unfold ssub
  rw [sadd_exact]
  have : toPoly (sneg Q) = - toPoly Q := toPoly_neg Q
  rw [this]; ring

/-- the reference product is the product of `K[X]` -/
theorem smul_exact (P Q : List K) : toPoly (smul P Q) = toPoly P * toPoly Q := by
  induction P with
  | nil => simp [smul]
  | cons a P ih =>
    simp only [smul, sadd_exact, sscale_exact, toPoly_cons, ih, C_0]
    ring

theorem seval_exact (P : List K) (v : K) : seval P v = (toPoly P).eval v := by
  induction P with
  | nil => simp [seval]
  | cons a P ih =>
    simp only [seval, List.foldr_cons] at ih ⊢
    rw [ih]; simp

/-- `eqv` decides equality of the denoted polynomials -/
theorem eqv_correct (P Q : List K) : eqv P Q = true ↔ toPoly P = toPoly Q := by
  unfold eqv
  rw [decide_eq_true_eq, norm_eq_setdegree, norm_eq_setdegree]
  exact setdegree_eq_iff P Q

/-- soundness of the division check: accepted outputs satisfy `A = B Q + R` in `K[X]` -/
theorem chkDivmod_sound (A B Q R : List K) (h : chkDivmod A B Q R = true) :
    toPoly A = toPoly B * toPoly Q + toPoly R := by
  unfold chkDivmod at h
  rw [Bool.and_eq_true] at h
  have := (eqv_correct _ _).mp h.1
  rw [sadd_exact, smul_exact] at this
  exact this.symm

/-- soundness of the Bezout part of the gcd check -/
theorem chkBezout_sound (P Q D U V : List K) (h : eqv (sadd (smul P U) (smul Q V)) D = true) :
    toPoly D = toPoly P * toPoly U + toPoly Q * toPoly V := by
  have := (eqv_correct _ _).mp h
  rw [sadd_exact, smul_exact, smul_exact] at this
  exact this.symm

-- non-vacuity of the hypotheses
example : ∃ (A B Q R : ℚ[X]), B ≠ 0 ∧ A = B * Q + R ∧ R.degree < B.degree :=
  ⟨X, X, 1, 0, X_ne_zero, by ring, by simp⟩
example : ∃ (P Q D U V : ℚ[X]), D ∣ P ∧ D ∣ Q ∧ D = P * U + Q * V :=
  ⟨1, 1, 1, 1, 0, dvd_refl _, dvd_refl _, by ring⟩
example : ∃ (P Q U : ℚ[X]), Q ∣ U * P - 1 := ⟨1, X, 1, by simp⟩
example : ∃ (P Q G U V L : ℚ[X]), G = P * U + Q * V ∧ L * G = P * Q ∧ G ≠ 0 :=
  ⟨1, 1, 1, 1, 0, 1, by ring, by ring, one_ne_zero⟩

/-! ### the remaining members: observers on any storage, `setEntry`, `shiftin`, constructors, mixed scalar forms, `random` -/

/-- `isOne`, `isMOne`, `isUnit`, `areNEqual` answer for the denoted polynomial whatever the storage (leading zeros, `[0]`,
    `[]`): they normalise their `const` argument first -/
theorem observers_any_storage (P Q : List K) :
    (isOne P = true ↔ toPoly P = 1) ∧ (Givaro.Model.PolyMore.isMOne P = true ↔ toPoly P = -1) ∧
    (Givaro.Model.PolyMore.isUnit P = true ↔ IsUnit (toPoly P)) ∧
    (Givaro.Model.PolyMore.areNEqual P Q = true ↔ toPoly P ≠ toPoly Q) := by
  refine ⟨Givaro.Lemmas.PolyMore.isOne_correct P, Givaro.Lemmas.PolyMore.isMOne_correct P,
    Givaro.Lemmas.PolyMore.isUnit_correct P, ?_⟩
  unfold Givaro.Model.PolyMore.areNEqual
  rw [Bool.not_eq_true', decide_eq_false_iff_not, setdegree_eq_iff]

/-- the observers by value on any storage: `degree` (`deginfty = -1` exactly for the zero polynomial, else the degree of the
    denoted polynomial), `leadcoef`, `getEntry`; and `modpowx(R, P, l)` keeps exactly the coefficients below `l` -/
theorem observers_values (P : List K) (i l : Nat) :
    (toPoly P = 0 → Givaro.Model.Poly.degree P = -1) ∧
    (toPoly P ≠ 0 → Givaro.Model.Poly.degree P = ((toPoly P).natDegree : Int)) ∧
    leadcoef P = (toPoly P).leadingCoeff ∧ getEntry i P = (toPoly P).coeff i ∧
    (toPoly (modpowx P l)).coeff i = if i < l then (toPoly P).coeff i else 0 :=
  ⟨(Givaro.Lemmas.PolyMore.degree_value P).1, (Givaro.Lemmas.PolyMore.degree_value P).2, leadcoef_eq_leadingCoeff P,
   Givaro.Lemmas.PolyMore.getEntry_eq i P, Givaro.Lemmas.PolyMore.coeff_modpowx P l i⟩

/-- `isDivisor(P, Q)` decides `Q | P` for all operands (zero `Q` included: `0 | P` iff `P = 0`), any storage -/
theorem isDivisor_exact (thr : Nat) (hthr : 1 ≤ thr) (P Q : List K) :
    Givaro.Model.PolyMore.isDivisor thr P Q = true ↔ toPoly Q ∣ toPoly P :=
  Givaro.Lemmas.PolyMore.isDivisor_correct thr hthr P Q

example : ∃ thr : Nat, 1 ≤ thr := ⟨50, by decide⟩

/-- the in-place division forms `divin(Q, A)` and `divmodin(Q, R, B)` return the Euclidean quotient / remainder -/
theorem division_inplace_exact (thr : Nat) (hthr : 1 ≤ thr) (A B : List K) (hb : toPoly B ≠ 0) :
    toPoly (divin thr A B) = toPoly A / toPoly B ∧
    toPoly (divmodin thr A B).1 = toPoly A / toPoly B ∧ toPoly (divmodin thr A B).2 = toPoly A % toPoly B :=
  ⟨Givaro.Lemmas.PolyMore.toPoly_divin thr hthr A B hb, Givaro.Lemmas.PolyMore.toPoly_divmodin thr hthr A B hb⟩

example : ∃ (thr : Nat) (B : List ℚ), 1 ≤ thr ∧ toPoly B ≠ 0 := ⟨50, [1], by decide, by simp⟩

/-- `val(d, P)` is the valuation: `deginfty` exactly for the zero polynomial (stored as `[]`, `[0]`, `[0,0]`, …), else the
    index of the lowest non-zero coefficient -/
theorem val_exact (P : List K) :
    (Givaro.Model.PolyMore.val P = -1 ↔ toPoly P = 0) ∧
    (toPoly P ≠ 0 → ∃ k : Nat, Givaro.Model.PolyMore.val P = (k : Int) ∧ (toPoly P).coeff k ≠ 0 ∧
      ∀ j, j < k → (toPoly P).coeff j = 0) :=
  Givaro.Lemmas.PolyMore.val_spec P

/-- `setEntry(P, c, i)` (all four branches: nothing happens / degree is killed / element is killed / `resize`): the
    coefficient of degree `i` becomes `c`, every other coefficient of the denoted polynomial is kept — any storage, any `i` -/
theorem setEntry_exact (P : List K) (c : K) (i j : Nat) :
    (toPoly (Givaro.Model.PolyMore.setEntry P c i)).coeff j = if j = i then c else (toPoly P).coeff j :=
  Givaro.Lemmas.PolyMore.setEntry_coeff P c i j

/-- `shiftin(R, s)` multiplies by `X^s` (un-normalised input included) -/
theorem shiftin_exact (R : List K) (s : Nat) : toPoly (Givaro.Model.PolyMore.shiftin R s) = X ^ s * toPoly R :=
  Givaro.Lemmas.PolyMore.toPoly_shiftin R s

/-- constructors and assignments of givpoly1cstor.inl: `init(P)`, `init(P, v)`, `init(P, Degree d)`, `init(P, d, v)` /
    `assign(P, d, v)` (normalised also for `v = 0`), `assign(P, v)`, `assign(P, Q)` (normal form of `Q`), and the polynomial →
    scalar forms `assign(v, P)` / `convert(v, P)` (constant coefficient of the storage as it is) -/
theorem cstor_exact (d : Nat) (v : K) (Q : List K) :
    toPoly (Givaro.Model.PolyMore.init0 : List K) = 0 ∧ toPoly (Givaro.Model.PolyMore.initVal v) = C v ∧
    toPoly (Givaro.Model.PolyMore.initDeg d : List K) = X ^ d ∧
    toPoly (Givaro.Model.PolyMore.initDegVal d v) = C v * X ^ d ∧ Normal (Givaro.Model.PolyMore.initDegVal d v) ∧
    toPoly (Givaro.Model.PolyMore.assignVal v) = C v ∧
    toPoly (assign Q) = toPoly Q ∧ Normal (assign Q) ∧
    Givaro.Model.PolyMore.toScalar Q = (toPoly Q).coeff 0 := by
  refine ⟨rfl, by simp [Givaro.Model.PolyMore.initVal], Givaro.Lemmas.PolyMore.toPoly_initDeg d,
    Givaro.Lemmas.PolyMore.toPoly_initDegVal d v, Givaro.Lemmas.PolyMore.normal_initDegVal d v, ?_,
    toPoly_setdegree Q, Givaro.Lemmas.Poly.setdegree_normal Q, Givaro.Lemmas.PolyMore.toScalar_eq Q⟩
  unfold Givaro.Model.PolyMore.assignVal
  rw [Givaro.Lemmas.PolyMore.toPoly_initDegVal]; simp

/-- the scalar / polynomial mixed quotient and remainder: `div(R, u, P) = u / P`, `mod(R, u, P) = u mod P` for every
    non-zero `P` (any storage, constant or not), `mod(R, P, u) = modin(R, u) = P mod u` for every non-zero `u` -/
theorem scalar_poly_mixed_exact (u : K) (P : List K) :
    (toPoly P ≠ 0 → toPoly (Givaro.Model.PolyMore.valDiv u P) = C u / toPoly P) ∧
    (toPoly P ≠ 0 → toPoly (Givaro.Model.PolyMore.valMod u P) = C u % toPoly P) ∧
    (u ≠ 0 → toPoly (Givaro.Model.PolyMore.modVal P u) = toPoly P % C u) :=
  ⟨Givaro.Lemmas.PolyMore.toPoly_valDiv u P, Givaro.Lemmas.PolyMore.toPoly_valMod u P,
   Givaro.Lemmas.PolyMore.toPoly_modVal P u⟩

example : ∃ (u : ℚ) (P : List ℚ), toPoly P ≠ 0 ∧ u ≠ 0 := ⟨1, [1], by simp, one_ne_zero⟩

/-- `inv(R, P) = div(R, one, P)` (and `invin`): the Euclidean quotient `1 / P`, i.e. `1/c` for a non-zero constant `c` and
    `0` for `deg P >= 1` -/
theorem inv_exact (thr : Nat) (hthr : 1 ≤ thr) (P : List K) (hP : toPoly P ≠ 0) :
    toPoly (Givaro.Model.PolyMore.inv thr P) = 1 / toPoly P :=
  Givaro.Lemmas.PolyMore.toPoly_inv thr hthr P hP

example : ∃ (thr : Nat) (P : List ℚ), 1 ≤ thr ∧ toPoly P ≠ 0 := ⟨50, [1], by decide, by simp⟩

/-- `random(g, r, Degree d)` (and through it every `random` / `nonzerorandom` overload: `randomTarget`): whatever is drawn,
    provided the leading draw is non-zero as `nonzerorandom` of the field promises, the result has exactly `d+1` coefficients,
    is normalised and has degree `d`; `deginfty` gives the empty vector -/
theorem random_shape (d : Int) (lead : K) (draws : List K) (hl : lead ≠ 0) :
    (Givaro.Model.PolyMore.randomDeg d lead draws).length = (if d < 0 then 0 else d.toNat + 1) ∧
    Normal (Givaro.Model.PolyMore.randomDeg d lead draws) ∧
    Givaro.Model.Poly.degree (Givaro.Model.PolyMore.randomDeg d lead draws) = (if d < 0 then -1 else d) :=
  Givaro.Lemmas.PolyMore.randomDeg_shape d lead draws hl

example : ∃ lead : ℚ, lead ≠ 0 := ⟨1, one_ne_zero⟩

/-! ### interpolation (givinterp.h) -/

/-- `Interpolation<Domain>` as written — `operator()(x, f)` called for `(x_0,f_0), (x_1,f_1), …`: `DD.push_back(f)`,
    `Pi = X·Pi - x_last·Pi`, the divided-difference loop `DD[j] = (DD[j] - DD[j+1]) / (x_j - x)` on reverse iterators,
    `inter += DD.front()·Pi` — then `interpolator()`: for **every** number of points and all pairwise distinct abscissae the
    result takes the value `f_i` at `x_i` for every `i`, and has degree below the number of points (the zero polynomial for no
    point).  Any field. -/
theorem interp_exact (pts : List (K × K)) (hd : (pts.map Prod.fst).Nodup) :
    (∀ p ∈ pts, (toPoly (Givaro.Model.PolyInterp.interpolator pts)).eval p.1 = p.2) ∧
    (toPoly (Givaro.Model.PolyInterp.interpolator pts)).degree < (pts.length : WithBot ℕ) :=
  Givaro.Lemmas.PolyInterp.interpolator_spec pts hd

example : ∃ pts : List (ℚ × ℚ), (pts.map Prod.fst).Nodup := ⟨[(0, 1), (1, 2)], by simp⟩

/-- certificate used by the driver for the interpolation classes: values at the points and the degree bound determine the
    polynomial, so an output accepted by the check *is* the interpolant (hence equal to the model's) -/
theorem interp_unique (pts : List (K × K)) (hd : (pts.map Prod.fst).Nodup) (F G : K[X])
    (hF : ∀ p ∈ pts, F.eval p.1 = p.2) (hG : ∀ p ∈ pts, G.eval p.1 = p.2)
    (dF : F.degree < (pts.length : WithBot ℕ)) (dG : G.degree < (pts.length : WithBot ℕ)) : F = G :=
  Givaro.Lemmas.PolyInterp.interp_unique pts hd F G hF hG dF dG

example : ∃ (pts : List (ℚ × ℚ)) (F G : ℚ[X]), (pts.map Prod.fst).Nodup ∧ (∀ p ∈ pts, F.eval p.1 = p.2) ∧
    (∀ p ∈ pts, G.eval p.1 = p.2) ∧ F.degree < (pts.length : WithBot ℕ) ∧ G.degree < (pts.length : WithBot ℕ) :=
  ⟨[(0, 1)], 1, 1, by simp, by simp, by simp, by simp, by simp⟩

/-- the scalar fused forms `axpy(r, a, x, y)` and `axpyin(r, a, x)` (coefficient loops over the common part, then the longer
    operand): exact for all operands of any sizes -/
theorem fused_scalar_exact (c : K) (R X' Y : List K) :
    toPoly (axpyVal c X' Y) = C c * toPoly X' + toPoly Y ∧ toPoly (axpyinVal c R X') = toPoly R + C c * toPoly X' :=
  ⟨Givaro.Lemmas.PolyCRT.toPoly_axpyVal c X' Y, Givaro.Lemmas.PolyCRT.toPoly_axpyinVal c R X'⟩

/-! ### polynomial CRT (givpoly1crt.h) -/

/-- `Poly1CRT::RnsToRing` as written (`ComputeCk`: `prod = Π_{j<k}(X - primes[j])`, `ck[k] = prod / prod(primes[k])`; then
    `I = rns[0]`, `I += (rns[i] - I(primes[i]))·ck[i]`): for every number of pairwise distinct points and as many residues the
    result takes the residue `rns[i]` at `primes[i]` for every `i` and has degree below the number of points — the CRT lift
    modulo `Π (X - primes[i])`.  Every threshold; and `RingToRns` is evaluation at the points. -/
theorem crt_exact (thr : Nat) (primes rns : List K) (hne : primes ≠ []) (hlen : rns.length = primes.length)
    (hnd : primes.Nodup) :
    (∀ q ∈ primes.zip rns, (toPoly (Givaro.Model.PolyCRT.rnsToRing thr primes rns)).eval q.1 = q.2) ∧
    (toPoly (Givaro.Model.PolyCRT.rnsToRing thr primes rns)).degree < (primes.length : WithBot ℕ) ∧
    ∀ a : List K, Givaro.Model.PolyCRT.ringToRns primes a = primes.map (fun p => (toPoly a).eval p) := by
  obtain ⟨h1, h2⟩ := Givaro.Lemmas.PolyCRT.rnsToRing_spec thr primes rns hne hlen hnd
  refine ⟨h1, h2, fun a => ?_⟩
  unfold Givaro.Model.PolyCRT.ringToRns
  apply List.map_congr_left
  intro p _
  exact eval_eq a p

example : ∃ (primes rns : List ℚ), primes ≠ [] ∧ rns.length = primes.length ∧ primes.Nodup :=
  ⟨[0, 1], [1, 2], by simp, by simp, by simp⟩

/-! ### p-adic conversion (givpoly1padic.h) -/

/-- `eval (radix E) = E` for every integer `E ≥ 0` and every `p ≥ 2` (recursive splitting at `t = (n+1)/2` with the zero
    padding of the low half); the digits produced are canonical residues and the polynomial is normalised -/
theorem padic_eval_radix (p : Nat) (hp : 2 ≤ p) (E : Nat) :
    Givaro.Model.Padic.eval p (Givaro.Model.Padic.radix p E) = E ∧
    (∀ d ∈ Givaro.Model.Padic.radix p E, d < p) ∧ (Givaro.Model.Padic.radix p E).getLast? ≠ some 0 :=
  Givaro.Lemmas.Padic.eval_radix p hp E

/-- `radix (eval P) = P` for every normalised polynomial with coefficients `< p`, of any size (the empty one included) -/
theorem padic_radix_eval (p : Nat) (hp : 2 ≤ p) (P : List Nat) (hd : ∀ d ∈ P, d < p) (hn : P.getLast? ≠ some 0) :
    Givaro.Model.Padic.radix p (Givaro.Model.Padic.eval p P) = P :=
  Givaro.Lemmas.Padic.radix_eval p hp P hd hn

example : ∃ (p : Nat) (P : List Nat), 2 ≤ p ∧ (∀ d ∈ P, d < p) ∧ P.getLast? ≠ some 0 := ⟨2, [1], by decide, by simp, by simp⟩

/-- the direct conversions: `radixdirect(P, E, n)` (integral `E`) writes exactly `n` canonical digits whose value is
    `E mod p^n` (so `E` itself when `E < p^n`), and `evaldirect` is the Horner value — every `p ≥ 1`, `n`, `E`, every vector -/
theorem padic_direct_exact (p : Nat) (hp : 1 ≤ p) (n E : Nat) (P : List Nat) :
    (Givaro.Model.Padic.radixDirect p n E).length = n ∧ (∀ d ∈ Givaro.Model.Padic.radixDirect p n E, d < p) ∧
    Givaro.Model.Padic.eval p (Givaro.Model.Padic.radixDirect p n E) = E % p ^ n ∧
    Givaro.Model.Padic.evalDirect p P = Givaro.Model.Padic.eval p P :=
  ⟨(Givaro.Lemmas.PolyMore.radixDirect_spec p hp n E).1, (Givaro.Lemmas.PolyMore.radixDirect_spec p hp n E).2.1,
   (Givaro.Lemmas.PolyMore.radixDirect_spec p hp n E).2.2, Givaro.Lemmas.PolyMore.evalDirect_eq p P⟩

example : ∃ p : Nat, 1 ≤ p := ⟨2, by decide⟩

end Givaro.Props.C08
