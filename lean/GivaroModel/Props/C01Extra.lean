/-
C01 (part 2) — the overloads outside the translator's dialect: comparisons of an Integer with a float/double (24 operators +
absCompare), `fact`, limb access / limb-vector conversions, `length`, `pp`.  The bodies are transcribed by hand in
Model/IntegerExtra.lean and tied to the code by the correspondence harness `h_integer_x.cpp`; here: what the transcriptions compute.
-/
import GivaroModel.Model.IntegerExtra
import Mathlib.Tactic.Ring
import Mathlib.Tactic.Linarith
import Mathlib.Tactic.Positivity
import Mathlib.Tactic.NormNum
import Mathlib.Tactic.Push
import Mathlib.Data.Nat.Factorial.Basic
import Mathlib.Data.Int.GCD
import Mathlib.Data.Nat.Prime.Basic
import Mathlib.Algebra.Order.Field.Power
import Mathlib.Data.Rat.Cast.Order
namespace Givaro.Props.C01X
open Givaro.Model.IntegerExtra

/-- the rational number a finite floating-point operand denotes -/
noncomputable def val (m e : Int) : ℚ := (m : ℚ) * (2 : ℚ) ^ e

theorem sgn_neg_iff (x : Int) : sgn x < 0 ↔ x < 0 := by unfold sgn; split <;> [simp [*]; (split <;> omega)]
theorem sgn_zero_iff (x : Int) : sgn x = 0 ↔ x = 0 := by unfold sgn; split <;> [omega; (split <;> omega)]
theorem sgn_pos_iff (x : Int) : 0 < sgn x ↔ 0 < x := by unfold sgn; split <;> [omega; (split <;> omega)]

theorem two_zpow_nonneg (e : Int) (h : 0 ≤ e) : (2 : ℚ) ^ e = ((2 ^ e.toNat : Int) : ℚ) := by
  obtain ⟨n, rfl⟩ := Int.eq_ofNat_of_zero_le h
  simp [zpow_natCast]

theorem two_zpow_neg (e : Int) (h : e < 0) : (2 : ℚ) ^ e * ((2 ^ (-e).toNat : Int) : ℚ) = 1 := by
  obtain ⟨n, hn⟩ := Int.eq_ofNat_of_zero_le (show 0 ≤ -e by omega)
  have : e = -(n : Int) := by omega
  subst this
  simp only [neg_neg, Int.toNat_natCast, zpow_neg, zpow_natCast]
  push_cast
  exact inv_mul_cancel₀ (by positivity)

/-- `mpz_cmp_d` contract as modelled = the exact comparison of the integer with the rational value of the double:
    for every integer a and every finite double m·2^e (no rounding of a, whatever its size) -/
theorem cmpD_exact (a m e : Int) :
    ∃ c, cmpD a (.fin m e) = some c ∧ (c < 0 ↔ (a : ℚ) < val m e) ∧ (c = 0 ↔ (a : ℚ) = val m e) ∧ (0 < c ↔ val m e < (a : ℚ)) := by
  unfold cmpD val
  by_cases h : 0 ≤ e
  · refine ⟨sgn (a - m * 2 ^ e.toNat), by simp [h], ?_, ?_, ?_⟩
    · rw [sgn_neg_iff, two_zpow_nonneg e h]; constructor
      · intro hx; have : a < m * 2 ^ e.toNat := by omega
        exact_mod_cast this
      · intro hx; have : a < m * 2 ^ e.toNat := by exact_mod_cast hx
        omega
    · rw [sgn_zero_iff, two_zpow_nonneg e h]; constructor
      · intro hx; have : a = m * 2 ^ e.toNat := by omega
        exact_mod_cast this
      · intro hx; have : a = m * 2 ^ e.toNat := by exact_mod_cast hx
        omega
    · rw [sgn_pos_iff, two_zpow_nonneg e h]; constructor
      · intro hx; have : m * 2 ^ e.toNat < a := by omega
        exact_mod_cast this
      · intro hx; have : m * 2 ^ e.toNat < a := by exact_mod_cast hx
        omega
  · have he : e < 0 := by omega
    have hk := two_zpow_neg e he
    set K : Int := 2 ^ (-e).toNat with hK
    have hKpos : (0 : ℚ) < (K : ℚ) := by
      have : (0 : Int) < K := by rw [hK]; positivity
      exact_mod_cast this
    have key : (m : ℚ) * (2 : ℚ) ^ e * (K : ℚ) = (m : ℚ) := by rw [mul_assoc, hk, mul_one]
    refine ⟨sgn (a * K - m), by simp [h, hK], ?_, ?_, ?_⟩
    · rw [sgn_neg_iff]; constructor
      · intro hx
        have h1 : ((a * K : Int) : ℚ) < (m : ℚ) := by exact_mod_cast (show a * K < m by omega)
        push_cast at h1
        rw [← key] at h1
        exact lt_of_mul_lt_mul_right h1 hKpos.le
      · intro hx
        have h1 : (a : ℚ) * K < (m : ℚ) * (2 : ℚ) ^ e * K := mul_lt_mul_of_pos_right hx hKpos
        rw [key] at h1
        have : a * K < m := by exact_mod_cast h1
        omega
    · rw [sgn_zero_iff]; constructor
      · intro hx
        have h1 : ((a * K : Int) : ℚ) = (m : ℚ) := by exact_mod_cast (show a * K = m by omega)
        push_cast at h1
        rw [← key] at h1
        exact mul_right_cancel₀ hKpos.ne' h1
      · intro hx
        have h1 : (a : ℚ) * K = (m : ℚ) := by rw [hx, key]
        have : a * K = m := by exact_mod_cast h1
        omega
    · rw [sgn_pos_iff]; constructor
      · intro hx
        have h1 : (m : ℚ) < ((a * K : Int) : ℚ) := by exact_mod_cast (show m < a * K by omega)
        push_cast at h1
        rw [← key] at h1
        exact lt_of_mul_lt_mul_right h1 hKpos.le
      · intro hx
        have h1 : (m : ℚ) * (2 : ℚ) ^ e * K < (a : ℚ) * K := mul_lt_mul_of_pos_right hx hKpos
        rw [key] at h1
        have : m < a * K := by exact_mod_cast h1
        omega

/-- the six member operators `Integer OP double` decide the mathematical relation between a and the value of the double -/
theorem member_operators_exact (a m e : Int) :
    opMember .lt a (.fin m e) = some (decide ((a : ℚ) < val m e)) ∧
    opMember .le a (.fin m e) = some (decide ((a : ℚ) ≤ val m e)) ∧
    opMember .gt a (.fin m e) = some (decide (val m e < (a : ℚ))) ∧
    opMember .ge a (.fin m e) = some (decide (val m e ≤ (a : ℚ))) ∧
    opMember .eq a (.fin m e) = some (decide ((a : ℚ) = val m e)) ∧
    opMember .ne a (.fin m e) = some (decide ((a : ℚ) ≠ val m e)) := by
  obtain ⟨c, hc, hlt, heq, hgt⟩ := cmpD_exact a m e
  simp only [opMember, hc, Option.map_some, Rel.holds, Option.some.injEq]
  have tri : c < 0 ∨ c = 0 ∨ 0 < c := by omega
  refine ⟨?_, ?_, ?_, ?_, ?_, ?_⟩
  · by_cases h : c < 0
    · simp [h, hlt.mp h]
    · have : ¬ (a : ℚ) < val m e := fun hx => h (hlt.mpr hx)
      simp [h, this]
  · by_cases h : c ≤ 0
    · have : (a : ℚ) ≤ val m e := by
        rcases (show c < 0 ∨ c = 0 by omega) with h1 | h1
        · exact (hlt.mp h1).le
        · exact (heq.mp h1).le
      simp [h, this]
    · have : ¬ (a : ℚ) ≤ val m e := not_le.mpr (hgt.mp (by omega))
      simp [h, this]
  · by_cases h : 0 < c
    · simp [h, hgt.mp h]
    · have : ¬ val m e < (a : ℚ) := fun hx => h (hgt.mpr hx)
      simp [h, this]
  · by_cases h : 0 ≤ c
    · have : val m e ≤ (a : ℚ) := by
        rcases (show 0 < c ∨ c = 0 by omega) with h1 | h1
        · exact (hgt.mp h1).le
        · exact (heq.mp h1).ge
      simp [h, this]
    · have : ¬ val m e ≤ (a : ℚ) := not_le.mpr (hlt.mp (by omega))
      simp [h, this]
  · by_cases h : c = 0
    · simp [h, heq.mp h]
    · have : ¬ (a : ℚ) = val m e := fun hx => h (heq.mpr hx)
      simp [h, this]
  · by_cases h : c = 0
    · simp [h, heq.mp h]
    · have : (a : ℚ) ≠ val m e := fun hx => h (heq.mpr hx)
      simp [h, this]

/-- the free operators `double OP Integer` are written as the mirrored member operator; they decide `value OP a` -/
theorem free_operators_exact (a m e : Int) :
    opFree .lt (.fin m e) a = some (decide (val m e < (a : ℚ))) ∧
    opFree .le (.fin m e) a = some (decide (val m e ≤ (a : ℚ))) ∧
    opFree .gt (.fin m e) a = some (decide ((a : ℚ) < val m e)) ∧
    opFree .ge (.fin m e) a = some (decide ((a : ℚ) ≤ val m e)) ∧
    opFree .eq (.fin m e) a = some (decide (val m e = (a : ℚ))) ∧
    opFree .ne (.fin m e) a = some (decide (val m e ≠ (a : ℚ))) := by
  obtain ⟨h1, h2, h3, h4, h5, h6⟩ := member_operators_exact a m e
  refine ⟨h3, h4, h1, h2, ?_, ?_⟩
  · simp only [opFree, Rel.swap, h5]; congr 1; exact decide_eq_decide.mpr eq_comm
  · simp only [opFree, Rel.swap, h6]; congr 1; exact decide_eq_decide.mpr ⟨fun h => h.symm, fun h => h.symm⟩

/-- "identically across all overloads": on an integer-valued double the floating overload answers exactly like the Integer overload
    on the integer b = m·2^e (any size: no 53-bit restriction on a) -/
theorem double_overload_agrees_with_integer_overload (r : Rel) (a m : Int) (k : Nat) :
    opMember r a (.fin m k) = some (r.holds (sgn (a - m * 2 ^ k))) := by
  simp [opMember, cmpD]

/-- infinities: every Integer is below +∞ and above −∞ -/
theorem infinities (a : Int) : cmpD a (.inf false) = some (-1) ∧ cmpD a (.inf true) = some 1 := by simp [cmpD]

/-- `Integer(double)` is the truncation toward zero of the exact value: the integer z with |z| ≤ |value| < |z| + 1 and the sign of
    the value — for every finite double, in particular for ±2^63, ±2^64 and beyond (no machine-word detour) -/
theorem ofFl_is_truncation (m e : Int) :
    ∃ z, ofFl (.fin m e) = some z ∧
      (0 ≤ e → z = m * 2 ^ e.toNat) ∧
      (e < 0 → z = Int.tdiv m (2 ^ (-e).toNat) ∧ z.natAbs * 2 ^ (-e).toNat ≤ m.natAbs ∧ m.natAbs < (z.natAbs + 1) * 2 ^ (-e).toNat) := by
  by_cases h : 0 ≤ e
  · exact ⟨m * 2 ^ e.toNat, by simp [ofFl, h], fun _ => rfl, fun h' => absurd h (by omega)⟩
  · refine ⟨Int.tdiv m (2 ^ (-e).toNat), by simp [ofFl, h], fun h' => absurd h' h, fun _ => ⟨rfl, ?_, ?_⟩⟩
    · have hk : (0 : Nat) < 2 ^ (-e).toNat := Nat.pos_of_ne_zero (by positivity)
      rw [Int.natAbs_tdiv, Int.natAbs_pow]
      exact Nat.div_mul_le_self _ _
    · have hk : (0 : Nat) < 2 ^ (-e).toNat := Nat.pos_of_ne_zero (by positivity)
      rw [Int.natAbs_tdiv, Int.natAbs_pow]
      have := Nat.lt_div_mul_add (a := m.natAbs) hk
      calc m.natAbs < m.natAbs / 2 ^ (-e).toNat * 2 ^ (-e).toNat + 2 ^ (-e).toNat := this
        _ = (m.natAbs / 2 ^ (-e).toNat + 1) * 2 ^ (-e).toNat := by ring

/-- conversion to double keeps the leading bits: 0 ≤ |a| − mantissa·2^exponent < 2^exponent, and it is exact below 2^53 -/
theorem toDyTrunc_spec (a : Int) :
    (toDyTrunc a).2.1 * 2 ^ (toDyTrunc a).2.2 ≤ a.natAbs ∧ a.natAbs < ((toDyTrunc a).2.1 + 1) * 2 ^ (toDyTrunc a).2.2 ∧
    (a.natAbs < 2 ^ 53 → (toDyTrunc a).2.1 = a.natAbs ∧ (toDyTrunc a).2.2 = 0) ∧ (toDyTrunc a).1 = decide (a < 0) := by
  simp only [toDyTrunc]
  set sh := (if a.natAbs = 0 then 0 else a.natAbs.log2 + 1) - 53 with hsh
  have hk : (0 : Nat) < 2 ^ sh := Nat.pos_of_ne_zero (by positivity)
  refine ⟨Nat.div_mul_le_self _ _, ?_, ?_, trivial⟩
  · have := Nat.lt_div_mul_add (a := a.natAbs) hk
    calc a.natAbs < a.natAbs / 2 ^ sh * 2 ^ sh + 2 ^ sh := this
      _ = (a.natAbs / 2 ^ sh + 1) * 2 ^ sh := by ring
  · intro hlt
    have hbits : (if a.natAbs = 0 then 0 else a.natAbs.log2 + 1) ≤ 53 := by
      split
      · omega
      · rename_i hne
        have := (Nat.log2_lt hne).mpr hlt
        omega
    have h0 : sh = 0 := by omega
    rw [h0]; simp

/-- `fact` is the factorial -/
theorem fact_eq_factorial (n : Nat) : fact n = n.factorial := by
  induction n with
  | zero => rfl
  | succ n ih => simp [fact, Nat.factorial_succ, ih]

/-- limb decomposition: the limbs are 64-bit words, recombine to the magnitude, and the top limb is non-zero (GMP's normal form) -/
theorem ofLimbs_limbs (n : Nat) : ofLimbs (limbs n) = n := by
  induction n using Nat.strong_induction_on with
  | _ n ih =>
    unfold limbs
    split
    · simp [ofLimbs, *]
    · rename_i h
      simp only [ofLimbs]
      rw [ih (n / 2^64) (Nat.div_lt_self (Nat.pos_of_ne_zero h) (by decide))]
      omega

theorem limbs_lt (n : Nat) : ∀ l ∈ limbs n, l < 2^64 := by
  induction n using Nat.strong_induction_on with
  | _ n ih =>
    unfold limbs
    split
    · simp
    · rename_i h
      intro l hl
      simp only [List.mem_cons] at hl
      rcases hl with rfl | hl
      · exact Nat.mod_lt _ (by decide)
      · exact ih (n / 2^64) (Nat.div_lt_self (Nat.pos_of_ne_zero h) (by decide)) l hl

theorem limbs_top_nonzero (n : Nat) : ∀ l, (limbs n).getLast? = some l → l ≠ 0 := by
  induction n using Nat.strong_induction_on with
  | _ n ih =>
    unfold limbs
    split
    · simp
    · rename_i h
      intro l hl
      rw [List.getLast?_cons] at hl
      cases hq : (limbs (n / 2^64)).getLast? with
      | none =>
        simp only [hq, Option.getD_none, Option.some.injEq] at hl
        subst hl
        have hnil : limbs (n / 2^64) = [] := List.getLast?_eq_none_iff.mp hq
        have hq0 : n / 2^64 = 0 := by
          by_contra hc
          have : limbs (n / 2^64) ≠ [] := by
            rw [limbs]; simp only [hc, dite_false]; exact List.cons_ne_nil _ _
          exact this hnil
        have : n < 2^64 := by
          by_contra hc
          have : 1 ≤ n / 2^64 := Nat.div_pos (by omega) (by decide)
          omega
        omega
      | some x =>
        simp only [hq, Option.getD_some, Option.some.injEq] at hl
        subst hl
        exact ih (n / 2^64) (Nat.div_lt_self (Nat.pos_of_ne_zero h) (by decide)) x hq

/-- limb access and the limb-vector conversions are mutually inverse on magnitudes -/
theorem vector_roundtrip (a : Int) : ofVector (limbs a.natAbs) = (a.natAbs : Int) := by
  unfold ofVector
  have : (limbs a.natAbs).map (· % 2^64) = limbs a.natAbs := by
    conv_rhs => rw [← List.map_id (limbs a.natAbs)]
    exact List.map_congr_left (fun l hl => Nat.mod_eq_of_lt (limbs_lt _ l hl))
  rw [this, ofLimbs_limbs]

/-! ### `pp(P,Q)`: the part of P prime to Q -/

structure PPInv (p q u : Int) (v : Nat) : Prop where
  udvd : u ∣ p
  une : u ≠ 0
  vdvd : (v : Int) ∣ u
  primes : ∀ r : Nat, r.Prime → r ∣ u.natAbs → r ∣ q.natAbs → r ∣ v

theorem ppLoop_sound (p q : Int) : ∀ (fuel : Nat) (u : Int) (v : Nat), PPInv p q u v → u.natAbs < 2 ^ fuel →
    ppLoop fuel u v ∣ p ∧ Int.gcd (ppLoop fuel u v) q = 1 := by
  intro fuel
  induction fuel with
  | zero =>
    intro u v inv hlt
    have : u.natAbs = 0 := by simpa using hlt
    exact absurd (Int.natAbs_eq_zero.mp this) inv.une
  | succ fuel ih =>
    intro u v inv hlt
    unfold ppLoop
    by_cases hv : v = 1
    · simp only [hv, if_true]
      refine ⟨inv.udvd, ?_⟩
      rw [Int.gcd_eq_natAbs_gcd_natAbs]
      by_contra hne
      obtain ⟨r, hr, hrd⟩ := Nat.exists_prime_and_dvd hne
      have h1 := inv.primes r hr (dvd_trans hrd (Nat.gcd_dvd_left _ _)) (dvd_trans hrd (Nat.gcd_dvd_right _ _))
      rw [hv] at h1
      exact hr.one_lt.ne' (Nat.dvd_one.mp h1)
    · simp only [hv, if_false]
      have hvpos : 0 < v := by
        rcases Nat.eq_zero_or_pos v with h0 | h0
        · subst h0
          have := inv.vdvd
          simp only [Nat.cast_zero, zero_dvd_iff] at this
          exact absurd this inv.une
        · exact h0
      have hv2 : 2 ≤ v := by omega
      set u' := Int.tdiv u (v : Int) with hu'
      have hmul : (v : Int) * u' = u := Int.mul_tdiv_cancel' inv.vdvd
      have hu'dvd : u' ∣ u := ⟨(v : Int), by rw [mul_comm]; exact hmul.symm⟩
      have hu'ne : u' ≠ 0 := by
        intro h0; rw [h0, mul_zero] at hmul; exact inv.une hmul.symm
      have hnat : u'.natAbs * v = u.natAbs := by
        have := congrArg Int.natAbs hmul
        rw [Int.natAbs_mul, Int.natAbs_natCast] at this
        rw [mul_comm]; exact this
      apply ih u' (Int.gcd u' v)
      · refine ⟨dvd_trans hu'dvd inv.udvd, hu'ne, ?_, ?_⟩
        · exact Int.gcd_dvd_left _ _
        · intro r hr hru hrq
          have hru0 : r ∣ u.natAbs := by rw [← hnat]; exact dvd_mul_of_dvd_left hru v
          have hrv : r ∣ v := inv.primes r hr hru0 hrq
          rw [Int.gcd_eq_natAbs_gcd_natAbs, Int.natAbs_natCast]
          exact Nat.dvd_gcd hru hrv
      · have hpos : 0 < u'.natAbs := Int.natAbs_pos.mpr hu'ne
        have : u'.natAbs * 2 ≤ u.natAbs := by rw [← hnat]; exact Nat.mul_le_mul_left _ hv2
        rw [pow_succ] at hlt
        omega

/-- `pp(P,Q)` for P ≠ 0: the result divides P and is coprime to Q (the loop as written, with the fuel the model gives it) -/
theorem pp_sound (p q : Int) (hp : p ≠ 0) : pp p q ∣ p ∧ Int.gcd (pp p q) q = 1 := by
  unfold pp
  apply ppLoop_sound p q
  · refine ⟨dvd_refl p, hp, Int.gcd_dvd_left _ _, ?_⟩
    intro r _ hrp hrq
    rw [Int.gcd_eq_natAbs_gcd_natAbs]
    exact Nat.dvd_gcd hrp hrq
  · have := Nat.lt_log2_self (n := p.natAbs)
    calc p.natAbs < 2 ^ (p.natAbs.log2 + 1) := this
      _ ≤ 2 ^ (p.natAbs.log2 + 2) := Nat.pow_le_pow_right (by decide) (by omega)

example : pp 360 6 = 5 ∧ pp (-360) 14 = -45 ∧ pp 7 0 = 1 := by decide

end Givaro.Props.C01X
