/-
C16 (static part) — no hidden state.  `Generated/Footprint.lean` is regenerated on every run from the clang AST of a translation
unit that uses every domain class the way the harnesses do (translate/footprint.py): per instantiated member function of a domain
class, closed under calls, the non-const static storage it touches.  The theorem is a kernel evaluation over that whole table.
-/
import GivaroModel.Generated.Footprint
namespace Givaro.Props.C16
open Givaro.Gen.Footprint

/-- the process-wide state the library documents and the property does not count as hidden: the big-integer random state
    (`Integer::randstate()`, a function-local static of gmp++_int_rand.inl, read and advanced by the random draws) and the reduction
    mode of `Rational` (`Rational::SetReduce()/SetNoReduce()`), which the rational field operations may READ but never write
    (a `write:Rational::flags` entry is not in this list) -/
def documentedStatics : List String := ["local:randstate", "write:randstate", "Rational::flags"]

/-- member functions of domain classes touch no static storage other than the documented one -/
theorem no_hidden_state : ∀ r ∈ rows, ∀ s ∈ r.statics, s ∈ documentedStatics := by decide +kernel

/-- non-vacuity: the table is not empty and the documented exception does occur in it -/
example : rows.length > 100 ∧ (rows.any (fun r => r.statics.contains "local:randstate")) = true := by decide +kernel

end Givaro.Props.C16
