/-
C15 — results do not depend on whether the destination aliases an operand: the ring / field / rational / polynomial interfaces and
RecInt (the gmp++ Integer layer has its own per-overload theorems, Generated/IntegerAliasThms*).

`Generated/AliasTable.lean` is regenerated on every run by translate/aliasfp.py from the clang AST of the translation unit the alias
harness is built from: one entry per (class kind, three-address operation, alias pattern) with the operation's body as an event
program (`Model/AliasProg.lean`), specialised to the pattern.  `all_rows_safe` is a kernel evaluation of the read-after-write
discipline over that whole table; `discipline_sound` (proved in `Lemmas/AliasProgSound.lean` for every program, environment,
interpretation of the primitives, value type, store and fuel) gives the table its meaning; `rings_alias_independent` combines them.

What the statement does NOT cover (see the assumptions of the evidence): an address test `&r == &a` is answered in the distinct-object
run as in the aliased run (that the guarded path through a temporary and the unguarded path agree on distinct objects is not an
aliasing matter; the dynamic tie compares the real calls); primitives (`primNames`) are functions of the values of their inputs;
`assumedRows` are modelled, not analysed.
-/
import GivaroModel.Generated.AliasTable
import GivaroModel.Generated.AliasSafe
import GivaroModel.Lemmas.AliasProgSound
namespace Givaro.Props.C15Rings
open Givaro.Model.AliasProg Givaro.Gen.AliasTable

/-- TABLE THEOREM: every (kind, operation, alias pattern) of the regenerated table passes the read-after-write discipline -/
theorem all_rows_safe : ∀ e ∈ aliasTable, safeEntry e = true := by
  intro e he
  have h := all_chunks_safe
  rw [List.all_eq_true] at h
  obtain ⟨c, hc, hec⟩ := List.mem_flatten.mp he
  have h2 := h c hc
  rw [List.all_eq_true] at h2
  exact h2 e hec

/-- SOUNDNESS of the discipline (every program, environment, interpretation, value type, pair of stores, fuel, renaming): a program
    that passes `safe` started from dirty set `D`, run on distinct objects (`id`) and with the locations identified by `φ`, completes the
    same way, and the stores agree (modulo `φ`) outside the dirty set that `safe` computed for that way of completing -/
theorem discipline_sound {V : Type} (S : Sem V) (φ : Nat → Nat) (conf : Nat → Nat) (hc : ConfSound φ conf) (ha : AlSound φ S.al)
    (fuel : Nat) (p : Prog) (E : Env) (D : Nat) (x : Exits) (σ1 σ2 : Store V)
    (hs : safe conf S.al p E D = some x) (h0 : Agree φ D σ1 σ2) :
    ExitAgree φ x (run S id fuel p E σ1) (run S φ fuel p E σ2) :=
  safe_sound S φ conf hc ha fuel p E D x σ1 σ2 hs h0

/-- COROLLARY: for every entry of the regenerated table, every interpretation of the primitives and conditions, every value type, every
    fuel and every pair of initial stores holding the same operand values (the distinct-object store holds at `l` what the aliased store
    holds at the object `l` is identified with), the call on distinct objects and the aliased call complete the same way and leave the
    same value in every output leaf. -/
theorem rings_alias_independent {V : Type} (e : Entry) (he : e ∈ aliasTable)
    (interp : Nat → List V → Nat → V) (cond : Nat → List V → Bool) (fuel : Nat) (σ1 σ2 : Store V)
    (hinit : ∀ l, e.d0.testBit l = false → σ1 l = σ2 (phiOf e.cls l)) :
    (run ⟨interp, cond, alOf e.cls⟩ id fuel e.prog e.env σ1).2 = (run ⟨interp, cond, alOf e.cls⟩ (phiOf e.cls) fuel e.prog e.env σ2).2 ∧
    (((run ⟨interp, cond, alOf e.cls⟩ id fuel e.prog e.env σ1).2 = Status.norm ∨
      (run ⟨interp, cond, alOf e.cls⟩ id fuel e.prog e.env σ1).2 = Status.ret) →
      ∀ o, e.outs.testBit o = true →
        (run ⟨interp, cond, alOf e.cls⟩ id fuel e.prog e.env σ1).1 o =
          (run ⟨interp, cond, alOf e.cls⟩ (phiOf e.cls) fuel e.prog e.env σ2).1 (phiOf e.cls o)) :=
  entry_sound e (all_rows_safe e he) interp cond fuel σ1 σ2 hinit

/-! ### non-vacuity -/

/-- the table is not empty, and it contains aliased patterns (non-trivial classes) -/
example : aliasTable.length > 1000 ∧ (aliasTable.any (fun e => !e.cls.isEmpty)) = true := by decide +kernel

/-- formals r a x y at locations 0 1 2 3, pattern r ≡ y -/
def axpyEnv : Env := ⟨[0, 1, 2, 3], 4⟩
def ryClasses : Classes := [(0, 0b1001)]

/-- `r := a*x ; r := r + y` -/
def unsafeAxpy : Prog :=
  .seq (.prim 1 [.par 0 0 1] [.par 1 0 1, .par 2 0 1]) (.prim 2 [.par 0 0 1] [.par 0 0 1, .par 3 0 1])
/-- `t := a*x ; r := t + y` -/
def safeAxpy : Prog :=
  .seq (.prim 1 [.loc 0 1] [.par 1 0 1, .par 2 0 1]) (.prim 2 [.par 0 0 1] [.loc 0 1, .par 3 0 1])

example : safe (confOf ryClasses) (alOf ryClasses) safeAxpy axpyEnv 0 = some ⟨true, 0b1000, 0, 0⟩ := by decide +kernel
example : safe (confOf ryClasses) (alOf ryClasses) unsafeAxpy axpyEnv 0 = none := by decide +kernel

/-- the arithmetic interpretation: primitive 1 multiplies, primitive 2 adds -/
def arith : Sem Int :=
  ⟨fun f vs _ => if f = 1 then vs.getD 0 0 * vs.getD 1 0 else vs.getD 0 0 + vs.getD 1 0, fun _ _ => true, alOf ryClasses⟩

/-- a = 2, x = 3, y = 5 (the destination of the distinct call holds 5 too) -/
def st : Store Int := fun l => if l = 1 then 2 else if l = 2 then 3 else 5

/-- the program the discipline rejects is indeed NOT alias independent: 2*3 + 5 = 11 on distinct objects, 12 when r is y -/
theorem unsafe_axpy_not_independent :
    ¬ (∀ (S : Sem Int) (σ1 σ2 : Store Int), (∀ l, σ1 l = σ2 (phiOf ryClasses l)) →
        (run S id 1 unsafeAxpy axpyEnv σ1).1 0 = (run S (phiOf ryClasses) 1 unsafeAxpy axpyEnv σ2).1 (phiOf ryClasses 0)) := by
  intro h
  have hst : ∀ l, st l = st (phiOf ryClasses l) := by
    intro l
    by_cases h3 : l = 3
    · subst h3; decide
    · by_cases h0 : l = 0
      · subst h0; decide
      · have : phiOf ryClasses l = l := by
          have hb : Nat.testBit 9 l = false := by
            match l, h0, h3 with
            | 1, _, _ => decide
            | 2, _, _ => decide
            | (n + 4), _, _ =>
              apply Nat.testBit_lt_two_pow
              calc 9 < 2 ^ 4 := by decide
                _ ≤ 2 ^ (n + 4) := Nat.pow_le_pow_right (by decide) (by omega)
          simp [phiOf, findClass, ryClasses, hb]
        rw [this]
  have h1 := h arith st st hst
  revert h1
  decide

end Givaro.Props.C15Rings
