/-
C19 — text output read back yields the same value.

Every theorem is about `Model/Text.lean`, the executable model of the code as it is (tied to /repo by the
correspondence run of `./check C19`), for *all* values and *all* following text — no bound on the number of
digits, on the length of a sequence or on what follows.

Vocabulary (definitions in Spec/TextSpec.lean, Lemmas/TextLemmas.lean, Lemmas/TextAux.lean):
  `after rest`            stream positioned in front of `rest`, not failed, eofbit exactly when `rest` is empty
  `startsWithDigit rest`  the following text would continue the number (excluded: no format could tell them apart)
  `Canonical (n, d)`      `0 < d` and `gcd n d = 1`: the form in which the library keeps every Rational
  `looksLikeDen rest`     the first non-blank character of `rest` is `/` (excluded after an integer-valued rational)
  `ratAfter d rest`       where the Rational reader leaves the stream: `after rest`, except that after an integer (`d = 1`)
                          followed by blanks the blanks are consumed too (`afterBlanks`) — the known finding
  `sepOk`, `sepOkRat`     admissible separators: non-empty, not starting with a digit (not looking like a denominator)
  `RepOk R rep`           `rep` is a representative the ring prints: `[0,p)`, balanced `[p/2-p+1, p/2]`, any integer for ZRing
  `startsFloatish rest`   `rest` starts with `.`, `e` or `E` (would continue a floating literal; excluded for `operator>>(double&)`)
  `polyWrite x R`         `Poly1Dom::write` on the coefficient vector `R` as stored (`polyNorm` = `setdegree`, `polyShow` = the body)
  `parsePoly x t`         reference parser (Spec/TextSpec.lean) of the infix form for the indeterminate name `x`; the library has none
  `nameOk x`              the name is non-empty and does not start with a digit or `(`
Only property theorems live in this file; helper lemmas are in Lemmas/Text*.lean.
-/
import GivaroModel.Model.Text
import GivaroModel.Spec.TextSpec
import GivaroModel.Lemmas.TextLemmas
import GivaroModel.Lemmas.TextRecInt
import GivaroModel.Lemmas.TextAux
import GivaroModel.Lemmas.TextPoly
namespace Givaro.Props.C19
open Givaro.Model.Text Givaro.Spec.Text Givaro.Lemmas.Text

/-! ### Integer -/

/-- `os << n` then `is >> b`: for every integer `n` (zero, negative, any number of limbs), whatever `b` held and
    whatever follows the number — provided it does not start with a digit — the value read is `n`, the stream has not
    failed and exactly the characters of the number were consumed. -/
theorem int_round_trip (n b : Int) (rest : List Char) (h : startsWithDigit rest = false) :
    intRead b (IStream.ofList (showInt n ++ rest)) = (n, after rest) := by
  simp [intRead, gmpRead_showInt n rest h]

example : intRead 77 (IStream.ofList (showInt (-120) ++ ", 5".toList)) = (-120, after ", 5".toList) :=
  int_round_trip _ _ _ (by decide)

/-- the same in the vocabulary of the checker that the driver applies to the implementation's output -/
theorem int_round_trip_ok (n b : Int) (rest : List Char) (h : startsWithDigit rest = false) :
    let r := intRead b (IStream.ofList (showInt n ++ rest))
    roundTripOk n rest ⟨r.1, r.2.fail, r.2.buf⟩ = true := by
  simp [int_round_trip n b rest h, roundTripOk, after]

example : startsWithDigit "/7".toList = false := by decide

/-- the hypothesis is needed: followed by a digit the number continues (not a defect: no format could do better) -/
theorem int_round_trip_needs_separator :
    ¬ ∀ (n : Int) (rest : List Char), (intRead 0 (IStream.ofList (showInt n ++ rest))).1 = n := by
  intro h
  have := h 1 ['2']
  revert this
  decide

/-! ### sequences of Integers -/

/-- any number of integers written with a separator whose first character is not a digit (`" "`, `"\n"`, `", "`,
    `";"`, …) are read back in sequence — each read leaves the stream exactly in front of the separator, which the
    caller consumes — and the last read ends with eofbit and without failbit. -/
theorem int_sequence_round_trip (sep : List Char) (hsep : sepOk sep = true) (ns : List Int) (hne : ns ≠ []) :
    intReadSeq sep.length ns.length (IStream.ofList (joinSep sep (ns.map showInt))) = (ns, after []) := by
  induction ns with
  | nil => exact absurd rfl hne
  | cons x xs ih =>
    cases xs with
    | nil =>
      have := int_round_trip x 0 [] rfl
      simp only [List.append_nil] at this
      simp [intReadSeq, joinSep, this]
    | cons y ys =>
      have ih' := ih (by simp)
      have h1 := int_round_trip x 0 (sep ++ joinSep sep ((y :: ys).map showInt)) (startsWithDigit_append _ _ hsep)
      simp only [List.map_cons, joinSep, List.length_cons, intReadSeq, List.append_assoc] at h1 ih' ⊢
      rw [h1, after_cons _ _ hsep]
      simp only [Nat.add_eq_zero_iff, Nat.succ_ne_self, and_false, ↓reduceIte, dropSep_append]
      rw [show (⟨joinSep sep (showInt y :: ys.map showInt), false, false⟩ : IStream)
            = IStream.ofList (joinSep sep (showInt y :: ys.map showInt)) from rfl]
      obtain ⟨e1, e2⟩ := Prod.mk.inj ih'
      rw [e1, e2]

example : sepOk ", ".toList = true := by decide

/-! ### Rational -/

/-- `os << q` then `is >> r` for every canonical rational `q = n/d`: negative numerators, integers (printed without
    denominator), end of stream right after the numerator or the denominator, any following text that does not start
    with a digit and — after an integer — does not look like a denominator.  The value read is `q`, the stream has
    not failed, and the stream is left at `ratAfter d rest` (which is `rest` itself unless `d = 1` and `rest` starts
    with a blank: see `rat_exact_consumption` / `rat_exact_consumption_counterexample`). -/
theorem rat_round_trip (n d : Int) (hq : Canonical (n, d)) (rest : List Char) (h : startsWithDigit rest = false)
    (hden : d > 1 ∨ looksLikeDen rest = false) :
    ratRead (IStream.ofList (showRat (n, d) ++ rest)) = (some (n, d), ratAfter d rest) := by
  have hd0 : 0 < d := hq.1
  by_cases hd : d > 1
  · -- "n/d"
    have h1 := int_round_trip n 0 ('/' :: (showInt d ++ rest)) (by show isDigit '/' = false; decide)
    have h2 := int_round_trip d 1 rest h
    have ht : showRat (n, d) ++ rest = showInt n ++ '/' :: (showInt d ++ rest) := by simp [showRat, hd]
    rw [ht]
    simp only [ratRead, ratReadGen, h1, after]
    simp [getc, IStream.good, blanks, blankG_nonblank, ratAfter, hd]
    rw [show (⟨showInt d ++ rest, false, false⟩ : IStream) = IStream.ofList (showInt d ++ rest) from rfl, h2]
    simp [ratMk_canonical n d hq, after]
  · -- integer printed without denominator
    have hd1 : d = 1 := by omega
    subst hd1
    have hl : looksLikeDen rest = false := by rcases hden with h' | h'; exact absurd h' hd; exact h'
    have h1 := int_round_trip n 0 rest h
    have ht : showRat (n, 1) ++ rest = showInt n ++ rest := by simp [showRat]
    rw [ht]
    simp only [ratRead, ratReadGen, h1]
    cases rest with
    | nil => simp [after, IStream.good, ratAfter, ratOfInt]
    | cons r rs =>
      by_cases hr : r = ' '
      · subst hr
        obtain ⟨hb1, hb2⟩ := blankG_blank rs hl
        simp [after, IStream.good, getc, blanks, hb1, hb2, ratAfter, ratMk_canonical n 1 hq]
      · have hsl : r ≠ '/' := by
          intro e; subst e; simp [looksLikeDen, dropBlanks] at hl
        simp [after, IStream.good, getc, blanks, blankG_nonblank r rs hr, hsl, putback, ratAfter, hr,
          ratMk_canonical n 1 hq]

example : Canonical (-3, 7) := by decide

example : Canonical (0, 1) := by decide

/-- the value is reproduced and the stream never fails (in particular not on `"3 "`: the defect repaired by
    fixes/C19_1.patch) -/
theorem rat_round_trip_value (n d : Int) (hq : Canonical (n, d)) (rest : List Char) (h : startsWithDigit rest = false)
    (hden : d > 1 ∨ looksLikeDen rest = false) :
    let r := ratRead (IStream.ofList (showRat (n, d) ++ rest))
    r.1 = some (n, d) ∧ r.2.fail = false := by
  have hfail : ∀ l, (afterBlanks l).fail = false := by
    intro l; induction l with
    | nil => rfl
    | cons c l ih => simp only [afterBlanks]; split <;> simp [ih]
  rw [rat_round_trip n d hq rest h hden]
  refine ⟨rfl, ?_⟩
  simp only [ratAfter]
  split
  · rfl
  · split
    · rfl
    · split
      · exact hfail _
      · rfl

/-- exactly the characters of the number are consumed whenever the denominator is printed, or the following text
    does not start with a blank -/
theorem rat_exact_consumption (n d : Int) (hq : Canonical (n, d)) (rest : List Char) (h : startsWithDigit rest = false)
    (hden : d > 1 ∨ looksLikeDen rest = false) (hb : d > 1 ∨ rest.head? ≠ some ' ') :
    (ratRead (IStream.ofList (showRat (n, d) ++ rest))).2.buf = rest := by
  rw [rat_round_trip n d hq rest h hden]
  simp only [ratAfter]
  split
  · rfl
  · rename_i hd
    have hb' : rest.head? ≠ some ' ' := by rcases hb with h' | h'; exact absurd h' hd; exact h'
    cases rest with
    | nil => rfl
    | cons r rs =>
      have : r ≠ ' ' := by simpa using hb'
      simp [this]

/-- KNOWN FINDING C19-rational-eats-blanks: without that restriction the statement is false — after the integer `3`
    followed by `" x"` the reader has also consumed the blank. -/
theorem rat_exact_consumption_counterexample :
    ¬ ∀ (n d : Int) (rest : List Char), Canonical (n, d) → startsWithDigit rest = false → (d > 1 ∨ looksLikeDen rest = false) →
        (ratRead (IStream.ofList (showRat (n, d) ++ rest))).2.buf = rest := by
  intro hall
  have h1 := hall 3 1 [' ', 'x'] (by decide) (by decide) (Or.inr (by decide))
  rw [rat_round_trip 3 1 (by decide) [' ', 'x'] (by decide) (Or.inr (by decide))] at h1
  revert h1
  decide

/-- record of the defect repaired by fixes/C19_1.patch: the loop of the pinned tree failed the stream on `"3 "` -/
theorem ratReadOld_fails_on_trailing_blank :
    (ratReadOld (IStream.ofList (showRat (3, 1) ++ [' ']))).2.fail = true := by decide

/-! ### RecInt -/

/-- `display_dec` (after fixes/C19_2.patch: no 1024-digit buffer) prints the decimal representation of every value -/
theorem ruShow_eq (a : Nat) : ruShow a = decDigits a := by
  by_cases h : a = 0
  · subst h; decide
  · simp only [ruShow, ruShowGen, h, ↓reduceIte, Bool.false_eq_true, List.nil_append]
    exact ruLoop_decDigits (a + 1) a (by omega) (lt_ten_pow_succ a)

/-- the pinned code was right exactly below 10^1024, i.e. for every `ruint<K>` with K ≤ 11 -/
theorem ruShow_pinned_eq (a : Nat) (h : a < 10 ^ 1024) : ruShowGen true a = decDigits a := by
  by_cases h0 : a = 0
  · subst h0; decide
  · simp only [ruShowGen, h0, ↓reduceIte, List.nil_append]
    exact ruLoop_decDigits 1024 a (by omega) h

/-- `os << a` then `is >> b` for `ruint<K>`, every K ≥ 6 and every value of the type (display_dec after
    fixes/C19_2.patch; K = 6 is the native `uint64_t` printer) -/
theorem recint_round_trip (K : Nat) (hK : 6 ≤ K) (a : Nat) (ha : a < 2 ^ 2 ^ K) (rest : List Char)
    (h : startsWithDigit rest = false) :
    ruintRead K (IStream.ofList (ruintShow K a ++ rest)) = (a, after rest) := by
  have hs : ruintShow K a = showInt (a : Int) := by
    rw [showInt_natCast]; simp only [ruintShow, ruintShowGen]; split
    · rfl
    · exact ruShow_eq a
  simp [ruintRead, hs, int_round_trip (a : Int) 0 rest h, mpzToRuint_nat K hK a ha]

example : (77 : Nat) < 2 ^ 2 ^ 6 := by decide

/-- the pinned `display_dec` (1024-character buffer) already satisfied it for K ≤ 11 … -/
theorem recint_round_trip_pinned_le11 (K : Nat) (hK : 6 ≤ K) (hK' : K ≤ 11) (a : Nat) (ha : a < 2 ^ 2 ^ K) (rest : List Char)
    (h : startsWithDigit rest = false) :
    ruintRead K (IStream.ofList (ruintShowGen true K a ++ rest)) = (a, after rest) := by
  have hlt : a < 10 ^ 1024 := by
    have h1 : 2 ^ K ≤ 2 ^ 11 := Nat.pow_le_pow_right (by decide) hK'
    have h2 : 2 ^ 2 ^ K ≤ 2 ^ 2 ^ 11 := Nat.pow_le_pow_right (by decide) h1
    have h3 : (2 : Nat) ^ 2 ^ 11 < 10 ^ 1024 := by decide +kernel
    omega
  have hs : ruintShowGen true K a = showInt (a : Int) := by
    rw [showInt_natCast]; simp only [ruintShowGen]; split
    · rfl
    · exact ruShow_pinned_eq a hlt
  simp [ruintRead, hs, int_round_trip (a : Int) 0 rest h, mpzToRuint_nat K hK a ha]

/-- … and failed at K = 12: 10^1024 was printed as 1024 zeros (the defect repaired by fixes/C19_2.patch) -/
theorem recint_pinned_counterexample :
    (ruintRead 12 (IStream.ofList (ruintShowGen true 12 (10 ^ 1024)))).1 ≠ 10 ^ 1024 := by decide +kernel

/-- `rint<K>`: every value of the type, `-2^(2^K-1)` included -/
theorem recint_signed_round_trip (K : Nat) (hK : 6 ≤ K) (a : Int) (hlo : -(2 ^ (2 ^ K - 1) : Nat) ≤ a)
    (hhi : a < (2 ^ (2 ^ K - 1) : Nat)) (rest : List Char) (h : startsWithDigit rest = false) :
    rintRead K (IStream.ofList (rintShow K a ++ rest)) = (a, after rest) := by
  -- N = 2^(2^K) = 2H, H = 2^(2^K-1)
  have hpos : 0 < 2 ^ K := Nat.pow_pos (by decide)
  have hN : 2 ^ 2 ^ K = 2 * 2 ^ (2 ^ K - 1) := by
    rw [← Nat.pow_succ']; congr 1; omega
  generalize hH : 2 ^ (2 ^ K - 1) = H at hlo hhi hN
  have hshow : ∀ x, ruShowGen false x = decDigits x := ruShow_eq
  by_cases hn : a < 0
  · obtain ⟨m, rfl⟩ : ∃ m : Nat, a = -(m : Int) := ⟨a.natAbs, by omega⟩
    have hm0 : 0 < m := by omega
    have hmH : m ≤ H := by omega
    have hpat : toPattern K (m : Int) = m := by
      simp only [toPattern, hN]
      rw [Int.emod_eq_of_lt (by omega) (by push_cast; omega)]
      omega
    have hs : rintShow K (-(m : Int)) = showInt (-(m : Int)) := by
      simp [rintShow, rintShowGen, hm0, hpat, showInt, hshow]
    have hru : mpzToRuint K (m : Int) = m := mpzToRuint_nat K hK m (by rw [hN]; omega)
    have hp2 : toPattern K (-(m : Int)) = 2 * H - m := by
      simp only [toPattern, hN]
      have : (-(m : Int)) % ((2 * H : Nat) : Int) = ((2 * H - m : Nat) : Int) := by
        rw [← Int.add_mul_emod_self_left _ ((2 * H : Nat) : Int) 1]
        rw [Int.emod_eq_of_lt (by push_cast; omega) (by push_cast; omega)]
        push_cast; omega
      rw [this]; omega
    simp only [rintRead, hs, int_round_trip (-(m : Int)) 0 rest h, mpzToRint, hn, ↓reduceIte, Int.neg_neg, hru, hp2, toSigned, hH, hN]
    have : ¬ (2 * H - m < H) := by omega
    simp only [this, ↓reduceIte]
    congr 1; push_cast; omega
  · obtain ⟨m, rfl⟩ : ∃ m : Nat, a = (m : Int) := ⟨a.natAbs, by omega⟩
    have hmH : m < H := by omega
    have hpat : toPattern K (m : Int) = m := by
      simp only [toPattern, hN]
      rw [Int.emod_eq_of_lt (by omega) (by push_cast; omega)]
      omega
    have hs : rintShow K (m : Int) = showInt (m : Int) := by
      simp [rintShow, rintShowGen, hn, hpat, showInt, hshow]
    have hru : mpzToRuint K (m : Int) = m := mpzToRuint_nat K hK m (by rw [hN]; omega)
    simp only [rintRead, hs, int_round_trip (m : Int) 0 rest h, mpzToRint, hn, ↓reduceIte, hru, toSigned, hH]
    simp only [hmH, ↓reduceIte]

/-! ### ring elements -/

/-- rings that read through `Integer` (all `Modular<T>`, Montgomery, Modular<Log16>, ZRing): every element, any
    following text that does not start with a digit -/
theorem element_round_trip_gmp (R : RingIO) (hR : R.reader = .gmp) (rep : Int) (hrep : RepOk R rep)
    (hex : R.exact = 0 ∨ rep.natAbs ≤ 2 ^ R.exact) (rest : List Char) (h : startsWithDigit rest = false) :
    elemRead R (IStream.ofList (elemShow rep ++ rest)) = some (rep, after rest) := by
  have hx : ¬ (R.exact ≠ 0 ∧ rep.natAbs > 2 ^ R.exact) := by omega
  simp [elemRead, hR, elemShow, int_round_trip rep 0 rest h, initNorm_rep R rep hrep, hx]

example : RepOk ⟨.gmp, false, 101, 0, 0⟩ 100 := Or.inr ⟨by decide, by decide⟩

/-! native readers -/

/-- rings that read through a native signed integer (`ModularBalanced<int32_t|int64_t>`, `ModularExtended`, `GFqDom`):
    every element whose representative fits the reader's type (and, for floating storage, its exact range) -/
theorem element_round_trip_sint (R : RingIO) (w : Nat) (hw : 0 < w) (hR : R.reader = .sint w) (rep : Int) (hrep : RepOk R rep)
    (hlo : -(2 ^ (w - 1) : Int) ≤ rep) (hhi : rep < 2 ^ (w - 1)) (hex : R.exact = 0 ∨ rep.natAbs ≤ 2 ^ R.exact)
    (rest : List Char) (h : startsWithDigit rest = false) :
    elemRead R (IStream.ofList (elemShow rep ++ rest)) = some (rep, after rest) := by
  have hx : ¬ (R.exact ≠ 0 ∧ rep.natAbs > 2 ^ R.exact) := by omega
  simp [elemRead, hR, elemShow, nativeRead_showInt w hw rep R.uninit hlo hhi rest h, initNorm_rep R rep hrep, hx]

example : RepOk ⟨.sint 32, true, 101, 0, 0⟩ (-50) := Or.inr ⟨by decide, by decide⟩

/-- `ModularBalanced<float|double>` (writer since fixes/C19_3.patch prints the representative as an integer) -/
theorem element_round_trip_flt (R : RingIO) (m : Nat) (hR : R.reader = .flt m) (rep : Int) (hrep : RepOk R rep)
    (hm : rep.natAbs ≤ 2 ^ m) (rest : List Char) (h : startsWithDigit rest = false) (hf : startsFloatish rest = false) :
    elemRead R (IStream.ofList (elemShow rep ++ rest)) = some (rep, after rest) := by
  obtain ⟨hne, hall, hval⟩ := decDigits_spec rep.natAbs
  cases hd : decDigits rep.natAbs with
  | nil => exact absurd hd hne
  | cons d0 ds =>
    have h0 : isDigit d0 = true := by rw [hd] at hall; exact hall d0 (by simp)
    obtain ⟨hsp, hmi, hp, _, _⟩ := isDigit_facts d0 h0
    have htw := takeWhile_digits (d0 :: ds) rest (by rw [← hd]; exact hall) h
    have hval' : valOf 0 (d0 :: ds) = rep.natAbs := by rw [← hd, hval]
    have hgt : ¬ (rep.natAbs > 2 ^ m) := by omega
    have hin := initNorm_rep R rep hrep
    by_cases hn : rep < 0
    · have ht : elemShow rep ++ rest = '-' :: (d0 :: ds ++ rest) := by simp [elemShow, showInt, hn, hd]
      have hsm : isSpace '-' = false := by decide
      have hv : -(rep.natAbs : Int) = rep := by omega
      rw [ht]
      simp only [elemRead, hR, floatRead, sentryWs, IStream.ofList, IStream.good, Bool.not_false, Bool.and_self, ↓reduceIte,
        List.dropWhile, hsm, List.head?_cons, Bool.true_or, decide_true, List.drop_succ_cons, List.drop_zero,
        htw.1, htw.2, digitsValue_eq, hval', Bool.not_true, Bool.false_eq_true]
      cases rest with
      | nil => simp [hgt, hv, hin, after]
      | cons r rs =>
        have : ¬ (r = '.' ∨ r = 'e' ∨ r = 'E') := by
          simp [startsFloatish] at hf; rintro (e | e | e) <;> simp_all
        simp [this, hgt, hv, hin, after]
    · have ht : elemShow rep ++ rest = d0 :: ds ++ rest := by simp [elemShow, showInt, hn, hd]
      have hm' : ¬ (some d0 = some '-') := by simpa using hmi
      have hp' : ¬ (some d0 = some '+') := by simpa using hp
      have htw1 : (d0 :: (ds ++ rest)).takeWhile isDigit = d0 :: ds := by simpa using htw.1
      have htw2 : (d0 :: (ds ++ rest)).dropWhile isDigit = rest := by simpa using htw.2
      have hv : (rep.natAbs : Int) = rep := by omega
      rw [ht]
      simp only [elemRead, hR, floatRead, sentryWs, IStream.ofList, IStream.good, Bool.not_false, Bool.and_self, ↓reduceIte,
        List.cons_append, List.dropWhile, hsp, List.head?_cons, hm', hp', decide_false, Bool.or_self,
        Bool.false_eq_true, htw1, htw2, digitsValue_eq, hval', Bool.not_true]
      cases rest with
      | nil => simp [hgt, hv, hin, after]
      | cons r rs =>
        have : ¬ (r = '.' ∨ r = 'e' ∨ r = 'E') := by
          simp [startsFloatish] at hf; rintro (e | e | e) <;> simp_all
        simp [this, hgt, hv, hin, after]

/-! ### strings -/

/-- `mpz_set_str` accepts the printed form of every integer and returns it -/
theorem mpzSetStr_showInt (n : Int) : mpzSetStr (showInt n) = some n := by
  obtain ⟨hne, hall, hval⟩ := decDigits_spec n.natAbs
  cases hd : decDigits n.natAbs with
  | nil => exact absurd hd hne
  | cons d0 ds =>
    rw [hd] at hall hval
    have h0 : isDigit d0 = true := hall d0 (by simp)
    obtain ⟨hsp, hm, _, _, _⟩ := isDigit_facts d0 h0
    have hf := filter_digits (d0 :: ds) hall
    have hall' : (d0 :: ds).all isDigit = true := by simpa [AllDigits] using hall
    have hv : List.foldl (fun acc c => acc * 10 + digitVal c) 0 (d0 :: ds) = n.natAbs := hval
    by_cases hn : n < 0
    · have hsm : isSpace '-' = false := by decide
      have : showInt n = '-' :: d0 :: ds := by simp [showInt, hn, hd]
      rw [this]
      simp only [mpzSetStr, List.dropWhile, hsm, List.head?_cons, decide_true, ↓reduceIte, List.drop_succ_cons,
        List.drop_zero, h0, Bool.not_true, Bool.false_eq_true, hf, hall', hv]
      simp; omega
    · have : showInt n = d0 :: ds := by simp [showInt, hn, hd]
      have hm' : ¬ (some d0 = some '-') := by simpa using hm
      rw [this]
      simp only [mpzSetStr, List.dropWhile, hsp, List.head?_cons, hm', decide_false, Bool.false_eq_true, ↓reduceIte,
        h0, Bool.not_true, hf, hall', hv]
      simp; omega

/-- `Integer(std::string(n).c_str()) == n` for every integer -/
theorem int_string_round_trip (n : Int) : intOfString (intToString n) = n := by
  simp [intOfString, intToString, mpzSetStr_showInt]

/-- `Rational(const char*)` on the printed form of every canonical rational -/
theorem rat_string_round_trip (n d : Int) (hq : Canonical (n, d)) : ratOfString (showRat (n, d)) = some (n, d) := by
  have := rat_round_trip n d hq [] rfl (Or.inr rfl)
  simp only [List.append_nil] at this
  simp [ratOfString, this]

/-! ### polynomials (KNOWN FINDING C19-poly-format) -/

/-- the full statement — what is written is read back — is false: `X + 1` over Z/101 is written `1 + X`; the reader
    takes `1` for the degree, finds no coefficient and fails -/
theorem poly_round_trip_counterexample :
    ¬ ∀ (R : RingIO) (x : List Char) (P : List Int), polyNorm P = P → (∀ c ∈ P, RepOk R c) →
        ∃ s, polyRead R (IStream.ofList (polyShow x P)) = some (P, s) ∧ s.fail = false := by
  intro hall
  obtain ⟨s, hs, _⟩ := hall ⟨.gmp, false, 101, 0, 0⟩ ['X'] [1, 1] (by decide)
    (by intro c hc; simp at hc; subst hc; exact Or.inr ⟨by decide, by decide⟩)
  revert hs
  simp only [show polyRead ⟨.gmp, false, 101, 0, 0⟩ (IStream.ofList (polyShow ['X'] [1, 1]))
      = some ([0, 0], ⟨" X".toList, true, false⟩) from by decide]
  intro hs
  have h2 : ([0, 0] : List Int) = [1, 1] := congrArg Prod.fst (Option.some.inj hs)
  exact absurd h2 (by decide)

/-- why: whenever the constant coefficient is neither 0 nor 1 the written form starts with `(`, on which the
    reader's `i >> deg` fails — for every domain, indeterminate name and every other coefficient -/
theorem poly_read_rejects_written_form (R : RingIO) (x : List Char) (c0 : Int) (cs : List Int) (h0 : c0 ≠ 0) (h1 : c0 ≠ 1) :
    ∀ r, polyRead R (IStream.ofList (polyShow x (c0 :: cs))) = some r → r.2.fail = true := by
  intro r hr
  have hshow : ∃ l, polyShow x (c0 :: cs) = '(' :: l :=
    ⟨elemShow c0 ++ ')' :: polyTail x cs c0 1, by simp [polyShow, h0, h1]⟩
  obtain ⟨l, hl⟩ := hshow
  have hsp : isSpace '(' = false := by decide
  have hdg : isDigit '(' = false := by decide
  have hd : nativeRead true 64 R.uninit (IStream.ofList ('(' :: l)) = (0, ⟨'(' :: l, true, false⟩) := by
    simp [nativeRead, sentryWs, IStream.ofList, IStream.good, List.dropWhile, hsp, numGetInt, List.takeWhile, hdg]
  rw [hl] at hr
  simp only [polyRead, hd] at hr
  -- one coefficient is read from the failed stream: it stays failed
  have hfail : ∀ s : IStream, s.fail = true → ∀ q, elemRead R s = some q → q.2.fail = true := by
    intro s hs q hq
    cases hrd : R.reader with
    | gmp =>
      simp only [elemRead, hrd] at hq
      split at hq
      · exact absurd hq (by simp)
      simp only [Option.some.injEq] at hq
      subst hq
      have hz : isDigit (Char.ofNat 0) = false := by decide
      have hzs : isSpace (Char.ofNat 0) = false := by decide
      have hzm : Char.ofNat 0 ≠ '-' := by decide
      have hzp : Char.ofNat 0 ≠ '+' := by decide
      simp [intRead, gmpRead, getc, IStream.good, hs, IStream.setFail, skipWs, digits, putback, hz, hzs, hzm, hzp]
    | sint w =>
      simp only [elemRead, hrd] at hq
      split at hq
      · exact absurd hq (by simp)
      · simp only [Option.some.injEq] at hq
        subst hq
        simp [nativeRead, sentryWs, IStream.good, hs, IStream.setFail]
    | flt m =>
      simp [elemRead, hrd, floatRead, sentryWs, IStream.good, hs] at hq
  simp only [Int.toNat_zero, Nat.zero_add, polyReadCoeffs, show ¬ ((0 : Int) < 0) by decide, ↓reduceIte] at hr
  cases he : elemRead R ⟨'(' :: l, true, false⟩ with
  | none => simp [he] at hr
  | some q =>
    have := hfail _ rfl q he
    simp [he] at hr
    subst hr
    simpa using this

/-! ### sequences of Rationals -/

/-- any number of canonical rationals — integers printed without denominator among them — written with a separator
    that does not start with a digit and does not look like a denominator are read back in sequence; between two
    reads the caller consumes the separator, tolerating the blanks that the reader has already eaten (known finding
    C19-rational-eats-blanks); the last read ends with eofbit, without failbit. -/
theorem rat_sequence_round_trip (sep : List Char) (hsep : sepOkRat sep = true) (qs : List (Int × Int))
    (hq : ∀ q ∈ qs, Canonical q) (hne : qs ≠ []) :
    ratReadSeq false sep qs.length (IStream.ofList (joinSep sep (qs.map showRat))) = (qs.map some, after []) := by
  have hsep' : sepOk sep = true := by
    simp only [sepOkRat, Bool.and_eq_true] at hsep; exact hsep.1
  induction qs with
  | nil => exact absurd rfl hne
  | cons x xs ih =>
    obtain ⟨n, d⟩ := x
    have hx : Canonical (n, d) := hq (n, d) (by simp)
    cases xs with
    | nil =>
      have := rat_round_trip n d hx [] rfl (Or.inr rfl)
      simp only [List.append_nil] at this
      have hra : ratAfter d [] = after [] := by simp only [ratAfter]; split <;> rfl
      simp [ratReadSeq, joinSep, ratRead] at this ⊢
      simp [this, hra]
    | cons y ys =>
      have ih' := ih (fun q hq' => hq q (by simp [hq'])) (by simp)
      obtain ⟨j0, jl, hJ, hj0⟩ := joinSep_head sep y ys
      have hjn := head_not_special j0 hj0
      have hsd : startsWithDigit (sep ++ joinSep sep ((y :: ys).map showRat)) = false := startsWithDigit_append _ _ hsep'
      have hlk : looksLikeDen (sep ++ joinSep sep ((y :: ys).map showRat)) = false := by
        rw [hJ]; exact looksLikeDen_sep sep j0 jl hsep hjn
      have h1 := rat_round_trip n d hx (sep ++ joinSep sep ((y :: ys).map showRat)) hsd (Or.inr hlk)
      -- the separator is consumed, whatever the reader left of it
      have hdrop : dropSepTol sep (ratAfter d (sep ++ joinSep sep ((y :: ys).map showRat)))
          = IStream.ofList (joinSep sep ((y :: ys).map showRat)) := by
        simp only [ratAfter]
        split
        · rw [after_cons _ _ hsep']; exact dropSepTol_exact _ _
        · cases hs : sep with
          | nil => simp [hs, sepOk] at hsep'
          | cons c cs =>
            simp only [List.cons_append]
            split
            · rename_i hc
              subst hc
              rw [hs] at hJ; rw [hJ]; exact dropSepTol_eaten cs j0 jl hjn.1
            · exact dropSepTol_exact (c :: cs) _
      simp only [List.map_cons, joinSep, List.length_cons, ratReadSeq, List.append_assoc, ratRead] at h1 ih' hdrop ⊢
      rw [h1]
      simp only [Nat.add_eq_zero_iff, Nat.succ_ne_self, and_false, ↓reduceIte, hdrop]
      obtain ⟨e1, e2⟩ := Prod.mk.inj ih'
      rw [e1, e2]

example : sepOkRat " ; ".toList = true := by decide

/-! ### polynomials: the write half (well-formed, determined by the value, injective on values) -/

/-- `Poly1Dom::write` prints the degree-normalised copy: the text is the body applied to `setdegree` of the stored vector
    (`0` for the empty vector and for every all-zero vector) -/
theorem poly_write_eq (x : List Char) (R : List Int) : polyWrite x R = polyShow x (polyNorm R) := by
  cases R with
  | nil => rfl
  | cons c cs =>
    simp only [polyWrite]
    split
    · rename_i h; rw [h]; rfl
    · rename_i c0 cs0 h; rw [h]

/-- the written text is a function of the *normalised* polynomial only: trailing zero coefficients of the stored vector
    (a vector filled by hand, the result of the library's own `read` of `2 101 1 1` over Z/101, …) never show -/
theorem poly_write_normalised (x : List Char) (R : List Int) : polyWrite x R = polyWrite x (polyNorm R) := by
  rw [poly_write_eq, poly_write_eq, polyNorm_idem]

/-- … and it is well-formed: for every stored coefficient vector (any integers: all rings' representatives, any length,
    any number of trailing zeros) and every indeterminate name not starting with a digit or `(`, the reference parser of
    the infix form reads the written text back to exactly the normalised polynomial -/
theorem poly_write_parse (x : List Char) (hx : nameOk x = true) (R : List Int) :
    parsePoly x (polyWrite x R) = some (polyNorm R) := by
  rw [poly_write_eq]
  exact parsePoly_polyShow x hx (polyNorm R) (polyNorm_Norm R)

example : nameOk "Y1".toList = true := by decide

/-- hence `write` is injective on values: equal texts come from equal polynomials -/
theorem poly_write_injective (x : List Char) (hx : nameOk x = true) (P Q : List Int)
    (h : polyWrite x P = polyWrite x Q) : polyNorm P = polyNorm Q := by
  have hp := poly_write_parse x hx P
  rw [h, poly_write_parse x hx Q] at hp
  exact (Option.some.inj hp).symm

/-- the restriction on the name is needed: with the indeterminate called `1`, the polynomials `1` and `X` are written alike -/
theorem poly_write_name_hypothesis_needed :
    ¬ ∀ (x : List Char) (P Q : List Int), x ≠ [] → polyWrite x P = polyWrite x Q → polyNorm P = polyNorm Q := by
  intro h
  have := h ['1'] [1] [0, 1] (by simp) (by decide)
  revert this
  decide

/-! ### RecInt string constructors -/

/-- `ruint<K>(s)` on the printed form of every value of the type -/
theorem recint_string_round_trip (K : Nat) (hK : 6 ≤ K) (a : Nat) (ha : a < 2 ^ 2 ^ K) :
    ruintOfString K (ruintShow K a) = some a := by
  have hs : ruintShow K a = showInt (a : Int) := by
    rw [showInt_natCast]; simp only [ruintShow, ruintShowGen]; split
    · rfl
    · exact ruShow_eq a
  simp [ruintOfString, mpzClassOfString, hs, mpzSetStr_showInt, mpzToRuint_nat K hK a ha]

/-- `rint<K>(s)` on the printed form of every value of the type, negative ones and `-2^(2^K-1)` included
    (holds since /repo 52dbea7: `mpz_to_ruint` stores a negative number as its two's complement) -/
theorem recint_signed_string_round_trip (K : Nat) (hK : 6 ≤ K) (a : Int) (hlo : -(2 ^ (2 ^ K - 1) : Nat) ≤ a)
    (hhi : a < (2 ^ (2 ^ K - 1) : Nat)) :
    rintOfString K (rintShow K a) = some a := by
  have hpos : 0 < 2 ^ K := Nat.pow_pos (by decide)
  have hN : 2 ^ 2 ^ K = 2 * 2 ^ (2 ^ K - 1) := by
    rw [← Nat.pow_succ']; congr 1; omega
  -- the printed form is the decimal form (read off the stream round trip)
  have hs : rintShow K a = showInt a := by
    have hshow : ∀ x, ruShowGen false x = decDigits x := ruShow_eq
    generalize hH : 2 ^ (2 ^ K - 1) = H at hlo hhi hN
    by_cases hn : a < 0
    · obtain ⟨m, rfl⟩ : ∃ m : Nat, a = -(m : Int) := ⟨a.natAbs, by omega⟩
      have hm0 : 0 < m := by omega
      have hpat : toPattern K (m : Int) = m := by
        simp only [toPattern, hN]
        rw [Int.emod_eq_of_lt (by omega) (by push_cast; omega)]
        omega
      simp [rintShow, rintShowGen, hm0, hpat, showInt, hshow]
    · obtain ⟨m, rfl⟩ : ∃ m : Nat, a = (m : Int) := ⟨a.natAbs, by omega⟩
      have hpat : toPattern K (m : Int) = m := by
        simp only [toPattern, hN]
        rw [Int.emod_eq_of_lt (by omega) (by push_cast; omega)]
        omega
      simp [rintShow, rintShowGen, hn, hpat, showInt, hshow]
  have hmod := mpzToRuint_int K hK a
  simp only [rintOfString, ruintOfString, mpzClassOfString, hs, mpzSetStr_showInt, Option.map_some, toSigned]
  generalize hH : 2 ^ (2 ^ K - 1) = H at hlo hhi hN
  rw [hN] at hmod ⊢
  by_cases hn : a < 0
  · have e : a % ((2 * H : Nat) : Int) = a + ((2 * H : Nat) : Int) := by
      rw [← Int.add_mul_emod_self_left a ((2 * H : Nat) : Int) 1, Int.mul_one]
      exact Int.emod_eq_of_lt (by push_cast; omega) (by push_cast; omega)
    rw [e] at hmod
    have : ¬ (mpzToRuint K a < H) := by push_cast at hmod; omega
    simp only [this, ↓reduceIte]
    congr 1; push_cast at hmod ⊢; omega
  · have e : a % ((2 * H : Nat) : Int) = a := Int.emod_eq_of_lt (by omega) (by push_cast; omega)
    rw [e] at hmod
    have : mpzToRuint K a < H := by omega
    simp only [this, ↓reduceIte]
    congr 1

end Givaro.Props.C19
