/-
C12 (round 4) — the sieve variant `IntFactorDom::Erathostene(Lf, p)` (givintfactor.inl; model: Model/PrimesErat.lean, the marking loop,
the divisibility test "the last multiple marked is n", the walk over the unmarked odd numbers, transcribed loop by loop).
For EVERY p (no bound on its size in the model; the C++ counters are `int`, so the model is the code for n + 2√n < 2^31, and the
documentation says "valid for p < BOUNDARY_factor"): the list pushed is exactly the set of primes dividing n = |p| mod 2^64, in
strictly increasing order.
-/
import GivaroModel.Lemmas.PrimesErat
import Mathlib.Data.Nat.PrimeFin
namespace Givaro.Props.C12Erat
open Givaro Givaro.Model.Primes Givaro.Lemmas.Primes

/-- **the sieve returns exactly the prime divisors, increasing** (n = `(uint64_t)p` ≠ 0) -/
theorem erathostene_exact (p : Int) (h0 : p.natAbs % 18446744073709551616 ≠ 0) :
    (∀ q, q ∈ erathostene p ↔ Nat.Prime q ∧ q ∣ p.natAbs % 18446744073709551616) ∧ (erathostene p).Pairwise (· < ·) :=
  erathostene_spec p h0
example : (360 : Int).natAbs % 18446744073709551616 ≠ 0 := by decide

/-- for an argument that fits `uint64_t`: the primes dividing p itself -/
theorem erathostene_exact_word (p : Int) (h0 : p ≠ 0) (hw : p.natAbs < 18446744073709551616) :
    ∀ q, q ∈ erathostene p ↔ Nat.Prime q ∧ (q : Int) ∣ p := by
  intro q
  have hm : p.natAbs % 18446744073709551616 = p.natAbs := Nat.mod_eq_of_lt hw
  have h1 := (erathostene_spec p (by rw [hm]; omega)).1 q
  rw [hm] at h1
  rw [h1, Int.natCast_dvd]
example : (-360 : Int) ≠ 0 ∧ (-360 : Int).natAbs < 18446744073709551616 := ⟨by decide, by decide⟩

/-- no prime twice -/
theorem erathostene_nodup (p : Int) (h0 : p.natAbs % 18446744073709551616 ≠ 0) : (erathostene p).Nodup := by
  have := (erathostene_spec p h0).2
  exact this.imp (fun h => Nat.ne_of_lt h)
example : (7 : Int).natAbs % 18446744073709551616 ≠ 0 := by decide

/-- as a set: Mathlib's `Nat.primeFactors` -/
theorem erathostene_eq_primeFactors (p : Int) (h0 : p.natAbs % 18446744073709551616 ≠ 0) :
    (erathostene p).toFinset = (p.natAbs % 18446744073709551616).primeFactors := by
  ext q
  rw [List.mem_toFinset, (erathostene_spec p h0).1 q, Nat.mem_primeFactors]
  constructor
  · rintro ⟨a, b⟩; exact ⟨a, b, h0⟩
  · rintro ⟨a, b, _⟩; exact ⟨a, b⟩
example : (1 : Int).natAbs % 18446744073709551616 ≠ 0 := by decide

/-- `if (n == 0) return;` — nothing is pushed for 0 (and for the multiples of 2^64, which `(uint64_t)p` maps to 0) -/
theorem erathostene_zero (p : Int) (h0 : p.natAbs % 18446744073709551616 = 0) : erathostene p = [] := by
  unfold erathostene
  simp [h0]
example : (0 : Int).natAbs % 18446744073709551616 = 0 := by decide

end Givaro.Props.C12Erat
