/-
C12 — primality tests and integer factorisation return correct, complete answers.

Theorems about the model `Model/Primes.lean` of givintprime.{h,C}, givintfactor.{h,inl}, gmp++_int_misc.C (the model
mirrors the repaired code, fixes/C12_1 … C12_5; the `_unfixed` definitions keep the code as it was, for the counterexamples).
The tables the theorems speak about (`ipAt`, `ip2At`, …) are re-extracted from the working tree on every run.
`mpz_probab_prime_p` (n ≥ 2^16) and Pollard/Lenstra are oracles: the theorems hold for every oracle satisfying the stated
contract; the correspondence certifies each answer of the real code.
-/
import GivaroModel.Lemmas.PrimesLemmas
import GivaroModel.Lemmas.PrimesTabAll
import GivaroModel.Lemmas.PrimesPower
import GivaroModel.Lemmas.PrimesDivisors
import GivaroModel.Lemmas.PrimesFactor
import GivaroModel.Lemmas.PrimesFermat
import GivaroModel.Lemmas.Primes16All
import GivaroModel.Lemmas.PrimesContainers
namespace Givaro.Props.C12
open Givaro Givaro.Model.Primes Givaro.Spec.Primes Givaro.Lemmas.Primes Givaro.Lemmas.PrimesTab

/-! ## Primality -/

/-- the reference test (trial division) decides primality -/
theorem isPrimeDec_iff (n : Nat) : isPrimeDec n = true ↔ Nat.Prime n := isPrimeDec_iff_prime n

/-- **Tier A.** `isprime(n)` for every n of the tabulated range: the hand-rolled search over `IP` / `IP2` (padding entries
    included, table as it is in the source now) returns 1 exactly for the primes and 0 otherwise, whatever the oracle.
    (2^16 kernel evaluations, Lemmas/PrimesTab/B00 … B15.) -/
theorem isprime_table_correct (oracle : Int → Int) (n : Nat) (h : n < 65536) :
    isprime oracle (n : Int) = some (if Nat.Prime n then 1 else 0) := by
  have h1 := tabOK_all n h
  unfold tabOK at h1
  have h2 : isprime oracle (n : Int) = isprime (fun _ => 0) (n : Int) := by
    unfold isprime
    have : (n : Int) < ((BOUNDARY_2_isprime : Nat) : Int) := by
      have : BOUNDARY_2_isprime = 65536 := rfl
      omega
    simp only [this, ↓reduceIte]
  rw [h2, eq_of_beq h1]
  by_cases hp : Nat.Prime n
  · simp [hp, (isPrimeDec_iff n).2 hp]
  · have : isPrimeDec n = false := by
      rcases hb : isPrimeDec n with _ | _
      · rfl
      · exact absurd ((isPrimeDec_iff n).1 hb) hp
    simp [hp, this]

/-- contract of `mpz_probab_prime_p` assumed above the tables: 0 for composites, 1 or 2 for primes -/
def OracleOK (oracle : Int → Int) : Prop :=
  ∀ n : Int, 65536 ≤ n → (oracle n = 0 ∧ ¬ Nat.Prime n.toNat) ∨ ((oracle n = 1 ∨ oracle n = 2) ∧ Nat.Prime n.toNat)

/-- **Tier A.** the three-way dispatch of `isprime` answers the primality question for *every* integer (negative ones
    included), for every oracle meeting the GMP contract -/
theorem isprime_correct (oracle : Int → Int) (hor : OracleOK oracle) (n : Int) :
    ispB oracle n = true ↔ Nat.Prime n.toNat := by
  unfold ispB
  by_cases h2 : n < 2
  · have : isprime oracle n = some 0 := by unfold isprime; simp [h2]
    rw [this]
    have := not_prime_le_one n (by omega)
    simp [this]
  · by_cases h3 : n < 65536
    · have hn : n = ((n.toNat : Nat) : Int) := by omega
      have := isprime_table_correct oracle n.toNat (by omega)
      rw [← hn] at this
      rw [this]
      by_cases hp : Nat.Prime n.toNat <;> simp [hp]
    · have : isprime oracle n = some (wrapS32 (oracle n)) := by
        unfold isprime
        have a : ¬ n < ((BOUNDARY_isprime : Nat) : Int) := by
          have : BOUNDARY_isprime = 32768 := rfl
          omega
        have b : ¬ n < ((BOUNDARY_2_isprime : Nat) : Int) := by
          have : BOUNDARY_2_isprime = 65536 := rfl
          omega
        simp only [h2, a, b, ↓reduceIte]
      rw [this]
      rcases hor n (by omega) with ⟨h0, hp⟩ | ⟨h12, hp⟩
      · rw [h0]; simp [hp, wrapS32]
      · rcases h12 with h | h <;> rw [h] <;> simp [hp, wrapS32]

/-- **Tier A.** no argument makes `isprime` read outside `IP` / `IP2` (`none` is the model's out-of-bounds read) -/
theorem search_in_bounds (oracle : Int → Int) (n : Int) : (isprime oracle n).isSome = true := by
  by_cases h2 : n < 2
  · unfold isprime; simp [h2]
  · by_cases h3 : n < 65536
    · have hn : n = ((n.toNat : Nat) : Int) := by omega
      have := isprime_table_correct oracle n.toNat (by omega)
      rw [← hn] at this
      rw [this]; rfl
    · unfold isprime
      have a : ¬ n < ((BOUNDARY_isprime : Nat) : Int) := by
        have : BOUNDARY_isprime = 32768 := rfl
        omega
      have b : ¬ n < ((BOUNDARY_2_isprime : Nat) : Int) := by
        have : BOUNDARY_2_isprime = 65536 := rfl
        omega
      simp only [h2, a, b, ↓reduceIte]; rfl

/-- the defect repaired by fixes/C12_2: the unchanged dispatch sent negative arguments to the table search, where
    -1 matches the `-1` padding entry (and -(2^32)+7 is truncated to 7) -/
theorem isprime_unfixed_counterexample :
    isprime_unfixed (fun _ => 0) (-1) = some 1 ∧ isprime_unfixed (fun _ => 0) (-4294967289) = some 1 := by
  decide +kernel

/-! ## nextprime / prevprime -/

/-- **Tier A.** for every primality predicate that is right, `nextprime` returns the closest prime strictly above `p`, no prime skipped -/
theorem nextprime_closest (isp : Int → Bool) (hisp : ∀ n, isp n = true ↔ Nat.Prime n.toNat)
    (p : Int) (fuel : Nat) (r : Int) (h : nextprime isp fuel p = some r) :
    p < r ∧ Nat.Prime r.toNat ∧ ∀ m, p < m → m < r → ¬ Nat.Prime m.toNat := by
  unfold nextprime at h
  by_cases hp : p ≤ 1
  · simp only [hp, ↓reduceIte, Option.some.injEq] at h
    subst h
    exact ⟨by omega, by simpa using Nat.prime_two, fun m h1 h2 => not_prime_le_one m (by omega)⟩
  · simp only [hp, ↓reduceIte] at h
    obtain ⟨a, b, c, d⟩ := upLoop_spec isp fuel _ r h
    refine ⟨by split at b <;> omega, (hisp r).1 a, fun m h1 h2 => ?_⟩
    by_cases hm : m % 2 = 0
    · exact not_prime_even m (by omega) hm
    · have := d m (by split <;> omega) h2 (by split <;> omega)
      intro hpm
      rw [(hisp m).2 hpm] at this
      exact Bool.noConfusion this

/-- the walk terminates (infinitude of primes) -/
theorem nextprime_terminates (isp : Int → Bool) (hisp : ∀ n, isp n = true ↔ Nat.Prime n.toNat) (p : Int) :
    ∃ fuel r, nextprime isp fuel p = some r := by
  unfold nextprime
  by_cases hp : p ≤ 1
  · exact ⟨0, 2, by simp [hp]⟩
  · simp only [hp, ↓reduceIte]
    obtain ⟨q, hq1, hq2⟩ := Nat.exists_infinite_primes (p.toNat + 3)
    have hodd : q % 2 = 1 := by
      rcases hq2.eq_two_or_odd with h | h <;> omega
    set s : Int := p + (if p % 2 = 1 then 2 else 1) with hs
    have hk : ∃ k : Nat, s + 2 * (k : Int) = (q : Int) := by
      refine ⟨((q : Int) - s).toNat / 2, ?_⟩
      split at hs <;> omega
    obtain ⟨k, hk⟩ := hk
    obtain ⟨r, hr⟩ := upLoop_some isp k s (by rw [hk, hisp]; simpa using hq2)
    exact ⟨k + 1, r, hr⟩

/-- `prevprime` returns the closest prime strictly below `p`, and the documented 2 when there is none -/
theorem prevprime_closest (isp : Int → Bool) (hisp : ∀ n, isp n = true ↔ Nat.Prime n.toNat)
    (p : Int) (fuel : Nat) (r : Int) (h : prevprime isp fuel p = some r) :
    if p ≤ 2 then r = 2 else (r < p ∧ Nat.Prime r.toNat ∧ ∀ m, r < m → m < p → ¬ Nat.Prime m.toNat) := by
  unfold prevprime at h
  by_cases hp : p ≤ 3
  · simp only [hp, ↓reduceIte, Option.some.injEq] at h
    subst h
    by_cases hp2 : p ≤ 2
    · simp [hp2]
    · simp only [hp2, ↓reduceIte]
      exact ⟨by omega, by simpa using Nat.prime_two, fun m h1 h2 => by omega⟩
  · simp only [hp, ↓reduceIte] at h
    have hp2 : ¬ p ≤ 2 := by omega
    simp only [hp2, ↓reduceIte]
    obtain ⟨a, b, c, d⟩ := downLoop_spec isp fuel _ r h
    have hr := (hisp r).1 a
    have hr2 := hr.two_le
    refine ⟨by split at b <;> omega, hr, fun m h1 h2 => ?_⟩
    by_cases hm : m % 2 = 0
    · exact not_prime_even m (by omega) hm
    · have := d m h1 (by split <;> omega) (by split <;> omega)
      intro hpm
      rw [(hisp m).2 hpm] at this
      exact Bool.noConfusion this

/-- the downward walk terminates (it stops at 3 at the latest) -/
theorem prevprime_terminates (isp : Int → Bool) (hisp : ∀ n, isp n = true ↔ Nat.Prime n.toNat) (p : Int) :
    ∃ fuel r, prevprime isp fuel p = some r := by
  unfold prevprime
  by_cases hp : p ≤ 3
  · exact ⟨0, 2, by simp [hp]⟩
  · simp only [hp, ↓reduceIte]
    set s : Int := p - (if p % 2 = 1 then 2 else 1) with hs
    have hk : ∃ k : Nat, s - 2 * (k : Int) = 3 := by
      refine ⟨(s - 3).toNat / 2, ?_⟩
      split at hs <;> omega
    obtain ⟨k, hk⟩ := hk
    obtain ⟨r, hr⟩ := downLoop_some isp k s (by rw [hk, hisp]; simpa using Nat.prime_three)
    exact ⟨k + 1, r, hr⟩

/-- the same for the code as it is: `isprime` (tables + oracle) drives the walks -/
theorem nextprime_closest_code (oracle : Int → Int) (hor : OracleOK oracle) (p : Int) (fuel : Nat) (r : Int)
    (h : nextprime (ispB oracle) fuel p = some r) :
    p < r ∧ Nat.Prime r.toNat ∧ ∀ m, p < m → m < r → ¬ Nat.Prime m.toNat :=
  nextprime_closest (ispB oracle) (isprime_correct oracle hor) p fuel r h

theorem prevprime_closest_code (oracle : Int → Int) (hor : OracleOK oracle) (p : Int) (fuel : Nat) (r : Int)
    (h : prevprime (ispB oracle) fuel p = some r) :
    if p ≤ 2 then r = 2 else (r < p ∧ Nat.Prime r.toNat ∧ ∀ m, r < m → m < p → ¬ Nat.Prime m.toNat) :=
  prevprime_closest (ispB oracle) (isprime_correct oracle hor) p fuel r h

/-- `Protected::prevprime` (gmp++_int_misc.C) is the same walk -/
theorem protectedPrevprime_closest (isp : Int → Bool) (hisp : ∀ n, isp n = true ↔ Nat.Prime n.toNat)
    (p : Int) (fuel : Nat) (r : Int) (h : protectedPrevprime isp fuel p = some r) :
    if p ≤ 2 then r = 2 else (r < p ∧ Nat.Prime r.toNat ∧ ∀ m, r < m → m < p → ¬ Nat.Prime m.toNat) :=
  prevprime_closest isp hisp p fuel r h

/-- the defect repaired by fixes/C12_1 (+ C12_2): with the unchanged bound `p <= 2` and the unchanged `isprime`,
    `prevprime(3)` walks 1, -1 and returns -1 -/
theorem prevprime_unfixed_counterexample :
    prevprime_unfixed (fun n => isprime_unfixed (fun _ => 0) n != some 0) 10 3 = some (-1) := by
  decide +kernel

/-- and with a correct primality test the unchanged bound does not terminate from 3: no fuel suffices -/
theorem prevprime_unfixed_diverges (isp : Int → Bool) (hisp : ∀ n, isp n = true ↔ Nat.Prime n.toNat) (fuel : Nat) :
    prevprime_unfixed isp fuel 3 = none := by
  have key : ∀ (f : Nat) (n : Int), n ≤ 1 → downLoop isp f n = none := by
    intro f
    induction f with
    | zero => intro n _; rfl
    | succ k ih =>
      intro n hn
      unfold downLoop
      have : isp n = false := by
        rcases hb : isp n with _ | _
        · rfl
        · exact absurd ((hisp n).1 hb) (not_prime_le_one n hn)
      simp only [this, Bool.false_eq_true, ↓reduceIte]
      exact ih (n - 2) (by omega)
  unfold prevprime_unfixed
  simp only [show ¬ ((3 : Int) ≤ 2) by omega, ↓reduceIte]
  exact key fuel _ (by decide)

/-! ## Factorisation -/

/-- complete factorisation: for every oracle that returns a prime factor of every m > 1, `set` returns distinct primes with
    exponents ≥ 1 whose product is |n| (and reports the factorisation as complete) -/
theorem set_complete (pf : Nat → Nat) (hpf : ∀ m, 1 < m → Nat.Prime (pf m) ∧ pf m ∣ m) (n : Int) (hn : n ≠ 0) :
    ∃ fs, Givaro.Model.Primes.set pf n = some (fs, true) ∧ (∀ pe ∈ fs, Nat.Prime pe.1 ∧ 1 ≤ pe.2) ∧
      (fs.map Prod.fst).Nodup ∧ prodPow fs = n.natAbs := by
  unfold Givaro.Model.Primes.set
  apply setLoop_spec pf hpf n.natAbs (n.natAbs + 1) n.natAbs [] (by omega) (by omega)
  · intro pe hpe; simp at hpe
  · simp
  · simp [prodPow]

/-- the divisor list computed from a factorisation into primes is exactly the set of positive divisors of the product -/
theorem divisors_exact (fs : List (Nat × Nat)) (hp : ∀ pe ∈ fs, Nat.Prime pe.1) (x : Nat) :
    x ∈ divisors fs ↔ x ∣ prodPow fs := by
  unfold divisors
  rw [mem_foldl_divisors fs [1] 1 (by intro y; simp) hp x, Nat.one_mul]

/-- the upward walk needs at most `p + 2` steps (Bertrand's postulate): an explicit fuel for `nextprime_closest` -/
theorem nextprime_terminates_bertrand (isp : Int → Bool) (hisp : ∀ n, isp n = true ↔ Nat.Prime n.toNat) (p : Int) :
    ∃ r, nextprime isp (p.toNat + 2) p = some r := by
  unfold nextprime
  by_cases hp : p ≤ 1
  · exact ⟨2, by simp [hp]⟩
  · simp only [hp, ↓reduceIte]
    obtain ⟨q, hq, hq1, hq2⟩ := Nat.exists_prime_lt_and_le_two_mul (p.toNat + 1) (by omega)
    have hodd : q % 2 = 1 := by
      rcases hq.eq_two_or_odd with h | h <;> omega
    set s : Int := p + (if p % 2 = 1 then 2 else 1) with hs
    have hk : ∃ k : Nat, s + 2 * (k : Int) = (q : Int) ∧ k + 1 ≤ p.toNat + 2 := by
      refine ⟨((q : Int) - s).toNat / 2, ?_, ?_⟩ <;> split at hs <;> omega
    obtain ⟨k, hk, hk2⟩ := hk
    obtain ⟨r, hr⟩ := upLoop_some isp k s (by rw [hk, hisp]; simpa using hq)
    obtain ⟨d, hd⟩ := Nat.exists_eq_add_of_le hk2
    exact ⟨r, by rw [hd]; exact upLoop_mono isp (k + 1) d s r hr⟩

/-! ## Prime-power test (`IntPrimeDom::isprimepower`) -/

/-- **All inputs.** For every integer `u` (0 and negatives included), every primality test and every `mpz_root` meeting their
    contracts: `isprimepower(q,u)` returns `e > 0` exactly when `u = p^k` for a prime `p` and `k ≥ 2`, and then `q = p`,
    `e = k`; it returns 0 otherwise (in particular for primes, 0, 1 and negative `u`).
    The only hypothesis besides the contracts is that the exponent fits the `unsigned int` return type
    (`u < 2^(2^32)`; a larger `u` would need 512 MiB). -/
theorem isprimepower_exact (isp : Int → Bool) (hisp : ∀ n : Int, isp n = true ↔ Nat.Prime n.toNat)
    (root : Nat → Nat → Nat) (hroot : RootOK root) (u : Int) (hu : Nat.log2 u.toNat < 4294967296) :
    (0 < (isprimepower isp root u).1 ↔ ∃ p k, Nat.Prime p ∧ 2 ≤ k ∧ ((p : Int)) ^ k = u) ∧
    (∀ p k, Nat.Prime p → 2 ≤ k → ((p : Int)) ^ k = u → isprimepower isp root u = (k, p)) := by
  obtain ⟨h0, hpos⟩ := isprimepower_spec isp hisp root hroot u hu
  have cast : ∀ p k : Nat, 0 < p → ((p : Int)) ^ k = u → 0 < u ∧ p ^ k = u.toNat := by
    intro p k hp0 h
    have h' : ((p ^ k : Nat) : Int) = u := by push_cast; exact h
    have hpk : 0 < p ^ k := Nat.pow_pos hp0
    constructor <;> omega
  have value : ∀ p k, Nat.Prime p → 2 ≤ k → ((p : Int)) ^ k = u → isprimepower isp root u = (k, p) := by
    intro p k hp hk h
    obtain ⟨hupos, hnat⟩ := cast p k hp.pos h
    have hs := hpos hupos
    have hne : (isprimepower isp root u).1 ≠ 0 := fun hz => hs.2 hz ⟨p, k, hp, hk, hnat⟩
    obtain ⟨hq, _, hqe⟩ := hs.1 (by omega)
    obtain ⟨e1, e2⟩ := prime_pow_unique hp hq (by omega) (hqe.trans hnat.symm)
    exact Prod.ext e2 e1
  refine ⟨⟨fun hpos' => ?_, fun ⟨p, k, hp, hk, h⟩ => by rw [value p k hp hk h]; omega⟩, value⟩
  by_cases hu0 : u ≤ 0
  · have := h0 hu0; omega
  · obtain ⟨hq, he, hqe⟩ := (hpos (by omega)).1 hpos'
    refine ⟨_, _, hq, he, ?_⟩
    have : (((isprimepower isp root u).2 ^ (isprimepower isp root u).1 : Nat) : Int) = u := by rw [hqe]; omega
    push_cast at this; exact this

/-- soundness alone, in the shape the harness checks: a positive answer is a certificate -/
theorem isprimepower_sound (isp : Int → Bool) (hisp : ∀ n : Int, isp n = true ↔ Nat.Prime n.toNat)
    (root : Nat → Nat → Nat) (hroot : RootOK root) (u : Int) (hu : Nat.log2 u.toNat < 4294967296)
    (h : 0 < (isprimepower isp root u).1) :
    Nat.Prime (isprimepower isp root u).2 ∧ 2 ≤ (isprimepower isp root u).1 ∧
      (((isprimepower isp root u).2 : Nat) : Int) ^ (isprimepower isp root u).1 = u := by
  obtain ⟨p, k, hp, hk, hpk⟩ := (isprimepower_exact isp hisp root hroot u hu).1.1 h
  rw [(isprimepower_exact isp hisp root hroot u hu).2 p k hp hk hpk]
  exact ⟨hp, hk, hpk⟩

/-- the code as it is: `isprime` (tables + GMP oracle) as the primality test -/
theorem isprimepower_exact_code (oracle : Int → Int) (hor : OracleOK oracle) (root : Nat → Nat → Nat) (hroot : RootOK root)
    (u : Int) (hu : Nat.log2 u.toNat < 4294967296) :
    (0 < (isprimepower (ispB oracle) root u).1 ↔ ∃ p k, Nat.Prime p ∧ 2 ≤ k ∧ ((p : Int)) ^ k = u) ∧
    (∀ p k, Nat.Prime p → 2 ≤ k → ((p : Int)) ^ k = u → isprimepower (ispB oracle) root u = (k, p)) :=
  isprimepower_exact (ispB oracle) (isprime_correct oracle hor) root hroot u hu

/-- the bisection the driver substitutes for `mpz_root` meets the contract (so the compared model is covered) -/
theorem iroot_meets_contract : RootOK Givaro.Model.Primes.iroot := iroot_ok

/-- the defect repaired by fixes/C12_4, on the model of the old loop body: an exact root that is not prime ended the search -/
theorem isprimepower_unfixed_counterexample :
    (let q := Givaro.Model.Primes.iroot (1013 ^ 4) 2; q ^ 2 = 1013 ^ 4 ∧ isPrimeDec q = false) := by decide +kernel

/-! ## Divisor list -/

/-- **All factorisation lists.** the list built by `divisors(L, Lf, Le)` has no duplicates … -/
theorem divisors_nodup (fs : List (Nat × Nat)) (hp : ∀ pe ∈ fs, Nat.Prime pe.1) (hnd : (fs.map Prod.fst).Nodup) :
    (divisors fs).Nodup := divisors_nodup_of_primes fs hp hnd

/-- … and is, as a set, exactly `Nat.divisors` of the product (with `divisors_nodup`: each divisor exactly once) -/
theorem divisors_eq_nat_divisors (fs : List (Nat × Nat)) (hp : ∀ pe ∈ fs, Nat.Prime pe.1) :
    (divisors fs).toFinset = Nat.divisors (prodPow fs) := divisors_toFinset_of_primes fs hp

/-- `divisors(L, n)` = `set` then the construction: for every `n ≠ 0` and every prime-factor oracle the result lists every
    positive divisor of `n` exactly once -/
theorem divisors_of_set (pf : Nat → Nat) (hpf : ∀ m, 1 < m → Nat.Prime (pf m) ∧ pf m ∣ m) (n : Int) (hn : n ≠ 0) :
    ∃ fs, Givaro.Model.Primes.set pf n = some (fs, true) ∧ (divisors fs).Nodup ∧
      (divisors fs).toFinset = Nat.divisors n.natAbs := by
  obtain ⟨fs, h1, h2, h3, h4⟩ := set_complete pf hpf n hn
  refine ⟨fs, h1, divisors_nodup fs (fun pe h => (h2 pe h).1) h3, ?_⟩
  rw [divisors_eq_nat_divisors fs (fun pe h => (h2 pe h).1), h4]

/-! ## The factor-driver loops (`factor`, `iffactorprime`, `primefactor`, `set` with and without `loops`) -/

/-- `factor(r,n,0)`: the returned factor divides `n`, is > 1, and is non-trivial when `n > 1` is composite — for every rho
    oracle meeting the `loops = 0` contract (a non-trivial divisor of every composite) -/
theorem factor_nontrivial (isp : Int → Bool) (hisp : ∀ n : Int, isp n = true ↔ Nat.Prime n.toNat)
    (rho : Int → Int) (hrho : RhoFull rho) (n : Int) (hn : 1 < n) :
    factorP isp rho n ∣ n ∧ 1 < factorP isp rho n ∧ factorP isp rho n ≤ n ∧
      (¬ Nat.Prime n.toNat → factorP isp rho n < n) := factorP_full isp hisp rho hrho n hn

/-- `iffactorprime(r,n,0)` returns a prime factor of every `n > 1` (the loop `while (!isprime(r))` descends through proper
    divisors; `n + 1` iterations always suffice; Lenstra is never reached) -/
theorem iffactorprime_prime (isp : Int → Bool) (hisp : ∀ n : Int, isp n = true ↔ Nat.Prime n.toNat)
    (rho : Nat → Int → Int) (hrho : ∀ i, RhoFull (rho i)) (ecm : Int → Int) (n : Int) (hn : 1 < n) :
    ∃ r, iffactorprime isp rho ecm (n.toNat + 1) n = some r ∧ Nat.Prime r.toNat ∧ r ∣ n ∧ 1 < r :=
  iffactorprime_full isp hisp rho hrho ecm n hn (n.toNat + 1) (by omega)

/-- `primefactor(r,n)` returns a prime factor of every `n > 1` -/
theorem primefactor_prime (isp : Int → Bool) (hisp : ∀ n : Int, isp n = true ↔ Nat.Prime n.toNat)
    (rho : Nat → Nat → Int → Int) (hrho : ∀ k i, RhoFull (rho k i)) (ecm : Int → Int) (n : Int) (hn : 1 < n) (fuel : Nat) :
    ∃ r, primefactor isp rho ecm (fuel + 1) n = some r ∧ Nat.Prime r.toNat ∧ r ∣ n :=
  primefactor_full isp hisp rho hrho ecm n hn fuel

/-- … and `primefactor(r,1)` does not return, whatever the oracles (a hang on the real code; outside the property: 1 has no
    prime factor) -/
theorem primefactor_one_never_returns (isp : Int → Bool) (hisp : ∀ n : Int, isp n = true ↔ Nat.Prime n.toNat)
    (rho : Nat → Nat → Int → Int) (ecm : Int → Int) (fuel : Nat) : primefactor isp rho ecm fuel 1 = none :=
  primefactor_one_diverges isp hisp rho ecm fuel

/-- **Partial contract of the `loops`-bounded `set`.** For *any* oracle returning a positive divisor (1 = "no factor found
    within `loops`", composite answers allowed): the loop terminates, the bases are ≥ 2 and pairwise distinct, the
    exponents ≥ 1, the product is `|n|`; and when every non-failure answer is prime, the returned flag `true` certifies
    that all bases are prime. -/
theorem set_partial (pf : Nat → Nat) (hpf : ∀ m, 1 < m → 1 ≤ pf m ∧ pf m ∣ m)
    (hprime : ∀ m, 1 < m → pf m ≠ 1 → Nat.Prime (pf m)) (n : Int) (hn : n ≠ 0) :
    ∃ fs c, Givaro.Model.Primes.set pf n = some (fs, c) ∧ (∀ pe ∈ fs, 2 ≤ pe.1 ∧ 1 ≤ pe.2) ∧
      (fs.map Prod.fst).Nodup ∧ prodPow fs = n.natAbs ∧ (c = true → ∀ pe ∈ fs, Nat.Prime pe.1) :=
  set_partial_gen pf hpf Nat.Prime hprime n hn

/-- **`set(Lf, Lo, n)` as the code runs it** (`iffactorprime` inside the loop, cascades + Pollard inside `iffactorprime`):
    complete factorisation of every `n ≠ 0` into distinct primes, for every primality test and rho oracle meeting their
    contracts -/
theorem setCode_complete (isp : Int → Bool) (hisp : ∀ n : Int, isp n = true ↔ Nat.Prime n.toNat)
    (rho : Nat → Nat → Int → Int) (hrho : ∀ k i, RhoFull (rho k i)) (ecm : Int → Int) (n : Int) (hn : n ≠ 0) :
    ∃ fs, setCode isp rho ecm n = some (fs, true) ∧ (∀ pe ∈ fs, Nat.Prime pe.1 ∧ 1 ≤ pe.2) ∧
      (fs.map Prod.fst).Nodup ∧ prodPow fs = n.natAbs :=
  set_complete (pfOf isp rho ecm) (fun m hm => pfOf_full isp hisp rho hrho ecm m hm) n hn

/-- `set(Lf, n)` (one container; `primefactor` inside the loop): the distinct prime factors of `|n|`, each exactly once, for every
    `n ≠ 0` (negative `n` with fixes/C12_6) and every prime-factor oracle -/
theorem set1_complete (pf : Nat → Nat) (hpf : ∀ m, 1 < m → Nat.Prime (pf m) ∧ pf m ∣ m) (n : Int) (hn : n ≠ 0) :
    ∃ ps, set1 pf n = some ps ∧ ps.Nodup ∧ ∀ p, p ∈ ps ↔ Nat.Prime p ∧ p ∣ n.natAbs :=
  set1_complete_gen pf hpf n hn

/-- the defect repaired by fixes/C12_6: the unchanged one-container `set` returned nothing for a negative argument -/
theorem set1_unfixed_counterexample (pf : Nat → Nat) : set1_unfixed pf (-15) = some [] := by
  unfold set1_unfixed; simp

/-- the factor list is *not* sorted in general: the cascade tests 23, 19, 17 before 2, 3, … (`set(561)` on the real code
    returns 17, 3, 11 as well); the property does not ask for an order -/
theorem set_not_sorted :
    Givaro.Model.Primes.set (fun m => (factor (fun x => x) (m : Int)).toNat) 561 = some ([(17, 1), (3, 1), (11, 1)], true) := by
  decide +kernel

/-! ## The Lenstra (ECM) variant: `Lenstra(…)` and `factor` in a build with `-DGIVARO_LENSTRA` -/

/-- with curves that return a non-trivial divisor of every composite, `Lenstra` (guards `n<3`, `isprime`, `%2`, `%3` included)
    and `factor` routed through it return a non-trivial divisor of every composite `n > 1` -/
theorem factor_nontrivial_lenstra (isp : Int → Bool) (hisp : ∀ n : Int, isp n = true ↔ Nat.Prime n.toNat)
    (ecm : Int → Int) (hecm : EcmFull ecm) (n : Int) (hn : 1 < n) :
    factorLen isp ecm n ∣ n ∧ 1 < factorLen isp ecm n ∧ factorLen isp ecm n ≤ n ∧
      (¬ Nat.Prime n.toNat → factorLen isp ecm n < n) := factorLen_full isp hisp ecm hecm n hn

/-- `factor_nontrivial_lenstra_partial`.  The full statement (previous theorem with `EcmObserved` in place of `EcmFull`:
    `… ∧ (¬ Nat.Prime n.toNat → factorLen isp ecm n < n)`) is FALSE for the curves as they are, see the counterexample below;
    what does hold: the failure value -1, or a divisor > 1 (possibly `n`). -/
theorem factor_nontrivial_lenstra_partial (isp : Int → Bool) (hisp : ∀ n : Int, isp n = true ↔ Nat.Prime n.toNat)
    (ecm : Int → Int) (hecm : EcmObserved ecm) (n : Int) (hn : 1 < n) :
    factorLen isp ecm n = -1 ∨ (factorLen isp ecm n ∣ n ∧ 1 < factorLen isp ecm n ∧ factorLen isp ecm n ≤ n) :=
  factorLen_partial isp hisp ecm hecm n hn

/-- known finding C12-lenstra-trivial: an outcome the real curves do produce (`Lenstra(…, 994009 = 997², B1 = 2000, 8 curves)` returns
    994009; the harness replays it) makes the returned "factor" of a composite trivial -/
theorem factor_nontrivial_lenstra_counterexample :
    ¬ (∀ (ecm : Int → Int), EcmObserved ecm → ∀ n : Int, 1 < n → ¬ Nat.Prime n.toNat →
        factorLen (fun m : Int => isPrimeDec m.toNat) ecm n < n) := by
  intro h
  have hobs : EcmObserved (fun m => m) := fun m hm => Or.inr ⟨by show (1 : Int) < m; omega, Int.le_refl m, Int.dvd_refl m⟩
  have := h (fun m => m) hobs 994009 (by decide) (by rw [← isPrimeDec_iff]; decide +kernel)
  revert this
  decide +kernel

/-- `iffactorprime` of the `-DGIVARO_LENSTRA` build (Lenstra in the two leading `factor` calls, Pollard in the loop) returns a prime
    factor of every `n > 1` under the full contracts -/
theorem iffactorprime_prime_lenstra (isp : Int → Bool) (hisp : ∀ n : Int, isp n = true ↔ Nat.Prime n.toNat)
    (ecmF : Nat → Int → Int) (hecmF : ∀ i, EcmFull (ecmF i)) (rho : Nat → Int → Int) (hrho : ∀ i, RhoFull (rho i))
    (ecm : Int → Int) (n : Int) (hn : 1 < n) :
    ∃ r, iffactorprimeL isp ecmF rho ecm (n.toNat + 1) n = some r ∧ Nat.Prime r.toNat ∧ r ∣ n ∧ 1 < r :=
  iffactorprimeL_full isp hisp ecmF hecmF rho hrho ecm n hn (n.toNat + 1) (by omega)

/-! ## Fermat numbers (`FermatDom`) -/

/-- `fermat(f, n)` is `2^(2^n) + 1` for every n the `unsigned` shift `1u << n` admits -/
theorem fermat_exact (n : Nat) (hn : n < 32) : fermat n = Nat.fermatNumber n := fermat_eq n hn

/-- **Pépin.** `pepin(n)` answers true exactly when the Fermat number is prime (n = 0 with fixes/C12_7) -/
theorem pepin_iff_prime (n : Nat) (hn : n < 32) : pepin n = true ↔ Nat.Prime (Nat.fermatNumber n) := pepin_iff_prime' n hn

/-- the defect repaired by fixes/C12_7: base 3 is not coprime to `F_0 = 3`, the unchanged `pepin(0)` answered false for a prime -/
theorem pepin_unfixed_counterexample : pepin_unfixed 0 = false ∧ Nat.Prime (Nat.fermatNumber 0) := by
  refine ⟨by decide +kernel, ?_⟩
  rw [Nat.fermatNumber_zero]; exact Nat.prime_three

/-! ## `Primes16` -/

/-- **The whole table.** `Primes16::_primes` (as extracted from givprimes16.C now) is exactly the increasing list of the primes
    below 2^16 (2^16 trial divisions in the kernel, Lemmas/Primes16/R0…R3) … -/
theorem primes16_exact : primes16 = (List.range 65536).filter (fun n => decide (Nat.Prime n)) := by
  rw [Givaro.Lemmas.Primes16.primes16_eq_filter]
  apply List.filter_congr
  intro n _
  by_cases h : Nat.Prime n
  · simp [h, (isPrimeDec_iff n).2 h]
  · have : isPrimeDec n = false := by
      rcases hb : isPrimeDec n with _ | _
      · rfl
      · exact absurd ((isPrimeDec_iff n).1 hb) h
    simp [h, this]

/-- … so `ith(i)` enumerates them and `count()` is their number -/
theorem primes16_mem (p : Nat) : p ∈ primes16 ↔ Nat.Prime p ∧ p < 65536 := by
  rw [primes16_exact, List.mem_filter, List.mem_range]
  simp [and_comm]

theorem primes16_count : primes16.length = primes16Size := by decide +kernel

/-! ## Output containers that are not empty on entry -/

/-- `divisors(L, Lf, Le)` (hence `divisors(L, n)`) *assigns* its result: whatever `L` held before — a previous result, junk, the
    list of factors itself — the list left in `L` is the divisor list of the input alone -/
theorem divisorsInto_eq (old : List Nat) (fs : List (Nat × Nat)) : divisorsInto old fs = divisors fs := rfl

/-- … so on a reused container it is still exactly `Nat.divisors`, each divisor once -/
theorem divisorsInto_exact (old : List Nat) (fs : List (Nat × Nat)) (hp : ∀ pe ∈ fs, Nat.Prime pe.1)
    (hnd : (fs.map Prod.fst).Nodup) :
    (divisorsInto old fs).Nodup ∧ (divisorsInto old fs).toFinset = Nat.divisors (prodPow fs) :=
  ⟨divisors_nodup fs hp hnd, divisors_eq_nat_divisors fs hp⟩

/-- `set(Lf, Lo, n)` *appends*: on containers that already hold `old`, the result is `old` followed by the factorisation `set`
    computes from empty containers, and the flag is the same -/
theorem setInto_eq (pf : Nat → Nat) (old : List (Nat × Nat)) (n : Int) :
    setInto pf old n = (Givaro.Model.Primes.set pf n).map (fun r => (old ++ r.1, r.2)) := setInto_eq_append pf old n

/-- … hence, for every prime-factor oracle and `n ≠ 0`: `old` untouched in front, then distinct primes with product `|n|` -/
theorem setInto_complete (pf : Nat → Nat) (hpf : ∀ m, 1 < m → Nat.Prime (pf m) ∧ pf m ∣ m) (old : List (Nat × Nat))
    (n : Int) (hn : n ≠ 0) :
    ∃ fs, setInto pf old n = some (old ++ fs, true) ∧ (∀ pe ∈ fs, Nat.Prime pe.1 ∧ 1 ≤ pe.2) ∧
      (fs.map Prod.fst).Nodup ∧ prodPow fs = n.natAbs := by
  obtain ⟨fs, h1, h2⟩ := set_complete pf hpf n hn
  exact ⟨fs, by rw [setInto_eq, h1]; rfl, h2⟩

/-- `set(Lf, n)` appends likewise -/
theorem set1Into_eq (pf : Nat → Nat) (old : List Nat) (n : Int) :
    set1Into pf old n = (set1 pf n).map (fun r => old ++ r) := set1Into_eq_append pf old n

/-! ## Non-vacuity of the hypotheses -/

/-- an oracle meeting the contract exists (the reference test itself) -/
example : OracleOK (fun n => if isPrimeDec n.toNat then 1 else 0) := by
  intro n _
  by_cases hp : Nat.Prime n.toNat
  · right; simp [hp, (isPrimeDec_iff n.toNat).2 hp]
  · left
    have : isPrimeDec n.toNat = false := by
      rcases hb : isPrimeDec n.toNat with _ | _
      · rfl
      · exact absurd ((isPrimeDec_iff n.toNat).1 hb) hp
    simp [hp, this]
/-- a primality predicate as assumed by the walk theorems exists -/
example : ∀ n : Int, (fun m : Int => isPrimeDec m.toNat) n = true ↔ Nat.Prime n.toNat := fun n => isPrimeDec_iff n.toNat
/-- the walks do return values (tests on samples, not theorems) -/
example : nextprime (fun m : Int => isPrimeDec m.toNat) 10 7 = some 11 := by decide
example : nextprime (fun m : Int => isPrimeDec m.toNat) 10 113 = some 127 := by decide
example : prevprime (fun m : Int => isPrimeDec m.toNat) 10 3 = some 2 := by decide
example : prevprime (fun m : Int => isPrimeDec m.toNat) 10 127 = some 113 := by decide
/-- a prime-factor oracle as assumed by `set_complete` exists -/
example : ∀ m, 1 < m → Nat.Prime (Nat.minFac m) ∧ Nat.minFac m ∣ m :=
  fun m h => ⟨Nat.minFac_prime (by omega), Nat.minFac_dvd m⟩
example : Givaro.Model.Primes.set (fun m => if m % 2 = 0 then 2 else if m % 3 = 0 then 3 else 5) (-360) = some ([(2, 3), (3, 2), (5, 1)], true) := by decide
example : divisors [(2, 2), (3, 1)] = [1, 2, 4, 3, 6, 12] := by decide
/-- a rho oracle meeting the `loops = 0` contract exists (the least prime factor) -/
example : RhoFull (fun m => (Nat.minFac m.toNat : Int)) := by
  intro m hm hnp
  have h1 : m.toNat ≠ 1 := by omega
  have hp := Nat.minFac_prime h1
  have hd := Nat.minFac_dvd m.toNat
  have hle := Nat.minFac_le (n := m.toNat) (by omega)
  have hne : Nat.minFac m.toNat ≠ m.toNat := fun h => hnp (h ▸ hp)
  have h2 := hp.two_le
  show (1 : Int) < (Nat.minFac m.toNat : Int) ∧ (Nat.minFac m.toNat : Int) < m ∧ (Nat.minFac m.toNat : Int) ∣ m
  refine ⟨by omega, by omega, ?_⟩
  have : ((Nat.minFac m.toNat : Nat) : Int) ∣ ((m.toNat : Nat) : Int) := Int.natCast_dvd_natCast.2 hd
  rwa [Int.toNat_of_nonneg (by omega)] at this
/-- `RootOK` is inhabited (`iroot_meets_contract`); samples of the prime-power test (tests, not theorems) -/
example : isprimepower (fun m : Int => isPrimeDec m.toNat) Givaro.Model.Primes.iroot 1053022816561 = (4, 1013) := by decide +kernel
example : isprimepower (fun m : Int => isPrimeDec m.toNat) Givaro.Model.Primes.iroot (-27) = (0, 0) := by decide +kernel
example : isprimepower (fun m : Int => isPrimeDec m.toNat) Givaro.Model.Primes.iroot 1024 = (10, 2) := by decide +kernel

end Givaro.Props.C12
