/-
C05 — extension fields GF(p^k) behave as F_p[X]/(f) with f irreducible.

What is proved here (all for *every* input, no bound on sizes):

* `zech_ops_correct` — every scalar member function of `GFqDom` (model: `Model/Zech.lean`, a branch-by-branch
  transcription of the macros of gfq.inl) returns the index of the ring-theoretic result and a canonical
  index, for all canonical operands, in **any** commutative ring `K` in which the object's three tables satisfy
  `ZechHyp` (0 ↦ 0, i ↦ γ^i, γ^(q-1) = 1, γ^mOne = -1, `plus1` = shifted successor logarithm).
  `inv(a)·a = 1` and `div(a,b)·b = a` for non-zero divisors.
* `array_forms_cover_all_indices` — the sixteen element-wise array forms store the scalar result at every index
  `i < sz` and write nothing else, for every `sz` including 0 (loop header `for (i = sz; i--;)`, repair C05_1);
  `pinned_array_loop_counterexample` / `pinned_array_loop_partial` record what the loop header of the pinned tree
  (`for (i = sz; --i;)`) did instead: index 0 skipped, `sz = 0` runs off the arrays.
* `dotprod_correct` — `dotprod` is `Σ a_i b_i` for `0 < sz < 2^31` and `0` for `sz = 0`.
* `gf2_ops_correct` — the GF2 operations are arithmetic of `ZMod 2` under the bijection `false ↦ 0, true ↦ 1`.
* `zechHyp_gives_field_facts` — under `ZechHyp`, every non-zero element `γ^i` is a unit and γ generates them
  (so the quotient the tables describe has `q - 1` units that are the powers of γ).

* `tablesValid_gives_ZechHyp`, `extension_field_tables_sound`, `tablesValid_sound_adjoinRoot`, `prime_field_tables_sound` —
  the run-time table checker `Spec.GFq.Tables.tablesValid` (successor table, generator chain modulo `f`, bijectivity,
  `mOne`) is sound: tables it accepts satisfy `ZechHyp` in every commutative ring with `p = 0` containing a root of the
  object's polynomial `f`, in particular in Mathlib's `(ZMod p)[X] ⧸ (f)` with index `i` ↦ class of the polynomial whose
  p-adic digits are `log2pol[i]` (and in `ZMod p` for `k = 1`).  The harness dumps the tables of every object it constructs
  and the driver runs the checker on them, so the hypothesis of the theorems is *checked* for each object, not assumed.
* `word_level_macros_agree`, `wordFits_int32/64` — the `(TT)`/`(Rep)` conversions are the identity on the macros' intermediates.
* `gfqext_defensive_init_counterexample` / `_partial` — known finding C05-gfqext-defensive-init.

* `valid_implies_field`, `gfq_refinement`, `zech_exact_for_field_generator` — accepted tables describe a field: `p` prime, `f`
  irreducible, `(ZMod p)[X] ⧸ (f)` a field with `p^k` elements, decoding a bijection onto it, the generator generates the units, every
  operation is the field operation; and the abstract form for any finite field with a generator.
* `construction_valid`, `construction_valid_prime`, `lowest_prim_root_post`, `prime_field_constructor_valid` — the constructors' table
  fill (and, for `k = 1`, the generator search) as written yield valid tables.
* `init_from_polynomial_exact` — `GFqDom::init(Rep&, const Vector&)` for every degree.
* `extension_ops_exact`, `extension_reduced_bijection` — `Extension<>` is `R[X] ⧸ (f)`.
* `kronecker_state_invariant`, `kronecker_substitution_exact`, `kronecker_convert_injective`, `kronecker_pinned_counterexample` —
  GFqKronecker's shift/mask state machine and the exactness of Kronecker substitution for dot products of at most `maxn` terms.

Hypotheses that are other properties' contracts: the search for the irreducible / primitive polynomial (C09), `phi` and the
factorisation inside `lowest_prim_root` (C13/C12), the laws of the `Poly1Dom` operations (C08).
-/
import GivaroModel.Lemmas.GFqOps
import GivaroModel.Lemmas.GFqTables
import GivaroModel.Lemmas.GFqDecoding
import GivaroModel.Lemmas.GFqAdjoinRoot
import GivaroModel.Lemmas.GFqWord
import GivaroModel.Lemmas.GFqField
import GivaroModel.Lemmas.GFqCtor
import GivaroModel.Lemmas.GFqKron
import GivaroModel.Lemmas.GFqInit
import GivaroModel.Lemmas.GFqExtension
import GivaroModel.Lemmas.GFqQadic
import GivaroModel.Model.GFqExt
import Mathlib.Algebra.BigOperators.Group.Finset.Basic
import Mathlib.Algebra.BigOperators.Intervals
import Mathlib.Data.ZMod.Basic
namespace Givaro.Props.C05
open Givaro.Model.Zech Givaro.Lemmas.GFqZech

section scalar
variable {K : Type*} [CommRing K] {F : Dom} {q : Int} {γ : K} {elt : Int → K}

/-- Every scalar member function of `GFqDom`, for all canonical operands. -/
theorem zech_ops_correct (H : ZechHyp F q γ elt) (a b c : Int) (ha : Canon q a) (hb : Canon q b) (hc : Canon q c) :
    (elt (F.mul a b) = elt a * elt b ∧ Canon q (F.mul a b)) ∧
    (elt (F.mulin a b) = elt a * elt b ∧ Canon q (F.mulin a b)) ∧
    (elt (F.add a b) = elt a + elt b ∧ Canon q (F.add a b)) ∧
    (elt (F.addin a b) = elt a + elt b ∧ Canon q (F.addin a b)) ∧
    (elt (F.sub a b) = elt a - elt b ∧ Canon q (F.sub a b)) ∧
    (elt (F.subin a b) = elt a - elt b ∧ Canon q (F.subin a b)) ∧
    (elt (F.neg a) = - elt a ∧ Canon q (F.neg a)) ∧
    (elt (F.negin a) = - elt a ∧ Canon q (F.negin a)) ∧
    (elt (F.axpy a b c) = elt a * elt b + elt c ∧ Canon q (F.axpy a b c)) ∧
    (elt (F.axpyin c a b) = elt c + elt a * elt b ∧ Canon q (F.axpyin c a b)) ∧
    (elt (F.maxpyin c a b) = elt c - elt a * elt b ∧ Canon q (F.maxpyin c a b)) ∧
    (elt (F.axmyin c a b) = elt a * elt b - elt c ∧ Canon q (F.axmyin c a b)) ∧
    (elt (F.axmy a b c) = elt a * elt b - elt c ∧ Canon q (F.axmy a b c)) ∧
    (elt (F.maxpy a b c) = elt c - elt a * elt b ∧ Canon q (F.maxpy a b c)) := by
  have hmul := MUL_correct H a b ha hb
  have hmaxpyin : elt (F.maxpyin c a b) = elt c - elt a * elt b ∧ Canon q (F.maxpyin c a b) := by
    have := AUTOSUB_correct H c (MUL F.mun a b) hc hmul.2
    rw [hmul.1] at this; exact this
  refine ⟨hmul, hmul, ADD_correct H a b ha hb, ADD_correct H a b ha hb, SUB_correct H a b ha hb,
    AUTOSUB_correct H a b ha hb, NEG_correct H a ha, NEG_correct H a ha, MULADD_correct H a b c ha hb hc, ?_, hmaxpyin, ?_, ?_, ?_⟩
  · have := MULADD_correct H a b c ha hb hc
    refine ⟨?_, this.2⟩
    show elt (MULADD F.mun F.pl a b c) = _
    rw [this.1]; ring
  · have := NEG_correct H (F.maxpyin c a b) hmaxpyin.2
    refine ⟨?_, this.2⟩
    show elt (NEG F.mo F.mun (F.maxpyin c a b)) = _
    rw [this.1, hmaxpyin.1]; ring
  · have := AUTOSUB_correct H (MUL F.mun a b) c hmul.2 hc
    rw [hmul.1] at this; exact this
  · have := SUB_correct H c (MUL F.mun a b) hc hmul.2
    rw [hmul.1] at this; exact this

/-- `inv(a)·a = 1` for every non-zero `a`; `div(a,b)·b = a` for every non-zero `b` (and the in-place forms). -/
theorem zech_inv_div_correct (H : ZechHyp F q γ elt) (a b : Int) (ha : Canon q a) (hb : Canon q b) (hb0 : b ≠ 0) :
    (elt (F.inv b) * elt b = 1 ∧ Canon q (F.inv b) ∧ F.inv b ≠ 0) ∧
    (elt (F.invin b) * elt b = 1 ∧ Canon q (F.invin b)) ∧
    (elt (F.div a b) * elt b = elt a ∧ Canon q (F.div a b)) ∧
    (elt (F.divin a b) * elt b = elt a ∧ Canon q (F.divin a b)) := by
  have hi := INV_correct H b hb hb0
  exact ⟨hi, ⟨hi.1, hi.2.1⟩, DIV_correct H a b ha hb hb0, DIV_correct H a b ha hb hb0⟩

/-- the two macros no member function uses -/
theorem zech_unused_macros_correct (H : ZechHyp F q γ elt) (a : Int) (ha : Canon q a) :
    elt (SQ F.mun a) = elt a * elt a ∧ Canon q (SQ F.mun a) := SQ_correct H a ha

/-- Under `ZechHyp` the non-zero elements are exactly units generated by γ: `γ^i · γ^(q-1-i) = 1`, the element
    called `one` decodes to 1 and `mOne` to -1. -/
theorem zechHyp_gives_field_facts (H : ZechHyp F q γ elt) :
    elt (q - 1) = 1 ∧ elt F.mo = -1 ∧ ∀ i, 1 ≤ i → i ≤ q - 1 → ∃ j, Canon q j ∧ j ≠ 0 ∧ elt j * elt i = 1 := by
  have hq := H.q_ge
  refine ⟨?_, ?_, ?_⟩
  · rw [elt_g H _ (by omega) (by omega)]; exact g_mun H
  · rw [elt_g H _ H.mo_lo H.mo_hi]; exact g_mo H
  · intro i h1 h2
    have := INV_correct H i ⟨by omega, h2⟩ (by omega)
    exact ⟨INV F.mun i, this.2.1, this.2.2, this.1⟩

end scalar

/-! ### non-vacuity: GF(3) with γ = 2 satisfies `ZechHyp` -/
def demoDom : Dom := { mun := 2, mo := 1, pl := fun i => if i = 2 then -1 else 0 }
def demoElt (i : Int) : ZMod 3 := if i = 0 then 0 else if i = 1 then 2 else 1

theorem demo_hyp : ZechHyp demoDom 3 (2 : ZMod 3) demoElt := by
  have two : ∀ i : Int, 1 ≤ i → i ≤ 3 - 1 → i = 1 ∨ i = 2 := by intro i h1 h2; omega
  refine ⟨by decide, by decide, by decide, ?_, by decide, by decide, by decide, by decide, ?_, ?_, ?_, ?_⟩
  all_goals
    intro i h1 h2
    rcases two i h1 h2 with rfl | rfl <;> decide

example : (demoElt (demoDom.add 1 2) = demoElt 1 + demoElt 2) :=
  (zech_ops_correct demo_hyp 1 2 0 ⟨by decide, by decide⟩ ⟨by decide, by decide⟩ ⟨by decide, by decide⟩).2.2.1.1

/-! ### element-wise array forms -/
section arrays

/-- the repaired loop stores `body i` at every `i < sz` and leaves every other cell alone, provided the body at
    index `i` reads only cell `i` of the destination (true of all sixteen forms) -/
theorem arrLoop_spec (body : Nat → (Nat → Int) → Int)
    (hloc : ∀ i r r', r i = r' i → body i r = body i r') :
    ∀ (sz : Nat) (r : Nat → Int) (i : Nat),
      (i < sz → arrLoop body sz r i = body i r) ∧ (sz ≤ i → arrLoop body sz r i = r i) := by
  intro sz
  induction sz with
  | zero => intro r i; exact ⟨fun h => absurd h (Nat.not_lt_zero _), fun _ => rfl⟩
  | succ n ih =>
    intro r i
    have hi := ih (upd r n (body n r)) i
    simp only [arrLoop]
    constructor
    · intro h
      by_cases hn : i < n
      · rw [hi.1 hn]
        apply hloc
        unfold upd; simp only [Nat.ne_of_lt hn, ↓reduceIte]
      · have : i = n := by omega
        subst this
        rw [hi.2 (Nat.le_refl _)]
        unfold upd; simp only [↓reduceIte]
    · intro h
      rw [hi.2 (by omega)]
      unfold upd
      have : i ≠ n := by omega
      simp only [this, ↓reduceIte]

variable (F : Dom)

/-- All sixteen array member functions: cell `i < sz` receives the scalar operation on the `i`-th operands,
    every cell `i ≥ sz` keeps its content — for every `sz`, 0 and 1 included. -/
theorem array_forms_cover_all_indices (sz : Nat) (r a b : Nat → Int) (s c : Int) (i : Nat) :
    (i < sz →
      F.mulVV sz r a b i = F.mul (a i) (b i) ∧ F.mulVS sz r a s i = F.mul (a i) s ∧
      F.divVV sz r a b i = F.div (a i) (b i) ∧ F.divVS sz r a s i = F.div (a i) s ∧
      F.addVV sz r a b i = F.add (a i) (b i) ∧ F.addVS sz r a s i = F.add (a i) s ∧
      F.subVV sz r a b i = F.sub (a i) (b i) ∧ F.subVS sz r a s i = F.sub (a i) s ∧
      F.negV sz r a i = F.neg (a i) ∧ F.invV sz r a i = F.inv (a i) ∧
      F.axpyVV sz r s a b i = F.axpy s (a i) (b i) ∧ F.axpyVS sz r s a c i = F.axpy s (a i) c ∧
      F.axpyinV sz r s a i = F.axpyin (r i) s (a i) ∧
      F.axmyVV sz r s a b i = F.axmy s (a i) (b i) ∧ F.axmyVS sz r s a c i = F.axmy s (a i) c ∧
      F.maxpyinV sz r s a i = F.maxpyin (r i) s (a i)) ∧
    (sz ≤ i →
      F.mulVV sz r a b i = r i ∧ F.mulVS sz r a s i = r i ∧ F.divVV sz r a b i = r i ∧ F.divVS sz r a s i = r i ∧
      F.addVV sz r a b i = r i ∧ F.addVS sz r a s i = r i ∧ F.subVV sz r a b i = r i ∧ F.subVS sz r a s i = r i ∧
      F.negV sz r a i = r i ∧ F.invV sz r a i = r i ∧ F.axpyVV sz r s a b i = r i ∧ F.axpyVS sz r s a c i = r i ∧
      F.axpyinV sz r s a i = r i ∧ F.axmyVV sz r s a b i = r i ∧ F.axmyVS sz r s a c i = r i ∧
      F.maxpyinV sz r s a i = r i) := by
  have L := fun (body : Nat → (Nat → Int) → Int) (h : ∀ i r r', r i = r' i → body i r = body i r') =>
    arrLoop_spec body h sz r i
  have c1 : ∀ (f : Nat → Int), ∀ i (r r' : Nat → Int), r i = r' i → (fun i (_ : Nat → Int) => f i) i r = (fun i _ => f i) i r' :=
    fun _ _ _ _ _ => rfl
  constructor
  · intro h
    refine ⟨(L _ (c1 _)).1 h, (L _ (c1 _)).1 h, (L _ (c1 _)).1 h, (L _ (c1 _)).1 h, (L _ (c1 _)).1 h, (L _ (c1 _)).1 h,
      (L _ (c1 _)).1 h, (L _ (c1 _)).1 h, (L _ (c1 _)).1 h, (L _ (c1 _)).1 h, (L _ (c1 _)).1 h, (L _ (c1 _)).1 h, ?_,
      (L _ (c1 _)).1 h, (L _ (c1 _)).1 h, ?_⟩
    · exact (L (fun i r => let tmp := r i; MULADD F.mun F.pl s (a i) tmp) (by intro i r r' e; simp only [e])).1 h
    · exact (L (fun i r => let tmp := MUL F.mun s (a i); AUTOSUB F.mo F.mun F.pl (r i) tmp) (by intro i r r' e; simp only [e])).1 h
  · intro h
    refine ⟨(L _ (c1 _)).2 h, (L _ (c1 _)).2 h, (L _ (c1 _)).2 h, (L _ (c1 _)).2 h, (L _ (c1 _)).2 h, (L _ (c1 _)).2 h,
      (L _ (c1 _)).2 h, (L _ (c1 _)).2 h, (L _ (c1 _)).2 h, (L _ (c1 _)).2 h, (L _ (c1 _)).2 h, (L _ (c1 _)).2 h, ?_,
      (L _ (c1 _)).2 h, (L _ (c1 _)).2 h, ?_⟩
    · exact (L (fun i r => let tmp := r i; MULADD F.mun F.pl s (a i) tmp) (by intro i r r' e; simp only [e])).2 h
    · exact (L (fun i r => let tmp := MUL F.mun s (a i); AUTOSUB F.mo F.mun F.pl (r i) tmp) (by intro i r r' e; simp only [e])).2 h

/-- The loop header of the pinned tree, `for (i = sz; --i;)`: full statement (“every index `i < sz` is stored,
    for every `sz`”) is false … -/
theorem pinned_array_loop_counterexample :
    ¬ (∀ (body : Nat → (Nat → Int) → Int) (sz : Nat) (r : Nat → Int) (i : Nat), i < sz →
        ∃ r', arrLoopPinned body sz r = some r' ∧ r' i = body i r) := by
  intro h
  obtain ⟨r', h1, h2⟩ := h (fun _ _ => 1) 1 (fun _ => 0) 0 (by decide)
  simp only [arrLoopPinned] at h1
  have : r' = fun _ => 0 := by
    have := Option.some.inj h1
    exact this.symm
  rw [this] at h2
  exact absurd h2 (by decide)

theorem arrLoopFrom1_spec (body : Nat → (Nat → Int) → Int)
    (hloc : ∀ i r r', r i = r' i → body i r = body i r') :
    ∀ (n : Nat) (r : Nat → Int) (i : Nat),
      (1 ≤ i → i ≤ n → arrLoopFrom1 body n r i = body i r) ∧ ((i = 0 ∨ n < i) → arrLoopFrom1 body n r i = r i) := by
  intro n
  induction n with
  | zero => intro r i; exact ⟨fun h1 h2 => by omega, fun _ => rfl⟩
  | succ n ih =>
    intro r i
    have hi := ih (upd r (n + 1) (body (n + 1) r)) i
    simp only [arrLoopFrom1]
    constructor
    · intro h1 h2
      by_cases hn : i ≤ n
      · rw [hi.1 h1 hn]
        apply hloc
        unfold upd
        have : i ≠ n + 1 := by omega
        simp only [this, ↓reduceIte]
      · have : i = n + 1 := by omega
        subst this
        rw [hi.2 (Or.inr (Nat.lt_succ_self _))]
        unfold upd; simp only [↓reduceIte]
    · intro h
      rw [hi.2 (by omega)]
      unfold upd
      have : i ≠ n + 1 := by omega
      simp only [this, ↓reduceIte]

/-- … and this is what it did: for `sz ≥ 1` indices `1 … sz-1` are stored and index 0 keeps its old content;
    for `sz = 0` the loop runs off the arrays. -/
theorem pinned_array_loop_partial (body : Nat → (Nat → Int) → Int)
    (hloc : ∀ i r r', r i = r' i → body i r = body i r') (sz : Nat) (r : Nat → Int) :
    (sz = 0 → arrLoopPinned body sz r = none) ∧
    (1 ≤ sz → ∃ r', arrLoopPinned body sz r = some r' ∧ r' 0 = r 0 ∧ ∀ i, 1 ≤ i → i < sz → r' i = body i r) := by
  constructor
  · intro h; simp [arrLoopPinned, h]
  · intro h
    refine ⟨arrLoopFrom1 body (sz - 1) r, ?_, ?_, ?_⟩
    · have : sz ≠ 0 := by omega
      simp [arrLoopPinned, this]
    · exact ((arrLoopFrom1_spec body hloc (sz - 1) r 0).2 (Or.inl rfl))
    · intro i h1 h2
      exact (arrLoopFrom1_spec body hloc (sz - 1) r i).1 h1 (by omega)

end arrays

/-! ### dot product -/
section dot
variable {K : Type*} [CommRing K] {F : Dom} {q : Int} {γ : K} {elt : Int → K}
open Finset

theorem dotLoop_correct (H : ZechHyp F q γ elt) (a b : Nat → Int)
    (ha : ∀ i, Canon q (a i)) (hb : ∀ i, Canon q (b i)) :
    ∀ (n : Nat) (r0 : Int), Canon q r0 →
      elt (F.dotLoop a b n r0) = elt r0 + ∑ i ∈ range n, elt (a (i + 1)) * elt (b (i + 1)) ∧ Canon q (F.dotLoop a b n r0) := by
  intro n
  induction n with
  | zero => intro r0 h0; simp [Dom.dotLoop, h0]
  | succ n ih =>
    intro r0 h0
    simp only [Dom.dotLoop]
    have hm := MUL_correct H (a (n + 1)) (b (n + 1)) (ha _) (hb _)
    have hadd := ADD_correct H r0 _ h0 hm.2
    obtain ⟨e, c⟩ := ih _ hadd.2
    refine ⟨?_, c⟩
    rw [e, hadd.1, hm.1, sum_range_succ]; ring

/-- `dotprod(r, sz, a, b) = Σ_{i<sz} a_i b_i` for every `sz < 2^31` (the loop counter is an `int`). -/
theorem dotprod_correct (H : ZechHyp F q γ elt) (sz : Nat) (hsz : sz < 2147483648) (a b : Nat → Int)
    (ha : ∀ i, Canon q (a i)) (hb : ∀ i, Canon q (b i)) :
    ∃ r, F.dotprod sz a b = some r ∧ Canon q r ∧ elt r = ∑ i ∈ range sz, elt (a i) * elt (b i) := by
  have hq := H.q_ge
  unfold Dom.dotprod
  by_cases h0 : sz = 0
  · subst h0
    refine ⟨0, by simp, ⟨by omega, by omega⟩, ?_⟩
    simp [H.elt_zero]
  · simp only [h0, hsz, ↓reduceIte]
    have hm := MUL_correct H (a 0) (b 0) (ha _) (hb _)
    obtain ⟨e, c⟩ := dotLoop_correct H a b ha hb (sz - 1) _ hm.2
    refine ⟨_, rfl, c, ?_⟩
    rw [e, hm.1]
    have : sz = (sz - 1) + 1 := by omega
    rw [this, sum_range_succ', Nat.add_sub_cancel]
    ring

example : (2 : Nat) < 2147483648 := by decide
end dot

/-! ### GF2 -/
def b2z (b : Bool) : ZMod 2 := if b then 1 else 0

/-- `false ↦ 0, true ↦ 1` is a bijection and every GF2 operation is the arithmetic of `ZMod 2` under it
    (division and inversion for a non-zero divisor). -/
theorem gf2_ops_correct :
    Function.Bijective b2z ∧
    ∀ a b c : Bool,
      b2z (GF2.add a b) = b2z a + b2z b ∧ b2z (GF2.sub a b) = b2z a - b2z b ∧ b2z (GF2.mul a b) = b2z a * b2z b ∧
      b2z (GF2.neg a) = - b2z a ∧ (b = true → b2z (GF2.div a b) * b2z b = b2z a) ∧ (a = true → b2z (GF2.inv a) * b2z a = 1) ∧
      b2z (GF2.axpy a b c) = b2z a * b2z b + b2z c ∧ b2z (GF2.axmy a b c) = b2z a * b2z b - b2z c ∧
      b2z (GF2.maxpy a b c) = b2z c - b2z a * b2z b ∧ b2z (GF2.axpyin c a b) = b2z c + b2z a * b2z b ∧
      b2z (GF2.axmyin c a b) = b2z a * b2z b - b2z c ∧ b2z (GF2.maxpyin c a b) = b2z c - b2z a * b2z b := by
  constructor
  · constructor
    · intro x y; cases x <;> cases y <;> decide
    · intro z
      have : z = 0 ∨ z = 1 := by revert z; decide
      rcases this with h | h
      · exact ⟨false, by rw [h]; rfl⟩
      · exact ⟨true, by rw [h]; rfl⟩
  · intro a b c; cases a <;> cases b <;> cases c <;> decide

/-! ### from the dumped tables of a constructed object to the hypotheses above -/
section tables
open Givaro.Spec.GFq

/-- The run-time check is sound for the theorems: if `tablesValid` accepts the dumped tables of an object and `dec`
    decodes p-adic codes into a commutative ring `K` compatibly with the checker's code arithmetic (`csucc`, `cmul`:
    successor and product modulo the object's polynomial), then the object's `Dom` satisfies `ZechHyp`, hence
    (`zech_ops_correct` …) every operation on indices is the arithmetic of `K` on the decoded polynomials. -/
theorem tablesValid_gives_ZechHyp {K : Type*} [CommRing K] {dec : Nat → K} (T : Tables)
    (hv : T.tablesValid = true) (D : Decoding K T.F dec) :
    ZechHyp T.dom (T.q : Int) (dec (T.l2p 1)) (fun i => dec (T.l2p i.toNat)) :=
  Givaro.Lemmas.GFqZech.tablesValid_gives_ZechHyp T hv D

/-- Prime fields, end to end: for `k = 1` the decoding is `Nat.cast : ℕ → ZMod p`, so a table dump accepted by
    `tablesValid` makes every scalar operation of the object the arithmetic of `ZMod p` on `log2pol`-decoded values. -/
theorem prime_field_tables_sound (T : Tables) (hv : T.tablesValid = true) (hk : T.F.k = 1) (hp : 2 ≤ T.F.p)
    (a b c : Int) (ha : Canon T.q a) (hb : Canon T.q b) (hc : Canon T.q c) :
    let elt : Int → ZMod T.F.p := fun i => ((T.l2p i.toNat : Nat) : ZMod T.F.p)
    elt (T.dom.add a b) = elt a + elt b ∧ elt (T.dom.sub a b) = elt a - elt b ∧ elt (T.dom.mul a b) = elt a * elt b ∧
    elt (T.dom.neg a) = - elt a ∧ elt (T.dom.axpy a b c) = elt a * elt b + elt c ∧
    (b ≠ 0 → elt (T.dom.inv b) * elt b = 1 ∧ elt (T.dom.div a b) * elt b = elt a) := by
  intro elt
  have H := Givaro.Lemmas.GFqZech.tablesValid_gives_ZechHyp T hv (decoding_prime T.F hk hp)
  have h := zech_ops_correct H a b c ha hb hc
  refine ⟨h.2.2.1.1, h.2.2.2.2.1.1, h.1.1, h.2.2.2.2.2.2.1.1, h.2.2.2.2.2.2.2.2.1.1, ?_⟩
  intro hb0
  have h2 := zech_inv_div_correct H a b ha hb hb0
  exact ⟨h2.1.1, h2.2.2.1.1⟩

/-- Extension fields, end to end up to the choice of the quotient ring: let `K` be **any** commutative ring in which
    `p = 0` and which contains a root `x` of the object's polynomial `f = X^k + flow` (e.g. `K = F_p[X]/(f)`, `x` the class
    of `X`), and decode an index `i` as the polynomial `log2pol[i]` (p-adic digits) evaluated at `x`.  If `tablesValid`
    accepts the dumped tables then every scalar operation of the object is the arithmetic of `K` on decoded elements. -/
theorem extension_field_tables_sound {K : Type*} [CommRing K] (x : K) (T : Tables) (hv : T.tablesValid = true)
    (hp0 : ((T.F.p : Nat) : K) = 0) (hp : 2 ≤ T.F.p) (hk : 1 ≤ T.F.k)
    (hroot : 2 ≤ T.F.k → ev x T.F.flow + x ^ T.F.k = 0)
    (a b c : Int) (ha : Canon T.q a) (hb : Canon T.q b) (hc : Canon T.q c) :
    let elt : Int → K := fun i => ev x (digits T.F.p T.F.k (T.l2p i.toNat))
    elt (T.dom.add a b) = elt a + elt b ∧ elt (T.dom.sub a b) = elt a - elt b ∧ elt (T.dom.mul a b) = elt a * elt b ∧
    elt (T.dom.neg a) = - elt a ∧ elt (T.dom.axpy a b c) = elt a * elt b + elt c ∧
    elt (T.dom.axmy a b c) = elt a * elt b - elt c ∧ elt (T.dom.maxpy a b c) = elt c - elt a * elt b ∧
    (b ≠ 0 → elt (T.dom.inv b) * elt b = 1 ∧ elt (T.dom.div a b) * elt b = elt a) ∧
    Canon T.q (T.dom.add a b) ∧ Canon T.q (T.dom.mul a b) := by
  intro elt
  have D := decoding_of_root x hp0 T.F rfl hp hk hroot
  have H := Givaro.Lemmas.GFqZech.tablesValid_gives_ZechHyp T hv D
  have h := zech_ops_correct H a b c ha hb hc
  refine ⟨h.2.2.1.1, h.2.2.2.2.1.1, h.1.1, h.2.2.2.2.2.2.1.1, h.2.2.2.2.2.2.2.2.1.1,
    h.2.2.2.2.2.2.2.2.2.2.2.2.1.1, h.2.2.2.2.2.2.2.2.2.2.2.2.2.1, ?_, h.2.2.1.2, h.1.2⟩
  intro hb0
  have h2 := zech_inv_div_correct H a b ha hb hb0
  exact ⟨h2.1.1, h2.2.2.1.1⟩

/-- `tablesValid_sound` against Mathlib's `AdjoinRoot`: let `p` be prime, `f = X^k + Σ flow_i X^i ∈ (ZMod p)[X]` the polynomial
    the object reports, `K = (ZMod p)[X] ⧸ (f)`, and let the index `i` stand for the class of the polynomial whose p-adic digits
    are `log2pol[i]`.  If `tablesValid` accepts the dumped tables then the object's tables satisfy `ZechHyp` in `K`, hence
    (`zech_ops_correct`, `zech_inv_div_correct`, `dotprod_correct`) every operation equals polynomial arithmetic modulo `f`. -/
theorem tablesValid_sound_adjoinRoot (T : Tables) [Fact (Nat.Prime T.F.p)] (hv : T.tablesValid = true) (hk : 1 ≤ T.F.k) :
    ZechHyp T.dom (T.q : Int)
      (AdjoinRoot.mk (modulus T.F) (toPoly T.F.p (digits T.F.p T.F.k (T.l2p 1))))
      (fun i => AdjoinRoot.mk (modulus T.F) (toPoly T.F.p (digits T.F.p T.F.k (T.l2p i.toNat)))) :=
  Givaro.Lemmas.GFqZech.tablesValid_gives_ZechHyp T hv (decoding_adjoinRoot T.F hk)

/-- **valid_implies_field** (for every `p`, `k` and every table — not per object): if the checker accepts the tables then `p` is
    prime, the reported polynomial `f = X^k + flow` is irreducible over `ZMod p`, `K = (ZMod p)[X] ⧸ (f)` is a field with `p^k`
    elements, decoding (index `i` ↦ class of the polynomial with p-adic digits `log2pol[i]`) is a bijection from the canonical
    indices `[0, q)` onto `K`, the advertised generator `γ = dec (log2pol 1)` generates `Kˣ` (every non-zero element is `γ^i`,
    `1 ≤ i ≤ q-1`), and the tables satisfy `ZechHyp` in `K`. -/
theorem valid_implies_field (T : Tables) (hv : T.tablesValid = true) :
    Nat.Prime T.F.p ∧ Irreducible (modulus T.F) ∧ IsField (AdjoinRoot (modulus T.F)) ∧
    Nat.card (AdjoinRoot (modulus T.F)) = T.F.p ^ T.F.k ∧
    Function.Bijective (fun i : Fin T.q => decA T.F (T.l2p i.val)) ∧
    (∀ x : AdjoinRoot (modulus T.F), x ≠ 0 → ∃ i : Nat, 1 ≤ i ∧ i ≤ T.q - 1 ∧ x = decA T.F (T.l2p 1) ^ i) ∧
    ZechHyp T.dom (T.q : Int) (decA T.F (T.l2p 1)) (fun i => decA T.F (T.l2p i.toNat)) :=
  valid_implies_field_core T hv

/-- **Refinement theorem**: `∀ tables, Valid tables → ∀ a b c, decode (op a b c) = decode a ⊙ decode b ⊙ decode c` for every
    scalar operation of `GFqDom`, in the field `K = (ZMod p)[X] ⧸ (f)` of `valid_implies_field`, with canonical results;
    inversion and division as `inv(b)·b = 1`, `div(a,b)·b = a` for `b ≠ 0`. -/
theorem gfq_refinement (T : Tables) (hv : T.tablesValid = true) (a b c : Int)
    (ha : Canon T.q a) (hb : Canon T.q b) (hc : Canon T.q c) :
    let dec : Int → AdjoinRoot (modulus T.F) := fun i => decA T.F (T.l2p i.toNat)
    (dec (T.dom.add a b) = dec a + dec b ∧ dec (T.dom.addin a b) = dec a + dec b ∧
     dec (T.dom.sub a b) = dec a - dec b ∧ dec (T.dom.subin a b) = dec a - dec b ∧
     dec (T.dom.mul a b) = dec a * dec b ∧ dec (T.dom.mulin a b) = dec a * dec b ∧
     dec (T.dom.neg a) = - dec a ∧ dec (T.dom.negin a) = - dec a ∧
     dec (T.dom.axpy a b c) = dec a * dec b + dec c ∧ dec (T.dom.axpyin c a b) = dec c + dec a * dec b ∧
     dec (T.dom.maxpyin c a b) = dec c - dec a * dec b ∧ dec (T.dom.axmyin c a b) = dec a * dec b - dec c ∧
     dec (T.dom.axmy a b c) = dec a * dec b - dec c ∧ dec (T.dom.maxpy a b c) = dec c - dec a * dec b) ∧
    (b ≠ 0 → dec (T.dom.inv b) * dec b = 1 ∧ dec (T.dom.invin b) * dec b = 1 ∧
             dec (T.dom.div a b) * dec b = dec a ∧ dec (T.dom.divin a b) * dec b = dec a) ∧
    Canon T.q (T.dom.add a b) ∧ Canon T.q (T.dom.sub a b) ∧ Canon T.q (T.dom.mul a b) ∧ Canon T.q (T.dom.neg a) ∧
    Canon T.q (T.dom.axpy a b c) ∧ Canon T.q (T.dom.axmy a b c) ∧ Canon T.q (T.dom.maxpy a b c) ∧
    (b ≠ 0 → Canon T.q (T.dom.inv b) ∧ Canon T.q (T.dom.div a b)) := by
  intro dec
  have H := (valid_implies_field_core T hv).2.2.2.2.2.2
  have h := zech_ops_correct H a b c ha hb hc
  obtain ⟨h1, h2, h3, h4, h5, h6, h7, h8, h9, h10, h11, h12, h13, h14⟩ := h
  refine ⟨⟨h3.1, h4.1, h5.1, h6.1, h1.1, h2.1, h7.1, h8.1, h9.1, h10.1, h11.1, h12.1, h13.1, h14.1⟩, ?_,
    h3.2, h5.2, h1.2, h7.2, h9.2, h13.2, h14.2, ?_⟩
  · intro hb0
    have h2 := zech_inv_div_correct H a b ha hb hb0
    exact ⟨h2.1.1, h2.2.1.1, h2.2.2.1.1, h2.2.2.2.1⟩
  · intro hb0
    have h2 := zech_inv_div_correct H a b ha hb hb0
    exact ⟨h2.1.2.1, h2.2.2.1.2⟩

/-- The abstract-field formulation: for every finite field `Fd` with `q` elements and every generator `g` of `Fdˣ`, if the
    sentinels and the `plus1` table are those of `(Fd, g)` then `0 ↦ 0, i ↦ g^i` is a bijection from the canonical indices onto
    `Fd` under which every scalar operation is exact. -/
theorem zech_exact_for_field_generator {Fd : Type*} [Field Fd] [Fintype Fd] (D : Dom) (q : Nat)
    (hq : Fintype.card Fd = q) (g : Fd) (hg : orderOf g = q - 1)
    (hmun : D.mun = (q : Int) - 1) (hmo1 : 1 ≤ D.mo) (hmo2 : D.mo ≤ (q : Int) - 1) (hmo : g ^ D.mo.toNat = -1)
    (hpl0 : ∀ i : Int, 1 ≤ i → i ≤ (q : Int) - 1 → g ^ i.toNat + 1 = 0 → D.pl i = 0)
    (hpl1 : ∀ i : Int, 1 ≤ i → i ≤ (q : Int) - 1 → g ^ i.toNat + 1 ≠ 0 →
      -((q : Int) - 1) < D.pl i ∧ D.pl i < 0 ∧ g ^ (D.pl i + ((q : Int) - 1)).toNat = g ^ i.toNat + 1)
    (a b c : Int) (ha : Canon q a) (hb : Canon q b) (hc : Canon q c) :
    let dec : Int → Fd := fun i => if i = 0 then 0 else g ^ i.toNat
    Function.Bijective (fun i : Fin q => dec (i.val : Int)) ∧
    dec (D.add a b) = dec a + dec b ∧ dec (D.sub a b) = dec a - dec b ∧ dec (D.mul a b) = dec a * dec b ∧
    dec (D.neg a) = - dec a ∧ dec (D.axpy a b c) = dec a * dec b + dec c ∧ dec (D.axmy a b c) = dec a * dec b - dec c ∧
    dec (D.maxpy a b c) = dec c - dec a * dec b ∧
    (b ≠ 0 → dec (D.inv b) = (dec b)⁻¹ ∧ dec (D.div a b) = dec a / dec b) := by
  intro dec
  obtain ⟨H, hbij⟩ := zechHyp_of_field_generator D q hq g hg hmun hmo1 hmo2 hmo hpl0 hpl1
  have h := zech_ops_correct H a b c ha hb hc
  refine ⟨hbij, h.2.2.1.1, h.2.2.2.2.1.1, h.1.1, h.2.2.2.2.2.2.1.1, h.2.2.2.2.2.2.2.2.1.1,
    h.2.2.2.2.2.2.2.2.2.2.2.2.1.1, h.2.2.2.2.2.2.2.2.2.2.2.2.2.1, ?_⟩
  intro hb0
  have h2 := zech_inv_div_correct H a b ha hb hb0
  have hbne : dec b ≠ 0 := by
    intro hz
    have h3 : dec (D.inv b) * dec b = 1 := h2.1.1
    rw [hz, mul_zero] at h3
    exact zero_ne_one h3
  constructor
  · exact eq_inv_of_mul_eq_one_left h2.1.1
  · rw [eq_div_iff hbne]; exact h2.2.2.1.1

/-! ### construction_valid -/
open Givaro.Model.GFqCtor in
/-- **construction_valid** (every `k ≥ 1`): the table fill of the three constructors, as written (`Model/GFqCtor.lean`), yields
    tables accepted by the checker — hence (`valid_implies_field`, `gfq_refinement`) a field in which every operation is exact —
    for every prime `p`, every monic modulus `f` of degree `k` that is irreducible over `ZMod p` and every generator code
    `g < p^k` whose class has multiplicative order `p^k - 1`.  The last two hypotheses are the contract of the search for the
    irreducible / primitive polynomial (`ixe_irreducible`, `give_prim_root`: C09). -/
theorem construction_valid (F : Field) (g : Nat) (hp : Nat.Prime F.p) (hk : 1 ≤ F.k) (hmon : F.k = 1 ∨ F.monic = true)
    (hg : g < F.q) (hirr : Irreducible (modulus F)) (hord : orderOf (decA F g) = F.q - 1) :
    (construct F g).tablesValid = true := by
  haveI : Fact (Nat.Prime F.p) := ⟨hp⟩
  haveI : Fact (Irreducible (modulus F)) := ⟨hirr⟩
  exact construct_tablesValid F g hk hmon hg hord

open Givaro.Model.GFqCtor in
/-- **construction_valid for prime fields** (`k = 1`, every prime `p`): with `seed` the value returned by the primitive-root
    search — any `seed < p` of multiplicative order `p - 1` modulo `p` (post-condition of `lowest_prim_root`, C13) — the loop
    `accu = accu * seed % P` and the two table loops produce valid tables; no assumption on `_irred` (left unset by the code). -/
theorem construction_valid_prime (p seed irred : Nat) (hp : Nat.Prime p) (hs : seed < p)
    (hord : orderOf ((seed : Nat) : ZMod p) = p - 1) :
    (construct { p := p, k := 1, irred := irred } seed).tablesValid = true := by
  haveI : Fact (Nat.Prime ({ p := p, k := 1, irred := irred } : Field).p) := ⟨hp⟩
  have hq : ({ p := p, k := 1, irred := irred } : Field).q = p := by simp [Field.q]
  apply construction_valid _ seed hp (le_refl _) (Or.inl rfl) (by rw [hq]; exact hs)
    (modulus_irreducible_k1 _ rfl)
  rw [orderOf_decA_k1 _ rfl, hq]; exact hord

open Givaro.Model.GFqCtor in
/-- **The prime-field constructor end to end** (every prime `p`): the generator search `lowest_prim_root` as written, fed with
    `phi(p) = p - 1` and the list `Lf` of the prime factors of `p - 1` (contract of the totient / factorisation routines, C13/C12),
    followed by the table fill as written, yields valid tables. -/
theorem prime_field_constructor_valid (p irred : Nat) (hp : Nat.Prime p) (Lf : List Nat)
    (hLf : ∀ r, r ∈ Lf ↔ r.Prime ∧ r ∣ p - 1) :
    (construct { p := p, k := 1, irred := irred } (lowestPrimRoot p (p - 1) Lf)).tablesValid = true := by
  obtain ⟨_, h2, h3⟩ := lowestPrimRoot_post p hp Lf hLf
  exact construction_valid_prime p _ irred hp h2 h3

/-- post-condition of the generator search alone -/
theorem lowest_prim_root_post (p : Nat) (hp : Nat.Prime p) (Lf : List Nat) (hLf : ∀ r, r ∈ Lf ↔ r.Prime ∧ r ∣ p - 1) :
    0 < Givaro.Model.GFqCtor.lowestPrimRoot p (p - 1) Lf ∧ Givaro.Model.GFqCtor.lowestPrimRoot p (p - 1) Lf < p ∧
    orderOf ((Givaro.Model.GFqCtor.lowestPrimRoot p (p - 1) Lf : Nat) : ZMod p) = p - 1 :=
  lowestPrimRoot_post p hp Lf hLf

/-- non-vacuity: for `p = 7` the factor list `[2, 3]` satisfies the contract and the search returns 3 -/
example : Givaro.Model.GFqCtor.lowestPrimRoot 7 6 [2, 3] = 3 := by decide

/-- non-vacuity of the hypotheses: 2 has order 2 modulo 3 -/
example : orderOf ((2 : Nat) : ZMod 3) = 3 - 1 := by
  rw [orderOf_eq_iff (by decide)]
  refine ⟨by decide, ?_⟩
  intro m hm hm0
  have : m = 1 := by omega
  subst this; decide

/-- non-vacuity: the tables of GF(3) as the library builds them (γ = 2) are accepted -/
example : ({ F := { p := 3, k := 1, irred := 0 }, mOne := 1, log2pol := #[0, 2, 1], pol2log := #[0, 2, 1],
             plus1 := #[0, 0, -1] } : Tables).tablesValid = true := by decide +kernel
end tables

/-! ### the machine-word conversions -/
section word
open Givaro

/-- The word-level transcription of the macros (every `(TT)`/`(Rep)` conversion written out, `Model.Zech.Word`) computes
    the same values as the plain `Int` model used above, for all canonical operands, whenever the word type represents
    `[-B, B]` exactly with `4(q-1) ≤ B` and the sentinels / table entries are in range (`WordFits`). -/
theorem word_level_macros_agree {w : Int → Int} {B : Int} {F : Dom} (W : WordFits w B F) (a b c : Int)
    (ha : 0 ≤ a ∧ a ≤ F.mun) (hb : 0 ≤ b ∧ b ≤ F.mun) (hc : 0 ≤ c ∧ c ≤ F.mun) :
    Word.ADD w F.mun F.pl a b = ADD F.mun F.pl a b ∧
    Word.NEG w F.mo F.mun a = NEG F.mo F.mun a ∧
    Word.SUB w F.mo F.mun F.pl a b = SUB F.mo F.mun F.pl a b ∧
    Word.AUTOSUB w F.mo F.mun F.pl a b = AUTOSUB F.mo F.mun F.pl a b ∧
    Word.MUL w F.mun a b = MUL F.mun a b ∧
    Word.INV w F.mun a = INV F.mun a ∧
    Word.DIV w F.mun a b = DIV F.mun a b ∧
    Word.MULADD w F.mun F.pl a b c = MULADD F.mun F.pl a b c :=
  ⟨ADDw_eq W a b ha hb, NEGw_eq W a ha, SUBw_eq W a b ha hb, AUTOSUBw_eq W a b ha hb, MULw_eq W a b ha hb,
   INVw_eq W a ha, DIVw_eq W a b ha hb, MULADDw_eq W a b c ha hb hc⟩

/-- `GFqDom<int32_t>`: `int32_t` is wide enough for every `q ≤ 65536 = maxCardinality()` … -/
theorem wordFits_int32 (F : Dom) (h0 : 0 ≤ F.mun) (hq : F.mun ≤ 65535) (m0 : 0 ≤ F.mo) (m1 : F.mo ≤ F.mun)
    (p0 : ∀ i, -F.mun ≤ F.pl i) (p1 : ∀ i, F.pl i ≤ 0) : WordFits wrapS32 2147483647 F :=
  { id_on := by intro x h1 h2; unfold wrapS32; omega
    room := by omega, mun_nonneg := h0, mo_lo := m0, mo_hi := m1, pl_lo := p0, pl_hi := p1 }

/-- … and `GFqDom<int64_t>`: `int64_t` for every `q ≤ 2^32 = maxCardinality()`. -/
theorem wordFits_int64 (F : Dom) (h0 : 0 ≤ F.mun) (hq : F.mun ≤ 4294967295) (m0 : 0 ≤ F.mo) (m1 : F.mo ≤ F.mun)
    (p0 : ∀ i, -F.mun ≤ F.pl i) (p1 : ∀ i, F.pl i ≤ 0) : WordFits wrapS64 9223372036854775807 F :=
  { id_on := by intro x h1 h2; unfold wrapS64; omega
    room := by omega, mun_nonneg := h0, mo_lo := m0, mo_hi := m1, pl_lo := p0, pl_hi := p1 }

example : WordFits wrapS32 2147483647 demoDom :=
  wordFits_int32 demoDom (by decide) (by decide) (by decide) (by decide)
    (by intro i; show -2 ≤ (if i = 2 then -1 else 0 : Int); split <;> omega)
    (by intro i; show (if i = 2 then -1 else 0 : Int) ≤ 0; split <;> omega)
end word

/-! ### the polynomial-quotient extension `Extension<BaseField>` -/
section extension
open Givaro.Model.GFqExtension Givaro.Lemmas.GFqExtension Polynomial

/-- **Extension<> is `R[X] ⧸ (f)`**: for every base field `R`, every stored polynomial type `E` with interpretation `val : E → R[X]`
    under which the `Poly1Dom` operations satisfy their C08 laws, every irreducible stored modulus `f = val _irred` (any degree)
    and all operands: each member function of `Extension` as written returns a polynomial whose class is the field operation on the
    classes of its operands — `inv(a)·a = 1`, `div(a,b)·b = a` for `b ≢ 0` — and which is reduced (`deg < deg f`) whenever the
    operands that are merely added are; reduced polynomials are in bijection with `R[X] ⧸ (f)`. -/
theorem extension_ops_exact {E : Type} {R : Type*} [_root_.Field R] (X : Ext E) (val : E → R[X]) (L : PolyLaws X.pD val)
    [Fact (Irreducible (val X.irred))] (a b c : E) :
    (cls X val (X.add a b) = cls X val a + cls X val b ∧ cls X val (X.sub a b) = cls X val a - cls X val b ∧
     cls X val (X.neg a) = - cls X val a ∧ cls X val (X.mul a b) = cls X val a * cls X val b ∧
     cls X val (X.axpy a b c) = cls X val a * cls X val b + cls X val c ∧
     cls X val (X.axmy a b c) = cls X val a * cls X val b - cls X val c ∧
     cls X val (X.maxpy a b c) = cls X val c - cls X val a * cls X val b ∧
     cls X val (X.maxpyin c a b) = cls X val c - cls X val a * cls X val b ∧
     cls X val (X.axmyin c a b) = cls X val a * cls X val b - cls X val c ∧
     cls X val (X.axpyin c a b) = cls X val c + cls X val a * cls X val b ∧
     cls X val (X.mulin a b) = cls X val a * cls X val b) ∧
    (cls X val b ≠ 0 → cls X val (X.inv b) * cls X val b = 1 ∧ cls X val (X.invin b) * cls X val b = 1 ∧
       cls X val (X.div a b) * cls X val b = cls X val a ∧ cls X val (X.divin a b) * cls X val b = cls X val a ∧
       Reduced X val (X.inv b) ∧ Reduced X val (X.div a b) ∧ Reduced X val (X.divin a b)) ∧
    (Reduced X val (X.mul a b) ∧ Reduced X val (X.maxpy a b c) ∧ Reduced X val (X.maxpyin c a b) ∧
     Reduced X val (X.axmyin c a b) ∧ Reduced X val (X.axpyin c a b)) ∧
    (Reduced X val a → Reduced X val b → Reduced X val (X.add a b) ∧ Reduced X val (X.sub a b) ∧ Reduced X val (X.neg a)) ∧
    (Reduced X val c → Reduced X val (X.axpy a b c) ∧ Reduced X val (X.axmy a b c)) := by
  refine ⟨⟨(add_exact X val L a b).1, (sub_exact X val L a b).1, (neg_exact X val L a).1, (mul_exact X val L a b).1,
    (axpy_exact X val L a b c).1, (axmy_exact X val L a b c).1, (maxpy_exact X val L a b c).1, (maxpyin_exact X val L c a b).1,
    (axmyin_exact X val L c a b).1, (axpyin_exact X val L c a b).1, (mul_exact X val L a b).1⟩, ?_,
    ⟨(mul_exact X val L a b).2, (maxpy_exact X val L a b c).2, (maxpyin_exact X val L c a b).2, (axmyin_exact X val L c a b).2,
     (axpyin_exact X val L c a b).2⟩, ?_, ?_⟩
  · intro hb
    exact ⟨(inv_exact X val L b hb).1, (inv_exact X val L b hb).1, (div_exact X val L a b hb).1, (divin_exact X val L a b hb).1,
      (inv_exact X val L b hb).2, (div_exact X val L a b hb).2, (divin_exact X val L a b hb).2⟩
  · intro ha hb
    exact ⟨(add_exact X val L a b).2 ha hb, (sub_exact X val L a b).2 ha hb, (neg_exact X val L a).2 ha⟩
  · intro hc
    exact ⟨(axpy_exact X val L a b c).2 hc, (axmy_exact X val L a b c).2 hc⟩

/-- elements ↔ classes: `mk` is injective on reduced polynomials and every class has a reduced representative -/
theorem extension_reduced_bijection {E : Type} {R : Type*} [_root_.Field R] (X : Ext E) (val : E → R[X])
    [Fact (Irreducible (val X.irred))] :
    (∀ g h : R[X], g.degree < (val X.irred).degree → h.degree < (val X.irred).degree →
      AdjoinRoot.mk (val X.irred) g = AdjoinRoot.mk (val X.irred) h → g = h) ∧
    (∀ y : AdjoinRoot (val X.irred), ∃ g : R[X], g.degree < (val X.irred).degree ∧ AdjoinRoot.mk (val X.irred) g = y) :=
  reduced_bijection X val

/-- non-vacuity of `PolyLaws`: `E = ℚ[X]` itself with the Euclidean operations satisfies them -/
example : PolyLaws (refOps ℚ) (id : ℚ[X] → ℚ[X]) := refOps_laws ℚ
end extension

/-! ### init from a polynomial over the prime field -/
open Givaro.Spec.GFq Givaro.Model.GFqInit in
/-- **`GFqDom::init(Rep&, const Vector&)`**: for valid tables, any commutative ring `K` with `p = 0` containing a root `x` of the
    defining polynomial, `Pdom.mod(·, Irreducible)` taken by its C08 law, and every coefficient vector `cs` (entries `< p`, any
    length and degree — below, equal to, above `k` — stored leading zeros allowed): the call stays inside `_pol2log` and returns the
    canonical index whose polynomial, evaluated at `x`, is `Σ c_i x^i` (i.e. the element `P mod f` under the bijection). -/
theorem init_from_polynomial_exact {K : Type*} [CommRing K] (x : K) (T : Tables) (hv : T.tablesValid = true)
    (hp0 : ((T.F.p : Nat) : K) = 0) (modF : List Nat → List Nat)
    (hmod : ∀ cs, (modF cs).length = T.F.k ∧ (∀ d ∈ modF cs, d < T.F.p) ∧ ev x (modF cs) = ev x cs)
    (cs : List Nat) (hcs : ∀ c ∈ cs, c < T.F.p) :
    ∃ r, initVec T modF cs = some r ∧ r < T.q ∧ ev x (digits T.F.p T.F.k (T.l2p r)) = ev x cs :=
  initVec_exact x T hv hp0 modF hmod cs hcs

/-! ### GFqKronecker: state machine and Kronecker substitution -/
section kronecker
open Givaro.Model.GFqKron Givaro.Lemmas.GFqKron

/-- Every state reachable from the constructor by **any** sequence of `setShift` / `setMaxn` keeps the invariant
    `base = 2^shift`, `mask = 2^shift - 1`, `maxn · e(p-1)² < 2^shift` (and `p`, `e` unchanged). -/
theorem kronecker_state_invariant (p k : Nat) (ops : List Op) :
    Inv (run (ctor p k) ops) ∧ (run (ctor p k) ops).p = p ∧ (run (ctor p k) ops).k = k :=
  ⟨inv_run p k ops, run_pk p k ops⟩

/-- **decode ∘ (sum of ≤ maxn integer products) ∘ encode is the dot product of the field**, for every reachable state:
    for elements given by coefficient lists of length `k` with entries `< p`, in every commutative ring with `p = 0` and at
    every point `x` (in particular a root of the defining polynomial: the class in `F_p[X]/(f)`), the polynomial that `init`
    unpacks from `Σ_t convert(a_t)·convert(b_t)` evaluates to `Σ_t a_t(x)·b_t(x)`.  One term: the field product. -/
theorem kronecker_substitution_exact {K : Type*} [CommRing K] (x : K) (p k : Nat) (hk : 1 ≤ k) (hp0 : ((p : Nat) : K) = 0)
    (ops : List Op) (ts : List (List Nat × List Nat))
    (hts : ∀ t ∈ ts, t.1.length = k ∧ t.2.length = k ∧ (∀ c ∈ t.1, c ≤ p - 1) ∧ (∀ c ∈ t.2, c ≤ p - 1))
    (hn : ts.length ≤ (run (ctor p k) ops).maxn) :
    ev x (unpack (run (ctor p k) ops) (accInt (run (ctor p k) ops) ts)) = dotK x ts := by
  obtain ⟨hI, e1, e2⟩ := kronecker_state_invariant p k ops
  apply kronecker_dot x _ hI (by rw [e2]; exact hk) (by rw [e1]; exact hp0) ts _ hn
  intro t ht
  rw [e1, e2]
  exact hts t ht

/-- `convert` is injective on elements (coefficient lists of the same length with entries below the digit base). -/
theorem kronecker_convert_injective (s : KState) (a b : List Nat) (hl : a.length = b.length)
    (ha : ∀ c ∈ a, c < 2 ^ s.shift) (hb : ∀ c ∈ b, c < 2 ^ s.shift) (h : convert s a = convert s b) : a = b := by
  apply List.ext_getElem hl
  intro i h1 h2
  have e1 := digit_extract s.shift a ha i
  have e2 := digit_extract s.shift b hb i
  rw [← convert_eq, h, convert_eq, e2] at e1
  simpa [List.getD_eq_getElem?_getD, h1, h2] using e1.symm

/-- Pinned tree (before repair C05_4): `setMaxn` stopped growing the base at `base ≥ m`, so the room condition of the
    invariant was *not* guaranteed — GF(2²), `setMaxn(1)`: base 2 = 1·e(p-1)², the middle coefficient of `(1+X)²` overflows. -/
theorem kronecker_pinned_counterexample :
    ¬ (∀ (p k n : Nat), (setMaxnPinned (ctor p k) n).maxn * epmunsq p k < 2 ^ (setMaxnPinned (ctor p k) n).shift) := by
  intro h
  have := h 2 2 1
  revert this
  decide

example : (run (ctor 3 2) [.maxn 5, .shift 9]).maxn = 63 := by decide
end kronecker

/-! ### GFqExtFast: q-adic transform of accumulated dot products -/
section qadic
open Givaro.Model.GFqKron Givaro.Lemmas.GFqKron Givaro.Model.GFqExt

/-- **`GFqExtFast::init(double)` ∘ (sum of ≤ maxdot() products) ∘ `convert(double)` is the field dot product**: for every `p`,
    `k ≥ 1` and at most `maxdot()` pairs of elements, the accumulated double is an exact integer below `2^53`, and the
    coefficients `init` reads from it, reduced modulo `p`, form the polynomial `Σ_t a_t·b_t` (value at any `x` of any commutative
    ring with `p = 0`; reduced modulo the defining polynomial it is the field dot product). -/
theorem qadic_transform_exact {K : Type*} [CommRing K] (x : K) (p k : Nat) (hk : 1 ≤ k) (hp0 : ((p : Nat) : K) = 0)
    (ts : List (List Nat × List Nat))
    (hts : ∀ t ∈ ts, t.1.length = k ∧ t.2.length = k ∧ (∀ c ∈ t.1, c ≤ p - 1) ∧ (∀ c ∈ t.2, c ≤ p - 1))
    (hn : ts.length ≤ maxdot p k) :
    accDouble k ts < 2 ^ 53 ∧ ev x ((qadicDigits k (accDouble k ts)).map (· % p)) = dotK x ts :=
  ⟨accDouble_lt p k hk ts hts hn, qadic_dot x p k hk hp0 ts hts hn⟩

/-- Pinned tree (before repair C05_6): `maxdot() = _BASE/(P-1)/(P-1)/e` leaves no room — GF(2^8): `maxdot() = 1` although the
    product of two all-ones elements has the middle coefficient `8 = 2^_BITS`. -/
theorem qadic_pinned_counterexample :
    ¬ (∀ p k : Nat, maxdotPinned p k * epmunsq p k < 2 ^ bits k) := by
  intro h
  have := h 2 8
  revert this
  decide

example : maxdot 5 2 = 4095 ∧ maxdot 2 8 = 0 := by decide
end qadic

/-! ### Extension: cardinality / characteristic / exponent -/
section extmeta
open Givaro.Model.GFqExtension

/-- `Extension(bF, ex)` over a base that reports `card = char^expo` reports `char^(exponent())`, the same characteristic,
    `exponent() = ex · expo` and `order() = ex`; by iteration, every tower reports `p^(k·e₁·e₂…)`, `p`, `k·e₁·e₂…`. -/
theorem extension_meta_exact (b : FieldMeta) (ex : Nat) (hb : b.card = b.char ^ b.expo) :
    (extMeta b ex).1.card = (extMeta b ex).1.char ^ (extMeta b ex).1.expo ∧ (extMeta b ex).1.char = b.char ∧
    (extMeta b ex).1.expo = ex * b.expo ∧ (extMeta b ex).2 = ex := by
  refine ⟨?_, rfl, rfl, rfl⟩
  show b.card ^ ex = b.char ^ (ex * b.expo)
  rw [hb, ← pow_mul, Nat.mul_comm]

/-- Pinned tree (before repair C05_5), base of a type `Exponent_Trait` was not specialised for: GF(3²) with order 3 reports
    cardinality `3^6` but exponent 3. -/
theorem extension_meta_pinned_counterexample :
    ¬ (∀ (b : FieldMeta) (ex : Nat), b.card = b.char ^ b.expo →
        (extMetaPinned b ex).1.card = (extMetaPinned b ex).1.char ^ (extMetaPinned b ex).1.expo) := by
  intro h
  have := h { card := 9, char := 3, expo := 2 } 3 (by decide)
  revert this
  decide
end extmeta

/-! ### GFqExt: the "defensive" q-adic init (known finding C05-gfqext-defensive-init) -/
section gfqext
open Givaro.Model.GFqExt

/-- Full statement — “the pre-reduction of `GFqExt::init(Rep&, double)` leaves every valid q-adic encoding
    (`0 < d < 2^(bits·(2k-1))`) unchanged, so that the defensive init agrees with `GFqExtFast::init`” — is false:
    in GF(2^2) (`bits = 17`, `_MODOUT = 3`) the encoding `2^17` of the polynomial `X` is reduced to `2`. -/
theorem gfqext_defensive_init_counterexample :
    ¬ (∀ p k d : Nat, 2 ≤ p → 2 ≤ k → 0 < d → d < 2 ^ (bits k * (2 * k - 1)) → defensiveArg p k d = d) := by
  intro h
  have := h 2 2 131072 (by decide) (by decide) (by decide) (by decide)
  revert this
  decide

/-- What holds on the code as it is: the pre-reduction is the identity below `_MODOUT` (the table size). -/
theorem gfqext_defensive_init_partial (p k d : Nat) (h0 : 0 < d) (h : d < modout p k) : defensiveArg p k d = d := by
  unfold defensiveArg
  simp only [Nat.mod_eq_of_lt h, h0, ↓reduceIte]

example : (0 : Nat) < 2 ∧ 2 < modout 3 4 := by decide
end gfqext

end Givaro.Props.C05
