/-
C05 — extension fields GF(p^k) behave as F_p[X]/(f) with f irreducible.

What is proved here (all for *every* input, no bound on sizes):

* `zech_ops_correct` — every scalar member function of `GFqDom` (model: `Model/Zech.lean`, a branch-by-branch
  transcription of the macros of gfq.inl) returns the index of the ring-theoretic result and a canonical
  index, for all canonical operands, in **any** commutative ring `K` in which the object's three tables satisfy
  `ZechHyp` (0 ↦ 0, i ↦ γ^i, γ^(q-1) = 1, γ^mOne = -1, `plus1` = shifted successor logarithm).
  `inv(a)·a = 1` and `div(a,b)·b = a` for non-zero divisors.
* `array_forms_cover_all_indices` — the sixteen element-wise array forms store the scalar result at every index
  `i < sz` and write nothing else, for every `sz` including 0 (loop header `for (i = sz; i--;)`, repair C05_1);
  `pinned_array_loop_counterexample` / `pinned_array_loop_partial` record what the loop header of the pinned tree
  (`for (i = sz; --i;)`) did instead: index 0 skipped, `sz = 0` runs off the arrays.
* `dotprod_correct` — `dotprod` is `Σ a_i b_i` for `0 < sz < 2^31` and `0` for `sz = 0`.
* `gf2_ops_correct` — the GF2 operations are arithmetic of `ZMod 2` under the bijection `false ↦ 0, true ↦ 1`.
* `zechHyp_gives_field_facts` — under `ZechHyp`, every non-zero element `γ^i` is a unit and γ generates them
  (so the quotient the tables describe has `q - 1` units that are the powers of γ).

* `tablesValid_gives_ZechHyp`, `extension_field_tables_sound`, `tablesValid_sound_adjoinRoot`, `prime_field_tables_sound` —
  the run-time table checker `Spec.GFq.Tables.tablesValid` (successor table, generator chain modulo `f`, bijectivity,
  `mOne`) is sound: tables it accepts satisfy `ZechHyp` in every commutative ring with `p = 0` containing a root of the
  object's polynomial `f`, in particular in Mathlib's `(ZMod p)[X] ⧸ (f)` with index `i` ↦ class of the polynomial whose
  p-adic digits are `log2pol[i]` (and in `ZMod p` for `k = 1`).  The harness dumps the tables of every object it constructs
  and the driver runs the checker on them, so the hypothesis of the theorems is *checked* for each object, not assumed.
* `word_level_macros_agree`, `wordFits_int32/64` — the `(TT)`/`(Rep)` conversions are the identity on the macros' intermediates.
* `gfqext_defensive_init_counterexample` / `_partial` — known finding C05-gfqext-defensive-init.

Not proved (see the report): that `(ZMod p)[X] ⧸ (f)` is a field / `f` irreducible / the decoding is onto
(`valid_implies_field`), and that the constructor's loop always produces valid tables (`construction_valid`).
-/
import GivaroModel.Lemmas.GFqOps
import GivaroModel.Lemmas.GFqTables
import GivaroModel.Lemmas.GFqDecoding
import GivaroModel.Lemmas.GFqAdjoinRoot
import GivaroModel.Lemmas.GFqWord
import GivaroModel.Model.GFqExt
import Mathlib.Algebra.BigOperators.Group.Finset.Basic
import Mathlib.Algebra.BigOperators.Intervals
import Mathlib.Data.ZMod.Basic
namespace Givaro.Props.C05
open Givaro.Model.Zech Givaro.Lemmas.GFqZech

section scalar
variable {K : Type*} [CommRing K] {F : Dom} {q : Int} {γ : K} {elt : Int → K}

/-- Every scalar member function of `GFqDom`, for all canonical operands. -/
theorem zech_ops_correct (H : ZechHyp F q γ elt) (a b c : Int) (ha : Canon q a) (hb : Canon q b) (hc : Canon q c) :
    (elt (F.mul a b) = elt a * elt b ∧ Canon q (F.mul a b)) ∧
    (elt (F.mulin a b) = elt a * elt b ∧ Canon q (F.mulin a b)) ∧
    (elt (F.add a b) = elt a + elt b ∧ Canon q (F.add a b)) ∧
    (elt (F.addin a b) = elt a + elt b ∧ Canon q (F.addin a b)) ∧
    (elt (F.sub a b) = elt a - elt b ∧ Canon q (F.sub a b)) ∧
    (elt (F.subin a b) = elt a - elt b ∧ Canon q (F.subin a b)) ∧
    (elt (F.neg a) = - elt a ∧ Canon q (F.neg a)) ∧
    (elt (F.negin a) = - elt a ∧ Canon q (F.negin a)) ∧
    (elt (F.axpy a b c) = elt a * elt b + elt c ∧ Canon q (F.axpy a b c)) ∧
    (elt (F.axpyin c a b) = elt c + elt a * elt b ∧ Canon q (F.axpyin c a b)) ∧
    (elt (F.maxpyin c a b) = elt c - elt a * elt b ∧ Canon q (F.maxpyin c a b)) ∧
    (elt (F.axmyin c a b) = elt a * elt b - elt c ∧ Canon q (F.axmyin c a b)) ∧
    (elt (F.axmy a b c) = elt a * elt b - elt c ∧ Canon q (F.axmy a b c)) ∧
    (elt (F.maxpy a b c) = elt c - elt a * elt b ∧ Canon q (F.maxpy a b c)) := by
  have hmul := MUL_correct H a b ha hb
  have hmaxpyin : elt (F.maxpyin c a b) = elt c - elt a * elt b ∧ Canon q (F.maxpyin c a b) := by
    have := AUTOSUB_correct H c (MUL F.mun a b) hc hmul.2
    rw [hmul.1] at this; exact this
  refine ⟨hmul, hmul, ADD_correct H a b ha hb, ADD_correct H a b ha hb, SUB_correct H a b ha hb,
    AUTOSUB_correct H a b ha hb, NEG_correct H a ha, NEG_correct H a ha, MULADD_correct H a b c ha hb hc, ?_, hmaxpyin, ?_, ?_, ?_⟩
  · have := MULADD_correct H a b c ha hb hc
    refine ⟨?_, this.2⟩
    show elt (MULADD F.mun F.pl a b c) = _
    rw [this.1]; ring
  · have := NEG_correct H (F.maxpyin c a b) hmaxpyin.2
    refine ⟨?_, this.2⟩
    show elt (NEG F.mo F.mun (F.maxpyin c a b)) = _
    rw [this.1, hmaxpyin.1]; ring
  · have := AUTOSUB_correct H (MUL F.mun a b) c hmul.2 hc
    rw [hmul.1] at this; exact this
  · have := SUB_correct H c (MUL F.mun a b) hc hmul.2
    rw [hmul.1] at this; exact this

/-- `inv(a)·a = 1` for every non-zero `a`; `div(a,b)·b = a` for every non-zero `b` (and the in-place forms). -/
theorem zech_inv_div_correct (H : ZechHyp F q γ elt) (a b : Int) (ha : Canon q a) (hb : Canon q b) (hb0 : b ≠ 0) :
    (elt (F.inv b) * elt b = 1 ∧ Canon q (F.inv b) ∧ F.inv b ≠ 0) ∧
    (elt (F.invin b) * elt b = 1 ∧ Canon q (F.invin b)) ∧
    (elt (F.div a b) * elt b = elt a ∧ Canon q (F.div a b)) ∧
    (elt (F.divin a b) * elt b = elt a ∧ Canon q (F.divin a b)) := by
  have hi := INV_correct H b hb hb0
  exact ⟨hi, ⟨hi.1, hi.2.1⟩, DIV_correct H a b ha hb hb0, DIV_correct H a b ha hb hb0⟩

/-- the two macros no member function uses -/
theorem zech_unused_macros_correct (H : ZechHyp F q γ elt) (a : Int) (ha : Canon q a) :
    elt (SQ F.mun a) = elt a * elt a ∧ Canon q (SQ F.mun a) := SQ_correct H a ha

/-- Under `ZechHyp` the non-zero elements are exactly units generated by γ: `γ^i · γ^(q-1-i) = 1`, the element
    called `one` decodes to 1 and `mOne` to -1. -/
theorem zechHyp_gives_field_facts (H : ZechHyp F q γ elt) :
    elt (q - 1) = 1 ∧ elt F.mo = -1 ∧ ∀ i, 1 ≤ i → i ≤ q - 1 → ∃ j, Canon q j ∧ j ≠ 0 ∧ elt j * elt i = 1 := by
  have hq := H.q_ge
  refine ⟨?_, ?_, ?_⟩
  · rw [elt_g H _ (by omega) (by omega)]; exact g_mun H
  · rw [elt_g H _ H.mo_lo H.mo_hi]; exact g_mo H
  · intro i h1 h2
    have := INV_correct H i ⟨by omega, h2⟩ (by omega)
    exact ⟨INV F.mun i, this.2.1, this.2.2, this.1⟩

end scalar

/-! ### non-vacuity: GF(3) with γ = 2 satisfies `ZechHyp` -/
def demoDom : Dom := { mun := 2, mo := 1, pl := fun i => if i = 2 then -1 else 0 }
def demoElt (i : Int) : ZMod 3 := if i = 0 then 0 else if i = 1 then 2 else 1

theorem demo_hyp : ZechHyp demoDom 3 (2 : ZMod 3) demoElt := by
  have two : ∀ i : Int, 1 ≤ i → i ≤ 3 - 1 → i = 1 ∨ i = 2 := by intro i h1 h2; omega
  refine ⟨by decide, by decide, by decide, ?_, by decide, by decide, by decide, by decide, ?_, ?_, ?_, ?_⟩
  all_goals
    intro i h1 h2
    rcases two i h1 h2 with rfl | rfl <;> decide

example : (demoElt (demoDom.add 1 2) = demoElt 1 + demoElt 2) :=
  (zech_ops_correct demo_hyp 1 2 0 ⟨by decide, by decide⟩ ⟨by decide, by decide⟩ ⟨by decide, by decide⟩).2.2.1.1

/-! ### element-wise array forms -/
section arrays

/-- the repaired loop stores `body i` at every `i < sz` and leaves every other cell alone, provided the body at
    index `i` reads only cell `i` of the destination (true of all sixteen forms) -/
theorem arrLoop_spec (body : Nat → (Nat → Int) → Int)
    (hloc : ∀ i r r', r i = r' i → body i r = body i r') :
    ∀ (sz : Nat) (r : Nat → Int) (i : Nat),
      (i < sz → arrLoop body sz r i = body i r) ∧ (sz ≤ i → arrLoop body sz r i = r i) := by
  intro sz
  induction sz with
  | zero => intro r i; exact ⟨fun h => absurd h (Nat.not_lt_zero _), fun _ => rfl⟩
  | succ n ih =>
    intro r i
    have hi := ih (upd r n (body n r)) i
    simp only [arrLoop]
    constructor
    · intro h
      by_cases hn : i < n
      · rw [hi.1 hn]
        apply hloc
        unfold upd; simp only [Nat.ne_of_lt hn, ↓reduceIte]
      · have : i = n := by omega
        subst this
        rw [hi.2 (Nat.le_refl _)]
        unfold upd; simp only [↓reduceIte]
    · intro h
      rw [hi.2 (by omega)]
      unfold upd
      have : i ≠ n := by omega
      simp only [this, ↓reduceIte]

variable (F : Dom)

/-- All sixteen array member functions: cell `i < sz` receives the scalar operation on the `i`-th operands,
    every cell `i ≥ sz` keeps its content — for every `sz`, 0 and 1 included. -/
theorem array_forms_cover_all_indices (sz : Nat) (r a b : Nat → Int) (s c : Int) (i : Nat) :
    (i < sz →
      F.mulVV sz r a b i = F.mul (a i) (b i) ∧ F.mulVS sz r a s i = F.mul (a i) s ∧
      F.divVV sz r a b i = F.div (a i) (b i) ∧ F.divVS sz r a s i = F.div (a i) s ∧
      F.addVV sz r a b i = F.add (a i) (b i) ∧ F.addVS sz r a s i = F.add (a i) s ∧
      F.subVV sz r a b i = F.sub (a i) (b i) ∧ F.subVS sz r a s i = F.sub (a i) s ∧
      F.negV sz r a i = F.neg (a i) ∧ F.invV sz r a i = F.inv (a i) ∧
      F.axpyVV sz r s a b i = F.axpy s (a i) (b i) ∧ F.axpyVS sz r s a c i = F.axpy s (a i) c ∧
      F.axpyinV sz r s a i = F.axpyin (r i) s (a i) ∧
      F.axmyVV sz r s a b i = F.axmy s (a i) (b i) ∧ F.axmyVS sz r s a c i = F.axmy s (a i) c ∧
      F.maxpyinV sz r s a i = F.maxpyin (r i) s (a i)) ∧
    (sz ≤ i →
      F.mulVV sz r a b i = r i ∧ F.mulVS sz r a s i = r i ∧ F.divVV sz r a b i = r i ∧ F.divVS sz r a s i = r i ∧
      F.addVV sz r a b i = r i ∧ F.addVS sz r a s i = r i ∧ F.subVV sz r a b i = r i ∧ F.subVS sz r a s i = r i ∧
      F.negV sz r a i = r i ∧ F.invV sz r a i = r i ∧ F.axpyVV sz r s a b i = r i ∧ F.axpyVS sz r s a c i = r i ∧
      F.axpyinV sz r s a i = r i ∧ F.axmyVV sz r s a b i = r i ∧ F.axmyVS sz r s a c i = r i ∧
      F.maxpyinV sz r s a i = r i) := by
  have L := fun (body : Nat → (Nat → Int) → Int) (h : ∀ i r r', r i = r' i → body i r = body i r') =>
    arrLoop_spec body h sz r i
  have c1 : ∀ (f : Nat → Int), ∀ i (r r' : Nat → Int), r i = r' i → (fun i (_ : Nat → Int) => f i) i r = (fun i _ => f i) i r' :=
    fun _ _ _ _ _ => rfl
  constructor
  · intro h
    refine ⟨(L _ (c1 _)).1 h, (L _ (c1 _)).1 h, (L _ (c1 _)).1 h, (L _ (c1 _)).1 h, (L _ (c1 _)).1 h, (L _ (c1 _)).1 h,
      (L _ (c1 _)).1 h, (L _ (c1 _)).1 h, (L _ (c1 _)).1 h, (L _ (c1 _)).1 h, (L _ (c1 _)).1 h, (L _ (c1 _)).1 h, ?_,
      (L _ (c1 _)).1 h, (L _ (c1 _)).1 h, ?_⟩
    · exact (L (fun i r => let tmp := r i; MULADD F.mun F.pl s (a i) tmp) (by intro i r r' e; simp only [e])).1 h
    · exact (L (fun i r => let tmp := MUL F.mun s (a i); AUTOSUB F.mo F.mun F.pl (r i) tmp) (by intro i r r' e; simp only [e])).1 h
  · intro h
    refine ⟨(L _ (c1 _)).2 h, (L _ (c1 _)).2 h, (L _ (c1 _)).2 h, (L _ (c1 _)).2 h, (L _ (c1 _)).2 h, (L _ (c1 _)).2 h,
      (L _ (c1 _)).2 h, (L _ (c1 _)).2 h, (L _ (c1 _)).2 h, (L _ (c1 _)).2 h, (L _ (c1 _)).2 h, (L _ (c1 _)).2 h, ?_,
      (L _ (c1 _)).2 h, (L _ (c1 _)).2 h, ?_⟩
    · exact (L (fun i r => let tmp := r i; MULADD F.mun F.pl s (a i) tmp) (by intro i r r' e; simp only [e])).2 h
    · exact (L (fun i r => let tmp := MUL F.mun s (a i); AUTOSUB F.mo F.mun F.pl (r i) tmp) (by intro i r r' e; simp only [e])).2 h

/-- The loop header of the pinned tree, `for (i = sz; --i;)`: full statement (“every index `i < sz` is stored,
    for every `sz`”) is false … -/
theorem pinned_array_loop_counterexample :
    ¬ (∀ (body : Nat → (Nat → Int) → Int) (sz : Nat) (r : Nat → Int) (i : Nat), i < sz →
        ∃ r', arrLoopPinned body sz r = some r' ∧ r' i = body i r) := by
  intro h
  obtain ⟨r', h1, h2⟩ := h (fun _ _ => 1) 1 (fun _ => 0) 0 (by decide)
  simp only [arrLoopPinned] at h1
  have : r' = fun _ => 0 := by
    have := Option.some.inj h1
    exact this.symm
  rw [this] at h2
  exact absurd h2 (by decide)

theorem arrLoopFrom1_spec (body : Nat → (Nat → Int) → Int)
    (hloc : ∀ i r r', r i = r' i → body i r = body i r') :
    ∀ (n : Nat) (r : Nat → Int) (i : Nat),
      (1 ≤ i → i ≤ n → arrLoopFrom1 body n r i = body i r) ∧ ((i = 0 ∨ n < i) → arrLoopFrom1 body n r i = r i) := by
  intro n
  induction n with
  | zero => intro r i; exact ⟨fun h1 h2 => by omega, fun _ => rfl⟩
  | succ n ih =>
    intro r i
    have hi := ih (upd r (n + 1) (body (n + 1) r)) i
    simp only [arrLoopFrom1]
    constructor
    · intro h1 h2
      by_cases hn : i ≤ n
      · rw [hi.1 h1 hn]
        apply hloc
        unfold upd
        have : i ≠ n + 1 := by omega
        simp only [this, ↓reduceIte]
      · have : i = n + 1 := by omega
        subst this
        rw [hi.2 (Or.inr (Nat.lt_succ_self _))]
        unfold upd; simp only [↓reduceIte]
    · intro h
      rw [hi.2 (by omega)]
      unfold upd
      have : i ≠ n + 1 := by omega
      simp only [this, ↓reduceIte]

/-- … and this is what it did: for `sz ≥ 1` indices `1 … sz-1` are stored and index 0 keeps its old content;
    for `sz = 0` the loop runs off the arrays. -/
theorem pinned_array_loop_partial (body : Nat → (Nat → Int) → Int)
    (hloc : ∀ i r r', r i = r' i → body i r = body i r') (sz : Nat) (r : Nat → Int) :
    (sz = 0 → arrLoopPinned body sz r = none) ∧
    (1 ≤ sz → ∃ r', arrLoopPinned body sz r = some r' ∧ r' 0 = r 0 ∧ ∀ i, 1 ≤ i → i < sz → r' i = body i r) := by
  constructor
  · intro h; simp [arrLoopPinned, h]
  · intro h
    refine ⟨arrLoopFrom1 body (sz - 1) r, ?_, ?_, ?_⟩
    · have : sz ≠ 0 := by omega
      simp [arrLoopPinned, this]
    · exact ((arrLoopFrom1_spec body hloc (sz - 1) r 0).2 (Or.inl rfl))
    · intro i h1 h2
      exact (arrLoopFrom1_spec body hloc (sz - 1) r i).1 h1 (by omega)

end arrays

/-! ### dot product -/
section dot
variable {K : Type*} [CommRing K] {F : Dom} {q : Int} {γ : K} {elt : Int → K}
open Finset

theorem dotLoop_correct (H : ZechHyp F q γ elt) (a b : Nat → Int)
    (ha : ∀ i, Canon q (a i)) (hb : ∀ i, Canon q (b i)) :
    ∀ (n : Nat) (r0 : Int), Canon q r0 →
      elt (F.dotLoop a b n r0) = elt r0 + ∑ i ∈ range n, elt (a (i + 1)) * elt (b (i + 1)) ∧ Canon q (F.dotLoop a b n r0) := by
  intro n
  induction n with
  | zero => intro r0 h0; simp [Dom.dotLoop, h0]
  | succ n ih =>
    intro r0 h0
    simp only [Dom.dotLoop]
    have hm := MUL_correct H (a (n + 1)) (b (n + 1)) (ha _) (hb _)
    have hadd := ADD_correct H r0 _ h0 hm.2
    obtain ⟨e, c⟩ := ih _ hadd.2
    refine ⟨?_, c⟩
    rw [e, hadd.1, hm.1, sum_range_succ]; ring

/-- `dotprod(r, sz, a, b) = Σ_{i<sz} a_i b_i` for every `sz < 2^31` (the loop counter is an `int`). -/
theorem dotprod_correct (H : ZechHyp F q γ elt) (sz : Nat) (hsz : sz < 2147483648) (a b : Nat → Int)
    (ha : ∀ i, Canon q (a i)) (hb : ∀ i, Canon q (b i)) :
    ∃ r, F.dotprod sz a b = some r ∧ Canon q r ∧ elt r = ∑ i ∈ range sz, elt (a i) * elt (b i) := by
  have hq := H.q_ge
  unfold Dom.dotprod
  by_cases h0 : sz = 0
  · subst h0
    refine ⟨0, by simp, ⟨by omega, by omega⟩, ?_⟩
    simp [H.elt_zero]
  · simp only [h0, hsz, ↓reduceIte]
    have hm := MUL_correct H (a 0) (b 0) (ha _) (hb _)
    obtain ⟨e, c⟩ := dotLoop_correct H a b ha hb (sz - 1) _ hm.2
    refine ⟨_, rfl, c, ?_⟩
    rw [e, hm.1]
    have : sz = (sz - 1) + 1 := by omega
    rw [this, sum_range_succ', Nat.add_sub_cancel]
    ring

example : (2 : Nat) < 2147483648 := by decide
end dot

/-! ### GF2 -/
def b2z (b : Bool) : ZMod 2 := if b then 1 else 0

/-- `false ↦ 0, true ↦ 1` is a bijection and every GF2 operation is the arithmetic of `ZMod 2` under it
    (division and inversion for a non-zero divisor). -/
theorem gf2_ops_correct :
    Function.Bijective b2z ∧
    ∀ a b c : Bool,
      b2z (GF2.add a b) = b2z a + b2z b ∧ b2z (GF2.sub a b) = b2z a - b2z b ∧ b2z (GF2.mul a b) = b2z a * b2z b ∧
      b2z (GF2.neg a) = - b2z a ∧ (b = true → b2z (GF2.div a b) * b2z b = b2z a) ∧ (a = true → b2z (GF2.inv a) * b2z a = 1) ∧
      b2z (GF2.axpy a b c) = b2z a * b2z b + b2z c ∧ b2z (GF2.axmy a b c) = b2z a * b2z b - b2z c ∧
      b2z (GF2.maxpy a b c) = b2z c - b2z a * b2z b ∧ b2z (GF2.axpyin c a b) = b2z c + b2z a * b2z b ∧
      b2z (GF2.axmyin c a b) = b2z a * b2z b - b2z c ∧ b2z (GF2.maxpyin c a b) = b2z c - b2z a * b2z b := by
  constructor
  · constructor
    · intro x y; cases x <;> cases y <;> decide
    · intro z
      have : z = 0 ∨ z = 1 := by revert z; decide
      rcases this with h | h
      · exact ⟨false, by rw [h]; rfl⟩
      · exact ⟨true, by rw [h]; rfl⟩
  · intro a b c; cases a <;> cases b <;> cases c <;> decide

/-! ### from the dumped tables of a constructed object to the hypotheses above -/
section tables
open Givaro.Spec.GFq

/-- The run-time check is sound for the theorems: if `tablesValid` accepts the dumped tables of an object and `dec`
    decodes p-adic codes into a commutative ring `K` compatibly with the checker's code arithmetic (`csucc`, `cmul`:
    successor and product modulo the object's polynomial), then the object's `Dom` satisfies `ZechHyp`, hence
    (`zech_ops_correct` …) every operation on indices is the arithmetic of `K` on the decoded polynomials. -/
theorem tablesValid_gives_ZechHyp {K : Type*} [CommRing K] {dec : Nat → K} (T : Tables)
    (hv : T.tablesValid = true) (D : Decoding K T.F dec) :
    ZechHyp T.dom (T.q : Int) (dec (T.l2p 1)) (fun i => dec (T.l2p i.toNat)) :=
  Givaro.Lemmas.GFqZech.tablesValid_gives_ZechHyp T hv D

/-- Prime fields, end to end: for `k = 1` the decoding is `Nat.cast : ℕ → ZMod p`, so a table dump accepted by
    `tablesValid` makes every scalar operation of the object the arithmetic of `ZMod p` on `log2pol`-decoded values. -/
theorem prime_field_tables_sound (T : Tables) (hv : T.tablesValid = true) (hk : T.F.k = 1) (hp : 2 ≤ T.F.p)
    (a b c : Int) (ha : Canon T.q a) (hb : Canon T.q b) (hc : Canon T.q c) :
    let elt : Int → ZMod T.F.p := fun i => ((T.l2p i.toNat : Nat) : ZMod T.F.p)
    elt (T.dom.add a b) = elt a + elt b ∧ elt (T.dom.sub a b) = elt a - elt b ∧ elt (T.dom.mul a b) = elt a * elt b ∧
    elt (T.dom.neg a) = - elt a ∧ elt (T.dom.axpy a b c) = elt a * elt b + elt c ∧
    (b ≠ 0 → elt (T.dom.inv b) * elt b = 1 ∧ elt (T.dom.div a b) * elt b = elt a) := by
  intro elt
  have H := Givaro.Lemmas.GFqZech.tablesValid_gives_ZechHyp T hv (decoding_prime T.F hk hp)
  have h := zech_ops_correct H a b c ha hb hc
  refine ⟨h.2.2.1.1, h.2.2.2.2.1.1, h.1.1, h.2.2.2.2.2.2.1.1, h.2.2.2.2.2.2.2.2.1.1, ?_⟩
  intro hb0
  have h2 := zech_inv_div_correct H a b ha hb hb0
  exact ⟨h2.1.1, h2.2.2.1.1⟩

/-- Extension fields, end to end up to the choice of the quotient ring: let `K` be **any** commutative ring in which
    `p = 0` and which contains a root `x` of the object's polynomial `f = X^k + flow` (e.g. `K = F_p[X]/(f)`, `x` the class
    of `X`), and decode an index `i` as the polynomial `log2pol[i]` (p-adic digits) evaluated at `x`.  If `tablesValid`
    accepts the dumped tables then every scalar operation of the object is the arithmetic of `K` on decoded elements. -/
theorem extension_field_tables_sound {K : Type*} [CommRing K] (x : K) (T : Tables) (hv : T.tablesValid = true)
    (hp0 : ((T.F.p : Nat) : K) = 0) (hp : 2 ≤ T.F.p) (hk : 1 ≤ T.F.k)
    (hroot : 2 ≤ T.F.k → ev x T.F.flow + x ^ T.F.k = 0)
    (a b c : Int) (ha : Canon T.q a) (hb : Canon T.q b) (hc : Canon T.q c) :
    let elt : Int → K := fun i => ev x (digits T.F.p T.F.k (T.l2p i.toNat))
    elt (T.dom.add a b) = elt a + elt b ∧ elt (T.dom.sub a b) = elt a - elt b ∧ elt (T.dom.mul a b) = elt a * elt b ∧
    elt (T.dom.neg a) = - elt a ∧ elt (T.dom.axpy a b c) = elt a * elt b + elt c ∧
    elt (T.dom.axmy a b c) = elt a * elt b - elt c ∧ elt (T.dom.maxpy a b c) = elt c - elt a * elt b ∧
    (b ≠ 0 → elt (T.dom.inv b) * elt b = 1 ∧ elt (T.dom.div a b) * elt b = elt a) ∧
    Canon T.q (T.dom.add a b) ∧ Canon T.q (T.dom.mul a b) := by
  intro elt
  have D := decoding_of_root x hp0 T.F rfl hp hk hroot
  have H := Givaro.Lemmas.GFqZech.tablesValid_gives_ZechHyp T hv D
  have h := zech_ops_correct H a b c ha hb hc
  refine ⟨h.2.2.1.1, h.2.2.2.2.1.1, h.1.1, h.2.2.2.2.2.2.1.1, h.2.2.2.2.2.2.2.2.1.1,
    h.2.2.2.2.2.2.2.2.2.2.2.2.1.1, h.2.2.2.2.2.2.2.2.2.2.2.2.2.1, ?_, h.2.2.1.2, h.1.2⟩
  intro hb0
  have h2 := zech_inv_div_correct H a b ha hb hb0
  exact ⟨h2.1.1, h2.2.2.1.1⟩

/-- `tablesValid_sound` against Mathlib's `AdjoinRoot`: let `p` be prime, `f = X^k + Σ flow_i X^i ∈ (ZMod p)[X]` the polynomial
    the object reports, `K = (ZMod p)[X] ⧸ (f)`, and let the index `i` stand for the class of the polynomial whose p-adic digits
    are `log2pol[i]`.  If `tablesValid` accepts the dumped tables then the object's tables satisfy `ZechHyp` in `K`, hence
    (`zech_ops_correct`, `zech_inv_div_correct`, `dotprod_correct`) every operation equals polynomial arithmetic modulo `f`. -/
theorem tablesValid_sound_adjoinRoot (T : Tables) [Fact (Nat.Prime T.F.p)] (hv : T.tablesValid = true) (hk : 1 ≤ T.F.k) :
    ZechHyp T.dom (T.q : Int)
      (AdjoinRoot.mk (modulus T.F) (toPoly T.F.p (digits T.F.p T.F.k (T.l2p 1))))
      (fun i => AdjoinRoot.mk (modulus T.F) (toPoly T.F.p (digits T.F.p T.F.k (T.l2p i.toNat)))) :=
  Givaro.Lemmas.GFqZech.tablesValid_gives_ZechHyp T hv (decoding_adjoinRoot T.F hk)

/-- non-vacuity: the tables of GF(3) as the library builds them (γ = 2) are accepted -/
example : ({ F := { p := 3, k := 1, irred := 0 }, mOne := 1, log2pol := #[0, 2, 1], pol2log := #[0, 2, 1],
             plus1 := #[0, 0, -1] } : Tables).tablesValid = true := by decide +kernel
end tables

/-! ### the machine-word conversions -/
section word
open Givaro

/-- The word-level transcription of the macros (every `(TT)`/`(Rep)` conversion written out, `Model.Zech.Word`) computes
    the same values as the plain `Int` model used above, for all canonical operands, whenever the word type represents
    `[-B, B]` exactly with `4(q-1) ≤ B` and the sentinels / table entries are in range (`WordFits`). -/
theorem word_level_macros_agree {w : Int → Int} {B : Int} {F : Dom} (W : WordFits w B F) (a b c : Int)
    (ha : 0 ≤ a ∧ a ≤ F.mun) (hb : 0 ≤ b ∧ b ≤ F.mun) (hc : 0 ≤ c ∧ c ≤ F.mun) :
    Word.ADD w F.mun F.pl a b = ADD F.mun F.pl a b ∧
    Word.NEG w F.mo F.mun a = NEG F.mo F.mun a ∧
    Word.SUB w F.mo F.mun F.pl a b = SUB F.mo F.mun F.pl a b ∧
    Word.AUTOSUB w F.mo F.mun F.pl a b = AUTOSUB F.mo F.mun F.pl a b ∧
    Word.MUL w F.mun a b = MUL F.mun a b ∧
    Word.INV w F.mun a = INV F.mun a ∧
    Word.DIV w F.mun a b = DIV F.mun a b ∧
    Word.MULADD w F.mun F.pl a b c = MULADD F.mun F.pl a b c :=
  ⟨ADDw_eq W a b ha hb, NEGw_eq W a ha, SUBw_eq W a b ha hb, AUTOSUBw_eq W a b ha hb, MULw_eq W a b ha hb,
   INVw_eq W a ha, DIVw_eq W a b ha hb, MULADDw_eq W a b c ha hb hc⟩

/-- `GFqDom<int32_t>`: `int32_t` is wide enough for every `q ≤ 65536 = maxCardinality()` … -/
theorem wordFits_int32 (F : Dom) (h0 : 0 ≤ F.mun) (hq : F.mun ≤ 65535) (m0 : 0 ≤ F.mo) (m1 : F.mo ≤ F.mun)
    (p0 : ∀ i, -F.mun ≤ F.pl i) (p1 : ∀ i, F.pl i ≤ 0) : WordFits wrapS32 2147483647 F :=
  { id_on := by intro x h1 h2; unfold wrapS32; omega
    room := by omega, mun_nonneg := h0, mo_lo := m0, mo_hi := m1, pl_lo := p0, pl_hi := p1 }

/-- … and `GFqDom<int64_t>`: `int64_t` for every `q ≤ 2^32 = maxCardinality()`. -/
theorem wordFits_int64 (F : Dom) (h0 : 0 ≤ F.mun) (hq : F.mun ≤ 4294967295) (m0 : 0 ≤ F.mo) (m1 : F.mo ≤ F.mun)
    (p0 : ∀ i, -F.mun ≤ F.pl i) (p1 : ∀ i, F.pl i ≤ 0) : WordFits wrapS64 9223372036854775807 F :=
  { id_on := by intro x h1 h2; unfold wrapS64; omega
    room := by omega, mun_nonneg := h0, mo_lo := m0, mo_hi := m1, pl_lo := p0, pl_hi := p1 }

example : WordFits wrapS32 2147483647 demoDom :=
  wordFits_int32 demoDom (by decide) (by decide) (by decide) (by decide)
    (by intro i; show -2 ≤ (if i = 2 then -1 else 0 : Int); split <;> omega)
    (by intro i; show (if i = 2 then -1 else 0 : Int) ≤ 0; split <;> omega)
end word

/-! ### GFqExt: the "defensive" q-adic init (known finding C05-gfqext-defensive-init) -/
section gfqext
open Givaro.Model.GFqExt

/-- Full statement — “the pre-reduction of `GFqExt::init(Rep&, double)` leaves every valid q-adic encoding
    (`0 < d < 2^(bits·(2k-1))`) unchanged, so that the defensive init agrees with `GFqExtFast::init`” — is false:
    in GF(2^2) (`bits = 17`, `_MODOUT = 3`) the encoding `2^17` of the polynomial `X` is reduced to `2`. -/
theorem gfqext_defensive_init_counterexample :
    ¬ (∀ p k d : Nat, 2 ≤ p → 2 ≤ k → 0 < d → d < 2 ^ (bits k * (2 * k - 1)) → defensiveArg p k d = d) := by
  intro h
  have := h 2 2 131072 (by decide) (by decide) (by decide) (by decide)
  revert this
  decide

/-- What holds on the code as it is: the pre-reduction is the identity below `_MODOUT` (the table size). -/
theorem gfqext_defensive_init_partial (p k d : Nat) (h0 : 0 < d) (h : d < modout p k) : defensiveArg p k d = d := by
  unfold defensiveArg
  simp only [Nat.mod_eq_of_lt h, h0, ↓reduceIte]

example : (0 : Nat) < 2 ∧ 2 < modout 3 4 := by decide
end gfqext

end Givaro.Props.C05
