/-
C12 (round 4) — the rho search of `IntFactorDom::Pollard` (model: Model/PrimesRho.lean) as a function of the start values it draws.
For EVERY n, every list of start values and every amount of fuel: whatever the search returns divides n; with `threshold = 0` it is a
NON-TRIVIAL divisor (so the contract `RhoFull` that `factor_nontrivial` / `iffactorprime_prime` / `setCode_complete` of Props/C12.lean
assume of the rho oracle is what the code computes whenever it returns; only termination is left to the correspondence).
-/
import GivaroModel.Lemmas.PrimesRho
namespace Givaro.Props.C12Rho
open Givaro Givaro.Model.Primes Givaro.Lemmas.Primes

/-- **`threshold = 0`: a non-trivial divisor** of every n > 1, whatever start values are drawn (when the search returns) -/
theorem pollard0_nontrivial (n : Int) (hn : 1 < n) (fuel : Nat) (ys : List Int) (g : Int) (h : pollard0 n fuel ys = some g) :
    1 < g ∧ g < n ∧ g ∣ n := by
  induction ys with
  | nil => simp [pollard0] at h
  | cons y ys ih =>
    unfold pollard0 at h
    split at h
    · simp at h
    · next g0 h0 =>
      obtain ⟨h1, d, h2⟩ := rhoLoop0_some n fuel _ _ _ _ g0 h0
      split at h
      · exact ih h
      · next hne =>
        injection h with h
        subst h
        have hd : g0 ∣ n := by rw [h2]; exact Int.gcd_dvd_right d n
        have hpos : 0 < g0 := by rw [h2]; exact_mod_cast Int.gcd_pos_of_ne_zero_right d (by omega)
        have hle : g0 ≤ n := Int.le_of_dvd (by omega) hd
        exact ⟨by omega, by omega, hd⟩
example : (1 : Int) < 91 ∧ pollard0 91 100 [2] = some 7 := ⟨by decide, by decide⟩

/-- **`threshold ≠ 0`: a positive divisor** (1 = gave up, n = failed at the last allowed step), whatever start values are drawn -/
theorem pollardT_divisor (n : Int) (hn : 1 < n) (ys : List Int) (threshold : Nat) (g : Int) (h : pollardT n ys threshold = some g) :
    1 ≤ g ∧ g ≤ n ∧ g ∣ n := by
  induction ys generalizing threshold with
  | nil => simp [pollardT] at h
  | cons y ys ih =>
    unfold pollardT at h
    simp only at h
    split at h
    · exact ih _ h
    · injection h with h
      have := rhoLoopT_div n (by omega) threshold threshold 0 1 0 1 0 y ⟨by omega, one_dvd n⟩
      rw [h] at this
      exact ⟨by omega, Int.le_of_dvd (by omega) this.2, this.2⟩
example : (1 : Int) < 91 ∧ pollardT 91 [2] 100 = some 7 := ⟨by decide, by decide⟩

/-- `Pollard` with its guards: `n < 3` and primes are returned as they are -/
theorem pollard_guards (isp : Int → Bool) (fuel : Nat) (n : Int) (threshold : Nat) (ys : List Int) :
    (n < 3 → pollardStarts isp fuel n threshold ys = some n) ∧
    (isp n = true → pollardStarts isp fuel n threshold ys = some n) := by
  constructor
  · intro h; unfold pollardStarts; simp [h]
  · intro h; unfold pollardStarts; simp [h]

/-- **`Pollard(gen, g, n, 0)` on a composite n ≥ 3: 1 < g < n, g | n** — the contract `RhoFull`, for every sequence of draws -/
theorem pollard_unbounded_nontrivial (isp : Int → Bool) (fuel : Nat) (n : Int) (ys : List Int) (g : Int) (h3 : 3 ≤ n)
    (hc : isp n = false) (h : pollardStarts isp fuel n 0 ys = some g) : 1 < g ∧ g < n ∧ g ∣ n := by
  unfold pollardStarts at h
  have : ¬ n < 3 := by omega
  simp only [this, hc, ↓reduceIte] at h
  exact pollard0_nontrivial n (by omega) fuel ys g (by simpa using h)
example : (3 : Int) ≤ 91 ∧ pollardStarts (fun _ => false) 100 91 0 [2] = some 7 := ⟨by decide, by decide⟩

/-- `Pollard(gen, g, n, threshold)` with a bound: always a positive divisor of n (n ≥ 3 composite) -/
theorem pollard_bounded_divisor (isp : Int → Bool) (fuel : Nat) (n : Int) (threshold : Nat) (ys : List Int) (g : Int) (h3 : 3 ≤ n)
    (hc : isp n = false) (ht : threshold ≠ 0) (h : pollardStarts isp fuel n threshold ys = some g) : 1 ≤ g ∧ g ≤ n ∧ g ∣ n := by
  unfold pollardStarts at h
  have : ¬ n < 3 := by omega
  simp only [this, hc, ht, ↓reduceIte] at h
  exact pollardT_divisor n (by omega) ys threshold g (by simpa using h)
example : (3 : Int) ≤ 91 ∧ (2 : Nat) ≠ 0 ∧ pollardStarts (fun _ => false) 100 91 2 [2] = some 1 := ⟨by decide, by decide, by decide⟩

end Givaro.Props.C12Rho
