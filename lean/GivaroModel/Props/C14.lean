/-
C14 — Chinese remaindering and residue number systems reconstruct the unique integer.

All theorems are about the executable model `GivaroModel/Model/CRT.lean`, which mirrors the loops of
`IntRNSsystem` (givintrns*.{h,inl}), `RNSsystem<RING,Domain>` (givrns*.{h,inl}) and `ChineseRemainder`
(chineseremainder.h) and is tied to the compiled library by `harness/h_crt.cpp` / `Driver/CRT.lean`.

Quantifiers: every list of moduli (any length ≥ 0, any order, any size — `Int` is unbounded), every canonical residue
vector, every integer, every cofactor function `cof` satisfying the Bezout contract `CofOK` (what `mpz_gcdext` and
`Domain::inv` guarantee), and every *history* of the system object (`IntHist` / `RnsHist`: default construction,
construction from primes, copy construction, assignment over any other object, `setPrimes`, and any number of
earlier conversions that filled the caches).

Hypotheses are exactly the documented contract: moduli pairwise coprime
(`PairwiseCoprime ps := ps.Pairwise (fun a b => Int.gcd a b = 1)`) and residues canonical
(`Canon ps rs := Forall₂ (fun p r => 0 ≤ r ∧ r < p) ps rs`, which also says `0 < p_i`); both are defined in Lemmas/CRT*.lean.
-/
import GivaroModel.Lemmas.CRTSys
import GivaroModel.Lemmas.CRTPoly
import GivaroModel.Lemmas.CRTOps
import GivaroModel.Lemmas.CRTDom
import GivaroModel.Lemmas.CRTFixed
namespace Givaro.Props.C14
open Givaro.Model.CRT
open Givaro.Lemmas.CRT
open Givaro.Spec.CRT (prod mrValue)

/-- the Bezout-cofactor contract is satisfiable: the extended Euclid used by the driver meets it -/
theorem cof_contract_satisfiable : CofOK cofEuclid := cofEuclid_ok

/-! ## IntRNSsystem -/

/-- *cache invariant*: whatever the history, `_ck` is empty or holds the reciprocals of the *current* primes,
    and `_prod` is 1 or the product of the current primes. -/
theorem int_cache_invariant (cof : Int → Int → Int) (h : IntHist) :
    ((h.eval cof).ck = [] ∨ (h.eval cof).ck = intComputeCk cof (h.eval cof).primes) ∧
    ((h.eval cof).prod = 1 ∨ (h.eval cof).prod = prod (h.eval cof).primes) :=
  intHist_good cof h

/-- *the result does not depend on which constructor, copy or assignment produced the system object*:
    two objects with the same primes give identical answers to every query. -/
theorem int_history_independent (cof : Int → Int → Int) (h1 h2 : IntHist)
    (hp : (h1.eval cof).primes = (h2.eval cof).primes) (rs : List Int) (a : Int) :
    ((h1.eval cof).rnsToRing cof rs).2 = ((h2.eval cof).rnsToRing cof rs).2 ∧
    ((h1.eval cof).rnsToMixedRadix cof rs).2 = ((h2.eval cof).rnsToMixedRadix cof rs).2 ∧
    ((h1.eval cof).reciprocals cof).2 = ((h2.eval cof).reciprocals cof).2 ∧
    (h1.eval cof).product.2 = (h2.eval cof).product.2 ∧
    (h1.eval cof).toRns a = (h2.eval cof).toRns a := by
  obtain ⟨a1, a2, a3, a4, a5⟩ := (intHist_good cof h1).answers rs a
  obtain ⟨b1, b2, b3, b4, b5⟩ := (intHist_good cof h2).answers rs a
  rw [a1, a2, a3, a4, a5, b1, b2, b3, b4, b5, hp]
  simp

/-- the copy constructor as it stood before fixes/C14_1.patch (`_ck(R._primes)`) violates history independence:
    primes (7,11,13), residues of 500: the original answers 500, its copy answers 3. -/
theorem int_copy_unrepaired_counterexample :
    ((IntSys.ofPrimes [7, 11, 13]).rnsToRing cofEuclid [3, 5, 6]).2 = 500 ∧
    ((IntSys.ofPrimes [7, 11, 13]).copyUnrepaired.rnsToRing cofEuclid [3, 5, 6]).2 = 3 := by
  decide

/-- *mixed-radix digits are each below their modulus*, and they are the digits of the converted value -/
theorem int_garner_digits_bounded (cof : Int → Int → Int) (hcof : CofOK cof) (h : IntHist) (rs : List Int)
    (hco : PairwiseCoprime (h.eval cof).primes) (hcan : Canon (h.eval cof).primes rs) :
    Canon (h.eval cof).primes ((h.eval cof).rnsToMixedRadix cof rs).2 ∧
    mrValue (h.eval cof).primes ((h.eval cof).rnsToMixedRadix cof rs).2 = ((h.eval cof).rnsToRing cof rs).2 := by
  obtain ⟨a1, a2, _⟩ := (intHist_good cof h).answers rs 0
  have r := int_garner_result hcof _ rs hco.isCoprime hcan
  rw [a1, a2]
  exact ⟨r.digits, r.value⟩

/-- *conversion from the residue representation returns the unique integer in [0, ∏ moduli) having those residues* -/
theorem int_mixed_radix_exact (cof : Int → Int → Int) (hcof : CofOK cof) (h : IntHist) (rs : List Int)
    (hco : PairwiseCoprime (h.eval cof).primes) (hcan : Canon (h.eval cof).primes rs) :
    let ps := (h.eval cof).primes
    let x := ((h.eval cof).rnsToRing cof rs).2
    (0 ≤ x ∧ x < prod ps) ∧ List.Forall₂ (fun p r => x % p = r) ps rs ∧
    (∀ y : Int, 0 ≤ y ∧ y < prod ps → (∀ p ∈ ps, y % p = x % p) → y = x) := by
  obtain ⟨_, a2, _⟩ := (intHist_good cof h).answers rs 0
  have r := int_garner_result hcof _ rs hco.isCoprime hcan
  simp only
  rw [a2]
  refine ⟨r.range, r.residues, ?_⟩
  intro y hy hres
  exact crt_unique _ hco.isCoprime y _ hy r.range hres

/-- *conversion of an integer to residues returns its canonical remainders* -/
theorem int_ring_to_rns_canonical (cof : Int → Int → Int) (h : IntHist) (a : Int)
    (hpos : ∀ p ∈ (h.eval cof).primes, 0 < p) :
    (h.eval cof).toRns a = (h.eval cof).primes.map (fun p => a % p) ∧ Canon (h.eval cof).primes ((h.eval cof).toRns a) :=
  ⟨rfl, canon_ringToRns _ a hpos⟩

/-- *the two conversions are mutually inverse* -/
theorem int_rns_round_trip (cof : Int → Int → Int) (hcof : CofOK cof) (h : IntHist)
    (hco : PairwiseCoprime (h.eval cof).primes) :
    (∀ rs, Canon (h.eval cof).primes rs → (h.eval cof).toRns ((h.eval cof).rnsToRing cof rs).2 = rs) ∧
    (∀ a : Int, (∀ p ∈ (h.eval cof).primes, 0 < p) →
      ((h.eval cof).rnsToRing cof ((h.eval cof).toRns a)).2 = a % prod (h.eval cof).primes) := by
  refine ⟨?_, ?_⟩
  · intro rs hcan
    obtain ⟨_, a2, _⟩ := (intHist_good cof h).answers rs 0
    have r := int_garner_result hcof _ rs hco.isCoprime hcan
    rw [a2]
    exact map_emod_eq_of_forall₂ r.residues
  · intro a hpos
    obtain ⟨_, a2, _⟩ := (intHist_good cof h).answers ((h.eval cof).toRns a) 0
    have r := int_garner_result hcof _ _ hco.isCoprime (canon_ringToRns (h.eval cof).primes a hpos)
    rw [a2]
    exact roundtrip_of_result _ hco.isCoprime hpos a _ r

/-! ## RNSsystem<RING, Domain> -/

theorem rns_cache_invariant (cof : Int → Int → Int) (h : RnsHist) :
    (h.eval cof).ck = [] ∨ (h.eval cof).ck = rnsComputeCk cof (h.eval cof).primes :=
  rnsHist_good cof h

theorem rns_history_independent (cof : Int → Int → Int) (h1 h2 : RnsHist)
    (hp : (h1.eval cof).primes = (h2.eval cof).primes) (rs : List Int) (a : Int) :
    ((h1.eval cof).rnsToRing cof rs).2 = ((h2.eval cof).rnsToRing cof rs).2 ∧
    ((h1.eval cof).rnsToMixedRadix cof rs).2 = ((h2.eval cof).rnsToMixedRadix cof rs).2 ∧
    ((h1.eval cof).reciprocals cof).2 = ((h2.eval cof).reciprocals cof).2 ∧
    (h1.eval cof).toRns a = (h2.eval cof).toRns a := by
  obtain ⟨a1, a2, a3, a4⟩ := (rnsHist_good cof h1).answers rs a
  obtain ⟨b1, b2, b3, b4⟩ := (rnsHist_good cof h2).answers rs a
  rw [a1, a2, a3, a4, b1, b2, b3, b4, hp]
  simp

/-- dropping `_ck.resize(0)` from `setPrimes` (the representative breaking change of DESIGN §2.9) is *not* harmless:
    a system moved from primes (3,5) to (7,11,13) after one conversion would answer 276 instead of 500. -/
theorem rns_setPrimes_must_clear_cache :
    let s := ((RnsSys.ofPrimes [3, 5]).computeCk cofEuclid)
    ((s.setPrimes [7, 11, 13]).rnsToRing cofEuclid [3, 5, 6]).2 = 500 ∧
    ((RnsSys.mk [7, 11, 13] s.ck).rnsToRing cofEuclid [3, 5, 6]).2 ≠ 500 := by
  decide

theorem rns_garner_digits_bounded (cof : Int → Int → Int) (hcof : CofOK cof) (h : RnsHist) (rs : List Int)
    (hco : PairwiseCoprime (h.eval cof).primes) (hcan : Canon (h.eval cof).primes rs) :
    Canon (h.eval cof).primes ((h.eval cof).rnsToMixedRadix cof rs).2 ∧
    mrValue (h.eval cof).primes ((h.eval cof).rnsToMixedRadix cof rs).2 = ((h.eval cof).rnsToRing cof rs).2 := by
  obtain ⟨a1, a2, _⟩ := (rnsHist_good cof h).answers rs 0
  have r := rns_garner_result hcof _ rs hco.isCoprime hcan
  rw [a1, a2]
  exact ⟨r.digits, r.value⟩

theorem rns_mixed_radix_exact (cof : Int → Int → Int) (hcof : CofOK cof) (h : RnsHist) (rs : List Int)
    (hco : PairwiseCoprime (h.eval cof).primes) (hcan : Canon (h.eval cof).primes rs) :
    let ps := (h.eval cof).primes
    let x := ((h.eval cof).rnsToRing cof rs).2
    (0 ≤ x ∧ x < prod ps) ∧ List.Forall₂ (fun p r => x % p = r) ps rs ∧
    (∀ y : Int, 0 ≤ y ∧ y < prod ps → (∀ p ∈ ps, y % p = x % p) → y = x) := by
  obtain ⟨_, a2, _⟩ := (rnsHist_good cof h).answers rs 0
  have r := rns_garner_result hcof _ rs hco.isCoprime hcan
  simp only
  rw [a2]
  refine ⟨r.range, r.residues, ?_⟩
  intro y hy hres
  exact crt_unique _ hco.isCoprime y _ hy r.range hres

theorem rns_ring_to_rns_canonical (cof : Int → Int → Int) (h : RnsHist) (a : Int)
    (hpos : ∀ p ∈ (h.eval cof).primes, 0 < p) :
    (h.eval cof).toRns a = (h.eval cof).primes.map (fun p => a % p) ∧ Canon (h.eval cof).primes ((h.eval cof).toRns a) :=
  ⟨rfl, canon_ringToRns _ a hpos⟩

theorem rns_rns_round_trip (cof : Int → Int → Int) (hcof : CofOK cof) (h : RnsHist)
    (hco : PairwiseCoprime (h.eval cof).primes) :
    (∀ rs, Canon (h.eval cof).primes rs → (h.eval cof).toRns ((h.eval cof).rnsToRing cof rs).2 = rs) ∧
    (∀ a : Int, (∀ p ∈ (h.eval cof).primes, 0 < p) →
      ((h.eval cof).rnsToRing cof ((h.eval cof).toRns a)).2 = a % prod (h.eval cof).primes) := by
  refine ⟨?_, ?_⟩
  · intro rs hcan
    obtain ⟨_, a2, _⟩ := (rnsHist_good cof h).answers rs 0
    have r := rns_garner_result hcof _ rs hco.isCoprime hcan
    rw [a2]
    exact map_emod_eq_of_forall₂ r.residues
  · intro a hpos
    obtain ⟨_, a2, _⟩ := (rnsHist_good cof h).answers ((h.eval cof).toRns a) 0
    have r := rns_garner_result hcof _ _ hco.isCoprime (canon_ringToRns (h.eval cof).primes a hpos)
    rw [a2]
    exact roundtrip_of_result _ hco.isCoprime hpos a _ r

/-- the two systems agree with each other (same primes, same residues ⇒ same integer), whatever their histories -/
theorem int_rns_agree (cof : Int → Int → Int) (hcof : CofOK cof) (hi : IntHist) (hr : RnsHist) (rs : List Int)
    (hp : (hi.eval cof).primes = (hr.eval cof).primes)
    (hco : PairwiseCoprime (hi.eval cof).primes) (hcan : Canon (hi.eval cof).primes rs) :
    ((hi.eval cof).rnsToRing cof rs).2 = ((hr.eval cof).rnsToRing cof rs).2 := by
  have h1 := int_mixed_radix_exact cof hcof hi rs hco hcan
  have h2 := rns_mixed_radix_exact cof hcof hr rs (hp ▸ hco) (hp ▸ hcan)
  simp only at h1 h2
  apply h2.2.2 _ (hp ▸ h1.1)
  intro p hpm
  have e1 := h1.2.1
  have e2 := h2.2.1
  rw [← hp] at e2 hpm
  -- both have the residues rs
  have : ∀ (x y : Int) (ps rs : List Int), List.Forall₂ (fun p r => x % p = r) ps rs →
      List.Forall₂ (fun p r => y % p = r) ps rs → ∀ p ∈ ps, x % p = y % p := by
    intro x y ps rs hx
    induction hx with
    | nil => intro _ p hp; simp at hp
    | cons h1 _ ih =>
      intro hy p hp
      cases hy with
      | cons h2 hys =>
        rcases List.mem_cons.mp hp with h3 | h3
        · subst h3; rw [h1, h2]
        · exact ih hys p h3
  exact this _ _ _ _ e1 e2 p hpm

/-! ## ChineseRemainder functor -/

/-- the law the functor documents: `res ≡ A (mod M)` and `res ≡ e (mod D)`, for both `REDUCE` variants
    (the result is not reduced into `[0, M·D)`, and the documentation does not claim it is). -/
theorem functor_congruences (cof : Int → Int → Int) (hcof : CofOK cof) (M d A e : Int)
    (hd : 0 < d) (hco : Int.gcd d M = 1) :
    (craApply (craInit cof M d) d A e - A) % M = 0 ∧ (craApply (craInit cof M d) d A e - e) % d = 0 ∧
    (craApplyNoReduce (craInit cof M d) A e - A) % M = 0 ∧ (craApplyNoReduce (craInit cof M d) A e - e) % d = 0 :=
  cra_congruences hcof hd (Int.isCoprime_iff_gcd_eq_one.mpr hco) A e

/-! ## ChineseRemainder over any residue domain meeting the init/convert contract, whatever its storage

`ResidueDom` (Model/CRT.lean): the functor reaches its `Domain` only through `init`, `convert`, `sub`, `inv` on opaque element codes
(Montgomery form, discrete logarithms, …).  `DomOK D` is the contract: `convert` returns canonical integers, `convert ∘ init` is
reduction mod `d` (C04), `sub`/`inv` are subtraction / inversion of the residues the codes stand for (C03/C05/C07). -/

/-- both variants: the lift is `≡ A (mod M)` and its canonical remainder mod `d` *is* `convert e` -/
theorem functor_congruences_any_domain (D : ResidueDom) (hD : DomOK D) (M A e : Int) (hco : Int.gcd D.d M = 1) :
    (craApplyD D (craInitD D M) A e - A) % M = 0 ∧ craApplyD D (craInitD D M) A e % D.d = D.convert e ∧
    (craApplyNoReduceD D (craInitD D M) A e - A) % M = 0 ∧ craApplyNoReduceD D (craInitD D M) A e % D.d = D.convert e :=
  cra_congruences_dom hD (Int.isCoprime_iff_gcd_eq_one.mpr hco) A e

/-- the integer returned does not depend on the storage: it is what the canonical-storage model returns for the residue `convert e` -/
theorem functor_any_domain_is_canonical_model (D : ResidueDom) (hD : DomOK D) (cof : Int → Int → Int) (hcof : CofOK cof)
    (M A e : Int) (hco : Int.gcd D.d M = 1) :
    craInitD D M = craInit cof M D.d ∧
    craApplyD D (craInitD D M) A e = craApply (craInit cof M D.d) D.d A (D.convert e) ∧
    craApplyNoReduceD D (craInitD D M) A e = craApplyNoReduce (craInit cof M D.d) A (D.convert e) :=
  cra_dom_eq_canonical hD hcof (Int.isCoprime_iff_gcd_eq_one.mpr hco) A e

/-- the contract is met by canonical storage and by Montgomery storage with any radix `R` invertible mod `d` -/
theorem residue_domain_contract_instances (cof : Int → Int → Int) (hcof : CofOK cof) (d R Rinv : Int) (hd : 0 < d)
    (hR : (Rinv * R) % d = 1 % d) : DomOK (canonicalDom cof d) ∧ DomOK (montgomeryDom cof d R Rinv) :=
  ⟨canonicalDom_ok hcof hd, montgomeryDom_ok hcof hd hR⟩

/-! ## RNSsystemFixed: the constructor's table, the recombination tree, the final Garner step

`FixedHist`: construction from primes, copy construction, assignment, earlier conversions; `h.primes` the moduli it was built from. -/

/-- for every number of moduli (complete trees — 2, 4, 8, 16, … — included): the result is the integer of `[0, ∏m)` with the given
    residues, it is the only one, and it is what `RNSsystem`'s Garner conversion returns on the same input -/
theorem fixed_crt_exact (cof : Int → Int → Int) (hcof : CofOK cof) (h : FixedHist) (rs : List Int) (hne : h.primes ≠ [])
    (hco : PairwiseCoprime h.primes) (hcan : Canon h.primes rs) :
    let x := ((h.eval cof).rnsToRing cof rs).2
    (0 ≤ x ∧ x < prod h.primes) ∧ List.Forall₂ (fun p r => x % p = r) h.primes rs ∧
    (∀ y : Int, 0 ≤ y ∧ y < prod h.primes → (∀ p ∈ h.primes, y % p = x % p) → y = x) ∧
    x = ((RnsSys.ofPrimes h.primes).rnsToRing cof rs).2 := by
  have hans := (fixedHist_good cof h).answer rs
  have r := fixed_result hcof h.primes rs hne hco.isCoprime hcan
  simp only at r ⊢
  rw [hans]
  refine ⟨r.1, r.2, ?_, ?_⟩
  · intro y hy hres
    exact crt_unique _ hco.isCoprime y _ hy r.1 hres
  · have g := rns_mixed_radix_exact cof hcof (RnsHist.mk h.primes) rs hco hcan
    simp only [RnsHist.eval, RnsSys.ofPrimes] at g
    apply g.2.2 _ r.1
    intro p hp
    have : ∀ (x y : Int) (ps rs : List Int), List.Forall₂ (fun p r => x % p = r) ps rs →
        List.Forall₂ (fun p r => y % p = r) ps rs → ∀ p ∈ ps, x % p = y % p := by
      intro x y ps rs hx
      induction hx with
      | nil => intro _ p hp; simp at hp
      | cons h1 _ ih =>
        intro hy p hp
        cases hy with
        | cons h2 hys =>
          rcases List.mem_cons.mp hp with h3 | h3
          · subst h3; rw [h1, h2]
          · exact ih hys p h3
    exact this _ _ _ _ r.2 g.2.1 p hp

/-- the answer does not depend on how the object was obtained -/
theorem fixed_history_independent (cof : Int → Int → Int) (h1 h2 : FixedHist) (hp : h1.primes = h2.primes) (rs : List Int) :
    ((h1.eval cof).rnsToRing cof rs).2 = ((h2.eval cof).rnsToRing cof rs).2 := by
  rw [(fixedHist_good cof h1).answer rs, (fixedHist_good cof h2).answer rs, hp]

/-- the table the constructor builds by carries is the closed form: level `L` stores the `L`-fold pairwise products at even
    positions and the recombination constants `(p0⁻¹ mod p1)·p0` at odd positions -/
theorem fixed_table_closed_form (cof : Int → Int → Int) (ps : List Int) (hne : ps ≠ []) :
    fixedBuild cof ps = levelsFrom cof ps ∧ ∀ L, (fixedBuild cof ps).getD L [] = encode cof (pairProd^[L] ps) := by
  refine ⟨fixedBuild_eq cof hne, fun L => ?_⟩
  rw [fixedBuild_eq cof hne, levelsFrom_getD]

/-! ## mixed-radix digits: range, uniqueness, canonical expansion; the value is Mathlib's Chinese remainder -/

/-- for every pairwise coprime moduli list (any length, any sizes) a digit string with `0 ≤ d_i < m_i` is determined by its value -/
theorem mixed_radix_digits_unique (ps ms ms' : List Int) (h : Canon ps ms) (h' : Canon ps ms')
    (hv : mrValue ps ms = mrValue ps ms') : ms = ms' :=
  mr_digits_unique h h' hv

/-- the digits Garner's algorithm produces are *the* mixed-radix expansion of the converted value
    (`mrDigits ps x = [x mod p_0, (x / p_0) mod p_1, …]`), for both classes and every history; recombination is exact -/
theorem garner_digits_are_the_expansion (cof : Int → Int → Int) (hcof : CofOK cof) (hi : IntHist) (hr : RnsHist) (rs : List Int) :
    (PairwiseCoprime (hi.eval cof).primes → Canon (hi.eval cof).primes rs →
      ((hi.eval cof).rnsToMixedRadix cof rs).2 = mrDigits (hi.eval cof).primes ((hi.eval cof).rnsToRing cof rs).2 ∧
      mixedRadixToRing (hi.eval cof).primes ((hi.eval cof).rnsToMixedRadix cof rs).2 = ((hi.eval cof).rnsToRing cof rs).2) ∧
    (PairwiseCoprime (hr.eval cof).primes → Canon (hr.eval cof).primes rs →
      ((hr.eval cof).rnsToMixedRadix cof rs).2 = mrDigits (hr.eval cof).primes ((hr.eval cof).rnsToRing cof rs).2 ∧
      mixedRadixToRing (hr.eval cof).primes ((hr.eval cof).rnsToMixedRadix cof rs).2 = ((hr.eval cof).rnsToRing cof rs).2) := by
  refine ⟨?_, ?_⟩
  · intro hco hcan
    obtain ⟨a1, a2, _⟩ := (intHist_good cof hi).answers rs 0
    have r := int_garner_result hcof _ rs hco.isCoprime hcan
    rw [a1, a2]
    exact ⟨digits_eq_mrDigits r.digits r.value r.range, rfl⟩
  · intro hco hcan
    obtain ⟨a1, a2, _⟩ := (rnsHist_good cof hr).answers rs 0
    have r := rns_garner_result hcof _ rs hco.isCoprime hcan
    rw [a1, a2]
    exact ⟨digits_eq_mrDigits r.digits r.value r.range, rfl⟩

/-! ## programs: operation lists of any length over any number of objects

`IntOp` / `RnsOp` (Model/CRT.lean): construct, default-construct, copy-construct from another object, assign from another object
(or itself), `setPrimes`, conversions in both directions, `Reciprocals`, `product` — each naming the object(s) it acts on.
`intRun cof IntEnv.init ops s` is object `s` after the program `ops`; `intPrimesRun (fun _ => []) ops s` is the moduli list the
cache-free reading of the program gives that object (its *last moduli set*). -/

/-- the cache invariant holds for every object after every program (one step, lifted by induction over the list) -/
theorem int_ops_cache_invariant (cof : Int → Int → Int) (ops : List IntOp) (s : Nat) :
    let o := intRun cof IntEnv.init ops s
    (o.ck = [] ∨ o.ck = intComputeCk cof o.primes) ∧ (o.prod = 1 ∨ o.prod = prod o.primes) :=
  intRun_good cof ops IntEnv.init (fun _ => by simp [IntEnv.init, IntSys.empty, IntGood]) s

theorem rns_ops_cache_invariant (cof : Int → Int → Int) (ops : List RnsOp) (s : Nat) :
    let o := rnsRun cof RnsEnv.init ops s
    o.ck = [] ∨ o.ck = rnsComputeCk cof o.primes :=
  rnsRun_good cof ops RnsEnv.init (fun _ => by simp [RnsEnv.init, RnsSys.empty, RnsGood]) s

/-- the state after any program depends only on the last moduli set: the object's primes are those of the cache-free reading,
    and every answer is a fixed function of them (so any two objects, in any two programs, with the same last moduli set answer alike) -/
theorem int_ops_depend_only_on_last_moduli (cof : Int → Int → Int) (ops : List IntOp) (s : Nat) (rs : List Int) (a : Int) :
    let o := intRun cof IntEnv.init ops s
    let ps := intPrimesRun (fun _ => []) ops s
    o.primes = ps ∧
    (o.rnsToMixedRadix cof rs).2 = intRnsToMixedRadix ps (intComputeCk cof ps) rs ∧
    (o.rnsToRing cof rs).2 = mixedRadixToRing ps (intRnsToMixedRadix ps (intComputeCk cof ps) rs) ∧
    (o.reciprocals cof).2 = intComputeCk cof ps ∧ o.product.2 = prod ps ∧ o.toRns a = ringToRns ps a := by
  have hp : (intRun cof IntEnv.init ops s).primes = intPrimesRun (fun _ => []) ops s :=
    congrFun (intRun_primes cof ops IntEnv.init) s
  have hg := intRun_good cof ops IntEnv.init (fun _ => by simp [IntEnv.init, IntSys.empty, IntGood]) s
  obtain ⟨a1, a2, a3, a4, a5⟩ := hg.answers rs a
  simp only
  rw [a1, a2, a3, a4, a5, hp]
  simp

theorem rns_ops_depend_only_on_last_moduli (cof : Int → Int → Int) (ops : List RnsOp) (s : Nat) (rs : List Int) (a : Int) :
    let o := rnsRun cof RnsEnv.init ops s
    let ps := rnsPrimesRun (fun _ => []) ops s
    o.primes = ps ∧
    (o.rnsToMixedRadix cof rs).2 = rnsRnsToMixedRadix ps (rnsComputeCk cof ps) rs ∧
    (o.rnsToRing cof rs).2 = mixedRadixToRing ps (rnsRnsToMixedRadix ps (rnsComputeCk cof ps) rs) ∧
    (o.reciprocals cof).2 = rnsComputeCk cof ps ∧ o.toRns a = ringToRns ps a := by
  have hp : (rnsRun cof RnsEnv.init ops s).primes = rnsPrimesRun (fun _ => []) ops s :=
    congrFun (rnsRun_primes cof ops RnsEnv.init) s
  have hg := rnsRun_good cof ops RnsEnv.init (fun _ => by simp [RnsEnv.init, RnsSys.empty, RnsGood]) s
  obtain ⟨a1, a2, a3, a4⟩ := hg.answers rs a
  simp only
  rw [a1, a2, a3, a4, hp]
  simp

/-- after any program, on any object whose last moduli set is pairwise coprime, the conversions meet the CRT specification:
    `RnsToRing` is Mathlib's `Nat.chineseRemainderOfList` of the (modulus, residue) pairs, the digits are its mixed-radix expansion,
    and the two conversions are mutually inverse -/
theorem int_ops_conversions_meet_crt_spec (cof : Int → Int → Int) (hcof : CofOK cof) (ops : List IntOp) (s : Nat) (rs : List Int)
    (hco : PairwiseCoprime (intPrimesRun (fun _ => []) ops s)) (hcan : Canon (intPrimesRun (fun _ => []) ops s) rs)
    (co : (natPairs (intPrimesRun (fun _ => []) ops s) rs).Pairwise (Function.onFun Nat.Coprime Prod.fst)) :
    let o := intRun cof IntEnv.init ops s
    let ps := intPrimesRun (fun _ => []) ops s
    let x := (o.rnsToRing cof rs).2
    x = ((Nat.chineseRemainderOfList Prod.snd Prod.fst (natPairs ps rs) co : ℕ) : Int) ∧
    (o.rnsToMixedRadix cof rs).2 = mrDigits ps x ∧ o.toRns x = rs ∧
    (∀ a : Int, (o.rnsToRing cof (o.toRns a)).2 = a % prod ps) := by
  obtain ⟨e0, e1, e2, _, _, e5⟩ := int_ops_depend_only_on_last_moduli cof ops s rs 0
  have r := int_garner_result hcof _ rs hco.isCoprime hcan
  simp only at e0 e1 e2 e5 ⊢
  refine ⟨?_, ?_, ?_, ?_⟩
  · rw [e2]; exact eq_chineseRemainderOfList hco hcan r.range r.residues co
  · rw [e1, e2]; exact digits_eq_mrDigits r.digits r.value r.range
  · obtain ⟨_, _, _, _, _, e5'⟩ := int_ops_depend_only_on_last_moduli cof ops s rs ((intRun cof IntEnv.init ops s).rnsToRing cof rs).2
    rw [e5', e2]; exact map_emod_eq_of_forall₂ r.residues
  · intro a
    obtain ⟨_, _, e2', _, _, e5'⟩ := int_ops_depend_only_on_last_moduli cof ops s
      ((intRun cof IntEnv.init ops s).toRns a) a
    rw [e2', e5']
    have r' := int_garner_result hcof _ _ hco.isCoprime (canon_ringToRns _ a hcan.pos)
    exact roundtrip_of_result _ hco.isCoprime hcan.pos a _ r'

theorem rns_ops_conversions_meet_crt_spec (cof : Int → Int → Int) (hcof : CofOK cof) (ops : List RnsOp) (s : Nat) (rs : List Int)
    (hco : PairwiseCoprime (rnsPrimesRun (fun _ => []) ops s)) (hcan : Canon (rnsPrimesRun (fun _ => []) ops s) rs)
    (co : (natPairs (rnsPrimesRun (fun _ => []) ops s) rs).Pairwise (Function.onFun Nat.Coprime Prod.fst)) :
    let o := rnsRun cof RnsEnv.init ops s
    let ps := rnsPrimesRun (fun _ => []) ops s
    let x := (o.rnsToRing cof rs).2
    x = ((Nat.chineseRemainderOfList Prod.snd Prod.fst (natPairs ps rs) co : ℕ) : Int) ∧
    (o.rnsToMixedRadix cof rs).2 = mrDigits ps x ∧ o.toRns x = rs ∧
    (∀ a : Int, (o.rnsToRing cof (o.toRns a)).2 = a % prod ps) := by
  obtain ⟨e0, e1, e2, _, e5⟩ := rns_ops_depend_only_on_last_moduli cof ops s rs 0
  have r := rns_garner_result hcof _ rs hco.isCoprime hcan
  simp only at e0 e1 e2 e5 ⊢
  refine ⟨?_, ?_, ?_, ?_⟩
  · rw [e2]; exact eq_chineseRemainderOfList hco hcan r.range r.residues co
  · rw [e1, e2]; exact digits_eq_mrDigits r.digits r.value r.range
  · obtain ⟨_, _, _, _, e5'⟩ := rns_ops_depend_only_on_last_moduli cof ops s rs ((rnsRun cof RnsEnv.init ops s).rnsToRing cof rs).2
    rw [e5', e2]; exact map_emod_eq_of_forall₂ r.residues
  · intro a
    obtain ⟨_, _, e2', _, e5'⟩ := rns_ops_depend_only_on_last_moduli cof ops s
      ((rnsRun cof RnsEnv.init ops s).toRns a) a
    rw [e2', e5']
    have r' := rns_garner_result hcof _ _ hco.isCoprime (canon_ringToRns _ a hcan.pos)
    exact roundtrip_of_result _ hco.isCoprime hcan.pos a _ r'

/-! ## Poly1CRT<Field> (polynomial CRT with the moduli `X - a_i`), `Field = Z/p`, `p` prime

`DistinctMod p as := as.Pairwise (fun a b => a % p ≠ b % p)` — the moduli `X - a_i` are pairwise coprime;
`CanonCoeffs p P` — every coefficient in `[0, p)`; a polynomial is its coefficient list (low degree first), two lists denote the
same polynomial when they agree at every index (`getD i 0`: missing high coefficients are 0). -/

theorem poly_cache_invariant (cof : Int → Int → Int) (h : PolyHist) :
    (h.eval cof).ck = [] ∨ (h.eval cof).ck = polyComputeCk cof (h.eval cof).p (h.eval cof).points :=
  polyHist_good cof h

theorem poly_history_independent (cof : Int → Int → Int) (h1 h2 : PolyHist)
    (hp : (h1.eval cof).p = (h2.eval cof).p) (hpts : (h1.eval cof).points = (h2.eval cof).points) (rs P : List Int) :
    ((h1.eval cof).rnsToRing cof rs).2 = ((h2.eval cof).rnsToRing cof rs).2 ∧
    (h1.eval cof).toRns P = (h2.eval cof).toRns P := by
  rw [(polyHist_good cof h1).answer rs, (polyHist_good cof h2).answer rs, hp, hpts]
  simp [PolySys.toRns, hp, hpts]

/-- `RnsToRing` returns a polynomial of degree `< n` with canonical coefficients whose value at `a_i` is `r_i`
    (so `RingToRns ∘ RnsToRing` is the identity on canonical residue vectors) -/
theorem poly_crt_interpolates (p : ℕ) [Fact p.Prime] (cof : Int → Int → Int) (hcof : CofOK cof) (h : PolyHist)
    (hq : (h.eval cof).p = (p : Int)) (rs : List Int) (hlen : rs.length = (h.eval cof).points.length)
    (hd : DistinctMod (p : Int) (h.eval cof).points) :
    (h.eval cof).toRns ((h.eval cof).rnsToRing cof rs).2 = rs.map (fun r => r % (p : Int)) ∧
    (((h.eval cof).rnsToRing cof rs).2).length ≤ (h.eval cof).points.length ∧
    CanonCoeffs (p : Int) ((h.eval cof).rnsToRing cof rs).2 := by
  rw [(polyHist_good cof h).answer rs, hq]
  obtain ⟨r1, r2, r3⟩ := polyRnsToRing_spec (p := p) hcof (h.eval cof).points rs hlen hd.cast
  refine ⟨?_, r2, r3⟩
  simp only [PolySys.toRns, hq]
  exact polyRingToRns_of_forall₂ _ r1

/-- … and it is the *unique* such polynomial: any `Q` of degree `< n` with the same values has the same coefficients mod `p` -/
theorem poly_crt_unique (p : ℕ) [Fact p.Prime] (cof : Int → Int → Int) (hcof : CofOK cof) (h : PolyHist)
    (hq : (h.eval cof).p = (p : Int)) (rs : List Int) (hlen : rs.length = (h.eval cof).points.length)
    (hd : DistinctMod (p : Int) (h.eval cof).points)
    (Q : List Int) (hQ : Q.length ≤ (h.eval cof).points.length)
    (hQr : (h.eval cof).toRns Q = rs.map (fun r => r % (p : Int))) :
    ∀ i : ℕ, (Q.getD i 0) % (p : Int) = (((h.eval cof).rnsToRing cof rs).2).getD i 0 := by
  have hpos : (0 : Int) < p := by exact_mod_cast (Fact.out : p.Prime).pos
  obtain ⟨e1, e2, e3⟩ := poly_crt_interpolates p cof hcof h hq rs hlen hd
  intro i
  have hev : ∀ a ∈ (h.eval cof).points,
      (toP p Q).eval (a : ZMod p) = (toP p ((h.eval cof).rnsToRing cof rs).2).eval (a : ZMod p) := by
    have := hQr.trans e1.symm
    simp only [PolySys.toRns, polyRingToRns, hq] at this
    intro a ha
    have h1 := (List.map_inj_left.mp this) a ha
    rw [← eval_toP, ← eval_toP, h1]
  have := getD_emod_eq_of_toP_eq _ _ (toP_unique _ hd.cast Q _ hQ e2 hev) i
  rw [this]
  have hc := getD_canon hpos e3 i
  exact Int.emod_eq_of_lt hc.1 hc.2

/-- `RingToRns` then `RnsToRing` is the identity on polynomials of degree `<` the number of points -/
theorem poly_crt_round_trip (p : ℕ) [Fact p.Prime] (cof : Int → Int → Int) (hcof : CofOK cof) (h : PolyHist)
    (hq : (h.eval cof).p = (p : Int)) (hd : DistinctMod (p : Int) (h.eval cof).points)
    (P : List Int) (hP : P.length ≤ (h.eval cof).points.length) (hc : CanonCoeffs (p : Int) P) :
    ∀ i : ℕ, (((h.eval cof).rnsToRing cof ((h.eval cof).toRns P)).2).getD i 0 = P.getD i 0 := by
  have hpos : (0 : Int) < p := by exact_mod_cast (Fact.out : p.Prime).pos
  intro i
  have hlen : ((h.eval cof).toRns P).length = (h.eval cof).points.length := by
    simp [PolySys.toRns, polyRingToRns]
  have hres : (h.eval cof).toRns P = ((h.eval cof).toRns P).map (fun r => r % (p : Int)) := by
    simp only [PolySys.toRns, polyRingToRns, hq, List.map_map]
    apply List.map_congr_left
    intro a _
    have hcn := polyEval_canon (p : Int) hpos P a
    simp [Function.comp, Int.emod_eq_of_lt hcn.1 hcn.2]
  have := poly_crt_unique p cof hcof h hq _ hlen hd P hP hres i
  rw [← this]
  have hci := getD_canon hpos hc i
  exact Int.emod_eq_of_lt hci.1 hci.2

/-- the same in terms of the observable (normalised) coefficient list the harness compares -/
theorem poly_crt_round_trip_normalised (p : ℕ) [Fact p.Prime] (cof : Int → Int → Int) (hcof : CofOK cof) (h : PolyHist)
    (hq : (h.eval cof).p = (p : Int)) (hd : DistinctMod (p : Int) (h.eval cof).points)
    (P : List Int) (hP : P.length ≤ (h.eval cof).points.length) (hc : CanonCoeffs (p : Int) P) :
    polyNorm ((h.eval cof).rnsToRing cof ((h.eval cof).toRns P)).2 = polyNorm P :=
  polyNorm_eq_of_getD_eq _ _ (poly_crt_round_trip p cof hcof h hq hd P hP hc)

/-! ## non-vacuity: the hypotheses are satisfiable and the conclusions are the expected numbers -/

example : CofOK cofEuclid := cof_contract_satisfiable
example : PairwiseCoprime [7, 11, 13] := by unfold PairwiseCoprime; decide
example : PairwiseCoprime ((IntHist.copy (.useCk (.mk [7, 11, 13]))).eval cofEuclid).primes := by
  unfold PairwiseCoprime; decide
example : Canon ((IntHist.copy (.useCk (.mk [7, 11, 13]))).eval cofEuclid).primes [3, 5, 6] := by
  unfold Canon; exact .cons (by decide) (.cons (by decide) (.cons (by decide) .nil))
example : (((IntHist.copy (.useCk (.mk [7, 11, 13]))).eval cofEuclid).rnsToRing cofEuclid [3, 5, 6]).2 = 500 := by decide
example : (((IntHist.assign (.useCk (.mk [3, 5])) (.useProd (.mk [7, 11, 13]))).eval cofEuclid).rnsToRing cofEuclid [3, 5, 6]).2 = 500 := by
  decide
example : PairwiseCoprime ((RnsHist.setPrimes (.useCk (.mk [3, 5])) [13, 7, 11]).eval cofEuclid).primes := by
  unfold PairwiseCoprime; decide
example : Canon ((RnsHist.setPrimes (.useCk (.mk [3, 5])) [13, 7, 11]).eval cofEuclid).primes [6, 3, 5] := by
  unfold Canon; exact .cons (by decide) (.cons (by decide) (.cons (by decide) .nil))
example : (((RnsHist.setPrimes (.useCk (.mk [3, 5])) [13, 7, 11]).eval cofEuclid).rnsToRing cofEuclid [6, 3, 5]).2 = 500 := by decide
example : (((RnsHist.assign (.useCk (.mk [3, 5])) (.copy (.useCk (.mk [13, 7, 11])))).eval cofEuclid).rnsToMixedRadix cofEuclid [6, 3, 5]).2 = [6, 3, 5] := by
  decide
example : (0 : Int) < 13 ∧ Int.gcd 13 77 = 1 := by decide
example : craApply (craInit cofEuclid 77 13) 13 38 6 = 6506 ∧ (6506 : Int) % (77 * 13) = 500 := by decide

-- a program over three objects: object 2 ends on (7,11,13) after copies, a self-assignment and stale caches everywhere
example :
    let ops : List IntOp := [.construct 0 [3, 5], .toRing 0 [1, 2], .construct 1 [7, 11, 13], .product 1, .copyConstruct 2 0,
      .toRing 2 [2, 4], .assign 2 1, .assign 2 2, .assign 0 2, .reciprocals 0]
    intPrimesRun (fun _ => []) ops 2 = [7, 11, 13] ∧ ((intRun cofEuclid IntEnv.init ops 2).rnsToRing cofEuclid [3, 5, 6]).2 = 500 ∧
    ((intRun cofEuclid IntEnv.init ops 0).rnsToMixedRadix cofEuclid [3, 5, 6]).2 = mrDigits [7, 11, 13] 500 := by decide
example :
    let ops : List RnsOp := [.construct 0 [3, 5], .toRing 0 [1, 2], .copyConstruct 1 0, .setPrimes 1 [13, 7, 11], .assign 0 1,
      .toRing 1 [6, 3, 5], .setPrimes 1 [2, 9], .assign 2 0]
    rnsPrimesRun (fun _ => []) ops 2 = [13, 7, 11] ∧ ((rnsRun cofEuclid RnsEnv.init ops 2).rnsToRing cofEuclid [6, 3, 5]).2 = 500 := by
  decide
example : PairwiseCoprime [7, 11, 13] ∧ natPairs [7, 11, 13] [3, 5, 6] = [(7, 3), (11, 5), (13, 6)] := by
  unfold PairwiseCoprime; decide

-- RNSsystemFixed on 4 (complete tree), 3 and 5 moduli, through copies and earlier conversions
example : ((FixedHist.copy (.use (.mk [7, 11, 13, 17]) [1, 2, 3, 4])).eval cofEuclid |>.rnsToRing cofEuclid [3, 5, 6, 7]).2 = 500 := by
  decide
example : ((FixedHist.assign (.mk [2, 3]) (.mk [7, 11, 13])).eval cofEuclid |>.rnsToRing cofEuclid [3, 5, 6]).2 = 500 := by decide
example : ((FixedHist.mk [2, 3, 5, 7, 11]).eval cofEuclid |>.rnsToRing cofEuclid [0, 2, 0, 3, 5]).2 = 500 := by decide
example : fixedBuild cofEuclid [2, 5, 7, 3] = [[2, 6, 7, 7], [10, 190], [210]] := by decide
-- Montgomery storage, d = 13, R = 16 ≡ 3, R⁻¹ = 9: lifting A = 38 (mod 77) with the element whose value is 6
example : ((9 : Int) * 3) % 13 = 1 % 13 := by decide
example : craApplyD (montgomeryDom cofEuclid 13 3 9) (craInitD (montgomeryDom cofEuclid 13 3 9) 77) 38
    ((montgomeryDom cofEuclid 13 3 9).init 6) = 6506 ∧ (montgomeryDom cofEuclid 13 3 9).convert ((montgomeryDom cofEuclid 13 3 9).init 6) = 6 := by
  decide

-- Poly1CRT over Z/7, points 1,2,4, residues of 3X²+5X+2
instance : Fact (Nat.Prime 7) := ⟨by decide⟩
example : DistinctMod ((7 : ℕ) : Int) ((PolyHist.copy (.useCk (.mk 7 [1, 2, 4]))).eval cofEuclid).points := by
  unfold DistinctMod; decide
example : CanonCoeffs ((7 : ℕ) : Int) [2, 5, 3] := by unfold CanonCoeffs; decide
example : ((PolyHist.mk 7 [1, 2, 4]).eval cofEuclid).toRns [2, 5, 3] = [3, 3, 0] := by decide
example : (((PolyHist.copy (.useCk (.mk 7 [1, 2, 4]))).eval cofEuclid).rnsToRing cofEuclid [3, 3, 0]).2 = [2, 5, 3] := by decide

end Givaro.Props.C14
