/-
C14 — Chinese remaindering and residue number systems reconstruct the unique integer.

All theorems are about the executable model `GivaroModel/Model/CRT.lean`, which mirrors the loops of
`IntRNSsystem` (givintrns*.{h,inl}), `RNSsystem<RING,Domain>` (givrns*.{h,inl}) and `ChineseRemainder`
(chineseremainder.h) and is tied to the compiled library by `harness/h_crt.cpp` / `Driver/CRT.lean`.

Quantifiers: every list of moduli (any length ≥ 0, any order, any size — `Int` is unbounded), every canonical residue
vector, every integer, every cofactor function `cof` satisfying the Bezout contract `CofOK` (what `mpz_gcdext` and
`Domain::inv` guarantee), and every *history* of the system object (`IntHist` / `RnsHist`: default construction,
construction from primes, copy construction, assignment over any other object, `setPrimes`, and any number of
earlier conversions that filled the caches).

Hypotheses are exactly the documented contract: moduli pairwise coprime
(`PairwiseCoprime ps := ps.Pairwise (fun a b => Int.gcd a b = 1)`) and residues canonical
(`Canon ps rs := Forall₂ (fun p r => 0 ≤ r ∧ r < p) ps rs`, which also says `0 < p_i`); both are defined in Lemmas/CRT*.lean.
-/
import GivaroModel.Lemmas.CRTSys
namespace Givaro.Props.C14
open Givaro.Model.CRT
open Givaro.Lemmas.CRT
open Givaro.Spec.CRT (prod mrValue)

/-- the Bezout-cofactor contract is satisfiable: the extended Euclid used by the driver meets it -/
theorem cof_contract_satisfiable : CofOK cofEuclid := cofEuclid_ok

/-! ## IntRNSsystem -/

/-- *cache invariant*: whatever the history, `_ck` is empty or holds the reciprocals of the *current* primes,
    and `_prod` is 1 or the product of the current primes. -/
theorem int_cache_invariant (cof : Int → Int → Int) (h : IntHist) :
    ((h.eval cof).ck = [] ∨ (h.eval cof).ck = intComputeCk cof (h.eval cof).primes) ∧
    ((h.eval cof).prod = 1 ∨ (h.eval cof).prod = prod (h.eval cof).primes) :=
  intHist_good cof h

/-- *the result does not depend on which constructor, copy or assignment produced the system object*:
    two objects with the same primes give identical answers to every query. -/
theorem int_history_independent (cof : Int → Int → Int) (h1 h2 : IntHist)
    (hp : (h1.eval cof).primes = (h2.eval cof).primes) (rs : List Int) (a : Int) :
    ((h1.eval cof).rnsToRing cof rs).2 = ((h2.eval cof).rnsToRing cof rs).2 ∧
    ((h1.eval cof).rnsToMixedRadix cof rs).2 = ((h2.eval cof).rnsToMixedRadix cof rs).2 ∧
    ((h1.eval cof).reciprocals cof).2 = ((h2.eval cof).reciprocals cof).2 ∧
    (h1.eval cof).product.2 = (h2.eval cof).product.2 ∧
    (h1.eval cof).toRns a = (h2.eval cof).toRns a := by
  obtain ⟨a1, a2, a3, a4, a5⟩ := (intHist_good cof h1).answers rs a
  obtain ⟨b1, b2, b3, b4, b5⟩ := (intHist_good cof h2).answers rs a
  rw [a1, a2, a3, a4, a5, b1, b2, b3, b4, b5, hp]
  simp

/-- the copy constructor as it stood before fixes/C14_1.patch (`_ck(R._primes)`) violates history independence:
    primes (7,11,13), residues of 500: the original answers 500, its copy answers 3. -/
theorem int_copy_unrepaired_counterexample :
    ((IntSys.ofPrimes [7, 11, 13]).rnsToRing cofEuclid [3, 5, 6]).2 = 500 ∧
    ((IntSys.ofPrimes [7, 11, 13]).copyUnrepaired.rnsToRing cofEuclid [3, 5, 6]).2 = 3 := by
  decide

/-- *mixed-radix digits are each below their modulus*, and they are the digits of the converted value -/
theorem int_garner_digits_bounded (cof : Int → Int → Int) (hcof : CofOK cof) (h : IntHist) (rs : List Int)
    (hco : PairwiseCoprime (h.eval cof).primes) (hcan : Canon (h.eval cof).primes rs) :
    Canon (h.eval cof).primes ((h.eval cof).rnsToMixedRadix cof rs).2 ∧
    mrValue (h.eval cof).primes ((h.eval cof).rnsToMixedRadix cof rs).2 = ((h.eval cof).rnsToRing cof rs).2 := by
  obtain ⟨a1, a2, _⟩ := (intHist_good cof h).answers rs 0
  have r := int_garner_result hcof _ rs hco.isCoprime hcan
  rw [a1, a2]
  exact ⟨r.digits, r.value⟩

/-- *conversion from the residue representation returns the unique integer in [0, ∏ moduli) having those residues* -/
theorem int_mixed_radix_exact (cof : Int → Int → Int) (hcof : CofOK cof) (h : IntHist) (rs : List Int)
    (hco : PairwiseCoprime (h.eval cof).primes) (hcan : Canon (h.eval cof).primes rs) :
    let ps := (h.eval cof).primes
    let x := ((h.eval cof).rnsToRing cof rs).2
    (0 ≤ x ∧ x < prod ps) ∧ List.Forall₂ (fun p r => x % p = r) ps rs ∧
    (∀ y : Int, 0 ≤ y ∧ y < prod ps → (∀ p ∈ ps, y % p = x % p) → y = x) := by
  obtain ⟨_, a2, _⟩ := (intHist_good cof h).answers rs 0
  have r := int_garner_result hcof _ rs hco.isCoprime hcan
  simp only
  rw [a2]
  refine ⟨r.range, r.residues, ?_⟩
  intro y hy hres
  exact crt_unique _ hco.isCoprime y _ hy r.range hres

/-- *conversion of an integer to residues returns its canonical remainders* -/
theorem int_ring_to_rns_canonical (cof : Int → Int → Int) (h : IntHist) (a : Int)
    (hpos : ∀ p ∈ (h.eval cof).primes, 0 < p) :
    (h.eval cof).toRns a = (h.eval cof).primes.map (fun p => a % p) ∧ Canon (h.eval cof).primes ((h.eval cof).toRns a) :=
  ⟨rfl, canon_ringToRns _ a hpos⟩

/-- *the two conversions are mutually inverse* -/
theorem int_rns_round_trip (cof : Int → Int → Int) (hcof : CofOK cof) (h : IntHist)
    (hco : PairwiseCoprime (h.eval cof).primes) :
    (∀ rs, Canon (h.eval cof).primes rs → (h.eval cof).toRns ((h.eval cof).rnsToRing cof rs).2 = rs) ∧
    (∀ a : Int, (∀ p ∈ (h.eval cof).primes, 0 < p) →
      ((h.eval cof).rnsToRing cof ((h.eval cof).toRns a)).2 = a % prod (h.eval cof).primes) := by
  refine ⟨?_, ?_⟩
  · intro rs hcan
    obtain ⟨_, a2, _⟩ := (intHist_good cof h).answers rs 0
    have r := int_garner_result hcof _ rs hco.isCoprime hcan
    rw [a2]
    exact map_emod_eq_of_forall₂ r.residues
  · intro a hpos
    obtain ⟨_, a2, _⟩ := (intHist_good cof h).answers ((h.eval cof).toRns a) 0
    have r := int_garner_result hcof _ _ hco.isCoprime (canon_ringToRns (h.eval cof).primes a hpos)
    rw [a2]
    exact roundtrip_of_result _ hco.isCoprime hpos a _ r

/-! ## RNSsystem<RING, Domain> -/

theorem rns_cache_invariant (cof : Int → Int → Int) (h : RnsHist) :
    (h.eval cof).ck = [] ∨ (h.eval cof).ck = rnsComputeCk cof (h.eval cof).primes :=
  rnsHist_good cof h

theorem rns_history_independent (cof : Int → Int → Int) (h1 h2 : RnsHist)
    (hp : (h1.eval cof).primes = (h2.eval cof).primes) (rs : List Int) (a : Int) :
    ((h1.eval cof).rnsToRing cof rs).2 = ((h2.eval cof).rnsToRing cof rs).2 ∧
    ((h1.eval cof).rnsToMixedRadix cof rs).2 = ((h2.eval cof).rnsToMixedRadix cof rs).2 ∧
    ((h1.eval cof).reciprocals cof).2 = ((h2.eval cof).reciprocals cof).2 ∧
    (h1.eval cof).toRns a = (h2.eval cof).toRns a := by
  obtain ⟨a1, a2, a3, a4⟩ := (rnsHist_good cof h1).answers rs a
  obtain ⟨b1, b2, b3, b4⟩ := (rnsHist_good cof h2).answers rs a
  rw [a1, a2, a3, a4, b1, b2, b3, b4, hp]
  simp

/-- dropping `_ck.resize(0)` from `setPrimes` (the representative breaking change of DESIGN §2.9) is *not* harmless:
    a system moved from primes (3,5) to (7,11,13) after one conversion would answer 276 instead of 500. -/
theorem rns_setPrimes_must_clear_cache :
    let s := ((RnsSys.ofPrimes [3, 5]).computeCk cofEuclid)
    ((s.setPrimes [7, 11, 13]).rnsToRing cofEuclid [3, 5, 6]).2 = 500 ∧
    ((RnsSys.mk [7, 11, 13] s.ck).rnsToRing cofEuclid [3, 5, 6]).2 ≠ 500 := by
  decide

theorem rns_garner_digits_bounded (cof : Int → Int → Int) (hcof : CofOK cof) (h : RnsHist) (rs : List Int)
    (hco : PairwiseCoprime (h.eval cof).primes) (hcan : Canon (h.eval cof).primes rs) :
    Canon (h.eval cof).primes ((h.eval cof).rnsToMixedRadix cof rs).2 ∧
    mrValue (h.eval cof).primes ((h.eval cof).rnsToMixedRadix cof rs).2 = ((h.eval cof).rnsToRing cof rs).2 := by
  obtain ⟨a1, a2, _⟩ := (rnsHist_good cof h).answers rs 0
  have r := rns_garner_result hcof _ rs hco.isCoprime hcan
  rw [a1, a2]
  exact ⟨r.digits, r.value⟩

theorem rns_mixed_radix_exact (cof : Int → Int → Int) (hcof : CofOK cof) (h : RnsHist) (rs : List Int)
    (hco : PairwiseCoprime (h.eval cof).primes) (hcan : Canon (h.eval cof).primes rs) :
    let ps := (h.eval cof).primes
    let x := ((h.eval cof).rnsToRing cof rs).2
    (0 ≤ x ∧ x < prod ps) ∧ List.Forall₂ (fun p r => x % p = r) ps rs ∧
    (∀ y : Int, 0 ≤ y ∧ y < prod ps → (∀ p ∈ ps, y % p = x % p) → y = x) := by
  obtain ⟨_, a2, _⟩ := (rnsHist_good cof h).answers rs 0
  have r := rns_garner_result hcof _ rs hco.isCoprime hcan
  simp only
  rw [a2]
  refine ⟨r.range, r.residues, ?_⟩
  intro y hy hres
  exact crt_unique _ hco.isCoprime y _ hy r.range hres

theorem rns_ring_to_rns_canonical (cof : Int → Int → Int) (h : RnsHist) (a : Int)
    (hpos : ∀ p ∈ (h.eval cof).primes, 0 < p) :
    (h.eval cof).toRns a = (h.eval cof).primes.map (fun p => a % p) ∧ Canon (h.eval cof).primes ((h.eval cof).toRns a) :=
  ⟨rfl, canon_ringToRns _ a hpos⟩

theorem rns_rns_round_trip (cof : Int → Int → Int) (hcof : CofOK cof) (h : RnsHist)
    (hco : PairwiseCoprime (h.eval cof).primes) :
    (∀ rs, Canon (h.eval cof).primes rs → (h.eval cof).toRns ((h.eval cof).rnsToRing cof rs).2 = rs) ∧
    (∀ a : Int, (∀ p ∈ (h.eval cof).primes, 0 < p) →
      ((h.eval cof).rnsToRing cof ((h.eval cof).toRns a)).2 = a % prod (h.eval cof).primes) := by
  refine ⟨?_, ?_⟩
  · intro rs hcan
    obtain ⟨_, a2, _⟩ := (rnsHist_good cof h).answers rs 0
    have r := rns_garner_result hcof _ rs hco.isCoprime hcan
    rw [a2]
    exact map_emod_eq_of_forall₂ r.residues
  · intro a hpos
    obtain ⟨_, a2, _⟩ := (rnsHist_good cof h).answers ((h.eval cof).toRns a) 0
    have r := rns_garner_result hcof _ _ hco.isCoprime (canon_ringToRns (h.eval cof).primes a hpos)
    rw [a2]
    exact roundtrip_of_result _ hco.isCoprime hpos a _ r

/-- the two systems agree with each other (same primes, same residues ⇒ same integer), whatever their histories -/
theorem int_rns_agree (cof : Int → Int → Int) (hcof : CofOK cof) (hi : IntHist) (hr : RnsHist) (rs : List Int)
    (hp : (hi.eval cof).primes = (hr.eval cof).primes)
    (hco : PairwiseCoprime (hi.eval cof).primes) (hcan : Canon (hi.eval cof).primes rs) :
    ((hi.eval cof).rnsToRing cof rs).2 = ((hr.eval cof).rnsToRing cof rs).2 := by
  have h1 := int_mixed_radix_exact cof hcof hi rs hco hcan
  have h2 := rns_mixed_radix_exact cof hcof hr rs (hp ▸ hco) (hp ▸ hcan)
  simp only at h1 h2
  apply h2.2.2 _ (hp ▸ h1.1)
  intro p hpm
  have e1 := h1.2.1
  have e2 := h2.2.1
  rw [← hp] at e2 hpm
  -- both have the residues rs
  have : ∀ (x y : Int) (ps rs : List Int), List.Forall₂ (fun p r => x % p = r) ps rs →
      List.Forall₂ (fun p r => y % p = r) ps rs → ∀ p ∈ ps, x % p = y % p := by
    intro x y ps rs hx
    induction hx with
    | nil => intro _ p hp; simp at hp
    | cons h1 _ ih =>
      intro hy p hp
      cases hy with
      | cons h2 hys =>
        rcases List.mem_cons.mp hp with h3 | h3
        · subst h3; rw [h1, h2]
        · exact ih hys p h3
  exact this _ _ _ _ e1 e2 p hpm

/-! ## ChineseRemainder functor -/

/-- the law the functor documents: `res ≡ A (mod M)` and `res ≡ e (mod D)`, for both `REDUCE` variants
    (the result is not reduced into `[0, M·D)`, and the documentation does not claim it is). -/
theorem functor_congruences (cof : Int → Int → Int) (hcof : CofOK cof) (M d A e : Int)
    (hd : 0 < d) (hco : Int.gcd d M = 1) :
    (craApply (craInit cof M d) d A e - A) % M = 0 ∧ (craApply (craInit cof M d) d A e - e) % d = 0 ∧
    (craApplyNoReduce (craInit cof M d) A e - A) % M = 0 ∧ (craApplyNoReduce (craInit cof M d) A e - e) % d = 0 :=
  cra_congruences hcof hd (Int.isCoprime_iff_gcd_eq_one.mpr hco) A e

/-! ## non-vacuity: the hypotheses are satisfiable and the conclusions are the expected numbers -/

example : CofOK cofEuclid := cof_contract_satisfiable
example : PairwiseCoprime [7, 11, 13] := by unfold PairwiseCoprime; decide
example : PairwiseCoprime ((IntHist.copy (.useCk (.mk [7, 11, 13]))).eval cofEuclid).primes := by
  unfold PairwiseCoprime; decide
example : Canon ((IntHist.copy (.useCk (.mk [7, 11, 13]))).eval cofEuclid).primes [3, 5, 6] := by
  unfold Canon; exact .cons (by decide) (.cons (by decide) (.cons (by decide) .nil))
example : (((IntHist.copy (.useCk (.mk [7, 11, 13]))).eval cofEuclid).rnsToRing cofEuclid [3, 5, 6]).2 = 500 := by decide
example : (((IntHist.assign (.useCk (.mk [3, 5])) (.useProd (.mk [7, 11, 13]))).eval cofEuclid).rnsToRing cofEuclid [3, 5, 6]).2 = 500 := by
  decide
example : PairwiseCoprime ((RnsHist.setPrimes (.useCk (.mk [3, 5])) [13, 7, 11]).eval cofEuclid).primes := by
  unfold PairwiseCoprime; decide
example : Canon ((RnsHist.setPrimes (.useCk (.mk [3, 5])) [13, 7, 11]).eval cofEuclid).primes [6, 3, 5] := by
  unfold Canon; exact .cons (by decide) (.cons (by decide) (.cons (by decide) .nil))
example : (((RnsHist.setPrimes (.useCk (.mk [3, 5])) [13, 7, 11]).eval cofEuclid).rnsToRing cofEuclid [6, 3, 5]).2 = 500 := by decide
example : (((RnsHist.assign (.useCk (.mk [3, 5])) (.copy (.useCk (.mk [13, 7, 11])))).eval cofEuclid).rnsToMixedRadix cofEuclid [6, 3, 5]).2 = [6, 3, 5] := by
  decide
example : (0 : Int) < 13 ∧ Int.gcd 13 77 = 1 := by decide
example : craApply (craInit cofEuclid 77 13) 13 38 6 = 6506 ∧ (6506 : Int) % (77 * 13) = 500 := by decide

end Givaro.Props.C14
