/-
C09 — polynomial factorisation, irreducibility and primitivity decisions are correct.

Mathlib-level criteria (for EVERY finite field K and every polynomial — no bound on q or on degrees):
  * `ddf_test_correct`        the criterion implemented by `is_irreducible` (derivative test + gcd(X^(q^i) - X, P) for
                              i = 1 … ⌊n/2⌋) characterises irreducibility; `ddf_test_without_derivative`: the derivative test is
                              redundant (so dropping it is a harmless change, the loop bound ⌊n/2⌋ is not);
  * `rabin_test_correct`      the criterion of `is_irreducible2` as repaired by fixes/C09_3;
  * `order_certificate`, `primitive_iff`
                              the prime-divisor test of `order` / `is_prim_root` / the driver's `checkOrder`;
  * `factor_list_certificate` the certificate checked on every `CZfactor` output decides "no factor lost or invented,
                              multiplicities exact".
Model-level (all inputs, all enumeration orders, all random streams):
  * `found_irreducible_has_degree`, `found_ixe_irreducible`, `found_prim_root`
                              what the searches of givpoly1proot.inl return.
-/
import GivaroModel.Model.PolyFactor
import GivaroModel.Lemmas.PolyFactorLemmas
import GivaroModel.Spec.PolyFactorSpec
import Mathlib.FieldTheory.Finite.Extension
import Mathlib.FieldTheory.Perfect
import Mathlib.Algebra.Polynomial.FieldDivision
import Mathlib.Algebra.BigOperators.Associated
import Mathlib.GroupTheory.OrderOfElement
import Mathlib.FieldTheory.Finite.Basic
namespace Givaro.Props.C09
open Polynomial

theorem ddf_test_correct {K : Type*} [Field K] [Finite K] (P : K[X]) (hn : 1 ≤ P.natDegree) :
    Irreducible P ↔ IsCoprime P (derivative P) ∧
      ∀ i, 1 ≤ i → i ≤ P.natDegree / 2 → IsCoprime (X ^ (Nat.card K ^ i) - X) P := by
  have hP0 : P ≠ 0 := by rintro rfl; simp at hn
  have hPu : ¬ IsUnit P := fun h => by
    have := natDegree_eq_zero_of_isUnit h; omega
  constructor
  · intro hP
    refine ⟨PerfectField.separable_of_irreducible hP, fun i hi1 hi2 => ?_⟩
    rw [isCoprime_comm, hP.coprime_iff_not_dvd]
    intro hdvd
    have := (hP.natDegree_dvd_iff_dvd_X_pow_card_pow_sub_X (n := i)).2 hdvd
    have := Nat.le_of_dvd (by omega) this
    omega
  · rintro ⟨-, h⟩
    by_contra hirr
    rw [irreducible_iff_lt_natDegree_lt hP0 hPu] at hirr
    push Not at hirr
    obtain ⟨q, hqm, hqd, hqP⟩ := hirr
    rw [Finset.mem_Ioc] at hqd
    have hq0 : q ≠ 0 := hqm.ne_zero
    have hqu : ¬ IsUnit q := fun hu => by
      have := natDegree_eq_zero_of_isUnit hu; omega
    obtain ⟨g, hg, hgq⟩ := WfDvdMonoid.exists_irreducible_factor hqu hq0
    have hgd : g.natDegree ≤ q.natDegree := natDegree_le_of_dvd hgq hq0
    have hgpos := hg.natDegree_pos
    have h1 : g ∣ X ^ (Nat.card K ^ g.natDegree) - X :=
      (hg.natDegree_dvd_iff_dvd_X_pow_card_pow_sub_X (n := g.natDegree)).1 (dvd_refl _)
    exact hg.not_isUnit ((h g.natDegree hgpos (by omega)).isUnit_of_dvd' h1 (hgq.trans hqP))

/-- the derivative test of `is_irreducible` is redundant -/
theorem ddf_test_without_derivative {K : Type*} [Field K] [Finite K] (P : K[X]) (hn : 1 ≤ P.natDegree) :
    Irreducible P ↔ ∀ i, 1 ≤ i → i ≤ P.natDegree / 2 → IsCoprime (X ^ (Nat.card K ^ i) - X) P := by
  constructor
  · intro h; exact ((ddf_test_correct P hn).1 h).2
  · intro h
    by_contra hirr
    have hP0 : P ≠ 0 := by rintro rfl; simp at hn
    have hPu : ¬ IsUnit P := fun h => by
      have := natDegree_eq_zero_of_isUnit h; omega
    rw [irreducible_iff_lt_natDegree_lt hP0 hPu] at hirr
    push Not at hirr
    obtain ⟨q, hqm, hqd, hqP⟩ := hirr
    rw [Finset.mem_Ioc] at hqd
    have hq0 : q ≠ 0 := hqm.ne_zero
    have hqu : ¬ IsUnit q := fun hu => by
      have := natDegree_eq_zero_of_isUnit hu; omega
    obtain ⟨g, hg, hgq⟩ := WfDvdMonoid.exists_irreducible_factor hqu hq0
    have hgd : g.natDegree ≤ q.natDegree := natDegree_le_of_dvd hgq hq0
    have hgpos := hg.natDegree_pos
    have h1 : g ∣ X ^ (Nat.card K ^ g.natDegree) - X :=
      (hg.natDegree_dvd_iff_dvd_X_pow_card_pow_sub_X (n := g.natDegree)).1 (dvd_refl _)
    exact hg.not_isUnit ((h g.natDegree hgpos (by omega)).isUnit_of_dvd' h1 (hgq.trans hqP))

/-- Rabin's test (`is_irreducible2` as repaired) -/
theorem rabin_test_correct {K : Type*} [Field K] [Finite K] (P : K[X]) (hn : 1 ≤ P.natDegree) :
    Irreducible P ↔ P ∣ X ^ (Nat.card K ^ P.natDegree) - X ∧
      ∀ r : ℕ, r.Prime → r ∣ P.natDegree → IsCoprime (X ^ (Nat.card K ^ (P.natDegree / r)) - X) P := by
  have hP0 : P ≠ 0 := by rintro rfl; simp at hn
  have hPu : ¬ IsUnit P := fun h => by
    have := natDegree_eq_zero_of_isUnit h; omega
  constructor
  · intro hP
    refine ⟨(hP.natDegree_dvd_iff_dvd_X_pow_card_pow_sub_X (n := P.natDegree)).1 (dvd_refl _), fun r hr hrn => ?_⟩
    rw [isCoprime_comm, hP.coprime_iff_not_dvd]
    intro hdvd
    have h1 := (hP.natDegree_dvd_iff_dvd_X_pow_card_pow_sub_X (n := P.natDegree / r)).2 hdvd
    have h2 : P.natDegree / r < P.natDegree := Nat.div_lt_self (by omega) hr.one_lt
    have h3 : 0 < P.natDegree / r := Nat.div_pos (Nat.le_of_dvd (by omega) hrn) hr.pos
    have := Nat.le_of_dvd h3 h1
    omega
  · rintro ⟨hdiv, h⟩
    -- every irreducible factor g of P has degree d | n; if d < n then d | n / r for a prime r | n / d
    obtain ⟨g, hg, hgP⟩ := WfDvdMonoid.exists_irreducible_factor hPu hP0
    have hgpos := hg.natDegree_pos
    have hdn : g.natDegree ∣ P.natDegree :=
      (hg.natDegree_dvd_iff_dvd_X_pow_card_pow_sub_X (n := P.natDegree)).2 (hgP.trans hdiv)
    by_cases hlt : g.natDegree = P.natDegree
    · -- g | P with equal degrees: associated
      obtain ⟨c, rfl⟩ := hgP
      have hc0 : c ≠ 0 := right_ne_zero_of_mul hP0
      have : c.natDegree = 0 := by
        rw [natDegree_mul hg.ne_zero hc0] at hlt; omega
      have hcu : IsUnit c := by
        rw [natDegree_eq_zero] at this
        obtain ⟨a, rfl⟩ := this
        exact isUnit_C.2 (isUnit_iff_ne_zero.2 (by rintro rfl; simp at hc0))
      exact (irreducible_mul_isUnit hcu).2 hg
    · exfalso
      obtain ⟨m, hm⟩ := hdn
      have hm1 : m ≠ 1 := by rintro rfl; simp at hm; exact hlt hm.symm
      obtain ⟨r, hr, hrm⟩ := Nat.exists_prime_and_dvd hm1
      obtain ⟨m', rfl⟩ := hrm
      have hrn : r ∣ P.natDegree := ⟨g.natDegree * m', by rw [hm]; ring⟩
      have hdiv' : g.natDegree ∣ P.natDegree / r := by
        refine ⟨m', ?_⟩
        rw [hm]
        rw [show g.natDegree * (r * m') = r * (g.natDegree * m') by ring, Nat.mul_div_cancel_left _ hr.pos]
      have h1 : g ∣ X ^ (Nat.card K ^ (P.natDegree / r)) - X :=
        (hg.natDegree_dvd_iff_dvd_X_pow_card_pow_sub_X (n := P.natDegree / r)).1 hdiv'
      exact hg.not_isUnit ((h r hr hrn).isUnit_of_dvd' h1 hgP)

theorem order_certificate {G : Type*} [Monoid G] (x : G) (n : ℕ) (hn : 0 < n) :
    orderOf x = n ↔ x ^ n = 1 ∧ ∀ r : ℕ, r.Prime → r ∣ n → x ^ (n / r) ≠ 1 := by
  constructor
  · rintro rfl
    refine ⟨pow_orderOf_eq_one x, fun r hr hrn h1 => ?_⟩
    have h2 := orderOf_dvd_of_pow_eq_one h1
    have h3 : orderOf x / r < orderOf x := Nat.div_lt_self hn hr.one_lt
    have h4 : 0 < orderOf x / r := Nat.div_pos (Nat.le_of_dvd hn hrn) hr.pos
    have := Nat.le_of_dvd h4 h2
    omega
  · rintro ⟨h1, h2⟩
    exact orderOf_eq_of_pow_and_pow_div_prime hn h1 h2

theorem primitive_iff {K : Type*} [Field K] [Fintype K] (g : K) :
    orderOf g = Fintype.card K - 1 ↔
      g ≠ 0 ∧ ∀ r : ℕ, r.Prime → r ∣ Fintype.card K - 1 → g ^ ((Fintype.card K - 1) / r) ≠ 1 := by
  have hN : 0 < Fintype.card K - 1 := by
    have := Fintype.one_lt_card (α := K); omega
  rw [order_certificate g _ hN]
  constructor
  · rintro ⟨h1, h2⟩
    refine ⟨?_, h2⟩
    rintro rfl
    rw [zero_pow (by omega)] at h1
    exact zero_ne_one h1
  · rintro ⟨h0, h2⟩
    exact ⟨FiniteField.pow_card_sub_one_eq_one g h0, h2⟩

theorem factor_list_certificate {K : Type*} [Field K] (P : K[X]) (L : List (K[X] × ℕ)) (c : K) (hc : c ≠ 0)
    (hirr : ∀ ge ∈ L, Irreducible ge.1)
    (hpw : L.Pairwise (fun a b => ¬ Associated a.1 b.1))
    (hprod : (L.map (fun ge => ge.1 ^ ge.2)).prod = C c * P) :
    (∀ h, Irreducible h → h ∣ P → ∃ ge ∈ L, Associated h ge.1 ∧ 1 ≤ ge.2) ∧
    (∀ ge ∈ L, ge.1 ^ ge.2 ∣ P ∧ ¬ ge.1 ^ (ge.2 + 1) ∣ P) := by
  have hcu : IsUnit (C c : K[X]) := isUnit_C.2 (isUnit_iff_ne_zero.2 hc)
  constructor
  · intro h hh hP
    have hp : Prime h := hh.prime
    have : h ∣ (L.map (fun ge => ge.1 ^ ge.2)).prod := by rw [hprod]; exact hP.mul_left _
    obtain ⟨a, ha, hha⟩ := (Prime.dvd_prod_iff hp).1 this
    obtain ⟨ge, hge, rfl⟩ := List.mem_map.1 ha
    refine ⟨ge, hge, hh.associated_of_dvd (hirr ge hge) (hp.dvd_of_dvd_pow hha), ?_⟩
    by_contra h0
    have : ge.2 = 0 := by omega
    rw [this, pow_zero] at hha
    exact hh.not_isUnit (isUnit_of_dvd_one hha)
  · intro ge hge
    obtain ⟨l1, l2, rfl⟩ := List.append_of_mem hge
    have hsplit : (List.map (fun ge => ge.1 ^ ge.2) (l1 ++ ge :: l2)).prod =
        ge.1 ^ ge.2 * ((l1.map (fun ge => ge.1 ^ ge.2)).prod * (l2.map (fun ge => ge.1 ^ ge.2)).prod) := by
      simp only [List.map_append, List.map_cons, List.prod_append, List.prod_cons]; ring
    rw [hsplit] at hprod
    constructor
    · have : ge.1 ^ ge.2 ∣ C c * P := ⟨_, hprod.symm⟩
      exact (hcu.dvd_mul_left).1 this
    · intro hdvd
      have hg := hirr ge hge
      have hp : Prime ge.1 := hg.prime
      have h1 : ge.1 ^ (ge.2 + 1) ∣ C c * P := hdvd.mul_left _
      rw [← hprod, pow_succ] at h1
      have h2 : ge.1 ∣ (l1.map (fun ge => ge.1 ^ ge.2)).prod * (l2.map (fun ge => ge.1 ^ ge.2)).prod :=
        (mul_dvd_mul_iff_left (pow_ne_zero _ hg.ne_zero)).1 h1
      rw [List.pairwise_append] at hpw
      obtain ⟨-, hpw2, hpw12⟩ := hpw
      rw [List.pairwise_cons] at hpw2
      rcases hp.dvd_or_dvd h2 with h3 | h3
      · obtain ⟨a, ha, hha⟩ := (Prime.dvd_prod_iff hp).1 h3
        obtain ⟨ge', hge', rfl⟩ := List.mem_map.1 ha
        have hass := hg.associated_of_dvd (hirr ge' (by simp [hge'])) (hp.dvd_of_dvd_pow hha)
        exact hpw12 ge' hge' ge (by simp) hass.symm
      · obtain ⟨a, ha, hha⟩ := (Prime.dvd_prod_iff hp).1 h3
        obtain ⟨ge', hge', rfl⟩ := List.mem_map.1 ha
        have hass := hg.associated_of_dvd (hirr ge' (by simp [hge'])) (hp.dvd_of_dvd_pow hha)
        exact hpw2.1 ge' hge' hass

/-! ### the searches of givpoly1proot.inl (model level) -/
open Givaro.Model.PolyFactor

/-- `creux_random_irreducible(R, n)` / `random_irreducible(R, n)`, `n ≥ 1`: whatever the enumeration order of the residues
    and whatever the random stream, a returned `R` is stored with exactly `n+1` coefficients, is monic, has degree exactly
    `n`, and is accepted by the model of `is_irreducible`. -/
theorem found_irreducible_has_degree {α : Type} [DecidableEq α] (F : FOps α) (hone : F.one ≠ F.zero)
    (q : Nat) (elems : List α) (stream : List (Poly α)) (n : Nat) (hn : 1 ≤ n) (R : Poly α)
    (h : creuxIrreducible F q elems stream n = some R ∨ randomIrreducible F q stream n = some R) :
    R.length = n + 1 ∧ R[n]? = some F.one ∧ degree F R = n ∧ isIrreducible F q R = true := by
  have key : StoredMonic F n R ∧ isIrreducible F q R = true := by
    rcases h with h | h
    · obtain ⟨hm, ht⟩ := firstThat_spec _ _ _ h
      refine ⟨?_, ht⟩
      rcases List.mem_append.1 hm with hm | hm
      · rcases List.mem_append.1 hm with hm | hm
        · exact storedMonic_binomials F elems hn R hm
        · exact storedMonic_trinomials F elems hn (Nat.le_refl 1) R hm
      · exact storedMonic_randomials F stream n R hm
    · obtain ⟨hm, ht⟩ := firstThat_spec _ _ _ h
      exact ⟨storedMonic_randomials F stream n R hm, ht⟩
  exact ⟨key.1.1, key.1.2, degree_of_storedMonic F hone key.1, key.2⟩

example : creuxIrreducible (α := Nat) ⟨0, 1, fun a b => (a + b) % 2, fun a => a, fun a b => a * b % 2, fun a => a⟩ 2 [0, 1] [] 2
    = some [1, 1, 1] := by decide

/-- `ixe_irreducible(R, n)`: additionally `is_prim_root(X, R)` holds in the model. -/
theorem found_ixe_irreducible {α : Type} [DecidableEq α] (F : FOps α) (hone : F.one ≠ F.zero)
    (q : Nat) (elems : List α) (stream : List (Poly α)) (n : Nat) (hn : 1 ≤ n) (R : Poly α)
    (h : ixeIrreducible F q elems stream n = some R) :
    R.length = n + 1 ∧ degree F R = n ∧ isIrreducible F q R = true ∧ isPrimRoot F q (polX F) R = true := by
  obtain ⟨hm, ht⟩ := firstThat_spec _ _ _ h
  have hs : StoredMonic F n R := by
    rcases List.mem_append.1 hm with hm | hm
    · rcases List.mem_append.1 hm with hm | hm
      · exact storedMonic_binomials F elems hn R hm
      · exact storedMonic_trinomials F elems hn (by omega) R hm
    · exact storedMonic_randomials F stream n R hm
  simp only [Bool.and_eq_true] at ht
  exact ⟨hs.1, degree_of_storedMonic F hone hs, ht.1, ht.2⟩

/-- `give_prim_root` / `give_random_prim_root`: the returned element is one of the candidates and passes `is_prim_root`. -/
theorem found_prim_root {α : Type} [DecidableEq α] (F : FOps α) (q : Nat) (Fm : Poly α) (cands : List (Poly α)) (R : Poly α)
    (h : givePrimRoot F q Fm cands = some R) : R ∈ cands ∧ isPrimRoot F q R Fm = true :=
  firstThat_spec _ _ _ h

/-! ### known finding C09-yun-charp: the square-free decomposition in characteristic p

The full statement — for every field and every non-zero `P` the output of `sqrfree` passes `checkSqrfree` (parts
square-free, pairwise coprime, `∏ gᵢ^(i+1) ~ P`) — is FALSE for the model of the code as it is (Yun's algorithm is a
characteristic-0 algorithm): witnesses over GF(2).  No `_partial` theorem (multiplicities < p) is proved. -/

/-- GF(2) on {0,1} -/
def gf2 : FOps Nat := ⟨0, 1, fun a b => (a + b) % 2, fun a => a, fun a b => a * b % 2, fun a => a⟩

open Givaro.Spec.PolyFactor in
theorem sqrfree_charp_counterexample :
    ¬ (∀ P : Poly Nat, norm gf2 P ≠ [] → checkSqrfree gf2 P (sqrfree gf2 (norm gf2 P).length P) = true) := by
  intro h
  have h1 := h [0, 0, 1] (by decide)     -- X^2 over GF(2): the model returns the single part 1
  revert h1
  decide

/-- the same two witnesses as values: `sqrfree(X^2) = [1]`, `sqrfree(X^3) = [X]` over GF(2) -/
theorem sqrfree_charp_witnesses :
    sqrfree gf2 3 [0, 0, 1] = [[1]] ∧ sqrfree gf2 4 [0, 0, 0, 1] = [[0, 1]] := by decide

end Givaro.Props.C09
