/-
C09 — polynomial factorisation, irreducibility and primitivity decisions are correct.

Mathlib-level criteria (for EVERY finite field K and every polynomial — no bound on q or on degrees):
  * `ddf_test_correct`        the criterion implemented by `is_irreducible` (derivative test + gcd(X^(q^i) - X, P) for
                              i = 1 … ⌊n/2⌋) characterises irreducibility; `ddf_test_without_derivative`: the derivative test is
                              redundant (so dropping it is a harmless change, the loop bound ⌊n/2⌋ is not);
  * `rabin_test_correct`      the criterion of `is_irreducible2` as repaired by fixes/C09_3;
  * `order_certificate`, `primitive_iff`
                              the prime-divisor test of `order` / `is_prim_root` / the driver's `checkOrder`;
  * `factor_list_certificate` the certificate checked on every `CZfactor` output decides "no factor lost or invented,
                              multiplicities exact".
List level, for the coefficient record `fieldOps K` of any Mathlib field (refinement in Lemmas/PolyFactorRefine.lean):
  * `bruteIrreducible_correct` (+ `_zmod`), `dividesB_correct`, `associatedB_correct`
                              the exponential oracle of the driver decides `Irreducible (toPoly P)`;
  * `factor_list_checker_sound`, `factor_list_checker_decides`, `sqrfree_certificate`, `sqrfree_checker_sound`
                              an accepted `CZfactor` / `sqrfree` output has the certified meaning;
  * `is_irreducible_model_correct`
                              the model of the repaired `is_irreducible` (gcd, powmod, diff loops) decides irreducibility;
  * `sqrfree_partial`         `sqrfree` on separable inputs (PARTIAL, see its comment), `sqrfree_charp_counterexample`.
Model-level (all inputs, all enumeration orders, all random streams):
  * `found_irreducible_has_degree`, `found_ixe_irreducible`, `found_prim_root`
                              what the searches of givpoly1proot.inl return.
-/
import GivaroModel.Model.PolyFactor
import GivaroModel.Lemmas.PolyFactorLemmas
import GivaroModel.Spec.PolyFactorSpec
import GivaroModel.Lemmas.PolyFactorRefine
import Mathlib.Algebra.Squarefree.Basic
import Mathlib.Data.ZMod.Basic
import Mathlib.FieldTheory.Finite.Extension
import Mathlib.FieldTheory.Perfect
import Mathlib.Algebra.Polynomial.FieldDivision
import Mathlib.Algebra.BigOperators.Associated
import Mathlib.GroupTheory.OrderOfElement
import Mathlib.FieldTheory.Finite.Basic
namespace Givaro.Props.C09
open Polynomial

theorem ddf_test_correct {K : Type*} [Field K] [Finite K] (P : K[X]) (hn : 1 ≤ P.natDegree) :
    Irreducible P ↔ IsCoprime P (derivative P) ∧
      ∀ i, 1 ≤ i → i ≤ P.natDegree / 2 → IsCoprime (X ^ (Nat.card K ^ i) - X) P := by
  have hP0 : P ≠ 0 := by rintro rfl; simp at hn
  have hPu : ¬ IsUnit P := fun h => by
    have := natDegree_eq_zero_of_isUnit h; omega
  constructor
  · intro hP
    refine ⟨PerfectField.separable_of_irreducible hP, fun i hi1 hi2 => ?_⟩
    rw [isCoprime_comm, hP.coprime_iff_not_dvd]
    intro hdvd
    have := (hP.natDegree_dvd_iff_dvd_X_pow_card_pow_sub_X (n := i)).2 hdvd
    have := Nat.le_of_dvd (by omega) this
    omega
  · rintro ⟨-, h⟩
    by_contra hirr
    rw [irreducible_iff_lt_natDegree_lt hP0 hPu] at hirr
    push Not at hirr
    obtain ⟨q, hqm, hqd, hqP⟩ := hirr
    rw [Finset.mem_Ioc] at hqd
    have hq0 : q ≠ 0 := hqm.ne_zero
    have hqu : ¬ IsUnit q := fun hu => by
      have := natDegree_eq_zero_of_isUnit hu; omega
    obtain ⟨g, hg, hgq⟩ := WfDvdMonoid.exists_irreducible_factor hqu hq0
    have hgd : g.natDegree ≤ q.natDegree := natDegree_le_of_dvd hgq hq0
    have hgpos := hg.natDegree_pos
    have h1 : g ∣ X ^ (Nat.card K ^ g.natDegree) - X :=
      (hg.natDegree_dvd_iff_dvd_X_pow_card_pow_sub_X (n := g.natDegree)).1 (dvd_refl _)
    exact hg.not_isUnit ((h g.natDegree hgpos (by omega)).isUnit_of_dvd' h1 (hgq.trans hqP))

/-- the derivative test of `is_irreducible` is redundant -/
theorem ddf_test_without_derivative {K : Type*} [Field K] [Finite K] (P : K[X]) (hn : 1 ≤ P.natDegree) :
    Irreducible P ↔ ∀ i, 1 ≤ i → i ≤ P.natDegree / 2 → IsCoprime (X ^ (Nat.card K ^ i) - X) P := by
  constructor
  · intro h; exact ((ddf_test_correct P hn).1 h).2
  · intro h
    by_contra hirr
    have hP0 : P ≠ 0 := by rintro rfl; simp at hn
    have hPu : ¬ IsUnit P := fun h => by
      have := natDegree_eq_zero_of_isUnit h; omega
    rw [irreducible_iff_lt_natDegree_lt hP0 hPu] at hirr
    push Not at hirr
    obtain ⟨q, hqm, hqd, hqP⟩ := hirr
    rw [Finset.mem_Ioc] at hqd
    have hq0 : q ≠ 0 := hqm.ne_zero
    have hqu : ¬ IsUnit q := fun hu => by
      have := natDegree_eq_zero_of_isUnit hu; omega
    obtain ⟨g, hg, hgq⟩ := WfDvdMonoid.exists_irreducible_factor hqu hq0
    have hgd : g.natDegree ≤ q.natDegree := natDegree_le_of_dvd hgq hq0
    have hgpos := hg.natDegree_pos
    have h1 : g ∣ X ^ (Nat.card K ^ g.natDegree) - X :=
      (hg.natDegree_dvd_iff_dvd_X_pow_card_pow_sub_X (n := g.natDegree)).1 (dvd_refl _)
    exact hg.not_isUnit ((h g.natDegree hgpos (by omega)).isUnit_of_dvd' h1 (hgq.trans hqP))

/-- Rabin's test (`is_irreducible2` as repaired) -/
theorem rabin_test_correct {K : Type*} [Field K] [Finite K] (P : K[X]) (hn : 1 ≤ P.natDegree) :
    Irreducible P ↔ P ∣ X ^ (Nat.card K ^ P.natDegree) - X ∧
      ∀ r : ℕ, r.Prime → r ∣ P.natDegree → IsCoprime (X ^ (Nat.card K ^ (P.natDegree / r)) - X) P := by
  have hP0 : P ≠ 0 := by rintro rfl; simp at hn
  have hPu : ¬ IsUnit P := fun h => by
    have := natDegree_eq_zero_of_isUnit h; omega
  constructor
  · intro hP
    refine ⟨(hP.natDegree_dvd_iff_dvd_X_pow_card_pow_sub_X (n := P.natDegree)).1 (dvd_refl _), fun r hr hrn => ?_⟩
    rw [isCoprime_comm, hP.coprime_iff_not_dvd]
    intro hdvd
    have h1 := (hP.natDegree_dvd_iff_dvd_X_pow_card_pow_sub_X (n := P.natDegree / r)).2 hdvd
    have h2 : P.natDegree / r < P.natDegree := Nat.div_lt_self (by omega) hr.one_lt
    have h3 : 0 < P.natDegree / r := Nat.div_pos (Nat.le_of_dvd (by omega) hrn) hr.pos
    have := Nat.le_of_dvd h3 h1
    omega
  · rintro ⟨hdiv, h⟩
    -- every irreducible factor g of P has degree d | n; if d < n then d | n / r for a prime r | n / d
    obtain ⟨g, hg, hgP⟩ := WfDvdMonoid.exists_irreducible_factor hPu hP0
    have hgpos := hg.natDegree_pos
    have hdn : g.natDegree ∣ P.natDegree :=
      (hg.natDegree_dvd_iff_dvd_X_pow_card_pow_sub_X (n := P.natDegree)).2 (hgP.trans hdiv)
    by_cases hlt : g.natDegree = P.natDegree
    · -- g | P with equal degrees: associated
      obtain ⟨c, rfl⟩ := hgP
      have hc0 : c ≠ 0 := right_ne_zero_of_mul hP0
      have : c.natDegree = 0 := by
        rw [natDegree_mul hg.ne_zero hc0] at hlt; omega
      have hcu : IsUnit c := by
        rw [natDegree_eq_zero] at this
        obtain ⟨a, rfl⟩ := this
        exact isUnit_C.2 (isUnit_iff_ne_zero.2 (by rintro rfl; simp at hc0))
      exact (irreducible_mul_isUnit hcu).2 hg
    · exfalso
      obtain ⟨m, hm⟩ := hdn
      have hm1 : m ≠ 1 := by rintro rfl; simp at hm; exact hlt hm.symm
      obtain ⟨r, hr, hrm⟩ := Nat.exists_prime_and_dvd hm1
      obtain ⟨m', rfl⟩ := hrm
      have hrn : r ∣ P.natDegree := ⟨g.natDegree * m', by rw [hm]; ring⟩
      have hdiv' : g.natDegree ∣ P.natDegree / r := by
        refine ⟨m', ?_⟩
        rw [hm]
        rw [show g.natDegree * (r * m') = r * (g.natDegree * m') by ring, Nat.mul_div_cancel_left _ hr.pos]
      have h1 : g ∣ X ^ (Nat.card K ^ (P.natDegree / r)) - X :=
        (hg.natDegree_dvd_iff_dvd_X_pow_card_pow_sub_X (n := P.natDegree / r)).1 hdiv'
      exact hg.not_isUnit ((h r hr hrn).isUnit_of_dvd' h1 hgP)

theorem order_certificate {G : Type*} [Monoid G] (x : G) (n : ℕ) (hn : 0 < n) :
    orderOf x = n ↔ x ^ n = 1 ∧ ∀ r : ℕ, r.Prime → r ∣ n → x ^ (n / r) ≠ 1 := by
  constructor
  · rintro rfl
    refine ⟨pow_orderOf_eq_one x, fun r hr hrn h1 => ?_⟩
    have h2 := orderOf_dvd_of_pow_eq_one h1
    have h3 : orderOf x / r < orderOf x := Nat.div_lt_self hn hr.one_lt
    have h4 : 0 < orderOf x / r := Nat.div_pos (Nat.le_of_dvd hn hrn) hr.pos
    have := Nat.le_of_dvd h4 h2
    omega
  · rintro ⟨h1, h2⟩
    exact orderOf_eq_of_pow_and_pow_div_prime hn h1 h2

theorem primitive_iff {K : Type*} [Field K] [Fintype K] (g : K) :
    orderOf g = Fintype.card K - 1 ↔
      g ≠ 0 ∧ ∀ r : ℕ, r.Prime → r ∣ Fintype.card K - 1 → g ^ ((Fintype.card K - 1) / r) ≠ 1 := by
  have hN : 0 < Fintype.card K - 1 := by
    have := Fintype.one_lt_card (α := K); omega
  rw [order_certificate g _ hN]
  constructor
  · rintro ⟨h1, h2⟩
    refine ⟨?_, h2⟩
    rintro rfl
    rw [zero_pow (by omega)] at h1
    exact zero_ne_one h1
  · rintro ⟨h0, h2⟩
    exact ⟨FiniteField.pow_card_sub_one_eq_one g h0, h2⟩

theorem factor_list_certificate {K : Type*} [Field K] (P : K[X]) (L : List (K[X] × ℕ)) (c : K) (hc : c ≠ 0)
    (hirr : ∀ ge ∈ L, Irreducible ge.1)
    (hpw : L.Pairwise (fun a b => ¬ Associated a.1 b.1))
    (hprod : (L.map (fun ge => ge.1 ^ ge.2)).prod = C c * P) :
    (∀ h, Irreducible h → h ∣ P → ∃ ge ∈ L, Associated h ge.1 ∧ 1 ≤ ge.2) ∧
    (∀ ge ∈ L, ge.1 ^ ge.2 ∣ P ∧ ¬ ge.1 ^ (ge.2 + 1) ∣ P) := by
  have hcu : IsUnit (C c : K[X]) := isUnit_C.2 (isUnit_iff_ne_zero.2 hc)
  constructor
  · intro h hh hP
    have hp : Prime h := hh.prime
    have : h ∣ (L.map (fun ge => ge.1 ^ ge.2)).prod := by rw [hprod]; exact hP.mul_left _
    obtain ⟨a, ha, hha⟩ := (Prime.dvd_prod_iff hp).1 this
    obtain ⟨ge, hge, rfl⟩ := List.mem_map.1 ha
    refine ⟨ge, hge, hh.associated_of_dvd (hirr ge hge) (hp.dvd_of_dvd_pow hha), ?_⟩
    by_contra h0
    have : ge.2 = 0 := by omega
    rw [this, pow_zero] at hha
    exact hh.not_isUnit (isUnit_of_dvd_one hha)
  · intro ge hge
    obtain ⟨l1, l2, rfl⟩ := List.append_of_mem hge
    have hsplit : (List.map (fun ge => ge.1 ^ ge.2) (l1 ++ ge :: l2)).prod =
        ge.1 ^ ge.2 * ((l1.map (fun ge => ge.1 ^ ge.2)).prod * (l2.map (fun ge => ge.1 ^ ge.2)).prod) := by
      simp only [List.map_append, List.map_cons, List.prod_append, List.prod_cons]; ring
    rw [hsplit] at hprod
    constructor
    · have : ge.1 ^ ge.2 ∣ C c * P := ⟨_, hprod.symm⟩
      exact (hcu.dvd_mul_left).1 this
    · intro hdvd
      have hg := hirr ge hge
      have hp : Prime ge.1 := hg.prime
      have h1 : ge.1 ^ (ge.2 + 1) ∣ C c * P := hdvd.mul_left _
      rw [← hprod, pow_succ] at h1
      have h2 : ge.1 ∣ (l1.map (fun ge => ge.1 ^ ge.2)).prod * (l2.map (fun ge => ge.1 ^ ge.2)).prod :=
        (mul_dvd_mul_iff_left (pow_ne_zero _ hg.ne_zero)).1 h1
      rw [List.pairwise_append] at hpw
      obtain ⟨-, hpw2, hpw12⟩ := hpw
      rw [List.pairwise_cons] at hpw2
      rcases hp.dvd_or_dvd h2 with h3 | h3
      · obtain ⟨a, ha, hha⟩ := (Prime.dvd_prod_iff hp).1 h3
        obtain ⟨ge', hge', rfl⟩ := List.mem_map.1 ha
        have hass := hg.associated_of_dvd (hirr ge' (by simp [hge'])) (hp.dvd_of_dvd_pow hha)
        exact hpw12 ge' hge' ge (by simp) hass.symm
      · obtain ⟨a, ha, hha⟩ := (Prime.dvd_prod_iff hp).1 h3
        obtain ⟨ge', hge', rfl⟩ := List.mem_map.1 ha
        have hass := hg.associated_of_dvd (hirr ge' (by simp [hge'])) (hp.dvd_of_dvd_pow hha)
        exact hpw2.1 ge' hge' hass

/-! ### the searches of givpoly1proot.inl (model level) -/
open Givaro.Model.PolyFactor

/-- `creux_random_irreducible(R, n)` / `random_irreducible(R, n)`, `n ≥ 1`: whatever the enumeration order of the residues
    and whatever the random stream, a returned `R` is stored with exactly `n+1` coefficients, is monic, has degree exactly
    `n`, and is accepted by the model of `is_irreducible`. -/
theorem found_irreducible_has_degree {α : Type} [DecidableEq α] (F : FOps α) (hone : F.one ≠ F.zero)
    (q : Nat) (elems : List α) (stream : List (Poly α)) (n : Nat) (hn : 1 ≤ n) (R : Poly α)
    (h : creuxIrreducible F q elems stream n = some R ∨ randomIrreducible F q stream n = some R) :
    R.length = n + 1 ∧ R[n]? = some F.one ∧ degree F R = n ∧ isIrreducible F q R = true := by
  have key : StoredMonic F n R ∧ isIrreducible F q R = true := by
    rcases h with h | h
    · obtain ⟨hm, ht⟩ := firstThat_spec _ _ _ h
      refine ⟨?_, ht⟩
      rcases List.mem_append.1 hm with hm | hm
      · rcases List.mem_append.1 hm with hm | hm
        · exact storedMonic_binomials F elems hn R hm
        · exact storedMonic_trinomials F elems hn (Nat.le_refl 1) R hm
      · exact storedMonic_randomials F stream n R hm
    · obtain ⟨hm, ht⟩ := firstThat_spec _ _ _ h
      exact ⟨storedMonic_randomials F stream n R hm, ht⟩
  exact ⟨key.1.1, key.1.2, degree_of_storedMonic F hone key.1, key.2⟩

example : creuxIrreducible (α := Nat) ⟨0, 1, fun a b => (a + b) % 2, fun a => a, fun a b => a * b % 2, fun a => a⟩ 2 [0, 1] [] 2
    = some [1, 1, 1] := by decide

/-- `ixe_irreducible(R, n)`: additionally `is_prim_root(X, R)` holds in the model. -/
theorem found_ixe_irreducible {α : Type} [DecidableEq α] (F : FOps α) (hone : F.one ≠ F.zero)
    (q : Nat) (elems : List α) (stream : List (Poly α)) (n : Nat) (hn : 1 ≤ n) (R : Poly α)
    (h : ixeIrreducible F q elems stream n = some R) :
    R.length = n + 1 ∧ degree F R = n ∧ isIrreducible F q R = true ∧ isPrimRoot F q (polX F) R = true := by
  obtain ⟨hm, ht⟩ := firstThat_spec _ _ _ h
  have hs : StoredMonic F n R := by
    rcases List.mem_append.1 hm with hm | hm
    · rcases List.mem_append.1 hm with hm | hm
      · exact storedMonic_binomials F elems hn R hm
      · exact storedMonic_trinomials F elems hn (by omega) R hm
    · exact storedMonic_randomials F stream n R hm
  simp only [Bool.and_eq_true] at ht
  exact ⟨hs.1, degree_of_storedMonic F hone hs, ht.1, ht.2⟩

/-- `give_prim_root` / `give_random_prim_root`: the returned element is one of the candidates and passes `is_prim_root`. -/
theorem found_prim_root {α : Type} [DecidableEq α] (F : FOps α) (q : Nat) (Fm : Poly α) (cands : List (Poly α)) (R : Poly α)
    (h : givePrimRoot F q Fm cands = some R) : R ∈ cands ∧ isPrimRoot F q R Fm = true :=
  firstThat_spec _ _ _ h

/-! ### the oracle and the checkers of the driver (list level ↔ Mathlib), for the coefficient record `fieldOps K` of ANY field

`fieldOps K` is the record whose six entries are the field's own `0, 1, +, -, *, ⁻¹`; `elems` must list every element. -/
section ListLevel
open Givaro.Lemmas.PolyFactor Givaro.Spec.PolyFactor

/-- The exponential oracle (`degree ≥ 1` and no monic divisor of degree `1 … ⌊n/2⌋`, by long division in the list
    arithmetic) decides Mathlib's `Irreducible` — every list (normalised or not), every field, no size bound. -/
theorem bruteIrreducible_correct {K : Type} [Field K] [DecidableEq K] (elems : List K) (hall : ∀ x : K, x ∈ elems)
    (P : Poly K) : bruteIrreducible (fieldOps K) elems P = true ↔ Irreducible (toPoly P) :=
  bruteIrreducible_iff elems hall P

/-- prime fields: `ZMod p` with the residues enumerated as `0, 1, …, p-1` (the driver's order) -/
theorem bruteIrreducible_correct_zmod (p : ℕ) [Fact p.Prime] (P : Poly (ZMod p)) :
    bruteIrreducible (fieldOps (ZMod p)) ((List.range p).map (fun (n : ℕ) => (n : ZMod p))) P = true ↔ Irreducible (toPoly P) := by
  haveI : NeZero p := ⟨(Fact.out : p.Prime).ne_zero⟩
  apply bruteIrreducible_iff
  intro x
  exact List.mem_map.2 ⟨x.val, List.mem_range.2 (ZMod.val_lt x), ZMod.natCast_zmod_val x⟩

/-- the divisibility test of the oracle -/
theorem dividesB_correct {K : Type} [Field K] [DecidableEq K] (g P : Poly K) (hg : toPoly g ≠ 0) :
    dividesB (fieldOps K) g P = true ↔ toPoly g ∣ toPoly P := dividesB_iff g P hg

/-- the associate test of the checkers -/
theorem associatedB_correct {K : Type} [Field K] [DecidableEq K] (a b : Poly K) :
    associatedB (fieldOps K) a b = true ↔ toPoly a ≠ 0 ∧ toPoly b ≠ 0 ∧ Associated (toPoly a) (toPoly b) :=
  associatedB_iff a b

/-- `checkFactorList` = true yields exactly the hypotheses of `factor_list_certificate` for the denoted polynomials
    (`irr` any decider that is sound for `Irreducible`, e.g. the oracle above). -/
theorem factor_list_checker_sound {K : Type} [Field K] [DecidableEq K] (irr : Poly K → Bool)
    (hirr : ∀ g, irr g = true → Irreducible (toPoly g)) (P : Poly K) (L : List (Poly K × ℕ))
    (h : checkFactorList (fieldOps K) irr P L = true) :
    toPoly P ≠ 0 ∧ ∃ c : K, c ≠ 0 ∧
      (∀ ge ∈ L.map (fun ge => (toPoly ge.1, ge.2)), Irreducible ge.1 ∧ 1 ≤ ge.2) ∧
      (L.map (fun ge => (toPoly ge.1, ge.2))).Pairwise (fun a b => ¬ Associated a.1 b.1) ∧
      ((L.map (fun ge => (toPoly ge.1, ge.2))).map (fun ge => ge.1 ^ ge.2)).prod = C c * toPoly P := by
  unfold checkFactorList at h
  simp only [Bool.and_eq_true, decide_eq_true_eq, List.all_eq_true, ne_eq] at h
  obtain ⟨⟨⟨hP, hall⟩, hpw⟩, hass⟩ := h
  have hP0 : toPoly P ≠ 0 := fun h0 => hP ((norm_eq_nil_iff P).2 h0)
  obtain ⟨-, -, u, hu⟩ := (associatedB_iff _ _).1 hass
  obtain ⟨r, hr, hru⟩ := Polynomial.isUnit_iff.1 u.isUnit
  have hr0 : r ≠ 0 := hr.ne_zero
  refine ⟨hP0, r⁻¹, inv_ne_zero hr0, ?_, ?_, ?_⟩
  · intro ge hge
    obtain ⟨ge', hge', rfl⟩ := List.mem_map.1 hge
    exact ⟨hirr _ (hall ge' hge').1, (hall ge' hge').2⟩
  · rw [List.pairwise_map]
    rw [pairwiseB_iff] at hpw
    refine List.Pairwise.imp_of_mem ?_ hpw
    intro a b ha hb hab hAss
    have h1 := (hirr _ (hall a ha).1).ne_zero
    have h2 := (hirr _ (hall b hb).1).ne_zero
    have := (associatedB_iff a.1 b.1).2 ⟨h1, h2, hAss⟩
    rw [this] at hab
    exact absurd hab (by decide)
  · rw [List.map_map]
    have h1 := toPoly_prodPow L
    have h2 : (L.map ((fun ge : K[X] × ℕ => ge.1 ^ ge.2) ∘ fun ge => (toPoly ge.1, ge.2))) =
        L.map (fun ge => toPoly ge.1 ^ ge.2) := rfl
    rw [h2, ← h1, ← hu, ← hru]
    rw [mul_comm (toPoly (prodPow (fieldOps K) L)) (C r), ← mul_assoc, ← C_mul, inv_mul_cancel₀ hr0, C_1, one_mul]

/-- what an accepted `CZfactor` output means: no irreducible factor of the input is lost, none is invented, every
    returned multiplicity is the exact multiplicity (statement about the denoted polynomials). -/
theorem factor_list_checker_decides {K : Type} [Field K] [DecidableEq K] (irr : Poly K → Bool)
    (hirr : ∀ g, irr g = true → Irreducible (toPoly g)) (P : Poly K) (L : List (Poly K × ℕ))
    (h : checkFactorList (fieldOps K) irr P L = true) :
    (∀ f, Irreducible f → f ∣ toPoly P → ∃ ge ∈ L, Associated f (toPoly ge.1) ∧ 1 ≤ ge.2) ∧
    (∀ ge ∈ L, Irreducible (toPoly ge.1) ∧ toPoly ge.1 ^ ge.2 ∣ toPoly P ∧ ¬ toPoly ge.1 ^ (ge.2 + 1) ∣ toPoly P) := by
  obtain ⟨-, c, hc, h1, h2, h3⟩ := factor_list_checker_sound irr hirr P L h
  obtain ⟨k1, k2⟩ := factor_list_certificate (toPoly P) _ c hc (fun ge hge => (h1 ge hge).1) h2 h3
  constructor
  · intro f hf hfP
    obtain ⟨ge, hge, ha, hb⟩ := k1 f hf hfP
    obtain ⟨ge', hge', rfl⟩ := List.mem_map.1 hge
    exact ⟨ge', hge', ha, hb⟩
  · intro ge hge
    have hm : (toPoly ge.1, ge.2) ∈ L.map (fun ge => (toPoly ge.1, ge.2)) := List.mem_map.2 ⟨ge, hge, rfl⟩
    have h4 := k2 _ hm
    have h5 := (h1 _ hm).1
    dsimp only at h4 h5
    exact ⟨h5, h4.1, h4.2⟩

/-- **The model of the (repaired) `is_irreducible` decides irreducibility**: for every finite field `K` (coefficient record
    `fieldOps K`, `MOD = |K|`) and every coefficient list `P` — normalised or not, zero and constants included — the
    transcription of the C++ (`gcd(P',P)`, then `W ← W^q mod P`, `gcd(W - X, P)` for `⌊deg/2⌋` rounds over the model of
    `Poly1Dom::gcd`/`powmod`/`diff`) returns true exactly when the denoted polynomial is irreducible. -/
theorem is_irreducible_model_correct {K : Type} [Field K] [DecidableEq K] [Finite K] (P : Poly K) :
    isIrreducible (fieldOps K) (Nat.card K) P = true ↔ Irreducible (toPoly P) := by
  unfold isIrreducible
  by_cases hdeg : Givaro.Model.PolyFactor.degree (fieldOps K) P ≤ 0
  · simp only [hdeg, if_true]
    constructor
    · intro h; exact absurd h (by decide)
    · intro hirr
      exfalso
      have hpos := hirr.natDegree_pos
      have := (degree_pos_iff P).2 hpos
      omega
  · simp only [hdeg, if_false]
    have hpos : 0 < (toPoly P).natDegree := (degree_pos_iff P).1 (by omega)
    have hP0 : toPoly P ≠ 0 := by rintro h; rw [h] at hpos; simp at hpos
    have hd := pgcd_degree_pos_iff (diff (fieldOps K) P) P (Or.inr hP0)
    rw [toPoly_diff] at hd
    rw [ddf_test_correct (toPoly P) hpos]
    split
    · next h =>
      have hnc := hd.1 h
      constructor
      · intro h; exact absurd h (by decide)
      · rintro ⟨hc, -⟩; exact absurd hc.symm hnc
    · next h =>
      have hc : IsCoprime (derivative (toPoly P)) (toPoly P) := by
        by_contra hnc; exact h (hd.2 hnc)
      have hn : (Givaro.Model.PolyFactor.degree (fieldOps K) P).toNat = (toPoly P).natDegree := by
        rw [degree_model, if_neg hP0]; simp
      rw [hn, irrLoop_spec (Nat.card K) P hP0 _ 0 _ (by rw [toPoly_polX]; simp)]
      constructor
      · intro h; exact ⟨hc.symm, fun i h1 h2 => h i (by omega) (by omega)⟩
      · rintro ⟨-, h⟩ j h1 h2; exact h j (by omega) (by omega)

/-- `sqrfree` on the inputs where Yun's first test already decides: a separable (= square-free over a perfect field,
    all multiplicities 1) non-zero input is returned as the single part `P / lc(P)` with exponent 1.
    PARTIAL: the full statement (every input whose multiplicities are all `< p` is decomposed correctly — the part of
    Yun's loop that works in characteristic p) is not proved; the statement for all inputs is false
    (`sqrfree_charp_counterexample` below). -/
theorem sqrfree_partial {K : Type} [Field K] [DecidableEq K] (Nfact : ℕ) (hN : 1 ≤ Nfact) (P : Poly K)
    (hP : toPoly P ≠ 0) (hsep : (toPoly P).Separable) :
    ∃ A, sqrfree (fieldOps K) Nfact P = [A] ∧ toPoly A = C (toPoly P).leadingCoeff⁻¹ * toPoly P := by
  have hlc : (toPoly P).leadingCoeff⁻¹ ≠ 0 := inv_ne_zero (leadingCoeff_ne_zero.2 hP)
  have hA : toPoly (smul (fieldOps K) ((fieldOps K).inv (lcoef (fieldOps K) P)) (norm (fieldOps K) P)) =
      C (toPoly P).leadingCoeff⁻¹ * toPoly P := by
    rw [toPoly_smul, toPoly_norm, lcoef_eq]; rfl
  refine ⟨_, ?_, hA⟩
  unfold sqrfree
  have hN0 : Nfact ≠ 0 := by omega
  simp only [hN0, if_false]
  -- the monic associate is separable, so the model gcd with its derivative is a unit
  have hsepA : IsCoprime (toPoly (smul (fieldOps K) ((fieldOps K).inv (lcoef (fieldOps K) P)) (norm (fieldOps K) P)))
      (toPoly (diff (fieldOps K) (smul (fieldOps K) ((fieldOps K).inv (lcoef (fieldOps K) P)) (norm (fieldOps K) P)))) := by
    rw [toPoly_diff, hA]
    have hu : IsUnit (C (toPoly P).leadingCoeff⁻¹ : K[X]) := isUnit_C.2 (isUnit_iff_ne_zero.2 hlc)
    have : (C (toPoly P).leadingCoeff⁻¹ * toPoly P).Separable := by
      rw [mul_comm]; exact (Polynomial.Separable.mul_unit hsep hu)
    exact this
  have hu := (pgcd_unit_iff _ _).2 hsepA
  obtain ⟨d, hd, hdD⟩ := Polynomial.isUnit_iff.1 hu
  have hd0 : d ≠ 0 := hd.ne_zero
  have hC : toPoly (smul (fieldOps K) ((fieldOps K).inv (lcoef (fieldOps K)
      (pgcd (fieldOps K) (smul (fieldOps K) ((fieldOps K).inv (lcoef (fieldOps K) P)) (norm (fieldOps K) P))
        (diff (fieldOps K) (smul (fieldOps K) ((fieldOps K).inv (lcoef (fieldOps K) P)) (norm (fieldOps K) P))))))
      (norm (fieldOps K) (pgcd (fieldOps K) (smul (fieldOps K) ((fieldOps K).inv (lcoef (fieldOps K) P)) (norm (fieldOps K) P))
        (diff (fieldOps K) (smul (fieldOps K) ((fieldOps K).inv (lcoef (fieldOps K) P)) (norm (fieldOps K) P)))))) =
      toPoly ([1] : List K) := by
    rw [toPoly_smul, toPoly_norm, lcoef_eq, ← hdD]
    simp only [fo_inv, leadingCoeff_C, toPoly_cons, toPoly_nil, mul_zero, add_zero]
    rw [← C_mul, inv_mul_cancel₀ hd0]
  have hnorm := (norm_eq_iff _ _).2 hC
  have h1 : norm (fieldOps K) ([1] : List K) = [(fieldOps K).one] := by
    simp [Givaro.Model.PolyFactor.norm]
  rw [h1] at hnorm
  simp only [hnorm, if_true]

end ListLevel

/-- Certificate of a square-free decomposition, at the Mathlib level: parts square-free and pairwise coprime with
    `∏ gᵉ = c·P`, `c ≠ 0`.  Then every irreducible divisor of `P` divides exactly the part that carries its exact
    multiplicity: no factor is lost and the exponent attached to a part is the multiplicity of each of its factors.
    (`sqrfree` returns `Fact[i]` with exponent `i+1`: take `L = [(Fact[0],1), (Fact[1],2), …]`.) -/
theorem sqrfree_certificate {K : Type*} [Field K] (P : K[X]) (L : List (K[X] × ℕ)) (c : K) (hc : c ≠ 0)
    (hsq : ∀ ge ∈ L, Squarefree ge.1)
    (hcop : L.Pairwise (fun a b => IsCoprime a.1 b.1))
    (hprod : (L.map (fun ge => ge.1 ^ ge.2)).prod = C c * P) :
    (∀ f, Irreducible f → f ∣ P → ∃ ge ∈ L, f ∣ ge.1 ∧ 1 ≤ ge.2) ∧
    (∀ f, Irreducible f → ∀ ge ∈ L, f ∣ ge.1 → f ^ ge.2 ∣ P ∧ ¬ f ^ (ge.2 + 1) ∣ P) := by
  have hcu : IsUnit (C c : K[X]) := isUnit_C.2 (isUnit_iff_ne_zero.2 hc)
  constructor
  · intro f hf hP
    have hp : Prime f := hf.prime
    have : f ∣ (L.map (fun ge => ge.1 ^ ge.2)).prod := by rw [hprod]; exact hP.mul_left _
    obtain ⟨a, ha, hfa⟩ := (Prime.dvd_prod_iff hp).1 this
    obtain ⟨ge, hge, rfl⟩ := List.mem_map.1 ha
    refine ⟨ge, hge, hp.dvd_of_dvd_pow hfa, ?_⟩
    by_contra h0
    have : ge.2 = 0 := by omega
    rw [this, pow_zero] at hfa
    exact hf.not_isUnit (isUnit_of_dvd_one hfa)
  · intro f hf ge hge hfg
    have hp : Prime f := hf.prime
    obtain ⟨l1, l2, rfl⟩ := List.append_of_mem hge
    have hsplit : (List.map (fun ge => ge.1 ^ ge.2) (l1 ++ ge :: l2)).prod =
        ge.1 ^ ge.2 * ((l1.map (fun ge => ge.1 ^ ge.2)).prod * (l2.map (fun ge => ge.1 ^ ge.2)).prod) := by
      simp only [List.map_append, List.map_cons, List.prod_append, List.prod_cons]; ring
    rw [hsplit] at hprod
    constructor
    · have h1 : f ^ ge.2 ∣ ge.1 ^ ge.2 := pow_dvd_pow_of_dvd hfg _
      have h2 : f ^ ge.2 ∣ C c * P := by rw [← hprod]; exact h1.mul_right _
      exact (hcu.dvd_mul_left).1 h2
    · intro hdvd
      rw [List.pairwise_append] at hcop
      obtain ⟨-, hcop2, hcop12⟩ := hcop
      rw [List.pairwise_cons] at hcop2
      have hrest : ¬ f ∣ (l1.map (fun ge => ge.1 ^ ge.2)).prod * (l2.map (fun ge => ge.1 ^ ge.2)).prod := by
        intro h2
        rcases hp.dvd_or_dvd h2 with h3 | h3
        · obtain ⟨a, ha, hfa⟩ := (Prime.dvd_prod_iff hp).1 h3
          obtain ⟨ge', hge', rfl⟩ := List.mem_map.1 ha
          have hco : IsCoprime ge'.1 ge.1 := hcop12 ge' hge' ge (by simp)
          exact hf.not_isUnit (hco.isUnit_of_dvd' (hp.dvd_of_dvd_pow hfa) hfg)
        · obtain ⟨a, ha, hfa⟩ := (Prime.dvd_prod_iff hp).1 h3
          obtain ⟨ge', hge', rfl⟩ := List.mem_map.1 ha
          have hco : IsCoprime ge.1 ge'.1 := hcop2.1 ge' hge'
          exact hf.not_isUnit (hco.isUnit_of_dvd' hfg (hp.dvd_of_dvd_pow hfa))
      have h1 : f ^ (ge.2 + 1) ∣ ge.1 ^ ge.2 * ((l1.map (fun ge => ge.1 ^ ge.2)).prod * (l2.map (fun ge => ge.1 ^ ge.2)).prod) := by
        rw [hprod]; exact hdvd.mul_left _
      have h2 : f ^ (ge.2 + 1) ∣ ge.1 ^ ge.2 := hp.pow_dvd_of_dvd_mul_right _ hrest h1
      obtain ⟨m, hm⟩ := hfg
      have hfm : ¬ f ∣ m := by
        rintro ⟨m', rfl⟩
        have hsqf := hsq ge (by simp)
        exact hf.not_isUnit (hsqf f ⟨m', by rw [hm]; ring⟩)
      rw [hm, mul_pow, pow_succ] at h2
      have h3 : f ∣ m ^ ge.2 := (mul_dvd_mul_iff_left (pow_ne_zero _ hf.ne_zero)).1 h2
      exact hfm (hp.dvd_of_dvd_pow h3)

/-- `checkSqrfree` = true yields exactly the hypotheses of `sqrfree_certificate` for the denoted polynomials, with the
    exponent `i+1` attached to the `i`-th part. -/
theorem sqrfree_checker_sound {K : Type} [Field K] [DecidableEq K] (P : Poly K) (G : List (Poly K))
    (h : Givaro.Spec.PolyFactor.checkSqrfree (Givaro.Lemmas.PolyFactor.fieldOps K) P G = true) :
    Givaro.Lemmas.PolyFactor.toPoly P ≠ 0 ∧ ∃ c : K, c ≠ 0 ∧
      (∀ ge ∈ (Givaro.Spec.PolyFactor.indexed G 1).map (fun gi => (Givaro.Lemmas.PolyFactor.toPoly gi.1, gi.2)), Squarefree ge.1) ∧
      ((Givaro.Spec.PolyFactor.indexed G 1).map (fun gi => (Givaro.Lemmas.PolyFactor.toPoly gi.1, gi.2))).Pairwise
        (fun a b => IsCoprime a.1 b.1) ∧
      (((Givaro.Spec.PolyFactor.indexed G 1).map (fun gi => (Givaro.Lemmas.PolyFactor.toPoly gi.1, gi.2))).map
        (fun ge => ge.1 ^ ge.2)).prod = C c * Givaro.Lemmas.PolyFactor.toPoly P := by
  open Givaro.Lemmas.PolyFactor Givaro.Spec.PolyFactor in
  unfold checkSqrfree at h
  simp only [Bool.and_eq_true, decide_eq_true_eq, List.all_eq_true, ne_eq] at h
  obtain ⟨⟨⟨hP, hall⟩, hpw⟩, hass⟩ := h
  have hP0 : toPoly P ≠ 0 := fun h0 => hP ((norm_eq_nil_iff P).2 h0)
  have hne : ∀ g ∈ G, toPoly g ≠ 0 := fun g hg h0 => (hall g hg).1 ((norm_eq_nil_iff g).2 h0)
  obtain ⟨-, -, u, hu⟩ := (associatedB_iff _ _).1 hass
  obtain ⟨r, hr, hru⟩ := Polynomial.isUnit_iff.1 u.isUnit
  have hr0 : r ≠ 0 := hr.ne_zero
  have hfst : ((indexed G 1).map (fun gi => (toPoly gi.1, gi.2))).map Prod.fst = G.map toPoly := by
    rw [List.map_map]
    have : (Prod.fst ∘ fun gi : Poly K × ℕ => (toPoly gi.1, gi.2)) = toPoly ∘ Prod.fst := rfl
    rw [this, ← List.map_map, indexed_fst]
  refine ⟨hP0, r⁻¹, inv_ne_zero hr0, ?_, ?_, ?_⟩
  · intro ge hge
    have : ge.1 ∈ G.map toPoly := by rw [← hfst]; exact List.mem_map.2 ⟨ge, hge, rfl⟩
    obtain ⟨g, hg, hge1⟩ := List.mem_map.1 this
    rw [← hge1]
    exact squarefreeB_sound g (hne g hg) (hall g hg).2
  · have h1 : (G.map toPoly).Pairwise IsCoprime := by
      rw [List.pairwise_map]
      rw [pairwiseB_iff] at hpw
      refine List.Pairwise.imp_of_mem ?_ hpw
      intro a b ha hb hab
      exact (coprimeB_iff a b (Or.inl (hne a ha))).1 hab
    rw [← hfst, List.pairwise_map] at h1
    exact h1
  · rw [List.map_map]
    have h1 := toPoly_prodPow (indexed G 1)
    have h2 : ((indexed G 1).map ((fun ge : K[X] × ℕ => ge.1 ^ ge.2) ∘ fun gi => (toPoly gi.1, gi.2))) =
        (indexed G 1).map (fun ge => toPoly ge.1 ^ ge.2) := rfl
    rw [h2, ← h1, ← hu, ← hru]
    rw [mul_comm (toPoly (prodPow (fieldOps K) (indexed G 1))) (C r), ← mul_assoc, ← C_mul, inv_mul_cancel₀ hr0, C_1,
      one_mul]

/-! ### known finding C09-yun-charp: the square-free decomposition in characteristic p

The full statement — for every field and every non-zero `P` the output of `sqrfree` passes `checkSqrfree` (parts
square-free, pairwise coprime, `∏ gᵢ^(i+1) ~ P`) — is FALSE for the model of the code as it is (Yun's algorithm is a
characteristic-0 algorithm): witnesses over GF(2).  No `_partial` theorem (multiplicities < p) is proved. -/

/-- GF(2) on {0,1} -/
def gf2 : FOps Nat := ⟨0, 1, fun a b => (a + b) % 2, fun a => a, fun a b => a * b % 2, fun a => a⟩

open Givaro.Spec.PolyFactor in
theorem sqrfree_charp_counterexample :
    ¬ (∀ P : Poly Nat, norm gf2 P ≠ [] → checkSqrfree gf2 P (sqrfree gf2 (norm gf2 P).length P) = true) := by
  intro h
  have h1 := h [0, 0, 1] (by decide)     -- X^2 over GF(2): the model returns the single part 1
  revert h1
  decide

/-- the same two witnesses as values: `sqrfree(X^2) = [1]`, `sqrfree(X^3) = [X]` over GF(2) -/
theorem sqrfree_charp_witnesses :
    sqrfree gf2 3 [0, 0, 1] = [[1]] ∧ sqrfree gf2 4 [0, 0, 0, 1] = [[0, 1]] := by decide

end Givaro.Props.C09
