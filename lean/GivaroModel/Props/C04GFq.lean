/-
C04 (round 2) — `GFqDom<int32_t|int64_t>::init` from every integer / floating / `Integer` source and `convert`, for every
exponent `k ≥ 1`, on ANY tables the verified checker `Tables.tablesValid` accepts (C05 ties the constructors to it).

Model: `Model/GFqInitInt.lean` (one function per overload; the tree with fixes/C04_10.patch, see there).  The library's convention (documented in gfq.inl, DESIGN §C04): the
source is reduced modulo the cardinality `q = p^k` and the result decoded p-adically; so `convert(init(z)) = z mod q ∈ [0, q)`,
which is `z mod p` for `k = 1` and congruent to `z` modulo `p` for every `k`.
-/
import GivaroModel.Lemmas.GFqInitInt
namespace Givaro.Props.C04GFq
open Givaro Givaro.Spec.GFq Givaro.Model.GFqInitInt Givaro.Lemmas.GFqInitInt Givaro.Lemmas.GFqZech
open Givaro.Model.MontInit (Src)

/-- **init is the canonical map** (both storage types at once): for every accepted table set with `q = p^k ≤ maxCardinality()`,
    every source type and EVERY value of it, the element `init` returns is inside the tables, `convert` returns `a mod q ∈ [0, q)`,
    and that lift is congruent to `a` modulo the characteristic. -/
theorem gfq_init_canonical (T : Tables) (hv : T.tablesValid = true) (W : Nat) (hW : W = 32 ∨ W = 64) (hqm : (T.q : Int) ≤ maxQ W)
    (s : Src) (a : Int) (ha : s.holds a) :
    initG T W s a < T.q ∧ ((convertG T (initG T W s a) : Nat) : Int) = a % (T.q : Int) ∧
    (a % (T.q : Int)) % (T.F.p : Int) = a % (T.F.p : Int) := by
  obtain ⟨hp, hk, hq2, hb⟩ := tablesValid_parts T hv
  have hq2' : (2 : Int) ≤ (T.q : Int) := by exact_mod_cast hq2
  have hc := code_spec W hW (T.q : Int) hq2' hqm s a ha
  have hl0 : T.l2p 0 = 0 := by
    have := hv
    unfold Tables.tablesValid at this
    simp only [Bool.and_eq_true, decide_eq_true_eq, beq_iff_eq] at this
    exact this.1.1.1.1.1.1.2
  have hp2l0 : T.p2l 0 = 0 := by have := (hb 0 (by omega)).2; rwa [hl0] at this
  have m0 := Int.emod_nonneg a (show (T.q : Int) ≠ 0 by omega)
  have m1 := Int.emod_lt_of_pos a (show (0 : Int) < T.q by omega)
  have hdvd : (T.F.p : Int) ∣ (T.q : Int) := by
    have : T.q = T.F.p * T.F.p ^ (T.F.k - 1) := by
      unfold Tables.q Field.q
      rw [← Nat.pow_succ']; congr 1; omega
    exact ⟨((T.F.p ^ (T.F.k - 1) : Nat) : Int), by exact_mod_cast this⟩
  have key : initG T W s a = T.p2l (a % (T.q : Int)).toNat := by
    unfold initG; rw [hc]; unfold want
    by_cases h : a < 0 ∧ a % (T.q : Int) = 0
    · rw [if_pos h, h.2]; exact hp2l0.symm
    · rw [if_neg h]
  have hn : (a % (T.q : Int)).toNat < T.q := by omega
  obtain ⟨r0, r1⟩ := tablesValid_p2l_right T hv _ hn
  refine ⟨key ▸ r0, ?_, Int.emod_emod_of_dvd a hdvd⟩
  unfold convertG
  rw [key, r1]
  exact Int.toNat_of_nonneg m0

/-- **GFqDom<int32_t>: init is the canonical map, every source type, every value** (`int8_t … uint64_t` incl. minima/maxima and
    values ≥ 2^63, `Integer` of any size and sign, every finite integer-valued `float`/`double`), every `q = p^k ≤ 65536`. -/
theorem gfq32_init_canonical (T : Tables) (hv : T.tablesValid = true) (hqm : (T.q : Int) ≤ 65536)
    (s : Src) (a : Int) (ha : s.holds a) :
    initG T 32 s a < T.q ∧ ((convertG T (initG T 32 s a) : Nat) : Int) = a % (T.q : Int) ∧
    (a % (T.q : Int)) % (T.F.p : Int) = a % (T.F.p : Int) :=
  gfq_init_canonical T hv 32 (Or.inl rfl) (by unfold maxQ; simpa using hqm) s a ha

/-- the tables of `GFqDom(3, 1)` (generator 2) -/
def t3 : Tables := { F := ⟨3, 1, 0⟩, mOne := 1, log2pol := #[0, 2, 1], pol2log := #[0, 2, 1], plus1 := #[0, 0, -1] }
example : t3.tablesValid = true := by decide +kernel
example : ((convertG t3 (initG t3 32 .s64 (-9223372036854775808)) : Nat) : Int) = (-9223372036854775808) % 3 := by decide
example : ((convertG t3 (initG t3 32 .u64 18446744073709551615) : Nat) : Int) = 18446744073709551615 % 3 := by decide

/-- **GFqDom<int64_t>: init is the canonical map, every source type, every value**, every `q = p^k ≤ 2^32` — including the
    floating sources of magnitude exactly `2^64` that the unrepaired comparison sent through `(uint64_t)tr`. -/
theorem gfq64_init_canonical (T : Tables) (hv : T.tablesValid = true) (hqm : (T.q : Int) ≤ 4294967296)
    (s : Src) (a : Int) (ha : s.holds a) :
    initG T 64 s a < T.q ∧ ((convertG T (initG T 64 s a) : Nat) : Int) = a % (T.q : Int) ∧
    (a % (T.q : Int)) % (T.F.p : Int) = a % (T.F.p : Int) :=
  gfq_init_canonical T hv 64 (Or.inr rfl) (by unfold maxQ; simpa using hqm) s a ha
example : Src.f64.holds 18446744073709551616 ∧ ((convertG t3 (initG t3 64 .f64 18446744073709551616) : Nat) : Int) = 1 := by
  unfold Src.holds; decide
example : ((convertG t3 (initG t3 64 .f32 (-18446744073709551616)) : Nat) : Int) = 2 := by decide

/-- **init ∘ convert = id** on every element of the field (both storage types), for every source type that holds the lift -/
theorem gfq_init_convert (T : Tables) (hv : T.tablesValid = true) (W : Nat) (hW : W = 32 ∨ W = 64) (hqm : (T.q : Int) ≤ maxQ W)
    (s : Src) (e : Nat) (he : e < T.q) (hs : s.holds (convertG T e : Nat)) : initG T W s (convertG T e : Nat) = e := by
  obtain ⟨hp, hk, hq2, hb⟩ := tablesValid_parts T hv
  obtain ⟨l1, l2⟩ := hb e he
  have hq2' : (2 : Int) ≤ (T.q : Int) := by exact_mod_cast hq2
  have hlq : ((T.l2p e : Nat) : Int) < (T.q : Int) := by exact_mod_cast l1
  have hqm' : (T.q : Int) ≤ 4294967296 := by unfold maxQ at hqm; rcases hW with h | h <;> simp only [h, ↓reduceIte] at hqm <;> omega
  have hc := code_spec W hW (T.q : Int) hq2' hqm s (convertG T e : Nat) hs
  unfold initG
  rw [hc]
  unfold want convertG
  have hnn : ¬ (((T.l2p e : Nat) : Int) < 0 ∧ ((T.l2p e : Nat) : Int) % (T.q : Int) = 0) := by omega
  simp only [hnn, ↓reduceIte]
  rw [Int.emod_eq_of_lt (by omega) hlq]
  simpa using l2
example : initG t3 64 .u8 (convertG t3 2 : Nat) = 2 := by decide

/-- `init()` / `zero`, `one`, `mOne` are the images of 0, 1, −1: `init(0)` is the element 0 (`zero`), `init(1)` the element
    `q − 1` (`one`: `γ^(q-1) = 1`), and for a prime field `init(−1)` is the element the object calls `mOne`; for every exponent
    `mOne` converts to `p − 1` (the constant polynomial `−1`). -/
theorem gfq_constants_are_images (T : Tables) (hv : T.tablesValid = true) (W : Nat) (hW : W = 32 ∨ W = 64) (hqm : (T.q : Int) ≤ maxQ W) :
    initG T W .s32 0 = 0 ∧ convertG T 0 = 0 ∧ convertG T (initG T W .s32 1) = 1 ∧
    convertG T T.mOne.toNat = T.F.p - 1 ∧ (T.F.k = 1 → initG T W .s32 (-1) = T.mOne.toNat) := by
  obtain ⟨hp, hk, hq2, hb⟩ := tablesValid_parts T hv
  have hp2 := hp.two_le
  have hparts := hv
  unfold Tables.tablesValid at hparts
  simp only [Bool.and_eq_true, decide_eq_true_eq, beq_iff_eq] at hparts
  obtain ⟨⟨⟨⟨⟨⟨⟨_, hl0⟩, hm1⟩, hm2⟩, _⟩, _⟩, _⟩, hmo⟩ := hparts
  have e0 := gfq_init_canonical T hv W hW hqm .s32 0 (by unfold Src.holds; omega)
  have e1 := gfq_init_canonical T hv W hW hqm .s32 1 (by unfold Src.holds; omega)
  have em := gfq_init_canonical T hv W hW hqm .s32 (-1) (by unfold Src.holds; omega)
  have hq2' : (2 : Int) ≤ (T.q : Int) := by exact_mod_cast hq2
  -- mOne: csucc (l2p mOne) = 0 forces l2p mOne = p - 1
  have hmOne : T.l2p T.mOne.toNat = T.F.p - 1 := by
    unfold Tables.mOneOk Field.csucc at hmo
    simp only [beq_iff_eq] at hmo
    split at hmo
    · rename_i h
      have : T.l2p T.mOne.toNat % T.F.p ≤ T.l2p T.mOne.toNat := Nat.mod_le _ _
      omega
    · omega
  have hz : initG T W .s32 0 = 0 := by
    have h1 := e0.2.1
    have h0 := e0.1
    simp only [Int.zero_emod] at h1
    have : convertG T (initG T W .s32 0) = 0 := by exact_mod_cast h1
    have hh := (hb _ h0).2
    unfold convertG at this
    rw [this] at hh
    have := (hb 0 (by omega)).2
    rw [hl0] at this
    omega
  refine ⟨hz, hl0, ?_, hmOne, ?_⟩
  · have h1 := e1.2.1
    rw [Int.emod_eq_of_lt (by omega) (by omega)] at h1
    exact_mod_cast h1
  · intro hk1
    have hqp : T.q = T.F.p := by unfold Tables.q Field.q; rw [hk1, Nat.pow_one]
    have h1 := em.2.1
    have hmod : (-1 : Int) % (T.q : Int) = (T.q : Int) - 1 := by
      have e : (-1 : Int) % (T.q : Int) = ((T.q : Int) - 1) % (T.q : Int) := by
        rw [show ((T.q : Int) - 1) = -1 + (T.q : Int) * 1 by ring, Int.add_mul_emod_self_left]
      rw [e]; exact Int.emod_eq_of_lt (by omega) (by omega)
    rw [hmod] at h1
    have hconv : convertG T (initG T W .s32 (-1)) = T.q - 1 := by
      have : ((convertG T (initG T W .s32 (-1)) : Nat) : Int) = ((T.q - 1 : Nat) : Int) := by rw [h1]; omega
      exact_mod_cast this
    have hm0 : T.mOne.toNat < T.q := by omega
    have a1 := (hb _ em.1).2
    have a2 := (hb _ hm0).2
    unfold convertG at hconv
    rw [hconv] at a1
    rw [hmOne, ← hqp] at a2
    omega
example : t3.tablesValid = true ∧ initG t3 32 .s32 (-1) = 1 := by decide +kernel

end Givaro.Props.C04GFq
